/* C12 H-fmt: KSI_snprintf / KSI_vsnprintf / KSI_strncpy of the REAL compatibility.c.
 * vsnprintf is the contract model env/c12_vsnprintf_any.c (any int result).  Buffer sizes are concrete per
 * instance; the destination is an exact-size heap object, so any write beyond n is a bounds violation.
 * Documented behaviour (compatibility.h): KSI_snprintf returns the number of characters written excluding
 * the terminator, at most n-1, 0 on error or n == 0, and the result is always NUL-terminated;
 * KSI_strncpy copies at most n-1 characters and always terminates, returns NULL when n == 0 or an argument is NULL. */
#include "verif.h"
#include "internal.h"
#include "compatibility.h"
#include "ctx.h"
#include "verif_post.h"

#ifndef N
#define N 4          /* size of the destination */
#endif
#ifndef SLEN
#define SLEN 3       /* length of the source string (strncpy) */
#endif
extern unsigned VERIF_vsn_calls;

void harness(void) {
#if defined(H_SNPRINTF)
	char *buf = (char *)verif_buf_alloc(N);
	for (unsigned i = 0; i < N; i++) buf[i] = (char)0x55;
	size_t r = KSI_snprintf(buf, N, "%s-%d", "abc", 7);
#if N == 0
	CHECK(r == 0 && VERIF_vsn_calls == 0, "C12.fmt KSI_snprintf with n = 0 returns 0 without formatting");
	WITNESS_POINT("n = 0");
#else
	CHECK(r <= N - 1, "C12.fmt KSI_snprintf returns at most n-1");
	int nul = 0; for (unsigned i = 0; i < N; i++) if (buf[i] == 0) nul = 1;
	CHECK(nul, "C12.fmt KSI_snprintf output is NUL-terminated inside the buffer");
	if (r == N - 1) WITNESS_POINT("truncated or failed formatting reported as n-1");
#if N >= 3
	if (r == 1 && buf[1] == 0) WITNESS_POINT("short output");
#endif
#endif
	verif_buf_free((u8 *)buf, N);
#elif defined(H_SNPRINTF_NULL)
	size_t r = KSI_snprintf(NULL, N, "%d", 1);
	CHECK(r == 0 && VERIF_vsn_calls == 0, "C12.fmt KSI_snprintf with NULL buffer returns 0 without formatting");
	char b1[1] = {0x55};
	r = KSI_snprintf(b1, 1, NULL);
	CHECK(r == 0 && VERIF_vsn_calls == 0 && b1[0] == 0x55, "C12.fmt KSI_snprintf with NULL format returns 0 without formatting");
	WITNESS_POINT("null arguments");
#elif defined(H_STRNCPY)
	char *src = (char *)verif_buf_alloc(SLEN + 1);
	for (unsigned i = 0; i < SLEN; i++) { char c = (char)ND(u8, ch); ASSUME(c != 0); src[i] = c; }
	src[SLEN] = 0;
	char *dst = (char *)verif_buf_alloc(N);
	for (unsigned i = 0; i < N; i++) dst[i] = (char)0x55;
	char *r = KSI_strncpy(dst, src, N);
#if N == 0
	CHECK(r == NULL, "C12.fmt KSI_strncpy with n = 0 returns NULL");
	WITNESS_POINT("n = 0");
#else
	CHECK(r == dst, "C12.fmt KSI_strncpy returns the destination");
	unsigned want = SLEN < N - 1 ? SLEN : N - 1;
	int same = 1; for (unsigned i = 0; i < N; i++) if (i < want && dst[i] != src[i < SLEN ? i : 0]) same = 0;
	CHECK(same && dst[want] == 0, "C12.fmt KSI_strncpy copies min(len, n-1) characters and terminates");
	CHECK(dst[N - 1] == 0, "C12.fmt KSI_strncpy always terminates at n-1 at the latest");
#if SLEN >= N
	WITNESS_POINT("source truncated");
#else
	WITNESS_POINT("source fits");
#endif
#endif
	CHECK(KSI_strncpy(NULL, src, N) == NULL && KSI_strncpy(dst, NULL, N) == NULL, "C12.fmt KSI_strncpy rejects NULL arguments");
	verif_buf_free((u8 *)dst, N);
	verif_buf_free((u8 *)src, SLEN + 1);
#endif
}
