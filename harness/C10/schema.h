/* C10 oracle: the KSI schema, written by hand from the KSI data-format description (signature /
 * PDU / publications-file structure: which child elements a composite element has, how often
 * each may occur, which are alternatives, which are positional) and from the property text.
 * NOT derived from the C template tables: nothing here includes a libksi header.
 *
 * One entry per child element of a composite element:
 *   tag        TLV type of the child
 *   min, max   occurrence bounds; max = C10_MANY for repeatable elements
 *   need       bit g set: the element belongs to "at least one of" group g
 *   excl       bit g set: the element belongs to "at most one of" group g (all occurrences count)
 *   first      if present it must be the first recognised child
 *   last       if present it must be the last recognised child
 *   rank       0 = no order constraint; otherwise ranks must be non-decreasing along the children
 *   field      storage field the parsed values go to; repeatable elements sharing one field form a
 *              single sequence in input order (left/right links of a hash chain)
 *
 * Unknown elements (tag not in the table): rejected when critical, skipped when flagged
 * non-critical - "skipped" means the remaining children are judged as if it were absent.
 */
#ifndef C10_SCHEMA_H_
#define C10_SCHEMA_H_

#define C10_MANY 0xffffu

struct c10_elem {
	unsigned tag, min, max, need, excl, first, last, rank, field;
};

/* 0x0801 aggregation hash chain: aggregation time, chain index (one or more), optional input data,
 * input hash, aggregation algorithm, then the chain: one or more left (07) / right (08) links. */
#define C10_SCHEMA_KSI_AggregationHashChain { \
	{0x02, 1, 1,        0, 0, 0, 0, 0, 0}, \
	{0x03, 1, C10_MANY, 0, 0, 0, 0, 0, 1}, \
	{0x04, 0, 1,        0, 0, 0, 0, 0, 2}, \
	{0x05, 1, 1,        0, 0, 0, 0, 0, 3}, \
	{0x06, 1, 1,        0, 0, 0, 0, 0, 4}, \
	{0x07, 0, C10_MANY, 1, 0, 0, 0, 0, 5}, \
	{0x08, 0, C10_MANY, 1, 0, 0, 0, 0, 5}, \
}

/* 0x0802 calendar hash chain: publication time, optional aggregation time, input hash, one or more links */
#define C10_SCHEMA_KSI_CalendarHashChain { \
	{0x01, 1, 1,        0, 0, 0, 0, 0, 0}, \
	{0x02, 0, 1,        0, 0, 0, 0, 0, 1}, \
	{0x05, 1, 1,        0, 0, 0, 0, 0, 2}, \
	{0x07, 0, C10_MANY, 1, 0, 0, 0, 0, 3}, \
	{0x08, 0, C10_MANY, 1, 0, 0, 0, 0, 3}, \
}

/* aggregation chain link (07 / 08): optional level correction and exactly one of
 * sibling hash (02), legacy client id (03), metadata (04) */
#define C10_SCHEMA_KSI_HashChainLink { \
	{0x01, 0, 1, 0, 0, 0, 0, 0, 0}, \
	{0x02, 0, 1, 1, 1, 0, 0, 0, 1}, \
	{0x03, 0, 1, 1, 1, 0, 0, 0, 2}, \
	{0x04, 0, 1, 1, 1, 0, 0, 0, 3}, \
}

/* metadata (04 inside a link): optional padding which must come first, client id (mandatory),
 * optional machine id, sequence number, request time */
#define C10_SCHEMA_KSI_MetaDataElement { \
	{0x1e, 0, 1, 0, 0, 1, 0, 0, 0}, \
	{0x01, 1, 1, 0, 0, 0, 0, 0, 1}, \
	{0x02, 0, 1, 0, 0, 0, 0, 0, 2}, \
	{0x03, 0, 1, 0, 0, 0, 0, 0, 3}, \
	{0x04, 0, 1, 0, 0, 0, 0, 0, 4}, \
}

/* 0x0800 signature: one or more aggregation chains, optional calendar chain, at most one of
 * publication record (0803) / calendar authentication record (0805), optional aggregation
 * authentication record, optional RFC 3161 record */
#define C10_SCHEMA_KSI_Signature { \
	{0x0801, 1, C10_MANY, 0, 0, 0, 0, 0, 0}, \
	{0x0802, 0, 1,        0, 0, 0, 0, 0, 1}, \
	{0x0803, 0, 1,        0, 1, 0, 0, 0, 2}, \
	{0x0804, 0, 1,        0, 0, 0, 0, 0, 3}, \
	{0x0805, 0, 1,        0, 1, 0, 0, 0, 4}, \
	{0x0806, 0, 1,        0, 0, 0, 0, 0, 5}, \
}

/* 0x0221 aggregation response PDU (v2): header first, MAC last, at least one payload
 * (response 02, error 03, configuration 04, acknowledgment 05), no payload kind repeated.
 * Presence of header and MAC is the business of the PDU consumer (C06), not of the typed parser. */
#define C10_SCHEMA_KSI_AggregationRespPdu { \
	{0x01, 0, 1, 0, 0, 1, 0, 0, 0}, \
	{0x02, 0, 1, 1, 0, 0, 0, 0, 1}, \
	{0x03, 0, 1, 1, 0, 0, 0, 0, 2}, \
	{0x04, 0, 1, 1, 0, 0, 0, 0, 3}, \
	{0x05, 0, 1, 1, 0, 0, 0, 0, 4}, \
	{0x1f, 0, 1, 0, 0, 0, 1, 0, 5}, \
}

/* 0x0220 aggregation request PDU (v2): header first, MAC last, at least one of request 02,
 * configuration request 04, acknowledgment request 05 */
#define C10_SCHEMA_KSI_AggregationReqPdu { \
	{0x01, 0, 1, 0, 0, 1, 0, 0, 0}, \
	{0x02, 0, 1, 1, 0, 0, 0, 0, 1}, \
	{0x04, 0, 1, 1, 0, 0, 0, 0, 2}, \
	{0x05, 0, 1, 1, 0, 0, 0, 0, 3}, \
	{0x1f, 0, 1, 0, 0, 0, 1, 0, 4}, \
}

/* 0x0321 extension response PDU (v2): header first, MAC last, at least one of response 02,
 * error 03, configuration 04 */
#define C10_SCHEMA_KSI_ExtendRespPdu { \
	{0x01, 0, 1, 0, 0, 1, 0, 0, 0}, \
	{0x02, 0, 1, 1, 0, 0, 0, 0, 1}, \
	{0x03, 0, 1, 1, 0, 0, 0, 0, 2}, \
	{0x04, 0, 1, 1, 0, 0, 0, 0, 3}, \
	{0x1f, 0, 1, 0, 0, 0, 1, 0, 4}, \
}

/* 0x0320 extension request PDU (v2) */
#define C10_SCHEMA_KSI_ExtendReqPdu { \
	{0x01, 0, 1, 0, 0, 1, 0, 0, 0}, \
	{0x02, 0, 1, 1, 0, 0, 0, 0, 1}, \
	{0x04, 0, 1, 1, 0, 0, 0, 0, 2}, \
	{0x1f, 0, 1, 0, 0, 0, 1, 0, 3}, \
}

/* 0x0200 aggregation PDU (v1): optional header, exactly one of request 0201 / response 0202 /
 * error 0203, optional MAC; no positional rule in v1 */
#define C10_SCHEMA_KSI_AggregationPdu { \
	{0x01,  0, 1, 0, 0, 0, 0, 0, 0}, \
	{0x201, 0, 1, 1, 1, 0, 0, 0, 1}, \
	{0x202, 0, 1, 1, 1, 0, 0, 0, 2}, \
	{0x203, 0, 1, 1, 1, 0, 0, 0, 3}, \
	{0x1f,  0, 1, 0, 0, 0, 0, 0, 4}, \
}

/* 0x0300 extension PDU (v1) */
#define C10_SCHEMA_KSI_ExtendPdu { \
	{0x01,  0, 1, 0, 0, 0, 0, 0, 0}, \
	{0x301, 0, 1, 1, 1, 0, 0, 0, 1}, \
	{0x302, 0, 1, 1, 1, 0, 0, 0, 2}, \
	{0x303, 0, 1, 1, 1, 0, 0, 0, 3}, \
	{0x1f,  0, 1, 0, 0, 0, 0, 0, 4}, \
}

/* publications file body (after the magic): header, certificate records, publication records,
 * signature - in this order, header and signature exactly once */
#define C10_SCHEMA_KSI_PublicationsFile { \
	{0x0701, 1, 1,        0, 0, 0, 0, 1, 0}, \
	{0x0702, 0, C10_MANY, 0, 0, 0, 0, 2, 1}, \
	{0x0703, 0, C10_MANY, 0, 0, 0, 0, 3, 2}, \
	{0x0704, 1, 1,        0, 0, 0, 0, 4, 3}, \
}

/* publication record (0803 in a signature, 0703 in a publications file): published data,
 * any number of publication references and repository URIs */
#define C10_SCHEMA_KSI_PublicationRecord { \
	{0x10, 1, 1,        0, 0, 0, 0, 0, 0}, \
	{0x09, 0, C10_MANY, 0, 0, 0, 0, 0, 1}, \
	{0x0a, 0, C10_MANY, 0, 0, 0, 0, 0, 2}, \
}

/* published data (10): publication time and published hash */
#define C10_SCHEMA_KSI_PublicationData { \
	{0x02, 1, 1, 0, 0, 0, 0, 0, 0}, \
	{0x04, 1, 1, 0, 0, 0, 0, 0, 1}, \
}

/* 0x0805 calendar authentication record: published data and signature data */
#define C10_SCHEMA_KSI_CalendarAuthRec { \
	{0x10, 1, 1, 0, 0, 0, 0, 0, 0}, \
	{0x0b, 1, 1, 0, 0, 0, 0, 0, 1}, \
}

/* signature data (0b): signature type, signature value, certificate id, optional repository URI */
#define C10_SCHEMA_KSI_CalAuthRecPKISignedData { \
	{0x01, 1, 1, 0, 0, 0, 0, 0, 0}, \
	{0x02, 1, 1, 0, 0, 0, 0, 0, 1}, \
	{0x03, 1, 1, 0, 0, 0, 0, 0, 2}, \
	{0x04, 0, 1, 0, 0, 0, 0, 0, 3}, \
}

/* signature data of an aggregation authentication record: same structure */
#define C10_SCHEMA_KSI_AggrAuthRecPKISignedData { \
	{0x01, 1, 1, 0, 0, 0, 0, 0, 0}, \
	{0x02, 1, 1, 0, 0, 0, 0, 0, 1}, \
	{0x03, 1, 1, 0, 0, 0, 0, 0, 2}, \
	{0x04, 0, 1, 0, 0, 0, 0, 0, 3}, \
}

/* 0x0804 aggregation authentication record: aggregation time, chain index (one or more), input hash,
 * signature data */
#define C10_SCHEMA_KSI_AggregationAuthRec { \
	{0x02, 1, 1,        0, 0, 0, 0, 0, 0}, \
	{0x03, 1, C10_MANY, 0, 0, 0, 0, 0, 1}, \
	{0x05, 1, 1,        0, 0, 0, 0, 0, 2}, \
	{0x0b, 1, 1,        0, 0, 0, 0, 0, 3}, \
}

/* 0x0806 RFC 3161 record: aggregation time, chain index (one or more), input hash, and the six
 * TSTInfo / signed-attributes fields, all mandatory */
#define C10_SCHEMA_KSI_RFC3161 { \
	{0x02, 1, 1,        0, 0, 0, 0, 0, 0}, \
	{0x03, 1, C10_MANY, 0, 0, 0, 0, 0, 1}, \
	{0x05, 1, 1,        0, 0, 0, 0, 0, 2}, \
	{0x10, 1, 1,        0, 0, 0, 0, 0, 3}, \
	{0x11, 1, 1,        0, 0, 0, 0, 0, 4}, \
	{0x12, 1, 1,        0, 0, 0, 0, 0, 5}, \
	{0x13, 1, 1,        0, 0, 0, 0, 0, 6}, \
	{0x14, 1, 1,        0, 0, 0, 0, 0, 7}, \
	{0x15, 1, 1,        0, 0, 0, 0, 0, 8}, \
}

/* PDU header (01): login id mandatory, optional instance id and message id */
#define C10_SCHEMA_KSI_Header { \
	{0x01, 1, 1, 0, 0, 0, 0, 0, 0}, \
	{0x02, 0, 1, 0, 0, 0, 0, 0, 1}, \
	{0x03, 0, 1, 0, 0, 0, 0, 0, 2}, \
}

/* publications file header (0701): version, creation time, optional repository URI */
#define C10_SCHEMA_KSI_PublicationsHeader { \
	{0x01, 1, 1, 0, 0, 0, 0, 0, 0}, \
	{0x02, 1, 1, 0, 0, 0, 0, 0, 1}, \
	{0x03, 0, 1, 0, 0, 0, 0, 0, 2}, \
}

/* certificate record (0702): certificate id and certificate */
#define C10_SCHEMA_KSI_CertificateRecord { \
	{0x01, 1, 1, 0, 0, 0, 0, 0, 0}, \
	{0x02, 1, 1, 0, 0, 0, 0, 0, 1}, \
}

/* error payload (03 / 0203 / 0303): status mandatory, optional message */
#define C10_SCHEMA_KSI_ErrorPdu { \
	{0x04, 1, 1, 0, 0, 0, 0, 0, 0}, \
	{0x05, 0, 1, 0, 0, 0, 0, 0, 1}, \
}

#endif
