/* C09 H-5: build -> serialise (tree codec tlv.c): a tree built through KSI_TLV_new / KSI_TLV_setRawValue /
 * KSI_TLV_appendNestedTlv is written with the two-byte header exactly when tag <= 0x1f and length <= 0xff,
 * with the length field equal to the real content length, and content that does not fit the 16-bit length
 * field is refused instead of being written with a truncated length.
 * Shape per instance: number of children and all payload lengths (incl. the 0xff/0x100 and 65535/65536
 * boundaries); tags, flags and payload bytes symbolic (large payloads are left unconstrained: the buffers go
 * through CBMC's array theory).  The output is decoded by an independent header reader in the harness. */
#include "verif.h"
#include "internal.h"
#include "tlv.h"
#include "ctx.h"
#include "verif_post.h"
#ifndef NCH
#define NCH 0
#endif
#ifndef LEN0
#define LEN0 3      /* raw payload length of the single element (NCH == 0) or of child 0 */
#endif
#ifndef LEN1
#define LEN1 0
#endif
#ifndef OUTSZ
#define OUTSZ 70000
#endif
static u8 pay0[LEN0 > 0 ? LEN0 : 1], pay1[LEN1 > 0 ? LEN1 : 1];
static u8 out[OUTSZ];
static int hdr_ok(const u8 *b, unsigned tag, int nc, int fw, size_t len, size_t *hl) {
	/* independent check of one header against the format definition */
	if (tag <= 0x1f && len <= 0xff) { *hl = 2; return b[0] == (u8)((nc ? 0x40 : 0) | (fw ? 0x20 : 0) | tag) && b[1] == (u8)len; }
	*hl = 4;
	return b[0] == (u8)(0x80 | (nc ? 0x40 : 0) | (fw ? 0x20 : 0) | (tag >> 8)) && b[1] == (u8)tag && b[2] == (u8)(len >> 8) && b[3] == (u8)len;
}
void harness(void) {
	VERIF_ctx_init(); KSI_CTX *ctx = VERIF_ctx; int res;
	unsigned tag[3]; int nc[3], fw[3];
	for (int k = 0; k < 3; k++) { tag[k] = ND(unsigned, tag); ASSUME(tag[k] <= 0x1fff); nc[k] = ND_BOOL(nc); fw[k] = ND_BOOL(fw); }
#if LEN0 <= 64
	for (unsigned i = 0; i < LEN0; i++) pay0[i] = ND(u8, pay);
#endif
#if LEN1 <= 64
	for (unsigned i = 0; i < LEN1; i++) pay1[i] = ND(u8, pay);
#endif
	KSI_TLV *top = NULL;
	res = KSI_TLV_new(ctx, tag[0], nc[0], fw[0], &top); ASSUME(res == KSI_OK);
	size_t content;
#if NCH == 0
	res = KSI_TLV_setRawValue(top, pay0, LEN0);
	CHECK(res == KSI_OK, "C09.H5 a raw payload below 64 KiB is accepted");
	content = LEN0;
#else
	KSI_TLV *c0 = NULL, *c1 = NULL;
	res = KSI_TLV_new(ctx, tag[1], nc[1], fw[1], &c0); ASSUME(res == KSI_OK);
	res = KSI_TLV_setRawValue(c0, pay0, LEN0); ASSUME(res == KSI_OK);
	res = KSI_TLV_appendNestedTlv(top, c0); ASSUME(res == KSI_OK);
	size_t h0 = (tag[1] <= 0x1f && LEN0 <= 0xff) ? 2 : 4;
	content = h0 + LEN0;
#if NCH == 2
	res = KSI_TLV_new(ctx, tag[2], nc[2], fw[2], &c1); ASSUME(res == KSI_OK);
	res = KSI_TLV_setRawValue(c1, pay1, LEN1); ASSUME(res == KSI_OK);
	res = KSI_TLV_appendNestedTlv(top, c1); ASSUME(res == KSI_OK);
	size_t h1 = (tag[2] <= 0x1f && LEN1 <= 0xff) ? 2 : 4;
	content += h1 + LEN1;
#endif
#endif
	size_t outlen = 0;
	res = KSI_TLV_serialize_ex(top, out, OUTSZ, &outlen);
	if (content > 0xffff) {
		CHECK(res != KSI_OK, "C09.H5 content exceeding the 16-bit length field is refused, not written with a wrong length");
#if NCH * 4 + LEN0 + LEN1 > 0xffff
		WITNESS_POINT("oversized content refused");
#endif
	} else {
		size_t hl = 0;
		CHECK(res == KSI_OK, "C09.H5 content fitting the length field serialises");
		CHECK(hdr_ok(out, tag[0], nc[0], fw[0], content, &hl), "C09.H5 top header: two bytes exactly when tag <= 0x1f and length <= 0xff; flags, tag and real content length encoded");
		CHECK(outlen == hl + content, "C09.H5 total length = header + content");
#if NCH == 0 && LEN0 <= 64
		for (unsigned i = 0; i < LEN0; i++) CHECK(out[hl + i] == pay0[i], "C09.H5 payload bytes written unchanged");
#endif
#if NCH >= 1
		size_t chl = 0;
		CHECK(hdr_ok(out + hl, tag[1], nc[1], fw[1], LEN0, &chl), "C09.H5 first child header encodes its tag, flags and length in the shortest form");
#if LEN0 <= 64
		for (unsigned i = 0; i < LEN0; i++) CHECK(out[hl + chl + i] == pay0[i], "C09.H5 first child payload unchanged");
#endif
#if NCH == 2
		size_t chl1 = 0;
		CHECK(hdr_ok(out + hl + chl + LEN0, tag[2], nc[2], fw[2], LEN1, &chl1), "C09.H5 second child follows the first, header in the shortest form");
#endif
#endif
#if NCH * 4 + LEN0 + LEN1 <= 0xffff
#if NCH * 2 + LEN0 + LEN1 <= 0xff
		if (hl == 2) WITNESS_POINT("two-byte header");
#endif
		if (hl == 4) WITNESS_POINT("four-byte header");
#endif
	}
}
