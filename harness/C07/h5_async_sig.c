/* C07 H-5 (second half): asynchronous signing, KSI_AsyncHandle_getSignature -> createSignature (net_async.c, real).
 * (The first half - a handle only receives a response that was MAC-verified, carries the handle's own 64-bit id, passed
 *  KSI_AggregationResp_verifyWithRequest against the handle's request and has status 0 - is harness C06 h5_async.)
 * Callees outside net_async.c are stubs with symbolic status (c07_gates.h).  For all callee outcomes:
 *   success => builder opened from the HANDLE's response, closed unverified with the level of the HANDLE's own request,
 *              then verified with the internal policy against the hash of the HANDLE's own request - in this order, all OK;
 *              the returned signature is that verified object;
 *   any failure => error status, *signature untouched, half-built signature released, builder released once.
 *   a handle without request or without response yields KSI_INVALID_STATE and touches nothing. */
#include "verif.h"
#include "internal.h"
#include "net_async.h"
#include "signature_builder.h"
#include "impl/signature_builder_impl.h"
#include "net.h"
#include "net_tcp.h"
#include "net_http.h"
#include "impl/net_async_impl.h"
#include "impl/net_uri_impl.h"
#include "impl/ctx_impl.h"
#include "impl/hash_impl.h"
#include "policy.h"
#include "ctx.h"
#include "verif_post.h"
#include "types_base.c"
#define C07_HAVE_PUBREC_FREE 1
#define C07_HAVE_CALCHAIN_FREE 1
#define C07_MODEL_SIG_FREE 1
#include "c07_gates.h"

#ifndef HAS_REQ
#define HAS_REQ 1
#endif
#ifndef HAS_RESP
#define HAS_RESP 1
#endif

struct KSI_AggregationReq_st { KSI_DataHash *hash; KSI_Integer *level; };
struct KSI_AggregationResp_st { int x; };
static KSI_AggregationReq m_req; static KSI_AggregationResp m_resp;
static KSI_DataHash req_hash;
static int st_getlevel, st_gethash, n_getlevel, n_gethash; static unsigned at_getlevel, at_gethash;
static KSI_Policy internal_policy_obj;
const KSI_Policy *KSI_VERIFICATION_POLICY_INTERNAL = &internal_policy_obj;

static KSI_Integer *mk_int(u64 v) { KSI_Integer *i = malloc(sizeof(*i)); ASSUME(i != NULL); i->ref = 1; i->value = v; return i; }

int KSI_SignatureBuilder_openFromAggregationResp(const KSI_AggregationResp *resp, KSI_SignatureBuilder **builder) {
	int s = gate(G_OPEN, resp == &m_resp);
	if (s != KSI_OK) return s;
	*builder = c07_open_builder(VERIF_ctx); return KSI_OK;
}
int KSI_AggregationReq_getRequestLevel(const KSI_AggregationReq *t, KSI_Integer **l) { n_getlevel++; at_getlevel = ++g_seq; st_getlevel = ND(int, getlevel_status); if (st_getlevel != KSI_OK) return st_getlevel; *l = t->level; return KSI_OK; }
int KSI_AggregationReq_getRequestHash(const KSI_AggregationReq *t, KSI_DataHash **h) { n_gethash++; at_gethash = ++g_seq; st_gethash = ND(int, gethash_status); if (st_gethash != KSI_OK) return st_gethash; *h = t->hash; return KSI_OK; }
/* not reached on these paths but referenced by code in the same functions */
void KSI_AggregationReq_free(KSI_AggregationReq *t) { (void)t; }
void KSI_ExtendReq_free(KSI_ExtendReq *t) { (void)t; }

#include "net_async.c"

static const int GATES[] = {G_OPEN, G_CLOSE, G_VERIFY};

void harness(void) {
	VERIF_ctx_init();
	KSI_CTX *ctx = VERIF_ctx;
	int res;
	u64 level = ND(u64, req_level);
	int has_level = ND_BOOL(req_has_level);
	req_hash.ctx = ctx; req_hash.ref = 1; req_hash.imprint_length = 33; req_hash.imprint[0] = KSI_HASHALG_SHA2_256;
	m_req.hash = &req_hash; m_req.level = has_level ? mk_int(level) : NULL;
	static KSI_AsyncHandle H;
	memset(&H, 0, sizeof(H));
	H.ctx = ctx; H.ref = 1; H.state = KSI_ASYNC_STATE_RESPONSE_RECEIVED;
	H.aggrReq = HAS_REQ ? &m_req : NULL;
	H.respCtx = HAS_RESP ? &m_resp : NULL;
	KSI_Signature *marker = (KSI_Signature *)&internal_policy_obj, *out = marker;

	res = KSI_AsyncHandle_getSignature(&H, &out);

#if !HAS_REQ || !HAS_RESP
	CHECK(res == KSI_INVALID_STATE && out == marker && g_seq == 0, "C07.H5 a handle without request or response yields KSI_INVALID_STATE and nothing is built");
	WITNESS_POINT("incomplete handle refused");
#else
	CHECK(nothing_after_failure(GATES, 3), "C07.H5 no gate is reached after an earlier one failed");
	if (res == KSI_OK) {
		CHECK(gates_ok_in_order(GATES, 3), "C07.H5 success only after open, close, verify all returned OK in this order on the same objects");
		CHECK(n_getlevel == 1 && st_getlevel == KSI_OK && n_gethash == 1 && st_gethash == KSI_OK, "C07.H5 level and hash are read from the handle's request");
		CHECK(g_at[G_OPEN] < at_getlevel && at_getlevel < g_at[G_CLOSE] && g_at[G_CLOSE] < at_gethash && at_gethash < g_at[G_VERIFY], "C07.H5 order: open, level, close, hash, verify");
		CHECK(m_close_noverify == 1 && m_close_level == (has_level ? level : 0), "C07.H5 the builder is closed unverified with the level of the handle's own request (none = 0)");
		CHECK(m_verify_doc == &req_hash && m_verify_level == 0 && m_verify_policy == &internal_policy_obj && m_verify_ctx == NULL, "C07.H5 the signature is verified internally against the hash of the handle's own request");
		CHECK(out == &m_sig_obj && SIG_ALIVE_AND_OWNED(), "C07.H5 the returned signature is the verified object and is alive");
		if (has_level && level == 0xff) WITNESS_POINT("async signature at level 255");
		if (!has_level) WITNESS_POINT("async signature without level element");
	} else {
		CHECK(out == marker, "C07.H5 no signature is returned together with an error");
		CHECK(m_builder == NULL || SIG_RELEASED(), "C07.H5 a signature under construction is released on failure");
		if (g_calls[G_VERIFY] == 1 && g_status[G_VERIFY] != KSI_OK) WITNESS_POINT("async: final verification failed, nothing returned");
		if (n_gethash == 1 && st_gethash != KSI_OK) WITNESS_POINT("async: reading the request hash failed");
	}
	CHECK(m_builder_freed == (m_builder != NULL ? 1 : 0), "C07.H5 the builder is released exactly once");
	CHECK(req_hash.ref == 1, "C07.H5 the request's hash keeps its reference count");
#endif
}
