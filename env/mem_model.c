/* memcpy / memmove as plain byte loops (ISO C semantics; memmove copies in the direction that is safe for
 * overlapping regions).  Used instead of CBMC's built-in models where code under test may - in a defective
 * version - call them with a SYMBOLIC size: the built-in models then build variable-length array copies that the
 * symbolic executor does not finish, whereas a loop is cut by the unwinding bound (harness_unwind) and reported.
 * With a concrete size the loop unrolls exactly.  Every byte access is checked by CBMC / ASan as usual. */
#include <stddef.h>
void *memcpy(void *dst, const void *src, size_t n) {
	unsigned char *d = (unsigned char *)dst; const unsigned char *s = (const unsigned char *)src;
	for (size_t i = 0; i < n; i++) d[i] = s[i];
	return dst;
}
void *memmove(void *dst, const void *src, size_t n) {
	unsigned char *d = (unsigned char *)dst; const unsigned char *s = (const unsigned char *)src;
	if ((const unsigned char *)d <= s) { for (size_t i = 0; i < n; i++) d[i] = s[i]; }
	else { for (size_t i = n; i > 0; i--) d[i - 1] = s[i - 1]; }
	return dst;
}
