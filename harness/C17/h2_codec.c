/* C17 H-2: the bit packers of base32.c against a reference packer written from RFC 4648.
 *
 * MODE 1 (decode): a string of NSYM symbolic alphabet symbols with a '-' after every GROUP symbols (GROUP 0: none).
 *   KSI_base32Decode returns floor(5*NSYM/8) bytes; byte i = bits 8i..8i+7 of the concatenated 5-bit values
 *   (addBits).
 * MODE 2 (encode, then decode): NDATA symbolic bytes, group length GROUP.  KSI_base32Encode returns a
 *   NUL-terminated string inside its buffer; data symbol j = bits 5j..5j+4 of the data, zero padded (readNextBits),
 *   written with the RFC 4648 alphabet; a '-' follows every GROUP-th data symbol when another data symbol follows;
 *   after the data symbols come exactly as many '=' as are needed to make the number of symbols a multiple of 8
 *   (RFC 4648 padding; where the encoder puts dashes inside the padding is not specified by anything and is
 *   therefore not compared); KSI_base32Decode of that string returns exactly the NDATA bytes (decode o encode = id).
 * Lengths are concrete per instance, all data symbolic. */
#include "verif.h"
#include "internal.h"
#include "base32.h"
#include "ctx.h"
#include "verif_post.h"
#include "c17_ref.h"
#include "c17_strlen.h"
#include "base32.c"

#ifndef MODE
#define MODE 1
#endif
#ifndef GROUP
#define GROUP 6
#endif

#if MODE == 1
#ifndef NSYM
#define NSYM 8
#endif
#define NDASH ((GROUP) > 0 ? (NSYM - 1) / (GROUP) : 0)
#define SLEN (NSYM + NDASH)
#define NOUT ((NSYM * 5) / 8)
void harness(void) {
	VERIF_ctx_init();
	char s[SLEN + 1]; u8 val[NSYM]; unsigned k = 0;
	for (unsigned j = 0; j < NSYM; j++) {
		val[j] = ND(u8, sym); ASSUME(val[j] < 32);
		s[k++] = c17_sym_char(val[j]);
		if (GROUP > 0 && (j + 1) % (GROUP > 0 ? GROUP : 1) == 0 && j + 1 < NSYM) s[k++] = '-';
	}
	s[k] = 0;
	c17_expected_len = SLEN;
	unsigned char *out = NULL; size_t out_len = 0;
	int res = KSI_base32Decode(s, &out, &out_len);
	CHECK(res == KSI_OK && out != NULL, "C17.H2 a string of alphabet symbols and dashes decodes");
	if (res != KSI_OK || out == NULL) return;
	CHECK(out_len == NOUT, "C17.H2 decoded length = floor(5 * symbols / 8)");
	for (unsigned i = 0; i < NOUT; i++)
		if (i < out_len) CHECK(out[i] == c17_stream_byte(val, i), "C17.H2 decoded byte i = bits 8i..8i+7 of the symbol stream");
	if (val[0] == 31 && val[NSYM - 1] == 1) WITNESS_POINT("symbols decoded");
	KSI_free(out);
}
#else
#ifndef NDATA
#define NDATA 5
#endif
#define S_DATA ((8 * NDATA + 4) / 5)                 /* data symbols */
#define S_TOTAL (((S_DATA) + 7) / 8 * 8)             /* with padding */
#define DATA_DASH ((GROUP) > 0 ? (S_DATA - 1) / (GROUP) : 0)
#define MAXSTR (2 * S_TOTAL + 2)
void harness(void) {
	VERIF_ctx_init();
	u8 *d = verif_buf_alloc(NDATA);
	for (unsigned i = 0; i < NDATA; i++) d[i] = ND(u8, data);
	char *enc = NULL;
	int res = KSI_base32Encode(d, NDATA, GROUP, &enc);
	CHECK(res == KSI_OK && enc != NULL, "C17.H2 non-empty data encodes");
	if (res != KSI_OK || enc == NULL) return;

	/* data part: S_DATA symbols, a dash after every GROUP-th one while more data symbols follow */
	unsigned k = 0;
	for (unsigned j = 0; j < S_DATA; j++) {
		CHECK(enc[k] == c17_sym_char(c17_data_symbol(d, NDATA, j)), "C17.H2 data symbol j = bits 5j..5j+4 of the data in the RFC 4648 alphabet");
		k++;
		if (GROUP > 0 && (j + 1) % (GROUP > 0 ? GROUP : 1) == 0 && j + 1 < S_DATA) {
			CHECK(enc[k] == '-', "C17.H2 a dash follows every full group of data symbols");
			k++;
		}
	}
	/* padding part: '=' up to a multiple of 8 symbols, dashes anywhere, then NUL */
	unsigned pads = 0, extra = 0; int ended = 0;
	for (unsigned q = 0; q < MAXSTR; q++) {
		if (!ended) {
			char c = enc[k + q];
			if (c == 0) { ended = 1; extra = q; }
			else if (c == '=') pads++;
			else CHECK(c == '-', "C17.H2 after the data symbols only '=' and '-' follow");
		}
	}
	CHECK(ended, "C17.H2 encoded string is terminated");
	CHECK(pads == S_TOTAL - S_DATA, "C17.H2 padded with '=' to a multiple of 8 symbols");
	if (!ended) return;

	/* decode o encode = id */
	c17_expected_len = k + extra;
	unsigned char *back = NULL; size_t back_len = 0;
	res = KSI_base32Decode(enc, &back, &back_len);
	CHECK(res == KSI_OK && back != NULL, "C17.H2 the encoder's output decodes");
	if (res != KSI_OK || back == NULL) return;
	CHECK(back_len == NDATA, "C17.H2 decode(encode(d)) has the length of d");
	for (unsigned i = 0; i < NDATA; i++) if (i < back_len) CHECK(back[i] == d[i], "C17.H2 decode(encode(d)) = d");
	if (d[0] == 0xff && d[NDATA - 1] == 0x01) WITNESS_POINT("data encoded and decoded");
	KSI_free(back); KSI_free(enc); verif_buf_free(d, NDATA);
}
#endif
