/* C13: arbitrary invariant-satisfying KSI_AsyncClient state, transport stub, invariant checker.
 * Include AFTER c13_model.h and AFTER `#include "net_async.c"`.
 *
 * Shape (compile-time per instance): CACHE_S = options[KSI_ASYNC_OPT_REQUEST_CACHE_SIZE] = configured
 * cache size + 1 (slot 0 is reserved).  Symbolic: which slots are occupied, every handle's state, id
 * generation, reference count split between cache and transport, error fields, clocks; cursor, tail,
 * generation counter; serverConf presence/kind/state; receive timeout; endpoint id.
 *
 * Inv(c)  (representation invariant of the client; every clause is re-established by every step
 *          harness and witnessed from the constructor by the bounded-history harness):
 *  I1  S = options[CACHE_SIZE] >= 2, reqCache != NULL, reqCache[0] == NULL
 *  I2  1 <= tail < S, requestCount < S, requestCountOffset < 0xff
 *  I3  every occupied slot i (1 <= i < S) holds a live handle h with (h->id & 0xffffffff) == i,
 *      h->id >> 32 < 0xff, state in {WAITING_FOR_DISPATCH, WAITING_FOR_RESPONSE, RESPONSE_RECEIVED, ERROR},
 *      ref >= 1, a request object attached; RESPONSE_RECEIVED => respCtx != NULL with its destructor,
 *      otherwise respCtx == NULL; not ERROR => errMsg == NULL;
 *      different slots hold different handles, none of them is serverConf
 *  I4  serverConf is NULL or a live handle in {WAITING_FOR_DISPATCH, WAITING_FOR_RESPONSE, ERROR,
 *      PUSH_CONFIG_RECEIVED}; PUSH_CONFIG_RECEIVED <=> respCtx != NULL (the configuration);
 *      in the other three states it carries a request object (it was submitted by the user)
 *  I5  pending  = #slots in {WAITING_FOR_DISPATCH, WAITING_FOR_RESPONSE, ERROR} + [serverConf in one of these]
 *      received = #slots in RESPONSE_RECEIVED + [serverConf in PUSH_CONFIG_RECEIVED]
 *  I6  pending + received <= configured cache size (= S - 1), not counting a configuration the server
 *      pushed without being asked (serverConf in PUSH_CONFIG_RECEIVED without a request object): that is
 *      the documented meaning of KSI_ASYNC_OPT_REQUEST_CACHE_SIZE ("maximum parallel running request
 *      count") and what the cache-full test of asyncClient_calculateRequestId relies on.
 */
#ifndef C13_STATE_H_
#define C13_STATE_H_

#ifndef CACHE_S
#define CACHE_S 3
#endif
#ifndef EXT_FLAVOUR
#define EXT_FLAVOUR 0      /* 0 = aggregator service, 1 = extender service */
#endif

/* ------------------------------------------------------------------ (M4) transport stub */
#ifndef C13_ADD_MAX
#define C13_ADD_MAX 2
#endif
struct c13_transport {
	/* references the transport owns (send queue): by origin, never stored at a symbolic index */
	KSI_AsyncHandle *held_pre[CACHE_S];   /* pre-state handle of slot i (index 0: serverConf) */
	KSI_AsyncHandle *held_add[C13_ADD_MAX]; /* k-th handle accepted during the step */
	unsigned add_calls, add_accepted;
	KSI_AsyncHandle *last_added;
	KSI_OctetString *resp[3];             /* receive queue, filled by the harness */
	unsigned nresp, resp_taken;
	int dispatch_calls;
	int dispatch_res;
	unsigned get_calls; int get_failed;
};
static struct c13_transport c13_tr;
static const char c13_user[2] = "u";
static const char c13_pass[2] = "p";

static int c13_tr_addRequest(void *impl, KSI_AsyncHandle *h) {
	struct c13_transport *t = (struct c13_transport *)impl;
	t->add_calls++;
	int res = C13_ND_STATUS(transport_add);
	if (res != KSI_OK) return res;                 /* refused: handle untouched, reference stays with the caller */
	h->state = KSI_ASYNC_STATE_WAITING_FOR_DISPATCH;
	time(&h->reqTime);
	for (unsigned k = 0; k < C13_ADD_MAX; k++) if (k == t->add_accepted) t->held_add[k] = h;
	t->add_accepted++;
	t->last_added = h;
	return KSI_OK;
}
static int c13_tr_getCredentials(void *impl, const char **user, const char **pass) {
	(void)impl;
#ifndef C13_CREDENTIALS_OK
	int res = C13_ND_STATUS(credentials);
	if (res != KSI_OK) return res;
#endif
	if (user != NULL) *user = c13_user;
	if (pass != NULL) *pass = c13_pass;
	return KSI_OK;
}
/* dispatch: every handle the transport holds that is WAITING_FOR_DISPATCH may be sent, fail, or stay */
static void c13_tr_dispatch_one(KSI_AsyncHandle *h) {
	if (h != NULL && h->state == KSI_ASYNC_STATE_WAITING_FOR_DISPATCH) {
		unsigned what = ND(unsigned, dispatch_outcome);
		if (what == 1) { h->state = KSI_ASYNC_STATE_WAITING_FOR_RESPONSE; h->sndTime = c13_now; }
		else if (what == 2) {
			int e = ND(int, dispatch_handle_error);
			__CPROVER_assume(e != KSI_OK && e != KSI_ASYNC_CONNECTION_CLOSED && e != KSI_NETWORK_RECIEVE_TIMEOUT);
			h->state = KSI_ASYNC_STATE_ERROR; h->err = e;
		}
	}
}
static int c13_tr_dispatch(void *impl) {
	struct c13_transport *t = (struct c13_transport *)impl;
	t->dispatch_calls++;
	for (unsigned i = 0; i < CACHE_S; i++) c13_tr_dispatch_one(t->held_pre[i]);
	for (unsigned i = 0; i < C13_ADD_MAX; i++) c13_tr_dispatch_one(t->held_add[i]);
	unsigned r = ND(unsigned, dispatch_result);
	t->dispatch_res = KSI_OK;
	if (r == 1) t->dispatch_res = KSI_ASYNC_CONNECTION_CLOSED;
	if (r == 2) {
		int e = ND(int, dispatch_error);
		__CPROVER_assume(e != KSI_OK && e != KSI_ASYNC_CONNECTION_CLOSED && e != KSI_NETWORK_RECIEVE_TIMEOUT);
		t->dispatch_res = e;
	}
	return t->dispatch_res;
}
static int c13_tr_getResponse(void *impl, KSI_OctetString **response, size_t *left) {
	struct c13_transport *t = (struct c13_transport *)impl;
	if (response == NULL || left == NULL) return KSI_INVALID_ARGUMENT;
	/* the bookkeeping is kept free of the symbolic outcome so that the number of queued responses (and with it
	 * the iteration count of processResponseQueue) stays concrete; a failing call loses the response it was about
	 * to hand out */
	KSI_OctetString *o = NULL;
	if (t->resp_taken < t->nresp && t->resp_taken < 3) o = t->resp[t->resp_taken];
	t->resp_taken++;
	t->get_calls++;
	*left = (t->resp_taken < t->nresp) ? t->nresp - t->resp_taken : 0;
	int res = C13_ND_STATUS(transport_get);
	if (res != KSI_OK) { t->get_failed = res; o = NULL; }
	*response = o;
	return res;
}

/* ------------------------------------------------------------------ pre-state */
struct c13_hsnap { KSI_AsyncHandle *h; int state; KSI_uint64_t id; int err; long errExt; void *respCtx; size_t ref; time_t sndTime; KSI_Utf8String *errMsg; };
struct c13_snap {
	struct c13_hsnap slot[CACHE_S];
	struct c13_hsnap conf;
	size_t pending, received, requestCount, tail, offset;
	unsigned nocc;
};

static int c13_is_slot_state(int s) {
	return s == KSI_ASYNC_STATE_WAITING_FOR_DISPATCH || s == KSI_ASYNC_STATE_WAITING_FOR_RESPONSE
		|| s == KSI_ASYNC_STATE_RESPONSE_RECEIVED || s == KSI_ASYNC_STATE_ERROR;
}
static int c13_is_pending_state(int s) {
	return s == KSI_ASYNC_STATE_WAITING_FOR_DISPATCH || s == KSI_ASYNC_STATE_WAITING_FOR_RESPONSE || s == KSI_ASYNC_STATE_ERROR;
}

static void c13_attach_request(KSI_CTX *ctx, KSI_AsyncHandle *h, KSI_uint64_t id, int hasReq, int hasCnf) {
	int res;
#if EXT_FLAVOUR
	KSI_ExtendReq *r = NULL;
	res = KSI_ExtendReq_new(ctx, &r); ASSUME(res == KSI_OK);
	if (hasReq) { res = KSI_Integer_new(ctx, 1500000000, &r->aggregationTime); ASSUME(res == KSI_OK); res = KSI_Integer_new(ctx, id, &r->requestId); ASSUME(res == KSI_OK); }
	if (hasCnf) { res = KSI_Config_new(ctx, &r->config); ASSUME(res == KSI_OK); }
	h->extReq = r;
#else
	KSI_AggregationReq *r = NULL;
	res = KSI_AggregationReq_new(ctx, &r); ASSUME(res == KSI_OK);
	if (hasReq) { r->requestHash = (KSI_DataHash *)&c13_dummy_hash; res = KSI_Integer_new(ctx, id, &r->requestId); ASSUME(res == KSI_OK); }
	if (hasCnf) { res = KSI_Config_new(ctx, &r->config); ASSUME(res == KSI_OK); }
	h->aggrReq = r;
#endif
}
static void *c13_request_of(const KSI_AsyncHandle *h) {
#if EXT_FLAVOUR
	return (void *)h->extReq;
#else
	return (void *)h->aggrReq;
#endif
}
static void c13_resp_free(void *p) {
#if EXT_FLAVOUR
	KSI_ExtendResp_free((KSI_ExtendResp *)p);
#else
	KSI_AggregationResp_free((KSI_AggregationResp *)p);
#endif
}

/* an arbitrary occupied-slot handle in an arbitrary slot state */
static KSI_AsyncHandle *c13_mk_slot_handle(KSI_CTX *ctx, const size_t slot) {
	KSI_AsyncHandle *h = NULL;
	int res = KSI_AbstractAsyncHandle_new(ctx, &h); ASSUME(res == KSI_OK && h != NULL);
	KSI_uint64_t gen = ND(u64, slot_generation); ASSUME(gen < KSI_ASYNC_REQUEST_ID_OFFSET_MAX);
	h->id = (gen << KSI_ASYNC_REQUEST_ID_OFFSET) | (KSI_uint64_t)slot;
	c13_attach_request(ctx, h, h->id, 1, 0);
	int st = ND(int, slot_state); ASSUME(c13_is_slot_state(st));
	h->state = st;
	_Bool heldByTransport = ND_BOOL(slot_in_transport);
	h->ref = 1;
	if (heldByTransport) { h->ref = 2; c13_tr.held_pre[slot] = h; }
	h->reqTime = ND(long, slot_req_time); h->sndTime = ND(long, slot_snd_time);
	ASSUME(0 <= h->reqTime && h->reqTime <= h->sndTime && h->sndTime <= c13_now);
	h->parentId = ND(size_t, slot_parent);
	if (st == KSI_ASYNC_STATE_RESPONSE_RECEIVED) {
#if EXT_FLAVOUR
		KSI_ExtendResp *r = NULL; res = KSI_ExtendResp_new(ctx, &r);
#else
		KSI_AggregationResp *r = NULL; res = KSI_AggregationResp_new(ctx, &r);
#endif
		ASSUME(res == KSI_OK && r != NULL);
		h->respCtx = r; h->respCtx_free = c13_resp_free;
	}
	if (st == KSI_ASYNC_STATE_ERROR) {
		h->err = ND(int, slot_err);   /* may even be KSI_OK: an error PDU with status 0 fails handles with code 0 */
		h->errExt = ND(long, slot_err_ext);
		if (ND_BOOL(slot_has_errmsg)) { res = KSI_Utf8String_new(ctx, c13_user, 2, &h->errMsg); ASSUME(res == KSI_OK); }
	}
	return h;
}

/* serverConf kinds: 0 none, 1 user configuration request still pending (WFD/WFR/ERROR),
 * 2 configuration received (requested by the user or pushed) and not yet returned */
static KSI_AsyncHandle *c13_mk_conf_handle(KSI_CTX *ctx, int kind) {
	KSI_AsyncHandle *h = NULL;
	int res = KSI_AbstractAsyncHandle_new(ctx, &h); ASSUME(res == KSI_OK && h != NULL);
	h->ref = 1;
	if (ND_BOOL(conf_in_transport)) { h->ref = 2; c13_tr.held_pre[0] = h; }
	h->reqTime = ND(long, conf_req_time); h->sndTime = ND(long, conf_snd_time);
	ASSUME(0 <= h->reqTime && h->reqTime <= h->sndTime && h->sndTime <= c13_now);
	if (kind == 1) {
		int st = ND(int, conf_state); ASSUME(c13_is_pending_state(st));
		h->state = st;
		c13_attach_request(ctx, h, 0, 0, 1);
		if (st == KSI_ASYNC_STATE_ERROR) { h->err = ND(int, conf_err); }
	} else {
		h->state = KSI_ASYNC_STATE_PUSH_CONFIG_RECEIVED;
		if (ND_BOOL(conf_was_requested)) c13_attach_request(ctx, h, 0, 0, 1);
		KSI_Config *cfg = NULL; res = KSI_Config_new(ctx, &cfg); ASSUME(res == KSI_OK);
		h->respCtx = cfg; h->respCtx_free = (void (*)(void *))KSI_Config_free;
	}
	return h;
}

static int c13_is_pushed_conf(const KSI_AsyncHandle *h) {
	return h != NULL && h->state == KSI_ASYNC_STATE_PUSH_CONFIG_RECEIVED && h->aggrReq == NULL && h->extReq == NULL;
}
static void c13_snap_handle(struct c13_hsnap *s, KSI_AsyncHandle *h) {
	s->h = h;
	if (h != NULL) { s->state = h->state; s->id = h->id; s->err = h->err; s->errExt = h->errExt; s->respCtx = h->respCtx; s->ref = h->ref; s->sndTime = h->sndTime; s->errMsg = h->errMsg; }
	else { s->state = 0; s->id = 0; s->err = 0; s->errExt = 0; s->respCtx = NULL; s->ref = 0; s->sndTime = 0; s->errMsg = NULL; }
}
static void c13_snapshot(const KSI_AsyncClient *c, struct c13_snap *s) {
	s->nocc = 0;
	for (size_t i = 0; i < CACHE_S; i++) { c13_snap_handle(&s->slot[i], c->reqCache[i]); if (c->reqCache[i] != NULL) s->nocc++; }
	c13_snap_handle(&s->conf, c->serverConf);
	s->pending = c->pending; s->received = c->received; s->requestCount = c->requestCount; s->tail = c->tail; s->offset = c->requestCountOffset;
}

#ifndef CONF_KIND
#define CONF_KIND -1      /* -1: symbolic among 0,1,2 */
#endif

/* Build the client with the real constructor and option setter, then install an arbitrary Inv-state. */
static KSI_AsyncClient *c13_mk_client(KSI_CTX *ctx, struct c13_snap *pre) {
	KSI_AsyncClient *c = NULL;
	int res;
	memset(&c13_tr, 0, sizeof(c13_tr));
	c13_now = ND(long, now); ASSUME(0 <= c13_now && c13_now < C13_TIME_MAX);
	res = KSI_AbstractAsyncClient_new(ctx, &c); ASSUME(res == KSI_OK && c != NULL);
	c->clientImpl = &c13_tr;
	c->clientImpl_free = NULL;
	c->addRequest = c13_tr_addRequest;
	c->getResponse = (int (*)(void *, KSI_OctetString **, size_t *))c13_tr_getResponse;
	c->getCredentials = c13_tr_getCredentials;
	c->dispatch = c13_tr_dispatch;
	res = asyncClient_setOption(c, KSI_ASYNC_OPT_REQUEST_CACHE_SIZE, (void *)(size_t)(CACHE_S - 1)); ASSUME(res == KSI_OK);
	{
		size_t tmo = ND(size_t, rcv_timeout);
		res = asyncClient_setOption(c, KSI_ASYNC_OPT_RCV_TIMEOUT, (void *)tmo); ASSUME(res == KSI_OK);
		c13_difftime_threshold = tmo; c13_difftime_threshold_set = 1;
	}
	res = asyncClient_setOption(c, KSI_ASYNC_PRIVOPT_ENDPOINT_ID, (void *)ND(size_t, endpoint_id)); ASSUME(res == KSI_OK);

	size_t pending = 0, received = 0;
	for (size_t i = 1; i < CACHE_S; i++) {
		if (ND_BOOL(slot_occupied)) {
			KSI_AsyncHandle *h = c13_mk_slot_handle(ctx, i);
			c->reqCache[i] = h;
			if (h->state == KSI_ASYNC_STATE_RESPONSE_RECEIVED) received++; else pending++;
		}
	}
#if CONF_KIND < 0
	int kind = ND(int, conf_kind); ASSUME(kind >= 0 && kind <= 2);
#else
	int kind = CONF_KIND;
#endif
	if (kind != 0) {
		c->serverConf = c13_mk_conf_handle(ctx, kind);
		if (kind == 1) pending++; else received++;
	}
	c->pending = pending; c->received = received;
	ASSUME(pending + received <= (size_t)(CACHE_S - 1) + (c13_is_pushed_conf(c->serverConf) ? 1 : 0));   /* I6 */
	c->requestCount = ND(size_t, cursor); ASSUME(c->requestCount < CACHE_S);
#ifdef TAIL_POS      /* scan position fixed by the instance (it decides the order in which slots are visited) */
	c->tail = TAIL_POS;
#else
	c->tail = ND(size_t, tail); ASSUME(c->tail >= KSI_ASYNC_CACHE_START_POS && c->tail < CACHE_S);
#endif
	c->requestCountOffset = ND(size_t, generation); ASSUME(c->requestCountOffset < KSI_ASYNC_REQUEST_ID_OFFSET_MAX);
	if (pre != NULL) c13_snapshot(c, pre);
	return c;
}

/* ------------------------------------------------------------------ Inv(c) */
static void c13_check_inv(const KSI_AsyncClient *c) {
	CHECK(c->options[KSI_ASYNC_OPT_REQUEST_CACHE_SIZE] == CACHE_S && c->reqCache != NULL && c->reqCache[0] == NULL, HN " Inv I1: cache size unchanged, slot 0 stays reserved");
	CHECK(c->tail >= 1 && c->tail < CACHE_S && c->requestCount < CACHE_S && c->requestCountOffset < KSI_ASYNC_REQUEST_ID_OFFSET_MAX, HN " Inv I2: tail, cursor and generation stay in range");
	size_t pending = 0, received = 0;
	int slotsOk = 1, distinct = 1;
	for (size_t i = 1; i < CACHE_S; i++) {
		const KSI_AsyncHandle *h = c->reqCache[i];
		if (h != NULL) {
			if ((h->id & KSI_ASYNC_REQUEST_ID_MASK) != i || (h->id >> KSI_ASYNC_REQUEST_ID_OFFSET) >= KSI_ASYNC_REQUEST_ID_OFFSET_MAX) slotsOk = 0;
			if (!c13_is_slot_state(h->state) || h->ref < 1 || c13_request_of(h) == NULL) slotsOk = 0;
			if ((h->state == KSI_ASYNC_STATE_RESPONSE_RECEIVED) != (h->respCtx != NULL)) slotsOk = 0;
			if (h->respCtx != NULL && h->respCtx_free == NULL) slotsOk = 0;
			if (h->state != KSI_ASYNC_STATE_ERROR && h->errMsg != NULL) slotsOk = 0;
			if (h->state == KSI_ASYNC_STATE_RESPONSE_RECEIVED) received++; else pending++;
			for (size_t j = 1; j < i; j++) if (c->reqCache[j] == h) distinct = 0;
			if (c->serverConf == h) distinct = 0;
		}
	}
	CHECK(slotsOk, HN " Inv I3: every cached handle sits in the slot named by its id, in a cache state, response attached iff RESPONSE_RECEIVED");
	CHECK(distinct, HN " Inv I3: no handle is cached twice");
	if (c->serverConf != NULL) {
		const KSI_AsyncHandle *h = c->serverConf;
		int ok = (c13_is_pending_state(h->state) || h->state == KSI_ASYNC_STATE_PUSH_CONFIG_RECEIVED) && h->ref >= 1;
		if ((h->state == KSI_ASYNC_STATE_PUSH_CONFIG_RECEIVED) != (h->respCtx != NULL)) ok = 0;
		if (h->respCtx != NULL && h->respCtx_free == NULL) ok = 0;
		if (c13_is_pending_state(h->state) && c13_request_of(h) == NULL) ok = 0;
		CHECK(ok, HN " Inv I4: serverConf pending with its request or PUSH_CONFIG_RECEIVED with the configuration");
		if (h->state == KSI_ASYNC_STATE_PUSH_CONFIG_RECEIVED) received++; else pending++;
	}
	CHECK(c->pending == pending, HN " Inv I5: pending = number of cached handles not yet answered (incl. failed ones)");
	CHECK(c->received == received, HN " Inv I5: received = number of cached handles holding a response");
	CHECK(c->pending + c->received <= (size_t)(CACHE_S - 1) + (c13_is_pushed_conf(c->serverConf) ? 1 : 0), HN " Inv I6: outstanding handles never exceed the configured cache size");
}

/* frame: everything except slot `except` (0 = none) and, if !confToo, serverConf is as in the snapshot */
static int c13_slots_unchanged(const KSI_AsyncClient *c, const struct c13_snap *pre, size_t except) {
	int same = 1;
	for (size_t i = 1; i < CACHE_S; i++) {
		if (i == except) continue;
		if (c->reqCache[i] != pre->slot[i].h) same = 0;
		else if (pre->slot[i].h != NULL) {
			const KSI_AsyncHandle *h = c->reqCache[i];
			if (h->state != pre->slot[i].state || h->id != pre->slot[i].id || h->err != pre->slot[i].err || h->respCtx != pre->slot[i].respCtx
					|| h->ref != pre->slot[i].ref || h->errMsg != pre->slot[i].errMsg) same = 0;
		}
	}
	return same;
}
static int c13_conf_unchanged(const KSI_AsyncClient *c, const struct c13_snap *pre) {
	if (c->serverConf != pre->conf.h) return 0;
	if (pre->conf.h == NULL) return 1;
	const KSI_AsyncHandle *h = c->serverConf;
	return h->state == pre->conf.state && h->err == pre->conf.err && h->respCtx == pre->conf.respCtx && h->ref == pre->conf.ref && h->errMsg == pre->conf.errMsg;
}

#endif
