/* C01 H-a3: AggregationHashChainConsistency (INT-01) and the hand-over of its result to
 * CalendarHashChainInputHashVerification (INT-03) through tempData->aggregationOutputHash.
 * Real code: both rules, KSI_AggregationHashChain_aggregate, KSI_HashChain_aggregate / aggregateChain, the hash.c front
 * end, KSI_DataHash_equals.  Hash model U: every closed hasher is logged (algorithm, message, symbolic digest).
 * Reference (KSI signature format, independent of the code under test):
 *   running level starts at 0 for the first chain WHATEVER the caller's docAggrLevel is and continues across chains;
 *   link step: level += correction + 1 (correction > 255 or level > 255: not computable);
 *              digest = H_chain-algorithm( left || right || level byte ), left/right = running imprint and sibling by direction;
 *   chain c+1 must start from exactly the imprint chain c ends with (algorithm id and digest)  -> else FAIL INT-01;
 *   the calendar chain's input hash must equal the imprint the last chain ends with          -> else FAIL INT-03;
 *   an algorithm id that is not a supported algorithm, or a level out of range: no verdict OK, error status.
 * Shape per instance: chains x links x sibling kinds x chain algorithms (SHA-1 / SHA2-256 / RIPEMD-160 ...), calendar chain
 * present or not.  Symbolic: link directions, level corrections (64 bit), all imprint bytes, docAggrLevel (64 bit). */
#include "verif.h"
#include "internal.h"
#include "verification_rule.h"
#include "ctx.h"
#include "hash_model.h"
#include "verif_post.h"
#include "types_base.c"
#include "sig_builder.h"

#define IS(res_, rc_, ec_) (res == (res_) && r.resultCode == (rc_) && r.errorCode == (ec_))
#ifndef EXPECT_UNSUPPORTED
#define EXPECT_UNSUPPORTED 0      /* instance uses a chain algorithm id that names no supported hash algorithm */
#endif

static int supported(u64 id) { return id == 0 || id == 1 || id == 2 || id == 4 || id == 5; }  /* SHA-1, SHA2-256, RIPEMD-160, SHA2-384, SHA2-512 */

void harness(void) {
	VERIF_ctx_init();
	VERIF_hm_init(0);
	KSI_CTX *ctx = VERIF_ctx;
	sb_build(ctx);
	KSI_RuleVerificationResult r;
	int res;

	sb_result_init(&r);
	res = KSI_VerificationRule_AggregationHashChainConsistency(&sb_vc, &r);
	CHECK(VERIF_hm_overflow == 0, "C01.Hc hash-model log large enough");

	/* ---- reference evaluation, chain by chain, against the hash log ---- */
	enum { R_OK, R_FAIL, R_UNCOMPUTABLE } ref = R_OK;
	int wide = 0;                       /* a chain whose hash_id does not fit 8 bits was met while everything before was fine */
	unsigned k = 0;                     /* next hash-log record */
	unsigned level = 0;
	u8 cur[65]; unsigned curlen = 0;    /* running imprint */
	int msgs_ok = 1, algs_ok = 1, lens_ok = 1;
	for (unsigned c = 0; c < SB_NCHAINS; c++) {
		if (ref != R_OK) break;
		if (c > 0) {                    /* chain c must start where chain c-1 ended */
			int same = (SB.ch[c].in.len == curlen);
			for (unsigned i = 0; i < 65; i++) if (i < curlen && same && SB.ch[c].in.imp[i] != cur[i]) same = 0;
			if (!same) { ref = R_FAIL; break; }
		}
		if (SB.ch[c].hashId > 0xff) { ref = R_UNCOMPUTABLE; wide = 1; break; }
		if (!supported(SB.ch[c].hashId)) { ref = R_UNCOMPUTABLE; break; }
		const unsigned dl = sb_alg_len((unsigned)sb_aggralg[c]);
		for (unsigned i = 0; i < 65; i++) cur[i] = SB.ch[c].in.imp[i];
		curlen = SB.ch[c].in.len;
		for (unsigned l = 0; l < SB_MAXLN; l++) {
			if (l < sb_nlinks[c] && ref == R_OK) {
				const struct sb_link_v *lk = &SB.ch[c].link[l];
				if (lk->lc > 255) { ref = R_UNCOMPUTABLE; break; }
				level = level + (unsigned)lk->lc + 1;
				if (level > 255) { ref = R_UNCOMPUTABLE; break; }
				/* expected message of this step */
				const u8 *L = lk->isLeft ? cur : lk->sib; unsigned ll = lk->isLeft ? curlen : lk->siblen;
				const u8 *R = lk->isLeft ? lk->sib : cur; unsigned rl = lk->isLeft ? lk->siblen : curlen;
				unsigned el = ll + rl + 1;
				if (k < HM_REC_MAX && res == KSI_OK && r.resultCode == KSI_VER_RES_OK) {
					for (unsigned j = 0; j < HM_LOG_MAX; j++) {
						u8 e = 0;
						if (j < ll) e = L[j < 65 ? j : 0];
						else if (j < ll + rl) e = R[(j - ll) < 65 ? (j - ll) : 0];
						else if (j == ll + rl) e = (u8)level;
						if (j < el && VERIF_hm_rec[k].msg[j] != e) msgs_ok = 0;
					}
					if (VERIF_hm_rec[k].alg != sb_aggralg[c]) algs_ok = 0;
					if (VERIF_hm_rec[k].len != el) lens_ok = 0;
				}
				/* the step's digest is whatever the hash function returned for that message */
				cur[0] = (u8)sb_aggralg[c];
				for (unsigned j = 0; j < 64; j++) cur[1 + j] = (k < HM_REC_MAX) ? VERIF_hm_rec[k].digest[j] : 0;
				curlen = 1 + dl;
				k++;
			}
		}
	}

	if (ref == R_OK) {
		CHECK(IS(KSI_OK, KSI_VER_RES_OK, KSI_VER_ERR_NONE), "C01.Hc consistent aggregation chains are accepted");
		CHECK(VERIF_hm_nrec == k, "C01.Hc one hash computation per link");
		CHECK(algs_ok, "C01.Hc every step is hashed with its chain's algorithm");
		CHECK(lens_ok && msgs_ok, "C01.Hc every step hashes left || right || level with levels running from 0 across the chains");
		KSI_DataHash *out = sb_tmp.aggregationOutputHash;
		CHECK(out != NULL, "C01.Hc the aggregation root is handed over in tempData");
		if (out != NULL) {
			int same = (out->imprint_length == curlen);
			for (unsigned i = 0; i < 65; i++) if (i < curlen && same && out->imprint[i] != cur[i]) same = 0;
			CHECK(same, "C01.Hc the handed-over hash is the imprint the last chain ends with");
		}
#if SB_NCHAINS > 1
		WITNESS_POINT("several chains chained consistently");
#endif
#if !EXPECT_UNSUPPORTED
		if (SB.docLevel == 200 && level < 100) WITNESS_POINT("root computed from level 0 although docAggrLevel is 200");
		if (level == 255) WITNESS_POINT("chains end exactly at level 255");
#endif
#if SB_HAS_CAL
		/* ---- hand-over: the calendar rule compares the calendar input hash with that root ---- */
		unsigned nrec_before = VERIF_hm_nrec;
		sb_result_init(&r);
		res = KSI_VerificationRule_CalendarHashChainInputHashVerification(&sb_vc, &r);
		int cal_same = (SB.cal.in.len == curlen);
		for (unsigned i = 0; i < 65; i++) if (i < curlen && cal_same && SB.cal.in.imp[i] != cur[i]) cal_same = 0;
		if (cal_same) { CHECK(IS(KSI_OK, KSI_VER_RES_OK, KSI_VER_ERR_NONE), "C01.Hc calendar input hash equal to the aggregation root is accepted");
			WITNESS_POINT("calendar chain continues the aggregation chains");
		} else { CHECK(IS(KSI_OK, KSI_VER_RES_FAIL, KSI_VER_ERR_INT_3), "C01.Hc calendar input hash different from the aggregation root yields FAIL INT-03");
			WITNESS_POINT("calendar input hash mismatch");
		}
		CHECK(VERIF_hm_nrec == nrec_before, "C01.Hc the calendar input rule reuses the handed-over root");
#endif
	} else if (ref == R_FAIL) {
		CHECK(IS(KSI_OK, KSI_VER_RES_FAIL, KSI_VER_ERR_INT_1), "C01.Hc a chain not starting from the previous chain's output yields FAIL INT-01");
		CHECK(sb_tmp.aggregationOutputHash == NULL, "C01.Hc no root handed over on failure");
#if SB_NCHAINS > 1
		WITNESS_POINT("aggregation chains do not chain");
#endif
	} else if (!wide) {
		CHECK(res != KSI_OK && r.resultCode != KSI_VER_RES_OK, "C01.Hc a level out of range or an unsupported algorithm id yields an error status, never OK");
		CHECK(sb_tmp.aggregationOutputHash == NULL, "C01.Hc no root handed over on error");
#if !EXPECT_UNSUPPORTED
		if (level > 255) WITNESS_POINT("level out of range");
#else
		WITNESS_POINT("unsupported chain algorithm id");
#endif
	} else {
		CHECK(!(res == KSI_OK && r.resultCode == KSI_VER_RES_OK), "C01.Hc WIDE a chain whose hash_id does not fit 8 bits is never accepted");
#if SB_AGGRALG_HI
		WITNESS_POINT("hash_id beyond 32 bits");
#endif
	}
}
