/* C10 H-tmpl: the template engine (KSI_TlvTemplate_extractGenerator -> extractGenerator, extractObject,
 * extractComposite, extract, storeObjectValue) run on the REAL template table TMPL against the
 * hand-written schema of schema.h.
 *
 * The table rows are copied from the repository's constant table at harness start (tag, flags, type,
 * multiple, NULL-ness of every column, aliasing of the getters); only the function-pointer columns are
 * redirected to recording stubs and every sub-template pointer to a one-row stub template (the
 * sub-structure of a composite child is the subject of that child's own template instance).
 * Children: NCH TLV objects built with the real KSI_TLV_new; per instance the SHAPE says which child
 * positions carry a fixed tag (a valid base sequence) and which are free: a free child has a symbolic tag
 * over the schema's alphabet plus one symbolic unknown tag; every child has symbolic non-critical and
 * forward flags and a symbolic leaf-parser outcome.
 *
 * Checked: accepted <=> schema(children) and every recognised child's leaf parser succeeded; rejected
 * with KSI_INVALID_FORMAT; on acceptance every recognised child was parsed exactly once, unknown
 * non-critical children were never parsed, every field holds exactly the values of its children in input
 * order; every object produced by a leaf parser is either stored once or destructed once. */
#include "verif.h"
#include "internal.h"
#include "tlv.h"
#include "tlv_template.h"
#include "ctx.h"
#include "verif_post.h"
#include "schema.h"

#ifndef TMPL
#define TMPL KSI_AggregationHashChain
#endif
/* SHAPE: one entry per child: a fixed tag, or -1 for a free (symbolic) child */
#ifndef SHAPE
#define SHAPE {-1, -1}
#endif
#ifndef NCH
#define NCH 2
#endif
/* NROWS: number of rows of the table = number of schema elements (checked below); the copy has exactly NROWS+1 rows */
#ifndef NROWS
#define NROWS 10
#endif
#define MAXROWS NROWS
#ifndef HAS_COMPOSITE
#define HAS_COMPOSITE 1
#endif
#define NA (NCH > 0 ? NCH : 1)   /* array dimension (no zero-length arrays) */

#define CAT_(a, b) a##b
#define CAT(a, b) CAT_(a, b)
#define REAL_T(x) KSI_TLV_TEMPLATE(x)
KSI_IMPORT_TLV_TEMPLATE(TMPL);

static const struct c10_elem S[] = CAT(C10_SCHEMA_, TMPL);
#define NS ((unsigned)(sizeof(S) / sizeof(S[0])))
static const int shape[NA] = SHAPE;

/* ---- recording stubs ---- */
struct pl { void *slot[MAXROWS]; };
struct slist { unsigned n; void *item[NA]; };

static struct pl top;               /* the payload handed to the engine */
static struct pl tokpl[NA];        /* object produced for child j (leaf value or composite payload) */
static KSI_TLV *child[NA];
static int cur = -1;                /* child most recently handed out by the generator */
static unsigned gidx;
static _Bool leaf_ok[NA];
static unsigned parsed[NA], stored[NA], destroyed[NA];
static unsigned bad;                /* protocol violations seen by a stub (checked to be 0) */

#define DEF_GS(k) \
	static int get##k(const void *p, void **v) { *v = ((const struct pl *)p)->slot[k]; return KSI_OK; } \
	static int set##k(void *p, void *v) { ((struct pl *)p)->slot[k] = v; if (cur >= 0 && v == (void *)&tokpl[cur]) stored[cur]++; return KSI_OK; }
DEF_GS(0) DEF_GS(1) DEF_GS(2) DEF_GS(3) DEF_GS(4) DEF_GS(5) DEF_GS(6) DEF_GS(7) DEF_GS(8) DEF_GS(9)
static int (*const GET[10])(const void *, void **) = {get0, get1, get2, get3, get4, get5, get6, get7, get8, get9};
static int (*const SET[10])(void *, void *) = {set0, set1, set2, set3, set4, set5, set6, set7, set8, set9};

static int produce(void **out) {
	if (cur < 0 || cur >= NCH) { bad++; return KSI_UNKNOWN_ERROR; }
	parsed[cur]++;
	if (!leaf_ok[cur]) return KSI_INVALID_FORMAT;
	*out = &tokpl[cur];
	return KSI_OK;
}
static int stub_fromTlv(KSI_TLV *tlv, void **out) {
	if (cur < 0 || cur >= NCH || tlv != child[cur]) bad++;   /* must be given the child being processed */
	return produce(out);
}
static int stub_parser(KSI_CTX *ctx, unsigned char *raw, size_t len, int opt, void *out) {
	(void)ctx; (void)raw; (void)len; (void)opt;
	return produce((void **)out);
}
static int stub_construct(KSI_CTX *ctx, void **out) {
	(void)ctx;
#if !HAS_COMPOSITE
	/* The table has no composite row (checked at harness start), so a feasible run never gets here; CBMC still
	 * explores the branch because the row index is symbolic: fail at once (and flag it) to keep that branch small. */
	(void)out; bad++; return KSI_UNKNOWN_ERROR;
#else
	return produce(out);
#endif
}
static void stub_destruct(void *p) {
	if (p == NULL) return;
	if (cur < 0 || cur >= NCH || p != (void *)&tokpl[cur]) { bad++; return; }   /* only the object just produced */
	destroyed[cur]++;
}
static struct slist lists[NA];     /* a list is created while some child is being processed: at most one per child */
static unsigned lists_made[NA];
static int stub_listNew(void **l) {
	if (cur < 0 || cur >= NCH || lists_made[cur] != 0) { bad++; return KSI_UNKNOWN_ERROR; }
	lists_made[cur]++;
	lists[cur].n = 0;
	*l = &lists[cur];
	return KSI_OK;
}
static void stub_listFree(void *l) { if (l != NULL) bad++; }   /* only reached when append/set fail, which these stubs never do */
static int stub_listAppend(void *l, void *v) {
	/* the list is identified by comparing pointers, never by dereferencing l: a slot value may be a list or a
	 * leaf object and CBMC would otherwise consider writes through l into the leaf objects */
	int hit = 0;
	if (cur < 0 || v != (void *)&tokpl[cur]) { bad++; return KSI_UNKNOWN_ERROR; }
	for (unsigned q = 0; q < NCH; q++) if (l == (void *)&lists[q]) {
		hit = 1;
		if (lists[q].n >= NCH) { bad++; return KSI_UNKNOWN_ERROR; }
		for (unsigned k = 0; k < NCH; k++) if (k == lists[q].n) lists[q].item[k] = v;
		lists[q].n++;
	}
	if (!hit) { bad++; return KSI_UNKNOWN_ERROR; }
	stored[cur]++;
	return KSI_OK;
}
static int gen(void *g, KSI_TLV **out) {
	(void)g;
	if (gidx < NCH) { cur = (int)gidx; *out = child[gidx]; gidx++; } else { *out = NULL; }
	return KSI_OK;
}

/* one-row sub-template for composite rows: the composite child has no nested elements, the row is optional */
static const KSI_TlvTemplate SUB[] = {
	KSI_TLV_OBJECT(0x01, KSI_TLV_TMPL_FLG_NONE, get0, set0, stub_fromTlv, NULL, stub_destruct, "stub")
KSI_END_TLV_TEMPLATE

static KSI_TlvTemplate T[MAXROWS + 1];
static unsigned slot_of[MAXROWS];

void harness(void) {
	VERIF_ctx_init();
	KSI_CTX *ctx = VERIF_ctx;
	const KSI_TlvTemplate *real = REAL_T(TMPL);
	int res;

	/* ---- copy of the real table, function-pointer columns redirected ---- */
	unsigned nrows = 0; int has_composite = 0;
	for (unsigned r = 0; r < MAXROWS; r++) if (nrows == r && real[r].tag != 0) nrows = r + 1;
	CHECK(nrows == NROWS && NROWS <= 10 && NROWS == NS && real[nrows].tag == 0, "C10.tmpl table has as many rows as the schema has elements");
	for (unsigned r = 0; r <= MAXROWS; r++) {
		if (r > nrows) continue;
		T[r] = real[r];
		if (r == nrows) continue;
		slot_of[r] = r;
		for (unsigned j = r; j-- > 0;) if (real[j].getValue == real[r].getValue && real[j].setValue == real[r].setValue) slot_of[r] = slot_of[j];
		if (real[r].getValue != NULL) T[r].getValue = GET[slot_of[r]];
		if (real[r].setValue != NULL) T[r].setValue = SET[slot_of[r]];
		if (real[r].construct != NULL) T[r].construct = stub_construct;
		if (real[r].destruct != NULL) T[r].destruct = stub_destruct;
		if (real[r].subTemplate != NULL) T[r].subTemplate = SUB;
		if (real[r].listAppend != NULL) T[r].listAppend = stub_listAppend;
		if (real[r].listNew != NULL) T[r].listNew = stub_listNew;
		if (real[r].listFree != NULL) T[r].listFree = stub_listFree;
		T[r].listLength = NULL; T[r].listElementAt = NULL; T[r].toTlv = NULL; T[r].setRaw = NULL;
		if (real[r].fromTlv != NULL) T[r].fromTlv = stub_fromTlv;
		if (real[r].parser != NULL) T[r].parser = stub_parser;
		if (real[r].type == KSI_TLV_TEMPLATE_COMPOSITE) has_composite = 1;
	}
	CHECK(has_composite == HAS_COMPOSITE, "C10.tmpl HAS_COMPOSITE of the instance matches the table");
	/* table and schema speak about the same set of tags; tags are unique in both */
	int row_of[NS];
	for (unsigned e = 0; e < NS; e++) {
		row_of[e] = -1;
		for (unsigned r = 0; r < MAXROWS; r++) if (r < nrows && real[r].tag == S[e].tag) { CHECK(row_of[e] < 0, "C10.tmpl a tag has one table row"); row_of[e] = (int)r; }
		CHECK(row_of[e] >= 0, "C10.tmpl every schema element has a table row");
	}
	for (unsigned r = 0; r < MAXROWS; r++) if (r < nrows) {
		int found = 0;
		for (unsigned e = 0; e < NS; e++) if (S[e].tag == real[r].tag) found = 1;
		CHECK(found, "C10.tmpl every table row is a schema element");
	}

	/* ---- children ---- */
	unsigned unk = ND(u16, unk);
	ASSUME(unk <= 0x1fff);
	for (unsigned e = 0; e < NS; e++) ASSUME(unk != S[e].tag);
	unsigned tag[NA]; _Bool nc[NA];
	for (unsigned j = 0; j < NCH; j++) {
		if (shape[j] >= 0) {
			tag[j] = (unsigned)shape[j];
		} else {
			unsigned sel = ND(u8, tagsel);
			ASSUME(sel <= NS);
			tag[j] = unk;
			for (unsigned e = 0; e < NS; e++) if (sel == e) tag[j] = S[e].tag;
		}
		nc[j] = ND_BOOL(nc);
		_Bool fwd = ND_BOOL(fwd);
		leaf_ok[j] = ND_BOOL(leafok);
		child[j] = NULL;
		res = KSI_TLV_new(ctx, tag[j], nc[j], fwd, &child[j]);
		ASSUME(res == KSI_OK);
#if HAS_COMPOSITE
		/* the child has no nested elements; expand its (empty) nested list now so that the engine's
		 * KSI_TLV_getNestedList finds it (lazy TLV expansion itself is C09's subject) */
		{ KSI_LIST(KSI_TLV) *nl = NULL; res = KSI_TLV_getNestedList(child[j], &nl); ASSUME(res == KSI_OK && nl != NULL); }
#endif
	}

	/* ---- the engine ---- */
	int gctx = 0;
	res = KSI_TlvTemplate_extractGenerator(ctx, &top, &gctx, T, gen);

	/* ---- reference: the schema ---- */
	int el[NA];
	int ok = 1;
	for (unsigned j = 0; j < NCH; j++) {
		el[j] = -1;
		for (unsigned e = 0; e < NS; e++) if (tag[j] == S[e].tag) el[j] = (int)e;
		if (el[j] < 0 && !nc[j]) ok = 0;                       /* unknown critical element */
	}
	unsigned cnt[NS];
	for (unsigned e = 0; e < NS; e++) {
		cnt[e] = 0;
		for (unsigned j = 0; j < NCH; j++) if (el[j] == (int)e) cnt[e]++;
		if (cnt[e] < S[e].min) ok = 0;                          /* mandatory element missing */
		if (S[e].max != C10_MANY && cnt[e] > S[e].max) ok = 0;  /* single-valued element repeated */
	}
	for (unsigned g = 0; g < 2; g++) {
		unsigned need_members = 0, need_sum = 0, excl_sum = 0;
		for (unsigned e = 0; e < NS; e++) {
			if (S[e].need & (1u << g)) { need_members++; need_sum += cnt[e]; }
			if (S[e].excl & (1u << g)) excl_sum += cnt[e];
		}
		if (need_members > 0 && need_sum == 0) ok = 0;          /* at-least-one group empty */
		if (excl_sum > 1) ok = 0;                               /* alternatives combined */
	}
	{
		int seen_known = 0, seen_last = 0; unsigned maxrank = 0;
		for (unsigned j = 0; j < NCH; j++) if (el[j] >= 0) {
			const struct c10_elem *x = &S[el[j]];
			if (x->first && seen_known) ok = 0;                 /* not at first position */
			if (seen_last) ok = 0;                              /* something follows the last element */
			if (x->last) seen_last = 1;
			if (x->rank != 0) { if (x->rank < maxrank) ok = 0; else maxrank = x->rank; }   /* section order */
			seen_known = 1;
		}
	}
	int schema_ok = ok;
	for (unsigned j = 0; j < NCH; j++) if (el[j] >= 0 && !leaf_ok[j]) ok = 0;

	/* ---- checks ---- */
	CHECK(bad == 0, "C10.tmpl engine calls the table functions only with the child being processed and the object just produced");
	CHECK((res == KSI_OK) == (ok != 0), "C10.tmpl accepted iff the children satisfy the schema and every recognised child parses");
	if (res != KSI_OK) CHECK(res == KSI_INVALID_FORMAT, "C10.tmpl rejection is reported as KSI_INVALID_FORMAT");
	for (unsigned j = 0; j < NCH; j++) {
		CHECK(parsed[j] <= 1, "C10.tmpl a child is parsed at most once");
		if (el[j] < 0) CHECK(parsed[j] == 0, "C10.tmpl unknown elements are never given to a parser");
		if (parsed[j] == 1 && leaf_ok[j]) CHECK(stored[j] + destroyed[j] == 1, "C10.tmpl a parsed object is stored once or destructed once");
		else CHECK(stored[j] == 0 && destroyed[j] == 0, "C10.tmpl nothing stored or destructed without a parsed object");
		if (res == KSI_OK && el[j] >= 0) CHECK(parsed[j] == 1 && stored[j] == 1, "C10.tmpl on acceptance every recognised child is parsed and stored");
	}
	if (res == KSI_OK) {
		/* every field holds exactly the objects of its children, in input order */
		for (unsigned e = 0; e < NS; e++) {
			unsigned s = slot_of[row_of[e] < 0 ? 0 : row_of[e]];
			for (unsigned f = 0; f < NS; f++) if (S[f].field == S[e].field)
				CHECK(slot_of[row_of[f] < 0 ? 0 : row_of[f]] == s, "C10.tmpl elements of one field share one storage location");
				else CHECK(slot_of[row_of[f] < 0 ? 0 : row_of[f]] != s, "C10.tmpl different fields have different storage locations");
			unsigned k = 0; int same = 1;
			if (S[e].max == C10_MANY) {
				int lq = -1;                                   /* which list object the slot points to */
				for (unsigned q = 0; q < NCH; q++) if (top.slot[s] == (void *)&lists[q]) lq = (int)q;
				if (top.slot[s] != NULL && lq < 0) same = 0;
				for (unsigned q = 0; q < NCH; q++) if (lq == (int)q) {
					for (unsigned j = 0; j < NCH; j++) if (el[j] >= 0 && S[el[j]].field == S[e].field) {
						if (k >= lists[q].n || lists[q].item[k < NCH ? k : 0] != (void *)&tokpl[j]) same = 0;
						k++;
					}
					if (lists[q].n != k) same = 0;
				}
				if (lq < 0) for (unsigned j = 0; j < NCH; j++) if (el[j] >= 0 && S[el[j]].field == S[e].field) same = 0;
				CHECK(same, "C10.tmpl a repeatable field holds the objects of its children in input order");
			} else {
				void *want = NULL;
				for (unsigned j = 0; j < NCH; j++) if (el[j] == (int)e) want = &tokpl[j];
				CHECK(top.slot[s] == want, "C10.tmpl a single-valued field holds the object of its child");
			}
		}
	}

	/* ---- witnesses (which are reachable depends on the shape; the plan generator sets the W_* defines) ---- */
#ifdef W_ACCEPT
	if (res == KSI_OK) WITNESS_POINT("children accepted");
#endif
#ifdef W_ACCEPT_UNK
	{ int anyunk = 0; for (unsigned j = 0; j < NCH; j++) if (el[j] < 0) anyunk = 1;
	  if (res == KSI_OK && anyunk) WITNESS_POINT("accepted with an unknown non-critical child"); }
#endif
#ifdef W_REJECT_SCHEMA
	{ int allknown = 1; for (unsigned j = 0; j < NCH; j++) if (el[j] < 0) allknown = 0;
	  if (res != KSI_OK && !schema_ok && allknown) WITNESS_POINT("recognised children rejected by the schema"); }
#endif
#ifdef W_REJECT_CRIT
	{ int crit = 0; for (unsigned j = 0; j < NCH; j++) if (el[j] < 0 && !nc[j]) crit = 1;
	  if (res != KSI_OK && crit) WITNESS_POINT("unknown critical child rejected"); }
#endif
#ifdef W_REJECT_LEAF
	if (res != KSI_OK && schema_ok) WITNESS_POINT("schema satisfied but a leaf parser failed");
#endif
	(void)schema_ok;
}
