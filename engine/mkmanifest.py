#!/usr/bin/env python3
"""Generate MANIFEST.json from harness/*/plan.json ("manifest" sections) and na.json."""
import json, os, glob
V = os.path.dirname(os.path.dirname(os.path.abspath(__file__)))
checks, claimed = [], set()
for p in sorted(glob.glob(os.path.join(V, "harness", "C*", "plan.json"))):
    d = json.load(open(p))
    m = d.get("manifest")
    if not m or not m.get("claimed", True):
        continue
    pid = d["property"]
    claimed.add(pid)
    checks.append({
        "property_id": pid,
        "quick_cmd": "./check %s quick" % pid,
        "thorough_cmd": "./check %s thorough" % pid,
        "evidence_file": "evidence/%s.json" % pid,
        "replay_cmd_template": "./check --replay {path}",
        "engine": "ksicheck",
        "level_claimed": {"category": "model_checking", "text": m["level_text"], "design_ref": m.get("design_ref", "DESIGN.md section 5 " + pid)},
        "level_note": m["level_note"],
        "technique": m.get("technique", "bounded symbolic execution of the real C sources with CBMC (SAT), witness twins, native replay of counterexamples"),
    })
na = json.load(open(os.path.join(V, "na.json")))
props = [json.loads(l)["id"] for l in open(os.path.join(V, "properties.jsonl"))]
not_app = [{"property_id": i, "reason": na.get(i, "no solver-decided check built yet for this property (work in progress)")} for i in props if i not in claimed]
man = {
    "version": 1,
    "setup_cmd": "python3 engine/setup_check.py",
    "hooks": {"guard": "GUARDTIME_LIBKSI_VERIF", "enable": "harness TUs and wrapper TUs are compiled by goto-cc with -DGUARDTIME_LIBKSI_VERIF -DHAVE_CONFIG_H -I/repo/src/ksi straight from /repo's working tree (no library build is needed)",
              "baseline_off_cmd": "cd /repo && make include-test", "source_commits": json.load(open(os.path.join(V, "hooks.json")))["source_commits"], "add_only": True},
    "engines": [{"name": "ksicheck", "path": "engine/ksicheck.py", "serves_properties": sorted(claimed),
                 "kind_free_text": "driver: goto-cc (real libksi sources + env models + harness) -> cbmc 6.11 bounded model checking with unwinding assertions -> witness twin (vacuity guard) -> native ASan/UBSan replay of counterexamples -> evidence"}],
    "checks": checks,
    "notes": "All checks are bounded (loop unrollings, sizes, shapes stated per harness in evidence.coverage.queries[].bound); nothing is claimed outside the bounds. See DESIGN.md.",
    "not_applicable": not_app,
}
json.dump(man, open(os.path.join(V, "MANIFEST.json"), "w"), indent=1)
print("claimed:", sorted(claimed), "not applicable:", [x["property_id"] for x in not_app])
