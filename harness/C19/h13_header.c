/* C19 H-13 (b): the TLV template engine on the REAL template of KSI_Header (utf8 string, two integers; fromTlv adds the
 * raw encoding as an octet string) under allocation failure.  Generic part and the list of checks:
 * harness/common/c19_tmpl_body.h.  Real code: tlv_template.c, tlv.c, fast_tlv.c, list.c, types.c (KSI_Header_new / _free /
 * getters / setters / _fromTlv / _toTlv), types_base.c (KSI_Integer, KSI_Utf8String, KSI_OctetString).
 *
 * Shape (concrete): login id = 2 characters + NUL, instance id = 2-byte integer (heap object), message id = 1-byte integer
 * (object from the static integer pool: no allocation).  Values: the integer bytes are symbolic (leading byte non-zero = the minimal encoding the format demands).
 * Encoding (oracle, by hand from the format): 01 0c | 01 03 c0 c1 00 | 02 02 i0 i1 | 03 01 m0.
 * Values are CONCRETE here: KSI_Integer_new takes values < 256 from a static pool and allocates otherwise, so a symbolic
 * integer makes the allocation count - the thing that is enumerated - path dependent and every KSI_Integer_free indexes
 * the pool symbolically (measured with -DH13_SYMBOLIC_INTS on ext_k0..k4: 2 instances in 110-155 s, 3 time-outs at 180 s);
 * every character decides the UTF-8 verifier's loop index.  One pool integer and one heap integer cover both branches.
 *
 * Why tlv_template.c and types.c are TEXT of this translation unit: see c19_tmpl_cut.h and the comment at the include.
 *
 * MUTATIONS caught (scratch worktree, VERIF_REPO=/tmp/wt_agB, all in src/ksi/tlv_template.c):
 *  M1 extractObject: "tmp = NULL;" after the successful storeObjectValue removed (object stored AND destructed)
 *     -> ext_k0: deallocated dynamic object in KSI_Integer_free / KSI_Integer_getUInt64; replay: ASan heap-use-after-free
 *  M3 construct, single OBJECT row: "tmp = NULL;" after KSI_TLV_appendNestedTlv removed (child attached AND released)
 *     -> cons_k0: deallocated dynamic object in KSI_TLV_free, invalid free; replay: ASan heap-use-after-free
 *  M4 KSI_TlvTemplate_serializeObject: "tmp = NULL;" after "*raw = tmp;" removed (returned buffer released)
 *     -> ser_k0: double free, deallocated object read by the harness' comparison; replay: ASan heap-use-after-free
 *  (M2 - list clean-up - see h13_config.c) */
#include "c19.h"
#include "tlv.h"
#include "tlv_template.h"
#include "verif_post.h"
#define TMPL_ROWS_OF(t) ((t) == KSI_TLV_TEMPLATE(KSI_Header) ? 3u : 0u)
#include "c19_tmpl_cut.h"               /* the REAL tlv_template.c as text; getTemplateLength cut with proof obligation */
/* types.c as text in the SAME translation unit: its fromTlv / toTlv wrappers take the address of template tables it only
 * knows as "extern const KSI_TlvTemplate x[]"; linked as a separate goto-cc unit that incomplete type made CBMC treat the
 * table as a one-row object (spurious out-of-bounds reports, not reproduced natively) */
#include "types.c"
#define T KSI_Header
#define T_NEW(ctx, po) KSI_Header_new((ctx), (po))
#define T_FREE(o) KSI_Header_free(o)
#define TMPL KSI_TLV_TEMPLATE(KSI_Header)
#define TOP_TAG 0x01
#define EXP_LEN 14
#define NSNAP 4
#define T_FROMTLV(tlv, po) KSI_Header_fromTlv((tlv), (po))
#define T_TOTLV(ctx, o, pt) KSI_Header_toTlv((ctx), (o), 0x01, 0, 0, (pt))

struct vals { u8 c0, c1, i0, i1, m0; };
static void draw(struct vals *v) {
	/* characters concrete: the UTF-8 verifier's loop index depends on every character, and a symbolic index into the
	 * element's 64 KiB value buffer is beyond CBMC (README rule 4) */
	v->c0 = 'a'; v->c1 = 'b'; 
#ifndef H13_SYMBOLIC_INTS
	v->i0 = 0x12; v->i1 = 0x34; v->m0 = 7;
#else
	v->i0 = ND(u8, inst_b0); v->i1 = ND(u8, inst_b1); v->m0 = ND(u8, msg_b0);
#endif

	ASSUME(v->i0 != 0 && v->m0 != 0);
}
static void mk_bytes(u8 *b, const struct vals *v) {
	b[0] = 0x01; b[1] = 0x0c;
	b[2] = 0x01; b[3] = 0x03; b[4] = v->c0; b[5] = v->c1; b[6] = 0;
	b[7] = 0x02; b[8] = 0x02; b[9] = v->i0; b[10] = v->i1;
	b[11] = 0x03; b[12] = 0x01; b[13] = v->m0;
}
static KSI_Header *mk_obj(KSI_CTX *ctx, const struct vals *v) {
	KSI_Header *h = NULL; KSI_Utf8String *s = NULL; KSI_Integer *a = NULL, *b = NULL; int res;
	char str[3] = {(char)v->c0, (char)v->c1, 0};
	res = KSI_Header_new(ctx, &h); ASSUME(res == KSI_OK);
	res = KSI_Utf8String_new(ctx, str, 3, &s); ASSUME(res == KSI_OK);
	res = KSI_Integer_new(ctx, (KSI_uint64_t)v->i0 << 8 | v->i1, &a); ASSUME(res == KSI_OK);
	res = KSI_Integer_new(ctx, v->m0, &b); ASSUME(res == KSI_OK);
	res = KSI_Header_setLoginId(h, s); ASSUME(res == KSI_OK);
	res = KSI_Header_setInstanceId(h, a); ASSUME(res == KSI_OK);
	res = KSI_Header_setMessageId(h, b); ASSUME(res == KSI_OK);
	return h;
}
static int obj_matches(KSI_Header *h, const struct vals *v) {
	KSI_Utf8String *s = NULL; KSI_Integer *a = NULL, *b = NULL;
	if (h == NULL) return 0;
	if (KSI_Header_getLoginId(h, &s) != KSI_OK || KSI_Header_getInstanceId(h, &a) != KSI_OK || KSI_Header_getMessageId(h, &b) != KSI_OK) return 0;
	if (s == NULL || a == NULL || b == NULL) return 0;
	const char *c = KSI_Utf8String_cstr(s);
	return KSI_Utf8String_size(s) == 3 && c[0] == (char)v->c0 && c[1] == (char)v->c1 && c[2] == 0
		&& KSI_Integer_getUInt64(a) == ((KSI_uint64_t)v->i0 << 8 | v->i1) && KSI_Integer_getUInt64(b) == v->m0;
}
static void obj_snap(KSI_Header *h, void **s) {
	KSI_Utf8String *l = NULL; KSI_Integer *a = NULL, *b = NULL;
	KSI_Header_getLoginId(h, &l); KSI_Header_getInstanceId(h, &a); KSI_Header_getMessageId(h, &b);
	s[0] = l; s[1] = a; s[2] = b; s[3] = (l != NULL) ? (void *)KSI_Utf8String_cstr(l) : NULL;
}
/* fromTlv add-on: the raw member holds the element's encoding */
static int bytes_equal(const u8 *a, const u8 *b);
struct KSI_Header_peek { KSI_CTX *ctx; KSI_Integer *instanceId; KSI_Integer *messageId; KSI_Utf8String *loginId; KSI_OctetString *raw; };
static int fromtlv_extra(KSI_Header *h, const struct vals *v) {
	const unsigned char *d = NULL; size_t n = 0; u8 e[EXP_LEN];
	KSI_OctetString *r = ((struct KSI_Header_peek *)h)->raw;   /* types.c keeps the getter of this member static */
	mk_bytes(e, v);
	if (r == NULL || KSI_OctetString_extract(r, &d, &n) != KSI_OK || n != EXP_LEN) return 0;
	return bytes_equal(d, e);
}
#include "c19_tmpl_body.h"
