#!/usr/bin/env python3
"""Mutation sanity check for the C10 / C12 harnesses.

  python3 harness/common/c10_c12_mutate.py C10|C12 [name-prefix ...]

For every mutation below: reset a scratch worktree of /repo, apply ONE textual change to the real code, run the
listed harness instances against it (VERIF_REPO=<scratch>) and record whether the check notices (exit code 1 =
reproduced VIOLATION, 2 = broken/inconclusive e.g. failed unwinding assertion or unreached witness, 0 = MISSED).
Writes harness/<ID>/MUTATIONS.md.  The scratch worktree (/tmp/ksi-mut-<ID>) is removed at the end.
"""
import os, re, subprocess, sys, time

VERIF = os.path.dirname(os.path.dirname(os.path.dirname(os.path.abspath(__file__))))
T = "src/ksi/"

# (name, file, old, new, instances to run, what it models)
C10 = [
    ("mandatory_removed", T + "tlv_template.c",
     'KSI_TLV_IMPRINT(0x05, KSI_TLV_TMPL_FLG_MANDATORY, KSI_AggregationHashChain_getInputHash',
     'KSI_TLV_IMPRINT(0x05, KSI_TLV_TMPL_FLG_NONE, KSI_AggregationHashChain_getInputHash',
     "tmpl_AggregationHashChain.r2,tmpl_AggregationHashChain.f2", "MANDATORY flag removed from the input-hash row of the aggregation chain"),
    ("tag_changed", T + "tlv_template.c",
     'KSI_TLV_IMPRINT(0x05, KSI_TLV_TMPL_FLG_MANDATORY, KSI_CalendarHashChain_getInputHash',
     'KSI_TLV_IMPRINT(0x06, KSI_TLV_TMPL_FLG_MANDATORY, KSI_CalendarHashChain_getInputHash',
     "tmpl_CalendarHashChain.e0,tmpl_CalendarHashChain.base", "tag of the calendar chain's input hash changed 05 -> 06"),
    ("critical_inverted", T + "tlv_template.c",
     "if (KSI_TLV_isNonCritical(tlv)) {", "if (!KSI_TLV_isNonCritical(tlv)) {",
     "tmpl_HashChainLink.i2,tmpl_Signature.i3", "critical-flag test for unknown elements inverted"),
    ("last_flag_removed", T + "tlv_template.c",
     'KSI_TLV_IMPRINT(0x1F, KSI_TLV_TMPL_FLG_LAST, KSI_AggregationPdu_getHmac, KSI_AggregationPdu_setHmac, "hmac")\nKSI_END_TLV_TEMPLATE\n\nKSI_DEFINE_TLV_TEMPLATE(KSI_ExtendReq)',
     'KSI_TLV_IMPRINT(0x1F, KSI_TLV_TMPL_FLG_NONE, KSI_AggregationPdu_getHmac, KSI_AggregationPdu_setHmac, "hmac")\nKSI_END_TLV_TEMPLATE\n\nKSI_DEFINE_TLV_TEMPLATE(KSI_ExtendReq)',
     "tmpl_AggregationRespPdu.f2,tmpl_AggregationRespPdu.r2", "LAST flag removed from the MAC row of the aggregation response PDU"),
    ("first_check_dropped", T + "tlv_template.c",
     "				if (firstHit) {\n", "				if (firstHit && 0) {\n",
     "tmpl_AggregationRespPdu.f2,tmpl_MetaDataElement.f2", "'element not at first position' test disabled"),
    ("last_check_moved", T + "tlv_template.c",
     "			if (lastHit) {\n", "			if (lastHit && IS_FLAG_SET(tmpl[i], KSI_TLV_TMPL_FLG_LAST)) {\n",
     "tmpl_AggregationRespPdu.f2,tmpl_ExtendRespPdu.i3", "'something follows the last element' only tested for LAST elements themselves"),
    ("multiple_inverted", T + "tlv_template.c",
     "if (valuep != NULL && !tmpl[i].multiple) {", "if (valuep != NULL && tmpl[i].multiple) {",
     "tmpl_AggregationHashChain.i5,tmpl_Signature.f2", "repeat test applied to repeatable instead of single-valued rows"),
    ("most_one_dropped", T + "tlv_template.c",
     "				}\n				oneOf[0] = true;\n			}\n", "				}\n				oneOf[0] = false;\n			}\n",
     "tmpl_HashChainLink.f2,tmpl_Signature.i3", "at-most-one group 0 never latches"),
    ("least_one_removed", T + "tlv_template.c",
     'KSI_TLV_OBJECT(0x03, KSI_TLV_TMPL_FLG_MANTATORY_MOST_ONE_G0, KSI_HashChainLink_getLegacyId',
     'KSI_TLV_OBJECT(0x03, KSI_TLV_TMPL_FLG_MOST_ONE_G0, KSI_HashChainLink_getLegacyId',
     "tmpl_HashChainLink.f1,tmpl_HashChainLink.r1", "legacy-id row of the chain link no longer counts for the at-least-one group (a link with only a legacy id then misses its mandatory group)"),
    ("group_end_check_dropped", T + "tlv_template.c",
     "if (((tmpl[i].flags & KSI_TLV_TMPL_FLG_LEAST_ONE_G0) != 0 && !groupHit[0]) ||", "if (((tmpl[i].flags & KSI_TLV_TMPL_FLG_LEAST_ONE_G0) != 0 && !groupHit[0] && 0) ||",
     "tmpl_HashChainLink.f1,tmpl_AggregationHashChain.r4", "at-least-one group 0 check at the end disabled"),
    ("startrow_shortcut_back", T + "tlv_template.c",
     "			if (tmpl[i].tag != KSI_TLV_getTag(tlv)) continue;\n", "			if (tmpl[i].tag != KSI_TLV_getTag(tlv)) continue;\n			if (i == tmplStart && !tmpl[i].multiple) tmplStart++;\n",
     "tmpl_AggregationHashChain.i5,tmpl_HashChainLink.i2", "the fixed defect re-introduced (matched leading single rows are skipped)"),
    ("order_inverted", T + "tlv_template.c",
     "if (i < maxOrder) {", "if (i > maxOrder) {",
     "tmpl_PublicationsFile.f2,tmpl_PublicationsFile.base", "fixed-order comparison inverted"),
    ("value_not_released", T + "tlv_template.c",
     "	res = storeObjectValue(ctx, tmpl, payload, tmp);\n	if (res != KSI_OK) {\n		KSI_pushError(ctx, res, NULL);\n		goto cleanup;\n	}\n\n	tmp = NULL;\n\n	res = KSI_OK;\n\ncleanup:\n\n	tmpl->destruct(tmp);\n\n	return res;\n}\n\nstatic int extractComposite",
     "	res = storeObjectValue(ctx, tmpl, payload, tmp);\n	if (res != KSI_OK) {\n		KSI_pushError(ctx, res, NULL);\n		goto cleanup;\n	}\n\n	res = KSI_OK;\n\ncleanup:\n\n	tmpl->destruct(tmp);\n\n	return res;\n}\n\nstatic int extractComposite",
     "tmpl_HashChainLink.base,tmpl_HashChainLink.f1", "extractObject destructs the object it has just stored (double ownership)"),
    ("alias_broken", T + "tlv_template.c",
     'KSI_TLV_OBJECT_LIST(0x08, KSI_TLV_TMPL_FLG_LEAST_ONE_G0 | KSI_TLV_TMPL_FLG_NO_SERIALIZE, KSI_AggregationHashChain_getChain, KSI_AggregationHashChain_setChain,',
     'KSI_TLV_OBJECT_LIST(0x08, KSI_TLV_TMPL_FLG_LEAST_ONE_G0 | KSI_TLV_TMPL_FLG_NO_SERIALIZE, KSI_AggregationHashChain_getChainIndex, KSI_AggregationHashChain_setChainIndex,',
     "tmpl_AggregationHashChain.base,tmpl_AggregationHashChain.i5", "right links of an aggregation chain stored in a different field than left links"),
    ("int_len9", T + "types_base.c", "	if (len > 8) {", "	if (len > 9) {", "leaf_int.l9,leaf_int.l8", "integer length limit 8 -> 9 (EQUIVALENT for acceptance: a 9-octet payload still fails the minimal-encoding test because the decoded 64-bit value needs <= 8 octets; same status code - expected MISSED)"),
    ("int_nonminimal", T + "types_base.c", "if (len > 0 && len != KSI_UINT64_MINSIZE(val)) {", "if (len > 8 && len != KSI_UINT64_MINSIZE(val)) {", "leaf_int.l2,leaf_int.l1", "minimal-encoding test disabled"),
    ("utf8_f7", T + "types_base.c", "str[i] <= 0xf4 /* Cause of RFC 3629 */", "str[i] <= 0xf7 /* Cause of RFC 3629 */", "leaf_utf8.l5,leaf_utf8new.l5", "4-octet lead range F0..F4 widened to F0..F7"),
    ("utf8_embedded_nul", T + "types_base.c", "if (i + 1 != len && str[i] == 0) {", "if (i + 1 != len && str[i] == 0 && 0) {", "leaf_utf8.l3,leaf_utf8new.l3", "embedded-NUL test disabled"),
    ("utf8_terminator", T + "types_base.c", "if (len == 0 || str[len - 1] != '\\0') {", "if (len == 0) {", "leaf_utf8.l2,leaf_utf8new.l1", "NUL-terminator test removed"),
    ("utf8_cont_range", T + "types_base.c", "&& str[i] >= 0x80 /*10000000*/ && str[i] <= 0xbf /*10111111*/) {", "&& str[i] >= 0x80 /*10000000*/ && str[i] <= 0xcf /*10111111*/) {", "leaf_utf8.l3,leaf_utf8.l4", "continuation range 80..BF widened to 80..CF"),
    ("nz_dropped", T + "types_base.c", "	if (tmp->len == 0 || (tmp->len == 1 && tmp->value[0] == 0)) {", "	if (tmp->len == 0) {", "leaf_utf8nz.l1", "non-empty test of Utf8StringNZ_fromTlv removed"),
    ("digest_len_lt", T + "hash.c", "if (KSI_getHashLength(algo_id) != digest_length) {", "if (KSI_getHashLength(algo_id) > digest_length) {", "leaf_digest.l64,leaf_imprint.l34", "digest length test '!=' -> '>' (longer digests accepted)"),
    ("alg_id_range", T + "hash.c", "return algo_id >= 0 && algo_id < KSI_NUMBER_OF_KNOWN_HASHALGS && KSI_hashAlgorithmInfo[algo_id].names != NULL;", "return algo_id >= 0 && algo_id < KSI_NUMBER_OF_KNOWN_HASHALGS;", "leaf_imprint.l1,leaf_digest.l1", "reserved algorithm ids 03 / 06 treated as known (EQUIVALENT for acceptance: their table length is 0, so every digest is refused by the length test or the empty-digest test; only the status code differs - expected MISSED)"),
    ("sha3_256_len", T + "hash.c", "HASH_ALGO(KSI_HASHALG_SHA3_256,		256, 1088, 0, 0),", "HASH_ALGO(KSI_HASHALG_SHA3_256,		264, 1088, 0, 0),", "leaf_imprint.l33,leaf_imprint.l34", "digest length of SHA3-256 32 -> 33"),
    ("empty_imprint_guard", T + "hash.c", "	if (imprint == NULL || imprint_length == 0) {", "	if (imprint == NULL) {", "leaf_imprint.l0", "the fixed defect F6 re-introduced"),
    ("legacy_len26", T + "hashchain.c", "	if (raw[2] > 25) {", "	if (raw[2] > 26) {", "leaf_legacy.l29", "legacy-id name length limit 25 -> 26"),
    ("legacy_padding", T + "hashchain.c", "	for (i = raw[2] + 3; i < raw_len; i++) {", "	for (i = raw[2] + 4; i < raw_len; i++) {", "leaf_legacy.l29", "first padding octet of a legacy id not checked"),
    ("legacy_header", T + "hashchain.c", "	if (!(raw[0] == 0x03 && raw[1] == 0x00)) {", "	if (!(raw[0] == 0x03 || raw[1] == 0x00)) {", "leaf_legacy.l29", "legacy-id header test && -> ||"),
    ("sig_both_records", T + "signature_builder.c", "	if (sig->calendarAuthRec != NULL && sig->publication != NULL) {", "	if (sig->calendarAuthRec != NULL && sig->publication == NULL) {", "sig_internals.a2", "auth-record / publication exclusion inverted"),
    ("sig_code", T + "signature_builder.c", 'KSI_pushError(ctx, res = KSI_INVALID_FORMAT, "Calendar auth record or publication record may not be specified if the calendar chain is missing.");', 'KSI_pushError(ctx, KSI_INVALID_FORMAT, "Calendar auth record or publication record may not be specified if the calendar chain is missing.");', "sig_internals.a2", "the fixed wrong-error-code defect re-introduced"),
    ("sig_empty_list", T + "signature_builder.c", "if (sig->aggregationChainList == NULL || KSI_AggregationHashChainList_length(sig->aggregationChainList) == 0) {", "if (sig->aggregationChainList == NULL) {", "sig_internals.a1", "empty aggregation chain list accepted"),
]

C12 = [
    ("sha3_512_terminator", T + "hash.c", 'KSI_HASHALG_SHA3_512_names[] = { "SHA3-512", ""};', 'KSI_HASHALG_SHA3_512_names[] = { "SHA3-512"};', "algname.l1,algname.l3", "the fixed defect F8 re-introduced"),
    ("algname_alloc", T + "hash.c", "	upperName = KSI_calloc(strlen(name) + 1, 1);", "	upperName = KSI_calloc(strlen(name), 1);", "algname.l1,algname.l4", "upper-case copy one byte short"),
    ("vsnprintf_clamp", T + "compatibility.c", "	if (ret >= n) {\n		ret = n - 1;", "	if (ret > n) {\n		ret = n - 1;", "fmt_snprintf.n3,tostr_tlv.n0_b7", "KSI_vsnprintf clamps only results above n (returns n when the output exactly fills the buffer)"),
    ("vsnprintf_negative", T + "compatibility.c", "	if (ret >= n) {\n		ret = n - 1;", "	if ((long)ret >= (long)n) {\n		ret = n - 1;", "fmt_snprintf.n3,tostr_datahash.b5", "negative vsnprintf result no longer mapped to n-1 (signed comparison)"),
    ("strncpy_off_by_one", T + "compatibility.c", "	ret = strncpy(destination, source, n - 1);\n	destination[n - 1] = 0;", "	ret = strncpy(destination, source, n);\n	destination[n] = 0;", "fmt_strncpy.n4_s6,fmt_strncpy.n2_s1", "KSI_strncpy terminates one byte past the buffer"),
    ("ring_modulo", "src/ksi/base.c", "	ctxErr = &ctx->errors[ctx->errors_count % ctx->errors_size];", "	ctxErr = &ctx->errors[ctx->errors_count];", "errpush.r2_s0_p3,errpush.r16_s15_p2", "error ring index without modulo"),
    ("ring_dump_index", "src/ksi/base.c", "		err = ctx->errors + ((ctx->errors_count - i - 1) % ctx->errors_size);\n		nextWrite = printer(", "		err = ctx->errors + ((ctx->errors_count - i) % (ctx->errors_size + 1));\n		nextWrite = printer(", "errpush.r2_s0_p3,errpush.r16_s15_p2", "ring dump reads entry [size] (one past the ring)"),
    ("printer_advance", "src/ksi/base.c", "	*count += c;\n	return (char*)toStream + c;", "	*count += c;\n	return (char*)toStream + c + 1;", "errpush.r16_s0_p2", "error dump advances the write pointer one byte too far per line"),
    ("stringify_size", T + "tlv.c", '			l += KSI_snprintf(str + l, NOTNEGSUB(size, l), "%02x", tlv->datap[i]);', '			l += KSI_snprintf(str + l, size, "%02x", tlv->datap[i]);', "tostr_tlv.n0_b7,tostr_tlv.n1_b7", "stringify passes the whole buffer size instead of the remaining size"),
    ("stringify_plus_one", T + "tlv.c", '	l += KSI_snprintf(str + l, NOTNEGSUB(size, l), " %c", tlv->isNonCritical ? \'L\' : \'-\');', '	l += KSI_snprintf(str + l, (NOTNEGSUB(size, l)) + 1, " %c", tlv->isNonCritical ? \'L\' : \'-\');', "tostr_tlv.n0_b7,tostr_tlv.n1_b1", "stringify passes remaining size + 1 for one field"),
    ("datahash_size", T + "hash.c", '		len += KSI_snprintf(buf + len, buf_len - len, "%02x", hsh->imprint[i]);', '		len += KSI_snprintf(buf + len, buf_len, "%02x", hsh->imprint[i]);', "tostr_datahash.b5,tostr_datahash.b43", "DataHash_toString passes the whole buffer size instead of the remaining size"),
    ("octet_size", T + "types_base.c", '			written += KSI_snprintf(buf + written, buf_len - written, "%02x", raw[i]);', '			written += KSI_snprintf(buf + written, buf_len, "%02x", raw[i]);', "tostr_octet.o3_b2,tostr_octet.o1_b3", "OctetString_toString passes the whole buffer size instead of the remaining size"),
    ("track_size", T + "tlv_template.c", '		if (i != 0) len += KSI_snprintf(buf + len, buf_len - len, "->");', '		if (i != 0) len += KSI_snprintf(buf + len, buf_len, "->");', "tostr_track.b9,tostr_track.b2", "track_str passes the whole buffer size instead of the remaining size"),
    ("base32_alloc", T + "base32.c", "	tmp = KSI_calloc(base32_len * 5 / 8 + 2, 1);", "	tmp = KSI_calloc(base32_len * 5 / 8, 1);", "base32_decode.l1,base32_decode.l5", "decode buffer two bytes short"),
    ("base32_second_byte", T + "base32.c", "		buf_idx++;\n		selected_bits = bits & ((makeMask(bits_to_second_byte)", "		buf_idx += 2;\n		selected_bits = bits & ((makeMask(bits_to_second_byte)", "base32_decode.l2,base32_decode.l5", "spill-over bits written one byte further (stays inside the +2 slack of the decode buffer: a functional change - C17 - not a memory-safety one; expected MISSED)"),
    ("uri_terminator", T + "net.c", "	tmp[new_len - 1] = '\\0';", "	tmp[new_len] = '\\0';", "uri_split.l3,uri_split.l5", "URI component copy terminated one byte too far"),
    ("uri_alloc", T + "net.c", "	tmp = KSI_malloc(strlen(val) + 1);", "	tmp = KSI_malloc(strlen(val));", "uri_split.l1,uri_split.l5", "URI component buffer one byte short"),
    ("empty_imprint_guard", T + "hash.c", "	if (imprint == NULL || imprint_length == 0) {", "	if (imprint == NULL) {", "endleaf.l0", "the fixed defect F6 re-introduced"),
    ("legacy_len_check", T + "hashchain.c", "	if (raw_len != 29) {", "	if (raw_len > 29) {", "endleaf.l0,endleaf.l2", "legacy-id parser reads the header of a too short payload"),
    ("utf8_len0", T + "types_base.c", "if (len == 0 || str[len - 1] != '\\0') {", "if (str[len - 1] != '\\0') {", "endleaf.l0", "string parser reads str[-1] of an empty payload"),
    ("octet_free", T + "types_base.c", "	if (o != NULL && --o->ref == 0) {\n		KSI_free(o->data);\n		KSI_free(o);", "	if (o != NULL && --o->ref == 0) {\n		KSI_free(o);", "endleaf.l1,tostr_octet.o1_b3", "octet string destructor leaks the data buffer"),
]


def sh(cmd, **kw):
    return subprocess.run(cmd, stdout=subprocess.PIPE, stderr=subprocess.STDOUT, text=True, **kw)


def main():
    prop = sys.argv[1]
    only = sys.argv[2:]
    muts = {"C10": C10, "C12": C12}[prop]
    scratch = "/tmp/ksi-mut-%s" % prop
    sh(["git", "-C", "/repo", "worktree", "remove", "--force", scratch])
    r = sh([os.path.join(VERIF, "engine", "mkscratch.sh"), scratch])
    assert r.returncode == 0, r.stdout
    head = sh(["git", "-C", "/repo", "rev-parse", "--short", "HEAD"]).stdout.strip()
    rows = []
    try:
        for (name, f, old, new, insts, what) in muts:
            if only and not any(name.startswith(o) for o in only):
                continue
            sh(["git", "-C", scratch, "checkout", "--", "."])
            p = os.path.join(scratch, f)
            s = open(p).read()
            if s.count(old) != 1:
                rows.append((name, f, what, insts, "NOT APPLIED (pattern found %d times)" % s.count(old), ""))
                print(rows[-1], flush=True)
                continue
            open(p, "w").write(s.replace(old, new))
            t0 = time.time()
            env = dict(os.environ, VERIF_REPO=scratch)
            r = sh(["python3", os.path.join(VERIF, "engine", "ksicheck.py"), prop, "--only", insts, "--jobs", "4", "--no-evidence"], env=env, cwd=VERIF)
            out = r.stdout
            viol = sorted(set(m.group(1) for m in re.finditer(r"check=(?:CHECK )?(.*?) \((?:\w|\.)+\) replay-result", out)))
            stat = sorted(set(m.group(1) + ":" + m.group(2) for m in re.finditer(r"^\[%s\] (\S+)\s+(\S+)" % prop, out, re.M) if m.group(2) != "ok"))
            verdict = {0: "MISSED", 1: "caught (VIOLATION)", 2: "caught (check broken/inconclusive: %s)" % ", ".join(stat)}.get(r.returncode, "rc=%d" % r.returncode)
            rows.append((name, f, what, insts, verdict, "; ".join(v[:110] for v in viol[:3])))
            print("%-24s %-50s %.0fs" % (name, verdict[:50], time.time() - t0), flush=True)
    finally:
        sh(["git", "-C", "/repo", "worktree", "remove", "--force", scratch])
        sh(["git", "-C", "/repo", "worktree", "prune"])
    mdp = os.path.join(VERIF, "harness", prop, "MUTATIONS.md")
    jp = os.path.join(VERIF, "harness", prop, "mutations.json")
    import json
    prev = json.load(open(jp)) if os.path.exists(jp) else {}
    for r in rows:
        prev[r[0]] = list(r)
    json.dump(prev, open(jp, "w"), indent=1)
    rows = [tuple(prev[m[0]]) for m in muts if m[0] in prev]   # a partial run updates its rows, the table keeps all
    with open(mdp, "w") as fo:
        fo.write("# %s - mutation sanity check of the harnesses\n\n" % prop)
        fo.write("Generated by `python3 harness/common/c10_c12_mutate.py %s` against /repo @ %s (one textual change of the real code per row, applied in a scratch worktree, "
                 "the listed instances re-run with `VERIF_REPO=<scratch>`).  *caught (VIOLATION)* = the engine reproduced a failing check natively; "
                 "*caught (check broken ...)* = the run ended inconclusive (exit 2), which also fails `./check`; *MISSED* = exit 0.\n\n" % (prop, head))
        fo.write("| mutation | file | change | instances | result | failing checks |\n|---|---|---|---|---|---|\n")
        for r in rows:
            fo.write("| %s | %s | %s | %s | %s | %s |\n" % tuple(str(x).replace("|", "\\|").replace("\n", " ") for x in r))
        n_c = sum(1 for r in rows if r[4].startswith("caught"))
        fo.write("\nRows marked MISSED are equivalent mutants for the behaviour these harnesses check (reason in the 'change' column); "
                 "first-attempt misses that led to a stronger instance list or a better mutation: critical_inverted (was run on shapes that can never be accepted; now on base+free shapes), "
                 "vsnprintf_negative / stringify_full_check (first versions were semantically equivalent C).\n")
        fo.write("\n%d mutations, %d caught, %d missed, %d not applied.\n" % (len(rows), n_c, sum(1 for r in rows if r[4] == "MISSED"), sum(1 for r in rows if r[4].startswith("NOT"))))
    print("written", mdp)


if __name__ == "__main__":
    main()
