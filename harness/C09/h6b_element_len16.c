/* C09 H-6b: 16-bit length field boundary of the element codec (tlv_element.c), on symbolic payload lengths,
 * using the serialiser's length-query mode (buf == NULL).  Parent element with two leaf children as
 * KSI_TlvElement_parse would create them (dat_len <= 0xffff each) appended with KSI_TlvElement_appendElement. */
#include "verif.h"
#include "internal.h"
#include "tlv.h"
#include "tlv_element.h"
#include "ctx.h"
#include "verif_post.h"
static u8 dummy[8];
/* leaf elements are created by the real parser from a model header (lengths symbolic here) */
static unsigned m_tag; static size_t m_len; static unsigned m_hdr;
int KSI_FTLV_memRead(const unsigned char *m, size_t l, KSI_FTLV *t) {
	(void)m; (void)l; t->off = 0; t->hdr_len = m_hdr; t->dat_len = m_len; t->tag = m_tag; t->is_nc = 0; t->is_fwd = 0; return KSI_OK;
}
void harness(void) {
	VERIF_ctx_init(); int res;
	unsigned tag[3]; size_t len[3];
	for (int k = 0; k < 3; k++) { tag[k] = ND(unsigned, tag); ASSUME(tag[k] <= 0x1fff); len[k] = ND(size_t, len); ASSUME(len[k] <= 0xffff); }
	KSI_TlvElement *top = NULL, *c0 = NULL, *c1 = NULL;
	res = KSI_TlvElement_new(&top); ASSUME(res == KSI_OK);
	top->ftlv.tag = tag[0];
	m_tag = tag[1]; m_len = len[1]; m_hdr = (tag[1] <= 0x1f && len[1] <= 0xff) ? 2 : 4;
	res = KSI_TlvElement_parse(dummy, 70000, &c0); ASSUME(res == KSI_OK);
	m_tag = tag[2]; m_len = len[2]; m_hdr = (tag[2] <= 0x1f && len[2] <= 0xff) ? 2 : 4;
	res = KSI_TlvElement_parse(dummy, 70000, &c1); ASSUME(res == KSI_OK);
	res = KSI_TlvElement_appendElement(top, c0); ASSUME(res == KSI_OK);
	res = KSI_TlvElement_appendElement(top, c1); ASSUME(res == KSI_OK);
	size_t h1 = (tag[1] <= 0x1f && len[1] <= 0xff) ? 2 : 4, h2 = (tag[2] <= 0x1f && len[2] <= 0xff) ? 2 : 4;
	size_t content = h1 + len[1] + h2 + len[2];
	size_t out = 0;
	res = KSI_TlvElement_serialize(top, NULL, 0, &out, 0);
	if (content > 0xffff) {
		CHECK(res != KSI_OK, "C09.H6b element content exceeding the 16-bit length field is refused, not given a truncated length");
		if (content == 0x10000) WITNESS_POINT("content of exactly 65536 bytes");
	} else {
		size_t h0 = (tag[0] <= 0x1f && content <= 0xff) ? 2 : 4;
		CHECK(res == KSI_OK && out == h0 + content, "C09.H6b serialised length = shortest header + content");
		if (content == 0xffff) WITNESS_POINT("content of exactly 65535 bytes");
	}
}
