#!/usr/bin/env python3
"""Generates harness/C04/plan.json (instances are enumerated shapes; see harness/README.md "concrete shape, symbolic values").
   python3 harness/C04/mkplan.py"""
import json, os

HERE = os.path.dirname(os.path.abspath(__file__))


def inst(label, **kw):
    d = {"label": label, "defines": ["%s=%s" % (k, v) for k, v in kw.items() if not k.startswith("_")]}
    for k, v in kw.items():
        if k.startswith("_"):
            d[k[1:]] = v
    return d


def nright(mask, n):
    return sum(1 for i in range(n) if not (mask >> i) & 1)


RULE_TUS = ["verification_rule", "signature", "hashchain", "hash", "publicationsfile"]
ENV = ["ctx", "hash_model", "list_wrap", "fmt_stub"]
H = []

# ---------------------------------------------------------------- H-b
H.append({
    "name": "hb_anchor", "src": "hb_anchor.c", "env": ["ctx", "list_wrap"], "tus": [],
    "unwind": 14, "solver": "cadical", "timeout": 300, "mem_gb": 8, "object_bits": 12,
    "functions": ["Rule_verify", "Policy_verifySignature", "calendarBasedRules", "keyBasedRules", "publicationsFileBasedRules",
                  "userProvidedPublicationBasedRules", "generalRules", "internalRules"],
    "bound": "exhaustive over the fact vector (5 presence facts, 21 internal conditions x 3 states, ~45 anchor facts, 30 per-rule cannot-compute flags with arbitrary status); one instance per policy",
    "instances": [inst("cal", POLICY=0), inst("key", POLICY=1), inst("pubfile", POLICY=2), inst("user", POLICY=3), inst("general", POLICY=4)],
})

# ---------------------------------------------------------------- user publication rules
H.append({
    "name": "h_user", "src": "h_user.c", "env": ENV, "tus": RULE_TUS,
    "unwind": 6, "timeout": 300, "mem_gb": 8, "object_bits": 12,
    "functions": ["KSI_VerificationRule_UserProvidedPublicationExistence", "KSI_VerificationRule_RequireNoUserProvidedPublication",
                  "KSI_VerificationRule_UserProvidedPublicationTimeVerification", "KSI_VerificationRule_UserProvidedPublicationTimeDoesNotSuit",
                  "KSI_VerificationRule_UserProvidedPublicationHashVerification", "KSI_VerificationRule_UserProvidedPublicationCreationTimeVerification",
                  "KSI_DataHash_equals", "KSI_Integer_compare"],
    "bound": "shapes: calendar chain / publication record present or not, user publication absent / complete / without time / without imprint, imprint digest length classes 20/32; all times 64 bit, algorithm ids inside the class and digest bytes symbolic",
    "instances": [
        inst("nocal_up1", SB_HAS_CAL=0, SB_HAS_PUB=0, C04_USERPUB=1),
        inst("cal_nopub_up1", SB_HAS_CAL=1, SB_HAS_PUB=0, C04_USERPUB=1),
        inst("cal_pub_up1_same32", SB_HAS_CAL=1, SB_HAS_PUB=1, C04_USERPUB=1, SB_PUBALG=-32, C04_USERPUB_ALG=-32),
        inst("cal_pub_up1_20_32", SB_HAS_CAL=1, SB_HAS_PUB=1, C04_USERPUB=1, SB_PUBALG=-20, C04_USERPUB_ALG=-32),
        inst("cal_pub_up2", SB_HAS_CAL=1, SB_HAS_PUB=1, C04_USERPUB=2),
        inst("cal_pub_up3", SB_HAS_CAL=1, SB_HAS_PUB=1, C04_USERPUB=3),
        inst("cal_pub_up0", SB_HAS_CAL=1, SB_HAS_PUB=1, C04_USERPUB=0),
        inst("calnoaggr_pub_up1", SB_HAS_CAL=1, SB_CAL_HAS_AGGRTIME=0, SB_HAS_PUB=1, C04_USERPUB=1),
    ],
})

# ---------------------------------------------------------------- publications file lookups
pf_quick = [
    inst("n0_pub", SB_HAS_CAL=1, SB_HAS_PUB=1, C04_NPUB=0),
    inst("n1_pub", SB_HAS_CAL=1, SB_HAS_PUB=1, C04_NPUB=1),
    inst("n2_pub", SB_HAS_CAL=1, SB_HAS_PUB=1, C04_NPUB=2),
    inst("n2_pub_32_20", SB_HAS_CAL=1, SB_HAS_PUB=1, C04_NPUB=2, SB_PUBALG=-32, C04_PF_ALG="{-20,-32,-20}"),
    inst("n2_nocal", SB_HAS_CAL=0, SB_HAS_PUB=0, C04_NPUB=2),
    inst("n2_calnoaggr", SB_HAS_CAL=1, SB_CAL_HAS_AGGRTIME=0, SB_HAS_PUB=0, C04_NPUB=2),
    inst("n1_pub_download", SB_HAS_CAL=1, SB_HAS_PUB=1, C04_NPUB=1, C04_PF_USER=0),
]
pf_thorough = pf_quick + [
    inst("n3_pub", SB_HAS_CAL=1, SB_HAS_PUB=1, C04_NPUB=3),
    inst("n3_pub_32", SB_HAS_CAL=1, SB_HAS_PUB=1, C04_NPUB=3, SB_PUBALG=-32, C04_PF_ALG="{-32,-32,-32}", C04_PF_ALG0=-32),
    inst("n3_nocal", SB_HAS_CAL=0, SB_HAS_PUB=0, C04_NPUB=3),
    inst("n2_nopub_download", SB_HAS_CAL=1, SB_HAS_PUB=0, C04_NPUB=2, C04_PF_USER=0),
]
H.append({
    "name": "h_pubfile", "src": "h_pubfile.c", "env": ENV + ["ext_seam"], "tus": RULE_TUS,
    "unwind": 6, "timeout": 300, "mem_gb": 8, "object_bits": 12,
    "functions": ["KSI_VerificationRule_PublicationsFileContainsSignaturePublication", "KSI_VerificationRule_PublicationsFileDoesNotContainSignaturePublication",
                  "KSI_VerificationRule_PublicationsFileSignaturePublicationVerification", "KSI_VerificationRule_PublicationsFileContainsSuitablePublication",
                  "initPublicationsFile", "findPublication", "KSI_PublicationsFile_findPublication", "KSI_PublicationsFile_findPublicationByTime",
                  "KSI_PublicationsFile_getNearestPublication", "KSI_Signature_getSigningTime"],
    "bound": "publications file of 0..2 records (thorough 3), signature with / without publication record and calendar chain (with / without aggregation-time element); caller supplied file or download seam with symbolic statuses; all times 64 bit, imprints symbolic within digest length classes 20/32",
    "instances": pf_quick, "thorough": {"instances": pf_thorough, "timeout": 900},
})

# ---------------------------------------------------------------- fetching rules (extender seam)
H.append({
    "name": "h_ext", "src": "h_ext.c", "env": ENV + ["ext_seam"], "tus": RULE_TUS + ["types", "tlv"], "extra_src": ["x_net_real.c"],
    "unwind": 6, "unwindset": ["KSI_TLV_free:3"], "timeout": 300, "mem_gb": 8, "object_bits": 12,
    "restrict_fp": ["KSI_List_free.function_pointer_call.1/KSI_HashChainLink_free"], "cbmc_flags": ["--slice-formula"],
    "functions": ["receiveCalendarHashChain", "KSI_VerificationRule_ExtendSignatureCalendarChainInputHashToHead", "KSI_VerificationRule_ExtendSignatureCalendarChainInputHashToSamePubTime",
                  "KSI_VerificationRule_PublicationsFileExtendToPublication", "KSI_VerificationRule_UserProvidedPublicationExtendToPublication",
                  "KSI_createExtendRequest", "KSI_convertExtenderStatusCode", "isFatalError", "KSI_PublicationsFile_getNearestPublication", "KSI_ExtendResp_free", "KSI_ExtendReq_free"],
    "bound": "per fetching rule: signature with / without calendar chain (with / without aggregation-time element), reply absent / present with or without status and chain (1 link), publications file of 0..2 records, user publication complete / without time / absent; every transport status, the extender status code (64 bit), both request ids and all times symbolic; the element destructor reached through KSI_List_free is restricted to KSI_HashChainLink_free (goto-instrument inserts the proof obligation)",
    "instances": [
        inst("head_nocal", RULE=0, SB_HAS_CAL=0),
        inst("head_noreply", RULE=0, SB_HAS_CAL=0, REPLY_PRESENT=0),
        inst("head_nochain", RULE=0, SB_HAS_CAL=0, C04_EXT_HAS_CHAIN=0, STALE_CHAIN=1),
        inst("head_nostatus", RULE=0, SB_HAS_CAL=0, C04_EXT_HAS_STATUS=0),
        inst("same_cal", RULE=1, SB_HAS_CAL=1, STALE_CHAIN=1),
        inst("same_calnoaggr", RULE=1, SB_HAS_CAL=1, SB_CAL_HAS_AGGRTIME=0),
        inst("same_nocal", RULE=1, SB_HAS_CAL=0),
        inst("pf_n2_cal", RULE=2, SB_HAS_CAL=1, C04_NPUB=2),
        inst("pf_n0_nocal", RULE=2, SB_HAS_CAL=0, C04_NPUB=0),
        inst("pf_n2_nocal", RULE=2, SB_HAS_CAL=0, C04_NPUB=2),
        inst("up_nocal", RULE=3, SB_HAS_CAL=0, C04_USERPUB=1),
        inst("up_cal", RULE=3, SB_HAS_CAL=1, C04_USERPUB=1),
        inst("up_notime", RULE=3, SB_HAS_CAL=0, C04_USERPUB=2),
        inst("up_none", RULE=3, SB_HAS_CAL=0, C04_USERPUB=0),
    ],
})

# ---------------------------------------------------------------- comparison rules
def cmp_instances(thorough):
    L = []
    # aggregation time + input hash: directions of the calendar chains are irrelevant (left symbolic)
    L += [inst("cal_ti_nocal_e1", GROUP=0, PARTS=33, SB_HAS_CAL=0, C04_EXT_NLINKS=1),
          inst("cal_ti_c1_e2", GROUP=0, PARTS=33, SB_HAS_CAL=1, SB_CAL_NLINKS=1, C04_EXT_NLINKS=2),
          inst("cal_ti_c1_e1_noaggr", GROUP=0, PARTS=33, SB_HAS_CAL=1, SB_CAL_NLINKS=1, C04_EXT_NLINKS=1, C04_EXT_HAS_AGGRTIME=0)]
    # right links: direction patterns concrete (bit l = link l is a left link)
    pats = [(1, 1, s, e) for s in range(2) for e in range(2)]
    if thorough:
        pats += [(2, 2, s, e) for s in range(4) for e in range(4)] + [(1, 2, s, e) for s in range(2) for e in range(4)] + [(3, 3, 2, 2), (3, 3, 5, 3), (3, 2, 0, 0), (3, 3, 0, 0), (2, 3, 1, 4)]
    else:
        pats += [(2, 2, 0, 0), (2, 2, 3, 3), (2, 2, 1, 2), (2, 2, 2, 2), (2, 2, 0, 1), (1, 2, 0, 2)]
    for (ns, ne, s, e) in pats:
        L.append(inst("cal_rl_c%d_e%d_d%d_%d" % (ns, ne, s, e), GROUP=0, PARTS=2, SB_HAS_CAL=1, SB_CAL_NLINKS=ns, C04_EXT_NLINKS=ne, SIG_DIRS=s, C04_EXT_DIRS=e,
                      SIG_NRIGHT=nright(s, ns), EXT_NRIGHT=nright(e, ne)))
    # root hash
    rp = [(1, 1, 0, 0), (1, 1, 1, 0), (2, 2, 1, 2)]
    if thorough:
        rp += [(1, 1, 0, 1), (1, 1, 1, 1), (2, 2, 0, 3), (2, 1, 2, 1), (3, 3, 5, 2)]
    for (ns, ne, s, e) in rp:
        L.append(inst("cal_root_c%d_e%d_d%d_%d" % (ns, ne, s, e), GROUP=0, PARTS=4, SB_HAS_CAL=1, SB_CAL_NLINKS=ns, C04_EXT_NLINKS=ne, SIG_DIRS=s, C04_EXT_DIRS=e))
    L.append(inst("cal_unbuffered", GROUP=0, SB_HAS_CAL=1, BUFFERED=0))
    for g, name, extra in ((1, "up", {"C04_USERPUB": 1}), (2, "pf", {"C04_NPUB": 2})):
        hp = [(1, 0), (1, 1), (2, 2)] + ([(2, 1), (3, 5)] if thorough else [])
        for (ne, e) in hp:
            L.append(inst("%s_hash_e%d_d%d" % (name, ne, e), GROUP=g, PARTS=8, SB_HAS_CAL=0, C04_EXT_NLINKS=ne, C04_EXT_DIRS=e, **extra))
        L.append(inst("%s_ti_e1" % name, GROUP=g, PARTS=48, SB_HAS_CAL=0, C04_EXT_NLINKS=1, **extra))
        L.append(inst("%s_ti_cal_e2" % name, GROUP=g, PARTS=48, SB_HAS_CAL=1, C04_EXT_NLINKS=2, **extra))
        L.append(inst("%s_ti_calnoaggr_e1" % name, GROUP=g, PARTS=48, SB_HAS_CAL=1, SB_CAL_HAS_AGGRTIME=0, C04_EXT_NLINKS=1, **extra))
        L.append(inst("%s_ti_e1_noaggr" % name, GROUP=g, PARTS=48, SB_HAS_CAL=0, C04_EXT_NLINKS=1, C04_EXT_HAS_AGGRTIME=0, **extra))
        L.append(inst("%s_unbuffered" % name, GROUP=g, SB_HAS_CAL=0, BUFFERED=0, **extra))
    L.append(inst("pf_ti_n1_e1", GROUP=2, PARTS=48, SB_HAS_CAL=0, C04_NPUB=1, C04_EXT_NLINKS=1))
    L.append(inst("up_hash_noimprint", GROUP=1, PARTS=8, SB_HAS_CAL=0, C04_USERPUB=3, C04_EXT_NLINKS=1, C04_EXT_DIRS=1))
    if thorough:
        L.append(inst("pf_ti_n3_e1", GROUP=2, PARTS=48, SB_HAS_CAL=0, C04_NPUB=3, C04_EXT_NLINKS=1))
    return L


H.append({
    "name": "h_cmp", "src": "h_cmp.c", "env": ENV + ["ext_seam"], "tus": RULE_TUS + ["tlv_element", "fast_tlv"],
    "global_defines": ["HM_REC_MAX=6"],
    "unwind": 6, "timeout": 300, "mem_gb": 8, "object_bits": 12,
    "functions": ["KSI_VerificationRule_ExtendedSignatureCalendarChainRootHash", "KSI_VerificationRule_ExtendedSignatureCalendarChainRightLinksMatch",
                  "KSI_VerificationRule_ExtendedSignatureCalendarChainInputHash", "KSI_VerificationRule_ExtendedSignatureCalendarChainAggregationTime",
                  "KSI_VerificationRule_UserProvidedPublicationHashMatchesExtendedResponse", "KSI_VerificationRule_UserProvidedPublicationTimeMatchesExtendedResponse",
                  "KSI_VerificationRule_UserProvidedPublicationExtendedSignatureInputHash", "KSI_VerificationRule_PublicationsFilePublicationHashMatchesExtenderResponse",
                  "KSI_VerificationRule_PublicationsFilePublicationTimeMatchesExtenderResponse", "KSI_VerificationRule_PublicationsFileExtendedSignatureInputHash",
                  "getExtendedCalendarHashChain", "getNextLink", "initAggregationOutputHash", "KSI_CalendarHashChain_aggregate", "KSI_AggregationHashChainList_aggregate", "KSI_DataHash_equals"],
    "bound": "one aggregation chain of one link; signature calendar chain and extender chain of 1..2 links each (thorough: up to 3; all SHA-1 sized imprints); direction patterns enumerated where they select the links compared / hashed (quick: all 4 for 1+1 links and 7 of the longer ones; thorough: all 16 for 2+2 and more), symbolic elsewhere; aggregation-time elements present / absent, publications file of 1..2 (thorough 3) records, user publication complete / without imprint; all times (64 bit), level corrections, imprints and the digests returned by the hash model symbolic",
    "instances": cmp_instances(False), "thorough": {"instances": cmp_instances(True), "timeout": 900},
})

# ---------------------------------------------------------------- key based rules
key_common = dict(SB_HAS_CAL=1, SB_HAS_AUTH=1)
H.append({
    "name": "h_key", "src": "h_key.c", "env": ENV + ["ext_seam", "pki_model"], "tus": RULE_TUS + ["types", "tlv", "fast_tlv"],
    "unwind": 6, "unwindset": ["KSI_TLV_free:4", "KSI_TLV_writeBytes.0:40", "serializeTlv:4"], "timeout": 300, "mem_gb": 8, "object_bits": 12,
    "restrict_fp": ["KSI_List_free.function_pointer_call.1/KSI_TLV_free"],
    "functions": ["KSI_VerificationRule_CalendarHashChainPresenceVerification", "KSI_VerificationRule_CalendarAuthenticationRecordPresenceVerification",
                  "KSI_VerificationRule_CertificateExistence", "KSI_VerificationRule_CertificateValidity", "KSI_VerificationRule_CalendarAuthenticationRecordSignatureVerification",
                  "KSI_PublicationsFile_getPKICertificateById", "KSI_OctetString_equals", "KSI_TLV_serialize", "initPublicationsFile"],
    "bound": "publications file with 0..2 certificate records, certificate ids of 4 (or 3 vs 4) bytes, calendar chain with / without aggregation-time element, published data TLV of 31 bytes (4-byte time, SHA-1 sized imprint), signature value of 4 bytes; ids, validity times (64 bit), calendar times, published-data bytes, flags, oracle verdict and download statuses symbolic",
    "instances": [
        inst("exist_c0", PARTS=1, C04_NCERT=0, **key_common),
        inst("exist_c2", PARTS=1, C04_NCERT=2, **key_common),
        inst("exist_c2_len34", PARTS=1, C04_NCERT=2, C04_CERTID_LEN="{3,4}", **key_common),
        inst("exist_noauth", PARTS=1, C04_NCERT=1, SB_HAS_CAL=1, SB_HAS_AUTH=0),
        inst("exist_nocal", PARTS=1, C04_NCERT=1, SB_HAS_CAL=0, SB_HAS_AUTH=0),
        inst("exist_c1_download", PARTS=1, C04_NCERT=1, C04_PF_USER=0, **key_common),
        inst("valid_c1", PARTS=2, C04_NCERT=1, **key_common),
        inst("valid_c2", PARTS=2, C04_NCERT=2, **key_common),
        inst("valid_c1_calnoaggr", PARTS=2, C04_NCERT=1, SB_CAL_HAS_AGGRTIME=0, **key_common),
        inst("valid_c1_download", PARTS=2, C04_NCERT=1, C04_PF_USER=0, **key_common),
        inst("sig_c1", PARTS=4, C04_NCERT=1, **key_common),
        inst("sig_c2", PARTS=4, C04_NCERT=2, **key_common),
        inst("sig_c0", PARTS=4, C04_NCERT=0, **key_common),
        inst("sig_c1_flags60", PARTS=4, C04_NCERT=1, RAW_FLAGS="0x60", **key_common),
    ],
})

# ---------------------------------------------------------------- deprecated-algorithm rules
H.append({
    "name": "h_depr", "src": "h_depr.c", "env": ENV, "tus": RULE_TUS,
    "unwind": 6, "timeout": 300, "mem_gb": 8, "object_bits": 12,
    "functions": ["KSI_VerificationRule_CalendarHashChainHashAlgorithmDeprecatedAtPubTime", "KSI_VerificationRule_PublicationsFileSignatureCalendarChainHashAlgorithmDeprecatedAtPubTime",
                  "KSI_VerificationRule_UserProvidedPublicationSignatureCalendarChainHashAlgorithmDeprecatedAtPubTime",
                  "KSI_VerificationRule_UserProvidedPublicationExtendedCalendarChainHashAlgorithmDeprecatedAtPubTime",
                  "signatureCalendarChainHashAlgorithmDeprecatedAtPubTime", "calendarChainAggrAlgorithmState", "wasDeprecatedAt", "getNextLink"],
    "bound": "calendar chains of 1..3 links with concrete direction patterns and sibling algorithms SHA-1 / SHA2-256; publication time (64 bit) symbolic; the algorithm status function of hash.c is used as given",
    "instances": [
        inst("sig_l_sha1", ON_EXT=0, SB_HAS_CAL=1, SB_CAL_NLINKS=1, SIG_DIRS=1, SB_CAL_SIBALG="{0,0,0,0}", HAS_SHA1_LEFT=1),
        inst("sig_r_sha1", ON_EXT=0, SB_HAS_CAL=1, SB_CAL_NLINKS=1, SIG_DIRS=0, SB_CAL_SIBALG="{0,0,0,0}", HAS_SHA1_LEFT=0),
        inst("sig_rl_sha1_256", ON_EXT=0, SB_HAS_CAL=1, SB_CAL_NLINKS=2, SIG_DIRS=2, SB_CAL_SIBALG="{0,1,0,0}", HAS_SHA1_LEFT=0),
        inst("sig_lrl_256_sha1_sha1", ON_EXT=0, SB_HAS_CAL=1, SB_CAL_NLINKS=3, SIG_DIRS=5, SB_CAL_SIBALG="{1,0,0,0}", HAS_SHA1_LEFT=1),
        inst("sig_nocal", ON_EXT=0, SB_HAS_CAL=0, HAS_SHA1_LEFT=0),
        inst("ext_l_sha1", ON_EXT=1, C04_USERPUB=1, C04_EXT_NLINKS=1, C04_EXT_DIRS=1, C04_EXT_SIBALG="{0,0,0,0}", HAS_SHA1_LEFT=1),
        inst("ext_rl_sha1_256", ON_EXT=1, C04_USERPUB=1, C04_EXT_NLINKS=2, C04_EXT_DIRS=2, C04_EXT_SIBALG="{0,1,0,0}", HAS_SHA1_LEFT=0),
        inst("ext_lr_256_sha1_l_sha1", ON_EXT=1, C04_USERPUB=1, C04_EXT_NLINKS=3, C04_EXT_DIRS=5, C04_EXT_SIBALG="{1,0,0,0}", HAS_SHA1_LEFT=1),
        inst("ext_unbuffered", ON_EXT=1, C04_USERPUB=1, BUFFERED=0, HAS_SHA1_LEFT=0),
    ],
})

PLAN = {
    "property": "C04",
    "outside": "TODO",
    "assumptions": [],
    "manifest": {"claimed": True, "level_text": "TODO", "level_note": "TODO"},
    "harnesses": H,
}
json.dump(PLAN, open(os.path.join(HERE, "plan.json"), "w"), indent=1)
print("plan.json: %d harnesses, %d quick instances" % (len(H), sum(len(h.get("instances", [])) or 1 for h in H)))
