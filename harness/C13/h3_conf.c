/* C13 H-3: one configuration delivered by the server (asyncClient_handleServerConfig) to an ARBITRARY
 * invariant-satisfying client state, with/without a push-configuration callback.
 *
 * Contract (net_async.h: KSI_ASYNC_STATE_PUSH_CONFIG_RECEIVED, KSI_ASYNC_OPT_PUSH_CONF_CALLBACK):
 *  - a configuration handle is cached (user request pending/failed, or an earlier configuration not yet fetched):
 *    it becomes PUSH_CONFIG_RECEIVED holding a new reference to exactly this configuration, the previous one is
 *    released; a handle that was still pending moves from pending to received, otherwise counters are unchanged;
 *  - none cached, callback configured and enabled: the callback gets this configuration exactly once, its status
 *    is returned, nothing is cached;
 *  - none cached, no callback: a new handle in PUSH_CONFIG_RECEIVED holding the configuration is cached, received + 1;
 *  - request slots untouched; Inv(c) afterwards. */
#define HN "C13.H3"
#include "verif.h"
#include "internal.h"
#include "ctx.h"
#include "verif_post.h"
#include "c13_model.h"
#include "net_async.c"
#include "c13_state.h"

#ifndef HAVE_CB
#define HAVE_CB 1
#endif
static unsigned cb_calls; static KSI_Config *cb_arg; static int cb_res;
static int conf_callback(KSI_CTX *ctx, KSI_Config *cfg) { (void)ctx; cb_calls++; cb_arg = cfg; cb_res = C13_ND_STATUS(callback); return cb_res; }

void harness(void) {
	VERIF_ctx_init();
	KSI_CTX *ctx = VERIF_ctx;
	struct c13_snap pre;
	int res;
	KSI_AsyncClient *c = c13_mk_client(ctx, &pre);
	/* whether a callback is configured is part of the instance's shape (a symbolic function pointer makes
	 * CBMC explore every address-taken function as a possible callee) */
	const _Bool haveCb = HAVE_CB;
	const _Bool cbEnabled = ND_BOOL(callback_enabled);     /* HA sub-services disable it (net_ha.c:1343) */
	res = asyncClient_setOption(c, KSI_ASYNC_PRIVOPT_INVOKE_CONF_RECEIVED_CALLBACK, (void *)(size_t)cbEnabled); ASSUME(res == KSI_OK);
	KSI_Config *cfg = NULL; res = KSI_Config_new(ctx, &cfg); ASSUME(res == KSI_OK && cfg != NULL);
	KSI_Config *oldCfg = (pre.conf.h != NULL) ? (KSI_Config *)pre.conf.respCtx : NULL;
	if (oldCfg != NULL) KSI_Config_ref(oldCfg);     /* observer's reference, to see the release */

	res = asyncClient_handleServerConfig(c, cfg, haveCb ? conf_callback : NULL);

	CHECK(c13_slots_unchanged(c, &pre, 0), HN " request slots untouched by a configuration");
	if (pre.conf.h != NULL) {
		const KSI_AsyncHandle *h = c->serverConf;
		CHECK(res == KSI_OK, HN " configuration for a cached configuration handle accepted");
		CHECK(h == pre.conf.h, HN " cached configuration handle stays cached");
		CHECK(h->state == KSI_ASYNC_STATE_PUSH_CONFIG_RECEIVED && h->respCtx == (void *)cfg && h->respCtx_free != NULL && cfg->ref == 2, HN " cached configuration handle now holds exactly this configuration");
		if (oldCfg != NULL) CHECK(oldCfg->ref == 1, HN " previously held configuration released");
		if (c13_is_pending_state(pre.conf.state)) {
			CHECK(c->pending == pre.pending - 1 && c->received == pre.received + 1, HN " answered configuration request moves from pending to received");
#if CONF_KIND == 1
			if (pre.conf.state == KSI_ASYNC_STATE_WAITING_FOR_RESPONSE) WITNESS_POINT("user configuration request answered");
#endif
		} else {
			CHECK(c->pending == pre.pending && c->received == pre.received, HN " refreshed configuration changes no counter");
#if CONF_KIND == 2
			WITNESS_POINT("configuration refreshed before it was fetched");
#endif
		}
		CHECK(cb_calls == 0, HN " callback not invoked while a configuration handle is owed");
	} else if (haveCb && cbEnabled) {
		CHECK(cb_calls == 1 && cb_arg == cfg, HN " callback invoked exactly once with the received configuration");
		CHECK(res == cb_res, HN " callback status returned");
		CHECK(c->serverConf == NULL && c->pending == pre.pending && c->received == pre.received && cfg->ref == 1, HN " configuration given to the callback is not cached");
#if CONF_KIND == 0 && HAVE_CB
		if (cb_res != KSI_OK) WITNESS_POINT("callback failure reported"); else WITNESS_POINT("callback consumed the configuration");
#endif
	} else {
		const KSI_AsyncHandle *h = c->serverConf;
		CHECK(res == KSI_OK && cb_calls == 0, HN " pushed configuration accepted without callback");
		CHECK(h != NULL, HN " pushed configuration cached in a new handle");
		if (h != NULL) {
			CHECK(h->state == KSI_ASYNC_STATE_PUSH_CONFIG_RECEIVED && h->respCtx == (void *)cfg && h->respCtx_free != NULL && cfg->ref == 2 && h->ref == 1, HN " new handle holds exactly this configuration");
			CHECK(c->pending == pre.pending && c->received == pre.received + 1, HN " pushed configuration counted as received");
		}
#if CONF_KIND == 0
		if (pre.pending + pre.received == CACHE_S - 1) WITNESS_POINT("configuration pushed while the request cache is full");
#endif
	}
	c13_check_inv(c);
}
