#!/bin/sh
# usage: fpsites.sh <binary.gb> [function-name-regex]
# Lists the indirect call sites of a goto binary with the labels goto-instrument --restrict-function-pointer expects
# (<function>.function_pointer_call.<n>); used to write the "restrict_fp" lists in plan.json.
goto-instrument --show-goto-functions "$1" 2>/dev/null | awk '/^[A-Za-z_0-9$]+ \/\*/{fn=$1; n=0} /CALL (.*:= )?\*/{n++; s=$0; sub(/^ *([0-9]+: )?CALL /,"",s); print fn".function_pointer_call."n"  "substr(s,1,160)}' | grep -E "^(${2:-.})"
