/* C07 H-1: KSI_createSignRequest (signature.c) with the real request type (types.c), all int levels, every hash
 * algorithm id of the instance's digest length:
 *   - level outside 0..255 -> KSI_INVALID_ARGUMENT, hash of a deprecated algorithm (SHA-1) -> KSI_UNTRUSTED_HASH_ALGORITHM;
 *     in both cases no request object is produced and the caller's hash is not retained;
 *   - otherwise the request holds the caller's hash OBJECT (one more reference, bytes untouched), the level as given
 *     (level 0 = no level element), and neither a request id nor a configuration request (ids are assigned by the
 *     transport later). */
#include "verif.h"
#include "internal.h"
#include "impl/hash_impl.h"
#include "ctx.h"
#include "tlv.h"
#include "hmac.h"
#include "tlv_template.h"
#include "hashchain.h"
#include "pkitruststore.h"
#include "net.h"
#include "net_async.h"
#include "net_ha.h"
#include "tlv_element.h"
#include "impl/ctx_impl.h"
#include "impl/meta_data_impl.h"
#include "impl/meta_data_element_impl.h"
#include "signature.h"
#include "verif_post.h"
#include "types.c"

#ifndef HL
#define HL 32
#endif

/* HMAC is not the subject and never reached */
void harness(void) {
	VERIF_ctx_init();
	KSI_CTX *ctx = VERIF_ctx;
	u8 alg = ND(u8, hash_alg);
#if HL == 20
	ASSUME(alg == 0x00 || alg == 0x02);
#elif HL == 32
	ASSUME(alg == 0x01 || alg == 0x08 || alg == 0x0b);
#elif HL == 48
	ASSUME(alg == 0x04 || alg == 0x09);
#elif HL == 64
	ASSUME(alg == 0x05 || alg == 0x0a);
#elif HL == 28
	ASSUME(alg == 0x07);
#endif
	static KSI_DataHash root;
	u8 copy[1 + HL];
	root.ctx = ctx; root.ref = 1; root.imprint_length = 1 + HL; root.imprint[0] = alg;
	for (unsigned i = 0; i < HL; i++) root.imprint[1 + i] = ND(u8, root_digest);
	for (unsigned i = 0; i < 1 + HL; i++) copy[i] = root.imprint[i];
	int lvl = ND(int, level);
	KSI_AggregationReq *req = NULL;

	int res = KSI_createSignRequest(ctx, &root, lvl, &req);

	int same = 1;
	for (unsigned i = 0; i < 1 + HL; i++) if (root.imprint[i] != copy[i]) same = 0;
	CHECK(same && root.imprint_length == 1 + HL, "C07.H1 the caller's hash is not modified");
	if (lvl < 0 || lvl > 0xff) {
		CHECK(res == KSI_INVALID_ARGUMENT && req == NULL && root.ref == 1, "C07.H1 a level outside 0..255 is refused, nothing is produced");
		if (lvl == 256) WITNESS_POINT("level 256 refused");
		if (lvl == -1) WITNESS_POINT("level -1 refused");
	} else if (alg == 0x00) {
		CHECK(res == KSI_UNTRUSTED_HASH_ALGORITHM && req == NULL && root.ref == 1, "C07.H1 a hash of a deprecated algorithm is refused, nothing is produced");
#if HL == 20
		WITNESS_POINT("SHA-1 hash refused");
#endif
	} else {
		CHECK(res == KSI_OK && req != NULL, "C07.H1 a request is produced for every trusted hash and level 0..255");
		if (res == KSI_OK && req != NULL) {
			CHECK(req->requestHash == &root && root.ref == 2, "C07.H1 the request carries the caller's hash object (one more reference)");
			CHECK(lvl == 0 ? req->requestLevel == NULL : (req->requestLevel != NULL && KSI_Integer_getUInt64(req->requestLevel) == (u64)lvl), "C07.H1 the request carries the caller's level; level 0 is the absent element");
			CHECK(req->requestId == NULL && req->config == NULL, "C07.H1 a fresh signing request has no id and no configuration request");
			if (lvl == 255) WITNESS_POINT("request for level 255");
			if (lvl == 0) WITNESS_POINT("request for level 0");
			KSI_AggregationReq_free(req);
			CHECK(root.ref == 1, "C07.H1 releasing the request releases its reference to the hash");
		}
	}
}
