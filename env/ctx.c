/* Environment model replacing base.c (see DESIGN 3.1/3.2):
 *  - one statically allocated KSI_CTX with the option defaults of base.c:initOptions
 *  - KSI_ERR_push / KSI_ERR_clearErrors: only the error *count* is tracked (message ring is
 *    the subject of a dedicated C12 harness on the real base.c)
 *  - KSI_LOG_*: empty bodies (logging is never the subject)
 *  - KSI_malloc/KSI_calloc/KSI_free forward to malloc/calloc/free; with -DVERIF_FAULT_ALLOC
 *    allocation number VERIF_fault_at (1-based, symbolic in C19 harnesses) returns NULL. */
#include "internal.h"
#include "impl/ctx_impl.h"
#include "verif.h"

struct KSI_CTX_st VERIF_ctx_obj;
KSI_CTX *VERIF_ctx = &VERIF_ctx_obj;
unsigned VERIF_err_pushes;

/* ---- allocation ---- */
unsigned VERIF_alloc_count;     /* allocations attempted so far */
unsigned VERIF_fault_at;        /* 0 = never fail; k = the k-th allocation fails */
int VERIF_fault_hit;
int VERIF_fault_gate(void) {
	VERIF_alloc_count++;
	if (VERIF_fault_at != 0 && VERIF_alloc_count == VERIF_fault_at) { VERIF_fault_hit = 1; return 0; }
	return 1;
}
void *KSI_malloc(size_t size) {
#ifdef VERIF_FAULT_ALLOC
	if (!VERIF_fault_gate()) return NULL;
#endif
	return malloc(size);
}
void *KSI_calloc(size_t num, size_t size) {
#ifdef VERIF_FAULT_ALLOC
	if (!VERIF_fault_gate()) return NULL;
#endif
	return calloc(num, size);
}
void KSI_free(void *ptr) { if (ptr != NULL) free(ptr); }

/* ---- errors / logging ---- */
void KSI_ERR_push(KSI_CTX *ctx, int statusCode, long extErrorCode, const char *fileName, unsigned int lineNr, const char *message) {
	(void)extErrorCode; (void)fileName; (void)lineNr; (void)message;
	if (ctx == NULL) return;
	if (statusCode == KSI_OK) return;
	ctx->errors_count++;
	VERIF_err_pushes++;
}
void KSI_ERR_clearErrors(KSI_CTX *ctx) { if (ctx != NULL) ctx->errors_count = 0; }
int KSI_LOG_debug(KSI_CTX *ctx, char *format, ...) { (void)ctx; (void)format; return KSI_OK; }
int KSI_LOG_info(KSI_CTX *ctx, char *format, ...) { (void)ctx; (void)format; return KSI_OK; }
int KSI_LOG_notice(KSI_CTX *ctx, char *format, ...) { (void)ctx; (void)format; return KSI_OK; }
int KSI_LOG_warn(KSI_CTX *ctx, char *format, ...) { (void)ctx; (void)format; return KSI_OK; }
int KSI_LOG_error(KSI_CTX *ctx, char *format, ...) { (void)ctx; (void)format; return KSI_OK; }
int KSI_LOG_logBlob(KSI_CTX *ctx, int level, const char *prefix_format, const unsigned char *data, size_t data_len, ...) { (void)ctx; (void)level; (void)prefix_format; (void)data; (void)data_len; return KSI_OK; }
int KSI_LOG_logTlv(KSI_CTX *ctx, int level, const char *prefix, const KSI_TLV *tlv) { (void)ctx; (void)level; (void)prefix; (void)tlv; return KSI_OK; }
int KSI_LOG_logDataHash(KSI_CTX *ctx, int level, const char *prefix, const KSI_DataHash *hsh) { (void)ctx; (void)level; (void)prefix; (void)hsh; return KSI_OK; }
int KSI_LOG_logCtxError(KSI_CTX *ctx, int level) { (void)ctx; (void)level; return KSI_OK; }
const char *KSI_getErrorString(int statusCode) { (void)statusCode; return "err"; }

/* ---- options ---- */
int KSI_CTX_setOption(KSI_CTX *ctx, KSI_Option opt, void *param) {
	if (ctx == NULL || opt >= __KSI_NUMBER_OF_OPTIONS) return KSI_INVALID_ARGUMENT;
	ctx->options[opt] = (size_t)param;
	return KSI_OK;
}

/* Initialise the model context as KSI_CTX_new does for the fields the library reads. */
void VERIF_ctx_init(void) {
	memset(&VERIF_ctx_obj, 0, sizeof(VERIF_ctx_obj));
	VERIF_ctx_obj.options[KSI_OPT_AGGR_PDU_VER] = KSI_AGGREGATION_PDU_VERSION;
	VERIF_ctx_obj.options[KSI_OPT_EXT_PDU_VER] = KSI_EXTENDING_PDU_VERSION;
	VERIF_ctx_obj.options[KSI_OPT_AGGR_HMAC_ALGORITHM] = KSI_HASHALG_SHA2_256;
	VERIF_ctx_obj.options[KSI_OPT_EXT_HMAC_ALGORITHM] = KSI_HASHALG_SHA2_256;
	VERIF_ctx_obj.options[KSI_OPT_DATAHASH_CACHE_SIZE] = 0; /* recycler off unless a harness installs it */
	VERIF_ctx_obj.options[KSI_OPT_PUBFILE_CACHE_TTL_SECONDS] = KSI_CTX_PUBFILE_CACHE_DEFAULT_TTL;
	VERIF_ctx_obj.options[KSI_OPT_HA_SAFEGUARD] = KSI_CTX_HA_MAX_SUBSERVICES;
	VERIF_ctx_obj.logLevel = KSI_LOG_NONE;
	VERIF_err_pushes = 0;
	VERIF_alloc_count = 0;
	VERIF_fault_hit = 0;
}
