/* C11 H-3: verifier framing - KSI_SignatureVerifier_verify run TWICE on the same KSI_CTX / verification context
 * with pure stub rules (fixed outcome per rule; the rules do leave temporary objects in context->tempData).
 * The KSI_CTX is "used" before the first run: it already refers to some other last-failed signature and has errors
 * on its stack.  Policy: a rule tree (common/c05_tree.h, skeleton per instance, outcomes / labels / lengths symbolic)
 * with a one-rule fallback policy.
 * Asserted for BOTH runs: status, verdict, per-rule invocation order and the result lists are exactly what the
 * reference interpreter computes from the rule outcomes alone (hence identical between the runs and independent of
 * what the context processed before); context->tempData is NULL afterwards and every temporary object was released
 * once; the verification context and the signature object are unchanged except for the documented bookkeeping
 * (reference count, attached policyVerificationResult); the signature's serialisation source baseTlv is never
 * written, released or replaced. */
#include "verif.h"
#include "internal.h"
#include "verification_rule.h"
#include "impl/policy_impl.h"
#include "ctx.h"
#include "verif_post.h"

static int h3_td_nonnull = 1;
static unsigned h3_nset, h3_nfree;
static _Bool h3_set[40];
static void h3_hook(unsigned k, KSI_VerificationContext *vc);
#define C05_RULE_HOOK(k, vc, r) h3_hook(k, vc)
#include "c05_tree.h"
#include "policy.c"

static void h3_hook(unsigned k, KSI_VerificationContext *vc) {
	VerificationTempData *td = vc->tempData;
	if (td == NULL) { h3_td_nonnull = 0; return; }
	if (h3_set[k] && td->aggregationOutputHash == NULL) { td->aggregationOutputHash = (KSI_DataHash *)malloc(1); h3_nset++; }
}
void KSI_DataHash_free(KSI_DataHash *h) { if (h != NULL) { h3_nfree++; free(h); } }
void KSI_CalendarHashChain_free(KSI_CalendarHashChain *c) { CHECK(c == NULL, "C11.H3 no calendar chain in this harness"); }
void KSI_PublicationsFile_free(KSI_PublicationsFile *p) { CHECK(p == NULL, "C11.H3 no publications file in this harness"); }

/* fallback policy: one basic rule */
static int fb_res, fb_rc, fb_ec; static unsigned fb_calls;
static const char fb_name[2];
static int h3_fb_rule(KSI_VerificationContext *vc, KSI_RuleVerificationResult *r) {
	fb_calls++;
	VerificationTempData *td = vc->tempData;
	if (td == NULL) h3_td_nonnull = 0;
	else if (td->aggregationOutputHash != NULL) h3_td_nonnull = 0;   /* must have been cleared before the fallback */
	r->resultCode = (KSI_VerificationResultCode)fb_rc; r->errorCode = (KSI_VerificationErrorCode)fb_ec; r->ruleName = fb_name;
	return fb_res;
}
static const KSI_Rule fb_rules[2] = {{KSI_RULE_TYPE_BASIC, h3_fb_rule}, {KSI_RULE_TYPE_BASIC, NULL}};
static const char pname0[2], pname1[2];

struct snap { int ret; int has; int rc, ec, prc; const char *rule, *pol; size_t nrule, npol; int p_rc[2], p_ec[2]; const char *p_pol[2]; unsigned seq[C05_MAXSLOTS]; unsigned fbc; };

static void run_once(const KSI_Policy *p, KSI_VerificationContext *vc, struct snap *s, KSI_PolicyVerificationResult **out) {
	unsigned k;
	KSI_PolicyVerificationResult *result = NULL;
	c05_clock = 0; fb_calls = 0;
	for (k = 0; k < C05_NSLOTS; k++) { c05_seq[k] = 0; c05_calls[k] = 0; }
	s->ret = KSI_SignatureVerifier_verify(p, vc, &result);
	s->has = (result != NULL);
	s->rc = s->ec = s->prc = -1; s->rule = s->pol = NULL; s->nrule = s->npol = 0;
	for (k = 0; k < 2; k++) { s->p_rc[k] = s->p_ec[k] = -1; s->p_pol[k] = NULL; }
	if (result != NULL) {
		s->rc = result->finalResult.resultCode; s->ec = result->finalResult.errorCode; s->prc = result->resultCode;
		s->rule = result->finalResult.ruleName; s->pol = result->finalResult.policyName;
		s->nrule = KSI_RuleVerificationResultList_length(result->ruleResults);
		s->npol = KSI_RuleVerificationResultList_length(result->policyResults);
		for (k = 0; k < 2; k++) {
			KSI_RuleVerificationResult *it = NULL;
			if (k < s->npol && KSI_RuleVerificationResultList_elementAt(result->policyResults, k, &it) == KSI_OK && it != NULL) {
				s->p_rc[k] = it->resultCode; s->p_ec[k] = it->errorCode; s->p_pol[k] = it->policyName;
			}
		}
	}
	for (k = 0; k < C05_MAXSLOTS; k++) s->seq[k] = (k < C05_NSLOTS) ? c05_seq[k] : 0;
	s->fbc = fb_calls;
	*out = result;
}

void harness(void) {
	VERIF_ctx_init();
	KSI_CTX *ctx = VERIF_ctx; int res; unsigned k;
	KSI_Policy *p0 = NULL, *p1 = NULL;

	c05_build(0);
	if (!c05_skeleton_ok) { CHECK(0, "C11.H3 instance skeleton is well formed"); return; }
	c05_reference();
	for (k = 0; k < C05_NSLOTS; k++) h3_set[k] = ND_BOOL(set_tmp);
	{ int rc = ND(int, fb_rc); ASSUME(rc == KSI_VER_RES_OK || rc == KSI_VER_RES_NA || rc == KSI_VER_RES_FAIL); fb_rc = rc; fb_res = ND(int, fb_res); fb_ec = ND(int, fb_ec); }
	res = KSI_Policy_create(ctx, &c05_L[0][0], pname0, &p0); ASSUME(res == KSI_OK);
	res = KSI_Policy_create(ctx, fb_rules, pname1, &p1); ASSUME(res == KSI_OK);
	res = KSI_Policy_setFallback(ctx, p0, p1); ASSUME(res == KSI_OK);

	/* the signature as far as the verifier touches it */
	KSI_Signature *sig = calloc(1, sizeof(struct KSI_Signature_st)), *other = calloc(1, sizeof(struct KSI_Signature_st));
	KSI_TLV *base = (KSI_TLV *)malloc(1);
	ASSUME(sig != NULL && other != NULL && base != NULL);
	sig->ctx = ctx; sig->ref = 1; sig->baseTlv = base;
	other->ctx = ctx; other->ref = 2;                      /* one reference is the context's, one the harness' */
	/* a context that has been used before */
	ctx->lastFailedSignature = other;
	ctx->errors_count = ND(unsigned, old_errors);

	KSI_VerificationContext vc;
	res = KSI_VerificationContext_init(&vc, ctx); ASSUME(res == KSI_OK);
	vc.signature = sig;
	vc.docAggrLevel = ND(u64, doc_level);
	vc.extendingAllowed = ND_BOOL(ext_allowed);
	KSI_VerificationContext vc0 = vc;

	/* ---- expected, from the rule outcomes alone ---- */
	int e_ret, e_rc = -1, e_ec = -1, e_fb = 0; const char *e_pol = NULL; size_t e_npol = 0;
	if (c05_exp.res != KSI_OK) { e_ret = c05_exp.res; }
	else if (c05_exp.rc == KSI_VER_RES_OK) { e_ret = KSI_OK; e_rc = c05_exp.rc; e_ec = c05_exp.ec; e_pol = pname0; e_npol = 1; }
	else { e_fb = 1; e_ret = fb_res; if (fb_res == KSI_OK) { e_rc = fb_rc; e_ec = fb_ec; e_pol = pname1; e_npol = 2; } }

	struct snap s[2]; KSI_PolicyVerificationResult *r[2] = {NULL, NULL};
	unsigned run;
	for (run = 0; run < 2; run++) {
		run_once(p0, &vc, &s[run], &r[run]);
		CHECK(s[run].ret == e_ret, "C11.H3 status depends on the rule outcomes only (same in both runs, whatever the context saw before)");
		CHECK(s[run].has == (e_ret == KSI_OK), "C11.H3 a result object exactly on success");
		if (e_ret == KSI_OK && s[run].has) {
			CHECK(s[run].rc == e_rc && s[run].ec == e_ec && s[run].prc == e_rc && s[run].pol == e_pol, "C11.H3 verdict depends on the rule outcomes only");
			CHECK(s[run].npol == e_npol && s[run].p_rc[0] == c05_exp.rc && s[run].p_ec[0] == c05_exp.ec && s[run].p_pol[0] == pname0
				&& (e_npol < 2 || (s[run].p_rc[1] == fb_rc && s[run].p_ec[1] == fb_ec && s[run].p_pol[1] == pname1)), "C11.H3 per-policy results depend on the rule outcomes only");
		}
		int order_ok = 1;
		for (k = 0; k < C05_NSLOTS; k++) if (!c05_kind[k] && c05_reach[k / C05_W] && s[run].seq[k] != c05_exp_seq[k]) order_ok = 0;
		CHECK(order_ok && s[run].fbc == (unsigned)e_fb, "C11.H3 the same rules are invoked in the same order in every run");
		CHECK(vc.tempData == NULL, "C11.H3 context tempData is NULL after verification");
		CHECK(h3_td_nonnull, "C11.H3 rules see temporary data, cleared before a fallback policy");
		CHECK(h3_nfree == h3_nset, "C11.H3 every temporary object is released once");
		CHECK(vc.ctx == vc0.ctx && vc.signature == vc0.signature && vc.docAggrLevel == vc0.docAggrLevel && vc.extendingAllowed == vc0.extendingAllowed
			&& vc.documentHash == vc0.documentHash && vc.userPublication == vc0.userPublication && vc.userPublicationsFile == vc0.userPublicationsFile,
			"C11.H3 the verification context is not modified");
		CHECK(sig->baseTlv == base && sig->calendarChain == NULL && sig->aggregationChainList == NULL, "C11.H3 the signature's serialisation source and components are untouched");
		int failed = !(e_ret == KSI_OK && e_rc == KSI_VER_RES_OK);
		CHECK(sig->ref == 1 + (size_t)(failed ? 1 : 0) && ctx->lastFailedSignature == (failed ? sig : NULL), "C11.H3 last-failed bookkeeping: one context reference exactly while the signature did not verify");
		CHECK(other->ref == 1, "C11.H3 the previous last-failed signature is released once");
		if (e_ret == KSI_OK && s[run].has) CHECK(sig->policyVerificationResult == (failed ? r[run] : NULL) && r[run]->ref == (failed ? 2u : 1u), "C11.H3 the result is attached to the signature exactly when it did not verify");
	}
	CHECK(s[0].nrule == s[1].nrule, "C11.H3 both runs list the same number of rule results");
	if (e_ret == KSI_OK && e_rc == KSI_VER_RES_OK && e_fb) WITNESS_POINT("verified twice through the fallback policy");
	if (e_ret == KSI_OK && e_rc == KSI_VER_RES_FAIL && h3_nset >= 2) WITNESS_POINT("failed twice, temporary data released in both runs");
	if (e_ret != KSI_OK) WITNESS_POINT("internal error in both runs");
	/* release: the harness owns r[0], r[1], its references to sig/other, base */
	KSI_PolicyVerificationResult_free(r[0]);
	KSI_PolicyVerificationResult_free(r[1]);
	free(base);
}
