/* C15 H-1 / H-2: one user handle forwarded by the HA service to NSUB sub-services and completed from their
 * replies (KSI_HighAvailabilityService_addRequest, responseHandler, handleReqResponse, handleErrorResponse,
 * handleConfigResponse, KSI_HighAvailabilityService_reportErrorNotice, KSI_HighAvailabilityService_run).
 *
 * Each sub-service symbolically accepts or refuses the forwarded copy; every accepted copy comes back in a
 * symbolic round (rounds x sub-service order realise every arrival order) as a valid reply or as an error.
 * Monitor (property text):
 *  - all refuse  => addRequest returns the error and keeps no reference to the caller's handle;
 *  - otherwise the user handle is queued for return exactly once:
 *      with >= 1 valid reply: at the first valid reply, RESPONSE_RECEIVED, carrying that reply's response and
 *      origin; later valid replies are discarded;
 *      with no valid reply: ERROR, and only when the last accepted copy has failed;
 *  - every failed copy is reported exactly once: as an ERROR_NOTICE referring to the user handle, or - only if all
 *    copies failed - one of them as the user handle's own error;
 *  - the expected-reply counter reaches 0 exactly when every accepted copy has come back.
 * KIND 1: signing request (H-1).  KIND 2: configuration request (H-2): valid replies are PUSH_CONFIG_RECEIVED
 * copies; consolidation is delegated to a consolidation-callback stub (consolidation itself is H-3's subject) and the
 * consolidated configuration is announced through the push-configuration callback, so the "valid response" reaches
 * the caller through the callback.  The same monitor applies to the failures: once a valid configuration has been
 * received, failures of other endpoints are notices; the user handle itself fails only if every endpoint failed. */
#if defined(KIND) && KIND == 2
#define HN "C15.H2"
#else
#define HN "C15.H1"
#endif
#define C13_VERIFY_OK 1
#define C13_CREDENTIALS_OK 1
#include "verif.h"
#include "internal.h"
#include "net_ha.h"
#include "ctx.h"
#include "verif_post.h"
#include "c13_model.h"
#include "net_async.c"
#include "net_ha.c"

#ifndef NSUB
#define NSUB 2
#endif
#ifndef KIND
#define KIND 1
#endif
#define NROUNDS NSUB
/* The SHAPE of the scenario is concrete per instance (the driver enumerates it): which endpoints accept, which
 * replies are valid, and in which round each copy comes back; with symbolic shapes the response queue length
 * becomes symbolic and list.c's element array is written at symbolic indices (measured: 83 M variables).
 * External error codes stay symbolic; error codes are three fixed, different values. */
#ifndef ACCEPT
#define ACCEPT {1, 1, 1}
#endif
#ifndef VALID
#define VALID {1, 0, 0}
#endif
#ifndef ROUND
#define ROUND {0, 0, 0}
#endif
static const int sh_accept[3] = ACCEPT;
static const int sh_valid[3] = VALID;
static const unsigned sh_round[3] = ROUND;

KSI_IMPLEMENT_LIST(KSI_AsyncHandle, KSI_AsyncHandle_free)                          /* types.c:201-203 */
KSI_IMPLEMENT_LIST(KSI_HighAvailabilityRequest, KSI_HighAvailabilityRequest_free)
KSI_IMPLEMENT_LIST(KSI_AsyncService, KSI_AsyncService_free)

/* net.c: plain allocation, all callbacks NULL */
int KSI_AbstractAsyncService_new(KSI_CTX *ctx, KSI_AsyncService **service) {
	if (ctx == NULL || service == NULL) return KSI_INVALID_ARGUMENT;
	KSI_AsyncService *s = (KSI_AsyncService *)malloc(sizeof(KSI_AsyncService));
	if (s == NULL) return KSI_OUT_OF_MEMORY;
	memset(s, 0, sizeof(*s)); s->ctx = ctx; *service = s; return KSI_OK;
}
int KSI_isHashAlgorithmTrusted(KSI_HashAlgorithm a) { (void)a; return 1; }
const char *KSI_getHashAlgorithmName(KSI_HashAlgorithm a) { (void)a; return "alg"; }
int KSI_TcpAsyncClient_new(KSI_CTX *ctx, KSI_AsyncClient **c) { (void)ctx; (void)c; return KSI_UNKNOWN_ERROR; }
int KSI_HttpAsyncClient_new(KSI_CTX *ctx, KSI_AsyncClient **c) { (void)ctx; (void)c; return KSI_UNKNOWN_ERROR; }

/* ---- sub-service stub (stands for a whole KSI_AsyncService incl. its client and transport; C13's subject) ---- */
struct sub {
	size_t id;
	KSI_AsyncHandle *held;      /* the forwarded copy, owned by the sub-service while in flight */
	int willAccept, accepted, refusedWith;
	unsigned round;             /* round in which the copy comes back */
	int valid;                  /* outcome: valid reply or error */
	int err; long errExt;
	void *reply;                /* response / configuration object */
	int delivered;
};
static struct sub subs[NSUB];
static unsigned cur_round;
static unsigned add_calls;

static void reply_free(void *p) {
#if KIND == 2
	KSI_Config_free((KSI_Config *)p);
#else
	KSI_AggregationResp_free((KSI_AggregationResp *)p);
#endif
}

static int sub_addRequest(void *impl, KSI_AsyncHandle *h) {
	struct sub *s = (struct sub *)impl;
	add_calls++;
	if (!s->willAccept) { s->refusedWith = (s->id == 100) ? KSI_ASYNC_REQUEST_CACHE_FULL : KSI_NETWORK_ERROR; return s->refusedWith; }   /* concrete codes, see below */
	s->accepted = 1; s->held = h;                       /* ownership taken */
	h->state = KSI_ASYNC_STATE_WAITING_FOR_DISPATCH; h->parentId = s->id;
	return KSI_OK;
}
static int sub_run(void *impl, int (*respHandler)(void *), KSI_AsyncHandle **handle, size_t *waiting) {
	struct sub *s = (struct sub *)impl;
	(void)respHandler;
	if (waiting != NULL) *waiting = (s->held != NULL) ? 1 : 0;
	if (handle == NULL) return KSI_OK;
	*handle = NULL;
	if (s->held != NULL && (s->round == cur_round || cur_round + 1 == NROUNDS)) {
		KSI_AsyncHandle *h = s->held;
		if (s->valid) {
			h->state = (KIND == 2) ? KSI_ASYNC_STATE_PUSH_CONFIG_RECEIVED : KSI_ASYNC_STATE_RESPONSE_RECEIVED;
			h->respCtx = s->reply; h->respCtx_free = reply_free;
		} else {
			h->state = KSI_ASYNC_STATE_ERROR; h->err = s->err; h->errExt = s->errExt;
		}
		s->held = NULL; s->delivered = 1; s->round = cur_round;
		*handle = h;                                    /* ownership passes to the caller */
	}
	return KSI_OK;
}
static int sub_getPending(void *impl, size_t *count) { struct sub *s = (struct sub *)impl; *count = (s->held != NULL) ? 1 : 0; return KSI_OK; }
static int sub_getReceived(void *impl, size_t *count) { (void)impl; *count = 0; return KSI_OK; }
static int sub_getOption(void *impl, int opt, void *value) { struct sub *s = (struct sub *)impl; *(size_t *)value = (opt == KSI_ASYNC_PRIVOPT_ENDPOINT_ID) ? s->id : 0; return KSI_OK; }

#if KIND == 2
static unsigned consolidate_calls, pushcb_calls;
static int consolidate_cb(KSI_CTX *ctx, size_t id, void *userp, KSI_Config *haConfig, KSI_Config *respConfig) { (void)ctx; (void)id; (void)userp; (void)haConfig; (void)respConfig; consolidate_calls++; return KSI_OK; }
static int push_cb(KSI_CTX *ctx, KSI_Config *cfg) { (void)ctx; (void)cfg; pushcb_calls++; return KSI_OK; }
#endif

void harness(void) {
	VERIF_ctx_init();
	KSI_CTX *ctx = VERIF_ctx;
	int res;
	KSI_AsyncService *ha = NULL;
	res = KSI_SigningHighAvailabilityService_new(ctx, &ha); ASSUME(res == KSI_OK && ha != NULL);
	KSI_HighAvailabilityService *has = (KSI_HighAvailabilityService *)ha->impl;

	/* endpoints: what KSI_AsyncService_addEndpoint appends, with the sub-service replaced by the stub */
	for (unsigned i = 0; i < NSUB; i++) {
		KSI_AsyncService *as = NULL;
		res = KSI_AbstractAsyncService_new(ctx, &as); ASSUME(res == KSI_OK);
		memset(&subs[i], 0, sizeof(subs[i]));
		subs[i].id = 100 + i;
		subs[i].willAccept = sh_accept[i];
		subs[i].round = sh_round[i];
		subs[i].valid = sh_valid[i];
		/* concrete, pairwise different error codes (a symbolic code makes `err == KSI_OK` in reportErrorNotice a
		 * two-way branch for symex although it is assumed away, and the queue length symbolic with it) */
		subs[i].err = (i == 0) ? KSI_NETWORK_RECIEVE_TIMEOUT : (i == 1) ? KSI_ASYNC_CONNECTION_CLOSED : KSI_SERVICE_UPSTREAM_TIMEOUT;
		subs[i].errExt = ND(long, reply_err_ext);
		as->impl = &subs[i]; as->impl_free = NULL;
		as->addRequest = sub_addRequest;
		as->run = sub_run;
		as->getPendingCount = sub_getPending; as->getReceivedCount = sub_getReceived;
		as->getOption = sub_getOption;
		res = KSI_AsyncServiceList_append(has->services, as); ASSUME(res == KSI_OK);
	}
#if KIND == 2
	res = KSI_AsyncService_setOption(ha, KSI_ASYNC_OPT_CONF_CONSOLIDATE_CALLBACK, (void *)consolidate_cb); ASSUME(res == KSI_OK);
	res = KSI_AsyncService_setOption(ha, KSI_ASYNC_OPT_PUSH_CONF_CALLBACK, (void *)push_cb); ASSUME(res == KSI_OK);
#endif

#ifdef RECYCLE_STALE
	/* the context recycles HA request wrappers (base.c:331); one wrapper was released earlier with RECYCLE_STALE
	 * replies still outstanding (its service was freed after the first valid reply) and will be re-used for this
	 * request.  The stale values are concrete here (a symbolic count would make the queue length symbolic if it
	 * survived); arbitrary stale contents are H-4's subject. */
	{
		KSI_HighAvailabilityRequest *stale = NULL;
		res = KSI_HighAvailabilityRequestList_new(&ctx->haRequestRecycle); ASSUME(res == KSI_OK);
		res = KSI_HighAvailabilityRequest_new(ctx, NULL, &stale); ASSUME(res == KSI_OK && stale != NULL);
		stale->expectedRespCount = RECYCLE_STALE;
		stale->hasReq = true;
		stale->hasCnf = true;
		KSI_HighAvailabilityRequest_free(stale);
		ASSUME(KSI_HighAvailabilityRequestList_length(ctx->haRequestRecycle) == 1);
	}
#endif

	/* the user's handle */
	KSI_AsyncHandle *user = NULL;
	KSI_AggregationReq *req = NULL;
	res = KSI_AggregationReq_new(ctx, &req); ASSUME(res == KSI_OK);
#if KIND == 2
	res = KSI_Config_new(ctx, &req->config); ASSUME(res == KSI_OK);
#else
	req->requestHash = (KSI_DataHash *)&c13_dummy_hash;
#endif
	res = KSI_AsyncAggregationHandle_new(ctx, req, &user); ASSUME(res == KSI_OK && user != NULL);
	KSI_AsyncHandle_ref(user);                    /* observer's reference: the monitor looks at the handle to the end */
#ifdef RETRY
	/* the handle is RE-ADDED after it came back failed from every endpoint (net_async.h: KSI_ASYNC_STATE_ERROR,
	 * "see KSI_AsyncService_addRequest for re-adding the request back into the request queue"): it still carries what
	 * a failed handle carries - state ERROR, the error of the endpoint that failed last, its external code and origin */
	user->state = KSI_ASYNC_STATE_ERROR; user->err = KSI_NETWORK_SEND_TIMEOUT; user->errExt = ND(long, stale_err_ext); user->parentId = 100;
#endif

	res = KSI_AsyncService_addRequest(ha, user);

	unsigned m = 0; int lastRefusal = KSI_OK;
	for (unsigned i = 0; i < NSUB; i++) { if (subs[i].accepted) m++; else lastRefusal = subs[i].refusedWith; }
	CHECK(add_calls == NSUB, HN " the request is offered to every endpoint once");
	if (m == 0) {
		CHECK(res != KSI_OK && res == lastRefusal, HN " refused by all endpoints: the endpoint's error is returned");
		CHECK(user->ref == 2, HN " refused by all endpoints: no reference to the caller's handle is kept");
		CHECK(KSI_AsyncHandleList_length(has->respQueue) == 0, HN " refused by all endpoints: nothing queued");
#ifdef SHAPE_ALL_REFUSE
		WITNESS_POINT("all endpoints refuse");
#endif
		return;
	}
	CHECK(res == KSI_OK, HN " accepted by at least one endpoint: submission succeeds");
	CHECK(user->state == KSI_ASYNC_STATE_WAITING_FOR_RESPONSE, HN " accepted user handle waits for a response");
	CHECK(user->ref == 2, HN " HA service holds exactly one reference to the accepted user handle");
	KSI_HighAvailabilityRequest *haReq = NULL;
	for (unsigned i = 0; i < NSUB; i++) if (subs[i].accepted) {
		CHECK(subs[i].held != NULL && subs[i].held != user && subs[i].held->userCtx != NULL, HN " every endpoint gets its own copy linked to the user handle");
		haReq = (KSI_HighAvailabilityRequest *)subs[i].held->userCtx;
		CHECK(haReq->asyncHandle == user, HN " forwarded copy refers to the user handle");
#if KIND != 2
		subs[i].reply = NULL;
		{ KSI_AggregationResp *r = NULL; res = KSI_AggregationResp_new(ctx, &r); ASSUME(res == KSI_OK); subs[i].reply = r; }
#else
		{ KSI_Config *r = NULL; res = KSI_Config_new(ctx, &r); ASSUME(res == KSI_OK); subs[i].reply = r; }
#endif
	}
	CHECK(haReq != NULL && haReq->expectedRespCount == m && haReq->ref == m, HN " expected-reply counter = number of endpoints that accepted");
	KSI_HighAvailabilityRequest_ref(haReq);       /* observer's reference */

	/* ---- replies ---- */
	unsigned userQueued = 0, notices = 0, delivered = 0, errorsSeen = 0;
	int firstValid = -1;                  /* sub index of the first valid reply in arrival order */
	int noticeFor[NSUB]; for (unsigned i = 0; i < NSUB; i++) noticeFor[i] = 0;
	int okAll = 1;
	for (unsigned r = 0; r < NROUNDS + NSUB; r++) {
		KSI_AsyncHandle *out = NULL; size_t waiting = 0;
		if (r < NROUNDS) {
			cur_round = r;
			const unsigned before = delivered;
			res = KSI_AsyncService_run(ha, &out, &waiting);
			CHECK(res == KSI_OK, HN " HA service round succeeds");
			/* arrival order inside a round = endpoint order */
			for (unsigned i = 0; i < NSUB; i++) if (subs[i].accepted && subs[i].delivered && subs[i].round == r) {
				delivered++;
				if (subs[i].valid) { if (firstValid < 0) firstValid = (int)i; } else errorsSeen++;
			}
			(void)before;
			CHECK(haReq->expectedRespCount == m - delivered, HN " expected-reply counter decreases by one per returned copy");
		} else {
			/* drain what is still queued (what further KSI_AsyncService_run calls would return one by one) */
			if (KSI_AsyncHandleList_length(has->respQueue) > 0) { res = KSI_AsyncHandleList_remove(has->respQueue, 0, &out); ASSUME(res == KSI_OK); }
		}
		if (out != NULL) {
			if (out == user) {
				userQueued++;
#if KIND == 2
				CHECK(firstValid < 0, HN " a configuration request that got a valid configuration is not failed by another endpoint's error");
#endif
				if (firstValid >= 0) {
#if KIND != 2
					CHECK(user->state == KSI_ASYNC_STATE_RESPONSE_RECEIVED, HN " with a valid reply the user handle completes as RESPONSE_RECEIVED");
					for (unsigned i = 0; i < NSUB; i++) if ((int)i == firstValid) {
						CHECK(user->respCtx == subs[i].reply && user->parentId == subs[i].id, HN " the user handle carries the FIRST valid reply and its origin");
					}
#ifndef RETRY   /* (the error field of a successfully completed RE-ADDED handle is not the property's subject) */
					CHECK(user->err == KSI_OK && user->errMsg == NULL, HN " completed user handle carries no error");
#endif
					CHECK(user->respCtx_free != NULL && ((KSI_AggregationResp *)user->respCtx)->ref == 1, HN " completed user handle is the sole owner of a live response object");
#endif
				} else {
					CHECK(user->state == KSI_ASYNC_STATE_ERROR, HN " without a valid reply the user handle fails");
					CHECK(delivered == m, HN " the user handle fails only after every endpoint it was forwarded to has failed");
					int match = 0; for (unsigned i = 0; i < NSUB; i++) if (subs[i].accepted && !subs[i].valid && user->err == subs[i].err && user->parentId == subs[i].id) { match++; noticeFor[i]++; }
					CHECK(match == 1, HN " failed user handle reports the error of one of its endpoints");
				}
				KSI_AsyncHandle_free(out);
			} else {
				CHECK(out->state == KSI_ASYNC_STATE_ERROR_NOTICE, HN " anything else queued is an error notice");
				CHECK(out->userCtx == (void *)user, HN " error notice refers to the user handle");
				int match = 0; for (unsigned i = 0; i < NSUB; i++) if (subs[i].accepted && !subs[i].valid && out->err == subs[i].err && out->parentId == subs[i].id && out->errExt == subs[i].errExt) { match++; noticeFor[i]++; }
				CHECK(match == 1, HN " error notice reports code, external code and origin of one failed endpoint");
				notices++;
				KSI_AsyncHandle_free(out);
			}
		}
	}
	(void)okAll;
	CHECK(delivered == m && haReq->expectedRespCount == 0, HN " every accepted copy came back and the expected-reply counter is 0");
	CHECK(KSI_AsyncHandleList_length(has->respQueue) == 0, HN " response queue drained");
#if KIND != 2
	CHECK(userQueued == 1, HN " the user handle is handed back exactly once");
	for (unsigned i = 0; i < NSUB; i++) if (subs[i].accepted && !subs[i].valid) CHECK(noticeFor[i] == 1, HN " every failed endpoint is reported exactly once (notice, or the user handle's own error)");
	CHECK(notices + (firstValid < 0 ? 1u : 0u) == errorsSeen, HN " number of notices = failures not reported through the user handle");
	if (firstValid >= 0) {
		CHECK(user->state == KSI_ASYNC_STATE_RESPONSE_RECEIVED, HN " later replies and errors do not alter the completed user handle");
		for (unsigned i = 0; i < NSUB; i++) if ((int)i == firstValid) CHECK(user->respCtx == subs[i].reply, HN " later valid replies are discarded");
	}
	CHECK(haReq->ref == 1 && user->ref == 2, HN " at the end only the observer still holds the HA request (and through it the user handle)");
#else
	/* configuration request: every valid reply is consolidated and announced once; failures as for requests */
	CHECK(consolidate_calls == delivered - errorsSeen && pushcb_calls == consolidate_calls, HN " every configuration reply is consolidated and announced exactly once");
	CHECK(userQueued == (firstValid < 0 ? 1u : 0u), HN " a configuration request fails (once) only if no endpoint delivered a configuration");
	for (unsigned i = 0; i < NSUB; i++) if (subs[i].accepted && !subs[i].valid) CHECK(noticeFor[i] == 1, HN " every failed endpoint is reported exactly once (notice, or the user handle's own error)");
	CHECK(notices + (firstValid < 0 ? 1u : 0u) == errorsSeen, HN " number of notices = failures not reported through the user handle");
	CHECK(haReq->ref == 1 && user->ref == 2, HN " at the end only the observer still holds the HA request (and through it the user handle)");
#endif
#ifndef SHAPE_ALL_REFUSE
	WITNESS_POINT("scenario ran to completion: every accepted copy came back");
#endif
	/* the observers let go: the HA request, the user handle and its response are released exactly once (a second
	 * owner of the response would make this a double free), then the service is torn down */
	KSI_HighAvailabilityRequest_free(haReq);
	KSI_AsyncHandle_free(user);
	KSI_AsyncService_free(ha);
}
