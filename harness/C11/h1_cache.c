/* C11 H-1: the memoised output of KSI_AggregationHashChain_aggregate (hashchain.c) as an INDUCTIVE STEP.
 * Pre-state: any cache state satisfying the invariant
 *     I:  outputHash == NULL   or   (outputHash, outputLevel) is what a fresh computation at inputLevel yields
 * (the second kind is produced here with the uncached KSI_HashChain_aggregate, not with the code under test).
 * Then NCALLS consecutive calls with arbitrary int start levels.  After every call:
 *   - status and (root, end level) are those of a fresh, uncached computation at that level (env/hash_det.c: the digest
 *     is a fixed stateless function of the message in which the level byte always shows);
 *   - I holds again, and the cache OWNS a reference for the object it points to (reference accounting with a ghost
 *     reference held by the harness, so that the object can be inspected even when the library released it).
 * The last clause is where candidate defect F7 shows: on a failing re-aggregation the old outputHash is released
 * (hashchain.c:1023) but the pointer is kept. */
#include "verif.h"
#include "internal.h"
#include "impl/hashchain_impl.h"
#include "impl/hash_impl.h"
#include "ctx.h"
extern int VERIF_hd_overflow; extern unsigned VERIF_hd_closed;
#include "verif_post.h"
#include "c11_chain.h"
#ifndef NCALLS
#define NCALLS 2
#endif

void harness(void) {
	VERIF_ctx_init();
	KSI_CTX *ctx = VERIF_ctx; int res; unsigned i;
	KSI_AggregationHashChain *aggr = c11_mk_chain(ctx);

	/* ---- arbitrary invariant-satisfying cache state ---- */
	KSI_DataHash *ghost[NCALLS + 1];      /* cache objects the harness holds a ghost reference to */
	unsigned nghost = 0;
	_Bool warm = ND_BOOL(warm);
	if (warm) {
		int l0 = ND(int, level0), out0 = 0; KSI_DataHash *h0 = NULL;
		ASSUME(l0 >= 0 && l0 <= 0xff);
		res = KSI_HashChain_aggregate(ctx, aggr->chain, aggr->inputHash, l0, KSI_HASHALG_SHA2_256, &out0, &h0);
		ASSUME(res == KSI_OK);             /* only a successful computation is ever cached */
		aggr->outputHash = h0; aggr->outputLevel = out0; aggr->inputLevel = l0;
		ghost[nghost++] = KSI_DataHash_ref(h0);
	} else {
		aggr->outputHash = NULL; aggr->outputLevel = ND(int, junk_out); aggr->inputLevel = ND(int, junk_in);
	}

	for (i = 0; i < NCALLS; i++) {
		int level = ND(int, level), end = -7, fend = -7;
		KSI_DataHash *root = NULL, *fresh = NULL;
		KSI_DataHash *before = aggr->outputHash;
		res = KSI_AggregationHashChain_aggregate(aggr, level, &end, &root);
		int valid = (level >= 0 && level <= 0xff);
		int fres = valid ? KSI_HashChain_aggregate(ctx, aggr->chain, aggr->inputHash, level, KSI_HASHALG_SHA2_256, &fend, &fresh) : KSI_INVALID_ARGUMENT;
		CHECK(!VERIF_hd_overflow, "C11.H1 hash model capacity suffices");
		CHECK((res == KSI_OK) == (fres == KSI_OK), "C11.H1 cached aggregation succeeds exactly when a fresh computation at that level does");
		if (res == KSI_OK && fres == KSI_OK) {
			CHECK(root != NULL && end == fend && c11_same_imprint(root, fresh), "C11.H1 cached aggregation returns the root and end level of a fresh computation");
			CHECK(aggr->outputHash == root && aggr->inputLevel == level && aggr->outputLevel == fend, "C11.H1 after success the cache holds this result keyed by this start level");
		} else {
			CHECK(root == NULL, "C11.H1 no root on failure");
		}
		/* ---- reference accounting: the cache owns one reference of the object it points to ---- */
		unsigned g; int owned = (aggr->outputHash == NULL);
		for (g = 0; g < NCALLS + 1; g++) {
			if (g >= nghost) continue;
			size_t expect = 1 + (aggr->outputHash == ghost[g] ? 1 : 0) + (root == ghost[g] ? 1 : 0);
			CHECK(ghost[g]->ref == expect, "C11.H1 reference count of a cache object = ghost + cache pointer + returned root (no dangling cache pointer)");
			if (aggr->outputHash == ghost[g]) owned = 1;
		}
		if (!owned) {
			/* a new object entered the cache in this call */
			CHECK(aggr->outputHash == root && root != NULL && root->ref == 2, "C11.H1 a new cache object is referenced by the cache and by the returned root");
			ghost[nghost++] = KSI_DataHash_ref(aggr->outputHash);
		}
		/* ---- invariant I (a cached object is what a fresh computation at inputLevel yields) ---- */
		if (aggr->outputHash != NULL) {
			int iend = -9; KSI_DataHash *ih = NULL;
			int ires = KSI_HashChain_aggregate(ctx, aggr->chain, aggr->inputHash, aggr->inputLevel, KSI_HASHALG_SHA2_256, &iend, &ih);
			CHECK(ires == KSI_OK && iend == aggr->outputLevel && c11_same_imprint(ih, aggr->outputHash), "C11.H1 the cache invariant holds after every call, failing or not");
			KSI_DataHash_free(ih);
		}
		if (res == KSI_OK && before != NULL && aggr->outputHash == before) WITNESS_POINT("served from the cache");
		if (res == KSI_OK && before != NULL && aggr->outputHash != before) WITNESS_POINT("recomputed at another level");
		if (res != KSI_OK && valid && before != NULL) WITNESS_POINT("re-aggregation fails with a warm cache");
		if (res != KSI_OK && !valid) WITNESS_POINT("invalid start level refused");
		KSI_DataHash_free(root);
		KSI_DataHash_free(fresh);
	}
}
