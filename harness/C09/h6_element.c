/* C09 H-6: element codec tlv_element.c: KSI_TlvElement_parse / getElement (nested expansion) / serialize /
 * detach / removeElement / setElement.  Same decomposition as H-4: KSI_FTLV_memRead is modelled with the
 * instance's concrete lengths (and, here, concrete child tags, because the lookups branch on tag equality);
 * flags, the top tag and payload bytes are symbolic.  Every serialisation is compared with an independent
 * reference encoding of the tree the operations should have produced (length bookkeeping included). */
#include "verif.h"
#include "internal.h"
#include "tlv.h"
#include "fast_tlv.h"
#include "tlv_element.h"
#include "ctx.h"
#include "verif_post.h"
#ifndef NCH
#define NCH 2
#endif
#ifndef TOP_HDR
#define TOP_HDR 2
#endif
#ifndef CH_HDR
#define CH_HDR {2, 2, 2, 2}
#endif
#ifndef CH_LEN
#define CH_LEN {1, 2, 0, 0}
#endif
#ifndef CH_TAG
#define CH_TAG {1, 2, 3, 4}
#endif
#ifndef OP
#define OP 0     /* 0 serialize only; 1 getElement(LOOKUP); 2 detach; 3 removeElement(LOOKUP); 4 setElement(new child, tag NEWTAG) */
#endif
#ifndef LOOKUP
#define LOOKUP 2
#endif
#ifndef NEWTAG
#define NEWTAG 9
#endif
#ifndef LOOKUP_PRESENT
#define LOOKUP_PRESENT 1   /* number of children carrying LOOKUP (computed by the plan generator) */
#endif
#ifndef SEROPT
#define SEROPT 0
#endif
#define L (TOP_HDR + PLEN)
#define OUTSZ (L + 8)
static const int ch_hdr[4] = CH_HDR, ch_len[4] = CH_LEN, ch_tag[4] = CH_TAG;
static u8 in[L];
static u8 newraw[4];
static unsigned el_off[6], el_hdr[6], el_decl[6], el_tag[6]; static int el_nc[6], el_fw[6];
static const u8 *el_base[6];
static const u8 *detach_base;
#define NEL (NCH + 2)
int KSI_FTLV_memRead(const unsigned char *m, size_t l, KSI_FTLV *t) {
	if (m == NULL || t == NULL) return KSI_INVALID_ARGUMENT;
	for (unsigned k = 0; k < NEL; k++) {
		if (el_base[k] != NULL && m == el_base[k] + el_off[k]) {
			t->off = 0; t->hdr_len = el_hdr[k]; t->dat_len = el_decl[k]; t->tag = el_tag[k]; t->is_nc = el_nc[k]; t->is_fwd = el_fw[k];
			if (l < 2 || l < (size_t)el_hdr[k] + el_decl[k]) return KSI_INVALID_FORMAT;
			return KSI_OK;
		}
	}
	/* remap() after detach re-reads the freshly serialised copy: the detach instance uses a canonical layout, so the
	 * copy has the same layout; the first such read is the top element and fixes the copy's base address */
	if (detach_base == NULL) detach_base = m;
	for (unsigned k = 0; k < NEL; k++) {
		if (el_base[k] == in && m == detach_base + el_off[k]) {
			t->off = 0; t->hdr_len = el_hdr[k]; t->dat_len = el_decl[k]; t->tag = el_tag[k]; t->is_nc = el_nc[k]; t->is_fwd = el_fw[k];
			if (l < 2 || l < (size_t)el_hdr[k] + el_decl[k]) return KSI_INVALID_FORMAT;
			return KSI_OK;
		}
	}
	CHECK(0, "C09.H6 model: header read at an address that starts no element of the layout");
	return KSI_INVALID_FORMAT;
}
/* header bytes of the INPUT in the layout's form (possibly a four-byte header for a small tag) */
static void put_in(u8 *b, unsigned form, unsigned tag, int nc, int fw, unsigned len) {
	if (form == 4) { b[0] = 0x80 | (nc ? 0x40 : 0) | (fw ? 0x20 : 0) | (u8)(tag >> 8); b[1] = (u8)tag; b[2] = (u8)(len >> 8); b[3] = (u8)len; }
	else { b[0] = (nc ? 0x40 : 0) | (fw ? 0x20 : 0) | (u8)tag; b[1] = (u8)len; }
}
static unsigned ref_put(u8 *out, unsigned o, unsigned tag, int nc, int fw, unsigned len) {
	if (tag > 0x1f || len > 0xff) { out[o] = 0x80 | (nc ? 0x40 : 0) | (fw ? 0x20 : 0) | (u8)(tag >> 8); out[o + 1] = (u8)tag; out[o + 2] = (u8)(len >> 8); out[o + 3] = (u8)len; return 4; }
	out[o] = (nc ? 0x40 : 0) | (fw ? 0x20 : 0) | (u8)tag; out[o + 1] = (u8)len; return 2;
}
/* reference encoding of top with the children selected by keep[] plus optionally the new child */
static unsigned ref_tree(u8 *ref, const int *keep, int withNew) {
	u8 body[64]; unsigned bl = 0;
	for (unsigned k = 0; k < NCH; k++) if (keep[k]) {
		bl += ref_put(body, bl, el_tag[1 + k], el_nc[1 + k], el_fw[1 + k], ch_len[k]);
		for (int j = 0; j < ch_len[k]; j++) body[bl++] = in[el_off[1 + k] + ch_hdr[k] + j];
	}
	if (withNew) { bl += ref_put(body, bl, NEWTAG, el_nc[NCH + 1], el_fw[NCH + 1], 2); body[bl++] = newraw[2]; body[bl++] = newraw[3]; }
	unsigned rl = ref_put(ref, 0, el_tag[0], el_nc[0], el_fw[0], bl);
	for (unsigned j = 0; j < 60; j++) if (j < bl) ref[rl + j] = body[j];
	return rl + bl;
}
/* an element still in raw form copies its payload verbatim (child headers as they were in the input) */
static unsigned ref_raw(u8 *ref) {
	unsigned rl = ref_put(ref, 0, el_tag[0], el_nc[0], el_fw[0], PLEN);
	for (unsigned j = 0; j < PLEN; j++) ref[rl + j] = in[TOP_HDR + j];
	return rl + PLEN;
}
static void check_ser(KSI_TlvElement *el, const u8 *ref, unsigned rl, const char *what) {
	u8 out[OUTSZ]; size_t ol = 999;
	int res = KSI_TlvElement_serialize(el, out, OUTSZ, &ol, 0);
	CHECK(res == KSI_OK, "C09.H6 element serialises into a sufficient buffer");
	CHECK(ol == rl, "C09.H6 serialised length = shortest-form headers + content (length bookkeeping)");
	int same = 1; for (unsigned i = 0; i < 64; i++) if (i < rl && out[i] != ref[i]) same = 0;
	CHECK(same, "C09.H6 serialised bytes equal the reference encoding of the expected tree");
	(void)what;
}
void harness(void) {
	VERIF_ctx_init(); int res;
	unsigned off = TOP_HDR;
	el_base[0] = in; el_off[0] = 0; el_hdr[0] = TOP_HDR; el_decl[0] = PLEN;
	for (unsigned k = 0; k < NCH; k++) { el_base[1 + k] = in; el_off[1 + k] = off; el_hdr[1 + k] = ch_hdr[k]; el_decl[1 + k] = ch_len[k]; el_tag[1 + k] = ch_tag[k]; off += ch_hdr[k] + ch_len[k]; }
#if OP == 2
	el_tag[0] = (TOP_HDR == 4) ? 0x123 : 0x11;   /* detach allocates exactly the serialised length: a symbolic header form makes that size symbolic */
#else
	el_tag[0] = ND(unsigned, tag); ASSUME(el_tag[0] <= 0x1fff);
#endif
	if (TOP_HDR == 2) ASSUME(el_tag[0] <= 0x1f);
#if OP == 2
	if (TOP_HDR == 4 && PLEN <= 0xff) ASSUME(el_tag[0] > 0x1f);   /* canonical layout for the detach instance */
#endif
	for (unsigned k = 0; k < NEL; k++) { el_nc[k] = ND_BOOL(nc); el_fw[k] = ND_BOOL(fw); }
	for (unsigned i = 0; i < L; i++) in[i] = ND(u8, in);
	put_in(in, TOP_HDR, el_tag[0], el_nc[0], el_fw[0], PLEN);
	for (unsigned k = 0; k < NCH; k++) put_in(in + el_off[1 + k], ch_hdr[k], el_tag[1 + k], el_nc[1 + k], el_fw[1 + k], ch_len[k]);
	/* new child for OP 4: 2-byte header + 2 payload bytes in its own buffer */
	el_base[NCH + 1] = newraw; el_off[NCH + 1] = 0; el_hdr[NCH + 1] = 2; el_decl[NCH + 1] = 2; el_tag[NCH + 1] = NEWTAG;
	newraw[2] = ND(u8, newpay); newraw[3] = ND(u8, newpay);
	put_in(newraw, 2, NEWTAG, el_nc[NCH + 1], el_fw[NCH + 1], 2);

	KSI_TlvElement *top = NULL;
	res = KSI_TlvElement_parse(in, L, &top);
	CHECK(res == KSI_OK, "C09.H6 element spanning the input parses");
	CHECK(top->ftlv.tag == el_tag[0] && top->ftlv.hdr_len == TOP_HDR && top->ftlv.dat_len == PLEN && (top->ftlv.is_nc != 0) == (el_nc[0] != 0) && (top->ftlv.is_fwd != 0) == (el_fw[0] != 0), "C09.H6 parsed element reports decoded tag, flags and lengths");
	int keep[4] = {1, 1, 1, 1}; u8 ref[64]; unsigned rl;
	rl = ref_raw(ref);
	check_ser(top, ref, rl, "raw form");
	rl = ref_tree(ref, keep, 0);
#if OP == 1 || OP == 3
	int present = 0, idx = -1;
	for (unsigned k = 0; k < NCH; k++) if (ch_tag[k] == LOOKUP) { present++; idx = (int)k; }
#endif
#if OP == 1
	KSI_TlvElement *c = NULL;
	res = KSI_TlvElement_getElement(top, LOOKUP, &c);
	CHECK((res == KSI_OK) == (present <= 1), "C09.H6 lookup fails only for an ambiguous tag");
	if (res == KSI_OK) {
		CHECK((c != NULL) == (present == 1), "C09.H6 lookup returns the element iff the tag is present");
		if (c != NULL) { CHECK(c->ftlv.tag == LOOKUP && c->ftlv.dat_len == (size_t)ch_len[idx] && (c->ftlv.is_nc != 0) == (el_nc[1 + idx] != 0), "C09.H6 looked-up element is the encoded child");
#if LOOKUP_PRESENT == 1
			WITNESS_POINT("child found");
#endif
		}
		check_ser(top, ref, rl, "nested form");
	}
	WITNESS_POINT("lookup done");
#elif OP == 2
	res = KSI_TlvElement_detach(top);
	CHECK(res == KSI_OK, "C09.H6 detach succeeds");
	u8 saved[64]; unsigned sl = ref_raw(saved);
	for (unsigned i = 0; i < L; i++) in[i] = 0;      /* the original buffer may now be reused by the caller */
	for (unsigned i = 0; i < 64; i++) ref[i] = saved[i]; rl = sl;
	{ u8 out[OUTSZ]; size_t ol = 0; res = KSI_TlvElement_serialize(top, out, OUTSZ, &ol, 0);
	  int same = (res == KSI_OK && ol == rl); for (unsigned i = 0; i < 64; i++) if (i < rl && same && out[i] != ref[i]) same = 0;
	  CHECK(same, "C09.H6 a detached element serialises to the same bytes after the source buffer is overwritten"); }
	WITNESS_POINT("detached");
#elif OP == 3
	KSI_TlvElement *removed = NULL;
	res = KSI_TlvElement_removeElement(top, LOOKUP, &removed);
	CHECK((res == KSI_OK) == (present == 1), "C09.H6 remove succeeds iff exactly one child carries the tag");
	if (res == KSI_OK) { keep[idx] = 0; rl = ref_tree(ref, keep, 0); check_ser(top, ref, rl, "after remove");
#if LOOKUP_PRESENT == 1
		WITNESS_POINT("child removed");
#endif
	}
	else { check_ser(top, ref, rl, "unchanged after failed remove");
#if LOOKUP_PRESENT == 0
		WITNESS_POINT("remove refused");
#endif
	}
#elif OP == 4
	KSI_TlvElement *nw = NULL;
	res = KSI_TlvElement_parse(newraw, 4, &nw); ASSUME(res == KSI_OK);
	res = KSI_TlvElement_setElement(top, nw);
	CHECK(res == KSI_OK, "C09.H6 adding a child with a fresh tag succeeds");
	rl = ref_tree(ref, keep, 1); check_ser(top, ref, rl, "after set");
	WITNESS_POINT("child added");
#else
	WITNESS_POINT("serialised from raw form");
#endif
}
