/* C19 H-14b: KSI_PublicationData_fromBase32 / KSI_PublicationData_toBase32 (publicationsfile.c, real, included) under
 * allocation failure (c19.h conventions: the FAULT_AT-th allocation of the faulted call fails; FAULT_AT concrete per
 * instance, 0 = fault-free).
 * Real: fromBase32 / toBase32 / KSI_PublicationData_new / _free (publicationsfile.c), KSI_DataHash_fromImprint / _getImprint /
 * _free (hash.c), KSI_Integer_free / _getUInt64 (types_base.c, included for its private structs), list.c.
 * Models (what the codec and the checksum compute is C17's subject, h1..h4 there):
 *   KSI_base32Decode : its ONE allocation goes through the real allocator KSI_calloc (so the fault reaches it and the caller's
 *                      handling of the refusal is exercised); on success an exact-size buffer with NBIN symbolic bytes
 *                      (algorithm byte concrete: lengths must be concrete for CBMC);
 *   KSI_base32Encode : ONE allocation through KSI_calloc as well, records the bytes it was given, returns a fixed text;
 *   KSI_crc32        : a function of its input: symbolic value, asked again about the same bytes it gives the same value
 *                      (DIR 1: the stored checksum is symbolic, so both "matches" and "does not match" are explored);
 *   KSI_Integer_new  : cut WITH proof obligation for the CBMC run only - for a value >= 256 (asserted; the harness assumes it for
 *                      the publication time) the heap branch of types_base.c:634-641 is executed through the real allocator
 *                      (KSI_new).  A symbolic value handed to the real function makes the result a symbolic pointer into the
 *                      256-entry static pool for CBMC (1.1 M variables for a five-line scenario).  Native replay: real function.
 * DIR 1 (fromBase32): allocations = decoder buffer, publication data, time, imprint = 4; k = 5 proves there is no fifth.
 * DIR 2 (toBase32):   allocations = binary buffer, encoder buffer = 2; k = 3 proves there is no third.
 * Decided by CBMC (and ASan / LeakSanitizer natively): error or the fault-free result; output pointer untouched on error; the
 * input object (DIR 2) unchanged; the call repeated without fault succeeds with the fault-free result (same time, same
 * imprint / same bytes handed to the encoder); nothing leaks after the caller released what it got; no double free / use
 * after free (the decoder buffer is released exactly once on every path).
 *
 * MUTATIONS caught (scratch worktree, on top of the clone fix, each reverted afterwards):
 *   M3 fromBase32: decoded buffer not released                => leak (every from_ instance)
 *   M4 fromBase32: `pubTime = NULL` dropped after setTime      => double free / use after free of the time (every from_ instance)
 *   M5 toBase32: binary buffer not released                   => leak (every to_ instance) */
#include "c19.h"
#include "publicationsfile.h"
#include "base32.h"
#include "crc32.h"
#include "tlv.h"
#include "tlv_template.h"
#include "pkitruststore.h"
#include "fast_tlv.h"
#include "impl/publicationsfile_impl.h"
#include "impl/hash_impl.h"
#include "hash_model.h"
#include "verif_post.h"
#include "types_base.c"

#ifndef DIR
#define DIR 1
#endif
#define DL 20                 /* SHA-1 sized imprint */
#define NBIN (8 + 1 + DL + 4)
#define BMAX 40
#if DIR == 1
#define NALLOC 4
#else
#define NALLOC 2
#endif

/* ---- cut: KSI_Integer_new for values outside the pool (see above) ---- */
static int cut_Integer_new(KSI_CTX *ctx, KSI_uint64_t value, KSI_Integer **o) {
#ifdef REPLAY
	return KSI_Integer_new(ctx, value, o);
#else
	CHECK(ctx != NULL && o != NULL && value >= integerPoolSize, "C19.H14b [cut] KSI_Integer_new is only asked for values outside the static pool");
	KSI_Integer *tmp = KSI_new(KSI_Integer);
	if (tmp == NULL) { KSI_pushError(ctx, KSI_OUT_OF_MEMORY, NULL); return KSI_OUT_OF_MEMORY; }
	tmp->value = value; tmp->ref = 1;
	*o = tmp;
	return KSI_OK;
#endif
}
#define KSI_Integer_new cut_Integer_new
#include "publicationsfile.c"
#undef KSI_Integer_new

/* ---- models of the codec and the checksum ---- */
static u8 BIN[BMAX]; static unsigned dec_calls, dec_live;
int KSI_base32Decode(const char *base32, unsigned char **data, size_t *data_len) {
	dec_calls++;
	if (base32 == NULL || data == NULL || data_len == NULL) return KSI_INVALID_ARGUMENT;
	u8 *p = KSI_malloc(NBIN);                    /* exact size; the decoder's one allocation (KSI_malloc, not KSI_calloc: CBMC's calloc
	                                                model hides the bytes written below from constant propagation; same fault gate) */
	if (p == NULL) return KSI_OUT_OF_MEMORY;
	for (unsigned i = 0; i < NBIN; i++) p[i] = BIN[i];
	*data = p; *data_len = NBIN;
	return KSI_OK;
}
static u8 enc_bytes[BMAX]; static size_t enc_len, enc_group; static unsigned enc_calls;
static const char enc_string[] = "AAAAAA-BBBBBB";
int KSI_base32Encode(const unsigned char *data, size_t data_len, size_t group_len, char **encoded) {
	enc_calls++;
	if (data == NULL || data_len == 0 || encoded == NULL) return KSI_INVALID_ARGUMENT;
	char *s = KSI_malloc(sizeof(enc_string));      /* the encoder's one allocation */
	if (s == NULL) return KSI_OUT_OF_MEMORY;
	enc_len = data_len; enc_group = group_len;
	for (unsigned i = 0; i < BMAX; i++) enc_bytes[i] = (i < data_len) ? data[i] : 0;
	for (unsigned i = 0; i < sizeof(enc_string); i++) s[i] = enc_string[i];
	*encoded = s;
	return KSI_OK;
}
static u8 crc_bytes[BMAX]; static size_t crc_len; static unsigned long crc_value; static unsigned crc_calls;
unsigned long KSI_crc32(const void *data, size_t length, unsigned long ival) {
	const u8 *p = data; (void)ival;
	if (crc_calls > 0) {
		int same = (length == crc_len);
		for (unsigned i = 0; i < BMAX; i++) if (i < length && i < crc_len && p[i] != crc_bytes[i]) same = 0;
		CHECK(same, "C19.H14b [model] the checksum is only ever asked about one byte string per scenario");
		crc_calls++;
		return crc_value;
	}
	crc_calls++; crc_len = length;
	for (unsigned i = 0; i < BMAX; i++) crc_bytes[i] = (i < length) ? p[i] : 0;
	crc_value = ND(unsigned, crcval);
	return crc_value;
}
void KSI_TLV_free(KSI_TLV *t) { CHECK(t == NULL, "C19.H14b stub: publication data built from a string carries no base TLV"); }

static int pd_is(const KSI_PublicationData *pd, u64 T, const u8 *imp_ref) {
	if (pd == NULL || pd->time == NULL || pd->imprint == NULL || pd->ref != 1 || pd->baseTlv != NULL) return 0;
	int ok = (KSI_Integer_getUInt64(pd->time) == T);
	const unsigned char *imp = NULL; size_t il = 0;
	if (KSI_DataHash_getImprint(pd->imprint, &imp, &il) != KSI_OK || il != DL + 1) return 0;
	for (unsigned i = 0; i < DL + 1; i++) if (imp[i] != imp_ref[i]) ok = 0;
	return ok;
}

#if DIR == 1
void harness(void) {
	VERIF_ctx_init(); VERIF_hm_init(0); KSI_CTX *ctx = VERIF_ctx; int res;
	for (unsigned i = 0; i < BMAX; i++) { u8 b = ND(u8, bin); BIN[i] = (i < NBIN) ? b : 0; }
	BIN[8] = KSI_HASHALG_SHA1;
	u64 T = 0; for (unsigned i = 0; i < 8; i++) T = (T << 8) | BIN[i];
	ASSUME(T >= 256);
	unsigned long stored = ((unsigned long)BIN[NBIN - 4] << 24) | ((unsigned long)BIN[NBIN - 3] << 16) | ((unsigned long)BIN[NBIN - 2] << 8) | BIN[NBIN - 1];

	static KSI_PublicationData sentinel_obj;      /* a well-typed object: a cast of some other object's address makes every (infeasible) use of it a wild access for CBMC */
	KSI_PublicationData *const untouched = &sentinel_obj;
	KSI_PublicationData *p1 = untouched, *p2 = untouched;
	C19_ARM();
	res = KSI_PublicationData_fromBase32(ctx, "PUBLICATION-STRING", &p1);
	C19_DISARM();
	int asked = (crc_calls > 0);
	int crc_ok = asked && (stored == crc_value);
	if (asked && !crc_ok) {
		CHECK(res != KSI_OK && p1 == untouched, "C19.H14b a checksum mismatch is refused whatever else happens");
	} else {
		/* either the checksum matched, or the decoder's allocation failed before anything was checksummed */
		if (!asked) CHECK(VERIF_fault_hit && FAULT_AT == 1 && res == KSI_OUT_OF_MEMORY, "C19.H14b nothing is checksummed only when the decoder had no memory");
		C19_OUTCOME(res, p1 != untouched && pd_is(p1, T, BIN + 8));
	}
	if (res != KSI_OK) CHECK(p1 == untouched, "C19.H14b a failed fromBase32 leaves the output pointer untouched");
	if (res != KSI_OK || p1 == untouched) p1 = NULL;     /* (never hand the sentinel to a destructor, even on a path where a CHECK has failed) */

	/* the same call without fault */
	res = KSI_PublicationData_fromBase32(ctx, "PUBLICATION-STRING", &p2);
	int crc_ok2 = (stored == crc_value);
	CHECK(crc_calls >= 1 && (res == KSI_OK) == crc_ok2, "C19.H14b fromBase32 repeated without fault: accepted iff the checksum matches");
	if (res == KSI_OK) {
		CHECK(p2 != untouched && p2 != p1 && pd_is(p2, T, BIN + 8), "C19.H14b fromBase32 repeated without fault gives the fault-free result");
		if (p1 != NULL) CHECK(p1->time != p2->time && p1->imprint != p2->imprint, "C19.H14b two decoded publications share nothing");
	} else CHECK(p2 == untouched, "C19.H14b refusal leaves the output pointer untouched");
	if (res != KSI_OK || p2 == untouched) p2 = NULL;
	CHECK(dec_calls == 2, "C19.H14b the string is decoded once per call");

	if (ND_BOOL(free_first_first)) { KSI_PublicationData_free(p1); KSI_PublicationData_free(p2); }
	else { KSI_PublicationData_free(p2); KSI_PublicationData_free(p1); }
	WITNESS_POINT("fromBase32 scenario finished");
#if FAULT_AT >= 1 && FAULT_AT <= NALLOC
	if (VERIF_fault_hit && p2 != NULL) WITNESS_POINT("fault was injected and the repeated call succeeded");
#elif FAULT_AT > NALLOC
	CHECK(!VERIF_fault_hit, "C19.H14b the enumeration of allocation indices is complete (no allocation beyond NALLOC)");
#endif
#if FAULT_AT == 0
	if (p1 == NULL) WITNESS_POINT("checksum mismatch refused");
#endif
}
#else
void harness(void) {
	VERIF_ctx_init(); VERIF_hm_init(0); KSI_CTX *ctx = VERIF_ctx; int res;
	u64 T = ND(u64, pub_time); ASSUME(T >= 256);
	u8 imp[DL + 1]; imp[0] = KSI_HASHALG_SHA1; for (unsigned i = 0; i < DL; i++) imp[1 + i] = ND(u8, pub_digest);
	KSI_PublicationData *pd = NULL; KSI_Integer *ti = NULL; KSI_DataHash *h = NULL;
	res = KSI_PublicationData_new(ctx, &pd); ASSUME(res == KSI_OK);
	res = cut_Integer_new(ctx, T, &ti); ASSUME(res == KSI_OK);
	res = KSI_DataHash_fromDigest(ctx, KSI_HASHALG_SHA1, imp + 1, DL, &h); ASSUME(res == KSI_OK);
	res = KSI_PublicationData_setTime(pd, ti); ASSUME(res == KSI_OK);
	res = KSI_PublicationData_setImprint(pd, h); ASSUME(res == KSI_OK);

	static char sentinel_obj[4];
	char *const untouched = sentinel_obj;
	char *s1 = untouched, *s2 = untouched;
	C19_ARM();
	res = KSI_PublicationData_toBase32(pd, &s1);
	C19_DISARM();
	int ok1 = (s1 != untouched && s1 != NULL);
	for (unsigned i = 0; i < sizeof(enc_string); i++) if (ok1 && s1[i] != enc_string[i]) ok1 = 0;
	C19_OUTCOME(res, ok1);
	if (res != KSI_OK) CHECK(s1 == untouched, "C19.H14b a failed toBase32 leaves the output pointer untouched");
	if (res != KSI_OK || s1 == untouched) s1 = NULL;
	CHECK(pd->time == ti && pd->imprint == h && pd->ref == 1 && ti->ref == 1 && h->ref == 1 && pd_is(pd, T, imp), "C19.H14b the publication data is unchanged by the (failed) toBase32");

	res = KSI_PublicationData_toBase32(pd, &s2);
	CHECK(res == KSI_OK && s2 != untouched && s2 != NULL && s2 != s1, "C19.H14b toBase32 repeated without fault succeeds");
	{	/* what reached the encoder: T (8 bytes, big-endian) || imprint || checksum (4 bytes, big-endian), groups of 6 */
		int ok = (enc_len == NBIN && enc_group == 6 && crc_len == NBIN - 4);
		for (unsigned i = 0; i < 8; i++) if (enc_bytes[i] != (u8)(T >> (8 * (7 - i)))) ok = 0;
		for (unsigned i = 0; i < DL + 1; i++) if (enc_bytes[8 + i] != imp[i]) ok = 0;
		for (unsigned i = 0; i < 4; i++) if (enc_bytes[NBIN - 4 + i] != (u8)(crc_value >> (8 * (3 - i)))) ok = 0;
		for (unsigned i = 0; i < BMAX; i++) if (i + 4 < NBIN && crc_bytes[i] != enc_bytes[i]) ok = 0;
		CHECK(ok, "C19.H14b toBase32 repeated without fault hands the fault-free bytes (time, imprint, checksum) to the encoder");
	}
	if (res != KSI_OK || s2 == untouched) s2 = NULL;
	KSI_free(s1); KSI_free(s2);
	KSI_PublicationData_free(pd);
	WITNESS_POINT("toBase32 scenario finished");
#if FAULT_AT >= 1 && FAULT_AT <= NALLOC
	if (VERIF_fault_hit && s1 == NULL) WITNESS_POINT("fault was injected and the repeated call succeeded");
#elif FAULT_AT > NALLOC
	CHECK(!VERIF_fault_hit, "C19.H14b the enumeration of allocation indices is complete (no allocation beyond NALLOC)");
#endif
}
#endif
