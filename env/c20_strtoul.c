/* Decimal strtoul model for CBMC (which has no body for strtoul; without one the port parsed by
 * http_parser_parse_url would be an unconstrained value).  Trusted base of the C20 harnesses; validated
 *  (a) by harness C20/h0_strtoul against an independent positional-value specification for every string of
 *      0..C20_STRTOUL_MAXDIGITS digits followed by any terminator, and
 *  (b) against glibc: under -DREPLAY this file compiles to NOTHING, so every native replay - including the
 *      replay of h0_strtoul, where c20_strtoul_model is mapped to strtoul - runs the real function; a
 *      one-off exhaustive native comparison is recorded in harness/C20/MUTATIONS.md.
 * Domain of the model (asserted, not assumed): base 10, no leading white space or sign (http_parser only
 * calls strtoul on a position it has validated to be a digit), at most C20_STRTOUL_MAXDIGITS digits (so the
 * value cannot overflow an unsigned long).  Anything else trips the assertion "strtoul model domain". */
#ifndef REPLAY
#include <stddef.h>
#ifndef C20_STRTOUL_MAXDIGITS
#define C20_STRTOUL_MAXDIGITS 8
#endif
unsigned long c20_strtoul_model(const char *nptr, char **endptr, int base) {
	unsigned long v = 0;
	unsigned i, n = 0;
	int done = 0;
	__CPROVER_assert(base == 10, "strtoul model domain: base 10");
	for (i = 0; i < C20_STRTOUL_MAXDIGITS + 1; i++) {
		if (!done) {
			char c = nptr[i];
			if (c >= '0' && c <= '9') {
				__CPROVER_assert(i < C20_STRTOUL_MAXDIGITS, "strtoul model domain: digit string within the modelled length");
				v = v * 10 + (unsigned long)(c - '0');
				n++;
			} else {
				if (n == 0) __CPROVER_assert(c != ' ' && c != '\t' && c != '\n' && c != '\v' && c != '\f' && c != '\r' && c != '+' && c != '-',
					"strtoul model domain: no leading white space or sign");
				done = 1;
			}
		}
	}
	/* no digits: strtoul returns 0 and sets *endptr = nptr */
	if (endptr != NULL) *endptr = (char *)nptr + n;
	return v;
}
unsigned long strtoul(const char *nptr, char **endptr, int base) { return c20_strtoul_model(nptr, endptr, base); }
#endif
