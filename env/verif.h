/* Common harness header: nondeterministic inputs, checks, witness points.
 * Under CBMC (default): ND(T,tag) is a fresh symbolic value recorded in the trace
 * as an assignment to __nd_<tag>.  Under -DREPLAY (native gcc build of the very same
 * harness + real sources) ND() pops the next concrete value for <tag> from the
 * counterexample file, __CPROVER_assume aborts with exit 77 when violated and CHECK
 * prints the failed check and exits 1. */
#ifndef VERIF_H_
#define VERIF_H_
#include <stdint.h>
#include <stddef.h>
#include <stdlib.h>
#include <string.h>

typedef unsigned char u8;
typedef unsigned long long u64;

#ifndef REPLAY
u8 nondet_u8(void);
int nondet_int(void);
unsigned nondet_unsigned(void);
size_t nondet_size_t(void);
u64 nondet_u64(void);
_Bool nondet_bool(void);
long nondet_long(void);
unsigned short nondet_u16(void);
typedef unsigned short u16;
#define ND(T, tag) ({ T __nd_##tag = nondet_##T(); __nd_##tag; })
#define ND_BOOL(tag) ({ _Bool __nd_##tag = nondet_bool(); __nd_##tag; })
#define ASSUME(c) __CPROVER_assume(c)
#define CHECK(c, msg) __CPROVER_assert((c), "CHECK " msg)
#ifdef WITNESS
#define WITNESS_POINT(msg) __CPROVER_assert(0, "WITNESS " msg)
#else
#define WITNESS_POINT(msg) ((void)0)
#endif
#define VERIF_MALLOC(n) malloc(n)
#else /* REPLAY */
#include <stdio.h>
typedef unsigned short u16;
unsigned long long replay_next(const char *tag, unsigned size);
void replay_check_fail(const char *msg, const char *file, int line);
#define ND(T, tag) ((T)replay_next(#tag, sizeof(T)))
#define ND_BOOL(tag) ((_Bool)(replay_next(#tag, 1) & 1))
#define ASSUME(c) do { if (!(c)) { fprintf(stderr, "REPLAY: assumption violated: %s (%s:%d)\n", #c, __FILE__, __LINE__); exit(77);} } while (0)
#define __CPROVER_assume(c) ASSUME(c)
#define CHECK(c, msg) do { if (!(c)) replay_check_fail("CHECK " msg, __FILE__, __LINE__); } while (0)
#define __CPROVER_assert(c, msg) do { if (!(c)) replay_check_fail(msg, __FILE__, __LINE__); } while (0)
#define WITNESS_POINT(msg) ((void)0)
#define VERIF_MALLOC(n) malloc(n)
#endif

/* exact-size byte buffer: any access beyond n bytes is out of bounds for CBMC and for ASan
 * (ASan silently turns malloc(0) into malloc(1), so the empty buffer is a one-past-the-end pointer) */
#ifndef REPLAY
static inline u8 *verif_buf_alloc(size_t n) { u8 *p = malloc(n); __CPROVER_assume(p != NULL); return p; }
static inline void verif_buf_free(u8 *p, size_t n) { (void)n; free(p); }
#else
static inline u8 *verif_buf_alloc(size_t n) { u8 *p = malloc(n ? n : 1); return n ? p : p + 1; }
static inline void verif_buf_free(u8 *p, size_t n) { free(n ? p : p - 1); }
#endif

#endif
