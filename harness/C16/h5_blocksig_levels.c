/* C16 H-5: LEVEL / IDENTITY ARITHMETIC of assembling a per-leaf signature from a signed block.
 * Real: blocksigner.c (included) KSI_BlockSigner_new / addLeaf / closeAndSign / KSI_BlockSignerHandle_getSignature,
 * tree_builder.c (included) incl. KSI_TreeLeafHandle_getAggregationChain / getTreeNode, signature_builder.c
 * KSI_SignatureBuilder_openFromSignature / setAggregationChainStartLevel / appendAggregationChain (subRootLevel,
 * updateLevelCorrection, addChainIndex, appendAggregationChain) / close (addRootLevel, list sort), hashchain.c
 * (KSI_AggregationHashChain_aggregate, _calculateShape, _compare), tlv.c, list.c, types_base.c, hash.c on the memoising hash model.
 * Models (harness/common/c16_sigmodel.h): KSI_Signature_clone / free / getSigningTime, KSI_TlvTemplate_construct / extract
 * with a ghost record per 0x801 element, the internal verification inside close (stub - the oracle below does the checking),
 * qsort.  KSI_Signature_signAggregated is the "aggregator": it returns a hand-built base signature for (root hash, root
 * level): BASE_NCH chains, the first with BASE_NLINKS links, input hash = the root hash.
 *
 * Shape AND levels per instance (concrete): NLEAVES (1..3) SHA2-256 leaves, MDS[i] = leaf i has metadata, MASK = blinding on,
 * LEVELS[i] = level of leaf i, BASE_NLINKS / BASE_NCH = links of the first / number of base chains, BASE_CORR = the base
 * signature's level corrections ([0][0] = c0, the one the root level is subtracted from), EXPECT_REFUSE = c0 < root level.
 * Symbolic: all digests, metadata payloads, the iv, directions and siblings of the base links.
 * WHY LEVELS ARE CONCRETE: with a symbolic leaf level or a symbolic c0 the instance did not finish (one leaf, one base link:
 * 10-13 M variables, no answer in 10 min): KSI_Integer_new answers `integerPool + value` for values < 256 (a pointer with a
 * symbolic offset), `rootLevel != 0` guards the whole correction update (state merge), and every KSI_Integer_free of such a
 * value is a conditional release.  Replacing the pool by private objects and KSI_free by a no-op was tried: still 4.4 M
 * variables / 160 s for the smallest instance.  The instances therefore enumerate level vectors (0, non-zero, mixed, the
 * boundary c0 == root level, refusals) and the solver decides them for all digests.
 *
 * Oracle (from the KSI format: a chain step is level += correction + 1, value = H(left || right || level); a signature for a
 * leaf must start at the leaf's hash and reach, chain by chain, what the aggregator signed):
 *  (a) the reference root level R (binary-counter forest over leaf level + 1 per processor that applies) is what was signed;
 *  (b) getSignature succeeds iff c0 >= R ("refused if negative"); a refusal returns no signature;
 *  (c) the assembled signature has chains [leaf chain, if it has links] + [the base chains]; its first chain starts at the
 *      hash the caller added; folded by the harness from level 0 the leaf chain reproduces, step by step, hashes the block
 *      signer computed and ends at exactly the signed root hash at exactly level R (the leaf level sits in the first
 *      correction); the next chain starts at that root hash; the first base link has correction c0 - R (c0 - R + leaf level
 *      when there is no leaf chain, i.e. unchanged), every other base link is the original (correction, direction, sibling);
 *  (d) folding ALL chains from level 0 ends at exactly the level the base signature aggregated to when it was issued
 *      (leaf level + corrections + links == original output level: nothing counted twice, nothing lost);
 *  (e) identity: leaf chain index = base chain index || shape(leaf chain) (shape = 1 pad bit, then one bit per link, first
 *      link least significant, 1 = left link), aggregation time = the base signature's; base chains keep theirs;
 *  (f) the 0x800 element of the result has exactly one 0x801 child per chain, (re)built after the chain's last change;
 *      no signature was cloned (= serialised) while element and typed chains disagreed;
 *  (g) the block's base signature is untouched (every leaf starts from the same base).
 * MUTATIONS caught (scratch worktree, every violation reproduced by the native replay):
 *  m1 seeded C16_r3 (KSI_SignatureBuilder_appendAggregationChain returns early for a chain without links) -> n1_plain_l5,
 *     n1_plain_l5_boundary, n1_plain_l3_b2 fail (c: first base correction) and (d); n1_plain_l5_refuse fails (b) (the refusal is lost);
 *     n1_plain_l0 passes as it must (level 0 is unaffected);
 *  m2 subRootLevel uses `add` instead of `sub` -> n1_md_l4 fails (c), (d);
 *  m3 getSignature passes 0 instead of node->level to KSI_SignatureBuilder_setAggregationChainStartLevel -> n1_md_l4 fails (c), (d);
 *  m4 getSignature calls KSI_SignatureBuilder_close(builder, 0, ..) -> n1_plain_l5, n1_plain_l5_boundary fail (c), (d). */
#include "verif.h"
#include "internal.h"
#include "tree_builder.h"
#include "blocksigner.h"
#include "signature.h"
#include "signature_builder.h"
#include "policy.h"
#include "hashchain.h"
#include "tlv.h"
#include "impl/hashchain_impl.h"
#include "impl/signature_impl.h"
#include "impl/policy_impl.h"
#include "impl/signature_builder_impl.h"
#include "tlv_template.h"
#include "net.h"
#include "ctx.h"
#include "hash_model.h"
#include "verif_post.h"
#include "c16_ref.h"
#include "c16_md.h"
#include "c16_sigmodel.h"
#include "c16_instr.h"
#include "tree_builder.c"
#include "blocksigner.c"

#ifndef NLEAVES
#define NLEAVES 1
#endif
#ifndef MDS
#define MDS {0, 0, 0, 0}
#endif
#ifndef MASK
#define MASK 0
#endif
#ifndef BASE_NLINKS
#define BASE_NLINKS 1
#endif
#ifndef BASE_NCH
#define BASE_NCH 1
#endif
#ifndef BASE_IDX
#define BASE_IDX 1
#endif
#ifndef LEVELS
#define LEVELS {0, 0, 0, 0}
#endif
#ifndef BASE_CORR
#define BASE_CORR {{7, 2}, {1, 0}}          /* level corrections of the base signature's links, [chain][link]; [0][0] = c0 */
#endif
#ifndef EXPECT_REFUSE
#define EXPECT_REFUSE 0
#endif
#ifndef FIRST_LEAF
#define FIRST_LEAF 0
#endif
#ifndef LAST_LEAF
#define LAST_LEAF (NLEAVES - 1)
#endif
#define ALG KSI_HASHALG_SHA2_256
#define IVLEN 8
static const int mds[4] = MDS;
static const int levels[4] = LEVELS;
static const unsigned base_corr[2][2] = BASE_CORR;

/* ---- the aggregator ---- */
static unsigned sign_calls; static KSI_DataHash *sign_hash; static u64 sign_level;
static struct sm_linkspec base_ls[BASE_NCH][2];
static unsigned base_nl[BASE_NCH];
static u64 base_idx[BASE_NCH][BASE_IDX + 1], base_time;
static KSI_Signature *base_sig;
static KSI_AggregationHashChain *base_ch[BASE_NCH];
int KSI_Signature_signAggregatedWithPolicy(KSI_CTX *ctx, KSI_DataHash *rootHash, KSI_uint64_t rootLevel, const KSI_Policy *policy, KSI_VerificationContext *context, KSI_Signature **signature) {
	int res; u64 lvl = 0;
	(void)policy; (void)context; sign_calls++; sign_hash = rootHash; sign_level = rootLevel;
	base_time = 0x5eed0000u;          /* identities are concrete, pairwise different values: they are only ever copied */
      /* a time / index below 256 would only select libksi's shared integer pool entry instead of a heap object */
	KSI_DataHash *in = rootHash; u8 outd[32];
	for (unsigned c = 0; c < BASE_NCH; c++) {
		base_nl[c] = c == 0 ? BASE_NLINKS : 1;
		for (unsigned k = 0; k < 2; k++) {
			if (k < base_nl[c]) {
				base_ls[c][k].isLeft = ND_BOOL(base_isleft); base_ls[c][k].has_corr = 1; base_ls[c][k].corr = base_corr[c][k];
				lvl += base_ls[c][k].corr + 1;
				for (unsigned q = 0; q < 32; q++) base_ls[c][k].sib[q] = ND(u8, base_sib);
			}
		}
		/* KSI format: chain indices nest - chain 0 (the lowest) has the longest index, chain c > 0 a prefix of it */
		for (unsigned q = 0; q < BASE_IDX + 1; q++) base_idx[c][q] = 0x1000u + 0x111u * q;
		res = sm_mk_chain(ctx, in, ALG, base_time, c == 0 ? (BASE_NCH - 1) + BASE_IDX : BASE_IDX, base_idx[c], base_nl[c], base_ls[c], &base_ch[c]);
		ASSUME(res == KSI_OK);
		if (c + 1 < BASE_NCH) { for (unsigned q = 0; q < 32; q++) outd[q] = ND(u8, base_out); res = KSI_DataHash_fromDigest(ctx, ALG, outd, 32, &in); ASSUME(res == KSI_OK); }
	}
	ASSUME(lvl <= 255);                                   /* the aggregator's signature is valid: every level within 0..255 */
	res = sm_mk_sig(ctx, BASE_NCH, base_ch, &base_sig); ASSUME(res == KSI_OK);
	*signature = base_sig;
	return KSI_OK;
}

static struct c16_val leafv[NLEAVES];
static KSI_BlockSignerHandle *handle[NLEAVES];

static int same_bytes(const struct c16_val *a, const unsigned char *p, size_t n) {
	int eq = (n == a->len);
	for (unsigned k = 0; k < C16_VMAX; k++) if (eq && k < a->len && p[k] != a->b[k]) eq = 0;
	return eq;
}
static int hash_is(const KSI_DataHash *h, const struct c16_val *v) {
	const unsigned char *imp = NULL; size_t il = 0;
	if (h == NULL || KSI_DataHash_getImprint(h, &imp, &il) != KSI_OK) return 0;
	return same_bytes(v, imp, il);
}
static KSI_DataHash *sym_hash(KSI_CTX *ctx, u8 *bytes33) {
	KSI_DataHash *h = NULL; u8 d[32];
	for (unsigned k = 0; k < 32; k++) { d[k] = ND(u8, digest); bytes33[1 + k] = d[k]; }
	bytes33[0] = ALG;
	int res = KSI_DataHash_fromDigest(ctx, ALG, d, 32, &h); ASSUME(res == KSI_OK);
	return h;
}
static u64 corr_of(const KSI_HashChainLink *l) { return l->levelCorrection != NULL ? KSI_Integer_getUInt64(l->levelCorrection) : 0; }

/* fold a chain the block signer produced: hashes from the record table, levels by the chain formula */
static void fold_leaf_chain(const KSI_AggregationHashChain *chain, struct c16_val *cur, u64 *level, u64 *shape) {
	size_t n = KSI_HashChainLinkList_length(chain->chain);
	struct c16_val sib, nxt; const unsigned char *imp = NULL; size_t il = 0;
	CHECK(n <= SM_MAXLN, "C16.H5 leaf chain no longer than the harness bound");
	u64 sh = 1;
	for (unsigned k = 0; k < SM_MAXLN; k++) {
		if (k < n) {
			KSI_HashChainLink *link = NULL;
			int res = KSI_HashChainLinkList_elementAt(chain->chain, k, &link);
			CHECK(res == KSI_OK && link != NULL, "C16.H5 leaf chain link readable");
			if (res != KSI_OK || link == NULL) return;
			u64 corr = corr_of(link);
			*level = *level + corr + 1;
			CHECK(corr <= 255 && *level <= 255, "C16.H5 levels of the assembled leaf chain stay within 0..255");
			sib.level = 0;
			if (link->imprint != NULL) {
				KSI_DataHash_getImprint(link->imprint, &imp, &il);
				sib.len = (unsigned)il;
				for (unsigned q = 0; q < C16_VMAX; q++) sib.b[q] = (q < il) ? imp[q] : 0;
			} else if (link->metaData != NULL && link->metaData->impl != NULL) {
				KSI_TlvElement *el = link->metaData->impl;
				sib.len = (unsigned)el->ftlv.dat_len;
				for (unsigned q = 0; q < C16_VMAX; q++) sib.b[q] = (q < el->ftlv.dat_len) ? el->ptr[el->ftlv.hdr_len + q] : 0;
			} else { CHECK(0, "C16.H5 leaf chain link has a sibling"); return; }
			if (link->isLeft) c16_H(ALG, cur, &sib, (unsigned)*level, &nxt);
			else c16_H(ALG, &sib, cur, (unsigned)*level, &nxt);
			*cur = nxt;
		}
	}
	/* shape: pad bit on top, first link least significant */
	for (unsigned k = SM_MAXLN; k > 0; k--) {
		if (k - 1 < n) { KSI_HashChainLink *link = NULL; KSI_HashChainLinkList_elementAt(chain->chain, k - 1, &link); sh = (sh << 1) | (link != NULL && link->isLeft ? 1u : 0u); }
	}
	*shape = sh;
}

static int idx_is(KSI_LIST(KSI_Integer) *l, unsigned k, u64 v) {
	KSI_Integer *e = NULL;
	return KSI_IntegerList_elementAt(l, k, &e) == KSI_OK && e != NULL && KSI_Integer_getUInt64(e) == v;
}

void harness(void) {
	VERIF_ctx_init(); VERIF_hm_init(1);
	KSI_CTX *ctx = VERIF_ctx; int res;
	u8 prev0[33], ivb[IVLEN]; KSI_DataHash *prevLeaf = NULL; KSI_OctetString *iv = NULL;
#if MASK
	prevLeaf = sym_hash(ctx, prev0);
	for (unsigned k = 0; k < IVLEN; k++) ivb[k] = ND(u8, iv);
	res = KSI_OctetString_new(ctx, ivb, IVLEN, &iv); ASSUME(res == KSI_OK);
#else
	(void)prev0; (void)ivb;
#endif
	KSI_BlockSigner *s = NULL;
	VERIF_expect_no_error = 1;
	res = KSI_BlockSigner_new(ctx, ALG, prevLeaf, iv, &s);
	CHECK(res == KSI_OK && s != NULL, "C16.H5 a block signer is created");
	if (res != KSI_OK || s == NULL) return;

	struct c16_lf ref; c16_lf_init(&ref);
	unsigned nmd = 0;
	for (unsigned i = 0; i < NLEAVES; i++) {
		const int level = levels[i];
		KSI_DataHash *x = sym_hash(ctx, leafv[i].b); leafv[i].len = 33; leafv[i].level = (unsigned)level;
		KSI_MetaData *md = NULL;
		if (mds[i]) { u8 p[C16_MDLEN]; for (unsigned k = 0; k < C16_MDLEN; k++) p[k] = ND(u8, md); md = c16_md_make(ctx, nmd++, p); }
		handle[i] = NULL;
		res = KSI_BlockSigner_addLeaf(s, x, level, md, &handle[i]);
		CHECK(res == KSI_OK && handle[i] != NULL, "C16.H5 a leaf is accepted and a handle returned");
		if (res != KSI_OK || handle[i] == NULL) return;
		c16_lf_add(&ref, (unsigned)level + (mds[i] ? 1u : 0u) + (MASK ? 1u : 0u));
	}
	res = KSI_BlockSigner_closeAndSign(s);
	CHECK(res == KSI_OK, "C16.H5 the block closes and is signed");
	if (res != KSI_OK) return;
	VERIF_expect_no_error = 0;
	CHECK(VERIF_hm_overflow == 0, "C16.H5 hash model large enough");
	const u64 R = c16_lf_close(&ref);
	CHECK(sign_calls == 1 && sign_level == R && s->signature == base_sig, "C16.H5 (a) the root level sent for signing is the level of the reference merge, the signer keeps the aggregator's signature");
	struct c16_val root; const unsigned char *imp = NULL; size_t il = 0;
	KSI_DataHash_getImprint(sign_hash, &imp, &il);
	root.len = (unsigned)il; root.level = (unsigned)R;
	for (unsigned q = 0; q < C16_VMAX; q++) root.b[q] = (q < il) ? imp[q] : 0;

	const u64 c0 = base_ls[0][0].corr;
	u64 Lorig = 0;
	for (unsigned c = 0; c < BASE_NCH; c++) for (unsigned k = 0; k < 2; k++) if (k < base_nl[c]) Lorig += base_ls[c][k].corr + 1;
	const unsigned nrec_block = VERIF_hm_nrec;
	VERIF_hm_memo = 0;       /* hashes computed from here on (re-aggregation inside the builder) are not observed; see the record reset below */

	for (unsigned i = FIRST_LEAF; i <= LAST_LEAF; i++) {
		const int has_chain = (NLEAVES > 1) || MASK || mds[i];
		const u64 li = leafv[i].level;
		const int expect_ok = (c0 >= R);       /* concrete per instance */
		CHECK(expect_ok == !EXPECT_REFUSE, "C16.H5 instance configuration: EXPECT_REFUSE says whether the first correction is below the root level");
		KSI_Signature *out = NULL;
		VERIF_expect_no_error = expect_ok;
		res = KSI_BlockSignerHandle_getSignature(handle[i], &out);
		VERIF_expect_no_error = 0;
		VERIF_hm_nrec = nrec_block; VERIF_hm_overflow = 0;
		CHECK((res == KSI_OK) == expect_ok, "C16.H5 (b) a leaf signature is assembled iff the base signature's first level correction is at least the root level");
		CHECK(res == KSI_OK ? out != NULL : out == NULL, "C16.H5 (b) a signature is returned exactly on success");
		/* (g) */
		CHECK(KSI_AggregationHashChainList_length(base_sig->aggregationChainList) == BASE_NCH && sm_first_corr(base_ch[0]) == c0
			&& KSI_HashChainLinkList_length(base_ch[0]->chain) == BASE_NLINKS && KSI_IntegerList_length(base_ch[0]->chainIndex) == (BASE_NCH - 1) + BASE_IDX
			&& sm_sig_consistent(base_sig), "C16.H5 (g) the block's base signature is not changed by assembling a leaf signature");
		CHECK(sm_clone_inconsistent == 0 && !sm_ghost_overflow, "C16.H5 (f) no signature is serialised while its element and its typed chains disagree");
		if (res != KSI_OK || out == NULL) {
#if EXPECT_REFUSE
			WITNESS_POINT("refused: first level correction below the root level");
#endif
			return;
		}
		size_t nch = KSI_AggregationHashChainList_length(out->aggregationChainList);
		CHECK(nch == (size_t)(BASE_NCH + (has_chain ? 1 : 0)), "C16.H5 (c) chains of the assembled signature = [leaf chain if it has links] + [base chains]");
		if (nch != (size_t)(BASE_NCH + (has_chain ? 1 : 0))) return;
		u64 level = 0; unsigned first_base = 0;
		if (has_chain) {
			KSI_AggregationHashChain *lc = NULL;
			KSI_AggregationHashChainList_elementAt(out->aggregationChainList, 0, &lc);
			CHECK(lc != NULL && hash_is(lc->inputHash, &leafv[i]), "C16.H5 (c) the assembled signature starts at the hash the caller added");
			if (lc == NULL) return;
			struct c16_val cur = leafv[i]; u64 shape = 0;
			c16_H_missing = 0;
			fold_leaf_chain(lc, &cur, &level, &shape);
			CHECK(c16_H_missing == 0, "C16.H5 (c) every step of the leaf chain, folded from level 0, recomputes a hash the block signer computed");
			CHECK(same_bytes(&root, cur.b, cur.len), "C16.H5 (c) the leaf chain ends at the signed root hash");
			CHECK(level == R, "C16.H5 (c) the leaf chain, folded from level 0, ends at exactly the signed root level");
			/* (e) */
			size_t nb = (BASE_NCH - 1) + BASE_IDX; int ok = KSI_IntegerList_length(lc->chainIndex) == nb + 1;
			for (unsigned q = 0; q < (BASE_NCH - 1) + BASE_IDX; q++) ok = ok && idx_is(lc->chainIndex, q, base_idx[0][q]);
			ok = ok && idx_is(lc->chainIndex, (unsigned)nb, shape);
			CHECK(ok, "C16.H5 (e) leaf chain index = base chain index followed by the shape of the leaf chain");
			CHECK(lc->aggregationTime != NULL && KSI_Integer_getUInt64(lc->aggregationTime) == base_time, "C16.H5 (e) the leaf chain carries the aggregation time of the base signature");
			first_base = 1;
		}
		for (unsigned c = 0; c < BASE_NCH; c++) {
			KSI_AggregationHashChain *bc = NULL;
			KSI_AggregationHashChainList_elementAt(out->aggregationChainList, first_base + c, &bc);
			CHECK(bc != NULL && bc != base_ch[c] && KSI_HashChainLinkList_length(bc->chain) == base_nl[c], "C16.H5 (c) base chain present in the assembled signature (as a copy)");
			if (bc == NULL) return;
			if (c == 0) CHECK(hash_is(bc->inputHash, &root), "C16.H5 (c) the chain after the leaf chain starts at the signed root hash");
			CHECK(bc->aggregationTime != NULL && KSI_Integer_getUInt64(bc->aggregationTime) == base_time && KSI_IntegerList_length(bc->chainIndex) == (c == 0 ? (BASE_NCH - 1) + BASE_IDX : BASE_IDX)
				&& idx_is(bc->chainIndex, 0, base_idx[c][0]), "C16.H5 (e) base chains keep aggregation time and chain index");
			for (unsigned k = 0; k < 2; k++) {
				if (k < base_nl[c]) {
					KSI_HashChainLink *l = NULL;
					KSI_HashChainLinkList_elementAt(bc->chain, k, &l);
					CHECK(l != NULL, "C16.H5 base link readable"); if (l == NULL) return;
					u64 corr = corr_of(l);
					if (c == 0 && k == 0) {
						CHECK(corr == (has_chain ? c0 - R : c0 - R + li), "C16.H5 (c) first base link correction = original correction - root level (+ leaf level when there is no leaf chain to carry it)");
					} else {
						CHECK(corr == base_ls[c][k].corr, "C16.H5 (c) every other base link keeps its level correction");
					}
					struct c16_val sv; sv.len = 33; sv.b[0] = ALG; for (unsigned q = 0; q < 32; q++) sv.b[1 + q] = base_ls[c][k].sib[q];
					CHECK((l->isLeft != 0) == (base_ls[c][k].isLeft != 0) && hash_is(l->imprint, &sv), "C16.H5 (c) base links keep direction and sibling");
					level += corr + 1;
				}
			}
		}
		CHECK(level == Lorig, "C16.H5 (d) leaf level + corrections + links of the assembled signature = the level the base signature aggregated to when it was issued");
		CHECK(sm_sig_consistent(out), "C16.H5 (f) the element of the assembled signature has one 0x801 child per chain, rebuilt after the chain's last change");
		if (i == LAST_LEAF) {
#if !EXPECT_REFUSE
			WITNESS_POINT("leaf signatures assembled, levels add up");
#endif
#ifdef WIT_BOUNDARY
			if (c0 == R && R > 0) WITNESS_POINT("boundary: first correction equals the root level");
#endif
#ifdef WIT_LEAF_LEVEL
			if (li > 0) WITNESS_POINT("leaf with a non-zero level");
#endif
		}
		KSI_Signature_free(out);
	}
}
