/* C13 H-2: one reply (asyncClient_handle{Aggregation,Extend}Resp -> handleResponse) with an arbitrary request id,
 * status and error message, delivered to an ARBITRARY invariant-satisfying client state.
 *
 * Contract (property text: "with a response only if an authenticated, status-zero reply bearing that request's
 * own identifier arrived after it was sent ... never completed with another request's or a stale reply"):
 *  target := the cached handle in slot (id & 0xffffffff) whose FULL 64-bit id equals the reply's id and which is
 *            WAITING_FOR_RESPONSE (i.e. it has been sent and has no result yet).
 *  - no target (unknown slot, slot beyond the cache, empty slot, other id generation, duplicate after completion,
 *    reply before the request was sent, PDU without response): nothing changes, KSI_OK;
 *  - target, response/request cross check fails: nothing changes, the error is returned;
 *  - target, status 0 or absent: it becomes RESPONSE_RECEIVED holding a new reference to exactly this response;
 *    pending - 1, received + 1;
 *  - target, status != 0: it becomes ERROR with the converted status, the raw status as external code and the
 *    server's message; counters unchanged (a failed handle stays pending until returned);
 *  - every other cached handle and serverConf untouched; Inv(c) afterwards. */
#define HN "C13.H2"
#include "verif.h"
#include "internal.h"
#include "ctx.h"
#include "verif_post.h"
#include "c13_model.h"
#include "net_async.c"
#include "c13_state.h"

#if EXT_FLAVOUR
#define RESP_T KSI_ExtendResp
#define PDU_T KSI_ExtendPdu
#define RESP_NEW KSI_ExtendResp_new
#define HANDLE_RESP asyncClient_handleExtendResp
#define VERIFY_CALLS c13_KSI_ExtendResp_verify_calls
#define VERIFY_LAST c13_KSI_ExtendResp_verify_last
#define VERIFY_REQ c13_KSI_ExtendResp_verify_req
#else
#define RESP_T KSI_AggregationResp
#define PDU_T KSI_AggregationPdu
#define RESP_NEW KSI_AggregationResp_new
#define HANDLE_RESP asyncClient_handleAggregationResp
#define VERIFY_CALLS c13_KSI_AggregationResp_verify_calls
#define VERIFY_LAST c13_KSI_AggregationResp_verify_last
#define VERIFY_REQ c13_KSI_AggregationResp_verify_req
#endif

void harness(void) {
	VERIF_ctx_init();
	KSI_CTX *ctx = VERIF_ctx;
	struct c13_snap pre;
	int res;
	KSI_AsyncClient *c = c13_mk_client(ctx, &pre);

	/* the reply */
	PDU_T *pdu = (PDU_T *)malloc(sizeof(PDU_T)); ASSUME(pdu != NULL);
	memset(pdu, 0, sizeof(*pdu)); pdu->ctx = ctx;
	RESP_T *resp = NULL;
	const _Bool hasResp = ND_BOOL(pdu_has_response);
	const _Bool hasId = ND_BOOL(reply_has_id);
	const _Bool hasStatus = ND_BOOL(reply_has_status);
	const u64 rid = ND(u64, reply_id);
	const u64 status = ND(u64, reply_status);
	KSI_Utf8String *msg = NULL;
	if (hasResp) {
		res = RESP_NEW(ctx, &resp); ASSUME(res == KSI_OK && resp != NULL);
		if (hasId) { res = KSI_Integer_new(ctx, rid, &resp->requestId); ASSUME(res == KSI_OK); }
		if (hasStatus) { res = KSI_Integer_new(ctx, status, &resp->status); ASSUME(res == KSI_OK); }
		if (ND_BOOL(reply_has_message)) { res = KSI_Utf8String_new(ctx, c13_user, 2, &msg); ASSUME(res == KSI_OK); resp->errorMsg = msg; }
		pdu->response = resp;
	}
	const u64 id = hasId ? rid : 0;       /* an absent id reads as 0, which names the reserved slot */

	res = HANDLE_RESP(c, pdu);

	/* ---- reference ---- */
	size_t k = 0; int target = 0;
	for (size_t i = 1; i < CACHE_S; i++) {
		if (hasResp && (id & 0xffffffffull) == i && pre.slot[i].h != NULL && pre.slot[i].id == id
				&& pre.slot[i].state == KSI_ASYNC_STATE_WAITING_FOR_RESPONSE) { target = 1; k = i; }
	}
	CHECK(c13_slots_unchanged(c, &pre, k) && c13_conf_unchanged(c, &pre), HN " handles other than the one addressed by the reply are untouched");
	if (!target) {
		CHECK(res == KSI_OK, HN " unmatched reply is ignored without error");
		CHECK(c->pending == pre.pending && c->received == pre.received, HN " unmatched reply leaves the counters untouched");
		CHECK(VERIFY_CALLS == 0, HN " unmatched reply is not cross-checked against any request");
		if (hasResp) CHECK(resp->ref == 1, HN " unmatched reply is not retained");
		for (size_t i = 1; i < CACHE_S; i++) {
			if (hasResp && (id & 0xffffffffull) == i && pre.slot[i].h != NULL) {
				if (pre.slot[i].id != id && pre.slot[i].state == KSI_ASYNC_STATE_WAITING_FOR_RESPONSE) WITNESS_POINT("reply with another id generation for a waiting slot ignored");
				if (pre.slot[i].id == id && pre.slot[i].state == KSI_ASYNC_STATE_RESPONSE_RECEIVED) WITNESS_POINT("duplicate reply after completion ignored");
				if (pre.slot[i].id == id && pre.slot[i].state == KSI_ASYNC_STATE_WAITING_FOR_DISPATCH) WITNESS_POINT("reply before the request was sent ignored");
			}
		}
		if (hasResp && (id & 0xffffffffull) >= CACHE_S) WITNESS_POINT("reply naming a slot beyond the cache ignored");
	} else {
		const KSI_AsyncHandle *h = c->reqCache[k];
		CHECK(h == pre.slot[k].h, HN " addressed handle stays in its slot");
		CHECK(VERIFY_CALLS == 1 && VERIFY_REQ == c13_request_of(h), HN " matched reply is cross-checked once against the handle's own request");
		if (VERIFY_LAST != KSI_OK) {
			CHECK(res == VERIFY_LAST, HN " failed cross-check is reported");
			CHECK(h->state == KSI_ASYNC_STATE_WAITING_FOR_RESPONSE && h->respCtx == NULL && h->err == pre.slot[k].err, HN " failed cross-check leaves the handle waiting");
			CHECK(c->pending == pre.pending && c->received == pre.received && resp->ref == 1, HN " failed cross-check changes no counter and retains nothing");
			WITNESS_POINT("matched reply failing the request cross-check");
		} else {
			CHECK(res == KSI_OK, HN " matched reply processed");
			if (!hasStatus || status == 0) {
				CHECK(h->state == KSI_ASYNC_STATE_RESPONSE_RECEIVED, HN " status-zero reply completes the handle");
				CHECK(h->respCtx == (void *)resp && h->respCtx_free != NULL && resp->ref == 2, HN " completed handle owns a reference to exactly this response");
				CHECK(c->pending == pre.pending - 1 && c->received == pre.received + 1, HN " completion moves one handle from pending to received");
				CHECK(h->err == pre.slot[k].err && h->errMsg == NULL, HN " completion sets no error");
				WITNESS_POINT("matched status-zero reply completes the handle");
			} else {
				CHECK(h->state == KSI_ASYNC_STATE_ERROR && h->err != KSI_OK && h->err == c13_service_error_code, HN " non-zero status fails the handle with the converted status");
				CHECK(h->errExt == (long)status, HN " failed handle reports the raw service status");
				CHECK(h->errMsg == msg && (msg == NULL || msg->ref == 2), HN " failed handle references the server's message");
				CHECK(h->respCtx == NULL && resp->ref == 1, HN " failed handle holds no response");
				CHECK(c->pending == pre.pending && c->received == pre.received, HN " a failed handle stays pending until it is returned");
				WITNESS_POINT("matched reply with error status fails the handle");
			}
		}
	}
	c13_check_inv(c);
}
