/* C20 H-4: the asynchronous services (KSI_SigningAsyncService_new / KSI_ExtendingAsyncService_new +
 * KSI_AsyncService_setEndpoint / _addEndpoint -> net_async.c asyncService_setupAsyncClient) on a well-formed
 * service URI (generator common/c20_uri.h).
 * Real code: net_async.c (service object, asyncService_setupAsyncClient), net.c (abstract service, uriSplit,
 * uriCompose, getClientByUriScheme; included as text), http_parser.c, compatibility.c.  Recording stubs: the
 * TCP / HTTP asynchronous client constructors and service setters (transport boundary).  Cuts with proof
 * obligations: common/c20_cuts.h.
 * Expected (property text): ksi, ksi+http, ksi+https -> HTTP async client, URL = http|https "://" host [":" port]
 * [path] ["?" query] ["#" fragment] (no user-info); ksi+tcp -> TCP async client with exactly host and port;
 * file and every other scheme -> refused (KSI_INVALID_FORMAT), no client is created or configured;
 * login id / key = explicit argument if given, else the embedded one. */
#include "verif.h"
#include "internal.h"
#include "net_async.h"
#include "net_http.h"
#include "net_tcp.h"
#include "impl/net_impl.h"
#include "impl/net_async_impl.h"
#include "ctx.h"
#include "verif_post.h"
#include "net.c"
#include "c20_uri.h"

#ifndef C20_EXPL_ID
#define C20_EXPL_ID 0
#endif
#ifndef C20_EXPL_KEY
#define C20_EXPL_KEY 0
#endif
#ifndef C20_EXTENDER
#define C20_EXTENDER 0       /* 0: signing service, 1: extending service */
#endif
#ifndef C20_ADD
#define C20_ADD 0            /* 0: KSI_AsyncService_setEndpoint, 1: KSI_AsyncService_addEndpoint */
#endif
#ifndef C20_CLASS
#error "instance must define C20_CLASS"
#endif
#define REC_MAX 64
void C20_fmt_text(const char *p, char *out, unsigned max);

static struct {
	unsigned calls; int which;       /* 1 http, 2 tcp */
	KSI_AsyncClient *client;
	char str[REC_MAX]; unsigned port;
	int user_null, pass_null; char user[8], pass[8];
} rec;
static struct KSI_AsyncClient_st http_obj, tcp_obj;
static unsigned http_new_calls, tcp_new_calls;
static int rec_call(int which, KSI_AsyncClient *c, const char *s, unsigned port, const char *user, const char *pass) {
	rec.calls++; rec.which = which; rec.client = c; rec.port = port;
	C20_fmt_text(s, rec.str, REC_MAX);
	rec.user_null = (user == NULL); rec.pass_null = (pass == NULL);
	if (user != NULL) C20_fmt_text(user, rec.user, sizeof(rec.user));
	if (pass != NULL) C20_fmt_text(pass, rec.pass, sizeof(rec.pass));
	return KSI_OK;
}
int KSI_HttpAsyncClient_new(KSI_CTX *ctx, KSI_AsyncClient **c) { (void)ctx; http_new_calls++; *c = &http_obj; return KSI_OK; }
int KSI_TcpAsyncClient_new(KSI_CTX *ctx, KSI_AsyncClient **c) { (void)ctx; tcp_new_calls++; *c = &tcp_obj; return KSI_OK; }
int KSI_HttpAsyncClient_setService(KSI_AsyncClient *c, const char *url, const char *user, const char *pass) { return rec_call(1, c, url, 0, user, pass); }
int KSI_TcpAsyncClient_setService(KSI_AsyncClient *c, const char *host, unsigned port, const char *user, const char *pass) { return rec_call(2, c, host, port, user, pass); }

#define C20_CUT_ID "C20.H4"
#include "c20_cuts.h"

void harness(void) {
	VERIF_ctx_init(); KSI_CTX *ctx = VERIF_ctx;
	c20_build();
	char eid[C20_EXPL_ID + 1], ekey[C20_EXPL_KEY + 1];
	for (unsigned i = 0; i < C20_EXPL_ID; i++) { eid[i] = (char)ND(u8, explicit_id); ASSUME(eid[i] != 0); }
	for (unsigned i = 0; i < C20_EXPL_KEY; i++) { ekey[i] = (char)ND(u8, explicit_key); ASSUME(ekey[i] != 0); }
	eid[C20_EXPL_ID] = 0; ekey[C20_EXPL_KEY] = 0;
	const char *loginId = C20_EXPL_ID ? eid : NULL, *key = C20_EXPL_KEY ? ekey : NULL;

	KSI_AsyncService *svc = NULL;
#if C20_EXTENDER
	int res = KSI_ExtendingAsyncService_new(ctx, &svc);
#else
	int res = KSI_SigningAsyncService_new(ctx, &svc);
#endif
	ASSUME(res == KSI_OK);
	CHECK(svc->uriSplit == uriSplit && svc->uriCompose == uriCompose && svc->getClientByUriScheme == getClientByUriScheme,
		"C20.H4 the asynchronous service uses net.c's uriSplit / uriCompose / getClientByUriScheme");
	svc->uriSplit = cut_uriSplit; svc->getClientByUriScheme = cut_getClientByUriScheme;

	/* reference composition */
	char url[REC_MAX]; unsigned ul = 0;
#if C20_CLASS == 1 || C20_CLASS == 2
	{
		const char *sch = (C20_CLASS == 1) ? "http" : "https";
		for (unsigned i = 0; i < (C20_CLASS == 1 ? 4u : 5u); i++) url[ul++] = sch[i];
		url[ul++] = ':'; url[ul++] = '/'; url[ul++] = '/';
		for (unsigned i = 0; i < C20_HOSTLIT_LEN; i++) url[ul++] = C20.hostlit[i];
#if C20_PDIG > 0
		url[ul++] = ':';
		for (unsigned i = 0; i < C20_PDIG; i++) url[ul++] = C20.portstr[i];
#endif
		for (unsigned i = 0; i < C20_PLEN; i++) url[ul++] = C20.path[i];
#if C20_QLEN > 0
		url[ul++] = '?';
		for (unsigned i = 0; i < C20_QLEN; i++) url[ul++] = C20.query[i];
#endif
#if C20_FLEN > 0
		url[ul++] = '#';
		for (unsigned i = 0; i < C20_FLEN; i++) url[ul++] = C20.frag[i];
#endif
	}
#endif
	url[ul] = 0;

#if C20_ADD
	res = KSI_AsyncService_addEndpoint(svc, C20.uri, loginId, key);
#else
	res = KSI_AsyncService_setEndpoint(svc, C20.uri, loginId, key);
#endif

#if C20_CLASS == 0 || C20_CLASS == 4
	CHECK(res == KSI_INVALID_FORMAT, "C20.H4 the asynchronous service refuses the file scheme and unknown schemes");
	CHECK(rec.calls == 0 && http_new_calls == 0 && tcp_new_calls == 0 && svc->impl == NULL, "C20.H4 a refused URI configures no transport client");
	WITNESS_POINT("scheme refused by the asynchronous service");
#else
	CHECK(res == KSI_OK, "C20.H4 a well-formed ksi / ksi+http / ksi+https / ksi+tcp URI is accepted");
	if (res != KSI_OK) return;
	CHECK(cut_split_calls == 1 && cut_scheme_calls == 1, "C20.H4 the URI is split and its scheme classified exactly once");
	const char *exp_user = C20_EXPL_ID ? eid : (C20_HAS_UI ? C20.user : NULL);
	const char *exp_pass = C20_EXPL_KEY ? ekey : (C20_HAS_UI ? C20.key : NULL);
	unsigned exp_user_len = C20_EXPL_ID ? C20_EXPL_ID : C20_ULEN, exp_pass_len = C20_EXPL_KEY ? C20_EXPL_KEY : C20_KLEN;
	CHECK(rec.calls == 1 && rec.which == (C20_CLASS == 3 ? 2 : 1), "C20.H4 exactly the service setter of the transport selected by the scheme is called");
	CHECK(rec.client == (C20_CLASS == 3 ? &tcp_obj : &http_obj) && svc->impl == (void *)rec.client && (C20_CLASS == 3 ? tcp_new_calls == 1 && http_new_calls == 0 : http_new_calls == 1 && tcp_new_calls == 0),
		"C20.H4 one client of the selected transport is created, configured and installed in the service");
	CHECK((exp_user == NULL) ? rec.user_null : (!rec.user_null && c20_streq(rec.user, exp_user, exp_user_len)), "C20.H4 login id is the explicit argument if given, else the embedded user");
	CHECK((exp_pass == NULL) ? rec.pass_null : (!rec.pass_null && c20_streq(rec.pass, exp_pass, exp_pass_len)), "C20.H4 key is the explicit argument if given, else the embedded key");
#if C20_CLASS == 3
	CHECK(c20_streq(rec.str, C20.host, C20_HOSTLEN) && rec.port == C20.port, "C20.H4 TCP transport receives exactly host and port");
	WITNESS_POINT("tcp async client configured");
#else
	CHECK(c20_streq(rec.str, url, ul), "C20.H4 URL handed to the HTTP async client is scheme' :// host [:port] path [?query] [#fragment] without user-info");
	WITNESS_POINT("http async client configured");
#endif
	/* a second endpoint on a configured service is refused without touching the transport */
	res = KSI_AsyncService_setEndpoint(svc, C20.uri, loginId, key);
	CHECK(res == KSI_INVALID_STATE && rec.calls == 1, "C20.H4 an already configured service refuses another endpoint");
#endif
}
