/* C14 H-1: receive side of the asynchronous TCP client, dispatch() of net_tcp_async.c, as ONE inductive step:
 * from an arbitrary buffer state satisfying the invariant
 *     I: inBuf[0..inLen) is a proper prefix of one element (it does not begin with a complete element)
 * one dispatch() call in which recv() delivers the next bytes of the peer's stream in the shape's chunks and
 * then reports would-block, peer close or a hard error.
 * Concrete per shape (README rule 1): KSI_TLV_MAX_SIZE (buffer = 2 x that), inLen, form and declared length of
 * every element of the stream, number and size of the chunks, the terminating outcome, poll's revents, the
 * number of responses already queued.  Symbolic: every tag / payload byte, the unused part of inBuf, errno
 * values, the options.  One cbmc run covers the SHAPES list of its instance (a symbolic selector picks the shape;
 * each shape is executed with constants and ends in its own witness point, so an infeasible shape is reported).
 *
 * Oracle (reference splitter over the stream, written from the TLV format; uses the bytes the model actually
 * handed out): let T = inLen + bytes delivered, E_1..E_n the complete elements tiling stream[0..T) from 0.
 *   - respQueue = what was queued before, then exactly E_1..E_n, in order, byte-identical (never a partial one);
 *   - would-block: KSI_OK, the remainder stream[end(E_n)..T) is at inBuf[0..inLen) (so I holds again), the
 *     connection stays open, recv is not called again in this call;
 *   - peer close / hard error: KSI_ASYNC_CONNECTION_CLOSED, socket closed exactly once and marked invalid,
 *     inLen = 0 (the partial element is dropped, not delivered);
 *   - every recv() is offered a region that lies inside inBuf and starts at the current fill level; inLen never
 *     exceeds sizeof(inBuf).
 * Precondition that replaces a theorem of the shipped configuration: every element of the stream declares at most
 * KSI_TLV_MAX_SIZE bytes (with the shipped 0xffff+4 this holds for every byte string - harness h0_const). */
#include "c14_async.h"

/* S(id, L0, NEL, (b0,dlen, b0,dlen, ...), NST, (kind,n, kind,n, ...), REVENTS, Q0) */
#ifndef SHAPES
#define SHAPES S(0, 1, 2, (0x02,3, 0x81,2), 3, (SK_DATA,4, SK_DATA,6, SK_WOULDBLOCK,0), (POLLIN|POLLOUT), 0) \
               S(1, 0, 1, (0x02,3), 2, (SK_DATA,4, SK_EOF,0), POLLIN, 1)
#define NSHAPES 2
#endif
#define UNPACK(...) __VA_ARGS__
#define S(id, l0, nel, el, nst, st, rev, q0) static const unsigned el_##id[] = {0, 0, UNPACK el}; static const int st_##id[] = {0, 0, UNPACK st};
SHAPES
#undef S
#define MAXREF 24

static void scenario(const unsigned L0, const unsigned nel, const unsigned *el, const unsigned nst, const int *st, const int revents, const unsigned Q0) {
	VERIF_ctx_init(); KSI_CTX *ctx = VERIF_ctx;
	VERIF_sk_reset();
	TcpAsyncCtx *t = c14_ctx_connected(ctx);
	int res;
	el += 2; st += 2;

	/* ---- the peer's stream ---- */
	u8 *s = VERIF_sk_stream;
	size_t p = 0;
	for (unsigned e = 0; e < nel; e++) {
		unsigned b0 = el[2 * e], dlen = el[2 * e + 1];
		unsigned is16 = (b0 & 0x80) != 0, hdr = is16 ? 4 : 2;
		CHECK(hdr + dlen <= KSI_TLV_MAX_SIZE, "C14.H1 shape: element sizes within the instantiated maximum");
		CHECK(p + hdr + dlen <= SK_STREAM_MAX, "C14.H1 shape: stream fits the model");
		s[p] = (u8)b0;
		if (is16) { s[p + 1] = C14_BYTE(tag_lo); s[p + 2] = (u8)(dlen >> 8); s[p + 3] = (u8)(dlen & 0xff); }
		else s[p + 1] = (u8)dlen;
		for (unsigned i = 0; i < dlen; i++) s[p + hdr + i] = C14_BYTE(payload);
		p += hdr + dlen;
	}
	size_t stream_total = p;
	CHECK(L0 <= stream_total, "C14.H1 shape: initial fill inside the stream");
	CHECK(c14_ref_elem(s, 0, L0) == 0, "C14.H1 shape: pre-state satisfies the invariant, no complete element buffered");

	/* ---- pre-state: first L0 stream bytes already buffered, Q0 responses already queued ---- */
	for (unsigned i = 0; i < L0; i++) t->inBuf[i] = s[i];
	t->inLen = L0;
	VERIF_sk_stream_len = stream_total;
	VERIF_sk_rx_pos = L0;
	u8 oldresp[2] = { C14_BYTE(oldresp), C14_BYTE(oldresp) };
	if (Q0 > 0) {
		KSI_OctetString *o = NULL;
		res = KSI_OctetString_new(ctx, oldresp, 2, &o); ASSUME(res == KSI_OK);
		res = KSI_OctetStringList_append(t->respQueue, o); ASSUME(res == KSI_OK);
	}
	for (unsigned i = 0; i < nst; i++) { VERIF_sk_rx[i].kind = st[2 * i]; VERIF_sk_rx[i].n = st[2 * i + 1]; }
	VERIF_sk_rx_steps = nst;
	VERIF_sk_poll_ret = 1;
	VERIF_sk_poll_revents = (short)revents;
	for (unsigned i = 0; i < __NOF_KSI_ASYNC_OPT; i++) c14_parent.options[i] = ND(size_t, option);
	c14_parent.options[KSI_ASYNC_OPT_CONNECTION_STATE_CALLBACK] = 0;

	res = dispatch(t);

	/* ---- reference ---- */
	size_t T = VERIF_sk_rx_pos;              /* stream bytes that reached the client, including the L0 buffered ones */
	size_t start[MAXREF], size[MAXREF]; unsigned n = 0; size_t end = 0;
	for (unsigned k = 0; k < MAXREF; k++) {
		size_t sz = c14_ref_elem(s, end, T);
		if (sz == 0) break;
		start[n] = end; size[n] = sz; n++; end += sz;
	}
	CHECK(c14_ref_elem(s, end, T) == 0, "C14.H1 shape: reference table large enough");
	unsigned calls = VERIF_sk_rx_calls;
	int closed = 0;       /* a consumed step reported peer close or a hard error */
	for (unsigned i = 0; i < nst; i++)
		if (i < calls && st[2 * i] != SK_DATA && st[2 * i] != SK_WOULDBLOCK) closed = 1;

	CHECK(VERIF_sk_misuse == 0, "C14.H1 no call on a closed or foreign descriptor");
	CHECK(VERIF_sk_rx_overrun == 0, "C14.H1 recv is not called again after would-block / close / error in the same call");
	CHECK(t->inLen <= sizeof(t->inBuf), "C14.H1 fill level never exceeds the buffer");
	if (!(revents & POLLIN)) CHECK(calls == 0, "C14.H1 nothing is read unless poll reports input");
	/* every offered region lies inside inBuf and starts at the fill level the reference predicts */
	{
		size_t got = L0, cons = 0; int inside = 1, atfill = 1;
		for (unsigned k = 0; k < nst; k++) {
			if (k < calls) {
				u8 *b = (u8 *)VERIF_sk_rx_req_buf[k]; size_t l = VERIF_sk_rx_req_len[k];
				/* elements complete in stream[0..got) have been removed before this call */
				for (unsigned j = 0; j < MAXREF; j++) { size_t sz = c14_ref_elem(s, cons, got); if (sz == 0) break; cons += sz; }
				if (!(b >= t->inBuf && l >= 1 && l <= sizeof(t->inBuf) && (size_t)(b - t->inBuf) <= sizeof(t->inBuf) - l)) inside = 0;
				if (b != t->inBuf + (got - cons)) atfill = 0;
				if (st[2 * k] == SK_DATA) got += (size_t)st[2 * k + 1] < l ? (size_t)st[2 * k + 1] : l;
			}
		}
		CHECK(inside, "C14.H1 every recv is offered a region inside inBuf");
		CHECK(atfill, "C14.H1 every recv writes at the current fill level");
	}
	/* queue = old entries, then exactly the complete elements in order */
	CHECK(KSI_OctetStringList_length(t->respQueue) == Q0 + n, "C14.H1 exactly the complete elements of the stream are queued");
	if (Q0 > 0) {
		KSI_OctetString *o = NULL; const unsigned char *d = NULL; size_t dl = 0;
		int r1 = KSI_OctetStringList_elementAt(t->respQueue, 0, &o);
		CHECK(r1 == KSI_OK && o != NULL && KSI_OctetString_extract(o, &d, &dl) == KSI_OK && dl == 2 && d[0] == oldresp[0] && d[1] == oldresp[1], "C14.H1 responses queued earlier stay first and unchanged");
	}
	for (unsigned j = 0; j < MAXREF; j++) {
		if (j < n) {
			KSI_OctetString *o = NULL; const unsigned char *d = NULL; size_t dl = 0;
			int r2 = KSI_OctetStringList_elementAt(t->respQueue, Q0 + j, &o);
			int ok = (r2 == KSI_OK && o != NULL && KSI_OctetString_extract(o, &d, &dl) == KSI_OK && d != NULL && dl == size[j]);
			for (unsigned i = 0; i < KSI_TLV_MAX_SIZE; i++) if (ok && i < size[j] && d[i] != s[start[j] + i]) ok = 0;
			CHECK(ok, "C14.H1 queued response is byte-identical to the element of the stream, in stream order");
		}
	}
	if (!closed) {
		CHECK(res == KSI_OK, "C14.H1 partial data and would-block fail nothing");
		CHECK(t->inLen == T - end, "C14.H1 the incomplete remainder stays buffered, nothing lost or duplicated");
		int same = (t->inLen == T - end);
		for (unsigned i = 0; i < sizeof(t->inBuf); i++) if (same && i < T - end && t->inBuf[i] != s[end + i]) same = 0;
		CHECK(same, "C14.H1 the remainder sits at the start of inBuf, invariant re-established");
		CHECK(VERIF_sk_open && t->sockfd == VERIF_sk_fd && t->socketReady && VERIF_sk_closes == 0, "C14.H1 the connection stays open");
	} else {
		CHECK(res == KSI_ASYNC_CONNECTION_CLOSED, "C14.H1 peer close / reset is reported as CONNECTION_CLOSED");
		CHECK(!VERIF_sk_open && VERIF_sk_closes == 1 && t->sockfd == KSI_INVALID_SOCKET && !t->socketReady, "C14.H1 the socket is closed once and marked invalid");
		CHECK(t->inLen == 0, "C14.H1 the partial element is dropped on close");
	}
}

void harness(void) {
	unsigned sel = ND(unsigned, shape_sel);
	ASSUME(sel < NSHAPES);
	switch (sel) {
#define S(id, l0, nel, el, nst, st, rev, q0) case id: scenario(l0, nel, el_##id, nst, st_##id, rev, q0); WITNESS_POINT("shape " #id " ran to its end"); break;
	SHAPES
#undef S
	default: break;
	}
}
