/* C19 H-6: tree builder under allocation failure: KSI_TreeBuilder_new, three KSI_TreeBuilder_addDataHash
 * (level 0: the third leaf carries into slot 1... the second joins), KSI_TreeBuilder_close,
 * KSI_TreeLeafHandle_getAggregationChain, then everything the caller owns is released
 * (handles, chain, builder).  Leaf digests symbolic. */
#include "c19.h"
#include "tree_builder.h"
#include "hashchain.h"
#include "hash_model.h"
#include "verif_post.h"
static int run(KSI_CTX *ctx, KSI_DataHash **h, KSI_TreeBuilder **b, KSI_TreeLeafHandle **lh, KSI_AggregationHashChain **chain) {
	int res;
	res = KSI_TreeBuilder_new(ctx, KSI_HASHALG_SHA1, b); if (res != KSI_OK) return res;
	for (int i = 0; i < 3; i++) { res = KSI_TreeBuilder_addDataHash(*b, h[i], 0, &lh[i]); if (res != KSI_OK) return res; }
	res = KSI_TreeBuilder_close(*b); if (res != KSI_OK) return res;
	res = KSI_TreeLeafHandle_getAggregationChain(lh[0], chain);
	return res;
}
static void release(KSI_TreeBuilder *b, KSI_TreeLeafHandle **lh, KSI_AggregationHashChain *chain) {
	KSI_AggregationHashChain_free(chain);
	for (int i = 0; i < 3; i++) KSI_TreeLeafHandle_free(lh[i]);
	KSI_TreeBuilder_free(b);
}
void harness(void) {
	VERIF_ctx_init(); VERIF_hm_init(1); KSI_CTX *ctx = VERIF_ctx;
	KSI_DataHash *h[3]; u8 d[3][20];
	for (int i = 0; i < 3; i++) { for (int k = 0; k < 20; k++) d[i][k] = ND(u8, d); int r = KSI_DataHash_fromDigest(ctx, KSI_HASHALG_SHA1, d[i], 20, &h[i]); ASSUME(r == KSI_OK); }
	KSI_TreeBuilder *b = NULL; KSI_TreeLeafHandle *lh[3] = {NULL, NULL, NULL}; KSI_AggregationHashChain *chain = NULL;
	C19_ARM();
	int res = run(ctx, h, &b, lh, &chain);
	C19_DISARM();
	C19_OUTCOME(res, chain != NULL);
	release(b, lh, chain);
	b = NULL; lh[0] = lh[1] = lh[2] = NULL; chain = NULL;
	res = run(ctx, h, &b, lh, &chain);
	CHECK(res == KSI_OK && chain != NULL, "C19.H6 the operation repeated without fault succeeds");
	release(b, lh, chain);
	for (int i = 0; i < 3; i++) KSI_DataHash_free(h[i]);
	WITNESS_POINT("tree scenario finished");
#if FAULT_AT >= 1 && FAULT_AT <= 5
	if (VERIF_fault_hit) WITNESS_POINT("fault was injected");
#endif
}
