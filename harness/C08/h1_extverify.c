/* C08 H-1: KSI_ExtendResp_verifyWithRequest (types.c, real) against the predicate of the property:
 *   an extender reply is accepted for a request only if
 *     the request is present, the status is zero (a status element that is absent counts as zero throughout libksi:
 *     KSI_convertExtenderStatusCode(NULL) == KSI_OK), the 64-bit request ids are present and equal, the calendar chain
 *     is present, its publication time equals the requested publication time when one was requested, its aggregation
 *     time equals the requested aggregation time, and the aggregation time derived from the SHAPE of the chain
 *     (KSI_CalendarHashChain_calculateAggregationTime) exists and equals that aggregation time.
 *   soundness   (succeeds only if):  KSI_OK  =>  all of the above;
 *   completeness (clear case):       status element present and 0 and all of the above  =>  KSI_OK;
 *   a non-zero status is reported as the corresponding KSI_SERVICE_* error.
 * SHAPE_STUB=1: the shape computation is a stub with a symbolic status and a symbolic 64-bit result (its correctness is
 *   C03 H-4's subject); SHAPE_STUB=0: the real hashchain.c on a chain of NLINKS links with symbolic directions, compared
 *   with a constructive reference (walk from the root: left child = complete subtree of highbit(r) leaves).
 * Shape (concrete per instance): which objects / optional fields exist (bit mask PRES), NLINKS.  Symbolic: status,
 * both ids, all times, link directions. */
#include "verif.h"
#include "internal.h"
#include "impl/hash_impl.h"
#include "impl/hashchain_impl.h"
#include "ctx.h"
#include "tlv.h"
#include "hmac.h"
#include "tlv_template.h"
#include "hashchain.h"
#include "pkitruststore.h"
#include "net.h"
#include "net_async.h"
#include "net_ha.h"
#include "tlv_element.h"
#include "impl/ctx_impl.h"
#include "impl/meta_data_impl.h"
#include "impl/meta_data_element_impl.h"
#include "verif_post.h"
#include "types_base.c"

#ifndef SHAPE_STUB
#define SHAPE_STUB 1
#endif
#ifndef NLINKS
#define NLINKS 0
#endif
/* presence mask */
#define P_REQ 1
#define P_STATUS 2
#define P_RESPID 4
#define P_REQID 8
#define P_CHAIN 16
#define P_CHAIN_PT 32
#define P_CHAIN_AT 64
#define P_REQ_PT 128
#define P_REQ_AT 256
#ifndef PRES
#define PRES 511
#endif
#define HAS(b) ((PRES & (b)) != 0)

#if SHAPE_STUB
static int shape_calls, shape_status; static long long shape_time; static const KSI_CalendarHashChain *shape_arg;
static int c08_calcAggrTime(const KSI_CalendarHashChain *chain, time_t *aggrTime) {
	shape_calls++; shape_arg = chain;
	shape_status = ND(int, shape_status);
	shape_time = ND(long, shape_time);
	if (shape_status != KSI_OK) return shape_status;
	*aggrTime = (time_t)shape_time;
	return KSI_OK;
}
#define KSI_CalendarHashChain_calculateAggregationTime c08_calcAggrTime
#endif
#include "types.c"
#if SHAPE_STUB
#undef KSI_CalendarHashChain_calculateAggregationTime
#endif

static KSI_Integer *mk_int(u64 v) { KSI_Integer *i = malloc(sizeof(*i)); ASSUME(i != NULL); i->ref = 1; i->value = v; return i; }

static int expected_error(u64 st) {
	switch (st) {
	case 0x0101: return KSI_SERVICE_INVALID_REQUEST;
	case 0x0102: return KSI_SERVICE_AUTHENTICATION_FAILURE;
	case 0x0103: return KSI_SERVICE_INVALID_PAYLOAD;
	case 0x0104: return KSI_SERVICE_EXTENDER_INVALID_TIME_RANGE;
	case 0x0105: return KSI_SERVICE_EXTENDER_REQUEST_TIME_TOO_OLD;
	case 0x0106: return KSI_SERVICE_EXTENDER_REQUEST_TIME_TOO_NEW;
	case 0x0107: return KSI_SERVICE_EXTENDER_REQUEST_TIME_IN_FUTURE;
	case 0x0200: return KSI_SERVICE_INTERNAL_ERROR;
	case 0x0201: return KSI_SERVICE_EXTENDER_DATABASE_MISSING;
	case 0x0202: return KSI_SERVICE_EXTENDER_DATABASE_CORRUPT;
	case 0x0300: return KSI_SERVICE_UPSTREAM_ERROR;
	case 0x0301: return KSI_SERVICE_UPSTREAM_TIMEOUT;
	default: return KSI_SERVICE_UNKNOWN_ERROR;
	}
}
#if !SHAPE_STUB
static u64 hb(u64 p) { u64 r = 0; for (int b = 63; b >= 0; b--) if (r == 0 && ((p >> b) & 1)) r = 1ULL << b; return r; }
/* registration time of the leaf reached from the root of the calendar tree over 0..p by the given directions (last link = root) */
static int ref_shape(u64 p, const int *left, unsigned n, u64 *t_out) {
	u64 r = p, t = 0;
	if (n == 0 || p > 0x7fffffffffffffffULL) return 0;
	for (unsigned k = 0; k < NLINKS; k++) {
		unsigned i = n - 1 - k;
		if (r == 0) return 0;
		u64 h = hb(r);
		if (left[i]) r = h - 1; else { t += h; r -= h; }
	}
	if (r != 0) return 0;
	*t_out = t; return 1;
}
#endif

void harness(void) {
	VERIF_ctx_init(); KSI_CTX *ctx = VERIF_ctx;
	int res;
	KSI_ExtendResp *resp = NULL; KSI_ExtendReq *req = NULL; KSI_CalendarHashChain *cal = NULL;
	res = KSI_ExtendResp_new(ctx, &resp); ASSUME(res == KSI_OK);
	res = KSI_ExtendReq_new(ctx, &req); ASSUME(res == KSI_OK);
	u64 status = ND(u64, status), rid = ND(u64, resp_id), qid = ND(u64, req_id);
	u64 c_pt = ND(u64, chain_pub_time), c_at = ND(u64, chain_aggr_time), q_pt = ND(u64, req_pub_time), q_at = ND(u64, req_aggr_time);
	if (HAS(P_STATUS)) resp->status = mk_int(status);
	if (HAS(P_RESPID)) resp->requestId = mk_int(rid);
	if (HAS(P_REQID)) req->requestId = mk_int(qid);
	if (HAS(P_REQ_PT)) req->publicationTime = mk_int(q_pt);
	if (HAS(P_REQ_AT)) req->aggregationTime = mk_int(q_at);
	int left[NLINKS > 0 ? NLINKS : 1];
	if (HAS(P_CHAIN)) {
		res = KSI_CalendarHashChain_new(ctx, &cal); ASSUME(res == KSI_OK);
		if (HAS(P_CHAIN_PT)) cal->publicationTime = mk_int(c_pt);
		if (HAS(P_CHAIN_AT)) cal->aggregationTime = mk_int(c_at);
#if !SHAPE_STUB
		res = KSI_HashChainLinkList_new(&cal->hashChain); ASSUME(res == KSI_OK);
		for (unsigned i = 0; i < NLINKS; i++) {
			KSI_HashChainLink *link = NULL;
			res = KSI_HashChainLink_new(ctx, &link); ASSUME(res == KSI_OK);
			left[i] = ND_BOOL(is_left); link->isLeft = left[i];
			res = KSI_HashChainLinkList_append(cal->hashChain, link); ASSUME(res == KSI_OK);
		}
#endif
		resp->calendarHashChain = cal;
	}
	(void)left;

	res = KSI_ExtendResp_verifyWithRequest(resp, HAS(P_REQ) ? req : NULL);

	/* ---- predicate ---- */
	int status_zero = !HAS(P_STATUS) || status == 0;
	int ids_ok = HAS(P_RESPID) && HAS(P_REQID) && rid == qid;
	int pt_ok = !HAS(P_REQ_PT) || (HAS(P_CHAIN_PT) && c_pt == q_pt);
	int at_ok = HAS(P_CHAIN_AT) && HAS(P_REQ_AT) && c_at == q_at;
	int shape_ok;
#if SHAPE_STUB
	shape_ok = shape_calls == 1 && shape_arg == cal && shape_status == KSI_OK && (u64)shape_time == c_at;
#else
	{ u64 t = 0; shape_ok = HAS(P_CHAIN_PT) && ref_shape(c_pt, left, NLINKS, &t) && t == c_at; }
#endif
	int all = HAS(P_REQ) && status_zero && ids_ok && HAS(P_CHAIN) && pt_ok && at_ok && shape_ok;

	CHECK(res != KSI_OK || all, "C08.H1 accepted only if request present, status zero, ids equal, requested times equal and shape-derived time equal");
	if (HAS(P_STATUS) && status == 0 && all) CHECK(res == KSI_OK, "C08.H1 a matching reply with status 0 is accepted");
	if (HAS(P_REQ) && HAS(P_STATUS) && status != 0) CHECK(res == expected_error(status), "C08.H1 a non-zero status is reported as the corresponding KSI_SERVICE_* error");
	if (HAS(P_REQ) && status_zero && HAS(P_STATUS) && !ids_ok) CHECK(res == KSI_REQUEST_ID_MISMATCH, "C08.H1 a foreign request id is reported as KSI_REQUEST_ID_MISMATCH");

#if PRES == 511
	if (res == KSI_OK && c_pt > c_at) WITNESS_POINT("matching reply accepted");
	if (res != KSI_OK && status == 0 && rid == qid && c_pt == q_pt && c_at != q_at) WITNESS_POINT("other aggregation time refused");
	if (res != KSI_OK && status == 0 && rid == qid && c_pt != q_pt && c_at == q_at) WITNESS_POINT("other publication time refused");
#if SHAPE_STUB
	if (res != KSI_OK && status == 0 && rid == qid && c_pt == q_pt && c_at == q_at && shape_status == KSI_OK) WITNESS_POINT("shape inconsistent with aggregation time refused");
#endif
	if (res == KSI_SERVICE_EXTENDER_REQUEST_TIME_TOO_OLD) WITNESS_POINT("extender status 0x105 reported");
#else
	if (res != KSI_OK) WITNESS_POINT("incomplete reply or request refused");
#if (PRES & P_REQ_PT) == 0 && (PRES | P_REQ_PT) == 511
	if (res == KSI_OK) WITNESS_POINT("reply accepted for a request without publication time (calendar head)");
#endif
#endif
}
