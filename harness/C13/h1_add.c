/* C13 H-1: one submission (KSI_AsyncService_addRequest -> asyncClient_add{Aggregator,Extender}Request ->
 * addRequest -> asyncClient_calculateRequestId) from an ARBITRARY invariant-satisfying client state.
 *
 * Contract (from the API documentation of KSI_AsyncService_addRequest / KSI_ASYNC_OPT_REQUEST_CACHE_SIZE
 * and the property text):
 *  - a submission is refused with KSI_ASYNC_REQUEST_CACHE_FULL when the number of outstanding handles
 *    (pending + received) equals the configured cache size, and with that code only when the handles it
 *    would add (one per request part, one per configuration part) do not fit (or the single configuration
 *    place is taken);
 *  - refused (any reason: cache full, credentials, PDU enclosing/serialisation, transport refusal):
 *    nothing is retained - cache, counters and the caller's reference are as before;
 *  - accepted: the handle goes into a slot that was free, its id is generation << 32 | slot with the
 *    client's generation counter, which advanced exactly when the allocation cursor wrapped; the request
 *    carries that id; the transport got exactly this handle once; pending grows by the number of handles
 *    now owed to the caller; every handle cached before is still cached, untouched;
 *  - Inv(c) holds afterwards.
 * REQ_KIND: 1 request only, 2 configuration request only, 3 request + configuration (two handles owed).
 * CONF_KIND: pre-state of serverConf (0 none, 1 pending user request, 2 received config, -1 symbolic). */
#define HN "C13.H1"
#include "verif.h"
#include "internal.h"
#include "ctx.h"
#include "verif_post.h"
#include "c13_model.h"
#include "net_async.c"
#include "c13_state.h"

#ifndef REQ_KIND
#define REQ_KIND 1
#endif
#define HAS_REQ ((REQ_KIND) & 1)
#define HAS_CNF (((REQ_KIND) & 2) != 0)

void harness(void) {
	VERIF_ctx_init();
	KSI_CTX *ctx = VERIF_ctx;
	struct c13_snap pre;
	int res;
	KSI_AsyncClient *c = c13_mk_client(ctx, &pre);
	const size_t endpointId = c->options[KSI_ASYNC_PRIVOPT_ENDPOINT_ID];

	/* the caller's handle: fresh, or one that was returned in ERROR state earlier and is re-submitted
	 * (documented use of KSI_ASYNC_STATE_ERROR handles): stale id, error fields and request id */
	KSI_AsyncHandle *h = NULL;
	res = KSI_AbstractAsyncHandle_new(ctx, &h); ASSUME(res == KSI_OK && h != NULL);
	_Bool resubmitted = ND_BOOL(resubmitted);
	KSI_uint64_t staleId = ND(u64, stale_id);
	c13_attach_request(ctx, h, staleId, HAS_REQ, HAS_CNF);
	if (resubmitted) {
		h->id = staleId; h->state = KSI_ASYNC_STATE_ERROR; h->err = ND(int, stale_err); h->errExt = ND(long, stale_err_ext);
		if (ND_BOOL(stale_errmsg)) { res = KSI_Utf8String_new(ctx, c13_user, 2, &h->errMsg); ASSUME(res == KSI_OK); }
	} else {
#if HAS_REQ
		/* fresh handle: no request id assigned yet */
#if EXT_FLAVOUR
		KSI_Integer_free(h->extReq->requestId); h->extReq->requestId = NULL;
#else
		KSI_Integer_free(h->aggrReq->requestId); h->aggrReq->requestId = NULL;
#endif
#endif
	}

#if EXT_FLAVOUR
	res = asyncClient_addExtenderRequest(c, h);
#else
	res = asyncClient_addAggregatorRequest(c, h);
#endif

	/* every cached handle counts, whether it is a request or a configuration */
	const size_t outstanding = pre.pending + pre.received;
	const int wasFull = (outstanding >= CACHE_S - 1);
	const int confOccupied = (pre.conf.h != NULL);

	if (wasFull) CHECK(res == KSI_ASYNC_REQUEST_CACHE_FULL, HN " submission refused with CACHE_FULL when outstanding handles = configured cache size");
	if (res == KSI_ASYNC_REQUEST_CACHE_FULL)
		CHECK(outstanding + HAS_REQ + HAS_CNF > CACHE_S - 1 || (HAS_CNF && confOccupied), HN " CACHE_FULL only when the handles owed would not fit the configured cache size");

	if (res != KSI_OK) {
		CHECK(c13_slots_unchanged(c, &pre, 0) && c13_conf_unchanged(c, &pre), HN " refused submission leaves every cached handle untouched");
		CHECK(c->pending == pre.pending && c->received == pre.received, HN " refused submission leaves the counters untouched");
		CHECK(h->ref == 1, HN " refused submission keeps no reference to the caller's handle");
#if HAS_REQ
		if (res == KSI_ASYNC_REQUEST_CACHE_FULL && wasFull) WITNESS_POINT("refused: cache full");
#endif
#if !(REQ_KIND == 3 && CACHE_S == 2)   /* request+configuration never fits a cache of one */
		if (c13_tr.add_calls == 1 && c13_tr.add_accepted == 0) WITNESS_POINT("refused by the transport after an id was allocated");
#endif
	} else {
		/* previously cached handles */
		CHECK(pre.conf.h == NULL || c->serverConf == pre.conf.h, HN " a cached configuration handle is not dropped by a further submission");
		if (pre.conf.h != NULL && c->serverConf == pre.conf.h)
			CHECK(c13_conf_unchanged(c, &pre), HN " cached configuration handle untouched by a further submission");
		CHECK(c13_tr.add_calls == 1 && c13_tr.add_accepted == 1 && c13_tr.last_added == h, HN " accepted handle handed to the transport exactly once");
		CHECK(h->state == KSI_ASYNC_STATE_WAITING_FOR_DISPATCH && h->ref == 2, HN " accepted handle is WAITING_FOR_DISPATCH, referenced by cache and transport");
		CHECK(h->parentId == endpointId, HN " accepted handle records the endpoint id");
		CHECK(h->errMsg == NULL && h->respCtx == NULL && h->raw != NULL && h->sentCount == 0, HN " accepted handle carries the serialized request and no stale result");
#if HAS_REQ
		size_t k = (size_t)(h->id & KSI_ASYNC_REQUEST_ID_MASK);
		CHECK(k >= 1 && k < CACHE_S, HN " id names a cache slot");
		if (k >= 1 && k < CACHE_S) {
			CHECK(pre.slot[k].h == NULL, HN " slot taken was free");
			CHECK(c->reqCache[k] == h, HN " accepted handle cached in the slot named by its id");
			CHECK(c13_slots_unchanged(c, &pre, k), HN " other cached handles untouched");
			CHECK((h->id >> KSI_ASYNC_REQUEST_ID_OFFSET) == c->requestCountOffset, HN " id generation = client's generation counter");
			CHECK(c->requestCount == k, HN " allocation cursor at the slot taken");
			CHECK(c->requestCountOffset == ((k <= pre.requestCount) ? (pre.offset + 1) % KSI_ASYNC_REQUEST_ID_OFFSET_MAX : pre.offset), HN " generation advances exactly when the cursor wraps");
		}
		{
			KSI_Integer *rid = NULL;
#if EXT_FLAVOUR
			KSI_ExtendReq_getRequestId(h->extReq, &rid);
#else
			KSI_AggregationReq_getRequestId(h->aggrReq, &rid);
#endif
			CHECK(rid != NULL && KSI_Integer_getUInt64(rid) == h->id, HN " request carries the allocated id");
		}
		CHECK(!wasFull, HN " no request accepted beyond the configured cache size");
#else
		CHECK(c13_slots_unchanged(c, &pre, 0), HN " configuration request occupies no cache slot");
		CHECK(h->id == 0, HN " configuration request has no request id");
#endif
#if HAS_CNF
		if (pre.conf.h == NULL) {
			CHECK(c->serverConf != NULL, HN " configuration request cached");
#if HAS_REQ
			CHECK(c->serverConf != h && c->serverConf->state == KSI_ASYNC_STATE_WAITING_FOR_DISPATCH && c13_request_of(c->serverConf) != NULL && c->serverConf->ref == 1,
					HN " request+configuration: a second handle is owed for the configuration");
#else
			CHECK(c->serverConf == h, HN " configuration-only request cached as serverConf");
#endif
		}
#endif
		CHECK(c->pending == pre.pending + HAS_REQ + HAS_CNF && c->received == pre.received, HN " pending grows by the number of handles owed");
		/* witness points are restricted to situations in which acceptance is undisputed (room for every
		 * handle owed, configuration place free) so that they do not depend on how F9/F14 are repaired */
#if HAS_REQ && CACHE_S > 2 + HAS_CNF
		if (pre.nocc > 0 && pre.conf.h == NULL && (h->id & KSI_ASYNC_REQUEST_ID_MASK) <= pre.requestCount) WITNESS_POINT("accepted next to cached handles after a cursor wrap");
#endif
#if CACHE_S > 1 + HAS_REQ * HAS_CNF
		if (outstanding + HAS_REQ + HAS_CNF == CACHE_S - 1 && pre.conf.h == NULL) WITNESS_POINT("accepted into the last free place");
#endif
#if CONF_KIND != 0 && REQ_KIND == 1 && CACHE_S > 2
		if (resubmitted && pre.conf.h != NULL) WITNESS_POINT("re-submitted request accepted while a configuration handle is cached");
#endif
	}
	c13_check_inv(c);
}
