#!/usr/bin/env python3
"""Generates plan.json for C02 (python3 harness/C02/gen_plan.py)."""
import json, os, re
HERE = os.path.dirname(os.path.abspath(__file__))
ENV = ["ctx", "hash_model", "list_wrap", "fmt_stub"]

def doc(label, rfc, d, sa, da, lcn):
    defs = ["SB_HAS_RFC=%d" % rfc, "SB_HAS_DOC=%d" % d, "SB_DOCALG=%d" % da]
    defs += ["SB_RFC_INALG=%d" % sa] if rfc else ["SB_INALG={%d,-20,-20}" % sa]
    if lcn: defs += ["SB_LCNULL={{1,0,0},{0,0,0},{0,0,0}}", "FIRST_LC_NULL=1"]
    if sa != da: defs.append("DOC_SAME_LEN=0")
    return {"label": label, "defines": defs}
doc_q = [doc("norfc_nodoc", 0, 0, -20, -20, 0), doc("norfc_doc20_20", 0, 1, -20, -20, 0), doc("norfc_doc32_32_lcnull", 0, 1, -32, -32, 1), doc("norfc_doc20_32", 0, 1, -20, -32, 0),
         doc("rfc_doc20_20", 1, 1, -20, -20, 0), doc("rfc_doc32_20", 1, 1, -32, -20, 0), doc("rfc_nodoc", 1, 0, -20, -20, 0), doc("norfc_doc64_48", 0, 1, -64, -48, 0)]
doc_t = doc_q + [doc("norfc_doc48_48", 0, 1, -48, -48, 0), doc("norfc_doc64_64", 0, 1, -64, -64, 0), doc("rfc_doc28_32", 1, 1, -28, -32, 0), doc("rfc_doc32_32", 1, 1, -32, -32, 0)]

plan = {
 "property": "C02",
 "outside": "bytes -> typed signature and hash objects (C10); the verdict of the non-document rules (C01, C04); the digest function itself (hash model); callers that pass their own KSI_VerificationContext to KSI_Signature_verifyWithPolicy (the context is then used as given)",
 "assumptions": [
  "typed objects satisfy the constructors' postconditions: every KSI_DataHash has an algorithm id libksi accepts and imprint_length = 1 + that algorithm's digest length (hash.c KSI_DataHash_fromDigest)",
  "equal imprints have equal algorithm ids (the id is the first imprint byte) - used only to relate the two facts of the fact-vector harness"
 ],
 "manifest": {
  "claimed": True,
  "technique": "bounded model checking (CBMC) of the real policy.c tables and engine over symbolic rule outcomes, the real document / level rules on typed objects, and the real wrapper functions over a stubbed verifier",
  "level_text": "(1) h5_policies: for each of the six verifying predefined policies (internal, calendar-based, key-based, publications-file-based, user-publication-based, general) the REAL rule tables and Rule_verify are executed with the document-hash rules and the level rule answering from four symbolic facts and EVERY other leaf rule returning an arbitrary (status, OK/NA/FAIL, code): the policy reports OK only if the document hash equals the signed one (or none is given) and the level fits; another algorithm gives exactly (KSI_OK, FAIL, GEN-04), another digest (KSI_OK, FAIL, GEN-01), a larger level (KSI_OK, FAIL, GEN-03), a level above 255 KSI_INVALID_VERIFICATION_INPUT; the document rules are the first rules consulted and nothing else is consulted after a mismatch. (2) h1_doc: the five real rules on typed signatures (with / without RFC3161 record, first link with / without level correction) return exactly the reference verdicts for all document hashes of the enumerated length classes (20/28/32/48/64-byte digests, equal or other class, every algorithm id libksi accepts, all digest bytes symbolic - this includes every single-bit difference) and all 64-bit levels and level corrections; signed hash = RFC3161 input hash if present. (3) h6_wiring / h6_document: KSI_Signature_verifyDocument hashes exactly the document bytes with the algorithm of the signed hash and passes that imprint on; KSI_Signature_verifyWithPolicy and KSI_verifyDataHash hand policy, signature, document hash and level to KSI_SignatureVerifier_verify unchanged (with a caller-supplied verification context: no document hash or level supplied through the arguments or the context is dropped, contradicting hashes are refused), refuse levels above 255 themselves, and return KSI_OK exactly for (KSI_OK, verdict OK).",
  "level_note": "Decomposition: (1) assumes that the five document / level rules behave as their stubs, which is what (2) establishes on typed objects; composition by hand. Rule_verify's bookkeeping list is off in (1) (its result is ignored by Rule_verify). (3) stubs the verifier, KSI_PolicyVerificationResult_free and KSI_VerificationContext_init (body copied from policy.c) and runs the real base.c error stack with a ring of one entry; KSI_Signature_verifyDocument is covered by h6_document with the count-only error model of env/ctx.c. Hash objects of a length that matches no algorithm cannot be constructed through the API and are outside the claim. See MUTATIONS.md."
 },
 "harnesses": [
  {"name": "h1_doc", "src": "h1_doc.c", "env": ENV, "tus": ["verification_rule", "signature", "hashchain", "hash"], "unwind": 6, "timeout": 300, "object_bits": 12,
   "functions": ["KSI_VerificationRule_DocumentHashDoesNotExist", "KSI_VerificationRule_DocumentHashExistence", "KSI_VerificationRule_InputHashAlgorithmVerification", "KSI_VerificationRule_DocumentHashVerification",
                 "KSI_VerificationRule_AggregationChainInputLevelVerification", "KSI_Signature_getDocumentHash", "KSI_RFC3161_getInputHash", "KSI_DataHash_equals", "KSI_DataHash_getHashAlg"],
   "bound": "shapes: RFC3161 record present / absent x document hash given / not x digest-length class of signed and document hash (quick: 20/20, 32/32, 20/32, 32/20, 64/48; thorough also 48/48, 64/64, 28/32, 32/32 with RFC3161) x first link with / without level correction; symbolic: algorithm ids in the class, all digest bytes, level and level correction (64 bit)",
   "instances": doc_q, "thorough": {"instances": doc_t}},
  {"name": "h5_policies", "src": "h5_policies.c", "env": ["ctx", "list_wrap"], "tus": [], "unwind": 14, "unwindset": ["Rule_verify.0:14"], "timeout": 300, "object_bits": 12,
   "functions": ["Rule_verify", "Policy_verifySignature", "internalRules", "calendarBasedRules", "keyBasedRules", "publicationsFileBasedRules", "userProvidedPublicationBasedRules", "generalRules"],
   "bound": "per policy: all combinations of the four document / level facts x arbitrary outcomes of all 63 other leaf rules",
   "instances": [{"label": l, "defines": ["POLICY=%d" % i]} for i, l in enumerate(["internal", "calendar", "key", "pubfile", "userpub", "general"])]},
  {"name": "h6_wiring", "src": "h6_wiring.c", "env": [], "tus": ["signature_helper", "base", "compatibility", "hash"], "unwind": 4, "unwindset": ["strncpy.0:1030"], "timeout": 300,
   "functions": ["KSI_Signature_verifyWithPolicy", "KSI_verifyDataHash", "KSI_DataHash_equals", "KSI_ERR_push", "KSI_ERR_clearErrors"],
   "bound": "all document hashes (present / absent), all 64-bit levels, all verifier outcomes (any status, OK/NA/FAIL); with a caller context: document hash present/absent in argument and context (equal or different values), all 64-bit levels in both",
   "instances": [{"label": "verifyWithPolicy", "defines": ["ENTRY=0"]}, {"label": "verifyDataHash", "defines": ["ENTRY=1"]}, {"label": "verifyWithPolicy_ctx", "defines": ["ENTRY=2"]}]},
  {"name": "h6_document", "src": "h6_document.c", "env": ENV, "global_defines": ["HM_LOG_MAX=72", "HM_REC_MAX=2"], "tus": ["signature_helper", "signature", "hashchain", "hash"], "unwind": 6, "timeout": 300, "object_bits": 12,
   "functions": ["KSI_Signature_verifyDocument", "KSI_Signature_getHashAlgorithm", "KSI_Signature_getDocumentHash", "KSI_DataHash_create", "KSI_Signature_verifyWithPolicy"],
   "bound": "documents of 0, 3 and 8 bytes (all bytes symbolic); signed hash SHA2-256 / SHA-1 / SHA2-512 taken from the first chain or from the RFC3161 record; all verifier outcomes",
   "instances": [{"label": "chain_sha256_len3", "defines": ["SB_INALG={1,-20,-20}", "SIGNED_ALG=1", "DOC_LEN=3"]},
                 {"label": "rfc_sha1_len8", "defines": ["SB_HAS_RFC=1", "SB_RFC_INALG=0", "SB_INALG={1,-20,-20}", "SIGNED_ALG=0", "DOC_LEN=8"]},
                 {"label": "chain_sha512_len0", "defines": ["SB_INALG={5,-20,-20}", "SIGNED_ALG=5", "DOC_LEN=0"]}]},
 ]
}
json.dump(plan, open(os.path.join(HERE, "plan.json"), "w"), indent=1)
print("wrote plan.json")
