/* c20_cuts.h - the two cuts with proof obligations shared by the C20 dispatch harnesses (h3_service, h4_async).
 * Include AFTER "net.c" (text inclusion: the static uriSplit / getClientByUriScheme must be nameable) and after
 * "c20_uri.h".  Needs C20_CLASS (oracle's class of the instance's scheme: 1 ksi|ksi+http, 2 ksi+https, 3 ksi+tcp,
 * 4 file, 0 other) and optionally C20_SPLIT_INSITU.
 * A client / service object's helper pointers uriSplit and getClientByUriScheme - which the harness first CHECKs to
 * be net.c's functions - are redirected to cut_uriSplit / cut_getClientByUriScheme.  A wrapper runs the REAL
 * function on the real arguments, CHECKs that its results are exactly the expected ones and then returns the
 * expected values in a form whose shape is concrete for CBMC (fresh strings of constant length / a constant
 * transport code).  Because of the CHECK the substituted values equal what the real function returned, so the code
 * after the call is analysed on the same values.  getClientByUriScheme is always checked in situ; for uriSplit (the
 * expensive part: the URL parser) the in-situ run is done in the instances built with C20_SPLIT_INSITU=1, the other
 * instances rely on harness h1_split proving the same statement for the same shape (same generator, same defines;
 * harness/C20/mkplan.py derives both instance lists from one shape list). */
#ifndef VERIF_C20_CUTS_H_
#define VERIF_C20_CUTS_H_
#ifndef C20_SPLIT_INSITU
#define C20_SPLIT_INSITU 0
#endif
/* ---- cut 1: uriSplit ---- */
static char *dupn(const char *s, unsigned n) {          /* fresh NUL-terminated copy of n characters */
	char *d = KSI_malloc(n + 1);
	for (unsigned i = 0; i < n; i++) d[i] = s[i];
	d[n] = 0;
	return d;
}
static unsigned cut_split_calls, cut_scheme_calls;
static int cut_uriSplit(const char *uri, char **scheme, char **user, char **pass, char **host, unsigned *port, char **path, char **query, char **fragment) {
	cut_split_calls++;
	CHECK(uri == C20.uri, C20_CUT_ID " [cut] uriSplit is applied to the URI that was given to the service setter");
#if C20_SPLIT_INSITU
	/* in-situ obligation: the real uriSplit on this very URI returns exactly the parts */
	int res = uriSplit(uri, scheme, user, pass, host, port, path, query, fragment);
	int ok = (res == KSI_OK);
	ok = ok && c20_streq(*scheme, C20.scheme, C20_SLEN);
	ok = ok && (C20_HAS_UI ? (c20_streq(*user, C20.user, C20_ULEN) && c20_streq(*pass, C20.key, C20_KLEN)) : (*user == NULL && *pass == NULL));
	ok = ok && (C20_HOSTKIND == 3 ? *host == NULL : c20_streq(*host, C20.host, C20_HOSTLEN));
	ok = ok && *port == C20.port;
	ok = ok && (C20_PLEN ? c20_streq(*path, C20.path, C20_PLEN) : *path == NULL);
	ok = ok && (C20_QLEN ? c20_streq(*query, C20.query, C20_QLEN) : *query == NULL);
	ok = ok && (C20_FLEN ? c20_streq(*fragment, C20.frag, C20_FLEN) : *fragment == NULL);
	CHECK(ok, C20_CUT_ID " [cut] uriSplit accepted the URI and returned exactly the parts it was assembled from");
	if (res == KSI_OK) {
		KSI_free(*scheme); KSI_free(*user); KSI_free(*pass); KSI_free(*host); KSI_free(*path); KSI_free(*query); KSI_free(*fragment);
	}
#else
	/* obligation discharged by harness h1_split on the instance with the SAME shape defines (mkplan.py generates
	 * both from one shape list): for every URI of this shape uriSplit returns KSI_OK and exactly these parts */
#endif
	/* the constant KSI_OK and canonical copies (equal to the real results by the obligation above; returning a
	 * symbolic status would make the whole continuation conditional on it) */
	*scheme = dupn(C20.scheme, C20_SLEN);
	*user = C20_HAS_UI ? dupn(C20.user, C20_ULEN) : NULL;
	*pass = C20_HAS_UI ? dupn(C20.key, C20_KLEN) : NULL;
	*host = (C20_HOSTKIND == 3) ? NULL : dupn(C20.host, C20_HOSTLEN);
	*port = C20.port;
	*path = C20_PLEN ? dupn(C20.path, C20_PLEN) : NULL;
	*query = C20_QLEN ? dupn(C20.query, C20_QLEN) : NULL;
	*fragment = C20_FLEN ? dupn(C20.frag, C20_FLEN) : NULL;
	return KSI_OK;
}
/* ---- cut 2: getClientByUriScheme (expected values from the oracle's own class of the instance's scheme) ---- */
static int cut_getClientByUriScheme(const char *scheme, const char **replaceScheme) {
	static const char marker[] = "untouched";
	const char *r = marker;
	cut_scheme_calls++;
	int c = getClientByUriScheme(scheme, &r);
	const int exp_c = (C20_CLASS == 1 || C20_CLASS == 2) ? URI_HTTP : (C20_CLASS == 3) ? URI_TCP : (C20_CLASS == 4) ? URI_FILE : URI_UNKNOWN;
	int ok = (c == exp_c);
	if (C20_CLASS == 1) ok = ok && c20_streq(r, "http", 4);
	else if (C20_CLASS == 2) ok = ok && c20_streq(r, "https", 5);
	else if (C20_CLASS == 0) ok = ok && (r == marker);
	else ok = ok && (r == NULL);
	CHECK(ok, C20_CUT_ID " [cut] getClientByUriScheme maps the scheme (any letter case) to the expected transport and replacement scheme");
	if (C20_CLASS == 1) *replaceScheme = "http";
	else if (C20_CLASS == 2) *replaceScheme = "https";
	else if (C20_CLASS != 0) *replaceScheme = NULL;
	return exp_c;
}

#endif
