/* C20 H-3: KSI_UriClient_setAggregator / KSI_UriClient_setExtender (net_uri.c uriClient_setService) on a
 * well-formed service URI (generator common/c20_uri.h; concrete shape per instance, symbolic characters).
 * Real code: net_uri.c, net.c (uriSplit, uriCompose, getClientByUriScheme, abstract client), http_parser.c,
 * compatibility.c (KSI_snprintf, KSI_strcasecmp), net_file.c (the complete file client incl.
 * KSI_FsClient_extractPath).  Recording stubs (this file): KSI_HttpClient_new / KSI_TcpClient_new and the
 * HTTP / TCP service setters - they are the transport boundary at which the claim is observed.
 *
 * Two CUTS WITH PROOF OBLIGATIONS keep the query tractable (without them the transport choice is a symbolic
 * value for CBMC, all four branches of the dispatch are encoded and the 64 KiB URL buffer is written at symbolic
 * offsets: out of memory).  The client object's helper pointers uriSplit / getClientByUriScheme - first CHECKed
 * to be net.c's functions - are redirected to the wrappers below.  A wrapper runs the REAL function on the real
 * arguments, CHECKs that its results are exactly the expected ones and then returns the expected values in a
 * form whose shape is concrete for CBMC (fresh strings of constant length / a constant transport code).  Because
 * of the CHECK the substituted values equal what the real function returned, so the code after the call is
 * analysed on the same values.  getClientByUriScheme is always checked in situ; for uriSplit (the expensive
 * part: the URL parser) the in-situ run is done in the instances built with C20_SPLIT_INSITU=1, the other
 * instances rely on h1_split proving the same statement for the same shape (same generator, same defines).
 *
 * Expected, from the property text (SCHEME_CLASS is derived from the instance's scheme by the oracle's own
 * table below, not by the code's):
 *   ksi, ksi+http -> HTTP setter, URL = "http"  "://" host [":" port] [path] ["?" query] ["#" fragment]
 *   ksi+https     -> HTTP setter, URL = "https" "://" ...                (never any user-info in the URL;
 *                    host of an IPv6 literal keeps its brackets - it is a URL)
 *   ksi+tcp       -> TCP setter, host = the address (IPv6: without brackets), port = the number
 *   file          -> file client, path = the text after "file://", credentials = the explicit arguments
 *   other         -> HTTP setter, URL = the URI unchanged, credentials = the explicit arguments
 *   login id / key handed on = the explicit argument if given, else the one embedded in the URI, else none
 *   exactly the chosen service (aggregator or extender) is re-pointed to the chosen transport client. */
#include "verif.h"
#include "internal.h"
#include "net_uri.h"
#include "net_http.h"
#include "net_tcp.h"
#include "net_file.h"
#include "impl/net_impl.h"
#include "impl/net_uri_impl.h"
#include "impl/net_file_impl.h"
#include "ctx.h"
#include "verif_post.h"
#include "net.c"             /* included (not linked) so that the static uriSplit / uriCompose / getClientByUriScheme are nameable */
#include "c20_uri.h"

#ifndef C20_EXPL_ID
#define C20_EXPL_ID 0        /* length of the explicit login id argument, 0 = NULL */
#endif
#ifndef C20_EXPL_KEY
#define C20_EXPL_KEY 0       /* length of the explicit key argument, 0 = NULL */
#endif
#ifndef C20_EXTENDER
#define C20_EXTENDER 0       /* 0: setAggregator, 1: setExtender */
#endif
#ifndef C20_SPLIT_INSITU
#define C20_SPLIT_INSITU 0   /* 1: run the real uriSplit inside this harness as well (see cut_uriSplit) */
#endif
/* oracle's scheme classes: 1 http, 2 https, 3 tcp, 4 file, 0 other */
#ifndef C20_CLASS
#error "instance must define C20_CLASS (1 ksi|ksi+http, 2 ksi+https, 3 ksi+tcp, 4 file, 0 other)"
#endif

#define REC_MAX 64
void C20_fmt_text(const char *p, char *out, unsigned max);   /* env/c20_vsnprintf.c: text at a pointer handed over by the code under test */
static struct {
	unsigned calls;             /* setter calls in total */
	int which;                  /* 1 http aggregator, 2 http extender, 3 tcp aggregator, 4 tcp extender */
	KSI_NetworkClient *client;
	char str[REC_MAX];          /* url or host */
	unsigned port;
	int user_null, pass_null;
	char user[8], pass[8];
} rec;
static struct KSI_NetworkClient_st http_obj, tcp_obj;
static unsigned http_new_calls, tcp_new_calls;

static void rec_str(char *dst, unsigned max, const char *src) { C20_fmt_text(src, dst, max); }
static int rec_call(int which, KSI_NetworkClient *c, const char *s, unsigned port, const char *user, const char *pass) {
	rec.calls++; rec.which = which; rec.client = c; rec.port = port;
	rec_str(rec.str, REC_MAX, s);
	rec.user_null = (user == NULL); rec.pass_null = (pass == NULL);
	if (user != NULL) rec_str(rec.user, sizeof(rec.user), user);
	if (pass != NULL) rec_str(rec.pass, sizeof(rec.pass), pass);
	return KSI_OK;
}
int KSI_HttpClient_new(KSI_CTX *ctx, KSI_NetworkClient **c) { (void)ctx; http_new_calls++; *c = &http_obj; return KSI_OK; }
int KSI_TcpClient_new(KSI_CTX *ctx, KSI_NetworkClient **c) { (void)ctx; tcp_new_calls++; *c = &tcp_obj; return KSI_OK; }
int KSI_HttpClient_setAggregator(KSI_NetworkClient *c, const char *url, const char *user, const char *pass) { return rec_call(1, c, url, 0, user, pass); }
int KSI_HttpClient_setExtender(KSI_NetworkClient *c, const char *url, const char *user, const char *pass) { return rec_call(2, c, url, 0, user, pass); }
int KSI_TcpClient_setAggregator(KSI_NetworkClient *c, const char *host, unsigned port, const char *user, const char *pass) { return rec_call(3, c, host, port, user, pass); }
int KSI_TcpClient_setExtender(KSI_NetworkClient *c, const char *host, unsigned port, const char *user, const char *pass) { return rec_call(4, c, host, port, user, pass); }
int KSI_HttpClient_setPublicationUrl(KSI_NetworkClient *c, const char *url) { (void)c; (void)url; return KSI_OK; }
int KSI_HttpClient_setConnectTimeoutSeconds(KSI_NetworkClient *c, int v) { (void)c; (void)v; return KSI_OK; }
int KSI_HttpClient_setReadTimeoutSeconds(KSI_NetworkClient *c, int v) { (void)c; (void)v; return KSI_OK; }
int KSI_TcpClient_setTransferTimeoutSeconds(KSI_NetworkClient *c, int v) { (void)c; (void)v; return KSI_OK; }


#define C20_CUT_ID "C20.H3"
#include "c20_cuts.h"

void harness(void) {
	VERIF_ctx_init(); KSI_CTX *ctx = VERIF_ctx;
	c20_build();
	char eid[C20_EXPL_ID + 1], ekey[C20_EXPL_KEY + 1];
	for (unsigned i = 0; i < C20_EXPL_ID; i++) { eid[i] = (char)ND(u8, explicit_id); ASSUME(eid[i] != 0); }
	for (unsigned i = 0; i < C20_EXPL_KEY; i++) { ekey[i] = (char)ND(u8, explicit_key); ASSUME(ekey[i] != 0); }
	eid[C20_EXPL_ID] = 0; ekey[C20_EXPL_KEY] = 0;
	const char *loginId = C20_EXPL_ID ? eid : NULL, *key = C20_EXPL_KEY ? ekey : NULL;

	KSI_NetworkClient *client = NULL;
	int res = KSI_UriClient_new(ctx, &client);
	ASSUME(res == KSI_OK);
	KSI_UriClient *uc = client->impl;
	CHECK(client->uriSplit == uriSplit && client->uriCompose == uriCompose && client->getClientByUriScheme == getClientByUriScheme,
		"C20.H3 the URI client uses net.c's uriSplit / uriCompose / getClientByUriScheme");
	client->uriSplit = cut_uriSplit; client->getClientByUriScheme = cut_getClientByUriScheme;
	KSI_NetworkClient *aggr0 = uc->pAggregationClient, *ext0 = uc->pExtendClient;

	/* reference composition (class 1, 2): what the HTTP transport must be given */
	char url[REC_MAX]; unsigned ul = 0;
#if C20_CLASS == 1 || C20_CLASS == 2
	{
		const char *sch = (C20_CLASS == 1) ? "http" : "https";
		for (unsigned i = 0; i < (C20_CLASS == 1 ? 4u : 5u); i++) url[ul++] = sch[i];
		url[ul++] = ':'; url[ul++] = '/'; url[ul++] = '/';
		for (unsigned i = 0; i < C20_HOSTLIT_LEN; i++) url[ul++] = C20.hostlit[i];
#if C20_PDIG > 0
		url[ul++] = ':';
		for (unsigned i = 0; i < C20_PDIG; i++) url[ul++] = C20.portstr[i];
#endif
#if C20_PLEN > 0
		for (unsigned i = 0; i < C20_PLEN; i++) url[ul++] = C20.path[i];
#endif
#if C20_QLEN > 0
		url[ul++] = '?';
		for (unsigned i = 0; i < C20_QLEN; i++) url[ul++] = C20.query[i];
#endif
#if C20_FLEN > 0
		url[ul++] = '#';
		for (unsigned i = 0; i < C20_FLEN; i++) url[ul++] = C20.frag[i];
#endif
		url[ul] = 0;
	}
#endif

#if C20_EXTENDER
	res = KSI_UriClient_setExtender(client, C20.uri, loginId, key);
#else
	res = KSI_UriClient_setAggregator(client, C20.uri, loginId, key);
#endif
	CHECK(res == KSI_OK, "C20.H3 a well-formed service URI is accepted");
	CHECK(cut_split_calls == 1 && cut_scheme_calls == 1, "C20.H3 the URI is split and its scheme classified exactly once");
	if (res != KSI_OK) return;

	/* credentials: explicit argument first, else embedded (KSI schemes only), else none */
	const char *exp_user = C20_EXPL_ID ? eid : ((C20_HAS_UI && C20_CLASS >= 1 && C20_CLASS <= 3) ? C20.user : NULL);
	const char *exp_pass = C20_EXPL_KEY ? ekey : ((C20_HAS_UI && C20_CLASS >= 1 && C20_CLASS <= 3) ? C20.key : NULL);
	unsigned exp_user_len = C20_EXPL_ID ? C20_EXPL_ID : C20_ULEN, exp_pass_len = C20_EXPL_KEY ? C20_EXPL_KEY : C20_KLEN;

#if C20_CLASS != 4
	CHECK(rec.calls == 1, "C20.H3 exactly one transport setter is called");
	CHECK(rec.which == (C20_CLASS == 3 ? 3 : 1) + C20_EXTENDER, "C20.H3 the setter of the transport selected by the scheme and of the requested service is called");
	CHECK(rec.client == (C20_CLASS == 3 ? &tcp_obj : &http_obj), "C20.H3 the setter receives the client of the selected transport");
	CHECK((exp_user == NULL) ? rec.user_null : (!rec.user_null && c20_streq(rec.user, exp_user, exp_user_len)), "C20.H3 login id is the explicit argument if given, else the embedded user");
	CHECK((exp_pass == NULL) ? rec.pass_null : (!rec.pass_null && c20_streq(rec.pass, exp_pass, exp_pass_len)), "C20.H3 key is the explicit argument if given, else the embedded key");
#endif
#if C20_CLASS == 1 || C20_CLASS == 2
	CHECK(c20_streq(rec.str, url, ul), "C20.H3 URL handed to HTTP is scheme' :// host [:port] path [?query] [#fragment] without user-info");
	WITNESS_POINT("http transport configured");
#elif C20_CLASS == 3
	CHECK(c20_streq(rec.str, C20.host, C20_HOSTLEN), "C20.H3 TCP transport receives exactly the host");
	CHECK(rec.port == C20.port, "C20.H3 TCP transport receives exactly the port");
	CHECK(tcp_new_calls == 1, "C20.H3 TCP client created on first use");
	WITNESS_POINT("tcp transport configured");
#elif C20_CLASS == 0
	CHECK(c20_streq(rec.str, C20.uri, C20_URILEN), "C20.H3 unknown scheme: the URI is handed to HTTP unchanged");
	WITNESS_POINT("unknown scheme handed to http");
#else
	{
		CHECK(rec.calls == 0 && uc->fsClient != NULL, "C20.H3 file scheme: no HTTP/TCP setter is called, the file client exists");
		KSI_NetEndpoint *ep = C20_EXTENDER ? uc->fsClient->extender : uc->fsClient->aggregator;
		struct FsClient_Endpoint_st *fe = ep->implCtx;
		CHECK(c20_streq(fe->path, C20.path, C20_PLEN), "C20.H3 file transport receives the text after file://");
		WITNESS_POINT("file transport configured");
	}
#endif
	{
		KSI_NetworkClient *chosen = (C20_CLASS == 3) ? &tcp_obj : (C20_CLASS == 4) ? uc->fsClient : &http_obj;
#if C20_EXTENDER
		CHECK(uc->pExtendClient == chosen && uc->pAggregationClient == aggr0, "C20.H3 exactly the extender service is re-pointed to the chosen transport");
#else
		CHECK(uc->pAggregationClient == chosen && uc->pExtendClient == ext0, "C20.H3 exactly the aggregator service is re-pointed to the chosen transport");
#endif
	}
}
