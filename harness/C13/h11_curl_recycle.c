/* C13 H-11: the request recycler of the HTTP (libcurl) async transport - the only part of net_http_curl_async.c
 * that is covered.  CurlAsyncRequest_new on an object taken from client->reqRecycle must hand out a request that is
 * as good as a freshly allocated one, in particular with an EMPTY receive buffer: bytes left over from a failed
 * transfer (HTTP error status with a body, aborted transfer - dispatch() does not call processResponse for those) must
 * not be prepended to the next response that reuses the object.
 * Inductive style: a request with ARBITRARY receive-buffer fill level and content, error text and (shape) with or
 * without a request handle attached is released through the REAL release path (CurlAsyncRequest_free with the last
 * reference -> appended to client->reqRecycle), then the REAL constructor is called; then one chunk is delivered
 * through the REAL curlCallback_receive and the buffer must hold exactly that chunk.
 * Stubs (trusted base): curl_easy_init / curl_easy_reset / curl_easy_cleanup (opaque easy handle; nothing else of
 * libcurl is reachable).  The buffer capacity is concrete (CAP), the fill level is any value 0..CAP. */
#define HN "C13.H11"
#include "verif.h"
#include "internal.h"
#include "ctx.h"
#include "verif_post.h"
#include "c13_model.h"
#include "net_async.c"
#include "net_http_curl_async.c"

#ifndef CAP
#define CAP 8
#endif
#ifndef CHUNK
#define CHUNK 3
#endif
#ifndef OLD_HAS_HANDLE
#define OLD_HAS_HANDLE 1
#endif

KSI_IMPLEMENT_LIST(KSI_AsyncHandle, KSI_AsyncHandle_free)      /* types.c:201 */

static int easy_obj; static unsigned easy_resets, easy_inits, easy_cleanups;
CURL *curl_easy_init(void) { easy_inits++; return (CURL *)&easy_obj; }
void curl_easy_reset(CURL *h) { (void)h; easy_resets++; }
void curl_easy_cleanup(CURL *h) { (void)h; easy_cleanups++; }

void harness(void) {
	VERIF_ctx_init();
	KSI_CTX *ctx = VERIF_ctx;
	int res;

	/* the transport context as HttpAsyncCtx_new leaves it, as far as the recycler reads it */
	HttpAsyncCtx *client = (HttpAsyncCtx *)malloc(sizeof(HttpAsyncCtx)); ASSUME(client != NULL);
	memset(client, 0, sizeof(*client));
	client->ctx = ctx;
	res = CurlAsyncRequestList_new(&client->reqRecycle); ASSUME(res == KSI_OK && client->reqRecycle != NULL);

	/* a request at the end of its life, in an arbitrary state */
	CurlAsyncRequest *old = NULL;
	res = CurlAsyncRequest_new(client, &old); ASSUME(res == KSI_OK && old != NULL);
	CHECK(old->len == 0 && old->cap == 0 && old->raw == NULL && old->ref == 1 && easy_inits == 1, HN " freshly allocated request: empty buffer, one reference, own easy handle");
	unsigned char *buf = (unsigned char *)KSI_calloc(CAP, 1); ASSUME(buf != NULL);
	for (unsigned i = 0; i < CAP; i++) buf[i] = ND(u8, stale_byte);
	old->raw = buf; old->cap = CAP;
	old->len = ND(size_t, stale_len); ASSUME(old->len <= CAP);
	old->errMsg[0] = (char)ND(u8, stale_errmsg0); old->errMsg[1] = 0;
	KSI_AsyncHandle *oldHandle = NULL;
#if OLD_HAS_HANDLE
	res = KSI_AbstractAsyncHandle_new(ctx, &oldHandle); ASSUME(res == KSI_OK);
	KSI_AsyncHandle_ref(oldHandle);          /* observer */
	old->reqCtx = oldHandle;
#endif
	const size_t staleLen = old->len;
	CurlAsyncRequest_free(old);              /* REAL release path: last reference -> client->reqRecycle */
	CHECK(CurlAsyncRequestList_length(client->reqRecycle) == 1 && easy_cleanups == 0, HN " released request goes to the recycle list, easy handle kept");

	/* construction from the recycle list */
	CurlAsyncRequest *r = NULL;
	res = CurlAsyncRequest_new(client, &r);
	CHECK(res == KSI_OK && r == old && CurlAsyncRequestList_length(client->reqRecycle) == 0, HN " the recycled request is the one handed out");
	CHECK(r->len == 0, HN " the receive buffer of a recycled request is empty");
	CHECK(r->ref == 1 && r->client == client && r->reqCtx == NULL && r->errMsg[0] == 0, HN " recycled request: one reference, client set, no request handle, no error text");
	CHECK(r->raw == buf && r->cap == CAP, HN " recycled request keeps its buffer and capacity");
	CHECK(easy_resets == 1 && easy_inits == 1 && r->easyHandle == (CURL *)&easy_obj, HN " recycled request: easy handle reset and re-used");
#if OLD_HAS_HANDLE
	CHECK(oldHandle->ref == 1, HN " recycled request let go of the previous request handle");
#endif

	/* the next response: one chunk through the real write callback */
	char chunk[CHUNK];
	for (unsigned i = 0; i < CHUNK; i++) chunk[i] = (char)ND(u8, chunk_byte);
	size_t taken = curlCallback_receive(chunk, 1, CHUNK, r);
	CHECK(taken == CHUNK, HN " write callback takes the whole chunk");
	int same = (r->len == CHUNK);
	for (unsigned i = 0; i < CHUNK; i++) if (r->len >= CHUNK && r->raw[i] != (unsigned char)chunk[i]) same = 0;
	CHECK(same, HN " after the first chunk the receive buffer holds exactly that chunk (nothing of an earlier transfer)");
	if (staleLen == CAP) WITNESS_POINT("request released with a full buffer re-used with an empty one");
	if (staleLen == 0) WITNESS_POINT("request released with an empty buffer re-used");
}
