/* c20_uri.h - service-URI generator for the C20 harnesses.
 *
 * A URI  scheme "://" [user ":" key "@"] host [":" port] ["/" path] ["?" query] ["#" fragment]  is assembled
 * from parts.  SHAPE (which parts exist and how long each one is) is a compile-time constant of the instance,
 * so every offset in the string is concrete; every CHARACTER is symbolic, constrained only to the character
 * class RFC 3986 allows at that place (plus a lone '%', which libksi treats as an ordinary character):
 *   unreserved = ALPHA DIGIT - . _ ~        sub-delims = ! $ & ' ( ) * + , ; =
 *   user       = unreserved / sub-delims / %            (no ':' - the first ':' separates user and key)
 *   key        = user / ':'
 *   host name  = ALPHA DIGIT - .                        (DNS host name characters)
 *   IPv4       = d.d.d.d with symbolic decimal digits;  IPv6 literal = '[' "::" *(HEXDIG / ':' / '.') ']'
 *   port       = decimal rendering, without leading zeros, of a symbolic value with C20_PDIG digits in 1..65535
 *   path       = 1*( '/' / pchar )  starting with '/',  pchar = unreserved / sub-delims / ':' / '@' / '%'
 *   query, fragment = 1*( pchar / '/' / '?' )           (a '?' or '#' followed by nothing is NOT generated)
 *   scheme     = the instance's scheme string with a symbolic upper/lower-case choice per letter
 * Shape macros: C20_SCHEME (string literal), C20_HAS_UI, C20_ULEN, C20_KLEN, C20_HOSTKIND (0 name, 1 IPv4,
 * 2 IPv6 literal, 3 empty authority as in file:///path - then no user-info and no port), C20_HLEN (characters of the name / inside the brackets), C20_PDIG (0 = no port),
 * C20_PLEN (0 = no path, n = '/' plus n-1 characters), C20_QLEN, C20_FLEN (0 = absent); optional C20_PORTVAL =
 * concrete port value instead of a symbolic one.
 * The parts are kept in C20 (NUL-terminated) so that oracles never re-parse the string. */
#ifndef VERIF_C20_URI_H_
#define VERIF_C20_URI_H_

#ifndef C20_SCHEME
#define C20_SCHEME "ksi+http"
#endif
#ifndef C20_HAS_UI
#define C20_HAS_UI 1
#endif
#ifndef C20_ULEN
#define C20_ULEN 1
#endif
#ifndef C20_KLEN
#define C20_KLEN 1
#endif
#ifndef C20_HOSTKIND
#define C20_HOSTKIND 0
#endif
#ifndef C20_HLEN
#define C20_HLEN 2
#endif
#ifndef C20_PDIG
#define C20_PDIG 2
#endif
#ifndef C20_PLEN
#define C20_PLEN 2
#endif
#ifndef C20_QLEN
#define C20_QLEN 1
#endif
#ifndef C20_FLEN
#define C20_FLEN 1
#endif

#if C20_HOSTKIND == 2 && C20_HLEN < 3
#error "IPv6 literal needs at least 3 characters"
#endif
#if C20_HOSTKIND == 3 && (C20_HAS_UI || C20_PDIG > 0 || C20_PLEN == 0)
#error "empty authority needs a path and excludes user-info and port"
#endif
#define C20_SLEN (sizeof(C20_SCHEME) - 1)
#if C20_HOSTKIND == 1
#define C20_HOSTLEN 7                       /* d.d.d.d */
#define C20_HOSTLIT_LEN 7
#elif C20_HOSTKIND == 2
#define C20_HOSTLEN C20_HLEN
#define C20_HOSTLIT_LEN (C20_HLEN + 2)
#elif C20_HOSTKIND == 3                     /* empty authority, as in file:///path */
#define C20_HOSTLEN 0
#define C20_HOSTLIT_LEN 0
#else
#define C20_HOSTLEN C20_HLEN
#define C20_HOSTLIT_LEN C20_HLEN
#endif
#define C20_UILEN (C20_HAS_UI ? (C20_ULEN + 1 + C20_KLEN + 1) : 0)
#define C20_URILEN (C20_SLEN + 3 + C20_UILEN + C20_HOSTLIT_LEN + (C20_PDIG ? 1 + C20_PDIG : 0) + C20_PLEN \
	+ (C20_QLEN ? 1 + C20_QLEN : 0) + (C20_FLEN ? 1 + C20_FLEN : 0))

static struct {
	char scheme[C20_SLEN + 1];              /* as written (with the chosen letter case) */
	char user[C20_ULEN + 1], key[C20_KLEN + 1];
	char host[C20_HOSTLEN + 1];             /* the address: for an IPv6 literal WITHOUT the brackets */
	char hostlit[C20_HOSTLIT_LEN + 1];      /* as written in the URI (IPv6: with brackets) */
	unsigned port;                          /* 0 = absent */
	char portstr[C20_PDIG + 1];
	char path[C20_PLEN + 1], query[C20_QLEN + 1], frag[C20_FLEN + 1];
	char uri[C20_URILEN + 1];
} C20;

static int c20_alpha(char c) { return (c >= 'a' && c <= 'z') || (c >= 'A' && c <= 'Z'); }
static int c20_digit(char c) { return c >= '0' && c <= '9'; }
static int c20_unreserved(char c) { return c20_alpha(c) || c20_digit(c) || c == '-' || c == '.' || c == '_' || c == '~'; }
static int c20_subdelim(char c) { return c == '!' || c == '$' || c == '&' || c == '\'' || c == '(' || c == ')' || c == '*' || c == '+' || c == ',' || c == ';' || c == '='; }
static int c20_userchar(char c) { return c20_unreserved(c) || c20_subdelim(c) || c == '%'; }
static int c20_keychar(char c) { return c20_userchar(c) || c == ':'; }
static int c20_hostchar(char c) { return c20_alpha(c) || c20_digit(c) || c == '-' || c == '.'; }
static int c20_v6char(char c) { return c20_digit(c) || (c >= 'a' && c <= 'f') || (c >= 'A' && c <= 'F') || c == ':' || c == '.'; }
static int c20_pchar(char c) { return c20_unreserved(c) || c20_subdelim(c) || c == ':' || c == '@' || c == '%'; }
static int c20_pathchar(char c) { return c20_pchar(c) || c == '/'; }
static int c20_qfchar(char c) { return c20_pchar(c) || c == '/' || c == '?'; }

/* expected string == NUL-terminated string got (never reads past got's terminator) */
static int c20_streq(const char *got, const char *exp, unsigned explen) {
	int ok = (got != NULL);
	for (unsigned i = 0; i <= explen; i++) if (ok && got[i] != exp[i]) ok = 0;
	return ok;
}

static unsigned c20_pos;
static void c20_put(char c) { C20.uri[c20_pos++] = c; }

static void c20_build(void) {
	static const char sch[] = C20_SCHEME;
	unsigned i;
	c20_pos = 0;
	for (i = 0; i < C20_SLEN; i++) {
		char c = sch[i];
		if (c20_alpha(c) && ND_BOOL(scheme_upper)) c = (char)(c ^ 0x20);
		C20.scheme[i] = c; c20_put(c);
	}
	C20.scheme[C20_SLEN] = 0;
	c20_put(':'); c20_put('/'); c20_put('/');
#if C20_HAS_UI
	for (i = 0; i < C20_ULEN; i++) { char c = (char)ND(u8, user_char); ASSUME(c20_userchar(c)); C20.user[i] = c; c20_put(c); }
	c20_put(':');
	for (i = 0; i < C20_KLEN; i++) { char c = (char)ND(u8, key_char); ASSUME(c20_keychar(c)); C20.key[i] = c; c20_put(c); }
	c20_put('@');
#endif
	C20.user[C20_ULEN] = 0; C20.key[C20_KLEN] = 0;
#if C20_HOSTKIND == 0
	for (i = 0; i < C20_HLEN; i++) { char c = (char)ND(u8, host_char); ASSUME(c20_hostchar(c)); C20.host[i] = c; C20.hostlit[i] = c; c20_put(c); }
#elif C20_HOSTKIND == 1
	for (i = 0; i < 7; i++) {
		char c = '.';
		if ((i & 1) == 0) { c = (char)ND(u8, host_char); ASSUME(c20_digit(c)); }
		C20.host[i] = c; C20.hostlit[i] = c; c20_put(c);
	}
#elif C20_HOSTKIND == 2
	C20.hostlit[0] = '['; c20_put('[');
	for (i = 0; i < C20_HLEN; i++) {
		char c = ':';                              /* the literal starts with "::" (as in ::1, ::ffff:1.2.3.4), the rest is symbolic */
		if (i >= 2) { c = (char)ND(u8, host_char); ASSUME(c20_v6char(c)); }
		C20.host[i] = c; C20.hostlit[1 + i] = c; c20_put(c);
	}
	C20.hostlit[1 + C20_HLEN] = ']'; c20_put(']');
#endif
	C20.host[C20_HOSTLEN] = 0; C20.hostlit[C20_HOSTLIT_LEN] = 0;
	C20.port = 0;
#if C20_PDIG > 0
	{
		static const unsigned p10[6] = {1, 10, 100, 1000, 10000, 100000};
#ifdef C20_PORTVAL   /* concrete port of the instance (harnesses in which a symbolic "port != 0" would make buffer offsets symbolic) */
		unsigned p = C20_PORTVAL;
		if (!(p >= p10[C20_PDIG - 1] && p < p10[C20_PDIG] && p <= 65535)) __CPROVER_assert(0, "instance error: C20_PORTVAL does not have C20_PDIG digits");
#else
		unsigned p = ND(unsigned, port);
		ASSUME(p >= p10[C20_PDIG - 1] && p < p10[C20_PDIG] && p <= 65535);
#endif
		C20.port = p;
		c20_put(':');
		for (i = 0; i < C20_PDIG; i++) { char c = (char)('0' + (p / p10[C20_PDIG - 1 - i]) % 10); C20.portstr[i] = c; c20_put(c); }
	}
#endif
	C20.portstr[C20_PDIG] = 0;
#if C20_PLEN > 0
	C20.path[0] = '/'; c20_put('/');
	for (i = 1; i < C20_PLEN; i++) { char c = (char)ND(u8, path_char); ASSUME(c20_pathchar(c)); C20.path[i] = c; c20_put(c); }
#endif
	C20.path[C20_PLEN] = 0;
#if C20_QLEN > 0
	c20_put('?');
	for (i = 0; i < C20_QLEN; i++) { char c = (char)ND(u8, query_char); ASSUME(c20_qfchar(c)); C20.query[i] = c; c20_put(c); }
#endif
	C20.query[C20_QLEN] = 0;
#if C20_FLEN > 0
	c20_put('#');
	for (i = 0; i < C20_FLEN; i++) { char c = (char)ND(u8, frag_char); ASSUME(c20_qfchar(c)); C20.frag[i] = c; c20_put(c); }
#endif
	C20.frag[C20_FLEN] = 0;
	C20.uri[C20_URILEN] = 0;
}
#endif
