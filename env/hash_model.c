/* Hash model replacing hash_openssl.c (DESIGN 3.3).  The real hash.c front end
 * (KSI_DataHasher_add/close/reset, KSI_DataHash_*) runs unmodified on top of it.
 *  - every hasher logs the exact byte stream it is fed (bounded by HM_LOG_MAX; overflow
 *    raises VERIF_hm_overflow, which harnesses assert to be 0)
 *  - on close the computation (algorithm, message, digest) is appended to VERIF_hm_rec[]
 *  - digest bytes are fresh symbolic values (variant U); with VERIF_hm_memo != 0 (variant M)
 *    an identical earlier (algorithm, message) returns the identical digest and a different
 *    one returns a different digest (collision-freeness is ASSUMED, stated in evidence). */
#include "internal.h"
#include "impl/hash_impl.h"
#include "verif.h"
#include "hash_model.h"

struct hm_rec VERIF_hm_rec[HM_REC_MAX];
unsigned VERIF_hm_nrec;
int VERIF_hm_overflow;
int VERIF_hm_memo;

struct hm_state { u8 log[HM_LOG_MAX]; size_t len; };

static const struct { int id; unsigned len; } hm_algs[] = {
	{KSI_HASHALG_SHA1, 20}, {KSI_HASHALG_SHA2_256, 32}, {KSI_HASHALG_RIPEMD160, 20},
	{KSI_HASHALG_SHA2_384, 48}, {KSI_HASHALG_SHA2_512, 64}
};

int KSI_isHashAlgorithmSupported(KSI_HashAlgorithm algo_id) {
	return algo_id == KSI_HASHALG_SHA1 || algo_id == KSI_HASHALG_SHA2_256 || algo_id == KSI_HASHALG_RIPEMD160
		|| algo_id == KSI_HASHALG_SHA2_384 || algo_id == KSI_HASHALG_SHA2_512;
}

static int hm_closeExisting(KSI_DataHasher *hasher, KSI_DataHash *data_hash) {
	struct hm_state *st;
	size_t hash_length, i;
	unsigned k;
	int found = -1;
	if (hasher == NULL || data_hash == NULL) return KSI_INVALID_ARGUMENT;
	KSI_ERR_clearErrors(hasher->ctx);
	if (!KSI_isHashAlgorithmSupported(hasher->algorithm)) return KSI_INVALID_ARGUMENT;
	hash_length = KSI_getHashLength(hasher->algorithm);
	if (hash_length == 0) return KSI_UNKNOWN_ERROR;
	st = hasher->hashContext;

	if (VERIF_hm_memo) {
		for (k = 0; k < HM_REC_MAX; k++) {
			if (k < VERIF_hm_nrec && VERIF_hm_rec[k].alg == (int)hasher->algorithm && VERIF_hm_rec[k].len == st->len
					&& memcmp(VERIF_hm_rec[k].msg, st->log, st->len) == 0) { found = (int)k; break; }
		}
	}
	if (found >= 0) {
		/* byte loop, not memcpy: 'found' is a symbolic index when message bytes are symbolic */
		for (i = 0; i < 64; i++) {
			if (i < hash_length) data_hash->imprint[1 + i] = VERIF_hm_rec[found].digest[i];
		}
	} else {
		for (i = 0; i < 64; i++) {
			u8 b = ND(u8, hm_digest);
			if (i < hash_length) data_hash->imprint[1 + i] = b;
		}
		if (VERIF_hm_memo) {
			/* collision-freeness assumption */
			for (k = 0; k < HM_REC_MAX; k++) {
				if (k < VERIF_hm_nrec && VERIF_hm_rec[k].alg == (int)hasher->algorithm)
					ASSUME(memcmp(VERIF_hm_rec[k].digest, data_hash->imprint + 1, hash_length) != 0);
			}
		}
	}
	data_hash->imprint[0] = (0xff & hasher->algorithm);
	data_hash->imprint_length = hash_length + 1;

	if (VERIF_hm_nrec < HM_REC_MAX) {
		struct hm_rec *r = &VERIF_hm_rec[VERIF_hm_nrec];
		r->alg = (int)hasher->algorithm;
		r->len = st->len;
		memcpy(r->msg, st->log, HM_LOG_MAX);
		memcpy(r->digest, data_hash->imprint + 1, 64);
		VERIF_hm_nrec++;
	} else {
		VERIF_hm_overflow = 1;
	}
	return KSI_OK;
}

static void hm_cleanup(KSI_DataHasher *hasher) {
	if (hasher != NULL) { free(hasher->hashContext); hasher->hashContext = NULL; }
}

static int hm_reset(KSI_DataHasher *hasher) {
	struct hm_state *st;
	if (hasher == NULL) return KSI_INVALID_ARGUMENT;
	KSI_ERR_clearErrors(hasher->ctx);
	if (!KSI_isHashAlgorithmSupported(hasher->algorithm)) return KSI_OUT_OF_MEMORY;
	st = hasher->hashContext;
	if (st == NULL) {
		st = malloc(sizeof(struct hm_state));
		if (st == NULL) return KSI_OUT_OF_MEMORY;
		hasher->hashContext = st;
	}
	st->len = 0;
	return KSI_OK;
}

static int hm_add(KSI_DataHasher *hasher, const void *data, size_t data_length) {
	struct hm_state *st;
	if (hasher == NULL || data == NULL) return KSI_INVALID_ARGUMENT;
	KSI_ERR_clearErrors(hasher->ctx);
	st = hasher->hashContext;
	if (data_length > 0) {
		if (data_length > HM_LOG_MAX || st->len > HM_LOG_MAX - data_length) { VERIF_hm_overflow = 1; return KSI_OK; }
		/* bounded byte loop instead of memcpy: a symbolic-length memcpy makes CBMC's encoder explode */
		for (size_t i = 0; i < HM_LOG_MAX; i++) {
			if (i < data_length) st->log[st->len + i] = ((const unsigned char *)data)[i];
		}
		st->len += data_length;
	}
	return KSI_OK;
}

int KSI_DataHasher_open(KSI_CTX *ctx, KSI_HashAlgorithm algo_id, KSI_DataHasher **hasher) {
	int res = KSI_UNKNOWN_ERROR;
	KSI_DataHasher *tmp_hasher = NULL;
	KSI_ERR_clearErrors(ctx);
	if (hasher == NULL) { res = KSI_INVALID_ARGUMENT; goto cleanup; }
	if (!KSI_isHashAlgorithmSupported(algo_id)) { res = KSI_UNAVAILABLE_HASH_ALGORITHM; goto cleanup; }
	tmp_hasher = KSI_new(KSI_DataHasher);
	if (tmp_hasher == NULL) { res = KSI_OUT_OF_MEMORY; goto cleanup; }
	tmp_hasher->hashContext = NULL;
	tmp_hasher->ctx = ctx;
	tmp_hasher->algorithm = algo_id;
	tmp_hasher->closeExisting = hm_closeExisting;
	tmp_hasher->isOpen = false;
	tmp_hasher->reset = hm_reset;
	tmp_hasher->add = hm_add;
	tmp_hasher->cleanup = hm_cleanup;
	res = KSI_DataHasher_reset(tmp_hasher);
	if (res != KSI_OK) goto cleanup;
	*hasher = tmp_hasher;
	tmp_hasher = NULL;
	res = KSI_OK;
cleanup:
	KSI_DataHasher_free(tmp_hasher);
	return res;
}

void VERIF_hm_init(int memo) { VERIF_hm_nrec = 0; VERIF_hm_overflow = 0; VERIF_hm_memo = memo; }
