/* C10 H-leaf: the leaf value parsers on symbolic payload bytes.
 * The TLV handed to a parser is produced exactly as in a real parse: KSI_TLV_parseBlob2 on an exact-size
 * heap buffer holding a TLV8 element (payload length LEN concrete per instance, payload bytes symbolic); the element's payload pointer therefore points INTO that buffer
 * (one past its end when LEN = 0), as it does for the last child of any parsed composite.
 * Oracles are written from the KSI data-format rules quoted at each case, not from the code.
 * Everything created is freed again; the plan runs these instances with --memory-leak-check. */
#include "verif.h"
#include "internal.h"
#include "tlv.h"
#include "hashchain.h"
#include "ctx.h"
#include "verif_post.h"

#ifndef LEN
#define LEN 4
#endif
#define NB (LEN > 0 ? LEN : 1)
#ifndef HDR0
#define HDR0 0x25   /* tag 0x05, forward flag */
#endif

#define LEAF_INT 1
#define LEAF_UTF8 2
#define LEAF_UTF8NZ 3
#define LEAF_IMPRINT 4
#define LEAF_DIGEST 5
#define LEAF_LEGACY 6
#define LEAF_OCTET 7
#define LEAF_UTF8NEW 8
#ifndef LEAF
#define LEAF LEAF_INT
#endif

static u8 pl[NB];          /* the payload bytes (reference copy) */

/* ---- KSI hash algorithm registry (KSI data format: hash algorithm identifiers) ----
 * id : digest length in octets; 0x03 and 0x06 are reserved/withdrawn, everything above 0x0b is unassigned */
static int ref_digest_len(unsigned id) {
	switch (id) {
		case 0x00: return 20;  /* SHA-1 */
		case 0x01: return 32;  /* SHA2-256 */
		case 0x02: return 20;  /* RIPEMD-160 */
		case 0x04: return 48;  /* SHA2-384 */
		case 0x05: return 64;  /* SHA2-512 */
		case 0x07: return 28;  /* SHA3-224 */
		case 0x08: return 32;  /* SHA3-256 */
		case 0x09: return 48;  /* SHA3-384 */
		case 0x0a: return 64;  /* SHA3-512 */
		case 0x0b: return 32;  /* SM3 */
		default: return -1;
	}
}

/* ---- UTF-8 structure (RFC 3629 octet classes), stated per position instead of as a scan ----
 * class of an octet: 0 = NUL, 1 = ASCII, 2 = continuation (80..BF), 3/4/5 = lead of a 2/3/4 octet sequence
 * (C0..DF / E0..EF / F0..F4), 6 = octet that never starts or continues a sequence (F5..FF).
 * Property text: "NUL-terminated without embedded NUL and with well-formed UTF-8 lead/continuation structure";
 * overlong forms, surrogates and code points above U+10FFFF inside F4 sequences are NOT part of the claim. */
static int u8class(u8 b) {
	if (b == 0) return 0;
	if (b < 0x80) return 1;
	if (b < 0xc0) return 2;
	if (b < 0xe0) return 3;
	if (b < 0xf0) return 4;
	if (b < 0xf5) return 5;
	return 6;
}
static int ref_utf8_ok(const u8 *s, unsigned n) {
	if (n == 0) return 0;                       /* not even a terminator */
	if (s[n - 1] != 0) return 0;                /* must be NUL-terminated */
	for (unsigned i = 0; i < NB; i++) if (i < n) {
		int c = u8class(s[i]);
		if (c == 6) return 0;
		if (c == 0 && i != n - 1) return 0;     /* embedded NUL */
		if (c >= 3) {                           /* a lead octet is followed by exactly c-2 continuation octets */
			for (unsigned k = 1; k <= 3; k++) if ((int)k <= c - 2) {
				if (i + k >= n) return 0;
				if (u8class(s[(i + k) < NB ? (i + k) : 0]) != 2) return 0;
			}
		}
		if (c == 2) {                           /* a continuation octet is owned by a lead octet 1..3 positions back */
			int owned = 0;
			for (unsigned k = 1; k <= 3; k++) if (i >= k) {
				int cl = u8class(s[i - k]);
				int allcont = 1;
				for (unsigned m = 1; m < k; m++) if (u8class(s[i - m]) != 2) allcont = 0;
				if (cl >= 3 && cl - 2 >= (int)k && allcont) owned = 1;
			}
			if (!owned) return 0;
		}
	}
	return 1;
}

void harness(void) {
	VERIF_ctx_init();
	KSI_CTX *ctx = VERIF_ctx;
	int res;

#if LEAF == LEAF_DIGEST
	/* KSI_DataHash_fromDigest(ctx, algorithm, digest, LEN): documented inputs: any algorithm id, any length */
	int alg = ND(int, alg);
	u8 *dg = verif_buf_alloc(LEN);
	for (unsigned i = 0; i < LEN; i++) { pl[i] = ND(u8, pl); dg[i] = pl[i]; }
	KSI_DataHash *h = NULL;
	res = KSI_DataHash_fromDigest(ctx, alg, dg, LEN, &h);
	int known = (alg >= 0 && alg <= 0xff && ref_digest_len((unsigned)alg) >= 0);
	int ok = known && LEN > 0 && ref_digest_len((unsigned)alg) == LEN;
	CHECK((res == KSI_OK) == ok, "C10.leaf fromDigest accepts exactly a known algorithm with its digest length");
	if (res == KSI_OK) {
		const unsigned char *imp = NULL; size_t implen = 0;
		CHECK(h != NULL && KSI_DataHash_getImprint(h, &imp, &implen) == KSI_OK && implen == LEN + 1 && imp[0] == (u8)alg, "C10.leaf fromDigest imprint = algorithm octet and digest");
		int same = 1; for (unsigned i = 0; i < LEN; i++) if (imp[1 + i] != pl[i]) same = 0;
		CHECK(same, "C10.leaf fromDigest digest octets preserved");
#if LEN == 32
		if (alg == 0x0b) WITNESS_POINT("SM3 digest accepted");
#endif
#if LEN == 20 || LEN == 64
		if (alg == 0x00 || alg == 0x05) WITNESS_POINT("SHA-1 or SHA-512 digest accepted");
#endif
	} else {
		CHECK(h == NULL, "C10.leaf fromDigest returns no object on rejection");
		if (alg == 3) WITNESS_POINT("reserved algorithm id rejected");
		if (known) WITNESS_POINT("known algorithm with wrong length rejected");
	}
	KSI_DataHash_free(h);
	verif_buf_free(dg, LEN);
#elif LEAF == LEAF_UTF8NEW
	/* KSI_Utf8String_new(ctx, str, LEN) directly on an exact-size buffer */
	u8 *sb = verif_buf_alloc(LEN);
	for (unsigned i = 0; i < LEN; i++) { pl[i] = ND(u8, pl); sb[i] = pl[i]; }
	KSI_Utf8String *o = NULL;
	res = KSI_Utf8String_new(ctx, (const char *)sb, LEN, &o);
	int ok = ref_utf8_ok(pl, LEN);
	CHECK((res == KSI_OK) == ok, "C10.leaf Utf8String_new accepts exactly NUL-terminated strings without embedded NUL and with well-formed lead/continuation structure");
	if (res == KSI_OK) {
		CHECK(o != NULL && KSI_Utf8String_size(o) == LEN, "C10.leaf Utf8String_new size");
		const char *c = KSI_Utf8String_cstr(o);
		int same = 1; for (unsigned i = 0; i < LEN; i++) if ((u8)c[i] != pl[i]) same = 0;
		CHECK(same, "C10.leaf Utf8String_new octets preserved");
#if LEN >= 5
		if (u8class(pl[0]) == 5) WITNESS_POINT("4-octet sequence accepted");
#endif
#if LEN >= 3
		if (u8class(pl[0]) == 3) WITNESS_POINT("2-octet sequence accepted");
#endif
#if LEN == 1
		WITNESS_POINT("empty string accepted");
#endif
	} else {
		CHECK(o == NULL, "C10.leaf Utf8String_new returns no object on rejection");
#if LEN >= 3
		if (pl[LEN - 1] == 0 && pl[0] == 0) WITNESS_POINT("embedded NUL rejected");
		if (pl[LEN - 1] == 0 && u8class(pl[LEN - 2]) >= 3) WITNESS_POINT("truncated sequence rejected");
#endif
#if LEN >= 1
		if (pl[LEN - 1] != 0) WITNESS_POINT("missing terminator rejected");
#else
		WITNESS_POINT("zero length rejected");
#endif
	}
	KSI_Utf8String_free(o);
	verif_buf_free(sb, LEN);
#else
	/* ---- the TLV element as the parser sees it during a real parse ---- */
	u8 *buf = verif_buf_alloc(2 + LEN);
	/* TLV8 header; tag and flag bits are concrete per instance (HDR0): the header form decides where the payload
	 * starts, and the leaf parsers never look at tag or flags */
	buf[0] = (u8)(HDR0 & 0x7f); buf[1] = (u8)LEN;
	for (unsigned i = 0; i < LEN; i++) { pl[i] = ND(u8, pl); buf[2 + i] = pl[i]; }
	KSI_TLV *tlv = NULL;
	res = KSI_TLV_parseBlob2(ctx, buf, 2 + LEN, 0, &tlv);
	CHECK(res == KSI_OK && tlv != NULL, "C10.leaf well-formed element parses");
	if (res != KSI_OK || tlv == NULL) return;

#if LEAF == LEAF_INT
	/* KSI integers: big-endian, at most 8 octets, no leading zero octets (so zero is the empty payload) */
	KSI_Integer *o = NULL;
	res = KSI_Integer_fromTlv(tlv, &o);
	int ok = (LEN <= 8) && (LEN == 0 || pl[0] != 0);
	u64 v = 0; for (unsigned i = 0; i < LEN && i < 8; i++) v = (v << 8) | pl[i];
	CHECK((res == KSI_OK) == ok, "C10.leaf integer accepted iff at most 8 octets and no leading zero octet");
	if (res == KSI_OK) {
		CHECK(o != NULL && KSI_Integer_getUInt64(o) == v, "C10.leaf integer value is the big-endian value of the payload");
#if LEN == 8
		if (pl[0] >= 0x80) WITNESS_POINT("64-bit integer with top bit set accepted");
#elif LEN == 0
		WITNESS_POINT("empty payload accepted as zero");
#elif LEN <= 8
		if (pl[0] == 1) WITNESS_POINT("minimal integer accepted");
#endif
	} else {
		CHECK(res == KSI_INVALID_FORMAT && o == NULL, "C10.leaf integer rejection is KSI_INVALID_FORMAT without object");
#if LEN > 8
		WITNESS_POINT("more than 8 octets rejected");
#elif LEN > 0
		if (pl[0] == 0) WITNESS_POINT("leading zero octet rejected");
#endif
	}
	KSI_Integer_free(o);
#elif LEAF == LEAF_UTF8 || LEAF == LEAF_UTF8NZ
	KSI_Utf8String *o = NULL;
#if LEAF == LEAF_UTF8
	res = KSI_Utf8String_fromTlv(tlv, &o);
	int ok = ref_utf8_ok(pl, LEN);
#else
	res = KSI_Utf8StringNZ_fromTlv(tlv, &o);   /* "NZ": additionally the string must not be empty */
	int ok = ref_utf8_ok(pl, LEN) && LEN >= 2;
#endif
	CHECK((res == KSI_OK) == ok, "C10.leaf string element accepted iff NUL-terminated, no embedded NUL, well-formed UTF-8 structure (NZ: and not empty)");
	if (res == KSI_OK) {
		CHECK(o != NULL && KSI_Utf8String_size(o) == LEN, "C10.leaf string size");
		const char *c = KSI_Utf8String_cstr(o);
		int same = 1; for (unsigned i = 0; i < LEN; i++) if ((u8)c[i] != pl[i]) same = 0;
		CHECK(same, "C10.leaf string octets preserved");
#if LEN >= 4
		if (u8class(pl[0]) == 4) WITNESS_POINT("3-octet sequence accepted");
#elif LEN >= 2
		if (pl[0] == 'a') WITNESS_POINT("ASCII string accepted");
#elif LEN == 1 && LEAF == LEAF_UTF8
		WITNESS_POINT("empty string accepted");
#endif
	} else {
		CHECK(o == NULL, "C10.leaf string: no object on rejection");
#if LEN == 0
		WITNESS_POINT("empty payload rejected");
#elif LEN == 1 && LEAF == LEAF_UTF8NZ
		if (pl[0] == 0) WITNESS_POINT("empty string rejected by NZ variant");
#elif LEN >= 2
		if (pl[LEN - 1] == 0 && u8class(pl[0]) == 2) WITNESS_POINT("stray continuation octet rejected");
		if (pl[LEN - 1] == 0 && u8class(pl[0]) == 6) WITNESS_POINT("octet F5..FF rejected");
#else
		if (pl[0] != 0) WITNESS_POINT("missing terminator rejected");
#endif
	}
	KSI_Utf8String_free(o);
#elif LEAF == LEAF_IMPRINT
	/* imprint = algorithm octet followed by a digest of exactly that algorithm's length */
	KSI_DataHash *h = NULL;
	res = KSI_DataHash_fromTlv(tlv, &h);
	int ok = 0;
#if LEN >= 1
	ok = ref_digest_len(pl[0]) >= 0 && ref_digest_len(pl[0]) == LEN - 1;
#endif
	CHECK((res == KSI_OK) == ok, "C10.leaf imprint accepted iff known algorithm and matching digest length");
	if (res == KSI_OK) {
		const unsigned char *imp = NULL; size_t implen = 0;
		CHECK(h != NULL && KSI_DataHash_getImprint(h, &imp, &implen) == KSI_OK && implen == LEN, "C10.leaf imprint length preserved");
		int same = 1; for (unsigned i = 0; i < LEN; i++) if (imp[i] != pl[i]) same = 0;
		CHECK(same, "C10.leaf imprint octets preserved");
#if LEN == 21 || LEN == 29 || LEN == 33 || LEN == 49 || LEN == 65
		WITNESS_POINT("imprint accepted");
#endif
	} else {
		CHECK(h == NULL, "C10.leaf imprint: no object on rejection");
#if LEN >= 1
		if (pl[0] == 0x03 || pl[0] == 0x06) WITNESS_POINT("reserved algorithm rejected");
#if LEN != 33
		if (pl[0] == 0x01) WITNESS_POINT("SHA2-256 imprint of wrong length rejected");
#endif
#else
		WITNESS_POINT("empty imprint rejected");
#endif
	}
	KSI_DataHash_free(h);
#elif LEAF == LEAF_LEGACY
	/* legacy client id: exactly 29 octets: 03 00 <n <= 25> <n octets of name> then zero octets up to the end */
	KSI_OctetString *o = NULL;
	res = KSI_HashChainLink_LegacyId_fromTlv(tlv, &o);
	int ok = 0;
#if LEN == 29
	ok = (pl[0] == 0x03 && pl[1] == 0x00 && pl[2] <= 25);
	for (unsigned i = 3; i < 29; i++) if (i >= 3u + pl[2] && pl[i] != 0) ok = 0;
#endif
	CHECK((res == KSI_OK) == ok, "C10.leaf legacy id accepted iff 29 octets, header 03 00, name length <= 25, zero padding");
	if (res == KSI_OK) {
		const unsigned char *d = NULL; size_t dl = 0;
		CHECK(o != NULL && KSI_OctetString_extract(o, &d, &dl) == KSI_OK && dl == LEN, "C10.leaf legacy id length preserved");
		int same = 1; for (unsigned i = 0; i < LEN; i++) if (d[i] != pl[i]) same = 0;
		CHECK(same, "C10.leaf legacy id octets preserved");
#if LEN == 29
		if (pl[2] == 25) WITNESS_POINT("legacy id with 25-octet name accepted");
		if (pl[2] == 0) WITNESS_POINT("legacy id with empty name accepted");
#endif
	} else {
		CHECK(res == KSI_INVALID_FORMAT && o == NULL, "C10.leaf legacy id rejection is KSI_INVALID_FORMAT without object");
#if LEN == 29
		if (pl[0] == 3 && pl[1] == 0 && pl[2] == 26) WITNESS_POINT("name length 26 rejected");
		if (pl[0] == 3 && pl[1] == 0 && pl[2] == 4 && pl[28] != 0) WITNESS_POINT("non-zero padding rejected");
#else
		WITNESS_POINT("wrong length rejected");
#endif
	}
	KSI_OctetString_free(o);
#elif LEAF == LEAF_OCTET
	KSI_OctetString *o = NULL;
	res = KSI_OctetString_fromTlv(tlv, &o);
	CHECK(res == KSI_OK && o != NULL, "C10.leaf octet string accepts any payload");
	if (res == KSI_OK && o != NULL) {
		const unsigned char *d = NULL; size_t dl = 0;
		CHECK(KSI_OctetString_extract(o, &d, &dl) == KSI_OK && dl == LEN, "C10.leaf octet string length preserved");
		int same = 1; for (unsigned i = 0; i < LEN; i++) if (d[i] != pl[i]) same = 0;
		CHECK(same, "C10.leaf octet string octets preserved");
		WITNESS_POINT("octet string accepted");
	}
	KSI_OctetString_free(o);
#endif
	KSI_TLV_free(tlv);
	verif_buf_free(buf, 2 + LEN);
#endif
}
