/* C19 H-14d: the lookups of a publications file under allocation failure (c19.h conventions: the FAULT_AT-th allocation of the
 * faulted call fails; FAULT_AT concrete per instance, 0 = fault-free).
 * File object built with the library's own constructors / setters (as in C18 h3_lookup): 2 publication records (time symbolic
 * >= 256, SHA-1 sized imprint with symbolic digest), 1 certificate record (4 id bytes symbolic).
 * Only ONE lookup allocates: KSI_PublicationsFile_getPublicationDataByPublicationString (decoded string, publication data, time,
 * imprint = 4 allocations; instances k = 0..5).  This version of libksi keeps NO cache inside the file object (the getters are
 * scans), so "no half-initialised cache" reads: the file object is bit-for-bit what it was (same records, reference counts 1),
 * and EVERY other getter still succeeds with the correct answer after the failed call: getPublicationDataByTime,
 * getLatestPublication (with and without a time), getNearestPublication, getPKICertificateById, getSignedDataLength.
 * Real: publicationsfile.c (included), hash.c, types.c, tlv.c, list.c, types_base.c (included for its private structs).
 * Models: base32 decoder (its one allocation through the real allocator, NBIN symbolic bytes), CRC-32 (a function of its
 * input), PKI certificate (env/c18_pki_model.c), KSI_Integer_new cut to its heap branch for values >= 256 (asserted) - all
 * exactly as in h14_pubdata_b32.c, see there for the reasons.
 * Reference for the string lookup (header documentation): the string denotes (T, imprint I).  checksum wrong -> error;
 * no record with time T -> KSI_OK and NULL; the first record with time T has imprint I -> KSI_OK and that record; otherwise
 * KSI_INVALID_PUBLICATION.  On every error the output pointer is untouched.
 *
 * MUTATIONS caught (scratch worktree, on top of the clone fix, each reverted afterwards):
 *   M8 string lookup: decoded publication data not released          => leak (every instance)
 *   M9 string lookup: output written in the cleanup block (also on failure) => "output untouched" (every instance) */
#include "c19.h"
#include "publicationsfile.h"
#include "base32.h"
#include "crc32.h"
#include "tlv.h"
#include "tlv_template.h"
#include "pkitruststore.h"
#include "fast_tlv.h"
#include "impl/publicationsfile_impl.h"
#include "impl/hash_impl.h"
#include "hash_model.h"
#include "c18_pki_model.h"
#include "verif_post.h"
#include "types_base.c"

#define NPUB 2
#define DL 20
#define NBIN (8 + 1 + DL + 4)
#define BMAX 40
#define IDLEN 4
#define NALLOC 4

static int cut_Integer_new(KSI_CTX *ctx, KSI_uint64_t value, KSI_Integer **o) {
#ifdef REPLAY
	return KSI_Integer_new(ctx, value, o);
#else
	CHECK(ctx != NULL && o != NULL && value >= integerPoolSize, "C19.H14d [cut] KSI_Integer_new is only asked for values outside the static pool");
	KSI_Integer *tmp = KSI_new(KSI_Integer);
	if (tmp == NULL) { KSI_pushError(ctx, KSI_OUT_OF_MEMORY, NULL); return KSI_OUT_OF_MEMORY; }
	tmp->value = value; tmp->ref = 1;
	*o = tmp;
	return KSI_OK;
#endif
}
#define KSI_Integer_new cut_Integer_new
#include "publicationsfile.c"
#undef KSI_Integer_new

static u8 BIN[BMAX];
int KSI_base32Decode(const char *base32, unsigned char **data, size_t *data_len) {
	if (base32 == NULL || data == NULL || data_len == NULL) return KSI_INVALID_ARGUMENT;
	u8 *p = KSI_malloc(NBIN);          /* the decoder's one allocation (see h14_pubdata_b32.c) */
	if (p == NULL) return KSI_OUT_OF_MEMORY;
	for (unsigned i = 0; i < NBIN; i++) p[i] = BIN[i];
	*data = p; *data_len = NBIN;
	return KSI_OK;
}
int KSI_base32Encode(const unsigned char *data, size_t data_len, size_t group_len, char **encoded) {
	(void)data; (void)data_len; (void)group_len; (void)encoded;
	CHECK(0, "C19.H14d stub: nothing is encoded in this scenario"); return KSI_UNKNOWN_ERROR;
}
static u8 crc_bytes[BMAX]; static size_t crc_len; static unsigned long crc_value; static unsigned crc_calls;
unsigned long KSI_crc32(const void *data, size_t length, unsigned long ival) {
	const u8 *p = data; (void)ival;
	if (crc_calls > 0) {
		int same = (length == crc_len);
		for (unsigned i = 0; i < BMAX; i++) if (i < length && i < crc_len && p[i] != crc_bytes[i]) same = 0;
		CHECK(same, "C19.H14d [model] the checksum is only ever asked about one byte string per scenario");
		crc_calls++;
		return crc_value;
	}
	crc_calls++; crc_len = length;
	for (unsigned i = 0; i < BMAX; i++) crc_bytes[i] = (i < length) ? p[i] : 0;
	crc_value = ND(unsigned, crcval);
	return crc_value;
}

static u64 tm[NPUB]; static u8 dg[NPUB][DL]; static KSI_PublicationRecord *rec[NPUB]; static KSI_Integer *tmi[NPUB]; static KSI_DataHash *hs[NPUB];
static size_t sdl_ref; static u8 idb[IDLEN]; static KSI_PKICertificate *crt; static KSI_OctetString *cid;
static KSI_Integer *mk_int(u64 v) { KSI_Integer *o = malloc(sizeof(*o)); ASSUME(o != NULL); o->ref = 1; o->value = v; return o; }

/* every getter that does not allocate, against the raw values; also: the file object is what it was */
static void others_ok(KSI_PublicationsFile *pf, unsigned qi, KSI_OctetString *qid) {
	KSI_Integer *q0 = tmi[qi];
	KSI_PublicationRecord *r; KSI_PKICertificate *c = NULL; int res; size_t sdl = 0;
	const unsigned hi = (tm[1] >= tm[0]) ? 1 : 0, lo = 1 - hi;      /* later / earlier of the two records */
	r = NULL; res = KSI_PublicationsFile_getPublicationDataByTime(pf, q0, &r);
	CHECK(res == KSI_OK && r != NULL && ((r == rec[0] && tm[0] == tm[qi]) || (r == rec[1] && tm[1] == tm[qi])), "C19.H14d after the (failed) string lookup getPublicationDataByTime still finds the record with that time");
	r = NULL; res = KSI_PublicationsFile_getLatestPublication(pf, NULL, &r);
	CHECK(res == KSI_OK && r != NULL && (r == rec[hi] || tm[0] == tm[1]), "C19.H14d after the (failed) string lookup getLatestPublication still returns the latest record");
	r = NULL; res = KSI_PublicationsFile_getLatestPublication(pf, q0, &r);
	CHECK(res == KSI_OK && r != NULL && (r == rec[hi] || tm[0] == tm[1]), "C19.H14d after the (failed) string lookup getLatestPublication(time) still returns the latest record not before the time");
	r = NULL; res = KSI_PublicationsFile_getNearestPublication(pf, tmi[lo], &r);
	CHECK(res == KSI_OK && r != NULL && (r == rec[lo] || tm[0] == tm[1]), "C19.H14d after the (failed) string lookup getNearestPublication still returns the earliest record not before the time");
	KSI_PublicationRecord_free(r);                    /* new reference */
	res = KSI_PublicationsFile_getPKICertificateById(pf, qid, &c);
	CHECK(res == KSI_OK && c == crt, "C19.H14d after the (failed) string lookup getPKICertificateById still finds the certificate");
	res = KSI_PublicationsFile_getSignedDataLength(pf, &sdl);
	CHECK(res == KSI_OK && sdl == sdl_ref, "C19.H14d getSignedDataLength is unchanged");
	int same = (KSI_PublicationRecordList_length(pf->publications) == NPUB && KSI_CertificateRecordList_length(pf->certificates) == 1 && pf->ref == 1);
	for (unsigned i = 0; i < NPUB; i++) {
		KSI_PublicationRecord *e = NULL;
		if (KSI_PublicationRecordList_elementAt(pf->publications, i, &e) != KSI_OK || e != rec[i] || e->ref != 1 || e->publishedData == NULL || e->publishedData->ref != 1
			|| e->publishedData->time != tmi[i] || tmi[i]->ref != 1 || tmi[i]->value != tm[i] || e->publishedData->imprint != hs[i] || hs[i]->ref != 1) same = 0;
	}
	CHECK(same, "C19.H14d the (failed) string lookup leaves the file object, its records and every reference count unchanged");
}

void harness(void) {
	VERIF_ctx_init(); VERIF_hm_init(0); VERIF_pki_init(); KSI_CTX *ctx = VERIF_ctx; int res;
	/* ---- the file, fault-free ---- */
	KSI_PublicationsFile *pf = NULL;
	res = KSI_PublicationsFile_new(ctx, &pf); ASSUME(res == KSI_OK);
	{
		KSI_LIST(KSI_PublicationRecord) *pl = NULL;
		res = KSI_PublicationRecordList_new(&pl); ASSUME(res == KSI_OK);
		for (unsigned i = 0; i < NPUB; i++) {
			KSI_PublicationData *pd = NULL;
			tm[i] = ND(u64, pub_time); ASSUME(tm[i] >= 256);
			for (unsigned k = 0; k < DL; k++) dg[i][k] = ND(u8, pub_digest);
			res = KSI_PublicationRecord_new(ctx, &rec[i]); ASSUME(res == KSI_OK);
			res = KSI_PublicationData_new(ctx, &pd); ASSUME(res == KSI_OK);
			tmi[i] = mk_int(tm[i]);
			res = KSI_DataHash_fromDigest(ctx, KSI_HASHALG_SHA1, dg[i], DL, &hs[i]); ASSUME(res == KSI_OK);
			res = KSI_PublicationData_setTime(pd, tmi[i]); ASSUME(res == KSI_OK);
			res = KSI_PublicationData_setImprint(pd, hs[i]); ASSUME(res == KSI_OK);
			res = KSI_PublicationRecord_setPublishedData(rec[i], pd); ASSUME(res == KSI_OK);
			res = KSI_PublicationRecordList_append(pl, rec[i]); ASSUME(res == KSI_OK);
		}
		res = KSI_PublicationsFile_setPublications(pf, pl); ASSUME(res == KSI_OK);
		KSI_LIST(KSI_CertificateRecord) *cl = NULL; KSI_CertificateRecord *cr = NULL; u8 der[1] = {0x30};
		res = KSI_CertificateRecordList_new(&cl); ASSUME(res == KSI_OK);
		for (unsigned k = 0; k < IDLEN; k++) idb[k] = ND(u8, cert_id);
		res = KSI_OctetString_new(ctx, idb, IDLEN, &cid); ASSUME(res == KSI_OK);
		res = KSI_PKICertificate_new(ctx, der, 1, &crt); ASSUME(res == KSI_OK);
		res = KSI_CertificateRecord_new(ctx, &cr); ASSUME(res == KSI_OK);
		res = KSI_CertificateRecord_setCertId(cr, cid); ASSUME(res == KSI_OK);
		res = KSI_CertificateRecord_setCert(cr, crt); ASSUME(res == KSI_OK);
		res = KSI_CertificateRecordList_append(cl, cr); ASSUME(res == KSI_OK);
		res = KSI_PublicationsFile_setCertificates(pf, cl); ASSUME(res == KSI_OK);
	}
	sdl_ref = ND(size_t, signed_len); pf->signedDataLength = sdl_ref;     /* (KSI_PublicationsFile_new leaves this member unset; parse sets it) */
	KSI_OctetString *qid = NULL;
	res = KSI_OctetString_new(ctx, idb, IDLEN, &qid); ASSUME(res == KSI_OK);

	/* ---- the publication string (what the decoder model yields) ---- */
	for (unsigned i = 0; i < BMAX; i++) { u8 b = ND(u8, bin); BIN[i] = (i < NBIN) ? b : 0; }
	BIN[8] = KSI_HASHALG_SHA1;
	u64 T = 0; for (unsigned i = 0; i < 8; i++) T = (T << 8) | BIN[i];
	ASSUME(T >= 256);
	unsigned long stored = ((unsigned long)BIN[NBIN - 4] << 24) | ((unsigned long)BIN[NBIN - 3] << 16) | ((unsigned long)BIN[NBIN - 2] << 8) | BIN[NBIN - 1];
	/* reference */
	int first = -1; for (int i = NPUB - 1; i >= 0; i--) if (tm[i] == T) first = i;
	int imp_eq = 0;
	if (first >= 0) { imp_eq = 1; for (unsigned k = 0; k < DL; k++) if (dg[first][k] != BIN[9 + k]) imp_eq = 0; }

	static KSI_PublicationRecord sentinel_obj;
	KSI_PublicationRecord *const untouched = &sentinel_obj;
	KSI_PublicationRecord *r1 = untouched, *r2 = untouched;
	C19_ARM();
	res = KSI_PublicationsFile_getPublicationDataByPublicationString(pf, "PUBLICATION-STRING", &r1);
	C19_DISARM();
	const int asked = (crc_calls > 0);
	const int crc_ok = asked && (stored == crc_value);     /* the checksum value is drawn when the model is first asked */
	if (VERIF_fault_hit) {
		CHECK(res != KSI_OK || (asked && crc_ok && r1 == (first < 0 ? NULL : rec[first]) && (first < 0 || imp_eq)), "C19.H14d with a failed allocation the string lookup reports an error or still delivers the correct result");
	} else {
		CHECK(asked, "C19.H14d without a fault the checksum is verified");
		if (!crc_ok) CHECK(res != KSI_OK, "C19.H14d a checksum mismatch is refused");
		else if (first < 0) CHECK(res == KSI_OK && r1 == NULL, "C19.H14d no record with the time of the string: KSI_OK and NULL");
		else if (imp_eq) CHECK(res == KSI_OK && r1 == rec[first], "C19.H14d the record with the time and imprint of the string is returned");
		else CHECK(res == KSI_INVALID_PUBLICATION, "C19.H14d same time but another imprint: KSI_INVALID_PUBLICATION");
	}
	if (res != KSI_OK) CHECK(r1 == untouched, "C19.H14d a failed string lookup leaves the output pointer untouched");
	const int res1 = res;

	/* ---- every other getter, and the state of the file ---- */
	others_ok(pf, 0, qid);

	/* ---- the same lookup without fault ---- */
	res = KSI_PublicationsFile_getPublicationDataByPublicationString(pf, "PUBLICATION-STRING", &r2);
	const int crc_ok2 = (crc_calls > 0) && (stored == crc_value);
	if (!crc_ok2) CHECK(res != KSI_OK && r2 == untouched, "C19.H14d repeated without fault: a checksum mismatch is refused");
	else if (first < 0) CHECK(res == KSI_OK && r2 == NULL, "C19.H14d repeated without fault: no record with that time -> KSI_OK and NULL");
	else if (imp_eq) CHECK(res == KSI_OK && r2 == rec[first], "C19.H14d repeated without fault: the matching record is returned");
	else CHECK(res == KSI_INVALID_PUBLICATION && r2 == untouched, "C19.H14d repeated without fault: KSI_INVALID_PUBLICATION");
	others_ok(pf, 1, qid);

	KSI_OctetString_free(qid);
	KSI_PublicationsFile_free(pf);
	WITNESS_POINT("lookup scenario finished");
#if FAULT_AT >= 1 && FAULT_AT <= NALLOC
	if (VERIF_fault_hit && res1 != KSI_OK && res == KSI_OK && r2 == rec[1] && tm[0] != tm[1]) WITNESS_POINT("fault was injected and the repeated lookup found the second record");
#elif FAULT_AT > NALLOC
	CHECK(!VERIF_fault_hit, "C19.H14d the enumeration of allocation indices is complete (no allocation beyond NALLOC)");
#endif
#if FAULT_AT == 0
	if (res == KSI_INVALID_PUBLICATION) WITNESS_POINT("same time, other imprint refused");
	if (res == KSI_OK && r2 == NULL) WITNESS_POINT("no record with that time");
#endif
}
