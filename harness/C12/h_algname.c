/* C12 H-algname: KSI_getHashAlgorithmByName on every NUL-terminated string of LEN characters
 * (exact-size heap object, LEN concrete per instance, characters symbolic): the call terminates, touches no
 * memory outside its objects and returns either -1 or the id of a known algorithm.
 * Candidate defect F8: the name table of SHA3-512 has no terminating "" (hash.c:46). */
#include "verif.h"
#include "internal.h"
#include "ctx.h"
#include "verif_post.h"

#ifndef LEN
#define LEN 3
#endif

void harness(void) {
	VERIF_ctx_init();
	char *name = (char *)verif_buf_alloc(LEN + 1);
	for (unsigned i = 0; i < LEN; i++) { char c = (char)ND(u8, ch); ASSUME(c != 0); name[i] = c; }
	name[LEN] = 0;
	KSI_HashAlgorithm id = KSI_getHashAlgorithmByName(name);
	CHECK(id == -1 || (id >= 0 && id < KSI_NUMBER_OF_KNOWN_HASHALGS && KSI_getHashAlgorithmName(id) != NULL),
		"C12.algname result is -1 or the id of a known algorithm");
	if (id == -1) WITNESS_POINT("unknown name");
#if LEN == 4
	if (id == KSI_HASHALG_SHA1) WITNESS_POINT("sha1 found in any letter case");
#endif
#if LEN == 3
	if (id == KSI_HASHALG_SM3) WITNESS_POINT("last table entry found");
#endif
#if LEN == 8
	if (id == KSI_HASHALG_SHA3_512 && name[4] == '_') WITNESS_POINT("sha3_512 found with underscore");
#endif
	verif_buf_free((u8 *)name, LEN + 1);
}
