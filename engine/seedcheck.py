#!/usr/bin/env python3
"""seedcheck.py <ID> [--props C01,C03] - confirm a seeded mutation delivered in /tmp/seed_<ID>/seed and run our checks on it.

1. demo fails with the patch, passes without it (built with ASan/UBSan from the worktree's sources)
2. the header include tests (the pinned baseline) pass with the patch
3. ./check <prop> quick (engine, VERIF_REPO=<worktree with the patch applied>) for every property in --props
   (default: the seeded property) must report a VIOLATION
Results are stored in /verif/seeded/<ID>/ (patch.diff, demo.c, meta.json)."""
import json, os, re, shutil, subprocess, sys, time

V = os.path.dirname(os.path.dirname(os.path.abspath(__file__)))


def sh(cmd, cwd=None, timeout=1800, env=None):
    p = subprocess.run(cmd, shell=isinstance(cmd, str), cwd=cwd, capture_output=True, text=True, timeout=timeout, env=env)
    return p.returncode, (p.stdout + p.stderr)


def build_and_run(wt, meta):
    cmd = meta.get("demo_cmd", "")
    if isinstance(cmd, list):
        cmd = " && ".join(cmd)
    m = re.search(r"(gcc[^\n;&]*-o\s+\S+)", cmd or "")
    build = m.group(1) if m else "gcc -g -O0 -w -fsanitize=address,undefined -DHAVE_CONFIG_H -Isrc -Isrc/ksi seed/demo.c src/ksi/*.c -lcrypto -lcurl -o seed/demo"
    if "seed/demo" not in build:
        build = "gcc -g -O0 -w -fsanitize=address,undefined -DHAVE_CONFIG_H -Isrc -Isrc/ksi seed/demo.c src/ksi/*.c -lcrypto -lcurl -o seed/demo"
    rc, out = sh(build, cwd=wt)
    if rc != 0:
        return None, "BUILD FAILED: " + out[-1500:]
    try:
        rc, out = sh("./seed/demo", cwd=wt, timeout=300)
    except subprocess.TimeoutExpired:
        return 124, "demo timed out"
    return rc, out[-1200:]


def main():
    sid = sys.argv[1]
    props = [sid]
    if "--props" in sys.argv:
        props = sys.argv[sys.argv.index("--props") + 1].split(",")
    wt = "/tmp/seed_%s" % sid
    dest = sid
    if "--wt" in sys.argv:
        wt = sys.argv[sys.argv.index("--wt") + 1]
    if "--dest" in sys.argv:
        dest = sys.argv[sys.argv.index("--dest") + 1]
    seed = os.path.join(wt, "seed")
    meta = json.load(open(os.path.join(seed, "meta.json")))
    res = {"verified_at": time.strftime("%Y-%m-%dT%H:%M:%SZ", time.gmtime())}
    # make sure the tree carries exactly the patch
    sh("git checkout -- src", cwd=wt)
    # bring the scratch worktree to /repo's current HEAD (fix: and hook commits made since the seed was written)
    rc, head = sh("git -C /repo rev-parse HEAD")
    sh("git checkout -q --detach %s" % head.strip(), cwd=wt)
    res["base_commit"] = head.strip()[:7]
    rc, out = sh("git apply seed/patch.diff", cwd=wt)
    if rc != 0:
        print("patch does not apply:", out)
        return 2
    rc_p, out_p = build_and_run(wt, meta)
    sh("git apply -R seed/patch.diff", cwd=wt)
    rc_u, out_u = build_and_run(wt, meta)
    sh("git apply seed/patch.diff", cwd=wt)
    res["demo_patched_rc"], res["demo_unpatched_rc"] = rc_p, rc_u
    res["demo_patched_tail"], res["demo_unpatched_tail"] = (out_p or "")[-400:], (out_u or "")[-400:]
    ok_demo = (rc_u == 0 and rc_p not in (0, None))
    # include tests with the patch
    fails = 0
    for h in sorted(os.listdir(os.path.join(wt, "src", "ksi"))):
        if h.endswith(".h") and h != "internal.h":
            rc, _ = sh("echo '#include \"ksi/%s\"\nint main(){return 0;}' | gcc -x c -fsyntax-only -Isrc -" % h, cwd=wt)
            fails += (rc != 0)
    res["include_tests_failed"] = fails
    print("demo: unpatched rc=%s patched rc=%s ; include test failures=%d ; demo confirmed=%s" % (rc_u, rc_p, fails, ok_demo))
    res["checks"] = {}
    env = dict(os.environ, VERIF_REPO=wt)
    for p in props:
        t0 = time.time()
        rc, out = sh(["python3", os.path.join(V, "engine", "ksicheck.py"), p, "--tier", "quick", "--no-evidence", "--jobs", os.environ.get("VERIF_JOBS", "8")], cwd=V, env=env, timeout=7200)
        viol = [l for l in out.splitlines() if l.startswith("VIOLATION")]
        detail = [l.strip() for l in out.splitlines() if l.strip().startswith("harness=")]
        res["checks"][p] = {"exit": rc, "violations": len(viol), "first": detail[:4], "wall_s": round(time.time() - t0)}
        print("check %s on the seeded tree: exit=%d violations=%d %s" % (p, rc, len(viol), detail[:2]))
        if rc not in (0, 1):
            print(out[-1500:])
    dst = os.path.join(V, "seeded", dest)
    os.makedirs(dst, exist_ok=True)
    for f in ("patch.diff", "demo.c"):
        shutil.copy(os.path.join(seed, f), os.path.join(dst, f))
    meta["confirmation"] = res
    meta["caught_by"] = [p for p, r in res["checks"].items() if r["exit"] == 1]
    json.dump(meta, open(os.path.join(dst, "meta.json"), "w"), indent=1)
    return 0 if ok_demo else 3


if __name__ == "__main__":
    sys.exit(main())
