/* C11 H-1c: the memoised root of KSI_CalendarHashChain_aggregate (hashchain.c:418-447), inductive step.
 * Pre-state: outputHash NULL, or the root a fresh KSI_HashChain_aggregateCalendar yields (the inputs of a calendar
 * chain never change, so there is no key).  Then 2 calls; in the BROKEN instance the chain is un-aggregatable
 * (no link list).  After every call: status and root equal a fresh computation; on failure
 * nothing is cached; the cache owns exactly one reference of the object it points to.
 * Shape: one link, SHA-1 sized imprints, direction concrete per instance; all digest bytes symbolic. */
#include "verif.h"
#include "internal.h"
#include "impl/hashchain_impl.h"
#include "impl/hash_impl.h"
#include "ctx.h"
#include "verif_post.h"
#ifndef LEFT
#define LEFT 1
#endif
#ifndef WARM
#define WARM 0
#endif
#ifndef BROKEN
#define BROKEN 0
#endif
extern int VERIF_hd_overflow;
void KSI_MetaDataElement_free(KSI_MetaDataElement *m) { CHECK(m == NULL, "C11.H1c harness chain has no metadata sibling"); }

static int same_imprint(const KSI_DataHash *a, const KSI_DataHash *b) {
	unsigned k; int eq = (a->imprint_length == b->imprint_length && a->imprint_length == 21);
	for (k = 0; k < 21; k++) if (eq && a->imprint[k] != b->imprint[k]) eq = 0;
	return eq;
}

void harness(void) {
	VERIF_ctx_init();
	KSI_CTX *ctx = VERIF_ctx; int res; unsigned k, i;
	KSI_CalendarHashChain *cal = NULL; KSI_HashChainLink *link = NULL;
	u8 in_d[20], sib_d[20];
	for (k = 0; k < 20; k++) { in_d[k] = ND(u8, in_d); sib_d[k] = ND(u8, sib_d); }
	res = KSI_CalendarHashChain_new(ctx, &cal); ASSUME(res == KSI_OK);
	res = KSI_DataHash_fromDigest(ctx, KSI_HASHALG_SHA1, in_d, 20, &cal->inputHash); ASSUME(res == KSI_OK);
	KSI_LIST(KSI_HashChainLink) *links = NULL;
	res = KSI_HashChainLinkList_new(&links); ASSUME(res == KSI_OK);
	res = KSI_HashChainLink_new(ctx, &link); ASSUME(res == KSI_OK);
	link->isLeft = LEFT;
	res = KSI_DataHash_fromDigest(ctx, KSI_HASHALG_SHA1, sib_d, 20, &link->imprint); ASSUME(res == KSI_OK);
	res = KSI_HashChainLinkList_append(links, link); ASSUME(res == KSI_OK);
	cal->hashChain = links;

	KSI_DataHash *ghost = NULL;
#if WARM
	{ KSI_DataHash *h0 = NULL;
	  res = KSI_HashChain_aggregateCalendar(ctx, cal->hashChain, cal->inputHash, &h0); ASSUME(res == KSI_OK);
	  cal->outputHash = h0; ghost = KSI_DataHash_ref(h0); }
#elif BROKEN
	cal->hashChain = NULL;                                  /* aggregation cannot succeed (cold cache only: a warm one proves it could) */
#endif
	for (i = 0; i < 2; i++) {
		KSI_DataHash *root = NULL, *fresh = NULL;
		res = KSI_CalendarHashChain_aggregate(cal, &root);
		int fres = KSI_HashChain_aggregateCalendar(ctx, cal->hashChain, cal->inputHash, &fresh);
		CHECK(!VERIF_hd_overflow, "C11.H1c hash model capacity suffices");
		CHECK((res == KSI_OK) == (fres == KSI_OK), "C11.H1c cached calendar aggregation succeeds exactly when a fresh computation does");
		if (res == KSI_OK && fres == KSI_OK) {
			CHECK(root != NULL && same_imprint(root, fresh), "C11.H1c cached calendar aggregation returns the root of a fresh computation");
			CHECK(cal->outputHash == root, "C11.H1c the returned root is the cached object");
			if (ghost == NULL) { CHECK(root->ref == 2, "C11.H1c a new cache object is referenced by the cache and by the returned root"); ghost = KSI_DataHash_ref(root); }
			CHECK(ghost == root && ghost->ref == 3, "C11.H1c reference count = ghost + cache + returned root");
#if !BROKEN
			if (i == 1) WITNESS_POINT("second call served from the cache");
#endif
		} else {
			CHECK(root == NULL && cal->outputHash == NULL, "C11.H1c nothing is cached or returned on failure");
#if BROKEN
			if (i == 1) WITNESS_POINT("aggregation fails twice, nothing cached");
#endif
		}
		KSI_DataHash_free(root);
		KSI_DataHash_free(fresh);
		if (ghost != NULL) CHECK(ghost->ref == 2 && cal->outputHash == ghost, "C11.H1c after the caller released the root the cache still owns its reference");
	}
	KSI_DataHash_free(ghost);
	if (cal->hashChain == NULL) KSI_HashChainLinkList_free(links);
	KSI_CalendarHashChain_free(cal);
}
