#!/usr/bin/env python3
"""Generates plan.json for C01 (run from anywhere: python3 harness/C01/gen_plan.py)."""
import json, os
HERE = os.path.dirname(os.path.abspath(__file__))
ENV = ["ctx", "hash_model", "list_wrap", "fmt_stub"]
TUS = ["verification_rule", "signature", "hashchain", "hash"]

def tri(t): return "{%d,%d,%d}" % tuple(t)
def mat(m): return "{" + ",".join(tri(r) for r in m) + "}"

# ---------------------------------------------------------------- ha_chains
def chains(label, n, nl, il, rfc=None, cal=None, pub=0, auth=0, hi=0, aggralg=(0, 0, 0), cont_ok=1, inalg=(-20, -20, -20), extra=()):
    d = ["SB_NCHAINS=%d" % n, "SB_NLINKS=" + tri(nl), "SB_IDXLEN=" + tri(il), "SB_AGGRALG=" + tri(aggralg), "SB_INALG=" + tri(inalg),
         "W_CONT_OK=%d" % cont_ok, "W_SHA1=%d" % (1 if 0 in aggralg[:n] else 0)]
    if rfc is not None: d += ["SB_HAS_RFC=1", "SB_RFC_IDXLEN=%d" % rfc]
    if cal is not None: d += ["SB_HAS_CAL=1", "SB_CAL_HAS_AGGRTIME=%d" % cal]
    if pub: d.append("SB_HAS_PUB=1")
    if auth: d.append("SB_HAS_AUTH=1")
    if hi: d.append("SB_AGGRALG_HI=1")
    return {"label": label, "defines": d + list(extra)}
chains_q = [
    chains("n1_l2", 1, (2, 1, 1), (1, 1, 1)),
    chains("n1_l3_idx3_cal", 1, (3, 1, 1), (3, 1, 1), cal=1, pub=1),
    chains("n2_idx21", 2, (1, 2, 1), (2, 1, 1), aggralg=(1, 0, 0)),
    chains("n2_idx11", 2, (2, 1, 1), (1, 1, 1), cont_ok=0),
    chains("n2_idx31_calnoaggr", 2, (1, 1, 1), (3, 1, 1), cal=0, auth=1, cont_ok=0),
    chains("n3_idx321", 3, (1, 2, 3), (3, 2, 1), aggralg=(1, 1, 0)),
    chains("n3_idx322", 3, (1, 1, 1), (3, 2, 2), cont_ok=0),
    chains("n1_rfc11", 1, (1, 1, 1), (1, 1, 1), rfc=1),
    chains("n2_rfc22_cal", 2, (2, 1, 1), (2, 1, 1), rfc=2, cal=1),
    chains("n1_rfc12", 1, (1, 1, 1), (2, 1, 1), rfc=1, cont_ok=0),
    chains("n2_hi", 2, (1, 1, 1), (2, 1, 1), hi=1, aggralg=(0, 1, 0)),
    chains("n1_in32", 1, (1, 1, 1), (1, 1, 1), inalg=(-32, -20, -20), aggralg=(1, 0, 0), extra=["W_SIGNED20=0"]),
    # the only instance that claims the lifetime verdicts for times >= 2^63 (known finding F-C01-2; keep label and check texts stable)
    chains("n1_t63", 1, (1, 1, 1), (1, 1, 1), extra=["CHECK_T63=1"]),
]
chains_t = chains_q + [
    chains("n3_idx432_l333", 3, (3, 3, 3), (4, 3, 2)),
    chains("n3_idx432_rfc4_cal", 3, (2, 2, 2), (4, 3, 2), rfc=4, cal=1, pub=1),
    chains("n3_idx421", 3, (2, 2, 2), (4, 2, 1), cont_ok=0),
    chains("n3_hi", 3, (2, 2, 2), (3, 2, 1), hi=1, aggralg=(0, 0, 1)),
]

# ---------------------------------------------------------------- ha_consistency
ALEN = {0: 20, 1: 32, 2: 20, 4: 48, 5: 64, 3: 20, 7: 28}
I, L, M = 0, 1, 2
def cons(label, n, nl, kinds=None, aggralg=(0, 0, 0), inalg=None, cal=None, hi=0, md=0, unsup=0, lcnull=None):
    if inalg is None: inalg = (-20,) + tuple(-ALEN[aggralg[c - 1]] for c in (1, 2))   # chain c can only continue chain c-1 with its digest length
    d = ["SB_NCHAINS=%d" % n, "SB_NLINKS=" + tri(nl), "SB_AGGRALG=" + tri(aggralg), "SB_INALG=" + tri(inalg)]
    if kinds: d.append("SB_KIND=" + mat(kinds))
    if cal is not None: d += ["SB_HAS_CAL=1", "SB_CAL_INALG=%d" % cal]
    if hi: d.append("SB_AGGRALG_HI=1")
    if md: d.append("SB_WITH_METADATA=1")
    if unsup: d.append("EXPECT_UNSUPPORTED=1")
    if lcnull: d.append("SB_LCNULL=" + mat(lcnull))
    return {"label": label, "defines": d}
Z = (0, 0, 0)
cons_q = [
    cons("n1_l1", 1, (1, 1, 1)),
    cons("n1_l2_legacy_lcnull", 1, (2, 1, 1), kinds=((I, L, I), Z, Z), aggralg=(1, 0, 0), lcnull=((1, 0, 0), Z, Z)),
    cons("n2_l11_cal", 2, (1, 1, 1), aggralg=(0, 2, 0), cal=-20),
    cons("n1_l1_meta_cal", 1, (1, 1, 1), kinds=((M, I, I), Z, Z), aggralg=(1, 0, 0), cal=-32, md=1),
    cons("n3_l111", 3, (1, 1, 1), aggralg=(0, 1, 2)),
    cons("n2_hi", 2, (1, 1, 1), aggralg=(1, 0, 0), hi=1),
    cons("n1_unsupported", 1, (1, 1, 1), aggralg=(3, 0, 0), unsup=1),
]
cons_t = cons_q + [
    cons("n2_l21_legacy", 2, (2, 1, 1), kinds=((L, I, I), Z, Z), aggralg=(1, 0, 0)),
    cons("n2_l12_meta_cal", 2, (1, 2, 1), kinds=(Z, (M, I, I), Z), aggralg=(0, 1, 0), cal=-32, md=1),
    cons("n3_l222_cal", 3, (2, 2, 2), aggralg=(0, 1, 0), cal=-20),
    cons("n3_l321_mixed", 3, (3, 2, 1), kinds=((L, I, M), (I, L, I), Z), aggralg=(1, 0, 2), md=1),
    cons("n2_l33", 2, (3, 3, 1), aggralg=(2, 1, 0)),
    cons("n3_hi", 3, (1, 1, 1), aggralg=(0, 0, 1), hi=1),
]

# ---------------------------------------------------------------- ha_calendar / ha_calroot
def cal(label, nl, aggr, pub=0, auth=0):
    d = ["SB_HAS_CAL=1", "SB_CAL_NLINKS=%d" % nl, "SB_CAL_HAS_AGGRTIME=%d" % aggr, "SB_CAL_SIBALG={-20,-20,-32,-20}", "SB_CAL_INALG=-20"]
    if pub: d.append("SB_HAS_PUB=1")
    if auth: d.append("SB_HAS_AUTH=1")
    return {"label": label, "defines": d}
cal_q = [cal("l1_pub", 1, 1, pub=1), cal("l2_noaggr_auth", 2, 0, auth=1), cal("l3", 3, 1)]
cal_t = cal_q + [cal("l4_pub", 4, 1, pub=1), cal("l4_noaggr_auth", 4, 0, auth=1)]

def root(label, inalg, dirs, sibs, pub):
    n = len(dirs); cur = inalg
    for d_, s_ in zip(dirs, sibs): cur = s_ if d_ else cur        # algorithm of the last step = its right operand
    D = list(dirs) + [-1] * (4 - n); S = list(sibs) + [0] * (4 - n)
    return {"label": label, "defines": ["SB_HAS_CAL=1", "SB_CAL_NLINKS=%d" % n, "SB_CAL_INALG=%d" % inalg, "SB_CAL_DIRS={%d,%d,%d,%d}" % tuple(D),
            "SB_CAL_SIBALG={%d,%d,%d,%d}" % tuple(S), "SB_PUBALG=%d" % (-ALEN[cur]), "SB_HAS_PUB=%d" % pub, "SB_HAS_AUTH=%d" % (1 - pub)]}
root_q = [root("l1_L_pub", 0, (1,), (1,), 1), root("l1_R_auth", 1, (0,), (0,), 0), root("l2_RL_pub", 0, (0, 1), (1, 2), 1), root("l2_LR_auth", 1, (1, 0), (0, 1), 0)]
root_t = root_q + [root("l3_LRL_auth", 1, (1, 0, 1), (0, 1, 1), 0), root("l4_RLLR_pub", 0, (0, 1, 1, 0), (1, 1, 0, 1), 1), root("l4_LLRL_auth", 2, (1, 1, 0, 1), (1, 0, 1, 2), 0)]

# ---------------------------------------------------------------- ha_rfc
def life(label): return {"label": label, "defines": ["MODE=0", "SB_HAS_RFC=1", "SB_RFC_ALGS={-1,-1}", "SB_INALG={-20,-20,-20}"]}
def rhash(label, ta, sa, oa, pl, inalg=-20, err=0):
    d = ["MODE=1", "SB_HAS_RFC=1", "SB_RFC_ALGS={%d,%d}" % (ta, sa), "SB_INALG={%d,-20,-20}" % oa, "SB_RFC_PRELEN={%d,%d,%d,%d}" % pl, "SB_RFC_INALG=%d" % inalg]
    if err: d.append("EXPECT_ERROR=1")
    return {"label": label, "defines": d}
rfc_q = [life("lifetime"), rhash("hash_sha1_sha256_out1", 0, 1, 1, (1, 1, 1, 1)), rhash("hash_256_ripemd_out0_pre0", 1, 2, 0, (0, 2, 2, 0), inalg=-32),
         rhash("hash_wide_tst", 0x100000001, 1, 1, (1, 1, 1, 1), err=1), rhash("hash_unsupported_sig", 1, 3, 1, (1, 1, 1, 1), err=1)]

# ---------------------------------------------------------------- ha_meta
def meta(label, t16, l0, ne, l1, t0, t1, wok, wbad, wimp):
    return {"label": label, "defines": ["SB_NCHAINS=1", "SB_NLINKS={2,1,1}", "SB_KIND={{2,0,0},{0,0,0},{0,0,0}}", "MD_E0_T16=%d" % t16, "MD_E0_LEN=%d" % l0, "MD_NE=%d" % ne,
            "MD_E1_LEN=%d" % l1, "MD_E0_TAG=%d" % t0, "MD_E1_TAG=%d" % t1, "W_PAD_OK=%d" % wok, "W_PAD_BAD=%d" % wbad, "W_IMPRINT=%d" % wimp]}
P, C = 0x1E, 0x01
meta_q = [
    meta("pad2_cid2", 0, 2, 2, 2, P, C, 1, 1, 0), meta("pad1_cid3", 0, 1, 2, 3, P, C, 1, 1, 0), meta("pad2_cid3_odd", 0, 2, 2, 3, P, C, 0, 1, 0),
    meta("pad3_cid1", 0, 3, 2, 1, P, C, 0, 1, 0), meta("pad16_cid2", 1, 2, 2, 2, P, C, 0, 1, 0), meta("cid2_pad2", 0, 2, 2, 2, C, P, 0, 0, 0),
    meta("pad2_pad2", 0, 2, 2, 2, P, P, 0, 0, 0), meta("single_cid31", 0, 31, 1, 0, C, C, 0, 0, 1), meta("single_t0_19", 0, 19, 1, 0, 0, C, 0, 0, 1),
    meta("single_cid19", 0, 19, 1, 0, C, C, 0, 0, 0),
]

INTERNAL_RULES = ['DocumentHashDoesNotExist', 'DocumentHashExistence', 'InputHashAlgorithmVerification', 'DocumentHashVerification', 'AggregationChainInputLevelVerification', 'AggregationChainInputHashAlgorithmVerification', 'Rfc3161DoesNotExist', 'Rfc3161Existence', 'Rfc3161RecordHashAlgorithmVerification', 'Rfc3161RecordOutputHashAlgorithmVerification', 'AggregationChainInputHashVerification', 'AggregationChainMetaDataVerification', 'AggregationChainHashAlgorithmVerification', 'AggregationHashChainIndexContinuation', 'AggregationHashChainTimeConsistency', 'AggregationHashChainConsistency', 'AggregationHashChainIndexConsistency', 'CalendarHashChainDoesNotExist', 'CalendarHashChainExistence', 'CalendarHashChainInputHashVerification', 'CalendarHashChainAggregationTime', 'CalendarHashChainRegistrationTime', 'CalendarChainHashAlgorithmObsoleteAtPubTime', 'SignatureDoesNotContainPublication', 'CalendarAuthenticationRecordDoesNotExist', 'CalendarAuthenticationRecordExistence', 'CalendarAuthenticationRecordAggregationHash', 'CalendarAuthenticationRecordAggregationTime', 'SignaturePublicationRecordExistence', 'SignaturePublicationRecordPublicationHash', 'SignaturePublicationRecordPublicationTime']

# the 68 address-taken rule functions are type-compatible with the hasher callbacks: without these restrictions (each one a proof
# obligation inserted by goto-instrument) CBMC treats every rule as a possible target of hsr->closeExisting(...)
HASHER_FP = ["KSI_DataHasher_add.function_pointer_call.1/hm_add", "KSI_DataHasher_close.function_pointer_call.1/hm_closeExisting",
             "KSI_DataHasher_reset.function_pointer_call.1/hm_reset", "KSI_DataHasher_free.function_pointer_call.1/hm_cleanup"]

plan = {
 "property": "C01",
 "outside": "bytes -> typed signature (parsing, C10); more than 3 aggregation chains, 3 links per chain, 4 chain-index elements, 4 calendar links; "
            "digests themselves (hash model: symbolic digests, the hashed byte streams are compared); metadata records other than the enumerated layouts; "
            "interplay of the real rules inside one verification run beyond what the fact-vector harness and the hand-over harness establish (decomposition, see level_note)",
 "assumptions": [
  "hash model U: digests are unconstrained symbolic bytes; every hash computation is logged and its algorithm and message are compared with the KSI formula",
  "typed objects satisfy the constructors' postconditions (sig_builder.h): valid algorithm id and matching length in every KSI_DataHash, one sibling kind per link, mandatory fields present",
  "well-formed signature in the fact-vector harness: publication / calendar auth record only together with a calendar chain, never both (signature_builder.c checkSignatureInternals)"
 ],
 "manifest": {
  "claimed": True,
  "technique": "bounded model checking (CBMC) of the real policy.c / verification_rule.c / hashchain.c / hash.c / signature.c text; decomposition: rule tables over a symbolic fact vector + every leaf rule against a reference predicate",
  "level_text": "Decomposed proof inside the stated shape bounds. (1) hb_policy: the REAL internalRules tables and Rule_verify, with every leaf rule replaced by a stub driven by a symbolic fact vector (5 presence facts, 21 conditions each HOLDS / VIOLATED / UNCOMPUTABLE with arbitrary status and code), report OK exactly when every applicable condition holds, FAIL with the documented INT-xx / GEN-xx code when exactly one is violated, an error status or NA when exactly one cannot be computed, never OK otherwise; FAIL always carries the code of a violated condition; each rule runs only when the record it reads is present and the calendar input-hash rule only after the chain-consistency rule. (2) ha_*: each of the 31 leaf rules of the internal policy, run on a typed signature of concrete shape with all values symbolic (64-bit times, indices, level corrections, hash ids; algorithm ids within a digest-length class; all imprint bytes), returns exactly the (status, result code, error code) of a reference predicate written from policy.h / verification_rule.h / the KSI format: presence probes, INT-01 (chains chain into each other from level 0 whatever docAggrLevel is, every hashed message and algorithm compared with the chain formula; RFC3161 record output hash), INT-02, INT-03 via the tempData hand-over, INT-04, INT-05 (calendar shape = path of the claimed time in the calendar tree; NA when the link list is no path), INT-06..09 (calendar root recomputed from the hash log), INT-10, INT-11 (padding element form, position, count, parity; imprint look-alike), INT-12, INT-13..17 (SHA-1 deprecated from 1467331200; nothing obsolete). Shapes: 1-3 aggregation chains, 1-3 links (imprint / legacy id / metadata siblings, absent level correction), chain indices 1-4 long, calendar chains 1-4 links, with/without calendar chain, publication record, calendar auth record, RFC3161 record, unsupported and >8-bit algorithm ids.",
  "level_note": "Trusted base / outside the claim: the composition of (1) and (2) is a hand argument (rules communicate only through tempData.aggregationOutputHash and the per-chain / calendar output-hash memo; the hand-over is checked in ha_consistency, no end-to-end run of real rules under the real engine is made); Rule_verify's bookkeeping list is switched off in hb_policy (its return value is ignored by Rule_verify); hash model instead of real digests; typed objects instead of parsed bytes (C10); quick shapes are a sample of the thorough ones. Time domain: all claims hold for all 64-bit values except that INT-05 verdicts are claimed for publication times < 2^63 (beyond: only 'never wrongly OK') and the lifetime verdicts (INT-13..15,17) for times >= 2^63 are claimed in ha_chains.n1_t63 only, where they are violated (KNOWN FINDING F-C01-2, hash.c:127). INT-13 is evaluated at KSI_Signature_getSigningTime (policy.h 'time of signing'). Metadata: element tags and header forms are concrete per instance (10 layouts), flags and values symbolic. See FINDINGS.md, MUTATIONS.md."
 },
 "harnesses": [
  {"name": "hc_e2e", "src": "hc_e2e.c", "env": ENV, "global_defines": ["HM_LOG_MAX=72", "HM_REC_MAX=4"], "tus": TUS + ["publicationsfile", "tlv_element", "fast_tlv"], "unwind": 14, "unwindset": ["Rule_verify.0:14"], "timeout": 600, "object_bits": 12,
   "defines": ["SB_NCHAINS=1", "SB_NLINKS={1,1,1}", "SB_IDXLEN={1,1,1}", "SB_INALG={-20,-20,-20}", "SB_AGGRALG={0,0,0}", "SB_HAS_CAL=1", "SB_CAL_NLINKS=1", "SB_CAL_DIRS={0,-1,-1,-1}", "SB_CAL_INALG=0",
               "SB_CAL_SIBALG={-20,0,0,0}", "SB_HAS_PUB=1", "SB_PUBALG=-20", "SB_HAS_DOC=1", "SB_DOCALG=-20"],
   "restrict_fp": ["Rule_verify.function_pointer_call.1/" + ",".join("KSI_VerificationRule_" + r for r in INTERNAL_RULES)] + HASHER_FP,
   "functions": ["Policy_verifySignature", "Rule_verify", "internalRules", "all 31 leaf rules of the internal policy (real)"],
   "bound": "one shape: 1 chain x 1 imprint link (SHA-1 chain), chain index of 1, calendar chain of one right link, publication record, document hash, no RFC3161 record; symbolic: all values, times below 2^63"},
  {"name": "hb_policy", "src": "hb_policy.c", "env": ["ctx", "list_wrap"], "tus": [], "unwind": 14, "unwindset": ["Rule_verify.0:14"], "timeout": 300, "object_bits": 12,
   "functions": ["Rule_verify", "Policy_verifySignature", "internalRules (all nested rule tables of the internal policy)", "KSI_VerificationContext_init", "KSI_RuleVerificationResult_init"],
   "bound": "all fact vectors: 5 presence facts x 21 conditions in {holds, violated, uncomputable} x arbitrary status / error code of an uncomputable rule; well-formed presence combinations"},
  {"name": "ha_chains", "src": "ha_chains.c", "env": ENV, "tus": TUS, "unwind": 6, "timeout": 900, "object_bits": 12,
   "functions": ["KSI_VerificationRule_AggregationHashChainIndexContinuation", "KSI_VerificationRule_AggregationHashChainIndexConsistency", "KSI_VerificationRule_AggregationHashChainTimeConsistency",
                 "KSI_VerificationRule_AggregationChainHashAlgorithmVerification", "KSI_VerificationRule_AggregationChainInputHashAlgorithmVerification", "KSI_VerificationRule_AggregationChainInputHashVerification (no RFC3161 record)",
                 "KSI_AggregationHashChain_calculateShape", "KSI_checkHashAlgorithmAt", "KSI_Signature_getSigningTime", "KSI_Signature_getDocumentHash", "rfc3161_verifyChainIndex", "rfc3161_verifyAggrTime",
                 "KSI_VerificationRule_Rfc3161DoesNotExist", "KSI_VerificationRule_Rfc3161Existence", "KSI_VerificationRule_CalendarHashChainDoesNotExist", "KSI_VerificationRule_CalendarHashChainExistence",
                 "KSI_VerificationRule_SignatureDoesNotContainPublication", "KSI_VerificationRule_SignaturePublicationRecordExistence", "KSI_VerificationRule_CalendarAuthenticationRecordDoesNotExist", "KSI_VerificationRule_CalendarAuthenticationRecordExistence"],
   "bound": "shapes: 1-3 chains x 1-3 links x chain index lengths 1-3 (thorough 1-4) incl. non-continuing length patterns x RFC3161 record (index length equal / different) x calendar chain with / without aggregation time x publication / auth record; symbolic: all 64-bit times and indices, link directions, algorithm ids in the digest-length class, hash_id high 32 bits (instances *_hi)",
   "instances": chains_q, "thorough": {"instances": chains_t, "timeout": 900}},
  {"name": "ha_consistency", "src": "ha_consistency.c", "env": ENV, "global_defines": ["HM_LOG_MAX=72", "HM_REC_MAX=9"], "tus": TUS + ["tlv_element", "fast_tlv"], "unwind": 6, "timeout": 900, "object_bits": 12,
   "functions": ["KSI_VerificationRule_AggregationHashChainConsistency", "KSI_VerificationRule_CalendarHashChainInputHashVerification", "initAggregationOutputHash", "KSI_AggregationHashChain_aggregate",
                 "KSI_HashChain_aggregate", "aggregateChain", "dataHasher_addLinkImprint", "KSI_DataHash_equals", "KSI_DataHasher_add", "KSI_DataHasher_close", "KSI_TlvElement_serialize"],
   "bound": "shapes: 1-3 chains x 1-2 links (thorough up to 3) x sibling kinds imprint / legacy id / metadata x chain algorithms SHA-1 / SHA2-256 / RIPEMD-160 (+ unsupported id 3, ids beyond 32 bit) x calendar chain present; symbolic: directions, 64-bit level corrections, all imprint bytes, docAggrLevel",
   "instances": cons_q, "thorough": {"instances": cons_t, "timeout": 1500}},
  {"name": "ha_calendar", "src": "ha_calendar.c", "env": ENV, "tus": TUS + ["publicationsfile"], "unwind": 7, "timeout": 900, "object_bits": 12, "solver": "kissat",
   "functions": ["KSI_VerificationRule_CalendarHashChainAggregationTime", "KSI_VerificationRule_CalendarHashChainRegistrationTime", "KSI_CalendarHashChain_calculateAggregationTime", "calculateCalendarAggregationTime", "highBit",
                 "KSI_VerificationRule_CalendarChainHashAlgorithmObsoleteAtPubTime", "calendarChainAggrAlgorithmState", "getNextLink", "wasObsoleteAt", "KSI_VerificationRule_SignaturePublicationRecordPublicationTime",
                 "KSI_VerificationRule_CalendarAuthenticationRecordAggregationTime"],
   "bound": "calendar chains of 1-3 links (thorough 4), aggregation time element present / absent, publication or auth record; symbolic: 64-bit publication / aggregation / record times, link directions, sibling algorithm ids",
   "instances": cal_q, "thorough": {"instances": cal_t, "timeout": 1500}},
  {"name": "ha_calroot", "src": "ha_calroot.c", "env": ENV, "global_defines": ["HM_LOG_MAX=72", "HM_REC_MAX=4"], "tus": TUS + ["publicationsfile"], "unwind": 6, "timeout": 900, "object_bits": 12,
   "functions": ["KSI_VerificationRule_SignaturePublicationRecordPublicationHash", "KSI_VerificationRule_CalendarAuthenticationRecordAggregationHash", "KSI_CalendarHashChain_aggregate", "KSI_HashChain_aggregateCalendar",
                 "aggregateChain (calendar mode)", "KSI_DataHash_equals"],
   "bound": "calendar chains of 1-3 links (thorough 4) with concrete directions and SHA-1 / SHA2-256 / RIPEMD-160 operands; symbolic: all imprint bytes, the record's algorithm id within its length class",
   "instances": root_q, "thorough": {"instances": root_t, "timeout": 1500}},
  {"name": "ha_rfc", "src": "ha_rfc.c", "env": ENV, "global_defines": ["HM_LOG_MAX=72", "HM_REC_MAX=4"], "tus": TUS, "unwind": 6, "timeout": 300, "object_bits": 12,
   "functions": ["KSI_VerificationRule_Rfc3161RecordHashAlgorithmVerification", "KSI_VerificationRule_Rfc3161RecordOutputHashAlgorithmVerification", "KSI_VerificationRule_AggregationChainInputHashVerification",
                 "rfc3161_getOutputHash", "rfc3161_preSufHasher", "rfc3161_extractOutputHashAlgorithm", "KSI_DataHash_create", "KSI_checkHashAlgorithmAt"],
   "bound": "lifetime rules: fully symbolic 64-bit algorithm ids and times; input hash rule: algorithm triples (SHA-1, SHA2-256, SHA2-256), (SHA2-256, RIPEMD-160, SHA-1), an id beyond 32 bit, an unsupported id; prefix / suffix lengths 0-2; all bytes symbolic",
   "instances": rfc_q},
  {"name": "ha_meta", "src": "ha_meta.c", "env": ENV, "tus": TUS + ["tlv_element", "fast_tlv"], "unwind": 8, "unwindset": ["VERIF_List_foldl.0:6", "filter_tags.0:4", "convertToNested.0:6"], "timeout": 300, "object_bits": 12,
   "restrict_fp": ["KSI_List_free.function_pointer_call.1/KSI_TlvElement_free", "VERIF_List_foldl.function_pointer_call.1/filter_tags"],
   "functions": ["KSI_VerificationRule_AggregationChainMetaDataVerification", "metaDataPadding_verify", "KSI_TlvElement_getElement", "convertToNested", "filter_tags", "KSI_TlvElement_parse", "KSI_getHashLength"],
   "bound": "10 metadata record layouts (padding of length 1 / 2 / 3, TLV8 / TLV16 header, first / second / twice, even / odd record length; single element records of 21 and 33 bytes starting with 00 / 01); symbolic: N and F flags of both element headers, all value bytes",
   "instances": meta_q},
  # shared with C19 H-7 (same source): a successful KSI_SignatureBuilder_close has sorted the chain list - the order every
  # internal rule relies on (element 0 = chain with the longest index) - for parsed and scratch-built signatures alike
  {"name": "hb_close_order", "src": "../C19/h7_builder_close.c", "env": ["ctx", "fmt_stub"], "tus": [], "unwind": 4, "object_bits": 10, "timeout": 120, "mem_gb": 8,
   "functions": ["KSI_SignatureBuilder_close", "checkSignatureInternals"],
   "bound": "KSI_SignatureBuilder_close (real) with every callee a stub of symbolic outcome, element pre-installed (parsed signature) or not: a successful close has sorted the aggregation chain list (the order the internal rules rely on); shared with C19 H-7",
   "instances": [{"label": "scratch", "defines": ["PRE_TLV=0"]}, {"label": "preinstalled", "defines": ["PRE_TLV=1"]}]},
 ]
}
json.dump(plan, open(os.path.join(HERE, "plan.json"), "w"), indent=1)
print("wrote plan.json: %d harnesses, %d quick instances" % (len(plan["harnesses"]), sum(len(h.get("instances", [1])) for h in plan["harnesses"])))
