/* C02 H-6b: KSI_Signature_verifyDocument hashes the document with the algorithm of the SIGNED hash (input hash of the
 * RFC3161 record if present, else of the first aggregation chain) and verifies that hash, at level 0, under the general
 * policy; every non-OK verdict becomes a non-OK return.
 * Real code: signature_helper.c (KSI_Signature_verifyDocument, KSI_Signature_getHashAlgorithm, KSI_Signature_verifyWithPolicy),
 * signature.c KSI_Signature_getDocumentHash, hash.c KSI_DataHash_create + hasher front end; hash model U.
 * Stubs: KSI_SignatureVerifier_verify (records what it is given, arbitrary outcome), KSI_PolicyVerificationResult_free,
 * KSI_VerificationContext_init (body of policy.c:931).
 * Shape per instance: RFC3161 record present?, algorithm of the signed hash (concrete: it selects the hasher), document length. */
#include "verif.h"
#include "internal.h"
#include "policy.h"
#include "signature_helper.h"
#include "ctx.h"
#include "hash_model.h"
#include "verif_post.h"
#include "types_base.c"
#include "sig_builder.h"

#ifndef DOC_LEN
#define DOC_LEN 3
#endif
#ifndef SIGNED_ALG
#define SIGNED_ALG 1
#endif

static unsigned ver_calls, free_calls;
static const KSI_Policy *seen_policy;
static KSI_uint64_t seen_level;
static KSI_Signature *seen_sig;
static u8 seen_doc[66]; static size_t seen_doc_len; static int seen_doc_null;
static int ver_res, ver_rc;
static KSI_PolicyVerificationResult the_result;
static const struct { const void *a, *b, *c; } pol_general;
const KSI_Policy *KSI_VERIFICATION_POLICY_GENERAL = (const KSI_Policy *)&pol_general;

int KSI_SignatureVerifier_verify(const KSI_Policy *policy, KSI_VerificationContext *context, KSI_PolicyVerificationResult **result) {
	ver_calls++;
	seen_policy = policy; seen_level = context->docAggrLevel; seen_sig = context->signature;
	seen_doc_null = (context->documentHash == NULL);
	if (context->documentHash != NULL) {      /* copy: the caller releases the hash after the call */
		seen_doc_len = context->documentHash->imprint_length;
		for (unsigned i = 0; i < 66; i++) seen_doc[i] = context->documentHash->imprint[i];
	}
	if (ver_res == KSI_OK) {
		memset(&the_result, 0, sizeof(the_result));
		the_result.ref = 1;
		the_result.finalResult.resultCode = (KSI_VerificationResultCode)ver_rc;
		the_result.resultCode = (KSI_VerificationResultCode)ver_rc;
		*result = &the_result;
	}
	return ver_res;
}
void KSI_PolicyVerificationResult_free(KSI_PolicyVerificationResult *result) { if (result != NULL) free_calls++; }
int KSI_VerificationContext_init(KSI_VerificationContext *context, KSI_CTX *ctx) {
	if (context == NULL || ctx == NULL) return KSI_INVALID_ARGUMENT;
	memset(context, 0, sizeof(*context));
	context->ctx = ctx;
	return KSI_OK;
}

void harness(void) {
	VERIF_ctx_init();
	VERIF_hm_init(0);
	KSI_CTX *ctx = VERIF_ctx;
	sb_build(ctx);
	u8 doc[DOC_LEN > 0 ? DOC_LEN : 1];
	for (unsigned i = 0; i < DOC_LEN; i++) doc[i] = ND(u8, doc);
	ver_res = ND(int, ver_res); ver_rc = ND(int, ver_rc);
	ASSUME(ver_rc == KSI_VER_RES_OK || ver_rc == KSI_VER_RES_NA || ver_rc == KSI_VER_RES_FAIL);

	int res = KSI_Signature_verifyDocument(sb_sig, ctx, doc, DOC_LEN);

	CHECK(VERIF_hm_overflow == 0, "C02.H6 hash-model log large enough");
	CHECK(VERIF_hm_nrec == 1 && VERIF_hm_rec[0].alg == SIGNED_ALG && VERIF_hm_rec[0].len == DOC_LEN, "C02.H6 verifyDocument hashes the document once with the algorithm of the signed hash");
	int msg_ok = 1;
	for (unsigned i = 0; i < DOC_LEN; i++) if (VERIF_hm_rec[0].msg[i] != doc[i]) msg_ok = 0;
	CHECK(msg_ok, "C02.H6 verifyDocument hashes exactly the document bytes");
	CHECK(ver_calls == 1 && seen_policy == KSI_VERIFICATION_POLICY_GENERAL && seen_sig == sb_sig && seen_level == 0 && !seen_doc_null, "C02.H6 verifyDocument verifies under the general policy at level 0 with a document hash");
	int doc_ok = (seen_doc_len == 1 + sb_alg_len(SIGNED_ALG) && seen_doc[0] == SIGNED_ALG);
	for (unsigned i = 0; i < 64; i++) if (i < sb_alg_len(SIGNED_ALG) && seen_doc[1 + i] != VERIF_hm_rec[0].digest[i]) doc_ok = 0;
	CHECK(doc_ok, "C02.H6 the verifier is given the imprint of the document's digest");
	CHECK((res == KSI_OK) == (ver_res == KSI_OK && ver_rc == KSI_VER_RES_OK), "C02.H6 verifyDocument returns KSI_OK exactly for an OK verdict");
	if (res == KSI_OK) WITNESS_POINT("verifyDocument OK");
	if (ver_res == KSI_OK && ver_rc == KSI_VER_RES_FAIL && res != KSI_OK) WITNESS_POINT("verifyDocument FAIL verdict");
}
