/* C20 H-0a: the decimal strtoul model (env/c20_strtoul.c) against the positional-value specification:
 * for a string of NDIG digits followed by a non-digit terminator, the result is sum digit_i * 10^(NDIG-1-i)
 * and *endptr points at the terminator (at the start when there is no digit).  Under -DREPLAY the same
 * harness calls the C library's strtoul, so a replayed counterexample validates the specification itself. */
#include "verif.h"
#ifdef REPLAY
#define c20_strtoul_model strtoul
#else
unsigned long c20_strtoul_model(const char *nptr, char **endptr, int base);
#endif
#ifndef NDIG
#define NDIG 3
#endif
void harness(void) {
	char s[NDIG + 2]; unsigned long exp = 0;
	for (unsigned i = 0; i < NDIG; i++) { s[i] = (char)ND(u8, digit); ASSUME(s[i] >= '0' && s[i] <= '9'); exp = exp * 10 + (unsigned long)(s[i] - '0'); }
	s[NDIG] = (char)ND(u8, terminator);
	ASSUME(!(s[NDIG] >= '0' && s[NDIG] <= '9'));
#if NDIG == 0
	/* no conversion: leading white space / sign are outside the model's domain (it asserts so) */
	ASSUME(s[0] != ' ' && s[0] != '\t' && s[0] != '\n' && s[0] != '\v' && s[0] != '\f' && s[0] != '\r' && s[0] != '+' && s[0] != '-');
#endif
	s[NDIG + 1] = 0;
	char *end = NULL;
	unsigned long v = c20_strtoul_model(s, &end, 10);
	CHECK(v == exp, "C20.H0a strtoul model returns the decimal value of the digit string");
	CHECK(end == s + NDIG, "C20.H0a strtoul model sets endptr to the first non-digit");
	CHECK(c20_strtoul_model(s, NULL, 10) == exp, "C20.H0a strtoul model accepts a NULL endptr");
#if NDIG == 5
	if (v == 65535) WITNESS_POINT("65535");
#endif
	if (s[NDIG] == '/') WITNESS_POINT("number terminated by a slash");
}
