/* C11 H-2: the data-hash recycler (hash.c alloc_dataHash / KSI_DataHash_free with ctx->dataHashRecycle and
 * KSI_OPT_DATAHASH_CACHE_SIZE), driven through the public constructors.
 * Per instance a CONCRETE sequence of <= 5 operations  create (KSI_DataHash_fromDigest) / create via a hasher
 * (KSI_DataHash_create) / KSI_DataHash_ref / KSI_DataHash_free  on up to 3 handles and a concrete cache size;
 * digest bytes are symbolic.  The context carries a REAL recycle list, as KSI_CTX_new installs it.
 * After EVERY operation:
 *   - an object handed out by a constructor is never one the user still holds a reference to;
 *   - every live hash still has exactly the imprint it was created with, the user's reference count and its context;
 *   - the recycle bin holds at most CACHE_SIZE objects, none of them live, no object twice.
 * At the end everything is released and CBMC's leak / double-free / use-after-free checks must pass. */
#include "verif.h"
#include "internal.h"
#include "impl/hash_impl.h"
#include "impl/ctx_impl.h"
#include "ctx.h"
#include "verif_post.h"
#ifndef NOPS
#define NOPS 3
#define OPS {0, 1, 0, 0, 0}
#define ARGS {0, 0, 1, 0, 0}
#define EXPECT_RECYCLE 1
#endif
#ifndef CACHE
#define CACHE 1
#endif
#define MAXH 3
enum { OP_CREATE = 0, OP_FREE = 1, OP_REF = 2, OP_HASHER = 3 };
static const int ops[5] = OPS, args[5] = ARGS;

static KSI_DataHash *h[MAXH];
static unsigned owned[MAXH];
static u8 imp[MAXH][21];
static unsigned nh;

static void check_state(KSI_CTX *ctx) {
	unsigned i, j, k;
	int live_ok = 1, bin_ok = 1;
	for (i = 0; i < MAXH; i++) {
		if (i >= nh || owned[i] == 0) continue;
		if (h[i]->ref != owned[i] || h[i]->ctx != ctx || h[i]->imprint_length != 21) live_ok = 0;
		for (k = 0; k < 21; k++) if (h[i]->imprint[k] != imp[i][k]) live_ok = 0;
	}
	CHECK(live_ok, "C11.H2 a live hash keeps its imprint, its context and exactly the references the user holds");
	size_t n = KSI_DataHashList_length(ctx->dataHashRecycle);
	CHECK(n <= CACHE, "C11.H2 the recycle bin never exceeds the configured cache size");
	KSI_DataHash *bin[MAXH] = {NULL, NULL, NULL};
	for (j = 0; j < MAXH; j++) {
		if (j >= n) continue;
		if (KSI_DataHashList_elementAt(ctx->dataHashRecycle, j, &bin[j]) != KSI_OK || bin[j] == NULL) { bin_ok = 0; continue; }
		if (bin[j]->ref != 0) bin_ok = 0;
		for (i = 0; i < MAXH; i++) if (i < nh && owned[i] > 0 && h[i] == bin[j]) bin_ok = 0;
		for (k = 0; k < j; k++) if (bin[k] == bin[j]) bin_ok = 0;
	}
	CHECK(bin_ok, "C11.H2 the recycle bin holds only unreferenced objects, each once, none of them live");
}

void harness(void) {
	VERIF_ctx_init();
	KSI_CTX *ctx = VERIF_ctx; int res; unsigned s, i, k;
	int recycled = 0, really_freed = 0;
	res = KSI_DataHashList_new(&ctx->dataHashRecycle); ASSUME(res == KSI_OK);       /* base.c:327 */
	res = KSI_CTX_setOption(ctx, KSI_OPT_DATAHASH_CACHE_SIZE, (void *)(size_t)CACHE); ASSUME(res == KSI_OK);

	for (s = 0; s < NOPS; s++) {
		unsigned a = (unsigned)args[s];
		if (ops[s] == OP_CREATE || ops[s] == OP_HASHER) {
			KSI_DataHash *nw = NULL;
			size_t bin_before = KSI_DataHashList_length(ctx->dataHashRecycle);
			if (ops[s] == OP_CREATE) {
				u8 d[20]; for (k = 0; k < 20; k++) d[k] = ND(u8, digest);
				res = KSI_DataHash_fromDigest(ctx, KSI_HASHALG_SHA1, d, 20, &nw);
			} else {
				u8 m[4]; for (k = 0; k < 4; k++) m[k] = ND(u8, msg);
				res = KSI_DataHash_create(ctx, m, 4, KSI_HASHALG_SHA1, &nw);
			}
			CHECK(res == KSI_OK && nw != NULL, "C11.H2 constructor succeeds");
			if (res != KSI_OK || nw == NULL) return;
			int aliased = 0;
			for (i = 0; i < MAXH; i++) if (i < nh && owned[i] > 0 && h[i] == nw) aliased = 1;
			CHECK(!aliased, "C11.H2 a handed-out object is never one that is still referenced");
			if (bin_before > 0) recycled = 1;
			h[nh] = nw; owned[nh] = 1;
			for (k = 0; k < 21; k++) imp[nh][k] = nw->imprint[k];
			CHECK(nw->imprint[0] == KSI_HASHALG_SHA1 && nw->imprint_length == 21, "C11.H2 a recycled object is fully re-initialised");
			nh++;
		} else if (ops[s] == OP_REF) {
			KSI_DataHash *r = KSI_DataHash_ref(h[a]);
			CHECK(r == h[a], "C11.H2 ref returns its argument");
			owned[a]++;
		} else {
			size_t bin_before = KSI_DataHashList_length(ctx->dataHashRecycle);
			owned[a]--;
			KSI_DataHash_free(h[a]);
			if (owned[a] == 0 && bin_before == CACHE) really_freed = 1;
		}
		check_state(ctx);
	}
#ifdef EXPECT_RECYCLE
	if (recycled) WITNESS_POINT("a constructor was served from the recycle bin");
#endif
#ifdef EXPECT_OVERFLOW
	if (really_freed) WITNESS_POINT("recycle bin full: object released to the allocator");
#endif
	/* release everything */
	for (i = 0; i < MAXH; i++) while (i < nh && owned[i] > 0) { owned[i]--; KSI_DataHash_free(h[i]); }
	KSI_DataHashList_free(ctx->dataHashRecycle);
	ctx->dataHashRecycle = NULL;
	WITNESS_POINT("sequence completed and everything released");
}
