/* C18 H-1: record structure of a publications file and the signed range.
 *
 * Real code: KSI_PublicationsFile_parse, generateNextTlv and the KSI_PublicationsFile template rows
 * (publicationsfile.c, included below), the template engine (tlv_template.c: extractGenerator, extractComposite,
 * extractObject, storeObjectValue), tlv.c (KSI_TLV_parseBlob2, nested parsing; included below), list.c, the
 * record constructors / destructors (types.c), KSI_PKISignature_fromTlv (pkitruststore.c),
 * KSI_PublicationsFile_getSignedDataLength, KSI_PublicationsFile_verify.
 * Stubbed / cut:
 *  (1) the INTERNALS of header / certificate / publication records: the three sub-template names used by the
 *      top-level template rows are redirected to one-row stub templates (record internals are C10's subject);
 *  (2) PKCS#7 parsing and verification (env/c18_pki_model.c: "DER parses" and the verdict are symbolic);
 *  (3) the byte-level header decoder KSI_FTLV_memRead is cut WITH a proof obligation (see cut_memRead).
 *
 * One instance = a group of CASES, run one after the other.  A case is a CONCRETE sequence of record kinds
 * (CBMC cannot merge the allocation-heavy parse paths of different tag sequences: a symbolic tag did not finish
 * in 25 minutes for two records); within a case the non-critical and forward flag of every record, all payload
 * bytes and the 8 magic bytes are symbolic.  Record kinds: 1 header 0x0701, 2 certificate 0x0702,
 * 3 publication 0x0703, 4 signature 0x0704, 5 unknown 0x0705, 6 unknown 0x0700, 7 unknown TLV8 tag 0x05,
 * 8 unknown 0x0801.  Payload lengths follow a fixed rotation (3,2,4,5 bytes; 0 where the case says so); a non-empty payload is one
 * nested element "0x5f len bytes.." (non-critical, unknown to the stub templates), acceptable as content of a
 * composite record, as signature bytes and as unknown record alike.  A case may add one trailing byte or cut
 * bytes off the end.
 *
 * Reference (from the property text / file format, over the kind sequence):
 *   phases: 0 start -> header -> 1 -> (certificates)* -> (publications)* 2 -> signature -> 3 end
 *   header: only in phase 0; certificate: only in phase 1; publication: phase 1 or 2; signature: phase 1 or 2;
 *   unknown tag: ignored if flagged non-critical (any phase before 3), otherwise refused; nothing at all after
 *   the signature; accepted iff the magic is "KSIPUBLF", the records tile the input exactly, the final phase
 *   is 3 and the signature bytes are non-empty and parse (model outcome);
 *   signedDataLength = 8 + total size of the records before the signature record.
 *   (A repeated header is refused whatever its non-critical flag says - the snapshot of libksi ignored it when it
 *   was flagged non-critical; fixed in /repo by b52f8bb, see MUTATIONS.md.) */
#include "verif.h"
#include "internal.h"
#include "impl/publicationsfile_impl.h"
#include "impl/ctx_impl.h"
#include "tlv_template.h"
#include "fast_tlv.h"
#include "ctx.h"
#include "c18_pki_model.h"
#include "verif_post.h"

/* ---- stub sub-templates (record internals) ---- */
static int stub_get(const void *o, void **v) { (void)o; *v = NULL; return KSI_OK; }
static int stub_set(void *o, void *v) { (void)o; (void)v; return KSI_OK; }
static int stub_fromTlv(KSI_TLV *tlv, void **o) { (void)tlv; *o = NULL; return KSI_OK; }
static void stub_free(void *o) { (void)o; }
#define STUB_TEMPLATE(name) const KSI_TlvTemplate name[] = { \
	KSI_TLV_OBJECT(0x01, KSI_TLV_TMPL_FLG_NONE, stub_get, stub_set, stub_fromTlv, NULL, stub_free, "stub") KSI_END_TLV_TEMPLATE
STUB_TEMPLATE(C18_stub_header_template)
STUB_TEMPLATE(C18_stub_cert_template)
STUB_TEMPLATE(C18_stub_pub_template)

/* ---- cut with proof obligation: the byte-level header decoder (README lesson 12) ----
 * The first header byte carries the symbolic N/F flags next to the bit that selects the header form, so for
 * CBMC every length would be path dependent.  All calls of KSI_FTLV_memRead made by tlv.c and
 * publicationsfile.c (both included as text) are redirected to cut_memRead, which runs the REAL
 * KSI_FTLV_memRead (fast_tlv.c, linked) on the same arguments, CHECKs that it reports exactly the header and
 * tag, header and payload lengths this case put at that position (or the expected refusal), and returns those
 * CONSTANTS together with the real, symbolic flags.  (KSI_FTLV_memRead is proved against the format by C09.) */
static int cut_memRead(const unsigned char *m, size_t l, KSI_FTLV *t);
#define KSI_FTLV_memRead cut_memRead
#include "tlv.c"
#define KSI_PublicationsHeader_template C18_stub_header_template
#define KSI_CertificateRecord_template C18_stub_cert_template
#define KSI_PublicationRecord_template C18_stub_pub_template
#include "publicationsfile.c"
#undef KSI_PublicationsHeader_template
#undef KSI_CertificateRecord_template
#undef KSI_PublicationRecord_template
#undef KSI_FTLV_memRead

#define MAXREC 6
#define MAXBUF 64
struct c18_case { int n; int kind[MAXREC]; int trail; int cut; int empty_mask; };   /* empty_mask bit i: record i has no payload */
#ifndef CASES
#define NCASES 2
#define CASES {{2, {1, 4}, 0, 0, 0}, {4, {1, 2, 3, 4}, 0, 0, 0}}
#endif
static const struct c18_case cases[NCASES] = CASES;
static const int plrot[4] = {3, 2, 4, 5};

/* state of the case in progress, read by the cut */
static const u8 *cur_raw; static unsigned cur_n, cur_off[MAXREC + 1], cur_hdr[MAXREC], cur_pl[MAXREC], cur_tag[MAXREC], cur_rec;
static int cut_memRead(const unsigned char *m, size_t l, KSI_FTLV *t) {
#ifdef REPLAY
	return KSI_FTLV_memRead(m, l, t);
#else
	KSI_FTLV real;
	int res = KSI_FTLV_memRead(m, l, &real);
	unsigned e_hdr = 0, e_dat = 0, e_tag = 0; int known = 0;
	size_t o = __CPROVER_POINTER_OFFSET(m);
	if (__CPROVER_same_object(m, cur_raw)) {
		/* generateNextTlv reads the next record of the input (o == cur_off[cur_n]: the trailing byte) */
		for (unsigned i = 0; i < MAXREC; i++) if (i < cur_n && o == cur_off[i]) { known = 1; cur_rec = i; e_hdr = cur_hdr[i]; e_dat = cur_pl[i]; e_tag = cur_tag[i]; }
	} else {
		/* tlv.c reads from the private copy of record cur_rec: offset 0 = the record, offset = its header length = its nested element */
		if (o == 0) { known = 1; e_hdr = cur_hdr[cur_rec]; e_dat = cur_pl[cur_rec]; e_tag = cur_tag[cur_rec]; }
		else if (o == cur_hdr[cur_rec] && cur_pl[cur_rec] >= 2) { known = 1; e_hdr = 2; e_dat = cur_pl[cur_rec] - 2; e_tag = 0x1f; }
	}
	int e_ok = known && l >= e_hdr + e_dat;
	CHECK(known || l < 2, "C18.H1 [cut] every position the TLV reader is applied to is a record, its copy, its nested element or a single trailing byte");
	CHECK((res == KSI_OK) == e_ok && (res == KSI_OK || res == KSI_INVALID_FORMAT), "C18.H1 [cut] KSI_FTLV_memRead accepts exactly the complete elements of the generated input");
	if (res == KSI_OK) CHECK(real.off == 0 && real.hdr_len == e_hdr && real.dat_len == e_dat && real.tag == e_tag, "C18.H1 [cut] KSI_FTLV_memRead reports the tag, header and payload length generated at this position");
	if (!e_ok) return KSI_INVALID_FORMAT;
	t->off = 0; t->hdr_len = e_hdr; t->dat_len = e_dat;
	t->tag = e_tag; t->is_nc = real.is_nc; t->is_fwd = real.is_fwd;
	return KSI_OK;
#endif
}

static void run_case(KSI_CTX *ctx, const struct c18_case *c, unsigned ci) {
	u8 buf[MAXBUF]; unsigned n = 0;
	unsigned off[MAXREC], size[MAXREC]; int nfl[MAXREC];
	static const char magic[8] = {'K', 'S', 'I', 'P', 'U', 'B', 'L', 'F'};
	int magic_ok = 1;
	VERIF_pki_init();
	for (unsigned i = 0; i < 8; i++) { buf[n] = ND(u8, magic_byte); if (buf[n] != (u8)magic[i]) magic_ok = 0; n++; }
	for (unsigned i = 0; i < MAXREC; i++) if ((int)i < c->n) {
		int k = c->kind[i];
		unsigned pl = ((c->empty_mask >> i) & 1) ? 0 : (unsigned)plrot[(ci + i) % 4];
		unsigned fl = (ND_BOOL(noncritical_flag) ? 0x40u : 0u) | (ND_BOOL(forward_flag) ? 0x20u : 0u);
		off[i] = n - 8; nfl[i] = (fl & 0x40) != 0;
		if (k == 7) { buf[n++] = (u8)(fl | 0x05); buf[n++] = (u8)pl; cur_hdr[i] = 2; cur_tag[i] = 0x05; }
		else {
			unsigned tag = (k >= 1 && k <= 5) ? 0x0700u + (unsigned)k : (k == 6) ? 0x0700u : 0x0801u;
			buf[n++] = (u8)(0x80 | fl | (tag >> 8)); buf[n++] = (u8)(tag & 0xff); buf[n++] = 0; buf[n++] = (u8)pl; cur_hdr[i] = 4; cur_tag[i] = tag;
		}
		if (pl >= 2) { buf[n++] = 0x5f; buf[n++] = (u8)(pl - 2); for (unsigned j = 2; j < pl; j++) buf[n++] = ND(u8, payload_byte); }
		cur_pl[i] = pl; size[i] = n - 8 - off[i]; cur_off[i] = 8 + off[i];
	}
	cur_n = (unsigned)c->n; cur_off[c->n] = n; cur_rec = 0;
	for (int i = 0; i < c->trail; i++) buf[n++] = ND(u8, trailing_byte);
	const unsigned total = n - (unsigned)c->cut;
	u8 *raw = verif_buf_alloc(total);           /* exact-size input object */
	for (unsigned i = 0; i < MAXBUF; i++) if (i < total) raw[i] = buf[i];
	cur_raw = raw;

	/* ---- reference: grammar over the kind sequence ---- */
	int phase = 0, bad = 0, dup_nc_header = 0; unsigned ncert = 0, npub = 0, sig_idx = MAXREC;
	for (unsigned i = 0; i < MAXREC; i++) if ((int)i < c->n) {
		if (phase == 3) { bad = 1; continue; }                 /* nothing after the signature */
		switch (c->kind[i]) {
			case 1:
				if (phase == 0) phase = 1;
				else { bad = 1; if (nfl[i]) dup_nc_header = 1; }   /* a second header is never tolerated, not even as "non-critical" */
				break;
			case 2: if (phase == 1) ncert++; else bad = 1; break;
			case 3: if (phase == 1 || phase == 2) { phase = 2; npub++; } else bad = 1; break;
			case 4: if (phase == 1 || phase == 2) { phase = 3; sig_idx = i; } else bad = 1; break;
			default: if (!nfl[i]) bad = 1; break;                  /* unknown: only tolerated when non-critical */
		}
	}
	const int tiles = (c->trail == 0 && c->cut == 0);          /* one trailing byte can never be a record; a cut truncates one */
	const int structure_ok = magic_ok && tiles && !bad && phase == 3;
	const int sig_nonempty = (sig_idx < MAXREC) && cur_pl[sig_idx < MAXREC ? sig_idx : 0] > 0;

	KSI_PublicationsFile *pf = NULL;
	int res = KSI_PublicationsFile_parse(ctx, raw, total, &pf);
	const int der_ok = (VERIF_pki_sig_der_ok == 1);            /* the model's choice, if it was asked */

	{
		if (!structure_ok) {
			CHECK(res != KSI_OK && pf == NULL, "C18.H1 a file that is not magic + header, certificates*, publications*, signature (unknown non-critical records tolerated, nothing after the signature, exact tiling) is refused");
#ifdef W_BADSEQ
			if (magic_ok && tiles && c->n > 0) WITNESS_POINT("wrong record sequence refused");
#endif
#ifdef W_MAGIC
			if (!magic_ok && !bad && phase == 3) WITNESS_POINT("wrong magic refused");
#endif
#ifdef W_TILING
			if (magic_ok && !tiles && !bad && phase == 3) WITNESS_POINT("trailing byte or truncated record refused");
#endif
		} else if (!sig_nonempty) {
			CHECK(res != KSI_OK && pf == NULL, "C18.H1 an empty signature record is refused");
		} else {
			CHECK(VERIF_pki_sig_new_calls == 1, "C18.H1 the signature bytes are handed to the PKI layer exactly once");
			CHECK((res == KSI_OK) == der_ok, "C18.H1 a well-structured file is accepted iff its signature bytes parse");
		}
#ifdef W_DUP
		if (dup_nc_header && magic_ok) WITNESS_POINT("repeated header flagged non-critical refused");
#endif
	}
	if (res == KSI_OK) {
		CHECK(pf != NULL && magic_ok, "C18.H1 acceptance yields a file object and implies the magic KSIPUBLF");
		if (pf != NULL) {
			size_t sdl = 0; unsigned exp_sdl = 8;
			for (unsigned i = 0; i < MAXREC; i++) if (i < sig_idx && (int)i < c->n) exp_sdl += size[i];
			CHECK(KSI_PublicationsFile_getSignedDataLength(pf, &sdl) == KSI_OK && sdl == exp_sdl && exp_sdl == 8 + off[sig_idx < MAXREC ? sig_idx : 0],
				"C18.H1 signedDataLength is the offset of the signature record (magic + all records before it)");
			int same = (pf->raw != NULL && pf->raw != raw && pf->raw_len == total);
			for (unsigned i = 0; i < MAXBUF; i++) if (same && i < total && pf->raw[i] != buf[i]) same = 0;
			CHECK(same, "C18.H1 the file object keeps a private copy of exactly the input bytes");
			CHECK(pf->header != NULL && pf->signature != NULL, "C18.H1 an accepted file has a header and a signature");
			CHECK(KSI_CertificateRecordList_length(pf->certificates) == ncert && KSI_PublicationRecordList_length(pf->publications) == npub,
				"C18.H1 every certificate and publication record of the input is in the file object, nothing else");
			/* the signed range that reaches the PKI layer */
			int v = KSI_PublicationsFile_verify(pf, ctx);
			CHECK(VERIF_pki_last.count == 1 && VERIF_pki_last.data == pf->raw && VERIF_pki_last.data_len == exp_sdl && VERIF_pki_last.signature == pf->signature && v == VERIF_pki_last.verdict,
				"C18.H1 verification passes exactly the bytes before the signature record and the parsed signature to the PKI layer");
#ifdef W_RECS
			if (ncert + npub >= 1) WITNESS_POINT("file with certificate or publication records accepted");
#endif
#ifdef W_MIN
			if (c->n == 2) WITNESS_POINT("minimal file header+signature accepted");
#endif
#ifdef W_UNK
			if (c->n > (int)(2 + ncert + npub)) WITNESS_POINT("file with an unknown non-critical record accepted");
#endif
		}
		KSI_PublicationsFile_free(pf);
	} else {
		CHECK(pf == NULL, "C18.H1 no file object on refusal");
	}
	verif_buf_free(raw, total);
}

void harness(void) {
	VERIF_ctx_init();
	for (unsigned ci = 0; ci < NCASES; ci++) run_case(VERIF_ctx, &cases[ci], ci);
#ifdef SHORT_INPUTS
	{	/* inputs shorter than the magic, and the documented argument checks */
		KSI_PublicationsFile *pf = NULL;
		u8 *shortbuf = verif_buf_alloc(7);
		for (unsigned i = 0; i < 7; i++) shortbuf[i] = ND(u8, short_input_byte);
		CHECK(KSI_PublicationsFile_parse(VERIF_ctx, shortbuf, 7, &pf) == KSI_INVALID_FORMAT && pf == NULL, "C18.H1 an input shorter than the magic is refused");
		CHECK(KSI_PublicationsFile_parse(VERIF_ctx, shortbuf, 0, &pf) == KSI_INVALID_ARGUMENT && KSI_PublicationsFile_parse(VERIF_ctx, NULL, 7, &pf) == KSI_INVALID_ARGUMENT
			&& KSI_PublicationsFile_parse(NULL, shortbuf, 7, &pf) == KSI_INVALID_ARGUMENT && KSI_PublicationsFile_parse(VERIF_ctx, shortbuf, 7, NULL) == KSI_INVALID_ARGUMENT && pf == NULL,
			"C18.H1 missing arguments and an empty input are invalid arguments");
		verif_buf_free(shortbuf, 7);
	}
#endif
	WITNESS_POINT("all cases of the group executed");
}
