/* C14 H-3a: the blocking element reader KSI_FTLV_socketRead = readData (fast_tlv.c) over KSI_IO_readSocket (io.c)
 * under EVERY chunking of the stream and every fault position, for a caller buffer of N bytes (exact-size heap
 * object) - everything symbolic: stream bytes (hence form and declared length), the size of every recv() result
 * (1..offered), and at every call the alternative outcomes peer-close, timeout/would-block, hard error, EINTR.
 *
 * Reference (written from the TLV format, tlv.h, and the property text): the element starts at stream offset 0;
 * form = bit 7 of byte 0; header 2 or 4 bytes; payload length = byte 1 resp. big-endian bytes 2..3.
 *   - the reader may take from the socket only bytes of that ONE element, and only as far as the bytes seen so
 *     far determine it: never beyond the 2-byte short header before the form is known, never beyond the header
 *     before the length is known, never beyond header+payload (the next PDU stays in the socket);
 *   - bytes arrive in the caller's buffer in stream order at their own offsets;
 *   - OK  <=>  no fault before the element is complete and it fits the buffer; then consumed == header+payload;
 *   - a fault (close, timeout, hard error) before completion => an error status, never OK (no partial element is
 *     reported as complete); EINTR is retried and loses nothing; `consumed` always equals what left the socket. */
#include <errno.h>
#include "verif.h"
#include "internal.h"
#include "fast_tlv.h"
#include "io.h"
#include "sock_model.h"

#ifndef N
#define N 8
#endif
#define STREAM_LEN (N + 4)
#if SK_CHUNK_MAX < N
#error SK_CHUNK_MAX
#endif

void harness(void) {
	VERIF_sk_reset();
	VERIF_sk_open = 1;
	VERIF_sk_rx_mode = SK_MODE_ND;
	for (unsigned i = 0; i < STREAM_LEN; i++) VERIF_sk_stream[i] = ND(u8, stream);
	VERIF_sk_stream_len = STREAM_LEN;

	u8 *buf = verif_buf_alloc(N);
	u8 pre[N];
	for (unsigned i = 0; i < N; i++) { pre[i] = ND(u8, pre); buf[i] = pre[i]; }
	KSI_FTLV t;
	memset(&t, 0, sizeof(t));
	size_t consumed = (size_t)-1;
	int res = KSI_FTLV_socketRead(VERIF_sk_fd, buf, N, &consumed, &t);

	/* ---- reference ---- */
	const u8 *s = VERIF_sk_stream;
	int is16 = (s[0] & 0x80) != 0;
	size_t hdr = is16 ? 4 : 2;
	size_t dat = is16 ? (((size_t)s[2] << 8) | s[3]) : s[1];
	unsigned tag = is16 ? (((unsigned)(s[0] & 0x1f) << 8) | s[1]) : (unsigned)(s[0] & 0x1f);
	size_t pos = VERIF_sk_rx_pos;          /* bytes that left the socket */
	/* how far the bytes already taken determine the element */
	size_t limit = (pos <= 2) ? 2 : (is16 && pos <= 4) ? 4 : hdr + dat;
#if N >= 2
	{
		CHECK(pos <= limit, "C14.H3a reader never takes bytes beyond what the element seen so far declares");
		CHECK(pos <= hdr + dat, "C14.H3a reader never takes bytes of the next element");
		CHECK(pos <= N, "C14.H3a reader never takes more bytes than the caller's buffer holds");
		CHECK(consumed == pos, "C14.H3a consumed equals the number of bytes taken from the socket");
		int same = 1;
		for (unsigned i = 0; i < N; i++) {
			if (i < pos && buf[i] != s[i]) same = 0;
			if (i >= pos && buf[i] != pre[i]) same = 0;
		}
		CHECK(same, "C14.H3a bytes land in stream order at their own offsets and nothing else is written");
		int fits = (hdr <= N) && (hdr + dat <= N);
		if (res == KSI_OK) {
			CHECK(pos == hdr + dat, "C14.H3a OK only after exactly header+payload bytes of one element");
			CHECK(fits, "C14.H3a OK only if the element fits the buffer");
			CHECK(t.hdr_len == hdr && t.dat_len == dat && t.tag == tag, "C14.H3a reported header fields are the encoded ones");
			CHECK(VERIF_sk_rx_last_errno == 0 || VERIF_sk_rx_last_errno == EINTR, "C14.H3a OK only if no call failed except by EINTR");
#if N >= 5
			if (is16 && dat > 0 && VERIF_sk_rx_calls >= 5) WITNESS_POINT("tlv16 element reassembled from >= 5 chunks");
#endif
			if (!is16 && VERIF_sk_rx_last_errno == EINTR) WITNESS_POINT("tlv8 element read across an EINTR");
			if (hdr + dat == N) WITNESS_POINT("element filling the buffer exactly");
		} else {
			CHECK(pos < hdr + dat || !fits, "C14.H3a a completely delivered fitting element is not rejected");
			if (pos == hdr && !fits) {
				CHECK(res == KSI_BUFFER_OVERFLOW, "C14.H3a element larger than the buffer is refused with BUFFER_OVERFLOW before any payload is taken");
				WITNESS_POINT("oversized element refused after the header");
			} else if (!(is16 && N < 4 && pos == 2)) {
				CHECK(res == KSI_NETWORK_ERROR || res == KSI_NETWORK_RECIEVE_TIMEOUT || res == KSI_IO_ERROR, "C14.H3a short read ends with a network/io error status");
				CHECK(res != KSI_NETWORK_ERROR || VERIF_sk_rx_last_errno == 0 || VERIF_sk_rx_last_errno == EINTR, "C14.H3a NETWORK_ERROR means the peer closed");
#if N >= 4
				if (pos > hdr && res == KSI_NETWORK_ERROR) WITNESS_POINT("peer close inside the payload");
#endif
				if (pos == 1 && res == KSI_NETWORK_RECIEVE_TIMEOUT) WITNESS_POINT("timeout inside the header");
			} else {
				CHECK(res == KSI_BUFFER_OVERFLOW, "C14.H3a long-form header does not fit a buffer shorter than 4");
			}
		}
	}
#else
	{
		(void)limit; (void)tag;
		CHECK(res == KSI_INVALID_ARGUMENT && pos == 0, "C14.H3a buffer shorter than a header is refused without touching the socket");
		WITNESS_POINT("too short buffer refused");
	}
#endif
	verif_buf_free(buf, N);
}
