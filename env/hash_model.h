#ifndef VERIF_HASH_MODEL_H_
#define VERIF_HASH_MODEL_H_
#ifndef HM_LOG_MAX
#define HM_LOG_MAX 72
#endif
#ifndef HM_REC_MAX
#define HM_REC_MAX 4
#endif
struct hm_rec { int alg; size_t len; unsigned char msg[HM_LOG_MAX]; unsigned char digest[64]; };
extern struct hm_rec VERIF_hm_rec[HM_REC_MAX];
extern unsigned VERIF_hm_nrec;
extern int VERIF_hm_overflow, VERIF_hm_memo;
void VERIF_hm_init(int memo);
#endif
