#!/usr/bin/env python3
"""Generates harness/C06/plan.json (instance lists are enumerated here; run after editing)."""
import json, os

ALG = {"sha1": 0, "sha256": 1, "rmd160": 2, "sha384": 4, "sha512": 5}
BLOCK = {"sha1": 64, "sha256": 64, "rmd160": 64, "sha384": 128, "sha512": 128}


def h1_inst(alg, kl, ml, split=None):
    d = ["ALG=%d" % ALG[alg], "KL=%d" % kl, "ML=%d" % ml]
    lab = "%s_k%d_m%d" % (alg, kl, ml)
    if split is not None:
        d.append("SPLIT=%d" % split)
        lab += "_s%d" % split
    return {"label": lab, "defines": d}


def h1(name, block, quick, thorough):
    logmax = {64: 104, 128: 200}[block]
    return {
        "name": name, "src": "h1_hmac.c",
        "global_defines": ["HM_LOG_MAX=%d" % logmax, "HM_REC_MAX=3"],
        "env": ["ctx", "hash_model", "list_wrap", "fmt_stub"],
        "tus": ["hmac", "hash"],
        "unwind": block + 8, "harness_unwind": logmax + 8,
        "cbmc_flags": ["--max-field-sensitivity-array-size", "256"],
        "object_bits": 10, "timeout": 300, "mem_gb": 8,
        "functions": ["KSI_HMAC_create", "KSI_HmacHasher_open", "KSI_HmacHasher_reset", "KSI_HmacHasher_add", "KSI_HmacHasher_close",
                      "KSI_DataHasher_add", "KSI_DataHasher_close", "KSI_DataHasher_reset", "KSI_DataHash_extract"],
        "bound": "block size %d: key length and message length concrete per instance (keys shorter than, equal to and longer than the block; "
                 "messages of 0..8 bytes), every key byte (1..255), message byte and digest byte symbolic; strlen modelled as the concrete length "
                 "with the proof obligation that it is the string's length" % block,
        "instances": quick,
        "thorough": {"instances": thorough, "timeout": 900},
    }


PAY = {"req": 0, "resp": 1, "confreq": 2, "confresp": 3, "none": 4}


def h2_inst(ext, pay, has_raw=1, has_hdr=1, hdr_raw=1, pl_raw=1):
    lab = "%s_%s_raw%d_hdr%d_v1raw%d%d" % ("ext" if ext else "aggr", pay, has_raw, has_hdr, hdr_raw, pl_raw)
    return {"label": lab, "defines": ["PDU_EXT=%d" % ext, "PAYLOAD=%d" % PAY[pay], "HAS_RAW=%d" % has_raw, "HAS_HDR=%d" % has_hdr,
                                      "HDR_RAW=%d" % hdr_raw, "PL_RAW=%d" % pl_raw]}


def h2():
    insts = []
    for ext in (0, 1):
        insts += [h2_inst(ext, "resp", 1, 1, 1, 1),       # received response (the verify path)
                  h2_inst(ext, "req", 0, 1, 0, 0),        # locally built request (the enclose path)
                  h2_inst(ext, "confresp", 1, 1, 1, 1),
                  h2_inst(ext, "confreq", 0, 1, 0, 0),
                  h2_inst(ext, "none", 1, 1, 1, 1),       # e.g. ack-only / error-only PDU
                  h2_inst(ext, "resp", 1, 0, 1, 1)]       # header missing
    insts += [h2_inst(0, "req", 1, 1, 1, 0), h2_inst(1, "resp", 1, 1, 0, 1)]
    return {
        "name": "h2_range", "src": "h2_range.c",
        "defines": ["C06_CAP=160", "C06_SERLEN=72"],
        "env": ["ctx", "hash_model", "list_wrap", "fmt_stub"],
        "tus": ["types_base", "hash"],
        "unwind": 4, "harness_unwind": 170, "object_bits": 10, "timeout": 300, "mem_gb": 8, "leak_check": True,
        "functions": ["KSI_AggregationPdu_calculateHmac", "KSI_ExtendPdu_calculateHmac", "pdu_calculateHmac", "pdu_calculateHmac_v2", "getObjectsRawValue"],
        "bound": "typed PDU objects; which members are present is concrete per instance (request / response / conf request / conf response / none, "
                 "header present or not, received raw bytes present or not); PDU of 72 bytes, v1 header 5 / payload 9 bytes or 72-byte serializations; "
                 "symbolic: PDU version option (all size_t values), MAC algorithm id (all int values), every byte, status of MAC computation and serializer; "
                 "KSI_HMAC_create and KSI_TlvTemplate_serializeObject are capture stubs",
        "instances": insts,
    }


def h3():
    A = ALG
    insts = []
    # MODE 0: pdu_verifyHmac with callback; (RA, CA)
    for ra, ca in ((1, 1), (0, 2), (2, 0), (1, 8), (5, 5), (1, 0), (4, 9)):
        insts.append({"label": "cb_ra%d_ca%d" % (ra, ca), "defines": ["MODE=0", "RA=%d" % ra, "CA=%d" % ca]})
    # MODE 1: whole KSI_*Pdu_verify
    for ext in (0, 1):
        fam = "ext" if ext else "aggr"
        for ra in (1, 5) if ext == 0 else (1,):
            insts.append({"label": "%s_pdu_ra%d" % (fam, ra), "defines": ["MODE=1", "PDU_EXT=%d" % ext, "RA=%d" % ra]})
        insts.append({"label": "%s_pdu_nohdr" % fam, "defines": ["MODE=1", "PDU_EXT=%d" % ext, "RA=1", "HAS_HDR=0"]})
        insts.append({"label": "%s_pdu_nomac" % fam, "defines": ["MODE=1", "PDU_EXT=%d" % ext, "RA=1", "HAS_MAC=0"]})
    return {
        "name": "h3_verify", "src": "h3_verify.c",
        "defines": ["C06_CAP=80", "C06_SERLEN=72"],
        "env": ["ctx", "hash_model", "list_wrap", "fmt_stub"],
        "tus": ["types_base", "hash"],
        "unwind": 4, "harness_unwind": 90, "object_bits": 10, "timeout": 300, "mem_gb": 8, "leak_check": True,
        "functions": ["pdu_verifyHmac", "KSI_AggregationPdu_verify", "KSI_AggregationPdu_verifyHmac", "KSI_ExtendPdu_verify", "KSI_ExtendPdu_verifyHmac",
                      "KSI_AggregationPdu_calculateHmac", "KSI_ExtendPdu_calculateHmac", "pdu_calculateHmac_v2", "pdu_calculateHmac", "KSI_DataHash_equals", "KSI_DataHash_getHashAlg"],
        "bound": "received MAC algorithm RA (and, for the callback mode, the algorithm CA of the recomputed imprint) concrete per instance over pairs of equal and "
                 "different ids incl. same-length pairs SHA-1/RIPEMD-160, SHA2-256/SHA3-256, SHA2-384/SHA3-384; header / MAC presence concrete; symbolic: configured algorithm "
                 "(all int values), PDU version option (all size_t values), all 64 digest bytes of both imprints, all PDU bytes (72), status of the MAC computation",
        "instances": insts,
    }


def h4():
    insts = []
    for ext in (0, 1):
        fam = "ext" if ext else "aggr"
        for cfg, kind in ((1, 0), (5, 0), (0x100, 0), (0, 0), (3, 0), (12, 0), (1, 1), (11, 2)) if ext == 0 else ((1, 0), (0x100, 0), (0, 0), (10, 2)):
            insts.append({"label": "%s_cfg%d_k%d" % (fam, cfg, kind), "defines": ["PDU_EXT=%d" % ext, "CFG=%d" % cfg, "REQKIND=%d" % kind]})
    insts += [{"label": "aggr_login_cfg1", "defines": ["PDU_EXT=0", "CFG=1", "REQKIND=0", "WITH_LOGIN=1"], "unwind": 12},
              {"label": "ext_login_cfg5", "defines": ["PDU_EXT=1", "CFG=5", "REQKIND=0", "WITH_LOGIN=1"], "unwind": 12},
              {"label": "aggr_login_cfg0", "defines": ["PDU_EXT=0", "CFG=0", "REQKIND=0", "WITH_LOGIN=1"], "unwind": 12}]
    return {
        "name": "h4_enclose", "src": "h4_enclose.c",
        "defines": ["C06_CAP=80", "C06_SERLEN=72"],
        "env": ["ctx", "hash_model", "list_wrap", "fmt_stub"],
        "tus": ["types_base", "hash"],
        "unwind": 4, "harness_unwind": 90, "object_bits": 10, "timeout": 300, "mem_gb": 8, "leak_check": True,
        "functions": ["KSI_AggregationReq_encloseWithHeader", "KSI_ExtendReq_encloseWithHeader", "KSI_AggregationPdu_updateHmac", "KSI_ExtendPdu_updateHmac",
                      "KSI_AggregationPdu_calculateHmac", "KSI_ExtendPdu_calculateHmac", "pdu_calculateHmac_v2", "pdu_calculateHmac", "KSI_DataHash_createZero", "KSI_isHashAlgorithmTrusted", "KSI_AggregationReq_enclose", "KSI_ExtendReq_enclose"],
        "bound": "configured HMAC algorithm concrete per instance (SHA2-256, SHA2-512, SHA3-512, SM3, unset 0x100, SHA-1 (deprecated), ids 3 and 12 (undefined)); request with payload, "
                 "with configuration only, with both; symbolic PDU version option, request hash / time, MAC digest, serialized bytes (72), status of serializer and MAC computation",
        "instances": insts,
    }


def h5_sync():
    return {
        "name": "h5_sync", "src": "h5_sync.c",
        "env": ["ctx", "list_wrap", "fmt_stub"],
        "tus": ["net"],
        "unwind": 4, "object_bits": 10, "timeout": 300, "mem_gb": 8,
        "functions": ["KSI_RequestHandle_getAggregationResponse", "KSI_RequestHandle_getExtendResponse", "KSI_RequestHandle_getResponse",
                      "KSI_convertAggregatorStatusCode", "KSI_convertExtenderStatusCode"],
        "bound": "one reply; every types.c callee (parse, getError, verify, getters/setters, Resp_new/setConfig) is a stub with a symbolic status; symbolic presence of "
                 "error payload, header, MAC, response, configuration, request context, request payload/config, user callback; symbolic HTTP status and error code",
        "instances": [{"label": "aggr", "defines": ["FAM=0"]}, {"label": "ext", "defines": ["FAM=1"]}],
    }


def h5_async(fam):
    A = "KSI_Aggregation" if fam == 0 else "KSI_Extend"
    conv = "KSI_convertAggregatorStatusCode" if fam == 0 else "KSI_convertExtenderStatusCode"
    name = "aggr" if fam == 0 else "ext"
    q = "name:processResponseQueue::%s/%s"
    r = "name:handleResponse::%s/%s"
    # parameters are restricted by NAME (robust against call sites being added or removed); every restriction is an assertion "fp is one of the targets".
    # pdu_verify may also be the MAC-only variant (harness stub that does not count as verification) so that a wrong wiring shows up as a failed CHECK.
    restrict = [q % ("pdu_free", A + "Pdu_free"), q % ("pdu_parse", A + "Pdu_parse"), q % ("pdu_getError", A + "Pdu_getError"),
                q % ("pdu_setError", A + "Pdu_setError"), q % ("pdu_verify", A + "Pdu_verify," + A + "Pdu_verifyHmac"), q % ("pdu_getConfResponse", A + "Pdu_getConfResponse"),
                q % ("asyncClient_handleResponse", "asyncClient_handleAggregationResp" if fam == 0 else "asyncClient_handleExtendResp"), q % ("convertStatusCode", conv),
                r % ("resp_getRequestId", A + "Resp_getRequestId"), r % ("asyncHandle_getRequest", "KSI_AsyncHandle_getAggregationReq" if fam == 0 else "KSI_AsyncHandle_getExtendReq"),
                r % ("resp_verifyWithRequest", A + "Resp_verifyWithRequest"), r % ("resp_getStatus", A + "Resp_getStatus"), r % ("convertStatusCode", conv),
                r % ("resp_getErrorMsg", A + "Resp_getErrorMsg"), r % ("resp_ref", A + "Resp_ref"),
                "name:asyncClient_handleServerConfig::confCallback/user_conf_cb",
                "asyncClient_handleServerConfig.function_pointer_call.1/KSI_Config_free"]
    def inst(n):
        d = {"label": "n%d" % n, "defines": ["FAM=%d" % fam, "NRESP=%d" % n, "CONF_TO_CALLBACK=%d" % (1 if n > 3 else 0)]}
        if n > 2:
            d["unwind"] = n + 2
        return d
    return {
        "name": "h5_async_" + name, "src": "h5_async.c",
        "env": ["ctx", "list_wrap", "fmt_stub"],
        "tus": ["net"],
        "unwind": 4, "object_bits": 10, "timeout": 300, "mem_gb": 8,
        "restrict_fp": restrict,
        "functions": ["asyncClient_processAggregationResponseQueue", "asyncClient_processExtenderResponseQueue", "processResponseQueue", "asyncClient_handleAggregationResp",
                      "asyncClient_handleExtendResp", "handleResponse", "asyncClient_handleServerConfig", "asyncClient_setResponseError"],
        "bound": "queue of 1 or 2 replies (thorough: 3), request cache with one usable slot; every types.c callee and the transport are stubs with symbolic status; symbolic per "
                 "reply: error / configuration / response presence, 64-bit request id and status; symbolic handle id, handle state, slot occupancy, callback configuration; "
                 "indirect calls restricted to the functions the wrappers pass in (each restriction is an assertion fp == target, i.e. the wiring itself is checked)",
        "instances": [inst(1), inst(2), inst(3)],
        "thorough": {"instances": [inst(1), inst(2), inst(3), inst(4)], "timeout": 1200},
    }


def plan():
    q64 = [h1_inst("sha256", 0, 3), h1_inst("sha256", 1, 0), h1_inst("sha256", 5, 4), h1_inst("sha256", 63, 8), h1_inst("sha256", 64, 3),
           h1_inst("sha256", 65, 5), h1_inst("sha256", 67, 8, 3), h1_inst("sha1", 64, 2), h1_inst("sha1", 65, 2), h1_inst("rmd160", 7, 8, 0)]
    t64 = q64 + [h1_inst(a, k, m) for a in ("sha1", "sha256", "rmd160") for k in (1, 2, 31, 32, 33, 63, 64, 65, 66, 67) for m in (0, 1, 8)
                 if not any(i["label"] == "%s_k%d_m%d" % (a, k, m) for i in q64)]
    q128 = [h1_inst("sha512", 1, 8), h1_inst("sha512", 128, 3), h1_inst("sha512", 129, 5), h1_inst("sha384", 128, 0), h1_inst("sha384", 131, 8, 8)]
    t128 = q128 + [h1_inst(a, k, m) for a in ("sha384", "sha512") for k in (1, 64, 65, 127, 128, 129, 130, 131) for m in (0, 1, 8)
                   if not any(i["label"] == "%s_k%d_m%d" % (a, k, m) for i in q128)]
    hlong = h1("h1_hmac_long", 128, [], [h1_inst("sha256", 200, 8), h1_inst("sha1", 255, 1), h1_inst("sha512", 300, 8, 4), h1_inst("sha384", 256, 0)])
    hlong["tier"] = "thorough"; hlong["instances"] = hlong["thorough"]["instances"]
    hlong["global_defines"] = ["HM_LOG_MAX=320", "HM_REC_MAX=3"]; hlong["unwind"] = 140; hlong["harness_unwind"] = 330
    hlong["cbmc_flags"] = ["--max-field-sensitivity-array-size", "400"]; hlong["timeout"] = 900; hlong["thorough"] = {"timeout": 900}
    hlong["bound"] = "thorough only: keys of 200 / 255 / 256 / 300 bytes (far beyond the block size), messages of 0..8 bytes"
    hs = [h1("h1_hmac_b64", 64, q64, t64), h1("h1_hmac_b128", 128, q128, t128), hlong, h2(), h3(), h4(), h5_sync(), h5_async(0), h5_async(1)]
    return {
        "property": "C06",
        "outside": "keys longer than the block size + 3 bytes (the loops over key bytes are uniform; keys up to 65535 bytes are accepted by the same code path), "
                   "messages longer than the per-harness bound, the digest function itself, the TLV template serializer/parser (C09/C10), libcurl / sockets, "
                   "MAC unforgeability (cryptographic assumption, not claimed)",
        "assumptions": ["hash model U: digests are unconstrained symbolic bytes; what is checked is WHICH byte streams are hashed with which algorithm",
                        "HMAC is a secure MAC (needed to conclude 'an altered PDU is rejected' from 'the MAC over exactly these bytes is recomputed and compared'): assumed, not checked"],
        "manifest": {
            "claimed": True,
            "level_text": "Bounded symbolic execution (CBMC) of the real hmac.c, types.c, net.c and net_async.c code. (H1) For each enumerated (algorithm, key length, message length) instance - keys of 0, 1, a few, "
                          "block-1, block, block+1..block+3 bytes, messages of 0..8 bytes - and ALL key/message/digest bytes, KSI_HMAC_create / KSI_HmacHasher_* hash exactly [H(K) iff |K|>block], (K' xor 0x36)||msg, (K' xor 0x5c)||inner digest with the "
                          "requested algorithm (block 64 and 128) and return algorithm id || outer digest. (H2/H4) With KSI_HMAC_create replaced by a capture stub: the MAC input of a v2 PDU is "
                          "exactly its bytes up to the trailing digest (received bytes for parsed PDUs, one serialization with an all-zero MAC of the configured algorithm for built requests), of "
                          "a v1 PDU header||payload; key, configured algorithm and context are passed through; unset / deprecated / undefined algorithms are refused before anything is produced; KSI_*Req_enclose puts the login id byte for byte into "
                          "the header and runs the user's header callback before the MAC is computed. "
                          "(H3) pdu_verifyHmac and KSI_*Pdu_verify accept iff header and MAC are present, the configured algorithm is unset or equals the received one, the recomputation succeeds "
                          "and the imprints agree in every byte including the algorithm id. (H5) In the blocking and asynchronous clients, for every combination of callee outcomes, response and "
                          "configuration payload, the user callback and the handle's respCtx are reached only after that PDU's verification returned OK under the endpoint key; error PDUs deliver nothing - also when a response / configuration payload accompanies the error payload "
                          "(presence flags independent), and a non-zero error status is returned as an error.",
            "level_note": "Compositional: H2-H5 use stubs for KSI_HMAC_create, the TLV template serializer/parser and (H5) every types.c callee, each with a symbolic outcome; the stub contracts used "
                          "(KSI_*Pdu_verify never returns OK without header and MAC) are themselves established by H2/H3. Not covered: the template parser's 'header first / MAC last' flags and the "
                          "serializer (C09/C10), so 'the trailing bytes are the digest' rests on them; libcurl / sockets / the HA client; keys and messages beyond the stated lengths; "
                          "KSI_*Pdu_calculateHmac called directly with an algorithm whose digest is longer than the PDU (size_t wrap, not reachable from the SDK's own flows). "
                          "'An altered PDU or another key is rejected' additionally needs HMAC to be a secure MAC - a cryptographic assumption that is stated, not checked. Hash model returns symbolic digests.",
        },
        "harnesses": hs,
    }


if __name__ == "__main__":
    p = plan()
    out = os.path.join(os.path.dirname(os.path.abspath(__file__)), "plan.json")
    json.dump(p, open(out, "w"), indent=1)
    print("wrote", out, sum(len(h.get("instances") or [1]) for h in p["harnesses"]), "quick instances")
