#!/usr/bin/env python3
"""Regenerates /verif/harness/C13/plan.json (instance enumeration).  Run: python3 mkplan.py"""
import json, os, itertools

ENV = ["ctx", "list_wrap", "fmt_stub"]
COMMON = {"env": ENV, "tus": [], "unwind": 8, "timeout": 300, "max_replays": 8}
SHAPE = ("cache shape CACHE_S = configured size + 1 concrete per instance (quick: 2, 3 = cache sizes 1, 2; thorough: up to 5 = cache size 4); "
         "symbolic per instance: which slots are occupied, every cached handle's state / id generation / error fields / reference split with the transport / clocks, "
         "allocation cursor, generation counter, serverConf presence-kind-state, receive timeout (any size_t incl. 0), endpoint id, clock (0..2^40 s)")


def H(name, src, functions, bound, quick, thorough=None, **kw):
    h = dict(COMMON)
    h.update({"name": name, "src": src, "functions": functions, "bound": bound, "instances": quick})
    if thorough is not None:
        h["thorough"] = {"instances": thorough, "timeout": 1800}
    h.update(kw)
    return h


def I(label, *defs):
    return {"label": label, "defines": list(defs)}


hs = []
hs.append({"name": "h0_lemma", "src": "h0_lemma.c", "timeout": 300, "functions": [],
           "bound": "lemma L of the difftime model: all time differences 0 <= x < 2^40, all 64-bit timeouts (IEEE-754 double as encoded by CBMC)"})

# ---- H-1 addRequest
def h1(sizes):
    out = []
    for s in sizes:
        for rk, rn in ((1, "req"), (2, "cnf"), (3, "both")):
            for ck in (0, -1):
                # kind first: known-finding entries match by label PREFIX (cnf_*, both_* are the F9/F14 shapes)
                out.append(I("%s_c%s_s%d" % (rn, "x" if ck < 0 else ck, s), "CACHE_S=%d" % s, "REQ_KIND=%d" % rk, "CONF_KIND=%d" % ck))
    out.append(I("req_c0_s3_ext", "CACHE_S=3", "REQ_KIND=1", "CONF_KIND=0", "EXT_FLAVOUR=1"))
    out.append(I("both_cx_s3_ext", "CACHE_S=3", "REQ_KIND=3", "CONF_KIND=-1", "EXT_FLAVOUR=1"))
    return out
hs.append(H("h1_add", "h1_add.c",
            ["asyncClient_addAggregatorRequest", "asyncClient_addExtenderRequest", "addRequest", "asyncClient_calculateRequestId", "asyncClient_composeRequestHeader", "KSI_AbstractAsyncClient_new", "asyncClient_setOption", "KSI_AbstractAsyncHandle_new", "KSI_AsyncHandle_free"],
            "one submission from an arbitrary Inv-state; " + SHAPE + "; submission kind (request / configuration / both) and serverConf kind (none or symbolic) per instance; "
            "caller's handle fresh or re-submitted after an error; every stub may fail",
            h1((2, 3)), h1((2, 3, 4, 5))))

# ---- H-2 handleResponse
def h2(sizes):
    return [I("s%d" % s, "CACHE_S=%d" % s) for s in sizes] + [I("s3_ext", "CACHE_S=3", "EXT_FLAVOUR=1")]
hs.append(H("h2_resp", "h2_resp.c", ["asyncClient_handleAggregationResp", "asyncClient_handleExtendResp", "handleResponse"],
            "one reply with any 64-bit request id (or none), any status (or none), optional message, to an arbitrary Inv-state; " + SHAPE,
            h2((2, 3)), h2((2, 3, 4, 5))))

# ---- H-3 handleServerConfig
def h3(sizes):
    return [I("s%d_c%d_cb%d" % (s, ck, cb), "CACHE_S=%d" % s, "CONF_KIND=%d" % ck, "HAVE_CB=%d" % cb) for s in sizes for ck, cb in ((0, 0), (0, 1), (1, 1), (2, 1))]
hs.append(H("h3_conf", "h3_conf.c", ["asyncClient_handleServerConfig"],
            "one configuration from the server to an arbitrary Inv-state; serverConf kind (none / pending user request / received) and callback presence concrete per instance, callback enable flag and callback status symbolic; " + SHAPE,
            h3((2, 3)), h3((2, 3, 4, 5))))

# ---- H-4 setResponseError
hs.append(H("h4_seterr", "h4_seterr.c", ["asyncClient_setResponseError"],
            "error fan-out with any cause (code, external code, optional message) on an arbitrary Inv-state; " + SHAPE,
            [I("s%d" % s, "CACHE_S=%d" % s) for s in (2, 3)], [I("s%d" % s, "CACHE_S=%d" % s) for s in (2, 3, 4, 5)]))

# ---- H-5 findNextResponse / finalizeRequest
def h5(sizes, exact=()):
    out = [I("s%d_t%d" % (s, t), "CACHE_S=%d" % s, "TAIL_POS=%d" % t) for s in sizes for t in range(1, s)]
    out += [I("s%d_t%d_exact" % (s, t), "CACHE_S=%d" % s, "TAIL_POS=%d" % t, "C13_EXACT_DIFFTIME=1") for s in exact for t in range(1, s)]
    return out
hs.append(H("h5_next", "h5_next.c", ["asyncClient_findNextResponse", "asyncClient_finalizeRequest"],
            "one search for a finished handle on an arbitrary Inv-state at any time; scan position (tail) concrete per instance; " + SHAPE +
            "; quick tier: difftime model with lemma L (proved by h0_lemma); thorough tier additionally without the lemma for cache sizes 1, 2",
            h5((2, 3)), h5((2, 3, 4, 5), exact=(2, 3))))

# ---- H-6 asyncClient_run
def h6(sizes):
    out = [I("s%d_t%d" % (s, t), "CACHE_S=%d" % s, "TAIL_POS=%d" % t) for s in sizes for t in range(1, s)]
    out.append(I("s3_t1_pump", "CACHE_S=3", "TAIL_POS=1", "WANT_HANDLE=0"))
    return out
hs.append(H("h6_run", "h6_run.c", ["asyncClient_run", "asyncClient_setResponseError", "asyncClient_findNextResponse", "asyncClient_finalizeRequest"],
            "one service round on an arbitrary Inv-state: transport outcome per held handle (stays / sent / failed) and dispatch result (OK / connection closed / other error) symbolic, "
            "response processing stubbed to succeed or fail; scan position concrete per instance; " + SHAPE,
            h6((2, 3)), h6((2, 3, 4))))

# ---- H-7 processResponseQueue
def h7(shapes):
    return [I("s%d_n%d_c%d" % (s, n, ck), "CACHE_S=%d" % s, "NRESP=%d" % n, "CONF_KIND=%d" % ck) for (s, n) in shapes for ck in (0, 1, 2)]
hs.append(H("h7_queue", "h7_queue.c",
            ["asyncClient_processAggregationResponseQueue", "processResponseQueue", "asyncClient_handleAggregationResp", "handleResponse", "asyncClient_handleServerConfig", "asyncClient_setResponseError"],
            "a batch of NRESP <= 2 raw responses (each unparsable / error PDU / ordinary PDU with good or bad MAC, optional configuration, optional response with any id and status) on an arbitrary Inv-state; "
            "serverConf kind concrete per instance; transport may fail on any call; " + SHAPE,
            h7(((2, 2), (3, 1))), h7(((2, 1), (2, 2), (3, 1), (3, 2), (4, 2))),
            restrict_fp=["asyncClient_handleServerConfig.function_pointer_call.1/KSI_Config_free"]))

# ---- H-8 bounded history
def hclass(s, ops):
    """which known defect a history can run into (label prefix, used by known-finding entries):
    f9  = two configuration-bearing submissions (the second may overwrite the first, F9)
    f14 = a configuration-bearing submission that may not fit the cache any more (configuration handles are not
          checked against the cache size, F14): needs 1 place (op 2) or 2 places (op 3)
    plain = neither"""
    cfg = [i for i, o in enumerate(ops) if o in (2, 3)]
    if len(cfg) >= 2:
        return "f9"
    for i in cfg:
        before = sum(1 if o in (1, 2) else 2 if o == 3 else 0 for o in ops[:i])     # handles possibly still outstanding
        need = 2 if ops[i] == 3 else 1
        if before + need > s - 1:
            return "f14"
    return "plain"


def seq(label, s, ops, *extra):
    o = list(ops) + [0] * (6 - len(ops))
    return I(hclass(s, ops) + "_" + label, "CACHE_S=%d" % s, "NOPS=%d" % len(ops), "OPS={%s}" % ",".join(map(str, o)), *extra)
h8q = [seq("s2_144", 2, (1, 4, 4), "EXPECT_RESPONSE=1", "EXPECT_TIMEOUT=1"), seq("s2_114", 2, (1, 1, 4), "EXPECT_REFUSAL=1"),
       seq("s2_1441", 2, (1, 4, 4, 1), "EXPECT_REUSE=1"), seq("s2_244", 2, (2, 4, 4)), seq("s2_154", 2, (1, 5, 4)),
       seq("s2_121", 2, (1, 2, 1)), seq("s2_151", 2, (1, 5, 1)), seq("s2_224", 2, (2, 2, 4)), seq("s2_314", 2, (3, 1, 4)), seq("s3_344", 3, (3, 4, 4))]
h8t = list(h8q) + [seq("s3_1144", 3, (1, 1, 4, 4), "EXPECT_RESPONSE=1"), seq("s3_1414", 3, (1, 4, 1, 4)), seq("s2_4144", 2, (4, 1, 4, 4), "EXPECT_RESPONSE=1"),
                   seq("s3_2144", 3, (2, 1, 4, 4))]
seen = set(i["label"].split("_", 1)[1] for i in h8t)
for ops in itertools.product((1, 2, 3, 4), repeat=3):
    lab = "s2_" + "".join(map(str, ops))
    if lab not in seen:
        h8t.append(seq(lab, 2, ops))
hs.append(H("h8_history", "h8_history.c",
            ["KSI_SigningAsyncService_new", "KSI_AbstractAsyncClient_new", "KSI_AsyncService_setOption", "asyncClient_setOption", "KSI_AsyncService_addRequest", "KSI_AsyncService_run",
             "asyncClient_run", "KSI_AsyncService_getPendingCount", "KSI_AsyncService_getReceivedCount", "KSI_AsyncHandle_free", "KSI_AsyncService_free", "KSI_AsyncClient_free"],
            "histories of 3-4 public operations from the real constructors with cache size 1 (and 2); operation sequence concrete per instance (quick: 10 sequences; thorough: all 64 sequences of length 3 over "
            "{add request, add configuration request, add request+configuration, run} with cache size 1 plus selected length-4 sequences); per round at most one server PDU of any kind; "
            "transport, replies, clock and timeout symbolic",
            h8q, h8t, timeout=600,
            restrict_fp=["asyncClient_handleServerConfig.function_pointer_call.1/KSI_Config_free",
                         "KSI_AsyncHandle_cleanup.function_pointer_call.1/KSI_Config_free,KSI_AggregationResp_free",
                         "KSI_AsyncHandle_cleanup.function_pointer_call.2/KSI_Config_free"]))

hs.append(H("h9_resize", "h9_resize.c", ["asyncClient_setOption", "asyncClient_getOption"],
            "one cache-size change on an arbitrary Inv-state; old and new size concrete per instance (1->1, 2->1 refused, 2->2, 2->4; thorough also 4->6); " + SHAPE,
            [I("s2_to1", "CACHE_S=2", "NEW_N=1"), I("s3_to1", "CACHE_S=3", "NEW_N=1"), I("s3_to2", "CACHE_S=3", "NEW_N=2"), I("s3_to4", "CACHE_S=3", "NEW_N=4")],
            [I("s2_to1", "CACHE_S=2", "NEW_N=1"), I("s3_to1", "CACHE_S=3", "NEW_N=1"), I("s3_to2", "CACHE_S=3", "NEW_N=2"), I("s3_to4", "CACHE_S=3", "NEW_N=4"), I("s5_to6", "CACHE_S=5", "NEW_N=6")]))

hs.append({"name": "h10_recycle", "src": "h10_recycle.c", "env": ENV, "tus": [], "unwind": 8, "timeout": 300, "max_replays": 8,
           "unwindset": ["KSI_AsyncHandle_free:3", "KSI_AsyncHandle_cleanup:3"],
           "functions": ["KSI_AbstractAsyncHandle_new", "KSI_AsyncAggregationHandle_new", "KSI_AsyncHandle_free", "KSI_AsyncHandle_cleanup", "asyncClient_addAggregatorRequest"],
           "bound": "one KSI_AsyncHandle released through KSI_AsyncHandle_free with ARBITRARY state, id, error fields, send progress, clocks and origin and with request, response, message, buffer and user context attached, "
                    "into ctx->asyncHandleRecycle; then re-constructed and submitted to an empty cache of size 1"})

hs.append({"name": "h11_curl_recycle", "src": "h11_curl_recycle.c", "env": ENV, "tus": [], "unwind": 12, "timeout": 300, "max_replays": 8,
           "unwindset": ["KSI_AsyncHandle_free:3", "KSI_AsyncHandle_cleanup:3"],
           "functions": ["CurlAsyncRequest_new", "CurlAsyncRequest_free", "curlCallback_receive"],
           "bound": "one CurlAsyncRequest (net_http_curl_async.c) released through CurlAsyncRequest_free into client->reqRecycle with ARBITRARY receive-buffer fill level 0..8 and content (capacity 8 concrete), arbitrary error text, "
                    "with / without a request handle (per instance); re-constructed; one 3-byte chunk delivered through curlCallback_receive",
           "instances": [I("with_handle", "OLD_HAS_HANDLE=1"), I("no_handle", "OLD_HAS_HANDLE=0")]})

plan = {
 "property": "C13",
 "outside": "cache sizes above 4 (step harnesses) / 2 (histories); histories longer than 4 operations; the transports themselves (net_tcp_async.c is C14's subject; HTTP async transport net_http_curl_async.c: only the request recycler is covered, H-11, with libcurl stubbed); "
            "TLV parsing/serialisation, HMAC computation and signature construction from a response (KSI_AsyncHandle_getSignature); allocation failure; real clocks; "
            "liveness beyond one call (that a handle the transport never reports on is eventually returned)",
 "assumptions": [
  "M1 payload objects: KSI_Integer (without the small-integer pool), KSI_Utf8String, KSI_OctetString, KSI_Config, KSI_Header, KSI_ErrorPdu, KSI_{Aggregation,Extend}{Req,Resp,Pdu} are modelled as reference-counted records with the getter/setter/ref/free semantics of the KSI_IMPLEMENT_* macros (harness/common/c13_model.h); net_async.c treats them as opaque",
  "M2 PDU layer stubs: <Req>_encloseWithHeader (consumes request reference and header on success only, as types.c:1553), <Pdu>_serialize, <Pdu>_parse (returns the typed PDU prepared by the harness), <Pdu>_verify (MAC verdict prepared by the harness), <Resp>_verifyWithRequest: each may fail with a symbolic non-zero status",
  "M3 status conversion stub: absent or 0 -> KSI_OK, anything else -> one symbolic non-zero error code",
  "M4 transport stub (the four client callbacks), contract read off net_tcp_async.c:382-511: addRequest accepts (state WAITING_FOR_DISPATCH, reqTime = now, keeps the reference) or refuses without touching the handle; dispatch moves handles it holds from WAITING_FOR_DISPATCH to WAITING_FOR_RESPONSE or ERROR and returns OK / CONNECTION_CLOSED / another error; getResponse hands out queued raw responses; it never alters a handle in another state (net_tcp_async.c reqQueue_clearWithError does not check the state - outside this model)",
  "M5 clock: time() constant during one call, non-decreasing between calls, < 2^40; difftime(a,b) = (double)(a-b); quick tier additionally assumes lemma L ((double)x > (double)T <=> x > T for 0 <= x < 2^40), which harness h0_lemma proves and the thorough tier does not use",
  "handle recycling off (ctx->asyncHandleRecycle == NULL) in H-1..H-9: every release is a real free(), so a stale reference is a use-after-free for CBMC; the recycler itself is the subject of H-10 (a handle released with arbitrary contents is re-constructed: every field as fresh)",
  "H-11: curl_easy_init / curl_easy_reset / curl_easy_cleanup are stubs over an opaque easy handle; no other libcurl function is reachable from the recycler and the write callback",
  "no push-configuration callback on the KSI_CTX; service-level callback presence is an instance parameter of H-3",
  "KSI_AbstractAsyncService_new (net.c) modelled as plain allocation with all callbacks NULL (H-8)",
  "function-pointer restrictions of H-7/H-8 (respCtx_free in {KSI_Config_free, KSI_AggregationResp_free}) are proof obligations inserted by goto-instrument, not assumptions"
 ],
 "manifest": {
  "claimed": True,
  "level_text": "Representation invariant Inv (slot/id agreement, handle states, pending/received = numbers of cached unanswered/answered handles, outstanding <= configured cache size) is established by the real constructor and is inductive under every "
                "operation of net_async.c, each proved as a one-step contract from an ARBITRARY Inv-state with cache sizes 1..2 (thorough 1..4): submission (cache-full exactly at the configured size, free slot, id = generation<<32|slot, generation steps on cursor wrap, "
                "nothing retained on refusal), reply matching (only the WAITING_FOR_RESPONSE handle with the same full 64-bit id changes; unknown/stale-generation/duplicate/early replies change nothing), configuration delivery, error fan-out, "
                "finalisation (returned at most once, only in a final state, timeouts only after the configured time or with timeout 0, nothing finished left behind), one service round (errors only with the cause that occurred, waiting = pending + received) and "
                "batch processing of <= 2 raw responses (nothing applied from unparsable/unauthenticated data). A bounded-history harness drives 3-4 public operations from the constructors with an exactly-once monitor; H-11 covers the request recycler of the HTTP (libcurl) async transport - and nothing else of that file: a CurlAsyncRequest released with an arbitrary receive-buffer fill level is handed out again with an empty buffer and the next chunk is stored alone; H-10 shows that a handle taken from the per-context recycle list after being released in an arbitrary state equals a fresh one in every field and is accepted like one. "
                "Defects found: F14 (the cache-full test used == on a count that configuration handles can push past the cache size: the next KSI_AsyncService_addRequest looped forever) - the loop is repaired in /repo (a60d80b); "
                "F9 (a second configuration request drops the first handle, pending drifts) and the counting part of F14 (configuration handles are accepted without a room check, outstanding can exceed the cache size by one) are recorded as known findings "
                "(harness/C13/known_entries.json; they affect only instances labelled cnf_*/both_* of h1_add and f9_*/f14_* of h8_history) - see FINDINGS.md; with the full proposed patch every harness passes without exceptions.",
  "level_note": "Trusted base: payload-object, PDU-layer, status-conversion, transport and clock models M1-M5 (plan.json assumptions); aggregator flavour throughout, extender flavour in three instances. "
                "Outside: cache sizes > 4, histories > 4 operations, real transports (TCP is C14; HTTP async transport: only the request recycler is covered), TLV/HMAC/signature building, allocation failure, eventual return of a handle on which the transport stays silent. "
                "The step from the bounded cache sizes to arbitrary ones rests on the code being uniform in the size (by reading, not proved)."
 },
 "harnesses": hs
}
json.dump(plan, open(os.path.join(os.path.dirname(os.path.abspath(__file__)), "plan.json"), "w"), indent=1)
print("harnesses:", [(h["name"], len(h.get("instances", [])), len(h.get("thorough", {}).get("instances", []))) for h in hs])
