/* C09 H-5d: the tree is what gets serialised, also after children were REMOVED: a parsed element
 * [T0 | (T1 1 byte) (T2 2 bytes)] is expanded with KSI_TLV_getNestedList, then KEEP of its two children stay (the others
 * are removed from the list the API handed out), and the element is serialised again (length query and real write).
 * The encoding must describe exactly the children that are left - an element emptied of all children is `T0 00`, never its
 * old payload.  Header bytes concrete (TLV8), flags and payload bytes symbolic; real tlv.c and fast_tlv.c. */
#include "verif.h"
#include "internal.h"
#include "tlv.h"
#include "ctx.h"
#include "verif_post.h"
#ifndef KEEP
#define KEEP 0
#endif
void harness(void) {
	VERIF_ctx_init(); KSI_CTX *ctx = VERIF_ctx; int res;
	static u8 in[9]; u8 v0 = ND(u8, v), v1 = ND(u8, v), v2 = ND(u8, v);
	in[0] = 0x01; in[1] = 7; in[2] = 0x02; in[3] = 1; in[4] = v0; in[5] = 0x03; in[6] = 2; in[7] = v1; in[8] = v2;
	KSI_TLV *t = NULL; KSI_LIST(KSI_TLV) *lst = NULL;
	res = KSI_TLV_parseBlob(ctx, in, sizeof(in), &t); ASSUME(res == KSI_OK && t != NULL);
	res = KSI_TLV_getNestedList(t, &lst);
	CHECK(res == KSI_OK && lst != NULL && KSI_TLVList_length(lst) == 2, "C09.H5d the payload expands to its two children");
	/* remove children from the end: KEEP = 0 removes both, KEEP = 1 leaves the first */
	for (unsigned n = 2; n > KEEP; n--) {
		KSI_TLV *gone = NULL;
		res = KSI_TLVList_remove(lst, n - 1, &gone); CHECK(res == KSI_OK && gone != NULL, "C09.H5d child removed");
		KSI_TLV_free(gone);
	}
	size_t need = 777, wrote = 777; static u8 out[16];
	res = KSI_TLV_serialize_ex(t, NULL, 0, &need);
	CHECK(res == KSI_OK, "C09.H5d length query succeeds after removing children");
	res = KSI_TLV_serialize_ex(t, out, sizeof(out), &wrote);
	CHECK(res == KSI_OK && wrote == need, "C09.H5d write and length query agree");
#if KEEP == 0
	CHECK(need == 2 && out[0] == 0x01 && out[1] == 0x00, "C09.H5d an element emptied of all children serialises as an empty element, not with its old payload");
	WITNESS_POINT("emptied element");
#elif KEEP == 1
	CHECK(need == 5 && out[0] == 0x01 && out[1] == 3 && out[2] == 0x02 && out[3] == 1 && out[4] == v0, "C09.H5d the encoding holds exactly the child that is left");
	WITNESS_POINT("one child left");
#else
	CHECK(need == 9, "C09.H5d nothing removed: encoding unchanged in length");
	{ int same = 1; for (unsigned i = 0; i < 9; i++) if (out[i] != in[i]) same = 0; CHECK(same, "C09.H5d nothing removed: encoding unchanged"); }
	WITNESS_POINT("nothing removed");
#endif
	KSI_TLV_free(t);
}
