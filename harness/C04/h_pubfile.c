/* C04 H-a (publications file): the rules that look the signature up in a PUBLICATIONS FILE, with the REAL lookups of
 * publicationsfile.c (findPublication, KSI_PublicationsFile_getNearestPublication) on a typed file of C04_NPUB records.
 * References (verification_rule.h, policy.h PUB-05, property statement):
 *   PublicationsFileContainsSignaturePublication        OK iff the file has a record of the signature's publication TIME, else NA w/o error code
 *   PublicationsFileDoesNotContainSignaturePublication  the exact opposite
 *   PublicationsFileSignaturePublicationVerification    OK iff the file has a record equal to the signature's publication in time AND hash;
 *                                                       a record of that time with another hash only -> FAIL PUB-05; never OK otherwise
 *   PublicationsFileContainsSuitablePublication         OK iff the file has a publication at or after the signing time, else NA
 *   signing time = calendar aggregation time (publication time if the element is absent), else the first aggregation chain's time
 * Obtaining the file (initPublicationsFile): the caller's file is used as is; otherwise it is downloaded and PKI-verified through the
 * seam (env/ext_seam.c): a failing download / verification makes every rule inconclusive (NA; with the error status when it is one of
 * out-of-memory / invalid-argument / buffer-overflow / unknown), never OK and never FAIL.
 * Shape: number of records 0..3, digest length classes, publication record present.  Symbolic: all times, imprints, seam statuses. */
#include "verif.h"
#include "internal.h"
#include "verification_rule.h"
#include "ctx.h"
#include "hash_model.h"
#include "verif_post.h"
#include "types_base.c"
#include "sig_builder.h"
#define C04_WITH_PUBFILE 1
#ifndef C04_PF_ALG0
#define C04_PF_ALG0 -20          /* digest length class of the first record (must match C04_PF_ALG[0]; used to guard a witness point) */
#endif
#include "c04_builder.h"
#include "ext_seam.h"
/* secondary witness points are only compiled in the thorough tier (-DWITNESS_ALL): every witness costs a solver call plus a full trace */
#ifdef WITNESS_ALL
#define WITNESS_EXTRA(msg) WITNESS_POINT(msg)
#else
#define WITNESS_EXTRA(msg) ((void)0)
#endif

#define IS(res_, r_, rc_, ec_) ((res_) == KSI_OK && (r_).resultCode == (rc_) && (r_).errorCode == (ec_))
#define IS_ERR(res_, r_) ((res_) != KSI_OK && (r_).resultCode == KSI_VER_RES_NA)

static int fatal(int s) { return s == KSI_OUT_OF_MEMORY || s == KSI_INVALID_ARGUMENT || s == KSI_BUFFER_OVERFLOW || s == KSI_UNKNOWN_ERROR; }

void harness(void) {
	VERIF_ctx_init();
	VERIF_hm_init(0);
	VERIF_ext_init();
	KSI_CTX *ctx = VERIF_ctx;
	sb_build(ctx);
	c04_build_pubfile(ctx);
	KSI_RuleVerificationResult r;
	int res;

#if !C04_PF_USER
	/* the file comes from the download seam */
	VERIF_ext.pubfile = c04_pubfile;
	VERIF_ext.pubfile_res = ND(int, pubfile_res);
	VERIF_ext.pubfile_verify_res = ND(int, pubfile_verify_res);
	int fetch = VERIF_ext.pubfile_res != KSI_OK ? VERIF_ext.pubfile_res : VERIF_ext.pubfile_verify_res;
#else
	int fetch = KSI_OK;
#endif

	/* ---- reference facts over the raw values ---- */
	u64 signing = SB_HAS_CAL ? (SB_CAL_HAS_AGGRTIME ? SB.cal.aggrTime : SB.cal.pubTime) : SB.ch[0].aggrTime;
	int has_time = 0, has_pub = 0, suitable = 0;
	for (unsigned i = 0; i < C04_NPUB; i++) {
#if SB_HAS_PUB
		if (C4.pf[i].time == SB.pub.time) { has_time = 1; if (sb_hash_eq(&C4.pf[i].imp, &SB.pub.imp)) has_pub = 1; }
#endif
		if (C4.pf[i].time >= signing) suitable = 1;
	}

#define FETCH_FAILED_CHECKS(name) \
		if (fatal(fetch)) CHECK(res == fetch && r.resultCode == KSI_VER_RES_NA, "C04.Hpubfile " name ": fatal download failure is returned as error status with NA"); \
		else CHECK(res == KSI_OK && r.resultCode == KSI_VER_RES_NA && r.status == fetch, "C04.Hpubfile " name ": unavailable publications file is inconclusive (NA) and records the status")

#if SB_HAS_PUB
	sb_result_init(&r);
	res = KSI_VerificationRule_PublicationsFileContainsSignaturePublication(&sb_vc, &r);
	if (fetch != KSI_OK) { FETCH_FAILED_CHECKS("ContainsSignaturePublication"); }
	else CHECK(has_time ? IS(res, r, KSI_VER_RES_OK, KSI_VER_ERR_NONE) : IS(res, r, KSI_VER_RES_NA, KSI_VER_ERR_NONE),
			"C04.Hpubfile ContainsSignaturePublication is OK exactly when the file has a record of the signature's publication time");
	sb_result_init(&r);
	res = KSI_VerificationRule_PublicationsFileDoesNotContainSignaturePublication(&sb_vc, &r);
	if (fetch != KSI_OK) { FETCH_FAILED_CHECKS("DoesNotContainSignaturePublication"); }
	else CHECK(!has_time ? IS(res, r, KSI_VER_RES_OK, KSI_VER_ERR_NONE) : IS(res, r, KSI_VER_RES_NA, KSI_VER_ERR_NONE),
			"C04.Hpubfile DoesNotContainSignaturePublication is the exact opposite");
	sb_result_init(&r);
	res = KSI_VerificationRule_PublicationsFileSignaturePublicationVerification(&sb_vc, &r);
	if (fetch != KSI_OK) { FETCH_FAILED_CHECKS("SignaturePublicationVerification"); }
	else if (has_pub) {
		CHECK(IS(res, r, KSI_VER_RES_OK, KSI_VER_ERR_NONE), "C04.Hpubfile the signature's publication (time and hash) found in the file: OK");
#if C04_NPUB > 0 && SB_PUBALG == C04_PF_ALG0
		WITNESS_EXTRA("publication found in the file");
#endif
	} else if (has_time) {
		CHECK(IS(res, r, KSI_VER_RES_FAIL, KSI_VER_ERR_PUB_5), "C04.Hpubfile the file has another hash for the signature's publication time: FAIL PUB-05");
#if C04_NPUB > 0
		WITNESS_POINT("publication time found with another hash");
#endif
	} else {
		CHECK(!(res == KSI_OK && r.resultCode == KSI_VER_RES_OK), "C04.Hpubfile no record of that time: never OK");
	}
#else
	sb_result_init(&r);
	res = KSI_VerificationRule_PublicationsFileContainsSignaturePublication(&sb_vc, &r);
	CHECK(IS_ERR(res, r), "C04.Hpubfile ContainsSignaturePublication without publication record: error status and NA");
	sb_result_init(&r);
	res = KSI_VerificationRule_PublicationsFileDoesNotContainSignaturePublication(&sb_vc, &r);
	CHECK(IS_ERR(res, r), "C04.Hpubfile DoesNotContainSignaturePublication without publication record: error status and NA");
	sb_result_init(&r);
	res = KSI_VerificationRule_PublicationsFileSignaturePublicationVerification(&sb_vc, &r);
	CHECK(IS_ERR(res, r), "C04.Hpubfile SignaturePublicationVerification without publication record: error status and NA");
#endif

	sb_result_init(&r);
	res = KSI_VerificationRule_PublicationsFileContainsSuitablePublication(&sb_vc, &r);
	if (fetch != KSI_OK) {
		FETCH_FAILED_CHECKS("ContainsSuitablePublication");
#if !C04_PF_USER
		if (fatal(fetch)) WITNESS_EXTRA("fatal download failure");
		if (!fatal(fetch) && VERIF_ext.pubfile_res == KSI_OK) WITNESS_POINT("downloaded file fails PKI verification");
#endif
	} else if (suitable) {
		CHECK(IS(res, r, KSI_VER_RES_OK, KSI_VER_ERR_NONE), "C04.Hpubfile a publication at or after the signing time exists: OK");
#if C04_NPUB > 0
		if (C4.pf[C04_NPUB - 1].time == signing) WITNESS_EXTRA("publication exactly at the signing time is suitable");
#endif
	} else {
		CHECK(res == KSI_OK && r.resultCode == KSI_VER_RES_NA, "C04.Hpubfile no publication at or after the signing time: NA");
		WITNESS_POINT("no suitable publication");
	}
#if !C04_PF_USER
	CHECK(VERIF_ext.pubfile_fetches >= 1, "C04.Hpubfile without a caller supplied file the file is downloaded");
	CHECK(VERIF_ext.pubfile_res != KSI_OK || VERIF_ext.pubfile_verifies == VERIF_ext.pubfile_fetches, "C04.Hpubfile every downloaded file is PKI-verified before use");
#else
	CHECK(VERIF_ext.pubfile_fetches == 0, "C04.Hpubfile a caller supplied file is used without download");
#endif
}
