/* C16: instrumentation of the level-validity macro for harnesses that #include tree_builder.c /
 * blocksigner.c.  Include AFTER the libksi headers and verif_post.h, BEFORE the repository .c text.
 *
 * KSI_IS_VALID_TREE_LEVEL(level) (common.h) keeps its value - it is still computed by the macro text of the
 * tree under analysis, captured below in c16_valid_i / c16_valid_u before the re-definition.  Added: while
 * VERIF_expect_no_error is set (env/ctx_expect.c; set by a harness around operations which its reference
 * model says must succeed, i.e. every level is in 0..255) a FALSE result is reported as a failed check and
 * the path ends (assert-then-assume).  Reason: several validity tests in tree_builder.c leave through the
 * cleanup label without KSI_pushError, so the switch in KSI_ERR_push alone does not keep CBMC from merging
 * error and success states (see env/ctx_expect.c). */
#ifndef C16_INSTR_H_
#define C16_INSTR_H_
extern int VERIF_expect_no_error;
static inline int c16_valid_i(int l) { return KSI_IS_VALID_TREE_LEVEL(l); }
static inline int c16_valid_u(unsigned l) { return KSI_IS_VALID_TREE_LEVEL(l); }
static int c16_expect_valid(int v) {
	if (VERIF_expect_no_error) {
		if (!v) {
			CHECK(0, "C16.INSTR a tree level is found invalid although the reference keeps every level within 0..255");
			ASSUME(0);
		}
		return 1;   /* == v on every path that continues (v is the 0/1 value of the macro's && expression) */
	}
	return v;
}
#undef KSI_IS_VALID_TREE_LEVEL
#define KSI_IS_VALID_TREE_LEVEL(level) c16_expect_valid(_Generic((level) + 0, unsigned: c16_valid_u, default: c16_valid_i)(level))
#endif
