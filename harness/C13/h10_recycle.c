/* C13 H-10: KSI_AbstractAsyncHandle_new / KSI_AsyncAggregationHandle_new on a RECYCLED handle (ctx->asyncHandleRecycle,
 * filled by the library's own release path KSI_AsyncHandle_free -> KSI_AsyncHandle_cleanup) must return an object
 * indistinguishable from a freshly allocated one.  Inductive style: a handle is released with ARBITRARY field contents
 * (any state, id, error fields, send progress, clocks, origin; request, response, message and buffer attached -
 * cleanup releases them but leaves the pointers in place), then the constructor is called and every field is compared
 * with the freshly-constructed state.  The recycled handle is then submitted and must satisfy H-1's acceptance contract
 * (a stale state / err / respCtx / sentCount would let a request be completed with someone else's result). */
#define HN "C13.H10"
#define CACHE_S 2
#define CONF_KIND 0
#include "verif.h"
#include "internal.h"
#include "ctx.h"
#include "verif_post.h"
#include "c13_model.h"
#include "net_async.c"
#include "c13_state.h"

KSI_IMPLEMENT_LIST(KSI_AsyncHandle, KSI_AsyncHandle_free)      /* types.c:201 */

static unsigned user_free_calls;
static void user_ctx_free(void *p) { (void)p; user_free_calls++; }

void harness(void) {
	VERIF_ctx_init();
	KSI_CTX *ctx = VERIF_ctx;
	int res;
	res = KSI_AsyncHandleList_new(&ctx->asyncHandleRecycle); ASSUME(res == KSI_OK);     /* as KSI_CTX_new does (base.c:329) */

	/* a handle at the end of its life, in an arbitrary state */
	KSI_AsyncHandle *old = NULL;
	res = KSI_AbstractAsyncHandle_new(ctx, &old); ASSUME(res == KSI_OK && old != NULL);
	old->id = ND(u64, stale_id);
	old->state = ND(int, stale_state);
	old->err = ND(int, stale_err); old->errExt = ND(long, stale_err_ext);
	old->len = 4; old->sentCount = ND(size_t, stale_sent);
	old->raw = (unsigned char *)KSI_malloc(4); ASSUME(old->raw != NULL);
	old->parentId = ND(size_t, stale_parent);
	old->reqTime = ND(long, stale_req_time); old->sndTime = ND(long, stale_snd_time); old->rcvTime = ND(long, stale_rcv_time);
	c13_attach_request(ctx, old, old->id, 1, 0);
	{ KSI_AggregationResp *r = NULL; res = KSI_AggregationResp_new(ctx, &r); ASSUME(res == KSI_OK); old->respCtx = r; old->respCtx_free = c13_resp_free; }
	res = KSI_Utf8String_new(ctx, c13_user, 2, &old->errMsg); ASSUME(res == KSI_OK);
	old->userCtx = &user_free_calls; old->userCtx_free = user_ctx_free;
	old->signature = (const KSI_Signature *)&c13_dummy_hash; old->pubRec = (const KSI_PublicationRecord *)&c13_dummy_hash;
	KSI_AsyncHandle_free(old);                             /* the library's release path: last reference -> recycle list */
	CHECK(KSI_AsyncHandleList_length(ctx->asyncHandleRecycle) == 1 && user_free_calls == 1, HN " released handle is cleaned up once and goes to the recycle list");

	/* construction from the recycle list, through the public constructor */
	KSI_AggregationReq *req = NULL;
	res = KSI_AggregationReq_new(ctx, &req); ASSUME(res == KSI_OK);
	req->requestHash = (KSI_DataHash *)&c13_dummy_hash;
	KSI_AsyncHandle *h = NULL;
	res = KSI_AsyncAggregationHandle_new(ctx, req, &h);
	CHECK(res == KSI_OK && h != NULL, HN " construction from the recycle list succeeds");
	CHECK(h == old && KSI_AsyncHandleList_length(ctx->asyncHandleRecycle) == 0, HN " the recycled handle is the one handed out");
	CHECK(h->ctx == ctx && h->ref == 1, HN " recycled handle: context and a single reference");
	CHECK(h->state == KSI_ASYNC_STATE_UNDEFINED && h->id == 0 && h->parentId == 0, HN " recycled handle: state UNDEFINED, no id, no origin");
	CHECK(h->err == KSI_OK && h->errExt == 0 && h->errMsg == NULL, HN " recycled handle: no error code, external code or message");
	CHECK(h->respCtx == NULL && h->respCtx_free == NULL, HN " recycled handle: no response attached");
	CHECK(h->raw == NULL && h->len == 0 && h->sentCount == 0, HN " recycled handle: no serialized payload, no send progress");
	CHECK(h->reqTime == 0 && h->sndTime == 0 && h->rcvTime == 0, HN " recycled handle: clocks cleared");
	CHECK(h->userCtx == NULL && h->userCtx_free == NULL, HN " recycled handle: no user context");
	CHECK(h->aggrReq == req && h->extReq == NULL && h->signature == NULL && h->pubRec == NULL, HN " recycled handle: carries exactly the new request");

	/* and it behaves like a fresh one when submitted (H-1's acceptance contract, empty cache of size 1) */
	struct c13_snap pre;
	KSI_AsyncClient *c = c13_mk_client(ctx, &pre);
	ASSUME(pre.nocc == 0);
	res = asyncClient_addAggregatorRequest(c, h);
	if (res == KSI_OK) {
		CHECK(c->reqCache[1] == h && h->state == KSI_ASYNC_STATE_WAITING_FOR_DISPATCH && h->ref == 2, HN " recycled handle accepted like a fresh one");
		CHECK(h->respCtx == NULL && h->errMsg == NULL && h->sentCount == 0 && h->raw != NULL && (h->id & KSI_ASYNC_REQUEST_ID_MASK) == 1, HN " accepted recycled handle carries no stale result");
		WITNESS_POINT("recycled handle re-constructed and accepted");
	} else {
		CHECK(h->ref == 1 && c->reqCache[1] == NULL, HN " refused recycled handle stays with the caller");
	}
	c13_check_inv(c);
}
