/* C13 H-5: handing a finished handle back (asyncClient_findNextResponse + asyncClient_finalizeRequest) from an
 * ARBITRARY invariant-satisfying client state at an arbitrary time with an arbitrary receive timeout.
 *
 * final(h) := h is ERROR, RESPONSE_RECEIVED or PUSH_CONFIG_RECEIVED, or h is WAITING_FOR_RESPONSE and the receive
 *             timeout is 0 or more than `timeout` seconds have passed since it was sent   (KSI_ASYNC_OPT_RCV_TIMEOUT).
 * Contract:
 *  - a handle is returned only if it was cached and final; it leaves the cache (so it cannot be returned twice)
 *    with the caller now owning the cache's reference; a timed-out one is ERROR / KSI_NETWORK_RECIEVE_TIMEOUT,
 *    the others are returned as they were; pending resp. received decreases by exactly one accordingly;
 *  - NULL is returned only if no cached handle is final (nothing finished is ever left behind);
 *  - every other cached handle is untouched; Inv(c) afterwards. */
#define HN "C13.H5"
#include "verif.h"
#include "internal.h"
#include "ctx.h"
#include "verif_post.h"
#include "c13_model.h"
#include "net_async.c"
#include "c13_state.h"

static int is_final(const struct c13_hsnap *p, size_t timeout) {
	if (p->h == NULL) return 0;
	if (p->state == KSI_ASYNC_STATE_ERROR || p->state == KSI_ASYNC_STATE_RESPONSE_RECEIVED || p->state == KSI_ASYNC_STATE_PUSH_CONFIG_RECEIVED) return 1;
	if (p->state == KSI_ASYNC_STATE_WAITING_FOR_RESPONSE) {
		if (timeout == 0) return 1;
		/* sndTime <= now by construction; whole seconds */
#ifdef ORACLE_DOUBLE
		if (difftime(c13_now, p->sndTime) > (double)timeout) return 1;
#else
		if ((u64)(c13_now - p->sndTime) > (u64)timeout) return 1;
#endif
	}
	return 0;
}

void harness(void) {
	VERIF_ctx_init();
	KSI_CTX *ctx = VERIF_ctx;
	struct c13_snap pre;
	int res;
	KSI_AsyncClient *c = c13_mk_client(ctx, &pre);
	const size_t timeout = c->options[KSI_ASYNC_OPT_RCV_TIMEOUT];
	KSI_AsyncHandle *out = (KSI_AsyncHandle *)&c13_dummy_hash;   /* poison: must be overwritten */

	res = asyncClient_findNextResponse(c, &out);
	CHECK(res == KSI_OK, HN " search for a finished handle succeeds");
	CHECK(out != (KSI_AsyncHandle *)&c13_dummy_hash, HN " output always written");
	ASSUME(out != (KSI_AsyncHandle *)&c13_dummy_hash);

	/* which pre-state handle is it? (index 0 = serverConf) */
	size_t k = CACHE_S; unsigned nfinal = 0;
	for (size_t i = 0; i < CACHE_S; i++) {
		const struct c13_hsnap *p = (i == 0) ? &pre.conf : &pre.slot[i];
		if (out != NULL && p->h == out) k = i;
		if (is_final(p, timeout)) nfinal++;
	}
	if (out == NULL) {
		CHECK(nfinal == 0, HN " NULL only when no cached handle is finished");
		CHECK(c13_slots_unchanged(c, &pre, 0) && c13_conf_unchanged(c, &pre), HN " nothing changes when nothing is returned");
		CHECK(c->pending == pre.pending && c->received == pre.received, HN " counters unchanged when nothing is returned");
		if (pre.nocc >= 1 && timeout > 5) WITNESS_POINT("nothing finished yet: NULL");
	} else {
		CHECK(k < CACHE_S, HN " returned handle was cached");
		if (k < CACHE_S) {
			const struct c13_hsnap *p = (k == 0) ? &pre.conf : &pre.slot[k];
			CHECK(is_final(p, timeout), HN " returned handle was finished (final state or receive timeout elapsed)");
			if (k == 0) CHECK(c->serverConf == NULL && c13_slots_unchanged(c, &pre, 0), HN " returned configuration handle left the cache, slots untouched");
			else CHECK(c->reqCache[k] == NULL && c13_slots_unchanged(c, &pre, k) && c13_conf_unchanged(c, &pre), HN " returned handle left its slot, other handles untouched");
			CHECK(out->ref == p->ref && out->id == p->id && out->respCtx == p->respCtx, HN " returned handle keeps identity, references and response");
			if (p->state == KSI_ASYNC_STATE_WAITING_FOR_RESPONSE) {
				CHECK(out->state == KSI_ASYNC_STATE_ERROR && out->err == KSI_NETWORK_RECIEVE_TIMEOUT, HN " timed-out handle returned as ERROR / receive timeout");
				CHECK(c->pending == pre.pending - 1 && c->received == pre.received, HN " timed-out handle leaves pending");
				if (timeout != 0 && (u64)(c13_now - p->sndTime) == (u64)timeout + 1) WITNESS_POINT("receive timeout just elapsed");
				if (timeout == 0) WITNESS_POINT("timeout 0: waiting handle returned at once");
			} else {
				CHECK(out->state == p->state && out->err == p->err && out->errMsg == p->errMsg, HN " finished handle returned as it was");
				if (p->state == KSI_ASYNC_STATE_ERROR) CHECK(c->pending == pre.pending - 1 && c->received == pre.received, HN " failed handle leaves pending");
				else CHECK(c->pending == pre.pending && c->received == pre.received - 1, HN " answered handle leaves received");
#if CACHE_S > 2
				if (k != 0 && k != pre.tail && p->state == KSI_ASYNC_STATE_RESPONSE_RECEIVED) WITNESS_POINT("answered handle found away from the scan position");
#endif
			}
		}
	}
	c13_check_inv(c);
}
