/* C18 H-2: KSI_PublicationsFile_verify hands exactly (raw bytes, signedDataLength, signature object, the file's
 * certificate constraints) to the PKI layer of the context in use and reports exactly its verdict; a file
 * without signature is KSI_PUBLICATIONS_FILE_NOT_SIGNED_WITH_PKI and never reaches the PKI layer; neither does
 * a file without raw bytes (and it is never reported as verified).
 * PKI layer = env/c18_pki_model.c: records the arguments, returns a symbolic status.  PKCS#7 / X.509
 * processing itself is OUTSIDE this harness (see h2b_constraints for the constraint wiring inside
 * pkitruststore_openssl.c).
 * Shape per instance: HAS_SIG, HAS_RAW, HAS_CONSTR (file-level constraints present), CTX_ARG (1: a context is
 * passed, 0: NULL -> the file's own context), HAS_STORE (context already has a truststore).  Symbolic: raw
 * length value and signed length (any size_t), the model's verdict (any int). */
#include "verif.h"
#include "internal.h"
#include "impl/publicationsfile_impl.h"
#include "impl/ctx_impl.h"
#include "ctx.h"
#include "c18_pki_model.h"
#include "verif_post.h"
#ifndef HAS_SIG
#define HAS_SIG 1
#endif
#ifndef HAS_RAW
#define HAS_RAW 1
#endif
#ifndef HAS_CONSTR
#define HAS_CONSTR 0
#endif
#ifndef CTX_ARG
#define CTX_ARG 1
#endif
#ifndef HAS_STORE
#define HAS_STORE 1
#endif
#define RAWN 12
static struct KSI_CTX_st other_ctx;   /* the file's own context when another one is passed to verify */

void harness(void) {
	VERIF_ctx_init(); VERIF_pki_init();
	KSI_CTX *ctx = VERIF_ctx; int res;
	memset(&other_ctx, 0, sizeof(other_ctx));
	KSI_PublicationsFile *pf = NULL;
	/* the file was created under other_ctx when CTX_ARG, so that "which context is used" is observable */
	res = KSI_PublicationsFile_new(CTX_ARG ? &other_ctx : ctx, &pf); ASSUME(res == KSI_OK);
	unsigned char *raw = NULL;
#if HAS_RAW
	raw = KSI_malloc(RAWN); ASSUME(raw != NULL);
	for (unsigned i = 0; i < RAWN; i++) raw[i] = ND(u8, raw_byte);
#endif
	pf->raw = raw; pf->raw_len = ND(size_t, raw_len);
	size_t sdl = ND(size_t, signed_len);
	pf->signedDataLength = sdl;
	KSI_PKISignature *sig = NULL;
#if HAS_SIG
	{ u8 der[2] = {0x30, 0x00}; res = KSI_PKISignature_new(ctx, der, 2, &sig); ASSUME(res == KSI_OK); }
#endif
	pf->signature = sig;
	static KSI_CertConstraint constr[2] = {{(char *)"1.2.840.113549.1.9.1", (char *)"a@b"}, {NULL, NULL}};
	pf->certConstraints = HAS_CONSTR ? constr : NULL;
	KSI_PKITruststore *store = NULL;
#if HAS_STORE
	res = KSI_PKITruststore_new(ctx, 0, &store); ASSUME(res == KSI_OK);
	res = KSI_CTX_setPKITruststore(ctx, store); ASSUME(res == KSI_OK);
#endif
	unsigned created0 = VERIF_pki_truststores_created;

	res = KSI_PublicationsFile_verify(pf, CTX_ARG ? ctx : NULL);

#if !HAS_SIG
	CHECK(res == KSI_PUBLICATIONS_FILE_NOT_SIGNED_WITH_PKI, "C18.H2 a file without signature record is reported as not signed with PKI");
	CHECK(VERIF_pki_last.count == 0, "C18.H2 a file without signature record never reaches the PKI layer");
	WITNESS_POINT("unsigned file refused");
#elif !HAS_RAW
	CHECK(res != KSI_OK, "C18.H2 a file without raw bytes is never reported as verified");
	CHECK(VERIF_pki_last.count == 0, "C18.H2 a file without raw bytes never reaches the PKI layer");
	WITNESS_POINT("file without raw bytes refused");
#else
	CHECK(VERIF_pki_last.count == 1, "C18.H2 the PKI layer is consulted exactly once");
	CHECK(VERIF_pki_last.data == raw && VERIF_pki_last.data_len == sdl, "C18.H2 the PKI layer receives the raw file bytes and exactly signedDataLength as their length");
	CHECK(VERIF_pki_last.signature == sig, "C18.H2 the PKI layer receives the file's signature object");
	CHECK(VERIF_pki_last.certConstraints == (HAS_CONSTR ? constr : NULL), "C18.H2 the PKI layer receives the file's certificate constraints");
	CHECK(VERIF_pki_last.pki != NULL && VERIF_pki_last.pki == ctx->pkiTruststore && VERIF_pki_last.pki->ctx == ctx, "C18.H2 the truststore of the context in use is consulted");
#if HAS_STORE
	CHECK(VERIF_pki_last.pki == store && VERIF_pki_truststores_created == created0, "C18.H2 an existing truststore is used, none is created");
#else
	CHECK(VERIF_pki_truststores_created == created0 + 1 && VERIF_pki_last.pki->isDefault == 1, "C18.H2 a missing truststore is created once with the default trust anchors");
#endif
	CHECK(res == VERIF_pki_last.verdict, "C18.H2 the result is exactly the PKI layer's verdict");
	if (res == KSI_OK) WITNESS_POINT("verified");
	if (VERIF_pki_last.verdict == KSI_PKI_CERTIFICATE_NOT_TRUSTED && sdl > 8) WITNESS_POINT("not trusted");
#endif
	/* verify is read-only */
	CHECK(pf->raw == raw && pf->signedDataLength == sdl && pf->signature == sig && pf->certConstraints == (HAS_CONSTR ? constr : NULL) && pf->ref == 1,
		"C18.H2 verification does not modify the file object");
	CHECK(KSI_PublicationsFile_verify(NULL, ctx) == KSI_INVALID_ARGUMENT, "C18.H2 a missing file is an invalid argument");
}
