/* C19 H-8: KSI_AsyncService_addRequest (asyncClient_addAggregatorRequest -> addRequest, net_async.c) under a single
 * allocation failure at the concrete index FAULT_AT, followed by CONTINUED USE of the same client and handles with
 * faults disarmed.
 * Scenario: client from the real constructor (cache size 2, stub transport of the C13 models, every model object
 * allocated through KSI_new / KSI_malloc), one submission of REQ_KIND (1 request, 2 configuration request,
 * 3 request + configuration) with the fault armed.  Then, disarmed: if the call failed the caller releases its handle
 * (API contract: "KSI_AsyncHandle_free for cleaning up resources in case of a failure"); a further request is
 * submitted; service rounds in which the transport sends everything and reports a closed connection hand every
 * cached handle back; the caller releases them; the client is freed.
 * Checks: error or the correct result; after an error the handle is exclusively the caller's (one reference, not
 * cached, not handed to the transport) and the counters are as before; Inv(c) of C13 after every step; the further
 * submission succeeds; every accepted handle comes back exactly once; CBMC: no use-after-free / double free / leak. */
#define HN "C19.H8"
#define C13_STUBS_NEVER_FAIL 1
#define C13_CREDENTIALS_OK 1
#define C13_ADD_MAX 4
#define CACHE_S 3
#include "c19.h"
#include "net_async.h"
#include "verif_post.h"
#include "c13_model.h"
#include "net_async.c"
#include "c13_state.h"

#ifndef REQ_KIND
#define REQ_KIND 3
#endif

/* transport: sends everything it holds (releasing its reference, as net_tcp_async.c does) and reports a closed connection */
static int h8_dispatch(void *impl) {
	struct c13_transport *t = (struct c13_transport *)impl;
	t->dispatch_calls++;
	for (unsigned i = 0; i < C13_ADD_MAX; i++) {
		KSI_AsyncHandle *h = t->held_add[i];
		if (h == NULL) continue;
		if (h->state == KSI_ASYNC_STATE_WAITING_FOR_DISPATCH) { h->state = KSI_ASYNC_STATE_WAITING_FOR_RESPONSE; h->sndTime = c13_now; }
		t->held_add[i] = NULL;
		KSI_AsyncHandle_free(h);
	}
	return KSI_ASYNC_CONNECTION_CLOSED;
}
static int no_responses(KSI_AsyncClient *c) { (void)c; return KSI_OK; }

static KSI_AsyncHandle *mk_handle(KSI_CTX *ctx, int kind) {
	KSI_AsyncHandle *h = NULL;
	int res = KSI_AbstractAsyncHandle_new(ctx, &h); ASSUME(res == KSI_OK && h != NULL);
	c13_attach_request(ctx, h, 0, kind & 1, (kind & 2) != 0);
	if (kind & 1) { KSI_Integer_free(h->aggrReq->requestId); h->aggrReq->requestId = NULL; }
	return h;
}
static int is_cached(const KSI_AsyncClient *c, const KSI_AsyncHandle *h) {
	int found = (c->serverConf == h);
	for (size_t i = 1; i < CACHE_S; i++) if (c->reqCache[i] == h) found = 1;
	return found;
}
static int is_queued(const KSI_AsyncHandle *h) {
	int q = 0;
	for (unsigned i = 0; i < C13_ADD_MAX; i++) if (c13_tr.held_add[i] == h) q = 1;
	return q;
}

void harness(void) {
	VERIF_ctx_init();
	KSI_CTX *ctx = VERIF_ctx;
	int res;
	KSI_AsyncClient *c = NULL;
	memset(&c13_tr, 0, sizeof(c13_tr));
	c13_now = 1000;
	res = KSI_AbstractAsyncClient_new(ctx, &c); ASSUME(res == KSI_OK && c != NULL);
	c->clientImpl = &c13_tr; c->addRequest = c13_tr_addRequest; c->getCredentials = c13_tr_getCredentials;
	c->getResponse = (int (*)(void *, KSI_OctetString **, size_t *))c13_tr_getResponse; c->dispatch = h8_dispatch;
	res = asyncClient_setOption(c, KSI_ASYNC_OPT_REQUEST_CACHE_SIZE, (void *)(size_t)(CACHE_S - 1)); ASSUME(res == KSI_OK);
	res = asyncClient_setOption(c, KSI_ASYNC_OPT_RCV_TIMEOUT, (void *)(size_t)10); ASSUME(res == KSI_OK);
	c13_difftime_threshold = 10; c13_difftime_threshold_set = 1;
	KSI_AsyncHandle *h = mk_handle(ctx, REQ_KIND);
#ifdef READD
	/* the handle is RE-ADDED (documented for handles that came back in state ERROR): it still carries what the earlier
	 * submission left in it - the serialised request, an error and its message, a request id */
	{
		unsigned char *old_raw = (unsigned char *)KSI_malloc(4); ASSUME(old_raw != NULL);
		for (int i = 0; i < 4; i++) old_raw[i] = ND(u8, old_raw);
		h->raw = old_raw; h->len = 4; h->sentCount = 4; h->id = 1;
		h->state = KSI_ASYNC_STATE_ERROR; h->err = KSI_ASYNC_CONNECTION_CLOSED; h->errExt = ND(long, old_err_ext);
		if (REQ_KIND & 1) { res = KSI_Integer_new(ctx, 1, &h->aggrReq->requestId); ASSUME(res == KSI_OK); }
	}
#endif

	/* ---- the faulted call ---- */
	C19_ARM();
	res = asyncClient_addAggregatorRequest(c, h);
	C19_DISARM();
	const size_t owed = (REQ_KIND & 1) + ((REQ_KIND & 2) ? 1 : 0);
	C19_OUTCOME(res, is_cached(c, h) && c->pending == owed && h->ref == 2 && h->state == KSI_ASYNC_STATE_WAITING_FOR_DISPATCH);
	size_t outstanding = 0;
	if (res != KSI_OK) {
		CHECK(!is_cached(c, h), HN " after a failed submission the handle is not cached");
		CHECK(!is_queued(h) && h->ref == 1, HN " after a failed submission the handle is exclusively the caller's (not queued in the transport, one reference)");
		CHECK(c->pending == 0 && c->received == 0 && c->serverConf == NULL, HN " after a failed submission nothing is counted or cached");
		c13_check_inv(c);
		KSI_AsyncHandle_free(h);        /* the caller cleans up, as the API documents */
		h = NULL;
	} else {
		c13_check_inv(c);
		outstanding = owed;
	}

	/* ---- continued use, no faults ---- */
	KSI_AsyncHandle *h2 = mk_handle(ctx, 1);
	res = asyncClient_addAggregatorRequest(c, h2);
	if (outstanding < CACHE_S - 1) { CHECK(res == KSI_OK && is_cached(c, h2), HN " a further submission without fault succeeds"); outstanding++; }
	else { CHECK(res == KSI_ASYNC_REQUEST_CACHE_FULL && h2->ref == 1, HN " a further submission on the full cache is refused cleanly"); KSI_AsyncHandle_free(h2); h2 = NULL; }
	c13_check_inv(c);
	CHECK(c->pending + c->received == outstanding, HN " pending + received = handles accepted");

	unsigned gotH = 0, gotH2 = 0, gotOther = 0;
	for (unsigned r = 0; r < CACHE_S + 1; r++) {
		KSI_AsyncHandle *out = NULL; size_t waiting = 0;
		res = asyncClient_run(c, no_responses, &out, &waiting);
		CHECK(res == KSI_OK, HN " a service round after the fault succeeds");
		if (out != NULL) {
			CHECK(out->state == KSI_ASYNC_STATE_ERROR && out->err == KSI_ASYNC_CONNECTION_CLOSED || out->state == KSI_ASYNC_STATE_WAITING_FOR_DISPATCH || out->state == KSI_ASYNC_STATE_ERROR, HN " returned handle is final");
			if (h != NULL && out == h) gotH++; else if (h2 != NULL && out == h2) gotH2++; else gotOther++;
			outstanding--;
			KSI_AsyncHandle_free(out);
		}
		CHECK(waiting == c->pending + c->received, HN " waiting count consistent");
		c13_check_inv(c);
	}
	CHECK(gotH == (h != NULL ? 1u : 0u) && gotH2 == (h2 != NULL ? 1u : 0u), HN " every accepted handle comes back exactly once, a refused one never");
#if (REQ_KIND & 2) && (REQ_KIND & 1)
	/* the configuration handle of a request+configuration submission is never sent and only completes when a
	 * configuration arrives; it is released with the client */
	CHECK(gotOther == 0, HN " no foreign handle is returned");
#else
	CHECK(gotOther == 0, HN " no foreign handle is returned ");
#endif
	KSI_AsyncClient_free(c);
	WITNESS_POINT("scenario finished");
#if FAULT_AT >= 1 && FAULT_AT <= 5
	if (VERIF_fault_hit) WITNESS_POINT("fault was injected");
#endif
}
