/* C14 H-3c: length arithmetic of the blocking reader readData (fast_tlv.c) for EVERY declared length 0..65535 and
 * every caller buffer size 0..65539 (symbolic), with an abstract byte source in place of the socket: the source
 * hands out the symbolic header bytes, records what it was asked for, and at each call either supplies everything
 * asked for, or is short by a symbolic amount, or fails with a symbolic status.
 * This is the part of "PDU sizes 2 .. 65539" that the byte-exact harnesses (H-3a: buffers <= 8 bytes, H-3b: short
 * elements in the real 65 539-byte buffer) cover only through uniformity.
 * assert: the requests are, in this order, 2 bytes at offset 0, [2 bytes at offset 2 iff long form], then the
 * declared payload length at offset header (only if > 0 and header+payload <= buffer size); nothing is requested
 * after a short or failed read; OK <=> everything was supplied and the element fits; consumed = bytes supplied;
 * the largest element a 16-bit length can declare (65539 bytes) is accepted by a 65539-byte buffer. */
#include "verif.h"
#include "internal.h"
#include "fast_tlv.h"

typedef int (*reader_t)(void *, unsigned char *, size_t, size_t *);
int readData(void *fd, unsigned char *buf, size_t len, size_t *consumed, struct fast_tlv_s *t, reader_t read_fn);

#define BUFCAP (0xffff + 4)
static u8 hdrbytes[4];
static unsigned char *base;
static unsigned ncalls;
static size_t req_off[3], req_len[3];
static int short_at = -1;        /* call index that was short / failed */
static int fail_status;
static size_t supplied;
static int cookie;

static int src(void *fd, unsigned char *dst, size_t n, size_t *rd) {
	unsigned k = ncalls++;
	CHECK(fd == (void *)&cookie, "C14.H3c the caller's descriptor is passed through");
	CHECK(k < 3, "C14.H3c at most three reads per element");
	CHECK(short_at < 0, "C14.H3c nothing is requested after a short or failed read");
	if (k < 3) { req_off[k] = (size_t)(dst - base); req_len[k] = n; }
	size_t give = n;
	int st = KSI_OK;
	if (ND_BOOL(src_short)) {
		size_t miss = ND(size_t, src_miss);
		ASSUME(miss >= 1 && miss <= n);
		give = n - miss;
		short_at = (int)k;
		if (ND_BOOL(src_fail)) { st = ND(int, src_status); ASSUME(st != KSI_OK); }
		fail_status = st;
	}
	/* only header bytes have content that matters; they sit at offsets 0..3 */
	if (k < 2) {
		size_t off = (size_t)(dst - base);
		for (unsigned i = 0; i < 2; i++) if (i < give && off + i < 4) dst[i] = hdrbytes[off + i];
	}
	supplied += give;
	*rd = give;
	return st;
}

void harness(void) {
	size_t len = ND(size_t, buflen);
	ASSUME(len <= BUFCAP);
	base = malloc(BUFCAP);              /* one 65539-byte object; readData is told it has `len` usable bytes */
	ASSUME(base != NULL);
	for (unsigned i = 0; i < 4; i++) hdrbytes[i] = ND(u8, hdr);
	KSI_FTLV t; memset(&t, 0, sizeof(t));
	size_t consumed = (size_t)-1;
	int res = readData(&cookie, base, len, &consumed, &t, src);

	int is16 = (hdrbytes[0] & 0x80) != 0;
	size_t hdr = is16 ? 4 : 2;
	size_t dat = is16 ? (((size_t)hdrbytes[2] << 8) | hdrbytes[3]) : hdrbytes[1];

	if (len < 2) {
		CHECK(res == KSI_INVALID_ARGUMENT && ncalls == 0, "C14.H3c buffer shorter than a header refused without reading");
		return;
	}
	CHECK(consumed == supplied, "C14.H3c consumed equals the bytes supplied by the source");
	/* reference request sequence */
	size_t eo[3] = {0, 0, 0}, el[3] = {0, 0, 0}; unsigned en = 0; int stop = 0;
	int fits = hdr + dat <= len;
	eo[en] = 0; el[en] = 2; en++;
	if (short_at == 0) stop = 1;
	if (!stop && is16) {
		if (len < 4) stop = 1;
		else { eo[en] = 2; el[en] = 2; en++; if (short_at == 1) stop = 1; }
	}
	if (!stop && fits && dat > 0) { eo[en] = hdr; el[en] = dat; en++; }
	int seq = (ncalls == en);
	for (unsigned i = 0; i < 3; i++) if (i < en && (req_off[i] != eo[i] || req_len[i] != el[i])) seq = 0;
	CHECK(seq, "C14.H3c requests are: short header at 0, long-form rest at 2, then exactly the declared payload at offset header, and nothing else");
	int complete = short_at < 0 && fits && (!is16 || len >= 4);
	CHECK((res == KSI_OK) == complete, "C14.H3c OK exactly when the element was supplied completely and fits");
	if (res == KSI_OK) {
		CHECK(consumed == hdr + dat && t.hdr_len == hdr && t.dat_len == dat, "C14.H3c OK reports header+payload");
		if (dat == 0xffff && len == BUFCAP) WITNESS_POINT("largest declarable element (65539 bytes) accepted");
		if (!is16 && dat == 0) WITNESS_POINT("smallest element (2 bytes) accepted");
	} else {
		if (short_at >= 0 && fail_status != KSI_OK) CHECK(res == fail_status, "C14.H3c the source's failure status is passed on");
		if (short_at < 0) {
			CHECK(res == KSI_BUFFER_OVERFLOW, "C14.H3c an element larger than the buffer is refused with BUFFER_OVERFLOW");
			if (is16 && dat == 0xffff && len == BUFCAP - 1) WITNESS_POINT("65539-byte element refused by a 65538-byte buffer");
		}
		if (short_at == 2) WITNESS_POINT("short payload read rejected");
	}
}
