/* C04 H-a (user publication): the rules that compare the signature with a USER SUPPLIED publication, on a typed signature,
 * against reference predicates written from verification_rule.h / policy.h (PUB-04) and the property statement:
 *   UserProvidedPublicationExistence      OK iff a publication object WITH time and imprint was supplied, else NA without error code
 *   RequireNoUserProvidedPublication      OK iff no publication object was supplied, else NA
 *   UserProvidedPublicationTimeVerification   "user publication time equals the publication time inside the signature": OK / NA (never FAIL)
 *   UserProvidedPublicationTimeDoesNotSuit    the opposite: OK when there is no signature publication or the times differ, else NA
 *   UserProvidedPublicationHashVerification   "user publication hash equals the publication hash inside the signature": OK / FAIL PUB-04
 *   ...ExtendingPermittedVerification (both policies)  OK iff context.extendingAllowed != 0, else NA
 *   UserProvidedPublicationCreationTimeVerification  "signature is created before user provided publication": OK iff the signing time
 *                                             (calendar aggregation time, else first aggregation chain's time) < user publication time, else NA
 * A rule that misses the component it reads reports an error status with NA (never OK / FAIL).
 * Shape per instance: calendar chain present?, publication record present?, user publication shape (C04_USERPUB), digest length
 * classes of the two imprints.  Symbolic: all times (64 bit), algorithm ids inside the class, digest bytes. */
#include "verif.h"
#include "internal.h"
#include "verification_rule.h"
#include "ctx.h"
#include "hash_model.h"
#include "verif_post.h"
#include "types_base.c"
#include "sig_builder.h"
#include "c04_builder.h"
/* secondary witness points are only compiled in the thorough tier (-DWITNESS_ALL): every witness costs a solver call plus a full trace */
#ifdef WITNESS_ALL
#define WITNESS_EXTRA(msg) WITNESS_POINT(msg)
#else
#define WITNESS_EXTRA(msg) ((void)0)
#endif

#define IS(res_, r_, rc_, ec_) ((res_) == KSI_OK && (r_).resultCode == (rc_) && (r_).errorCode == (ec_))
#define IS_ERR(res_, r_) ((res_) != KSI_OK && (r_).resultCode == KSI_VER_RES_NA)

void harness(void) {
	VERIF_ctx_init();
	VERIF_hm_init(0);
	KSI_CTX *ctx = VERIF_ctx;
	sb_build(ctx);
	c04_build_userpub(ctx);
	KSI_RuleVerificationResult r;
	int res;
	const int up_complete = (C04_USERPUB == 1);

	sb_result_init(&r);
	res = KSI_VerificationRule_UserProvidedPublicationExistence(&sb_vc, &r);
	CHECK(up_complete ? IS(res, r, KSI_VER_RES_OK, KSI_VER_ERR_NONE) : IS(res, r, KSI_VER_RES_NA, KSI_VER_ERR_NONE),
			"C04.Huser UserProvidedPublicationExistence is OK exactly for a publication with time and imprint, NA without error code otherwise");
	sb_result_init(&r);
	res = KSI_VerificationRule_RequireNoUserProvidedPublication(&sb_vc, &r);
	CHECK(C04_USERPUB == 0 ? IS(res, r, KSI_VER_RES_OK, KSI_VER_ERR_NONE) : (res == KSI_OK && r.resultCode == KSI_VER_RES_NA),
			"C04.Huser RequireNoUserProvidedPublication is OK exactly when no publication object was supplied");

	/* ---- presence probes used as guards by the anchor tables: OK / NA without error code ---- */
#define PROBE(rule, present, msg) sb_result_init(&r); res = KSI_VerificationRule_##rule(&sb_vc, &r); \
	CHECK((present) ? IS(res, r, KSI_VER_RES_OK, KSI_VER_ERR_NONE) : IS(res, r, KSI_VER_RES_NA, KSI_VER_ERR_NONE), "C04.Huser " #rule " " msg)
	PROBE(SignaturePublicationRecordExistence, SB_HAS_PUB, "is OK exactly with a publication record");
	PROBE(SignaturePublicationRecordMissing, !SB_HAS_PUB, "is OK exactly without a publication record");
	PROBE(SignatureDoesNotContainPublication, !SB_HAS_PUB, "is OK exactly without a publication record");
	PROBE(CalendarHashChainExistence, SB_HAS_CAL, "is OK exactly with a calendar chain");
	PROBE(CalendarHashChainDoesNotExist, !SB_HAS_CAL, "is OK exactly without a calendar chain");

	/* ---- permission to extend ("0 means no, and any non-zero is considered to be true", policy.h) ---- */
	{
		int allowed = ND(int, extending_allowed);
		sb_vc.extendingAllowed = allowed;
		sb_result_init(&r);
		res = KSI_VerificationRule_UserProvidedPublicationExtendingPermittedVerification(&sb_vc, &r);
		CHECK(allowed != 0 ? IS(res, r, KSI_VER_RES_OK, KSI_VER_ERR_NONE) : (res == KSI_OK && r.resultCode == KSI_VER_RES_NA),
				"C04.Huser extending permitted rule (user publication policy) is OK exactly when extending is allowed, NA otherwise");
		sb_result_init(&r);
		res = KSI_VerificationRule_PublicationsFileExtendingPermittedVerification(&sb_vc, &r);
		CHECK(allowed != 0 ? IS(res, r, KSI_VER_RES_OK, KSI_VER_ERR_NONE) : (res == KSI_OK && r.resultCode == KSI_VER_RES_NA),
				"C04.Huser extending permitted rule (publications file policy) is OK exactly when extending is allowed, NA otherwise");
		if (allowed == 0) WITNESS_POINT("extending not allowed");
		if (allowed < 0) WITNESS_EXTRA("extending allowed by a negative flag value");
	}

#if C04_USERPUB != 0
	/* ---- time ---- */
	sb_result_init(&r);
	res = KSI_VerificationRule_UserProvidedPublicationTimeVerification(&sb_vc, &r);
#if SB_HAS_PUB && C04_USERPUB != 2
	if (SB.pub.time == C4.up.time) {
		CHECK(IS(res, r, KSI_VER_RES_OK, KSI_VER_ERR_NONE), "C04.Huser equal publication times are accepted by the time rule");
		WITNESS_EXTRA("user publication time equals signature publication time");
	} else {
		CHECK(res == KSI_OK && r.resultCode == KSI_VER_RES_NA, "C04.Huser different publication times are inconclusive (NA), never FAIL");
		if (SB.pub.time + 1 == C4.up.time) WITNESS_EXTRA("user publication one second later");
	}
#else
	CHECK(IS_ERR(res, r), "C04.Huser time rule without signature publication or without user publication time: error status and NA");
#endif
	sb_result_init(&r);
	res = KSI_VerificationRule_UserProvidedPublicationTimeDoesNotSuit(&sb_vc, &r);
	{
		int same = SB_HAS_PUB && C04_USERPUB != 2 && SB.pub.time == C4.up.time;
		CHECK(same ? IS(res, r, KSI_VER_RES_NA, KSI_VER_ERR_NONE) : IS(res, r, KSI_VER_RES_OK, KSI_VER_ERR_NONE),
				"C04.Huser TimeDoesNotSuit is the exact opposite of the time rule: NA without error code iff the times are equal");
	}
	/* ---- hash ---- */
	sb_result_init(&r);
	res = KSI_VerificationRule_UserProvidedPublicationHashVerification(&sb_vc, &r);
#if SB_HAS_PUB && C04_USERPUB != 3
	if (sb_hash_eq(&SB.pub.imp, &C4.up.imp)) {
		CHECK(IS(res, r, KSI_VER_RES_OK, KSI_VER_ERR_NONE), "C04.Huser equal publication imprints are accepted by the hash rule");
#if SB_PUBALG == C04_USERPUB_ALG
		WITNESS_EXTRA("user publication hash equals signature publication hash");
#endif
	} else {
		CHECK(IS(res, r, KSI_VER_RES_FAIL, KSI_VER_ERR_PUB_4), "C04.Huser a different publication imprint yields FAIL PUB-04");
#if SB_PUBALG == C04_USERPUB_ALG && SB_PUBALG < 0
		if (SB.pub.imp.imp[0] == C4.up.imp.imp[0] && SB.pub.imp.imp[1] == C4.up.imp.imp[1]) WITNESS_POINT("imprints differ in a later digest byte");
		if (SB.pub.imp.imp[0] != C4.up.imp.imp[0]) WITNESS_EXTRA("imprints differ in the algorithm id");
#else
		WITNESS_POINT("imprints of different length classes");
#endif
	}
#else
	CHECK(IS_ERR(res, r), "C04.Huser hash rule without signature publication or without user publication imprint: error status and NA");
#endif
	/* ---- creation time ---- */
	sb_result_init(&r);
	res = KSI_VerificationRule_UserProvidedPublicationCreationTimeVerification(&sb_vc, &r);
#if C04_USERPUB == 2
	CHECK(IS_ERR(res, r), "C04.Huser creation time rule without user publication time: error status and NA");
#elif SB_HAS_CAL && !SB_CAL_HAS_AGGRTIME
	/* calendar chain without aggregation-time element (= publication time by the format): the rule compares a missing value; see
	 * FINDINGS.md (observation O1).  Only what the property needs is asserted here: inconclusive or OK, never FAIL. */
	CHECK(res == KSI_OK && (r.resultCode == KSI_VER_RES_OK || r.resultCode == KSI_VER_RES_NA), "C04.Huser creation time rule on a chain without aggregation time is OK or NA");
	if (r.resultCode == KSI_VER_RES_OK) WITNESS_POINT("creation time rule OK without aggregation time");
#else
	{
		u64 signing = SB_HAS_CAL ? SB.cal.aggrTime : SB.ch[0].aggrTime;
		if (signing < C4.up.time) {
			CHECK(IS(res, r, KSI_VER_RES_OK, KSI_VER_ERR_NONE), "C04.Huser signature created before the user publication: OK");
			if (signing + 1 == C4.up.time) WITNESS_EXTRA("created one second before the publication");
		} else {
			CHECK(res == KSI_OK && r.resultCode == KSI_VER_RES_NA, "C04.Huser signature not created before the user publication: NA");
			if (signing == C4.up.time) WITNESS_POINT("created exactly at the publication time: NA");
		}
	}
#endif
#else
	/* no user publication at all: every comparing rule refuses with an error status */
	sb_result_init(&r);
	res = KSI_VerificationRule_UserProvidedPublicationTimeVerification(&sb_vc, &r);
	CHECK(IS_ERR(res, r), "C04.Huser time rule without user publication: error status and NA");
	sb_result_init(&r);
	res = KSI_VerificationRule_UserProvidedPublicationHashVerification(&sb_vc, &r);
	CHECK(IS_ERR(res, r), "C04.Huser hash rule without user publication: error status and NA");
	sb_result_init(&r);
	res = KSI_VerificationRule_UserProvidedPublicationCreationTimeVerification(&sb_vc, &r);
	CHECK(IS_ERR(res, r), "C04.Huser creation time rule without user publication: error status and NA");
	WITNESS_POINT("no user publication");
#endif
}
