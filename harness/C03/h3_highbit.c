/* C03 H-3: highBit(n) = largest power of two <= n, for every n in 1..2^63-1 (the only values
 * calculateCalendarAggregationTime passes: it stops with an error on r <= 0 before every use). */
#include "verif.h"
#include "internal.h"
#include "ctx.h"
#include "verif_post.h"
#include "hashchain.c"
void harness(void) {
	long long n = (long long)ND(u64, n);
	ASSUME(n > 0);
	long long h = highBit(n);
	/* reference by bit scan */
	long long ref = 0;
	for (int b = 62; b >= 0; b--) { if (ref == 0 && ((n >> b) & 1)) ref = 1LL << b; }
	CHECK(h == ref, "C03.H3 highBit = largest power of two not above n");
	CHECK(h > 0 && h <= n && (h & (h - 1)) == 0 && (n - h) < h, "C03.H3 highBit characterisation");
	if (n > (1LL << 40) && h != n) WITNESS_POINT("large non-power-of-two");
	if (n == 1) WITNESS_POINT("n = 1");
}
