/* C01 H-c: END-TO-END on one small shape - the REAL engine (Policy_verifySignature / Rule_verify), the REAL internalRules
 * tables and the REAL 31 leaf rules, run in one verification on a typed signature; closes (for this shape) the gap the
 * decomposition hb_policy + ha_* leaves open: that rules evaluated in sequence on shared state (result object, tempData,
 * chain / calendar output-hash memo) behave as they do in isolation.
 * Shape: one aggregation chain with one imprint link (SHA-1 chain), chain index of one element, calendar chain of one
 * RIGHT link, publication record, document hash given, no RFC3161 record.  Symbolic: everything else (64-bit times below
 * 2^63 - see known finding F-C01-2 -, index, level, level correction, direction of the aggregation link, all imprints).
 * Oracle: the fifteen applicable conditions restated from the documentation for this shape; final OK <=> all hold;
 * exactly one violated => (KSI_OK, FAIL, its code); FAIL => the code of some violated condition; a level above 255 or
 * an uncomputable chain / calendar shape => never OK. */
#include "verif.h"
#include "internal.h"
#include "verification_rule.h"
#include "impl/policy_impl.h"
#include "ctx.h"
#include "hash_model.h"
#include "verif_post.h"
#include "types_base.c"
#include "sig_builder.h"
#include "policy.c"

#define SHA1_DEPRECATED_FROM 1467331200ull
#define T63 0x8000000000000000ull

void harness(void) {
	VERIF_ctx_init();
	VERIF_hm_init(0);
	KSI_CTX *ctx = VERIF_ctx;
	sb_build(ctx);
	ASSUME(SB.ch[0].aggrTime < T63 && SB.cal.pubTime < T63 && SB.cal.aggrTime < T63 && SB.pub.time < T63);

	KSI_PolicyVerificationResult pr;
	memset(&pr, 0, sizeof(pr));
	pr.ref = 1;
	KSI_RuleVerificationResult_init(&pr.finalResult);
	pr.ruleResults = NULL; pr.policyResults = NULL;       /* bookkeeping off, as in hb_policy */

	int res = Policy_verifySignature(KSI_VERIFICATION_POLICY_INTERNAL, &sb_vc, &pr);
	int rc = pr.finalResult.resultCode, ec = pr.finalResult.errorCode;
	int final_ok = (res == KSI_OK && rc == KSI_VER_RES_OK);
	CHECK(VERIF_hm_overflow == 0, "C01.He hash-model log large enough");

	/* The verdict may have been reached before the aggregation chain or the calendar chain was hashed.  To state ALL conditions,
	 * let the (memoising) public aggregators finish what the run left undone: a digest computed by the run is reused, a missing
	 * one is computed now.  Hash-log entry 0 is then the chain's step (if the chain is computable), the next one the calendar step. */
	const unsigned nrec_run = VERIF_hm_nrec;
	{
		int lvl = 0; KSI_DataHash *h = NULL;
		int ra = KSI_AggregationHashChain_aggregate(sb_chain[0], 0, &lvl, &h);
		KSI_DataHash_free(h); h = NULL;
		int rcal = KSI_CalendarHashChain_aggregate(sb_cal, &h);
		KSI_DataHash_free(h);
		ASSUME(rcal == KSI_OK);
		(void)ra;
	}
	const int chain_computable = (SB.ch[0].link[0].lc <= 254);
	const unsigned cal_rec = chain_computable ? 1 : 0;
	CHECK(VERIF_hm_nrec == cal_rec + 1, "C01.He every chain step is hashed exactly once (run + completion)");

	/* ---- the conditions of this shape ---- */
	const struct sb_hash_v *S = &SB.ch[0].in, *D = &SB.doc;
	const struct sb_link_v *lk = &SB.ch[0].link[0];
	const u64 L = SB.docLevel, p = SB.cal.pubTime, T = SB.cal.aggrTime;
	enum { HOLDS, VIOLATED, UNCOMPUTABLE };
	int st[15]; int code[15]; unsigned n = 0;
#define COND(state, c) do { st[n] = (state); code[n] = (c); n++; } while (0)
	COND(D->imp[0] == S->imp[0] ? HOLDS : VIOLATED, KSI_VER_ERR_GEN_4);
	COND((D->imp[0] != S->imp[0] || sb_hash_eq(D, S)) ? HOLDS : VIOLATED, KSI_VER_ERR_GEN_1);      /* same algorithm, other digest */
	COND(L > 255 ? UNCOMPUTABLE : ((L == 0 || L <= lk->lc) ? HOLDS : VIOLATED), KSI_VER_ERR_GEN_3);
	COND((S->imp[0] == 0 && T >= SHA1_DEPRECATED_FROM) ? VIOLATED : HOLDS, KSI_VER_ERR_INT_13);
	COND((SB.ch[0].aggrTime >= SHA1_DEPRECATED_FROM) ? VIOLATED : HOLDS, KSI_VER_ERR_INT_15);       /* the chain is a SHA-1 chain */
	COND(lk->lc > 254 ? UNCOMPUTABLE : HOLDS, KSI_VER_ERR_INT_1);                                    /* level = correction + 1 must fit a byte */
	COND(SB.ch[0].idx[0] == 2ull + (lk->isLeft ? 1 : 0) ? HOLDS : VIOLATED, KSI_VER_ERR_INT_10);
	/* aggregation root = imprint (SHA-1, digest of the chain's hash computation) */
	int root_eq = (SB.cal.in.len == 21 && SB.cal.in.imp[0] == 0);
	for (unsigned i = 0; i < 20; i++) if (SB.cal.in.imp[1 + i] != VERIF_hm_rec[0].digest[i]) root_eq = 0;
	COND(!chain_computable ? HOLDS /* counted once, as INT-01 above */ : (root_eq ? HOLDS : VIOLATED), KSI_VER_ERR_INT_3);
	COND(T == SB.ch[0].aggrTime ? HOLDS : VIOLATED, KSI_VER_ERR_INT_4);
	/* one right link: the calendar tree of p must consist of a complete left subtree and the single leaf p, i.e. p is a power of two */
	int p_pow2 = (p != 0 && (p & (p - 1)) == 0);
	COND(!p_pow2 ? UNCOMPUTABLE : (T == p ? HOLDS : VIOLATED), KSI_VER_ERR_INT_5);
	/* calendar root = imprint (algorithm of the right operand = calendar input hash, digest of the calendar hash computation) */
	int pub_eq = (SB.pub.imp.len == 21 && SB.pub.imp.imp[0] == SB.cal.in.imp[0]);
	for (unsigned i = 0; i < 20; i++) if (SB.pub.imp.imp[1 + i] != VERIF_hm_rec[cal_rec].digest[i]) pub_eq = 0;
	COND(pub_eq ? HOLDS : VIOLATED, KSI_VER_ERR_INT_9);
	COND(SB.pub.time == p ? HOLDS : VIOLATED, KSI_VER_ERR_INT_7);

	unsigned n_viol = 0, n_unc = 0; int code_viol = -1, fail_code_matches = 0;
	for (unsigned i = 0; i < 15; i++) if (i < n) {
		if (st[i] == VIOLATED) { n_viol++; code_viol = code[i]; if (ec == code[i]) fail_code_matches = 1; }
		if (st[i] == UNCOMPUTABLE) n_unc++;
	}
	if (final_ok) CHECK(nrec_run == 2, "C01.He an OK verdict implies that the run itself recomputed the aggregation chain and the calendar chain");
	if (final_ok) CHECK(n_viol == 0 && n_unc == 0 && ec == KSI_VER_ERR_NONE, "C01.He end to end: OK only if every condition of the shape holds");
	if (n_viol == 0 && n_unc == 0) CHECK(final_ok, "C01.He end to end: every condition holds implies OK");
	if (n_viol == 1 && n_unc == 0) CHECK(res == KSI_OK && rc == KSI_VER_RES_FAIL && ec == code_viol, "C01.He end to end: exactly one violated condition yields FAIL with its documented code");
	if (res == KSI_OK && rc == KSI_VER_RES_FAIL) CHECK(fail_code_matches, "C01.He end to end: a FAIL verdict carries the code of a violated condition");
	if (n_unc > 0) CHECK(!final_ok, "C01.He end to end: an uncomputable condition never yields OK");
	if (L > 255) CHECK(res == KSI_INVALID_VERIFICATION_INPUT || (res == KSI_OK && rc == KSI_VER_RES_FAIL), "C01.He end to end: a level above 255 is refused unless the document hash already failed");

	if (final_ok) WITNESS_POINT("end to end: consistent signature verifies");
	if (final_ok && L == 7 && lk->lc == 7) WITNESS_POINT("end to end: verifies at level 7");
	if (n_viol == 1 && n_unc == 0 && st[11] == VIOLATED) WITNESS_POINT("end to end: only the publication time is wrong");
	if (n_viol == 1 && n_unc == 0 && st[6] == VIOLATED) WITNESS_POINT("end to end: only the chain index is wrong");
	if (n_viol == 0 && n_unc == 1 && st[9] == UNCOMPUTABLE) WITNESS_POINT("end to end: publication time is no power of two - shape not computable");
}
