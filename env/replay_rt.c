/* Replay runtime: feeds the solver's counterexample values to a native build of a harness. */
#include <stdio.h>
#include <stdlib.h>
#include <string.h>
struct ent { char tag[64]; unsigned long long val; int used; };
static struct ent *tab; static size_t ntab;
static void load(void) {
	static int done; if (done) return; done = 1;
	const char *p = getenv("VERIF_REPLAY_FILE"); if (!p) return;
	FILE *f = fopen(p, "r"); if (!f) { perror(p); exit(3); }
	char tag[64]; unsigned long long v; size_t cap = 0;
	while (fscanf(f, "%63s %llu", tag, &v) == 2) {
		if (ntab == cap) { cap = cap ? cap * 2 : 256; tab = realloc(tab, cap * sizeof *tab); }
		strcpy(tab[ntab].tag, tag); tab[ntab].val = v; tab[ntab].used = 0; ntab++;
	}
	fclose(f);
}
unsigned long long replay_next(const char *tag, unsigned size) {
	load();
	for (size_t i = 0; i < ntab; i++) if (!tab[i].used && strcmp(tab[i].tag, tag) == 0) { tab[i].used = 1; return tab[i].val; }
	(void)size; return 0;
}
void replay_check_fail(const char *msg, const char *file, int line) {
	printf("REPLAY-CHECK-FAILED: %s (%s:%d)\n", msg, file, line); fflush(stdout); exit(1);
}
void harness(void);
int main(void) { harness(); printf("REPLAY-DONE: harness returned normally\n"); return 0; }
