/* C01 H-a (calendar root): SignaturePublicationRecordPublicationHash (INT-09) and
 * CalendarAuthenticationRecordAggregationHash (INT-08): the published / authenticated imprint must equal the root the
 * calendar hash chain computes.
 * Real code: the rules, KSI_CalendarHashChain_aggregate, KSI_HashChain_aggregateCalendar / aggregateChain (calendar mode),
 * hash.c front end, KSI_DataHash_equals.  Hash model U logs every hash computation.
 * Reference (KSI format, calendar hash chain): start from the chain's input imprint; every step hashes
 * left || right || 0xFF with the hash algorithm of its RIGHT operand (left link: running imprint is the left operand,
 * the sibling the right one); the root is the imprint after the last step.
 * Shape per instance: links, their directions (concrete, they select the digest lengths), algorithms of input hash and
 * siblings, publication or auth record.  Symbolic: all imprint bytes, the record's algorithm id within its length class. */
#include "verif.h"
#include "internal.h"
#include "verification_rule.h"
#include "ctx.h"
#include "hash_model.h"
#include "verif_post.h"
#include "types_base.c"
#include "sig_builder.h"

#define IS(res_, rc_, ec_) (res == (res_) && r.resultCode == (rc_) && r.errorCode == (ec_))
#define IS_OK IS(KSI_OK, KSI_VER_RES_OK, KSI_VER_ERR_NONE)

void harness(void) {
	VERIF_ctx_init();
	VERIF_hm_init(0);
	KSI_CTX *ctx = VERIF_ctx;
	sb_build(ctx);
	KSI_RuleVerificationResult r;
	int res;

	sb_result_init(&r);
#if SB_HAS_PUB
	res = KSI_VerificationRule_SignaturePublicationRecordPublicationHash(&sb_vc, &r);
	const struct sb_hash_v *P = &SB.pub.imp;
	const int code = KSI_VER_ERR_INT_9;
#else
	res = KSI_VerificationRule_CalendarAuthenticationRecordAggregationHash(&sb_vc, &r);
	const struct sb_hash_v *P = &SB.auth.imp;
	const int code = KSI_VER_ERR_INT_8;
#endif
	CHECK(VERIF_hm_overflow == 0, "C01.Hr hash-model log large enough");
	CHECK(VERIF_hm_nrec == SB_CAL_NLINKS, "C01.Hr one hash computation per calendar link");

	/* reference root from the hash log */
	u8 cur[65]; unsigned curlen = SB.cal.in.len;
	for (unsigned i = 0; i < 65; i++) cur[i] = SB.cal.in.imp[i];
	int msgs_ok = 1, algs_ok = 1;
	for (unsigned l = 0; l < SB_MAXCAL; l++) {
		if (l < SB_CAL_NLINKS) {
			const u8 *sib = SB.cal.link[l].sib.imp; unsigned sl = SB.cal.link[l].sib.len;
			int left = SB.cal.link[l].isLeft;
			const u8 *L = left ? cur : sib; unsigned ll = left ? curlen : sl;
			const u8 *R = left ? sib : cur; unsigned rl = left ? sl : curlen;
			unsigned alg = R[0];
			unsigned el = ll + rl + 1;
			for (unsigned j = 0; j < HM_LOG_MAX; j++) {
				u8 e = 0;
				if (j < ll) e = L[j < 65 ? j : 0];
				else if (j < ll + rl) e = R[(j - ll) < 65 ? (j - ll) : 0];
				else if (j == ll + rl) e = 0xff;
				if (j < el && VERIF_hm_rec[l].msg[j] != e) msgs_ok = 0;
			}
			if (VERIF_hm_rec[l].len != el) msgs_ok = 0;
			if ((unsigned)VERIF_hm_rec[l].alg != alg) algs_ok = 0;
			unsigned dl = sb_alg_len(alg);
			cur[0] = (u8)alg;
			for (unsigned j = 0; j < 64; j++) cur[1 + j] = VERIF_hm_rec[l].digest[j];
			curlen = 1 + dl;
		}
	}
	CHECK(algs_ok, "C01.Hr every calendar step is hashed with the algorithm of its right operand");
	CHECK(msgs_ok, "C01.Hr every calendar step hashes left || right || 0xFF");

	int same = (P->len == curlen);
	for (unsigned i = 0; i < 65; i++) if (i < curlen && same && P->imp[i] != cur[i]) same = 0;
	if (same) { CHECK(IS_OK, "C01.Hr a record imprint equal to the calendar root is accepted");
		WITNESS_POINT("record imprint equals the calendar root");
	} else { CHECK(IS(KSI_OK, KSI_VER_RES_FAIL, code), "C01.Hr a record imprint different from the calendar root yields FAIL INT-09 / INT-08");
		if (P->len == curlen && P->imp[0] != cur[0]) WITNESS_POINT("record imprint differs in the algorithm id only or also");
		WITNESS_POINT("record imprint differs from the calendar root");
	}
}
