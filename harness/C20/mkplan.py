#!/usr/bin/env python3
"""Generates harness/C20/plan.json (instances = concrete URI shapes).  Run: python3 harness/C20/mkplan.py"""
import json, os

HERE = os.path.dirname(os.path.abspath(__file__))


def shape(scheme, ui=None, hostkind=0, hlen=2, pdig=0, plen=0, qlen=0, flen=0):
    """ui = None or (ulen, klen)"""
    d = {"scheme": scheme, "ui": ui, "hostkind": hostkind, "hlen": hlen, "pdig": pdig, "plen": plen, "qlen": qlen, "flen": flen}
    hostlit = {0: hlen, 1: 7, 2: hlen + 2, 3: 0}[hostkind]
    d["urilen"] = len(scheme) + 3 + ((ui[0] + 1 + ui[1] + 1) if ui else 0) + hostlit + ((1 + pdig) if pdig else 0) + plen + \
        ((1 + qlen) if qlen else 0) + ((1 + flen) if flen else 0)
    return d


def defs(s):
    r = ['C20_SCHEME="%s"' % s["scheme"], "C20_HAS_UI=%d" % (1 if s["ui"] else 0)]
    r += ["C20_ULEN=%d" % (s["ui"][0] if s["ui"] else 0), "C20_KLEN=%d" % (s["ui"][1] if s["ui"] else 0)]
    r += ["C20_HOSTKIND=%d" % s["hostkind"], "C20_HLEN=%d" % s["hlen"], "C20_PDIG=%d" % s["pdig"], "C20_PLEN=%d" % s["plen"],
          "C20_QLEN=%d" % s["qlen"], "C20_FLEN=%d" % s["flen"]]
    return r


CLASS = {"ksi": 1, "ksi+http": 1, "ksi+https": 2, "ksi+tcp": 3, "file": 4}

# ---------------------------------------------------------------- shapes shared by H-1 (split), H-3 (blocking dispatch), H-4 (async dispatch)
# (label, shape, H-3 params (explicit id len, explicit key len, extender), in-situ split in H-3, H-4 params or None)
S_QUICK = [
    ("ksi_min", shape("ksi", None, 0, 1), (0, 0, 0), 0, (0, 0, 0, 0)),
    ("ksi_ui_full", shape("ksi", (2, 2), 0, 3, 4, 3, 2, 2), (0, 0, 0), 1, None),
    ("ksihttp_ui_expl_both", shape("ksi+http", (1, 1), 0, 2, 2, 2, 1, 0), (2, 2, 0), 0, (1, 1, 1, 0)),
    ("ksihttps_quad_expl_id", shape("ksi+https", None, 1, 0, 3, 1, 0, 1), (1, 0, 1), 0, (0, 0, 0, 1)),
    ("ksihttp_ui_expl_key_nopath", shape("ksi+http", (1, 2), 0, 2, 5, 0, 1, 0), (0, 1, 1), 0, None),
    ("ksihttp_v6", shape("ksi+http", (1, 1), 2, 3, 2, 2), (0, 0, 0), 0, (0, 0, 1, 0)),
    ("tcp_ui_expl_key", shape("ksi+tcp", (2, 1), 0, 3, 4, 0), (0, 1, 0), 1, (0, 1, 0, 0)),
    ("tcp_quad_expl", shape("ksi+tcp", None, 1, 0, 5, 2), (1, 1, 1), 0, (1, 0, 1, 1)),
    ("file_path", shape("file", None, 3, 0, 0, 3), (1, 1, 0), 0, (0, 0, 0, 0)),
    ("plainhttp_ui_query_nopath", shape("http", (1, 0), 0, 3, 3, 0, 2, 0), (0, 0, 0), 0, (0, 0, 1, 0)),
    ("xy_frag_expl_id", shape("xy", (1, 1), 0, 2, 0, 3, 0, 2), (1, 0, 0), 0, (1, 1, 0, 0)),
]
S_THOROUGH = S_QUICK + [
    ("ksi_v6_emptyuser", shape("ksi", (0, 1), 2, 3, 4, 2, 0, 1), (0, 0, 1), 0, None),
    ("tcp_v6_ui_expl_id", shape("ksi+tcp", (1, 1), 2, 3, 1, 0), (1, 0, 0), 0, None),
    ("file_path_ext", shape("file", None, 3, 0, 0, 2), (0, 0, 1), 0, None),
    ("plainhttps_colonkey_expl", shape("https", (1, 2), 0, 1, 5, 1), (1, 1, 1), 0, None),
    ("long_ksihttps", shape("ksi+https", (3, 3), 0, 5, 5, 5, 3, 3), (0, 0, 0), 1, (0, 0, 0, 0)),
    ("long_tcp_v6", shape("ksi+tcp", (2, 3), 2, 7, 5, 0), (0, 2, 1), 1, (0, 0, 1, 1)),
    ("ksi_quad_noport_query", shape("ksi", (1, 1), 1, 0, 0, 0, 2, 0), (0, 0, 0), 1, None),
    ("ksihttp_port1_frag_nopath", shape("ksi+http", None, 0, 4, 1, 0, 0, 2), (2, 2, 1), 1, None),
    ("tcp_quad_ui", shape("ksi+tcp", (2, 2), 1, 0, 4, 0), (0, 0, 0), 1, None),
]
H1_BASIC = [
    ("basic_tcp_ui_port2", shape("ksi+tcp", (1, 1), 0, 2, 2, 2)),
    ("basic_v6_query", shape("ksi+http", (1, 1), 2, 3, 1, 2, 1, 0)),
    ("basic_file", shape("file", None, 3, 0, 0, 2)),
]


def inst(label, s, extra=(), unwind_extra=3):
    return {"label": label, "defines": defs(s) + list(extra), "unwind": s["urilen"] + unwind_extra}


SLICE = ["--slice-formula"]
h1 = {
    "name": "h1_split", "src": "h1_split.c",
    "env": ["c20_ctx", "c20_strtoul", "c20_libc"], "tus": ["http_parser"],
    "unwind": 40, "timeout": 400, "mem_gb": 8, "object_bits": 10, "cbmc_flags": SLICE,
    "functions": ["uriSplit", "KSI_UriSplitBasic", "newStringFromExisting", "http_parser_parse_url", "parse_url_char", "http_parse_host", "http_parse_host_char"],
    "bound": "URIs of the enumerated shapes (scheme from {ksi, ksi+http, ksi+https, ksi+tcp, file, http, https, xy} in every letter case; user-info absent or "
             "user 0..2 : key 0..2 characters (thorough 3); host name 1..3 (thorough 5) characters / d.d.d.d / [::x] IPv6 literal of 3 (thorough 7) characters / empty authority; "
             "port absent or 1..5 decimal digits of a symbolic value in 1..65535; path, query, fragment absent or up to 3 (thorough 5) characters); every character symbolic within its RFC 3986 class",
    "instances": [inst(l, s) for l, s, _, _, _ in S_QUICK] + [inst(l, s, ["C20_BASIC=1"]) for l, s in H1_BASIC],
    # ksihttp_port1_frag_nopath is the shape of known finding F-C20-3 (parser refuses '#' directly after the authority):
    # its accepting-path witness points are replaced by a "refused" witness, see h1_split.c
    "thorough": {"instances": [inst(l, s, ["C20_KNOWN_FC20_3=1"] if l == "ksihttp_port1_frag_nopath" else []) for l, s, _, _, _ in S_THOROUGH] + [inst(l, s, ["C20_BASIC=1"]) for l, s in H1_BASIC], "timeout": 1800},
}
# exact-size allocation (env/ctx.c): memory safety of the component copies, one shape, thorough only
h1x = dict(h1)
h1x.update({"name": "h1_split_exact", "env": ["ctx", "c20_strtoul"], "tier": "thorough", "timeout": 1800,
            "instances": [inst("tcp_ui_port2", shape("ksi+tcp", (1, 1), 0, 2, 2, 2))],
            "bound": "one shape (ksi+tcp://u:k@hh:dd/p) with exact-size heap objects (env/ctx.c): CBMC's bounds checks cover every byte of the component copies"})
h1x.pop("thorough")

# ---------------------------------------------------------------- H-2 scheme map
h2 = {
    "name": "h2_scheme", "src": "h2_scheme.c", "env": ["c20_ctx"], "tus": ["compatibility"],
    "unwind": 12, "timeout": 300, "mem_gb": 8,
    "functions": ["getClientByUriScheme", "KSI_strcasecmp"],
    "bound": "every string of 1..10 non-NUL bytes (all 255^n values per length) and the missing scheme",
    "instances": [{"label": "len%d" % n, "defines": ["SLEN=%d" % n]} for n in range(1, 11)],
}

# ---------------------------------------------------------------- H-3 blocking service dispatch, H-4 async
def h3inst(label, s, par, insitu):
    cls = CLASS.get(s["scheme"], 0)
    return inst(label + ("_insitu" if insitu else ""), s, ["C20_CLASS=%d" % cls, "C20_EXPL_ID=%d" % par[0], "C20_EXPL_KEY=%d" % par[1], "C20_EXTENDER=%d" % par[2], "C20_SPLIT_INSITU=%d" % insitu])


def h4inst(label, s, par):
    cls = CLASS.get(s["scheme"], 0)
    return inst(label, s, ["C20_CLASS=%d" % cls, "C20_EXPL_ID=%d" % par[0], "C20_EXPL_KEY=%d" % par[1], "C20_EXTENDER=%d" % par[2], "C20_ADD=%d" % par[3]])


h3 = {
    "name": "h3_service", "src": "h3_service.c",
    "env": ["c20_ctx", "c20_strtoul", "c20_libc", "c20_vsnprintf"],
    "tus": ["net_uri", "http_parser", "compatibility", "net_file"],
    "unwind": 40, "timeout": 400, "mem_gb": 8, "object_bits": 10, "cbmc_flags": SLICE,
    "functions": ["KSI_UriClient_setAggregator", "KSI_UriClient_setExtender", "uriClient_setService", "uriSplit (in-situ instances)", "uriCompose", "getClientByUriScheme",
                  "KSI_UriClient_new", "KSI_AbstractNetworkClient_new", "KSI_snprintf", "KSI_vsnprintf", "KSI_strcasecmp",
                  "KSI_FsClient_extractPath", "KSI_FsClient_new", "KSI_FsClient_setAggregator", "KSI_FsClient_setExtender"],
    "bound": "the URI shapes of h1_split x explicit login id / key argument absent or 1..2 symbolic bytes x aggregator / extender; instances *_insitu also run the real uriSplit inside the query",
    "instances": [h3inst(l, s, p, i) for l, s, p, i, _ in S_QUICK],
    "thorough": {"instances": [h3inst(l, s, p, 1) for l, s, p, i, _ in S_THOROUGH], "timeout": 1800},
}
h4 = {
    "name": "h4_async", "src": "h4_async.c",
    "env": ["c20_ctx", "c20_strtoul", "c20_libc", "c20_vsnprintf"], "env_defines": ["C20_TYPED_ASYNC_SERVICE=1"],
    "tus": ["net_async", "http_parser", "compatibility"],
    "unwind": 40, "timeout": 400, "mem_gb": 8, "object_bits": 10, "cbmc_flags": SLICE,
    "functions": ["KSI_SigningAsyncService_new", "KSI_ExtendingAsyncService_new", "KSI_AsyncService_setEndpoint", "KSI_AsyncService_addEndpoint", "asyncService_setupAsyncClient",
                  "KSI_AbstractAsyncService_new", "uriCompose", "getClientByUriScheme", "KSI_snprintf", "KSI_vsnprintf"],
    "bound": "a subset of the URI shapes of h1_split x explicit credentials x signing / extending service x setEndpoint / addEndpoint (uriSplit obligation discharged by h1_split)",
    "instances": [h4inst(l, s, q) for l, s, _, _, q in S_QUICK if q is not None],
    "thorough": {"instances": [h4inst(l, s, q) for l, s, _, _, q in S_THOROUGH if q is not None], "timeout": 1800},
}

# ---------------------------------------------------------------- H-0 models / uriCompose
h0s = {"name": "h0_strtoul", "src": "h0_strtoul.c", "env": ["c20_strtoul"], "tus": [], "unwind": 12, "timeout": 300, "mem_gb": 8,
       "functions": ["c20_strtoul_model (env model)"], "bound": "every string of 0..6 decimal digits followed by any non-digit byte",
       "instances": [{"label": "d%d" % n, "defines": ["NDIG=%d" % n]} for n in range(0, 7)]}
H0C = [
    ("all_sym_port3", shape("ksi+http", None, 0, 2, 3, 2, 1, 1), ["BUFSZ=64"]),
    ("sym_port5_nopath_query", shape("https", None, 0, 3, 5, 0, 2, 0), ["BUFSZ=64"]),
    ("sym_port1_v6_frag", shape("http", None, 2, 3, 1, 1, 0, 2), ["BUFSZ=64"]),
    ("noport_quad_path", shape("xy", None, 1, 0, 0, 3, 0, 0), ["BUFSZ=64"]),
    ("big_buffer_port4", shape("http", None, 0, 3, 4, 3, 2, 2), ["BUFSZ=0xffff"]),
    ("big_buffer_noport", shape("https", None, 0, 2, 0, 2, 0, 1), ["BUFSZ=0xffff"]),
]
h0c = {"name": "h0_compose", "src": "h0_compose.c", "env": ["c20_ctx", "c20_strtoul", "c20_vsnprintf"], "tus": ["compatibility", "http_parser"],
       "unwind": 40, "timeout": 300, "mem_gb": 8, "object_bits": 10,
       "functions": ["uriCompose", "KSI_snprintf", "KSI_vsnprintf", "vsnprintf (env model)"],
       "bound": "parts of the enumerated lengths with symbolic characters; port symbolic over all values with 1, 3, 4, 5 digits; 64-byte and 64 KiB destination buffers",
       "instances": [inst(l, s, x) for l, s, x in H0C]}

plan = {
    "property": "C20",
    "outside": "TBD", "assumptions": [],
    "manifest": {"claimed": True, "level_text": "TBD", "level_note": "TBD"},
    "harnesses": [h0s, h0c, h1, h1x, h2, h3, h4],
}
extra = os.path.join(HERE, "plan_extra.json")
if os.path.exists(extra):
    e = json.load(open(extra))
    for k in ("outside", "assumptions", "manifest"):
        if k in e:
            plan[k] = e[k]
    plan["harnesses"] += e.get("harnesses", [])
json.dump(plan, open(os.path.join(HERE, "plan.json"), "w"), indent=1)
print("wrote plan.json: %s" % ", ".join("%s(%d)" % (h["name"], len(h.get("instances", [1]))) for h in plan["harnesses"]))
