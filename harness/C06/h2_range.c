/* C06 H-2: authenticated byte range.  KSI_AggregationPdu_calculateHmac / KSI_ExtendPdu_calculateHmac
 * (pdu_calculateHmac for PDU v1, pdu_calculateHmac_v2 for v2, getObjectsRawValue) with KSI_HMAC_create replaced
 * by a capture stub.  From the property statement:
 *   v2: the MAC covers the serialized PDU up to, not including, the trailing digest:
 *       data = the PDU's bytes (the received bytes when the PDU was parsed, otherwise its serialization as
 *       request PDU 0x220/0x320), length = |bytes| - digest length of the MAC algorithm;
 *   v1: the MAC covers header TLV || payload TLV (received bytes, otherwise serialization with tags 0x01 and
 *       0x201/0x202 resp. 0x301/0x302);
 *   the version comes from KSI_OPT_*_PDU_VER, any other value is an error; key and algorithm are passed through;
 *   a PDU without header or without payload gets no MAC.
 * Shape (concrete per instance): family (PDU_EXT), which payload member is present (PAYLOAD), whether the objects
 * carry received raw bytes (HAS_RAW for the PDU, HDR_RAW / PL_RAW for v1 parts), header present (HAS_HDR).
 * Symbolic: PDU version option (all size_t values), MAC algorithm id (all int values), all raw bytes, outcome of
 * the MAC computation and of the serializer. */
#include "verif.h"
#include "internal.h"
#include "impl/hash_impl.h"
#include "ctx.h"
#include "tlv.h"
#include "hmac.h"
#include "tlv_template.h"
#include "hashchain.h"
#include "pkitruststore.h"
#include "net.h"
#include "net_async.h"
#include "net_ha.h"
#include "tlv_element.h"
#include "impl/ctx_impl.h"
#include "impl/meta_data_impl.h"
#include "impl/meta_data_element_impl.h"
#include "verif_post.h"
#include "types.c"
#define C06_NULL_DTORS 1
#include "c06_pdu.h"

#define P_REQ 0
#define P_RESP 1
#define P_CONFREQ 2
#define P_CONFRESP 3
#define P_NONE 4
#ifndef PAYLOAD
#define PAYLOAD P_RESP
#endif
#ifndef HAS_RAW
#define HAS_RAW 1
#endif
#ifndef HAS_HDR
#define HAS_HDR 1
#endif
#ifndef HDR_RAW
#define HDR_RAW 1
#endif
#ifndef PL_RAW
#define PL_RAW 1
#endif
#define RAWLEN 72
#define HDRLEN 5
#define PLLEN 9

static void c06_ser_hook(const void *obj, unsigned tag) { (void)obj; (void)tag; }

static KSI_OctetString *mk_octets(KSI_CTX *ctx, u8 *store, unsigned n) {
	KSI_OctetString *o = NULL;
	int res = KSI_OctetString_new(ctx, store, n, &o); ASSUME(res == KSI_OK);
	return o;
}

void harness(void) {
	VERIF_ctx_init();
	KSI_CTX *ctx = VERIF_ctx;
	int res;
	static const char key[] = "k3y";

	size_t ver = ND(size_t, pdu_version);
	ctx->options[OPT_PDU_VER] = ver;
	int alg = ND(int, mac_alg);

	u8 raw[RAWLEN], hraw[HDRLEN], plraw[PLLEN];
	for (unsigned i = 0; i < RAWLEN; i++) raw[i] = ND(u8, raw);
	for (unsigned i = 0; i < HDRLEN; i++) hraw[i] = ND(u8, hraw);
	for (unsigned i = 0; i < PLLEN; i++) plraw[i] = ND(u8, plraw);

	PDU *pdu = NULL;
	res = PDU_new(ctx, &pdu); ASSUME(res == KSI_OK);
	KSI_Header *hdr = NULL;
#if HAS_HDR
	res = KSI_Header_new(ctx, &hdr); ASSUME(res == KSI_OK);
	pdu->header = hdr;
#if HDR_RAW
	hdr->raw = mk_octets(ctx, hraw, HDRLEN);
#endif
#endif
	REQ *req = NULL; RESP *resp = NULL;
#if PAYLOAD == P_REQ
	res = REQ_new(ctx, &req); ASSUME(res == KSI_OK);
	pdu->request = req;
#if PL_RAW
	req->raw = mk_octets(ctx, plraw, PLLEN);
#endif
#elif PAYLOAD == P_RESP
	res = RESP_new(ctx, &resp); ASSUME(res == KSI_OK);
	pdu->response = resp;
#if PL_RAW
	resp->raw = mk_octets(ctx, plraw, PLLEN);
#endif
#elif PAYLOAD == P_CONFREQ
	res = KSI_Config_new(ctx, &pdu->confRequest); ASSUME(res == KSI_OK);
#elif PAYLOAD == P_CONFRESP
	res = KSI_Config_new(ctx, &pdu->confResponse); ASSUME(res == KSI_OK);
#endif
	const unsigned char *rawp = NULL; size_t rawl = 0;
#if HAS_RAW
	pdu->raw = mk_octets(ctx, raw, RAWLEN);
	res = KSI_OctetString_extract(pdu->raw, &rawp, &rawl); ASSUME(res == KSI_OK && rawl == RAWLEN);
#endif
	/* the MAC object the stubbed KSI_HMAC_create hands out */
	{
		u8 z[21]; for (unsigned i = 0; i < 21; i++) z[i] = 0;
		z[0] = KSI_HASHALG_SHA1;
		KSI_DataHash *d = malloc(sizeof(*d)); ASSUME(d != NULL);
		d->ctx = ctx; d->ref = 1; d->imprint_length = 21; for (unsigned i = 0; i < 21; i++) d->imprint[i] = z[i];
		c06_mac_ret = d;
	}

	KSI_DataHash *out = NULL;
	res = PDU_calculateHmac(pdu, alg, key, &out);

	const unsigned hl = c06_hashlen(alg);
	if (ver == 2) {
		/* ---- PDU v2 ---- */
#if !HAS_HDR || PAYLOAD == P_NONE
		CHECK(res != KSI_OK && out == NULL && c06_mac.calls == 0, "C06.H2 v2: a PDU without header or payload gets no MAC");
		WITNESS_POINT("v2 incomplete PDU refused");
#else
		if (res == KSI_OK) {
			CHECK(c06_mac.calls == 1, "C06.H2 v2: exactly one MAC computation");
			CHECK(c06_mac.alg == alg && c06_mac.key == key && c06_mac.ctx == ctx, "C06.H2 v2: algorithm and key are passed through unchanged");
			CHECK(out == c06_mac_ret, "C06.H2 v2: the result is the computed MAC");
#if HAS_RAW
			CHECK(c06_ser.calls == 0, "C06.H2 v2: a parsed PDU is authenticated over its received bytes, not re-serialized");
			CHECK(c06_mac.data == rawp, "C06.H2 v2: MAC input starts at the first received byte");
			CHECK(c06_mac.len == RAWLEN - hl, "C06.H2 v2: MAC input ends right before the trailing digest (|PDU| - digest length)");
			{
				int same = 1;
				for (unsigned i = 0; i < RAWLEN; i++) if (i < RAWLEN - hl && c06_mac.copy[i] != raw[i]) same = 0;
				CHECK(same, "C06.H2 v2: MAC input bytes are the received bytes");
			}
			if (hl == 64) WITNESS_POINT("v2 received PDU, 64-byte digest");
			if (hl == 20 && raw[RAWLEN - 21] == 0) WITNESS_POINT("v2 received PDU, 20-byte digest");
#else
			CHECK(c06_ser.calls == 1 && c06_ser.obj[0] == pdu, "C06.H2 v2: a PDU built locally is serialized once as a whole");
#if PAYLOAD == P_REQ || PAYLOAD == P_CONFREQ
			CHECK(c06_ser.tag[0] == TAG_V2_REQPDU && c06_ser.tmpl[0] == TMPL_V2_REQPDU, "C06.H2 v2: request PDU serialized with the request PDU tag and template");
#endif
			CHECK(c06_mac.data == c06_ser.buf[0], "C06.H2 v2: MAC input starts at the first serialized byte");
			CHECK(c06_mac.len == C06_SERLEN - hl, "C06.H2 v2: MAC input of a built PDU ends right before the trailing digest");
			{
				int same = 1;
				for (unsigned i = 0; i < C06_SERLEN; i++) if (i < C06_SERLEN - hl && c06_mac.copy[i] != c06_ser.bytes[0][i]) same = 0;
				CHECK(same, "C06.H2 v2: MAC input bytes are the serialized bytes");
			}
			if (hl == 32) WITNESS_POINT("v2 built request PDU, 32-byte digest");
#endif
		} else {
			CHECK(out == NULL, "C06.H2 v2: no MAC object on failure");
			if (c06_mac.calls == 1 && c06_mac_status != KSI_OK) WITNESS_POINT("v2 MAC computation failure propagated");
		}
#endif
	} else if (ver == 1) {
		/* ---- PDU v1 ---- */
#if !HAS_HDR || !(PAYLOAD == P_REQ || PAYLOAD == P_RESP)
		CHECK(res != KSI_OK && out == NULL && c06_mac.calls == 0, "C06.H2 v1: a PDU without header or payload gets no MAC");
		WITNESS_POINT("v1 incomplete PDU refused");
#else
		if (res == KSI_OK) {
			CHECK(c06_mac.calls == 1, "C06.H2 v1: exactly one MAC computation");
			CHECK(c06_mac.alg == alg && c06_mac.key == key && c06_mac.ctx == ctx, "C06.H2 v1: algorithm and key are passed through unchanged");
			CHECK(out == c06_mac_ret, "C06.H2 v1: the result is the computed MAC");
			/* expected input = header bytes || payload bytes */
			u8 exp[2 * C06_SERLEN]; unsigned n = 0, s = 0;
#if HDR_RAW
			for (unsigned i = 0; i < HDRLEN; i++) exp[n++] = hraw[i];
#else
			CHECK(c06_ser.calls > s && c06_ser.obj[s] == hdr && c06_ser.tag[s] == 0x01 && c06_ser.tmpl[s] == KSI_TLV_TEMPLATE(KSI_Header), "C06.H2 v1: a built header is serialized as element 0x01");
			for (unsigned i = 0; i < C06_SERLEN; i++) exp[n++] = c06_ser.bytes[s][i];
			s++;
#endif
#if PL_RAW
			for (unsigned i = 0; i < PLLEN; i++) exp[n++] = plraw[i];
#else
#if PAYLOAD == P_REQ
			CHECK(c06_ser.calls > s && c06_ser.obj[s] == (void *)req && c06_ser.tag[s] == TAG_V1_REQ && c06_ser.tmpl[s] == TMPL_V1_REQ, "C06.H2 v1: a built request is serialized with the v1 request tag");
#else
			CHECK(c06_ser.calls > s && c06_ser.obj[s] == (void *)resp && c06_ser.tag[s] == TAG_V1_RESP && c06_ser.tmpl[s] == TMPL_V1_RESP, "C06.H2 v1: a built response is serialized with the v1 response tag");
#endif
			for (unsigned i = 0; i < C06_SERLEN; i++) exp[n++] = c06_ser.bytes[s][i];
			s++;
#endif
			CHECK(c06_ser.calls == s, "C06.H2 v1: nothing else is serialized");
			CHECK(c06_mac.len == n, "C06.H2 v1: MAC input length = |header| + |payload|");
			{
				int same = 1;
				for (unsigned i = 0; i < 2 * C06_SERLEN; i++) if (i < n && i < C06_CAP && c06_mac.copy[i] != exp[i]) same = 0;
				CHECK(same, "C06.H2 v1: MAC input = header bytes || payload bytes");
			}
			WITNESS_POINT("v1 MAC over header and payload");
		} else {
			CHECK(out == NULL, "C06.H2 v1: no MAC object on failure");
		}
#endif
	} else {
		CHECK(res != KSI_OK && out == NULL && c06_mac.calls == 0 && c06_ser.calls == 0, "C06.H2 an unknown PDU version yields an error and no MAC");
		if (ver == 0) WITNESS_POINT("PDU version 0 refused");
	}
	/* nothing may be kept alive by the computation (leak check): release everything the harness owns */
	KSI_DataHash_free(out);
	PDU_free(pdu);
	KSI_DataHash_free(c06_mac_ret);
}
