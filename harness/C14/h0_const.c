/* C14 H-0: constant-level link between the SHIPPED configuration of net_tcp_async.c and the small instantiation
 * used by H-1/H-2.  Compiled WITHOUT overriding KSI_TLV_MAX_SIZE, i.e. with the constant of the repository:
 *   (a) KSI_TLV_MAX_SIZE == 4 + 0xffff, the largest element a TLV header can declare: for EVERY 4-byte header the
 *       reference size (tlv.h format) and the size KSI_FTLV_memRead reports are <= KSI_TLV_MAX_SIZE, and the
 *       bound is attained;
 *   (b) sizeof(inBuf) == 2 * KSI_TLV_MAX_SIZE (the read condition `inLen + KSI_TLV_MAX_SIZE <= sizeof(inBuf)` is
 *       `inLen <= KSI_TLV_MAX_SIZE`);
 *   (c) hence "every element declares at most KSI_TLV_MAX_SIZE bytes", which H-1 takes as a precondition for its
 *       small KSI_TLV_MAX_SIZE, is a theorem for the shipped one.
 * No object of the 131 078-byte struct type is created (only sizeof is used). */
#include <errno.h>
#include <poll.h>
#include "verif.h"
#include "internal.h"
#include "net_async.h"
#include "impl/net_async_impl.h"
#include "ctx.h"
#include "verif_post.h"
#ifdef KSI_TLV_MAX_SIZE
#error h0_const must see the repository's own KSI_TLV_MAX_SIZE
#endif
#include "net_tcp_async.c"

void harness(void) {
	CHECK(KSI_TLV_MAX_SIZE == 0xffff + 4, "C14.H0 shipped KSI_TLV_MAX_SIZE is 65539");
	CHECK(sizeof(((TcpAsyncCtx *)0)->inBuf) == 2 * (size_t)KSI_TLV_MAX_SIZE, "C14.H0 the reassembly buffer holds exactly two maximal elements");
	u8 h[4];
	for (unsigned i = 0; i < 4; i++) h[i] = ND(u8, hdr);
	size_t ref = (h[0] & 0x80) ? 4 + (((size_t)h[2] << 8) | h[3]) : 2 + (size_t)h[1];
	CHECK(ref <= KSI_TLV_MAX_SIZE, "C14.H0 no header declares more than KSI_TLV_MAX_SIZE bytes");
	KSI_FTLV t; memset(&t, 0, sizeof(t));
	int res = KSI_FTLV_memRead(h, 4, &t);
	CHECK(t.hdr_len + t.dat_len == ref, "C14.H0 the size dispatch computes from KSI_FTLV_memRead is the declared size");
	CHECK((res == KSI_OK) == (ref <= 4), "C14.H0 memRead accepts exactly when the element is complete");
	if (ref == KSI_TLV_MAX_SIZE) WITNESS_POINT("maximal element declared");
	if (ref == 2) WITNESS_POINT("minimal element declared");
}
