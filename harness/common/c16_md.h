/* C16: harness-side implementation of the KSI_MetaData interface (impl/meta_data_impl.h).
 * tree_builder.c uses a metadata object only through its two function pointers
 *   serializePayload(md, buf, size, &len)   -> the bytes that are hashed for a metadata node
 *   toMetaDataElement(md, &el)              -> the KSI_MetaDataElement placed into a chain link
 * and through KSI_MetaData_ref / KSI_MetaData_free (real types.c).  The objects built here carry a
 * fixed-length payload of C16_MDLEN symbolic bytes; the element is the TLV 04 <len> <payload> parsed by the
 * real KSI_TlvElement_parse.  (types.c's own implementation of the two functions - client id, machine
 * id, sequence number, padding - is not what C16 is about; it is exercised by h4_mdreal.) */
#ifndef C16_MD_H_
#define C16_MD_H_
#include "impl/meta_data_impl.h"
#include "impl/meta_data_element_impl.h"
#include "tlv_element.h"

#ifndef C16_MDLEN
#define C16_MDLEN 4
#endif
#ifndef C16_MDMAX
#define C16_MDMAX 6            /* objects available */
#endif

struct c16_md { KSI_MetaData md; u8 payload[C16_MDLEN]; u8 raw[2 + C16_MDLEN]; };
static struct c16_md *c16_mds[C16_MDMAX];   /* heap objects, as KSI_MetaData_new would create them */

static const struct c16_md *c16_md_find(const KSI_MetaData *t) {
	for (unsigned i = 0; i < C16_MDMAX; i++) if (c16_mds[i] != NULL && t == &c16_mds[i]->md) return c16_mds[i];
	return NULL;
}

static int c16_md_serializePayload(const KSI_MetaData *t, unsigned char *buf, size_t buf_size, size_t *buf_len) {
	const struct c16_md *m = c16_md_find(t);
	if (m == NULL || buf == NULL || buf_len == NULL || buf_size < C16_MDLEN) return KSI_INVALID_ARGUMENT;
	for (unsigned k = 0; k < C16_MDLEN; k++) buf[k] = m->payload[k];
	*buf_len = C16_MDLEN;
	return KSI_OK;
}

static int c16_md_toMetaDataElement(const KSI_MetaData *t, KSI_MetaDataElement **out) {
	const struct c16_md *m = c16_md_find(t);
	KSI_MetaDataElement *el;
	int res;
	if (m == NULL || out == NULL) return KSI_INVALID_ARGUMENT;
	el = malloc(sizeof(*el));
	if (el == NULL) return KSI_OUT_OF_MEMORY;
	memset(el, 0, sizeof(*el));
	el->ctx = t->ctx;
	el->ref = 1;
	res = KSI_TlvElement_parse((unsigned char *)m->raw, 2 + C16_MDLEN, &el->impl);
	if (res != KSI_OK) { free(el); return res; }
	*out = el;
	return KSI_OK;
}

/* i-th metadata object with the given payload */
static KSI_MetaData *c16_md_make(KSI_CTX *ctx, unsigned i, const u8 *payload) {
	struct c16_md *m = malloc(sizeof(*m));
	ASSUME(m != NULL);
	c16_mds[i] = m;
	memset(&m->md, 0, sizeof(m->md));
	m->md.ctx = ctx;
	m->md.ref = 1;
	m->md.serializePayload = c16_md_serializePayload;
	m->md.toMetaDataElement = c16_md_toMetaDataElement;
	m->raw[0] = 0x04; m->raw[1] = C16_MDLEN;
	for (unsigned k = 0; k < C16_MDLEN; k++) { m->payload[k] = payload[k]; m->raw[2 + k] = payload[k]; }
	return &m->md;
}
#endif
