/* C05 H-2: KSI_SignatureVerifier_verify on fallback chains built with KSI_Policy_create / KSI_Policy_setFallback
 * (optionally entered through a KSI_Policy_clone of the first policy).
 * Shape: NPOL policies (1 + number of fallbacks, compile-time constant of the instance), one instrumented basic rule
 * each; WITH_SIG = the context carries a signature object or not.  Symbolic: the outcome (status, OK/NA/FAIL, error
 * code) of every policy's rule, which temporary objects each rule leaves behind in context->tempData, clone or not.
 *
 * Oracle (policy.h KSI_Policy_setFallback / KSI_SignatureVerifier_verify docs and the property text): the next policy
 * of the chain is evaluated exactly when the previous one ended with FAIL or NA - never after OK, never after an
 * internal error, which is returned without a verdict; the verdict is that of the last policy evaluated;
 * policyResults holds one entry per evaluated policy in order; the temporary data is empty when a policy starts,
 * everything a policy left there is released exactly once, and context->tempData is NULL on return. */
#include "verif.h"
#include "internal.h"
#include "verification_rule.h"
#include "impl/policy_impl.h"
#include "ctx.h"
#include "verif_post.h"
#include "policy.c"

#ifndef NPOL
#define NPOL 3
#endif
#ifndef WITH_SIG
#define WITH_SIG 0
#endif
#define MAXPOL 4

static int h2_res[MAXPOL], h2_rc[MAXPOL], h2_ec[MAXPOL];
static _Bool h2_set_hash[MAXPOL], h2_set_cal[MAXPOL], h2_set_pub[MAXPOL];
static unsigned h2_clock, h2_seq[MAXPOL], h2_calls[MAXPOL];
static int h2_td_nonnull = 1, h2_td_clean = 1;
static unsigned h2_nset_hash, h2_nset_cal, h2_nset_pub, h2_nfree_hash, h2_nfree_cal, h2_nfree_pub;
static const char h2_rule_names[MAXPOL][2], h2_pol_names[MAXPOL][2];

/* the three kinds of temporary objects are opaque here: one heap byte each, released by these stand-ins for the
 * destructors (CBMC's double-free / use-after-free checks apply to them) */
void KSI_DataHash_free(KSI_DataHash *h) { if (h != NULL) { h2_nfree_hash++; free(h); } }
void KSI_CalendarHashChain_free(KSI_CalendarHashChain *c) { if (c != NULL) { h2_nfree_cal++; free(c); } }
void KSI_PublicationsFile_free(KSI_PublicationsFile *p) { if (p != NULL) { h2_nfree_pub++; free(p); } }

#define H2_RULE(k) \
static int h2_rule_##k(KSI_VerificationContext *vc, KSI_RuleVerificationResult *r) { \
	VerificationTempData *td = vc->tempData; \
	h2_calls[k]++; h2_seq[k] = ++h2_clock; \
	if (td == NULL) { h2_td_nonnull = 0; } else { \
		if (td->aggregationOutputHash != NULL || td->calendarChain != NULL || td->publicationsFile != NULL) h2_td_clean = 0; \
		if (h2_set_hash[k]) { td->aggregationOutputHash = (KSI_DataHash *)malloc(1); h2_nset_hash++; } \
		if (h2_set_cal[k]) { td->calendarChain = (KSI_CalendarHashChain *)malloc(1); h2_nset_cal++; } \
		if (h2_set_pub[k]) { td->publicationsFile = (KSI_PublicationsFile *)malloc(1); h2_nset_pub++; } \
	} \
	r->resultCode = (KSI_VerificationResultCode)h2_rc[k]; r->errorCode = (KSI_VerificationErrorCode)h2_ec[k]; r->ruleName = h2_rule_names[k]; \
	return h2_res[k]; \
}
H2_RULE(0) H2_RULE(1) H2_RULE(2) H2_RULE(3)

static const KSI_Rule h2_rules[MAXPOL][2] = {
	{{KSI_RULE_TYPE_BASIC, h2_rule_0}, {KSI_RULE_TYPE_BASIC, NULL}},
	{{KSI_RULE_TYPE_BASIC, h2_rule_1}, {KSI_RULE_TYPE_BASIC, NULL}},
	{{KSI_RULE_TYPE_BASIC, h2_rule_2}, {KSI_RULE_TYPE_COMPOSITE_OR, NULL}},
	{{KSI_RULE_TYPE_BASIC, h2_rule_3}, {KSI_RULE_TYPE_BASIC, NULL}},
};

void harness(void) {
	VERIF_ctx_init();
	KSI_CTX *ctx = VERIF_ctx;
	KSI_Policy *pol[MAXPOL] = {NULL, NULL, NULL, NULL}, *clone = NULL;
	unsigned k;
	int res;

	for (k = 0; k < NPOL; k++) {
		int rc = ND(int, rc);
		ASSUME(rc == KSI_VER_RES_OK || rc == KSI_VER_RES_NA || rc == KSI_VER_RES_FAIL);
		h2_res[k] = ND(int, res); h2_rc[k] = rc; h2_ec[k] = ND(int, ec);
		h2_set_hash[k] = ND_BOOL(set_hash); h2_set_cal[k] = ND_BOOL(set_cal); h2_set_pub[k] = ND_BOOL(set_pub);
		res = KSI_Policy_create(ctx, h2_rules[k], h2_pol_names[k], &pol[k]);
		ASSUME(res == KSI_OK && pol[k] != NULL);
	}
	for (k = 0; k + 1 < NPOL; k++) {
		res = KSI_Policy_setFallback(ctx, pol[k], pol[k + 1]);
		CHECK(res == KSI_OK, "C05.H2 setFallback succeeds on valid arguments");
	}
	const KSI_Policy *entry = pol[0];
	_Bool use_clone = ND_BOOL(use_clone);
	if (use_clone) {
		res = KSI_Policy_clone(ctx, pol[0], &clone);
		ASSUME(res == KSI_OK && clone != NULL);
		entry = clone;
	}

	KSI_VerificationContext vc;
	res = KSI_VerificationContext_init(&vc, ctx);
	ASSUME(res == KSI_OK);
#if WITH_SIG
	/* a signature object as far as the verifier looks at it: reference count and the attached last result */
	KSI_Signature *sig = calloc(1, sizeof(struct KSI_Signature_st));
	ASSUME(sig != NULL);
	sig->ctx = ctx; sig->ref = 1;
	vc.signature = sig;
#endif

	/* ---- reference ---- */
	unsigned exp_seq[MAXPOL] = {0, 0, 0, 0}, n_eval = 0, last = 0, n_listed = 0;
	int exp_ret = KSI_OK, go = 1;
	for (k = 0; k < NPOL; k++) {
		if (!go) continue;
		exp_seq[k] = ++n_eval;
		if (h2_res[k] != KSI_OK) { exp_ret = h2_res[k]; go = 0; }             /* internal error: returned, no fallback, no verdict */
		else {
			last = k;
			if (!(h2_rc[k] == KSI_VER_RES_NA && h2_ec[k] == KSI_VER_ERR_NONE)) n_listed++;
			if (h2_rc[k] == KSI_VER_RES_OK) go = 0;                             /* fallback only after FAIL or NA */
		}
	}

	KSI_PolicyVerificationResult *result = NULL;
	res = KSI_SignatureVerifier_verify(entry, &vc, &result);

	CHECK(res == exp_ret, "C05.H2 return code: KSI_OK, or the internal error of the policy that raised it");
	int order_ok = 1;
	for (k = 0; k < NPOL; k++) if (h2_seq[k] != exp_seq[k] || h2_calls[k] != (exp_seq[k] ? 1u : 0u)) order_ok = 0;
	CHECK(order_ok, "C05.H2 a fallback policy is evaluated exactly when its predecessor ended with FAIL or NA");
	CHECK(h2_td_nonnull, "C05.H2 every policy runs with temporary data attached to the context");
	CHECK(h2_td_clean, "C05.H2 temporary data is empty when a policy starts");
	CHECK(vc.tempData == NULL, "C05.H2 context tempData is NULL on return");
	CHECK(h2_nfree_hash == h2_nset_hash && h2_nfree_cal == h2_nset_cal && h2_nfree_pub == h2_nset_pub,
		"C05.H2 every temporary object left by a policy is released exactly once");
	if (res != KSI_OK) {
		CHECK(result == NULL, "C05.H2 an internal error is returned without a verdict");
	} else {
		CHECK(result != NULL, "C05.H2 success returns a result object");
		if (result != NULL) {
			CHECK(result->finalResult.resultCode == (KSI_VerificationResultCode)h2_rc[last] && result->finalResult.errorCode == (KSI_VerificationErrorCode)h2_ec[last],
				"C05.H2 the verdict is that of the last policy evaluated");
			CHECK(result->resultCode == result->finalResult.resultCode, "C05.H2 result code duplicates the final result code");
			CHECK(result->finalResult.policyName == h2_pol_names[last] && result->finalResult.ruleName == h2_rule_names[last], "C05.H2 the verdict names the last policy and rule evaluated");
			size_t np = KSI_RuleVerificationResultList_length(result->policyResults);
			CHECK(np == n_eval, "C05.H2 one policyResults entry per evaluated policy");
			int entries_ok = 1;
			for (k = 0; k < NPOL; k++) {
				KSI_RuleVerificationResult *it = NULL;
				if (k >= n_eval || k >= np) continue;
				int r1 = KSI_RuleVerificationResultList_elementAt(result->policyResults, k, &it);
				if (r1 != KSI_OK || it == NULL) { entries_ok = 0; continue; }
				if ((int)it->resultCode != h2_rc[k] || (int)it->errorCode != h2_ec[k] || it->policyName != h2_pol_names[k] || it->ruleName != h2_rule_names[k]) entries_ok = 0;
			}
			CHECK(entries_ok, "C05.H2 policyResults entries are the per-policy verdicts in evaluation order");
			CHECK(KSI_RuleVerificationResultList_length(result->ruleResults) == n_listed, "C05.H2 ruleResults accumulates over the fallback chain");
		}
	}
#if WITH_SIG
	if (res == KSI_OK && result != NULL && result->finalResult.resultCode == KSI_VER_RES_OK) {
		CHECK(ctx->lastFailedSignature == NULL && sig->ref == 1, "C05.H2 no last-failed signature is kept after an OK verdict");
	} else {
		CHECK(ctx->lastFailedSignature == sig && sig->ref == 2, "C05.H2 the context keeps a reference to the signature that did not verify");
		if (res == KSI_OK && result != NULL) CHECK(sig->policyVerificationResult == result && result->ref == 2, "C05.H2 the failed signature carries the verification result");
	}
#endif

	if (res == KSI_OK && result != NULL && result->finalResult.resultCode == KSI_VER_RES_OK && n_eval == NPOL) WITNESS_POINT("last policy of the chain gives OK");
	if (res == KSI_OK && result != NULL && result->finalResult.resultCode != KSI_VER_RES_OK && n_eval == NPOL) WITNESS_POINT("whole chain exhausted without OK");
	if (res != KSI_OK && n_eval == NPOL) WITNESS_POINT("internal error in the last policy");
#if NPOL > 1
	if (res == KSI_OK && n_eval == 1) WITNESS_POINT("first policy OK, fallback not evaluated");
	if (res != KSI_OK && n_eval == 1) WITNESS_POINT("internal error in the first policy, fallback not evaluated");
	if (res == KSI_OK && n_eval == NPOL && h2_nset_hash == NPOL && h2_rc[0] == KSI_VER_RES_NA && use_clone) WITNESS_POINT("fallback after NA with temporary data to clear, entered through a clone");
#endif
}
