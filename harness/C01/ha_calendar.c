/* C01 H-a (calendar chain rules that do not hash):
 *   CalendarHashChainAggregationTime     INT-04  calendar chain time == aggregation time of the aggregation chains
 *   CalendarHashChainRegistrationTime    INT-05  the SHAPE of the calendar chain (link directions) is the path of the leaf
 *                                                "calendar chain time" in the calendar tree of the publication time
 *   CalendarChainHashAlgorithmObsoleteAtPubTime INT-16  no step algorithm obsolete at publication time
 *   SignaturePublicationRecordPublicationTime   INT-07  publication record time == calendar chain publication time
 *   CalendarAuthenticationRecordAggregationTime INT-06  calendar auth record time == calendar chain publication time
 * "calendar chain time" = its aggregation time element, or the publication time when that optional element is absent.
 * Reference for INT-05 (KSI calendar: the tree over leaves 0..p is the complete tree over the largest power of two
 * k <= p many leaves on the left and, recursively, the tree over the remaining leaves k..p on the right): descend from the
 * root towards the CLAIMED leaf t and predict every link direction (top link = last element of the list; "left link" =
 * the path continues in the left subtree).  Independently, an interval walk driven by the links decides whether the
 * link list is the path of any leaf at all (if not, the registration time cannot be computed: NA instead of FAIL).
 * No algorithm id that can occur in an imprint is obsolete (hash.c registry), so INT-16 must always pass.
 * Shape per instance: number of calendar links, aggregation time element present, publication / auth record.
 * Symbolic: publication and aggregation times (64 bit), link directions, sibling algorithm ids, record times. */
#include "verif.h"
#include "internal.h"
#include "verification_rule.h"
#include "ctx.h"
#include "hash_model.h"
#include "verif_post.h"
#include "types_base.c"
#include "sig_builder.h"

#define T63 0x8000000000000000ull
#define IS(res_, rc_, ec_) (res == (res_) && r.resultCode == (rc_) && r.errorCode == (ec_))
#define IS_OK IS(KSI_OK, KSI_VER_RES_OK, KSI_VER_ERR_NONE)

static u64 pow2floor(u64 x) {      /* largest power of two <= x, x > 0: position of the top bit by binary search */
	unsigned s = 0;
	if (x >> 32) { x >>= 32; s += 32; }
	if (x >> 16) { x >>= 16; s += 16; }
	if (x >> 8) { x >>= 8; s += 8; }
	if (x >> 4) { x >>= 4; s += 4; }
	if (x >> 2) { x >>= 2; s += 2; }
	if (x >> 1) { s += 1; }
	return 1ull << s;
}

void harness(void) {
	VERIF_ctx_init();
	VERIF_hm_init(0);
	KSI_CTX *ctx = VERIF_ctx;
	sb_build(ctx);
	KSI_RuleVerificationResult r;
	int res;
	const u64 p = SB.cal.pubTime;
	const u64 T = SB_CAL_HAS_AGGRTIME ? SB.cal.aggrTime : SB.cal.pubTime;

	/* ---------------- INT-04 ---------------- */
	sb_result_init(&r); res = KSI_VerificationRule_CalendarHashChainAggregationTime(&sb_vc, &r);
	if (T == SB.ch[0].aggrTime) { CHECK(IS_OK, "C01.Hk calendar chain time equal to the aggregation time is accepted");
		WITNESS_POINT("calendar time equals aggregation time");
	} else { CHECK(IS(KSI_OK, KSI_VER_RES_FAIL, KSI_VER_ERR_INT_4), "C01.Hk calendar chain time different from the aggregation time yields FAIL INT-04");
		WITNESS_POINT("calendar time differs from aggregation time");
	}

	/* ---------------- INT-05 ---------------- */
	{
		/* (a) descent towards the claimed leaf T: predicted directions */
		int path_ok = (T <= p);
		{
			u64 lo = 0, hi = p;
			for (int l = SB_CAL_NLINKS - 1; l >= 0; l--) {
				if (!path_ok) break;
				if (hi == lo) { path_ok = 0; break; }                /* leaf reached, links left over */
				u64 k = pow2floor(hi - lo);
				int expect_left = (T < lo + k);
				if ((SB.cal.link[l].isLeft != 0) != expect_left) { path_ok = 0; break; }
				if (expect_left) hi = lo + k - 1; else lo = lo + k;
			}
			if (path_ok && hi != lo) path_ok = 0;                    /* links exhausted above the leaf */
		}
		/* (b) is the link list the path of ANY leaf? */
		int shape_valid = 1; u64 leaf = 0;
		{
			u64 lo = 0, hi = p;
			for (int l = SB_CAL_NLINKS - 1; l >= 0; l--) {
				if (hi == lo) { shape_valid = 0; break; }
				u64 k = pow2floor(hi - lo);
				if (SB.cal.link[l].isLeft) hi = lo + k - 1; else lo = lo + k;
			}
			if (shape_valid && hi != lo) shape_valid = 0;
			leaf = lo;
		}
		sb_result_init(&r); res = KSI_VerificationRule_CalendarHashChainRegistrationTime(&sb_vc, &r);
		int accepted = (res == KSI_OK && r.resultCode == KSI_VER_RES_OK);
		CHECK(!accepted || path_ok, "C01.Hk registration time accepted only if the link directions are the path of the calendar chain time");
		if (accepted) CHECK(r.errorCode == KSI_VER_ERR_NONE, "C01.Hk accepted registration time carries no error code");
		if (p < T63) {     /* publication times that fit time_t; beyond that the one-sided claim above is all that is claimed */
			if (path_ok) { CHECK(IS_OK, "C01.Hk link directions that are the path of the calendar chain time are accepted");
				CHECK(shape_valid && leaf == T, "C01.Hk reference self-check: both descents agree");
				if (p > 0x100000000ull) WITNESS_POINT("registration time reproduced for a large publication time");
#if SB_CAL_NLINKS >= 2 && SB_CAL_HAS_AGGRTIME
				if (SB.cal.link[0].isLeft && !SB.cal.link[SB_CAL_NLINKS - 1].isLeft) WITNESS_POINT("registration time reproduced, mixed directions");
#endif
			} else if (shape_valid) { CHECK(IS(KSI_OK, KSI_VER_RES_FAIL, KSI_VER_ERR_INT_5), "C01.Hk a valid shape that encodes another time yields FAIL INT-05");
				WITNESS_POINT("shape encodes another time");
			} else { CHECK(IS(KSI_OK, KSI_VER_RES_NA, KSI_VER_ERR_INT_5), "C01.Hk a link list that is no path of the calendar tree is inconclusive with INT-05");
				WITNESS_POINT("link list is not a path of the calendar tree");
			}
		}
	}

	/* ---------------- INT-16 ---------------- */
	sb_result_init(&r); res = KSI_VerificationRule_CalendarChainHashAlgorithmObsoleteAtPubTime(&sb_vc, &r);
	CHECK(IS_OK, "C01.Hk no imprint algorithm is obsolete: the obsolescence rule accepts");
	if (SB.cal.link[0].isLeft && SB.cal.link[0].sib.imp[0] == 0 && p >= 1467331200ull && p < T63) WITNESS_POINT("deprecated but not obsolete SHA-1 step after 2016 accepted");

#if SB_HAS_PUB
	/* ---------------- INT-07 ---------------- */
	sb_result_init(&r); res = KSI_VerificationRule_SignaturePublicationRecordPublicationTime(&sb_vc, &r);
	if (SB.pub.time == p) { CHECK(IS_OK, "C01.Hk publication record time equal to the calendar publication time is accepted");
		WITNESS_POINT("publication times equal");
	} else { CHECK(IS(KSI_OK, KSI_VER_RES_FAIL, KSI_VER_ERR_INT_7), "C01.Hk publication record time different from the calendar publication time yields FAIL INT-07");
		if ((SB.pub.time ^ p) == (1ull << 40)) WITNESS_POINT("publication times differ in one high bit");
	}
#endif
#if SB_HAS_AUTH
	/* ---------------- INT-06 ---------------- */
	sb_result_init(&r); res = KSI_VerificationRule_CalendarAuthenticationRecordAggregationTime(&sb_vc, &r);
	if (SB.auth.time == p) { CHECK(IS_OK, "C01.Hk calendar auth record time equal to the calendar publication time is accepted");
		WITNESS_POINT("auth record time equal");
	} else { CHECK(IS(KSI_OK, KSI_VER_RES_FAIL, KSI_VER_ERR_INT_6), "C01.Hk calendar auth record time different from the calendar publication time yields FAIL INT-06");
		WITNESS_POINT("auth record time differs");
	}
#endif
}
