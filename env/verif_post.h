/* Macro overrides applied AFTER the repository headers and BEFORE the repository .c text.
 * (a) KSI_new(T): typed allocation, semantically the body of base.c KSI_malloc.
 * (b) typed-list macros: devirtualised to VERIF_List_* shims (env/list_wrap.c), each of which
 *     asserts that the list's function pointer is the very function it calls directly -
 *     so the devirtualisation is itself a solver obligation.
 * The *_length/_foldl overrides are generated into verif_lists_gen.h on every run by the
 * engine from /repo's headers. */
#ifndef VERIF_POST_H_
#define VERIF_POST_H_
#include <stdlib.h>
#ifndef VERIF_NO_TYPED_NEW
#undef KSI_new
#ifdef VERIF_FAULT_ALLOC
void *VERIF_fault_malloc(size_t n);
#define KSI_new(typeVar) ((typeVar *)(VERIF_fault_gate() ? malloc(sizeof(typeVar)) : NULL))
int VERIF_fault_gate(void);
#else
#define KSI_new(typeVar) ((typeVar *)malloc(sizeof(typeVar)))
#endif
#endif

#ifndef VERIF_NO_LIST_DEVIRT
int VERIF_List_append(KSI_List *l, void *o);
int VERIF_List_removeElement(KSI_List *l, size_t pos, void **o);
int VERIF_List_indexOf(KSI_List *l, void *o, size_t **i);
int VERIF_List_insertAt(KSI_List *l, size_t pos, void *o);
int VERIF_List_replaceAt(KSI_List *l, size_t pos, void *o);
int VERIF_List_elementAt(KSI_List *l, size_t pos, void **o);
size_t VERIF_List_length(KSI_List *l);
int VERIF_List_sort(KSI_List *l, int (*cmp)(const void **, const void **));
int VERIF_List_foldl(KSI_List *l, void *foldCtx, int (*fn)(void *, void *));
int VERIF_List_find(KSI_List *l, void *o, int *found, size_t *pos);

#undef KSI_APPLY_TO_NOT_NULL
#define KSI_APPLY_TO_NOT_NULL(val, fn, args) (((val) != NULL) ? (VERIF_LCALL_##fn args) : KSI_INVALID_ARGUMENT)
#define VERIF_LCALL_append(l, o) VERIF_List_append((KSI_List *)(l), (void *)(o))
#define VERIF_LCALL_removeElement(l, p, o) VERIF_List_removeElement((KSI_List *)(l), (p), (void **)(o))
#define VERIF_LCALL_indexOf(l, o, i) VERIF_List_indexOf((KSI_List *)(l), (void *)(o), (i))
#define VERIF_LCALL_insertAt(l, p, o) VERIF_List_insertAt((KSI_List *)(l), (p), (void *)(o))
#define VERIF_LCALL_replaceAt(l, p, o) VERIF_List_replaceAt((KSI_List *)(l), (p), (void *)(o))
#define VERIF_LCALL_elementAt(l, p, o) VERIF_List_elementAt((KSI_List *)(l), (p), (void **)(o))
#define VERIF_LCALL_sort(l, c) VERIF_List_sort((KSI_List *)(l), (int (*)(const void **, const void **))(c))
#define VERIF_LCALL_find(l, o, f, i) VERIF_List_find((KSI_List *)(l), (void *)(o), (f), (i))
#include "verif_lists_gen.h"

/* untyped public API of list.c used directly by repository code */
#define KSI_List_append(l, o) VERIF_List_append((l), (o))
#define KSI_List_remove(l, p, o) VERIF_List_removeElement((l), (p), (o))
#define KSI_List_insertAt(l, p, o) VERIF_List_insertAt((l), (p), (o))
#define KSI_List_replaceAt(l, p, o) VERIF_List_replaceAt((l), (p), (o))
#define KSI_List_elementAt(l, p, o) VERIF_List_elementAt((l), (p), (o))
#define KSI_List_length(l) VERIF_List_length((l))
#define KSI_List_find(l, o, f, p) VERIF_List_find((l), (o), (f), (p))
#define KSI_List_indexOf(l, o, i) VERIF_List_indexOf((l), (o), (i))
#define KSI_List_foldl(l, c, f) VERIF_List_foldl((l), (c), (f))
#endif
#endif
