#!/usr/bin/env python3
"""Generates harness/C04/plan.json (instances are enumerated shapes; see harness/README.md "concrete shape, symbolic values").
   python3 harness/C04/mkplan.py"""
import json, os

HERE = os.path.dirname(os.path.abspath(__file__))


def inst(label, **kw):
    d = {"label": label, "defines": ["%s=%s" % (k, v) for k, v in kw.items() if not k.startswith("_")]}
    for k, v in kw.items():
        if k.startswith("_"):
            d[k[1:]] = v
    return d


def nright(mask, n):
    return sum(1 for i in range(n) if not (mask >> i) & 1)


RULE_TUS = ["verification_rule", "signature", "hashchain", "hash", "publicationsfile"]
ENV = ["ctx", "hash_model", "list_wrap", "fmt_stub"]
H = []

# ---------------------------------------------------------------- H-b
H.append({
    "name": "hb_anchor", "src": "hb_anchor.c", "env": ["ctx", "list_wrap"], "tus": [],
    "unwind": 14, "solver": "cadical", "timeout": 300, "mem_gb": 8, "object_bits": 12,
    "functions": ["Rule_verify", "Policy_verifySignature", "calendarBasedRules", "keyBasedRules", "publicationsFileBasedRules",
                  "userProvidedPublicationBasedRules", "generalRules", "internalRules"],
    "bound": "exhaustive over the fact vector (5 presence facts, 21 internal conditions x 3 states, ~45 anchor facts, 30 per-rule cannot-compute flags with arbitrary status); one instance per policy",
    "instances": [inst("cal", POLICY=0), inst("key", POLICY=1), inst("pubfile", POLICY=2), inst("user", POLICY=3), inst("general", POLICY=4)],
})

# ---------------------------------------------------------------- user publication rules
H.append({
    "name": "h_user", "src": "h_user.c", "env": ENV, "tus": RULE_TUS,
    "unwind": 6, "timeout": 300, "mem_gb": 8, "object_bits": 12,
    "functions": ["KSI_VerificationRule_UserProvidedPublicationExistence", "KSI_VerificationRule_RequireNoUserProvidedPublication",
                  "KSI_VerificationRule_UserProvidedPublicationTimeVerification", "KSI_VerificationRule_UserProvidedPublicationTimeDoesNotSuit",
                  "KSI_VerificationRule_UserProvidedPublicationHashVerification", "KSI_VerificationRule_UserProvidedPublicationCreationTimeVerification",
                  "KSI_DataHash_equals", "KSI_Integer_compare"],
    "bound": "shapes: calendar chain / publication record present or not, user publication absent / complete / without time / without imprint, imprint digest length classes 20/32; all times 64 bit, algorithm ids inside the class and digest bytes symbolic",
    "instances": [
        inst("nocal_up1", SB_HAS_CAL=0, SB_HAS_PUB=0, C04_USERPUB=1),
        inst("cal_nopub_up1", SB_HAS_CAL=1, SB_HAS_PUB=0, C04_USERPUB=1),
        inst("cal_pub_up1_same32", SB_HAS_CAL=1, SB_HAS_PUB=1, C04_USERPUB=1, SB_PUBALG=-32, C04_USERPUB_ALG=-32),
        inst("cal_pub_up1_20_32", SB_HAS_CAL=1, SB_HAS_PUB=1, C04_USERPUB=1, SB_PUBALG=-20, C04_USERPUB_ALG=-32),
        inst("cal_pub_up2", SB_HAS_CAL=1, SB_HAS_PUB=1, C04_USERPUB=2),
        inst("cal_pub_up3", SB_HAS_CAL=1, SB_HAS_PUB=1, C04_USERPUB=3),
        inst("cal_pub_up0", SB_HAS_CAL=1, SB_HAS_PUB=1, C04_USERPUB=0),
        inst("calnoaggr_pub_up1", SB_HAS_CAL=1, SB_CAL_HAS_AGGRTIME=0, SB_HAS_PUB=1, C04_USERPUB=1),
    ],
})

# ---------------------------------------------------------------- publications file lookups
pf_quick = [
    inst("n0_pub", SB_HAS_CAL=1, SB_HAS_PUB=1, C04_NPUB=0),
    inst("n1_pub", SB_HAS_CAL=1, SB_HAS_PUB=1, C04_NPUB=1),
    inst("n2_pub", SB_HAS_CAL=1, SB_HAS_PUB=1, C04_NPUB=2),
    inst("n2_nocal", SB_HAS_CAL=0, SB_HAS_PUB=0, C04_NPUB=2),
    inst("n2_calnoaggr", SB_HAS_CAL=1, SB_CAL_HAS_AGGRTIME=0, SB_HAS_PUB=0, C04_NPUB=2),
    inst("n1_pub_download", SB_HAS_CAL=1, SB_HAS_PUB=1, C04_NPUB=1, C04_PF_USER=0),
]
pf_thorough = pf_quick + [
    inst("n2_pub_32_20", SB_HAS_CAL=1, SB_HAS_PUB=1, C04_NPUB=2, SB_PUBALG=-32, C04_PF_ALG="{-20,-32,-20}"),
    inst("n3_pub", SB_HAS_CAL=1, SB_HAS_PUB=1, C04_NPUB=3),
    inst("n3_pub_32", SB_HAS_CAL=1, SB_HAS_PUB=1, C04_NPUB=3, SB_PUBALG=-32, C04_PF_ALG="{-32,-32,-32}", C04_PF_ALG0=-32),
    inst("n3_nocal", SB_HAS_CAL=0, SB_HAS_PUB=0, C04_NPUB=3),
    inst("n2_nopub_download", SB_HAS_CAL=1, SB_HAS_PUB=0, C04_NPUB=2, C04_PF_USER=0),
]
H.append({
    "name": "h_pubfile", "src": "h_pubfile.c", "env": ENV + ["ext_seam"], "tus": RULE_TUS,
    "solver": "cadical",     # 64-bit time comparisons over 3 records: minisat > 15 min, cadical < 1 s
    "unwind": 6, "timeout": 300, "mem_gb": 8, "object_bits": 12,
    "functions": ["KSI_VerificationRule_PublicationsFileContainsSignaturePublication", "KSI_VerificationRule_PublicationsFileDoesNotContainSignaturePublication",
                  "KSI_VerificationRule_PublicationsFileSignaturePublicationVerification", "KSI_VerificationRule_PublicationsFileContainsSuitablePublication",
                  "initPublicationsFile", "findPublication", "KSI_PublicationsFile_findPublication", "KSI_PublicationsFile_findPublicationByTime",
                  "KSI_PublicationsFile_getNearestPublication", "KSI_Signature_getSigningTime"],
    "bound": "publications file of 0..2 records (thorough 3), signature with / without publication record and calendar chain (with / without aggregation-time element); caller supplied file or download seam with symbolic statuses; all times 64 bit, imprints symbolic within digest length classes 20/32",
    "instances": pf_quick, "thorough": {"instances": pf_thorough, "timeout": 900},
})

# ---------------------------------------------------------------- fetching rules (extender seam)
EXT_QUICK = [
    inst("head_nocal", RULE=0, SB_HAS_CAL=0),
    inst("head_noreply", RULE=0, SB_HAS_CAL=0, REPLY_PRESENT=0),
    inst("head_nochain", RULE=0, SB_HAS_CAL=0, C04_EXT_HAS_CHAIN=0, STALE_CHAIN=1),
    inst("same_cal", RULE=1, SB_HAS_CAL=1, STALE_CHAIN=1),
    inst("same_calnoaggr", RULE=1, SB_HAS_CAL=1, SB_CAL_HAS_AGGRTIME=0),
    inst("pf_n2_cal", RULE=2, SB_HAS_CAL=1, C04_NPUB=2),
    inst("pf_n2_nocal", RULE=2, SB_HAS_CAL=0, C04_NPUB=2),
    inst("up_nocal", RULE=3, SB_HAS_CAL=0, C04_USERPUB=1),
    inst("up_cal", RULE=3, SB_HAS_CAL=1, C04_USERPUB=1),
    inst("up_notime", RULE=3, SB_HAS_CAL=0, C04_USERPUB=2),
]
EXT_MORE = [
    inst("head_nostatus", RULE=0, SB_HAS_CAL=0, C04_EXT_HAS_STATUS=0),
    inst("same_nocal", RULE=1, SB_HAS_CAL=0),
    inst("pf_n0_nocal", RULE=2, SB_HAS_CAL=0, C04_NPUB=0),
    inst("up_none", RULE=3, SB_HAS_CAL=0, C04_USERPUB=0),
]
H.append({
    "name": "h_ext", "src": "h_ext.c", "env": ENV + ["ext_seam"], "tus": RULE_TUS + ["types", "tlv"], "extra_src": ["x_net_real.c"],
    "unwind": 6, "unwindset": ["KSI_TLV_free:3"], "timeout": 300, "mem_gb": 8, "object_bits": 12,
    "restrict_fp": ["KSI_List_free.function_pointer_call.1/KSI_HashChainLink_free"],
    "functions": ["receiveCalendarHashChain", "KSI_VerificationRule_ExtendSignatureCalendarChainInputHashToHead", "KSI_VerificationRule_ExtendSignatureCalendarChainInputHashToSamePubTime",
                  "KSI_VerificationRule_PublicationsFileExtendToPublication", "KSI_VerificationRule_UserProvidedPublicationExtendToPublication",
                  "KSI_createExtendRequest", "KSI_convertExtenderStatusCode", "isFatalError", "KSI_PublicationsFile_getNearestPublication", "KSI_ExtendResp_free", "KSI_ExtendReq_free"],
    "bound": "per fetching rule: signature with / without calendar chain (with / without aggregation-time element), reply absent / present with or without status and chain (1 link), publications file of 0..2 records, user publication complete / without time / absent; every transport status, the extender status code (64 bit), both request ids and all times symbolic; the element destructor reached through KSI_List_free is restricted to KSI_HashChainLink_free (goto-instrument inserts the proof obligation)",
    "instances": EXT_QUICK, "thorough": {"instances": EXT_QUICK + EXT_MORE, "timeout": 900},
})

# ---------------------------------------------------------------- comparison rules
def cmp_instances(thorough):
    L = []
    # aggregation time + input hash: directions of the calendar chains are irrelevant (left symbolic)
    L += [inst("cal_ti_nocal_e1", GROUP=0, PARTS=33, SB_HAS_CAL=0, C04_EXT_NLINKS=1),
          inst("cal_ti_c1_e2", GROUP=0, PARTS=33, SB_HAS_CAL=1, SB_CAL_NLINKS=1, C04_EXT_NLINKS=2),
          inst("cal_ti_c1_e1_noaggr", GROUP=0, PARTS=33, SB_HAS_CAL=1, SB_CAL_NLINKS=1, C04_EXT_NLINKS=1, C04_EXT_HAS_AGGRTIME=0)]
    # right links: direction patterns concrete (bit l = link l is a left link)
    pats = [(1, 1, 0, 0), (1, 1, 0, 1), (1, 1, 1, 1)]
    if thorough:
        pats += [(1, 1, 1, 0)] + [(2, 2, s, e) for s in range(4) for e in range(4)] + [(1, 2, s, e) for s in range(2) for e in range(4)] + [(3, 3, 2, 2), (3, 3, 5, 3), (3, 2, 0, 0), (3, 3, 0, 0), (2, 3, 1, 4)]
    else:
        pats += [(2, 2, 1, 2), (1, 2, 0, 2)]
    for (ns, ne, s, e) in pats:
        L.append(inst("cal_rl_c%d_e%d_d%d_%d" % (ns, ne, s, e), GROUP=0, PARTS=2, SB_HAS_CAL=1, SB_CAL_NLINKS=ns, C04_EXT_NLINKS=ne, SIG_DIRS=s, C04_EXT_DIRS=e,
                      SIG_NRIGHT=nright(s, ns), EXT_NRIGHT=nright(e, ne)))
    # root hash
    rp = [(1, 1, 0, 0), (1, 2, 0, 1)]
    if thorough:
        rp += [(1, 1, 1, 0), (1, 1, 0, 1), (1, 1, 1, 1), (2, 2, 1, 2), (2, 2, 0, 3), (2, 1, 2, 1), (3, 3, 5, 2)]
    for (ns, ne, s, e) in rp:
        L.append(inst("cal_root_c%d_e%d_d%d_%d" % (ns, ne, s, e), GROUP=0, PARTS=4, SB_HAS_CAL=1, SB_CAL_NLINKS=ns, C04_EXT_NLINKS=ne, SIG_DIRS=s, C04_EXT_DIRS=e))
    L.append(inst("cal_unbuffered", GROUP=0, SB_HAS_CAL=1, BUFFERED=0))
    for g, name, extra in ((1, "up", {"C04_USERPUB": 1}), (2, "pf", {"C04_NPUB": 2})):
        hp = [(1, g - 1)] + ([(1, 2 - g), (2, 2), (2, 1), (3, 5)] if thorough else [])
        for (ne, e) in hp:
            L.append(inst("%s_hash_e%d_d%d" % (name, ne, e), GROUP=g, PARTS=8, SB_HAS_CAL=0, C04_EXT_NLINKS=ne, C04_EXT_DIRS=e, **extra))
        L.append(inst("%s_ti_e1" % name, GROUP=g, PARTS=48, SB_HAS_CAL=0, C04_EXT_NLINKS=1, **extra))
        L.append(inst("%s_ti_cal_e2" % name, GROUP=g, PARTS=48, SB_HAS_CAL=1, C04_EXT_NLINKS=2, **extra))
        if thorough:
            L.append(inst("%s_ti_calnoaggr_e1" % name, GROUP=g, PARTS=48, SB_HAS_CAL=1, SB_CAL_HAS_AGGRTIME=0, C04_EXT_NLINKS=1, **extra))
        L.append(inst("%s_ti_e1_noaggr" % name, GROUP=g, PARTS=48, SB_HAS_CAL=0, C04_EXT_NLINKS=1, C04_EXT_HAS_AGGRTIME=0, **extra))
        L.append(inst("%s_unbuffered" % name, GROUP=g, SB_HAS_CAL=0, BUFFERED=0, **extra))
    if thorough:
        L.append(inst("pf_ti_n1_e1", GROUP=2, PARTS=48, SB_HAS_CAL=0, C04_NPUB=1, C04_EXT_NLINKS=1))
    L.append(inst("up_hash_noimprint", GROUP=1, PARTS=8, SB_HAS_CAL=0, C04_USERPUB=3, C04_EXT_NLINKS=1, C04_EXT_DIRS=1))
    if thorough:
        L.append(inst("pf_ti_n3_e1", GROUP=2, PARTS=48, SB_HAS_CAL=0, C04_NPUB=3, C04_EXT_NLINKS=1))
    return L


H.append({
    "name": "h_cmp", "src": "h_cmp.c", "env": ENV + ["ext_seam"], "tus": RULE_TUS + ["tlv_element", "fast_tlv"],
    "global_defines": ["HM_REC_MAX=6"],
    "unwind": 6, "timeout": 300, "mem_gb": 8, "object_bits": 12,
    "functions": ["KSI_VerificationRule_ExtendedSignatureCalendarChainRootHash", "KSI_VerificationRule_ExtendedSignatureCalendarChainRightLinksMatch",
                  "KSI_VerificationRule_ExtendedSignatureCalendarChainInputHash", "KSI_VerificationRule_ExtendedSignatureCalendarChainAggregationTime",
                  "KSI_VerificationRule_UserProvidedPublicationHashMatchesExtendedResponse", "KSI_VerificationRule_UserProvidedPublicationTimeMatchesExtendedResponse",
                  "KSI_VerificationRule_UserProvidedPublicationExtendedSignatureInputHash", "KSI_VerificationRule_PublicationsFilePublicationHashMatchesExtenderResponse",
                  "KSI_VerificationRule_PublicationsFilePublicationTimeMatchesExtenderResponse", "KSI_VerificationRule_PublicationsFileExtendedSignatureInputHash",
                  "getExtendedCalendarHashChain", "getNextLink", "initAggregationOutputHash", "KSI_CalendarHashChain_aggregate", "KSI_AggregationHashChainList_aggregate", "KSI_DataHash_equals"],
    "bound": "one aggregation chain of one link; signature calendar chain and extender chain of 1..2 links each (thorough: up to 3; all SHA-1 sized imprints); direction patterns enumerated where they select the links compared / hashed (quick: all 4 for 1+1 links and a few longer ones; thorough: all 16 for 2+2 and more), symbolic elsewhere; aggregation-time elements present / absent, publications file of 1..2 (thorough 3) records, user publication complete / without imprint; all times (64 bit), level corrections, imprints and the digests returned by the hash model symbolic",
    "instances": cmp_instances(False), "thorough": {"instances": cmp_instances(True), "timeout": 900},
})

# ---------------------------------------------------------------- key based rules
key_common = dict(SB_HAS_CAL=1, SB_HAS_AUTH=1)
KEY_QUICK = [
    inst("exist_c0", PARTS=1, C04_NCERT=0, **key_common),
    inst("exist_c2", PARTS=1, C04_NCERT=2, **key_common),
    inst("exist_noauth", PARTS=1, C04_NCERT=1, SB_HAS_CAL=1, SB_HAS_AUTH=0),
    inst("exist_c1_download", PARTS=1, C04_NCERT=1, C04_PF_USER=0, **key_common),
    inst("valid_c1", PARTS=2, C04_NCERT=1, **key_common),
    inst("valid_c1_calnoaggr", PARTS=2, C04_NCERT=1, SB_CAL_HAS_AGGRTIME=0, **key_common),
    inst("sig_c1", PARTS=4, C04_NCERT=1, **key_common),
    inst("sig_c2", PARTS=4, C04_NCERT=2, **key_common),
    inst("sig_c0", PARTS=4, C04_NCERT=0, **key_common),
]
KEY_MORE = [
    inst("exist_c2_len34", PARTS=1, C04_NCERT=2, C04_CERTID_LEN="{3,4}", **key_common),
    inst("exist_nocal", PARTS=1, C04_NCERT=1, SB_HAS_CAL=0, SB_HAS_AUTH=0),
    inst("valid_c2", PARTS=2, C04_NCERT=2, **key_common),
    inst("valid_c1_download", PARTS=2, C04_NCERT=1, C04_PF_USER=0, **key_common),
    inst("sig_c1_flags60", PARTS=4, C04_NCERT=1, RAW_FLAGS="0x60", **key_common),
]
H.append({
    "name": "h_key", "src": "h_key.c", "env": ENV + ["ext_seam", "pki_model"], "tus": RULE_TUS + ["types", "tlv", "fast_tlv"],
    "unwind": 6, "unwindset": ["KSI_TLV_free:4", "KSI_TLV_writeBytes.0:40", "serializeTlv:4"], "timeout": 300, "mem_gb": 8, "object_bits": 12,
    "restrict_fp": ["KSI_List_free.function_pointer_call.1/KSI_TLV_free"],
    "functions": ["KSI_VerificationRule_CalendarHashChainPresenceVerification", "KSI_VerificationRule_CalendarAuthenticationRecordPresenceVerification",
                  "KSI_VerificationRule_CertificateExistence", "KSI_VerificationRule_CertificateValidity", "KSI_VerificationRule_CalendarAuthenticationRecordSignatureVerification",
                  "KSI_PublicationsFile_getPKICertificateById", "KSI_OctetString_equals", "KSI_TLV_serialize", "initPublicationsFile"],
    "bound": "publications file with 0..2 certificate records, certificate ids of 4 (or 3 vs 4) bytes, calendar chain with / without aggregation-time element, published data TLV of 31 bytes (4-byte time, SHA-1 sized imprint), signature value of 4 bytes; ids, validity times (64 bit), calendar times, published-data bytes, flags, oracle verdict and download statuses symbolic",
    "instances": KEY_QUICK, "thorough": {"instances": KEY_QUICK + KEY_MORE, "timeout": 900},
})

# ---------------------------------------------------------------- end to end (extension paths)
T = dict(AGGR_TIME=1000, ANCHOR_TIME=2000)
E2E_QUICK = [inst("cal_head", GROUP=0, C04_EXT_DIRS=0), inst("cal_status", GROUP=0, EXCH=3),
             inst("user_sametime", GROUP=1, AGGR_TIME=1000, ANCHOR_TIME=1000),
             inst("pubfile_earlier", GROUP=2, AGGR_TIME=1000, ANCHOR_TIME=999),
             inst("user_neterr", GROUP=1, EXCH=1, **T), inst("pubfile_oom", GROUP=2, EXCH=2, **T)]
# a successful exchange followed by all comparisons in one run: 2-4 min each (11.8M variables) - thorough tier only
# (without --slice-formula they need 31M variables / 12 GB; with it 11.8M / 4 GB.  Slicing is tolerated for these three thorough-only glue checks:
#  should one of them ever fail, the sliced trace may replay out of step and the failure would be reported as MODEL-MISMATCH, not VIOLATION -
#  still a non-ok result.)
SL = ["--slice-formula"]
E2E_SLOW = [inst("user_earlier", GROUP=1, AGGR_TIME=1000, ANCHOR_TIME=999), inst("user_l", GROUP=1, C04_EXT_DIRS=1, _cbmc_flags=SL, **T),
            inst("user_r", GROUP=1, C04_EXT_DIRS=0, AGGR_TIME=1000, ANCHOR_TIME=1001, _cbmc_flags=SL),
            inst("pubfile_l", GROUP=2, C04_EXT_DIRS=1, AGGR_TIME=1000, ANCHOR_TIME=1000, _cbmc_flags=SL)]
# (a reply with another request id, EXCH=4, makes symex follow both outcomes of the id comparison: > 30 min; that case is h_ext's subject)
H.append({
    "name": "h_e2e", "src": "h_e2e.c", "env": ENV + ["ext_seam"], "tus": ["verification_rule", "signature", "hashchain", "hash", "publicationsfile", "types", "tlv"],
    "extra_src": ["x_net_real.c"], "global_defines": ["SB_INALG={0,0,0}", "SB_SIBALG={{0,0,0},{0,0,0},{0,0,0}}"],
    "unwind": 3, "unwindset": ["KSI_TLV_free:3", "Rule_verify.0:9", "Rule_verify:7", "KSI_List_free:2", "KSI_HashChainLink_free:2"], "timeout": 600, "mem_gb": 8, "object_bits": 12,
    # no restrict_fp here: goto-instrument's pass makes the hasher's function pointers non-constant for symex
    "functions": ["Rule_verify", "calendarHashChainRule_cal", "userProvidedPublicationBasedRules", "publicationRecordRule_pubFile", "receiveCalendarHashChain",
                  "KSI_VerificationRule_UserProvidedPublicationExtendToPublication", "KSI_VerificationRule_UserProvidedPublicationHashMatchesExtendedResponse",
                  "KSI_VerificationRule_UserProvidedPublicationTimeMatchesExtendedResponse", "KSI_VerificationRule_UserProvidedPublicationExtendedSignatureInputHash",
                  "KSI_VerificationRule_PublicationsFileExtendToPublication", "KSI_VerificationRule_ExtendSignatureCalendarChainInputHashToHead"],
    "bound": "signature without calendar chain (one aggregation chain of one link), extender reply with status, request id and a chain of one link (direction concrete), user publication complete / publications file of one record; exchange outcome concrete per instance (success / network error / out of memory / extender status 0x101 / other request id); aggregation time and anchor time concrete for the publication based tables (later / equal / earlier anchor enumerated), all other times, imprints, the request id and the permission flag symbolic; premise: the aggregation chain aggregates (level in range)",
    "instances": E2E_QUICK, "thorough": {"instances": E2E_QUICK + E2E_SLOW, "timeout": 1800},
})

# ---------------------------------------------------------------- deprecated-algorithm rules
DEPR_QUICK = [
    inst("sig_l_sha1", ON_EXT=0, SB_HAS_CAL=1, SB_CAL_NLINKS=1, SIG_DIRS=1, SB_CAL_SIBALG="{0,0,0,0}", HAS_SHA1_LEFT=1),
    inst("sig_lrl_256_sha1_sha1", ON_EXT=0, SB_HAS_CAL=1, SB_CAL_NLINKS=3, SIG_DIRS=5, SB_CAL_SIBALG="{1,0,0,0}", HAS_SHA1_LEFT=1),
    inst("sig_rl_sha1_256", ON_EXT=0, SB_HAS_CAL=1, SB_CAL_NLINKS=2, SIG_DIRS=2, SB_CAL_SIBALG="{0,1,0,0}", HAS_SHA1_LEFT=0),
    inst("sig_nocal", ON_EXT=0, SB_HAS_CAL=0, HAS_SHA1_LEFT=0),
    inst("ext_lr_256_sha1_l_sha1", ON_EXT=1, C04_USERPUB=1, C04_EXT_NLINKS=3, C04_EXT_DIRS=5, C04_EXT_SIBALG="{1,0,0,0}", HAS_SHA1_LEFT=1),
    inst("ext_unbuffered", ON_EXT=1, C04_USERPUB=1, BUFFERED=0, HAS_SHA1_LEFT=0),
    inst("extpf_l_sha1", ON_EXT=2, C04_NPUB=1, C04_EXT_NLINKS=1, C04_EXT_DIRS=1, C04_EXT_SIBALG="{0,0,0,0}", HAS_SHA1_LEFT=1),
]
DEPR_MORE = [
    inst("sig_r_sha1", ON_EXT=0, SB_HAS_CAL=1, SB_CAL_NLINKS=1, SIG_DIRS=0, SB_CAL_SIBALG="{0,0,0,0}", HAS_SHA1_LEFT=0),
    inst("ext_l_sha1", ON_EXT=1, C04_USERPUB=1, C04_EXT_NLINKS=1, C04_EXT_DIRS=1, C04_EXT_SIBALG="{0,0,0,0}", HAS_SHA1_LEFT=1),
    inst("ext_rl_sha1_256", ON_EXT=1, C04_USERPUB=1, C04_EXT_NLINKS=2, C04_EXT_DIRS=2, C04_EXT_SIBALG="{0,1,0,0}", HAS_SHA1_LEFT=0),
    inst("extpf_rl_sha1_256", ON_EXT=2, C04_NPUB=1, C04_EXT_NLINKS=2, C04_EXT_DIRS=2, C04_EXT_SIBALG="{0,1,0,0}", HAS_SHA1_LEFT=0),
]
H.append({
    "name": "h_depr", "src": "h_depr.c", "env": ENV + ["ext_seam"], "tus": RULE_TUS,
    "unwind": 6, "timeout": 300, "mem_gb": 8, "object_bits": 12,
    "functions": ["KSI_VerificationRule_CalendarHashChainHashAlgorithmDeprecatedAtPubTime", "KSI_VerificationRule_PublicationsFileSignatureCalendarChainHashAlgorithmDeprecatedAtPubTime",
                  "KSI_VerificationRule_UserProvidedPublicationSignatureCalendarChainHashAlgorithmDeprecatedAtPubTime",
                  "KSI_VerificationRule_UserProvidedPublicationExtendedCalendarChainHashAlgorithmDeprecatedAtPubTime",
                  "KSI_VerificationRule_PublicationsFileExtendedCalendarChainHashAlgorithmDeprecatedAtPubTime",
                  "signatureCalendarChainHashAlgorithmDeprecatedAtPubTime", "calendarChainAggrAlgorithmState", "wasDeprecatedAt", "getNextLink"],
    "bound": "calendar chains of 1..3 links with concrete direction patterns and sibling algorithms SHA-1 / SHA2-256; publication time (64 bit) symbolic; the algorithm status function of hash.c is used as given",
    "instances": DEPR_QUICK, "thorough": {"instances": DEPR_QUICK + DEPR_MORE},
})

OUTSIDE = ("OpenSSL (X.509 parsing and path building, RSA / PKCS#1 / PKCS#7, digest selection by OID): certificate validity times and the raw-signature "
           "verdict are oracles (env/pki_model.c); the HTTP/TCP transports, PDU framing and the HMAC of extender replies and the download + PKI verification "
           "of the publications file: replaced by a seam handing the rule code a status per step and typed reply objects (env/ext_seam.c); the hash "
           "function (model returns symbolic digests; equalities of roots are facts about the returned digests); bytes -> typed objects (C10); shapes "
           "beyond the bounds: calendar chains of more than 2 (thorough 3) links, publications files of more than 2 (3) publication records or 2 certificate "
           "records, more than one aggregation chain of one link; fallback-policy chaining and tempData life cycle of KSI_SignatureVerifier_verify (C05)")
ASSUMPTIONS = [
    "typed objects built by the harnesses satisfy the constructors' / parsers' postconditions (sig_builder.h, c04_builder.h: mandatory template fields present, imprint length = 1 + digest length of its algorithm, calendar chains have at least one link, a signature has a publication record or an authentication record only together with a calendar chain and never both)",
    "hash model U: digests are unconstrained symbolic bytes",
    "PKI model: KSI_PKITruststore_verifyRawSignature returns an arbitrary status; certificate validity getters return the certificate's two arbitrary 64-bit times",
    "transport seam: every step returns an arbitrary status; the transport assigns the request id (as net_http.c / net_tcp.c do); the reply is an arbitrary typed KSI_ExtendResp inside the shape bound",
    "H-b: each leaf rule behaves as its stub (function of the fact vector) - established per rule, inside the bounds, by the h_* harnesses",
]
LEVEL_TEXT = ("Decomposition policy verdict = real rule tables over leaf rules. (1) H-b: the unmodified tables calendarBasedRules, keyBasedRules, publicationsFileBasedRules, "
              "userProvidedPublicationBasedRules, generalRules (with internalRules below them) and the real Rule_verify / Policy_verifySignature of policy.c are executed "
              "over a symbolic fact vector (5 presence facts, 21 internal conditions, ~45 anchor facts incl. 4-valued extender outcomes, and a cannot-compute flag with "
              "arbitrary status for each of 30 anchor rules); for ALL fact vectors the solver shows: OK => internal verification holds AND the calendar root is bound to the "
              "policy's anchor; FAIL => documented PUB/CAL/KEY (or internal) code of a contradiction that really holds; error status => failed fetch or uncomputable rule; "
              "no extension request without permission; and with no flag set the verdict lies in the set given by an independent decision procedure per policy "
              "(missing anchor / forbidden / unavailable / failed extension => NA or error status, never OK or FAIL; general = user publication if supplied, else "
              "publications file, then key-based). (2) Every one of the 41 non-internal leaf rules of these tables is executed from verification_rule.c on typed signatures and "
              "anchors of enumerated shape with all values symbolic and compared with a reference predicate written from its documentation: user-publication time / hash / "
              "creation-time rules; publications-file lookups through the real publicationsfile.c; the four fetching rules through receiveCalendarHashChain with a transport "
              "seam (request start / end time, every step's status, extender status, request-id match, exactly the reply's chain buffered, no stale chain); the CAL-01..04 "
              "and PUB-01..03 comparisons on the buffered chain; certificate lookup by id, KEY-03 window (inclusive bounds) and KEY-02 (oracle asked once, over exactly the "
              "serialized published-data bytes, with the record's certificate); the deprecated-algorithm and presence probes. (3) h_e2e runs the real anchor sub-tables over the "
              "real rules (fetch + all comparisons in one evaluation) on one signature shape per policy as a check of the glue between (1) and (2). (4) h_pkiraw: the wrapper "
              "KSI_PKITruststore_verifyRawSignature itself (pkitruststore_openssl.c) is checked against the tri-state contract of EVP_VerifyFinal (1 match / 0 mismatch / -1 error) with "
              "every OpenSSL call a nondeterministic external: KSI_OK only for exactly (data, signature, certificate key, digest of the OID) and answer 1; OpenSSL itself stays outside.")
LEVEL_NOTE = ("bounded shapes (see outside_bounds) with symbolic values; cryptography, transports and HMAC are oracles / seams; the policy-level statement follows from (1) and (2) "
              "only through the stub-to-rule correspondence written down in hb_anchor.c; four rule-level peculiarities that do not affect the property are asserted in weakened form "
              "and described in FINDINGS.md (O1-O5); finding F1 (publications-file PUB-02 rule ignored the aggregation time) was reproduced, fixed in /repo (fdc15f8) and is now proved absent; "
              "CBMC C semantics; 43 seeded mutations of policy.c / verification_rule.c / publicationsfile.c are all caught (MUTATIONS.md)")

# ---------------------------------------------------------------- the wrapper around OpenSSL's raw signature check (harness by the coordinator)
H.append({"name": "h_pkiraw", "src": "h_pkiraw.c", "env": ["ctx", "fmt_stub", "list_wrap"], "tus": [], "unwind": 4, "timeout": 300, "object_bits": 12,
          "functions": ["KSI_PKITruststore_verifyRawSignature", "KSI_MD2hashAlg"],
          "bound": "all outcomes of the OpenSSL calls (modelled as nondeterministic externals), data <= 4 bytes, signature <= 6 bytes"})

for h in H:      # secondary witness points (WITNESS_EXTRA in the harness files) only in the thorough tier
    if h["name"] != "h_pkiraw":
        h.setdefault("thorough", {})["defines"] = list(h.get("defines", [])) + ["WITNESS_ALL=1"]

# NOTE: --slice-formula halves the solver time of most rule harnesses, but CBMC then omits the sliced-away nondet assignments from the
# counterexample trace; the replay protocol (values per tag, in order) gets misaligned and a real failure is reported as MODEL-MISMATCH
# instead of VIOLATION.  It is therefore not used.

PLAN = {
    "property": "C04",
    "outside": OUTSIDE,
    "assumptions": ASSUMPTIONS,
    "manifest": {"claimed": True, "level_text": LEVEL_TEXT, "level_note": LEVEL_NOTE},
    "harnesses": H,
}
json.dump(PLAN, open(os.path.join(HERE, "plan.json"), "w"), indent=1)
print("plan.json: %d harnesses, %d quick instances" % (len(H), sum(len(h.get("instances", [])) or 1 for h in H)))
