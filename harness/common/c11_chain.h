/* c11_chain.h - one-link aggregation hash chain with symbolic values (C11 H-1 harnesses).
 * Shape (concrete): 1 imprint link, SHA-1 sized input and sibling, chain algorithm SHA2-256.
 * Symbolic: input digest, sibling digest, link direction, 64-bit level correction. */
#ifndef VERIF_C11_CHAIN_H_
#define VERIF_C11_CHAIN_H_
static u64 c11_corr;
static KSI_AggregationHashChain *c11_mk_chain(KSI_CTX *ctx) {
	KSI_AggregationHashChain *c = NULL; KSI_HashChainLink *link = NULL; int res; unsigned k;
	u8 in_d[20], sib_d[20];
	for (k = 0; k < 20; k++) { in_d[k] = ND(u8, in_d); sib_d[k] = ND(u8, sib_d); }
	c11_corr = ND(u64, corr);
	res = KSI_AggregationHashChain_new(ctx, &c); ASSUME(res == KSI_OK);
	res = KSI_Integer_new(ctx, (u64)KSI_HASHALG_SHA2_256, &c->aggrHashId); ASSUME(res == KSI_OK);
	res = KSI_DataHash_fromDigest(ctx, KSI_HASHALG_SHA1, in_d, 20, &c->inputHash); ASSUME(res == KSI_OK);
	res = KSI_HashChainLinkList_new(&c->chain); ASSUME(res == KSI_OK);
	res = KSI_HashChainLink_new(ctx, &link); ASSUME(res == KSI_OK);
	link->isLeft = ND_BOOL(left);
	res = KSI_Integer_new(ctx, c11_corr, &link->levelCorrection); ASSUME(res == KSI_OK);
	res = KSI_DataHash_fromDigest(ctx, KSI_HASHALG_SHA1, sib_d, 20, &link->imprint); ASSUME(res == KSI_OK);
	res = KSI_HashChainLinkList_append(c->chain, link); ASSUME(res == KSI_OK);
	return c;
}
/* imprint equality through the public getter */
static int c11_same_imprint(const KSI_DataHash *a, const KSI_DataHash *b) {
	const unsigned char *ia = NULL, *ib = NULL; size_t la = 0, lb = 0; unsigned k; int eq;
	if (KSI_DataHash_getImprint(a, &ia, &la) != KSI_OK || KSI_DataHash_getImprint(b, &ib, &lb) != KSI_OK) return 0;
	eq = (la == lb && la == 33);
	for (k = 0; k < 33; k++) if (eq && ia[k] != ib[k]) eq = 0;
	return eq;
}
#endif
