/* c07_gates.h - ghost "gate log" and callee stubs shared by the wiring harnesses of C07 (signing) and C08 (extending).
 * The harness TU includes the real signature.c (or net_async.c); every callee outside that file is a stub that
 *   - records the order in which it was reached (g_at[] = global sequence number, g_calls[] = number of calls),
 *   - records whether it was handed the expected objects (g_args_ok[]),
 *   - returns a symbolic status (ND tag gate_status), and on KSI_OK hands out a model object.
 * Include AFTER the libksi headers + verif_post.h and BEFORE `#include "signature.c"`.
 * Trusted base: the stubs' contracts ("returns a status; on success the out-parameter is set") - nothing else. */
#ifndef C07_GATES_H_
#define C07_GATES_H_
#include "impl/signature_impl.h"
#include "impl/signature_builder_impl.h"
#include "impl/net_impl.h"
#include "impl/policy_impl.h"

enum { G_SEND, G_PERFORM, G_GETRESP, G_VWR, G_GETCHAIN, G_OPEN, G_COMPAT, G_APPLY, G_CLOSE, G_CLONEPUB, G_REPLPUB, G_VERIFY, G_N };
static unsigned g_seq;
static unsigned g_at[G_N], g_calls[G_N];
static int g_status[G_N], g_args_ok[G_N];
static int gate(int id, int args_ok) {
	g_calls[id]++; g_at[id] = ++g_seq; g_args_ok[id] = args_ok;
	int s = ND(int, gate_status);
	g_status[id] = s;
	return s;
}
/* gates a..b (inclusive, in enum order, skipping those listed as unused with calls==0 expected) all passed OK exactly once, in order */
static int gates_ok_in_order(const int *ids, unsigned n) {
	unsigned prev = 0;
	for (unsigned i = 0; i < n; i++) {
		int id = ids[i];
		if (g_calls[id] != 1 || g_status[id] != KSI_OK || !g_args_ok[id] || g_at[id] <= prev) return 0;
		prev = g_at[id];
	}
	return 1;
}
/* after a gate failed nothing later in the list may have been reached */
static int nothing_after_failure(const int *ids, unsigned n) {
	int failed = 0;
	for (unsigned i = 0; i < n; i++) {
		int id = ids[i];
		if (failed && g_calls[id] != 0) return 0;
		if (g_calls[id] > 1) return 0;
		if (g_calls[id] == 1 && g_status[id] != KSI_OK) failed = 1;
		if (g_calls[id] == 0) failed = 1;   /* a skipped gate: everything after it must be skipped too */
	}
	return 1;
}

/* ---- model objects ----
 * All model objects are STATIC (no malloc/free: keeps every pointer in the harness a plain address).  The model signature
 * starts with TWO references - one stands for "the object exists", the other is the one the code under test owns after
 * KSI_SignatureBuilder_close - so the real KSI_Signature_free only ever decrements:
 *   ref == 2: the code still owns / has handed out its reference;  ref == 1: the code has released it (= destroyed it). */
static KSI_RequestHandle m_handle;
static unsigned m_handle_freed;
static KSI_SignatureBuilder m_builder_obj;
static KSI_SignatureBuilder *m_builder;      /* = &m_builder_obj once the open stub has handed it out */
static unsigned m_builder_freed;
static KSI_Signature m_sig_obj;
static KSI_Signature *m_sign;                /* = &m_sig_obj once the close stub has handed it out */
static int m_close_noverify = -1; static KSI_uint64_t m_close_level;
static const KSI_DataHash *m_verify_doc; static KSI_uint64_t m_verify_level;
static const KSI_Policy *m_verify_policy; static KSI_VerificationContext *m_verify_ctx;
#define SIG_ALIVE_AND_OWNED() (m_sig_obj.ref == 2)
#define SIG_RELEASED() (m_sig_obj.ref == 1)

int KSI_VerificationResult_reset(KSI_VerificationResult *info);
int KSI_RequestHandle_perform(KSI_RequestHandle *handle) { return gate(G_PERFORM, handle == &m_handle); }
void KSI_RequestHandle_free(KSI_RequestHandle *handle) { if (handle != NULL) m_handle_freed++; }

/* builder as the real open functions leave it: noVerify = 0, holding the signature under construction */
static KSI_SignatureBuilder *c07_open_builder(KSI_CTX *ctx) {
	memset(&m_sig_obj, 0, sizeof(m_sig_obj));
	m_sig_obj.ctx = ctx; m_sig_obj.ref = 2;
	m_builder_obj.ctx = ctx; m_builder_obj.noVerify = 0; m_builder_obj.sig = &m_sig_obj; m_builder_obj.aggrStartLevel = 0;
	m_builder = &m_builder_obj;
	return m_builder;
}
int KSI_SignatureBuilder_close(KSI_SignatureBuilder *builder, KSI_uint64_t rootLevel, KSI_Signature **sig) {
	m_close_noverify = builder != NULL ? builder->noVerify : -2; m_close_level = rootLevel;
	int s = gate(G_CLOSE, builder != NULL && builder == m_builder && builder->sig == &m_sig_obj);
	if (s != KSI_OK) return s;
	/* as the real function: the builder's signature moves to the caller */
	m_sign = &m_sig_obj; builder->sig = NULL;
	*sig = &m_sig_obj;
	return KSI_OK;
}
void KSI_SignatureBuilder_free(KSI_SignatureBuilder *builder) {
	if (builder != NULL) { m_builder_freed++; KSI_Signature_free(builder->sig); builder->sig = NULL; }
}
int KSI_Signature_verifyWithPolicy(KSI_Signature *sig, const KSI_DataHash *docHsh, KSI_uint64_t rootLevel, const KSI_Policy *policy, KSI_VerificationContext *context) {
	m_verify_doc = docHsh; m_verify_level = rootLevel; m_verify_policy = policy; m_verify_ctx = context;
	return gate(G_VERIFY, sig == &m_sig_obj && m_sign == &m_sig_obj);
}
#ifdef C07_MODEL_SIG_FREE
/* for harnesses that do not include signature.c: reference-count model of KSI_Signature_free (signature.c:901) */
void KSI_Signature_free(KSI_Signature *sig) { if (sig != NULL && --sig->ref == 0) KSI_VerificationResult_reset(&sig->verificationResult); }
#endif
/* would be reached from the real KSI_Signature_free if the reference count dropped to zero - it never may (see above) */
int KSI_VerificationResult_reset(KSI_VerificationResult *info) { (void)info; __CPROVER_assert(0, "CHECK C07 model signature is released at most once by the code under test"); return KSI_OK; }

/* destructors of members the model signature never has */
#define C07_DTOR(T) void T##_free(T *p) { __CPROVER_assert(p == NULL, "CHECK C07 unlinked destructor " #T "_free only called with NULL"); }
#ifndef C07_HAVE_TLV_FREE
C07_DTOR(KSI_TLV)
#endif
C07_DTOR(KSI_PolicyVerificationResult)
#ifndef C07_HAVE_PUBREC_FREE
C07_DTOR(KSI_PublicationRecord)
#endif
#ifndef C07_HAVE_CALCHAIN_FREE
C07_DTOR(KSI_CalendarHashChain)
#endif
C07_DTOR(KSI_PublicationData)
C07_DTOR(KSI_PKISignedData)
#endif
