/* C16 shared reference model (harness side, independent of tree_builder.c / hashchain.c).
 *
 * Values: a tree node value is the byte string that enters its parent's hash: the imprint
 * (algorithm byte + digest) of a hash node, the serialized payload of a metadata node.
 * Hash oracle: H is the memoising hash model's record table (env/hash_model.c, VERIF_hm_rec):
 * c16_H(alg, l, r, level) looks up the message  l.bytes || r.bytes || (u8)level  among the
 * messages that were hashed so far.  "Not found" means the message was never hashed by the code
 * under test; under the collision-freeness assumption of the model its digest then differs from
 * every recorded digest, so a chain or a reference tree that needs it cannot reproduce a root
 * that the builder computed.  The callers CHECK c16_H_missing == 0.
 *
 * Reference tree (KSI aggregation tree built on the fly): leaves are merged left to right into a
 * forest of perfect binary trees exactly like incrementing a binary counter (slot i holds a tree
 * of 2^i leaves; a new leaf is a carry that joins with every occupied slot from slot 0 upwards
 * until it reaches a free one, the slot's tree on the LEFT); closing joins the remaining trees from
 * the lowest slot upwards, the tree of the HIGHER slot (= earlier leaves) on the LEFT.
 * join(l, r): level = max(l, r) + 1, hash = H(l || r || level byte).
 * The occupancy of the slots depends only on the number of leaves, which is concrete in every harness.
 *   c16_lf_*     levels only (used to decide acceptance before anything is hashed)
 *   c16_forest_* values and levels (used after close, when every message is on record)
 *
 * Chain formula (KSI aggregation hash chain): start at the leaf value and the leaf level; each link:
 * level += correction + 1; value = H(value || sibling || level) for a left link and
 * H(sibling || value || level) for a right link. */
#ifndef C16_REF_H_
#define C16_REF_H_

#define C16_VMAX 33            /* longest value: SHA2-256 imprint */
#ifndef C16_SLOTS
#define C16_SLOTS 5            /* binary counter slots of the reference (<= 31 leaves) */
#endif

struct c16_val {
	u8 b[C16_VMAX];
	unsigned len;              /* concrete */
	unsigned level;            /* symbolic; > 255 = out of range */
};

static unsigned c16_alg_len(int alg) {
	return alg == KSI_HASHALG_SHA1 ? 20 : alg == KSI_HASHALG_SHA2_256 ? 32 : alg == KSI_HASHALG_RIPEMD160 ? 20 : alg == KSI_HASHALG_SHA2_384 ? 48 : 64;
}

/* level of a join.  NOT saturated: a would-be root level may exceed 256 (two joins above a level-255 subtree),
 * and a configured limit above 255 must be compared with the true value; "> 255" means out of range for a node. */
static unsigned c16_join_level(unsigned l, unsigned r) {
	return (l > r ? l : r) + 1;
}

/* ---------------- levels only ---------------- */
struct c16_lf { unsigned level[C16_SLOTS]; int used[C16_SLOTS]; };

static void c16_lf_init(struct c16_lf *f) { for (unsigned i = 0; i < C16_SLOTS; i++) { f->used[i] = 0; f->level[i] = 0; } }

/* add one leaf (binary-counter carry).  Returns the highest level produced by the carries (> 255 = out of range). */
static unsigned c16_lf_add(struct c16_lf *f, unsigned leaf_level) {
	unsigned carry = leaf_level, hi = leaf_level;
	int placed = 0;
	for (unsigned i = 0; i < C16_SLOTS; i++) {
		if (!placed) {
			if (!f->used[i]) { f->level[i] = carry; f->used[i] = 1; placed = 1; }
			else { carry = c16_join_level(f->level[i], carry); f->used[i] = 0; if (carry > hi) hi = carry; }
		}
	}
	return hi;
}

/* level of the root if the forest were closed now (0 leaves: 0) */
static unsigned c16_lf_close(const struct c16_lf *f) {
	int have = 0; unsigned root = 0;
	for (unsigned i = 0; i < C16_SLOTS; i++) {
		if (f->used[i]) {
			if (!have) { root = f->level[i]; have = 1; }
			else root = c16_join_level(f->level[i], root);
		}
	}
	return root;
}

/* ---------------- values ---------------- */
static unsigned c16_H_missing;   /* number of failed look-ups (must stay 0) */

/* out = imprint of H_alg(l || r || level byte), taken from the record table */
static void c16_H(int alg, const struct c16_val *l, const struct c16_val *r, unsigned level, struct c16_val *out) {
	u8 m[2 * C16_VMAX + 1];
	unsigned n = 0, k, q;
	int found = 0;
	unsigned dl = c16_alg_len(alg);
	for (k = 0; k < C16_VMAX; k++) if (k < l->len) m[n++] = l->b[k];
	for (k = 0; k < C16_VMAX; k++) if (k < r->len) m[n++] = r->b[k];
	m[n++] = (u8)level;
	out->len = 1 + dl;
	out->level = level;
	out->b[0] = (u8)alg;
	for (k = 1; k < C16_VMAX; k++) out->b[k] = 0;
	for (q = 0; q < HM_REC_MAX; q++) {
		if (q < VERIF_hm_nrec && VERIF_hm_rec[q].alg == alg && VERIF_hm_rec[q].len == n) {
			int eq = !found;
			for (k = 0; k < 2 * C16_VMAX + 1; k++) if (k < n) eq = eq & (VERIF_hm_rec[q].msg[k] == m[k]);
			for (k = 0; k < C16_VMAX - 1; k++) if (k < dl) out->b[1 + k] = eq ? VERIF_hm_rec[q].digest[k] : out->b[1 + k];
			found = found | eq;
		}
	}
	c16_H_missing += !found;
}

struct c16_forest { struct c16_val slot[C16_SLOTS]; int used[C16_SLOTS]; };

static void c16_forest_init(struct c16_forest *f) { for (unsigned i = 0; i < C16_SLOTS; i++) f->used[i] = 0; }

static void c16_join(int alg, const struct c16_val *l, const struct c16_val *r, struct c16_val *out) {
	c16_H(alg, l, r, c16_join_level(l->level, r->level), out);
}

static void c16_forest_add(struct c16_forest *f, int alg, const struct c16_val *leaf) {
	struct c16_val carry = *leaf, t;
	int placed = 0;
	for (unsigned i = 0; i < C16_SLOTS; i++) {
		if (!placed) {
			if (!f->used[i]) { f->slot[i] = carry; f->used[i] = 1; placed = 1; }
			else { c16_join(alg, &f->slot[i], &carry, &t); f->used[i] = 0; carry = t; }
		}
	}
}

/* returns 0 when the forest is empty */
static int c16_forest_close(const struct c16_forest *f, int alg, struct c16_val *root) {
	int have = 0;
	struct c16_val t;
	for (unsigned i = 0; i < C16_SLOTS; i++) {
		if (f->used[i]) {
			if (!have) { *root = f->slot[i]; have = 1; }
			else { c16_join(alg, &f->slot[i], root, &t); *root = t; }
		}
	}
	return have;
}

#endif
