/* C06 H-3: response MAC verification.
 * MODE 0: pdu_verifyHmac (types.c) with a harness callback as MAC calculator:
 *     OK  <=>  (configured algorithm unset (KSI_HASHALG_INVALID_VALUE) or == algorithm of the received MAC)
 *              and the MAC is recomputed successfully - with the RECEIVED algorithm, the given key, over the given PDU -
 *              and the received imprint equals the computed imprint in EVERY byte including the algorithm id.
 *     The callback may return an imprint with another algorithm id (CA) than the received one (RA): equal digest
 *     bytes under different ids of the same length (SHA-1 / RIPEMD-160, SHA2-256 / SHA3-256) must not verify.
 * MODE 1: KSI_AggregationPdu_verify / KSI_ExtendPdu_verify as a whole, KSI_HMAC_create replaced by the capture stub:
 *     OK  <=>  header present and MAC present and pinning satisfied and version option in {1,2} and the MAC computation
 *              succeeds and all digest bytes are equal;  for v2 the MAC input is the received PDU without its trailing digest.
 * Shape (concrete per instance): PDU_EXT, MODE, RA, CA (MODE 0), HAS_HDR, HAS_MAC.  Symbolic: configured algorithm
 * (all int values), PDU version option, all digest bytes, all raw bytes, status of the MAC computation. */
#include "verif.h"
#include "internal.h"
#include "impl/hash_impl.h"
#include "ctx.h"
#include "tlv.h"
#include "hmac.h"
#include "tlv_template.h"
#include "hashchain.h"
#include "pkitruststore.h"
#include "net.h"
#include "net_async.h"
#include "net_ha.h"
#include "tlv_element.h"
#include "impl/ctx_impl.h"
#include "impl/meta_data_impl.h"
#include "impl/meta_data_element_impl.h"
#include "verif_post.h"
#include "types.c"
#define C06_NULL_DTORS 1
#include "c06_pdu.h"

#ifndef MODE
#define MODE 0
#endif
#ifndef RA
#define RA 1
#endif
#ifndef CA
#define CA RA
#endif
#ifndef HAS_HDR
#define HAS_HDR 1
#endif
#ifndef HAS_MAC
#define HAS_MAC 1
#endif
#define RAWLEN 72
#define HDRLEN 5
#define PLLEN 9

static void c06_ser_hook(const void *obj, unsigned tag) { (void)obj; (void)tag; }

/* digest lengths of the instance's algorithms: compile-time constants (they fix the imprint lengths) */
#define HLEN(a) ((a) == 0 ? 20 : (a) == 1 ? 32 : (a) == 2 ? 20 : (a) == 4 ? 48 : (a) == 5 ? 64 : (a) == 7 ? 28 : (a) == 8 ? 32 : (a) == 9 ? 48 : (a) == 10 ? 64 : (a) == 11 ? 32 : 0)

static KSI_DataHash *mk_hash(KSI_CTX *ctx, int alg, unsigned hl, const u8 *digest) {
	KSI_DataHash *d = malloc(sizeof(*d)); ASSUME(d != NULL);
	d->ctx = ctx; d->ref = 1; d->imprint_length = 1 + hl;
	d->imprint[0] = (u8)alg;
	for (unsigned i = 0; i < KSI_MAX_IMPRINT_LEN; i++) d->imprint[1 + i] = i < hl ? digest[i] : 0;
	return d;
}

#if MODE == 0
static struct { unsigned calls; void *pdu; int alg; const char *key; int status; } cb;
static KSI_DataHash *cb_ret;
static int calc_cb(const void *pdu, int alg, const char *key, KSI_DataHash **out) {
	cb.calls++; cb.pdu = (void *)pdu; cb.alg = alg; cb.key = key;
	cb.status = ND(int, calc_status);
	if (cb.status != KSI_OK) return cb.status;
	*out = KSI_DataHash_ref(cb_ret);
	return KSI_OK;
}
#endif

void harness(void) {
	VERIF_ctx_init();
	KSI_CTX *ctx = VERIF_ctx;
	int res;
	static const char key[] = "pa55";
	u8 rd[64], cd[64];
	for (unsigned i = 0; i < 64; i++) { rd[i] = ND(u8, recv_digest); cd[i] = ND(u8, calc_digest); }
	int cfg = ND(int, configured_alg);
	int pinned_ok = (cfg == 0x100 /* KSI_HASHALG_INVALID_VALUE: not configured */) || (cfg == RA);
	int dig_eq = 1;
	for (unsigned i = 0; i < HLEN(RA); i++) if (rd[i] != cd[i]) dig_eq = 0;

#if MODE == 0
	int dummy_pdu;
	KSI_DataHash *recv = mk_hash(ctx, RA, HLEN(RA), rd);
	cb_ret = mk_hash(ctx, CA, HLEN(CA), cd);
	unsigned rc0 = (unsigned)cb_ret->ref;
	res = pdu_verifyHmac(ctx, recv, key, (KSI_HashAlgorithm)cfg, calc_cb, &dummy_pdu);
	int expect_ok = pinned_ok && cb.status == KSI_OK && RA == CA && HLEN(RA) == HLEN(CA) && dig_eq;
	if (!pinned_ok) {
		CHECK(res == KSI_HMAC_ALGORITHM_MISMATCH, "C06.H3 a MAC with another algorithm than the configured one is refused with HMAC_ALGORITHM_MISMATCH");
		CHECK(cb.calls == 0, "C06.H3 nothing is computed for a MAC with a non-configured algorithm");
		if (cfg == (RA ^ 1)) WITNESS_POINT("pinned algorithm differs from received");
	} else {
		CHECK(cb.calls == 1 && cb.alg == RA && cb.key == key && cb.pdu == (void *)&dummy_pdu, "C06.H3 the MAC is recomputed once with the received algorithm, the given key, over the given PDU");
		CHECK((res == KSI_OK) == (expect_ok != 0), "C06.H3 accepted iff recomputation succeeded and the imprints agree in every byte including the algorithm id");
		if (cb.status != KSI_OK) CHECK(res == cb.status, "C06.H3 failure of the recomputation is reported");
		else if (!expect_ok) CHECK(res == KSI_HMAC_MISMATCH, "C06.H3 differing MAC is reported as HMAC_MISMATCH");
#if RA == CA
		if (res == KSI_OK && cfg == 0x100) WITNESS_POINT("accepted without pinning");
		if (res == KSI_OK && cfg == RA) WITNESS_POINT("accepted with pinning");
#else
		if (cb.status == KSI_OK && res == KSI_HMAC_MISMATCH && dig_eq) WITNESS_POINT("equal digest bytes under another algorithm id refused");
#endif
		if (cb.status == KSI_OK && res == KSI_HMAC_MISMATCH && rd[HLEN(RA) - 1] != cd[HLEN(RA) - 1] && rd[0] == cd[0]) WITNESS_POINT("difference in the last digest byte only refused");
	}
	CHECK(cb_ret->ref == rc0, "C06.H3 the recomputed MAC is released again");
	KSI_DataHash_free(recv);
	KSI_DataHash_free(cb_ret);
#else
	size_t ver = ND(size_t, pdu_version);
	ctx->options[OPT_PDU_VER] = ver;
	ctx->options[OPT_HMAC_ALG] = (size_t)cfg;
	u8 raw[RAWLEN], hraw[HDRLEN], plraw[PLLEN];
	for (unsigned i = 0; i < RAWLEN; i++) raw[i] = ND(u8, raw);
	for (unsigned i = 0; i < HDRLEN; i++) hraw[i] = ND(u8, hraw);
	for (unsigned i = 0; i < PLLEN; i++) plraw[i] = ND(u8, plraw);
	PDU *pdu = NULL; RESP *resp = NULL; KSI_Header *hdr = NULL;
	res = PDU_new(ctx, &pdu); ASSUME(res == KSI_OK);
	res = RESP_new(ctx, &resp); ASSUME(res == KSI_OK);
	pdu->response = resp;
	res = KSI_OctetString_new(ctx, plraw, PLLEN, &resp->raw); ASSUME(res == KSI_OK);
	res = KSI_OctetString_new(ctx, raw, RAWLEN, &pdu->raw); ASSUME(res == KSI_OK);
#if HAS_HDR
	res = KSI_Header_new(ctx, &hdr); ASSUME(res == KSI_OK);
	res = KSI_OctetString_new(ctx, hraw, HDRLEN, &hdr->raw); ASSUME(res == KSI_OK);
	pdu->header = hdr;
#endif
#if HAS_MAC
	pdu->hmac = mk_hash(ctx, RA, HLEN(RA), rd);
#endif
	c06_mac_ret = mk_hash(ctx, RA, HLEN(RA), cd);   /* HMAC_create(alg) yields an imprint of that algorithm; the call's alg is checked below */
	const unsigned char *rawp = NULL; size_t rawl = 0;
	res = KSI_OctetString_extract(pdu->raw, &rawp, &rawl); ASSUME(res == KSI_OK);

	res = PDU_verify(pdu, key);

#if !HAS_HDR || !HAS_MAC
	CHECK(res != KSI_OK && c06_mac.calls == 0, "C06.H3 a PDU without header or without MAC never verifies and nothing is computed");
	WITNESS_POINT("PDU without header or MAC refused");
#else
	if (!pinned_ok) {
		CHECK(res == KSI_HMAC_ALGORITHM_MISMATCH && c06_mac.calls == 0, "C06.H3 PDU MAC with a non-configured algorithm is refused before any computation");
		if (cfg == (RA ^ 1)) WITNESS_POINT("PDU with non-configured MAC algorithm refused");
	} else if (ver != 1 && ver != 2) {
		CHECK(res != KSI_OK && c06_mac.calls == 0, "C06.H3 unknown PDU version never verifies");
	} else {
		CHECK(c06_mac.calls == 1 && c06_mac.alg == RA && c06_mac.key == key, "C06.H3 PDU MAC is recomputed once with the received algorithm and the given key");
		CHECK((res == KSI_OK) == (c06_mac_status == KSI_OK && dig_eq), "C06.H3 PDU accepted iff the MAC computation succeeded and every digest byte agrees");
		if (ver == 2) {
			CHECK(c06_mac.data == rawp && c06_mac.len == RAWLEN - HLEN(RA), "C06.H3 v2 MAC is recomputed over the received bytes up to the trailing digest");
			if (res == KSI_OK) WITNESS_POINT("v2 PDU accepted");
			if (c06_mac_status == KSI_OK && res == KSI_HMAC_MISMATCH) WITNESS_POINT("v2 PDU with wrong MAC refused");
		} else {
			CHECK(c06_mac.len == HDRLEN + PLLEN, "C06.H3 v1 MAC is recomputed over header and payload");
			if (res == KSI_OK) WITNESS_POINT("v1 PDU accepted");
		}
	}
#endif
	PDU_free(pdu);
	KSI_DataHash_free(c06_mac_ret);
#endif
}
