/* Formatting is not the subject of most harnesses: KSI_snprintf & co. produce an empty string. */
#include "internal.h"
#include <stdarg.h>
size_t KSI_vsnprintf(char *buf, size_t n, const char *format, va_list va) { (void)format; (void)va; if (buf != NULL && n > 0) buf[0] = 0; return 0; }
size_t KSI_snprintf(char *buf, size_t n, const char *format, ...) { (void)format; if (buf != NULL && n > 0) buf[0] = 0; return 0; }
