/* C06 H-5 (asynchronous client) + C07 H-5 (handleResponse matching): net_async.c
 *   asyncClient_processAggregationResponseQueue / asyncClient_processExtenderResponseQueue  (FAM = 0 / 1)
 *   -> processResponseQueue, asyncClient_handle{Aggregation,Extend}Resp, handleResponse, asyncClient_handleServerConfig,
 *      asyncClient_setResponseError  - all real code; the wrappers are called, so the WIRING of parse / verify / handler
 *      is part of what is checked.  types.c callees are stubs with symbolic outcomes; ghost flags per PDU object.
 * Queue of NRESP (concrete) replies.  For every combination of callee outcomes and member presence:
 *   (1) response payload, configuration payload, user callback are reached only for a PDU whose verification returned
 *       KSI_OK under the endpoint's key (error PDUs are set aside unverified and deliver nothing - also when they carry
 *       a response and / or configuration payload next to the error payload);
 *   (2) a waiting handle receives a response object (respCtx) only from such a PDU, and only if the response's request id
 *       selects exactly this handle (slot = low 32 bits, full 64-bit id equal), the handle is waiting for a response,
 *       KSI_*Resp_verifyWithRequest(resp, the handle's own request) returned KSI_OK and the status converts to KSI_OK;
 *   (3) every parsed PDU object and every detached error object is released exactly once. */
#include "verif.h"
#include "internal.h"
#include "net_async.h"
#include "signature_builder.h"
#include "impl/signature_builder_impl.h"
#include "net.h"
#include "net_tcp.h"
#include "net_http.h"
#include "impl/net_async_impl.h"
#include "impl/net_uri_impl.h"
#include "impl/ctx_impl.h"
#include "ctx.h"
#include "verif_post.h"
#include "types_base.c"   /* struct KSI_Integer_st is private to types_base.c: integers are built directly, see mk_int */

#ifndef FAM
#define FAM 0
#endif
#ifndef NRESP
#define NRESP 2
#endif
#ifndef CONF_TO_CALLBACK
#define CONF_TO_CALLBACK 0
#endif

struct KSI_ErrorPdu_st { int freed; };
struct KSI_Config_st { int refs; };
#if FAM == 0
struct KSI_AggregationPdu_st { int verified, freed, has_err, has_conf, has_resp, used; };
struct KSI_AggregationResp_st { int refs; };
struct KSI_AggregationReq_st { int x; };
typedef KSI_AggregationPdu PDU; typedef KSI_AggregationResp RESP; typedef KSI_AggregationReq REQ;
#else
struct KSI_ExtendPdu_st { int verified, freed, has_err, has_conf, has_resp, used; };
struct KSI_ExtendResp_st { int refs; };
struct KSI_ExtendReq_st { int x; };
typedef KSI_ExtendPdu PDU; typedef KSI_ExtendResp RESP; typedef KSI_ExtendReq REQ;
#endif

static PDU pdus[NRESP];
static RESP resps[NRESP];
static struct KSI_Config_st confs[NRESP];
static struct KSI_ErrorPdu_st errs[NRESP];
static REQ handle_req;
static KSI_Integer *resp_id[NRESP], *resp_status[NRESP];
static const char endpoint_pass[] = "s3cr3t";
static unsigned g_parse_calls, g_fetch;
static int parsed[NRESP];
static int g_unverified_use, g_wrong_key, g_cb_calls;
static int g_vwr_calls, g_vwr_status[NRESP], g_vwr_req_ok[NRESP];
static u8 wire[NRESP][4];
static KSI_OctetString *wire_os[NRESP];

static unsigned idx_of_pdu(const PDU *p) { for (unsigned k = 0; k < NRESP; k++) if (p == &pdus[k]) return k; return NRESP; }
static unsigned idx_of_resp(const RESP *r) { for (unsigned k = 0; k < NRESP; k++) if (r == &resps[k]) return k; return NRESP; }
static void use(const PDU *p) { unsigned k = idx_of_pdu(p); if (k >= NRESP) { g_unverified_use = 1; return; } pdus[k].used = 1; if (!pdus[k].verified) g_unverified_use = 1; }
#define ST(tag) ND(int, tag)
/* heap KSI_Integer with any value (KSI_Integer_new would hand out a shared pool object for values < 256: same behaviour for every reader used here) */
static KSI_Integer *mk_int(u64 v) { KSI_Integer *i = malloc(sizeof(*i)); ASSUME(i != NULL); i->ref = 1; i->value = v; return i; }

/* ---- transport stubs ---- */
static int impl_obj;
int tr_getResponse(void *impl, KSI_OctetString **resp, size_t *left) {
	(void)impl;
	/* index by CALL count (concrete on every path), not by success count */
	unsigned k = g_fetch < NRESP ? g_fetch : NRESP - 1;
	g_fetch++;
	*left = NRESP - 1 - k;   /* written unconditionally: keeps the loop count of processResponseQueue concrete for the symbolic execution */
	int s = ST(fetch_status); if (s != KSI_OK) return s;
	*resp = KSI_OctetString_ref(wire_os[k]);   /* pre-built by the harness; the queue loop releases its reference */
	return KSI_OK;
}
int tr_getCredentials(void *impl, const char **user, const char **pass) {
	(void)impl; if (user != NULL) *user = "u";
	int s = ST(cred_status); if (s != KSI_OK) return s;
	if (pass != NULL) *pass = endpoint_pass;
	return KSI_OK;
}
int user_conf_cb(KSI_CTX *ctx, KSI_Config *conf) {
	(void)ctx; g_cb_calls++;
	unsigned k = NRESP; for (unsigned i = 0; i < NRESP; i++) if (conf == &confs[i]) k = i;
	if (k >= NRESP || !pdus[k].verified) g_unverified_use = 1;
	return ST(cb_status);
}

/* ---- types.c stubs ---- */
#if FAM == 0
#define F(n) KSI_Aggregation##n
#else
#define F(n) KSI_Extend##n
#endif
int F(Pdu_parse)(KSI_CTX *ctx, const unsigned char *raw, size_t len, PDU **t) {
	(void)ctx; (void)raw; (void)len;
	unsigned k = g_parse_calls < NRESP ? g_parse_calls : NRESP - 1;
	g_parse_calls++;
	int s = ST(parse_status); if (s != KSI_OK) return s;
	parsed[k] = 1;
	*t = &pdus[k]; return KSI_OK;
}
void F(Pdu_free)(PDU *t) { if (t != NULL) t->freed++; }
int F(Pdu_getError)(const PDU *t, KSI_ErrorPdu **e) { int s = ST(geterr_status); if (s != KSI_OK) return s; unsigned k = idx_of_pdu(t); *e = (k < NRESP && pdus[k].has_err) ? &errs[k] : NULL; return KSI_OK; }
int F(Pdu_setError)(PDU *t, KSI_ErrorPdu *e) { int s = ST(seterr_status); if (s != KSI_OK) return s; if (e == NULL) t->has_err = 0; return KSI_OK; }
int F(Pdu_verify)(const PDU *t, const char *pass) {
	if (pass != endpoint_pass) g_wrong_key = 1;
	int s = ST(verify_status);
	unsigned k = idx_of_pdu(t);
	if (s == KSI_OK && k < NRESP) pdus[k].verified = 1;
	return s;
}
/* the MAC-only check (no header / MAC presence test) is NOT a sufficient gate: if the queue were wired to it the PDU does not count as verified */
int F(Pdu_verifyHmac)(const PDU *t, const char *pass) { (void)t; (void)pass; return ST(weak_verify_status); }
int F(Pdu_getConfResponse)(const PDU *t, KSI_Config **c) { use(t); int s = ST(getconf_status); if (s != KSI_OK) return s; unsigned k = idx_of_pdu(t); *c = (k < NRESP && pdus[k].has_conf) ? &confs[k] : NULL; return KSI_OK; }
int F(Pdu_getResponse)(const PDU *t, RESP **r) { use(t); int s = ST(getresp_status); if (s != KSI_OK) return s; unsigned k = idx_of_pdu(t); *r = (k < NRESP && pdus[k].has_resp) ? &resps[k] : NULL; return KSI_OK; }
int F(Resp_getRequestId)(const RESP *r, KSI_Integer **id) { int s = ST(getid_status); if (s != KSI_OK) return s; unsigned k = idx_of_resp(r); *id = k < NRESP ? resp_id[k] : NULL; return KSI_OK; }
int F(Resp_getStatus)(const RESP *r, KSI_Integer **st) { int s = ST(getst_status); if (s != KSI_OK) return s; unsigned k = idx_of_resp(r); *st = k < NRESP ? resp_status[k] : NULL; return KSI_OK; }
int F(Resp_getErrorMsg)(const RESP *r, KSI_Utf8String **m) { (void)r; *m = NULL; return KSI_OK; }
int F(Resp_verifyWithRequest)(const RESP *r, const REQ *q) {
	unsigned k = idx_of_resp(r); int s = ST(vwr_status);
	g_vwr_calls++;
	if (k < NRESP) { g_vwr_status[k] = s; g_vwr_req_ok[k] = (q == &handle_req); }
	return s;
}
RESP *F(Resp_ref)(RESP *r) { if (r != NULL) r->refs++; return r; }
void F(Resp_free)(RESP *r) { if (r != NULL) r->refs--; }
void F(Req_free)(REQ *q) { (void)q; }
void KSI_ErrorPdu_free(KSI_ErrorPdu *e) { if (e != NULL) e->freed++; }
int KSI_ErrorPdu_getErrorMessage(const KSI_ErrorPdu *t, KSI_Utf8String **m) { (void)t; *m = NULL; return KSI_OK; }
int KSI_ErrorPdu_getStatus(const KSI_ErrorPdu *t, KSI_Integer **st) { (void)t; *st = resp_status[0]; return KSI_OK; }
KSI_Config *KSI_Config_ref(KSI_Config *c) { if (c != NULL) c->refs++; return c; }
void KSI_Config_free(KSI_Config *c) { if (c != NULL) c->refs--; }

#include "net_async.c"

void harness(void) {
	VERIF_ctx_init();
	KSI_CTX *ctx = VERIF_ctx;
	int res;
	for (unsigned k = 0; k < NRESP; k++) {
		resp_id[k] = mk_int(ND(u64, resp_id));
		resp_status[k] = mk_int(ND(u64, resp_status));
		pdus[k].has_err = ND_BOOL(has_err); pdus[k].has_conf = ND_BOOL(has_conf); pdus[k].has_resp = ND_BOOL(has_resp);
		g_vwr_status[k] = -1;
		res = KSI_OctetString_new(ctx, wire[k], 4, &wire_os[k]); ASSUME(res == KSI_OK);
	}
	int was_err[NRESP]; for (unsigned k = 0; k < NRESP; k++) was_err[k] = pdus[k].has_err;

	/* one handle in cache slot 1 of a cache with two slots (slot 0 is reserved by net_async.c) */
	static KSI_AsyncHandle H; static KSI_AsyncHandle *cache[2]; static KSI_AsyncClient C;
	memset(&H, 0, sizeof(H)); memset(&C, 0, sizeof(C));
	H.ctx = ctx; H.ref = 1; H.id = ND(u64, handle_id);
	int state0 = ND(int, handle_state);
	ASSUME(state0 == KSI_ASYNC_STATE_WAITING_FOR_RESPONSE || state0 == KSI_ASYNC_STATE_WAITING_FOR_DISPATCH || state0 == KSI_ASYNC_STATE_RESPONSE_RECEIVED || state0 == KSI_ASYNC_STATE_ERROR);
	H.state = state0;
#if FAM == 0
	H.aggrReq = &handle_req;
#else
	H.extReq = &handle_req;
#endif
	cache[0] = NULL; cache[1] = ND_BOOL(slot_used) ? &H : NULL;
	C.ctx = ctx; C.clientImpl = &impl_obj; C.getResponse = tr_getResponse; C.getCredentials = tr_getCredentials;
	C.reqCache = cache; C.options[KSI_ASYNC_OPT_REQUEST_CACHE_SIZE] = 2;
	C.pending = 1; C.received = 0;
#if CONF_TO_CALLBACK   /* pushed configuration always goes to the user callback (keeps the multi-reply instances small) */
	C.options[KSI_ASYNC_OPT_PUSH_CONF_CALLBACK] = (size_t)user_conf_cb;
	C.options[KSI_ASYNC_PRIVOPT_INVOKE_CONF_RECEIVED_CALLBACK] = 1;
#else
	C.options[KSI_ASYNC_OPT_PUSH_CONF_CALLBACK] = ND_BOOL(has_async_cb) ? (size_t)user_conf_cb : 0;
	C.options[KSI_ASYNC_PRIVOPT_INVOKE_CONF_RECEIVED_CALLBACK] = ND_BOOL(invoke_cb);
#endif

#if FAM == 0
	res = asyncClient_processAggregationResponseQueue(&C);
#else
	res = asyncClient_processExtenderResponseQueue(&C);
#endif

	CHECK(!g_unverified_use, "C06.H5a payload, configuration and callback are reached only for a PDU whose MAC verification returned OK");
	CHECK(!g_wrong_key, "C06.H5a PDUs are verified with the endpoint's key");
	int freed_ok = 1, err_quiet = 1, err_freed_ok = 1;
	for (unsigned k = 0; k < NRESP; k++) {
		if (pdus[k].freed != (parsed[k] ? 1 : 0)) freed_ok = 0;
		if (was_err[k] && (pdus[k].used || pdus[k].verified)) err_quiet = 0;
		if (errs[k].freed > 1) err_freed_ok = 0;
		if (parsed[k] && was_err[k] && !pdus[k].has_err && errs[k].freed != 1) err_freed_ok = 0;   /* detached from the PDU -> owned by the queue loop */
	}
	CHECK(freed_ok, "C06.H5a every parsed PDU object is released exactly once");
	/* has_err, has_resp and has_conf of a reply are independent: an error PDU that ALSO carries a response / configuration payload is covered */
	CHECK(err_quiet, "C06.H5a an error PDU is neither verified nor handed to the response handler");
	if (was_err[0] && pdus[0].has_resp && pdus[0].has_conf && parsed[0] && g_cb_calls == 0 && H.respCtx == NULL) WITNESS_POINT("error PDU carrying response and configuration payloads: nothing delivered");
	CHECK(err_freed_ok, "C06.H5a every detached error object is released exactly once");

	/* delivery to the handle */
	if (H.respCtx != NULL) {
		unsigned k = idx_of_resp((RESP *)H.respCtx);
		CHECK(k < NRESP, "C07.H5 delivered object is one of the received responses");
		if (k < NRESP) {
			CHECK(pdus[k].verified && !was_err[k], "C06.H5a a handle receives a response only from a verified, non-error PDU");
			CHECK(cache[1] == &H && state0 == KSI_ASYNC_STATE_WAITING_FOR_RESPONSE, "C07.H5 only a cached handle that waits for a response receives one");
			u64 rid = KSI_Integer_getUInt64(resp_id[k]);
			CHECK((rid & 0xffffffffULL) == 1 && rid == H.id, "C07.H5 the response's 64-bit request id is the handle's id and selects its slot");
			CHECK(g_vwr_status[k] == KSI_OK && g_vwr_req_ok[k], "C07.H5 the response was checked against the handle's own request");
			CHECK(KSI_Integer_getUInt64(resp_status[k]) == 0, "C07.H5 only a response with status 0 is delivered");
			CHECK(H.state == KSI_ASYNC_STATE_RESPONSE_RECEIVED && resps[k].refs == 1, "C07.H5 delivery marks the handle and takes one reference");
			if (k == NRESP - 1) WITNESS_POINT("last queued response delivered to the handle");
		}
	} else {
		CHECK(H.state != KSI_ASYNC_STATE_RESPONSE_RECEIVED || state0 == KSI_ASYNC_STATE_RESPONSE_RECEIVED, "C07.H5 a handle is not marked as answered without a response object");
	}
	if (res == KSI_HMAC_MISMATCH && H.respCtx == NULL) WITNESS_POINT("MAC failure stops the queue");
	if (was_err[0] && H.state == KSI_ASYNC_STATE_ERROR && state0 == KSI_ASYNC_STATE_WAITING_FOR_RESPONSE) WITNESS_POINT("error PDU moves the waiting handle to the error state");
	if (g_cb_calls > 0 && res == KSI_OK) WITNESS_POINT("pushed configuration handed to the user callback");
#if !CONF_TO_CALLBACK
	if (C.serverConf != NULL) WITNESS_POINT("pushed configuration stored in a handle");
#endif
}
