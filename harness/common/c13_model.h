/* C13 (async service) shared model: everything net_async.c calls that is NOT the subject.
 *
 * The subject is net_async.c itself (request cache, id allocation, response matching, counters,
 * finalisation).  It is #included as text by the harness TU.  Everything below is the trusted base:
 *
 *  (M1) typed payload objects.  struct KSI_{Integer,Utf8String,OctetString,Config,Header,ErrorPdu},
 *       KSI_{Aggregation,Extend}{Req,Resp,Pdu} are private to types.c/types_base.c and opaque to
 *       net_async.c; they are modelled as reference counted records with exactly the fields that
 *       net_async.c reads through getters.  Getters/setters/ref/free have the semantics of the
 *       KSI_IMPLEMENT_GETTER/SETTER/REF macros (internal.h:138-168).  KSI_Integer has no small-integer pool.
 *       All model objects are allocated with KSI_new / KSI_malloc, so they take part in C19's allocation-failure
 *       injection (VERIF_FAULT_ALLOC) and report KSI_OUT_OF_MEMORY like the real constructors.
 *  (M2) PDU layer stubs: <Req>_encloseWithHeader (ownership as types.c:1553-1629: consumes request
 *       reference and header on success only), <Pdu>_serialize (fresh buffer), <Pdu>_parse, <Pdu>_verify
 *       (HMAC), <Resp>_verifyWithRequest: each may fail with a symbolic non-zero status.
 *  (M3) status conversion: NULL or 0 -> KSI_OK, anything else -> some non-zero error (net.c:1218).
 *  (M4) transport (the four client callbacks): addRequest accepts (state := WAITING_FOR_DISPATCH,
 *       reqTime := now, keeps the reference it was given) or refuses without touching the handle;
 *       dispatch may move handles it holds from WAITING_FOR_DISPATCH to WAITING_FOR_RESPONSE
 *       (sndTime := now) or ERROR (err != 0) and returns OK / CONNECTION_CLOSED / another error;
 *       getResponse hands out queued raw responses.  (Contract read off net_tcp_async.c:382-511.)
 *  (M5) clock: time() returns the harness-controlled value c13_now (constant during one call);
 *       difftime(a, b) = (double)(a - b) for 0 <= b <= a < 2^40; in the quick tier the solver is additionally
 *       given lemma L (below), which is proved separately.
 */
#ifndef C13_MODEL_H_
#define C13_MODEL_H_

#include <time.h>

#ifndef HN
#error "define HN (harness name prefix, e.g. \"C13.H1\") before including c13_model.h"
#endif

/* ------------------------------------------------------------------ (M5) clock */
static time_t c13_now;
time_t time(time_t *t) { if (t != NULL) *t = c13_now; return c13_now; }
#define C13_TIME_MAX ((time_t)1 << 40)
/* difftime(a, b) = (double)(a - b): exact for the time range used (0 <= b <= a < 2^40).
 * Lemma L (used as an assumption in the quick tier, proved on its own by harness h0_lemma, and NOT used in
 * the thorough tier, which re-proves everything with the bare definition):
 *     for 0 <= x < 2^40 and every 64-bit T:   (double)x > (double)T   <=>   x > T
 * Giving the solver L next to the definition spares it the monotonicity proof of the 64-bit -> double
 * conversion once per cached handle (measured: seconds instead of minutes). */
static size_t c13_difftime_threshold;
static int c13_difftime_threshold_set;
double difftime(time_t a, time_t b) {
	double d = (double)(a - b);
#if !defined(REPLAY) && !defined(C13_EXACT_DIFFTIME)
	if (c13_difftime_threshold_set && a >= b && (a - b) < C13_TIME_MAX)
		__CPROVER_assume((d > (double)c13_difftime_threshold) == ((unsigned long long)(a - b) > (unsigned long long)c13_difftime_threshold));
#endif
	return d;
}

/* ------------------------------------------------------------------ (M1) payload objects */
struct KSI_Integer_st { size_t ref; KSI_uint64_t value; };
struct KSI_Utf8String_st { KSI_CTX *ctx; size_t ref; char *value; };
struct KSI_OctetString_st { KSI_CTX *ctx; size_t ref; unsigned char *data; size_t data_len; int c13_tag; };
struct KSI_Config_st { size_t ref; KSI_CTX *ctx; int c13_tag; };
struct KSI_Header_st { KSI_CTX *ctx; KSI_Integer *instanceId; KSI_Integer *messageId; KSI_Utf8String *loginId; };
struct KSI_ErrorPdu_st { KSI_CTX *ctx; KSI_Integer *status; KSI_Utf8String *errorMsg; };

static unsigned c13_live_integers;   /* ghost: allocation balance of the model objects */

int KSI_Integer_new(KSI_CTX *ctx, KSI_uint64_t value, KSI_Integer **o) {
	(void)ctx;
	if (o == NULL) return KSI_INVALID_ARGUMENT;
	KSI_Integer *t = KSI_new(KSI_Integer);
	if (t == NULL) return KSI_OUT_OF_MEMORY;
	t->ref = 1; t->value = value; *o = t;
	c13_live_integers++;
	return KSI_OK;
}
void KSI_Integer_free(KSI_Integer *o) { if (o != NULL && --o->ref == 0) { c13_live_integers--; free(o); } }
KSI_Integer *KSI_Integer_ref(KSI_Integer *o) { if (o != NULL) o->ref++; return o; }
KSI_uint64_t KSI_Integer_getUInt64(const KSI_Integer *o) { return o != NULL ? o->value : 0; }

int KSI_Utf8String_new(KSI_CTX *ctx, const char *str, size_t len, KSI_Utf8String **o) {
	if (ctx == NULL || str == NULL || o == NULL) return KSI_INVALID_ARGUMENT;
	KSI_Utf8String *t = KSI_new(KSI_Utf8String);
	if (t == NULL) return KSI_OUT_OF_MEMORY;
	(void)len;
	t->ctx = ctx; t->ref = 1; t->value = (char *)str; *o = t;   /* content is never the subject: not copied */
	return KSI_OK;
}
void KSI_Utf8String_free(KSI_Utf8String *o) { if (o != NULL && --o->ref == 0) free(o); }
KSI_Utf8String *KSI_Utf8String_ref(KSI_Utf8String *o) { if (o != NULL) o->ref++; return o; }
const char *KSI_Utf8String_cstr(const KSI_Utf8String *o) { return o == NULL ? NULL : o->value; }

void KSI_OctetString_free(KSI_OctetString *o) { if (o != NULL && --o->ref == 0) free(o); }
int KSI_OctetString_extract(const KSI_OctetString *o, const unsigned char **data, size_t *len) {
	if (o == NULL || data == NULL || len == NULL) return KSI_INVALID_ARGUMENT;
	*data = o->data; *len = o->data_len; return KSI_OK;
}

int KSI_Config_new(KSI_CTX *ctx, KSI_Config **t) {
	KSI_Config *c = KSI_new(KSI_Config);
	if (c == NULL) return KSI_OUT_OF_MEMORY;
	c->ref = 1; c->ctx = ctx; c->c13_tag = 0; *t = c; return KSI_OK;
}
void KSI_Config_free(KSI_Config *t) { if (t != NULL && --t->ref == 0) free(t); }
KSI_Config *KSI_Config_ref(KSI_Config *o) { if (o != NULL) o->ref++; return o; }

int KSI_Header_new(KSI_CTX *ctx, KSI_Header **t) {
	KSI_Header *h = KSI_new(KSI_Header);
	if (h == NULL) return KSI_OUT_OF_MEMORY;
	h->ctx = ctx; h->instanceId = NULL; h->messageId = NULL; h->loginId = NULL; *t = h; return KSI_OK;
}
void KSI_Header_free(KSI_Header *t) {
	if (t != NULL) { KSI_Integer_free(t->instanceId); KSI_Integer_free(t->messageId); KSI_Utf8String_free(t->loginId); free(t); }
}
int KSI_Header_setInstanceId(KSI_Header *o, KSI_Integer *v) { if (o == NULL) return KSI_INVALID_ARGUMENT; o->instanceId = v; return KSI_OK; }
int KSI_Header_setMessageId(KSI_Header *o, KSI_Integer *v) { if (o == NULL) return KSI_INVALID_ARGUMENT; o->messageId = v; return KSI_OK; }
int KSI_Header_setLoginId(KSI_Header *o, KSI_Utf8String *v) { if (o == NULL) return KSI_INVALID_ARGUMENT; o->loginId = v; return KSI_OK; }

void KSI_ErrorPdu_free(KSI_ErrorPdu *t) { if (t != NULL) { KSI_Integer_free(t->status); KSI_Utf8String_free(t->errorMsg); free(t); } }
int KSI_ErrorPdu_getStatus(const KSI_ErrorPdu *o, KSI_Integer **status) { if (o == NULL || status == NULL) return KSI_INVALID_ARGUMENT; *status = o->status; return KSI_OK; }
int KSI_ErrorPdu_getErrorMessage(const KSI_ErrorPdu *o, KSI_Utf8String **m) { if (o == NULL || m == NULL) return KSI_INVALID_ARGUMENT; *m = o->errorMsg; return KSI_OK; }

/* symbolic failure of a stubbed layer: KSI_OK or an error that is none of the codes net_async.c itself
 * produces for the events under test (so that an observed cause can be attributed) */
static int c13_stub_status(int fail, int code) {
	if (!fail) return KSI_OK;
	__CPROVER_assume(code != KSI_OK && code != KSI_ASYNC_REQUEST_CACHE_FULL && code != KSI_ASYNC_CONNECTION_CLOSED
			&& code != KSI_NETWORK_RECIEVE_TIMEOUT);
	return code;
}
#ifdef C13_STUBS_NEVER_FAIL      /* C19: the only failures are failed allocations */
#define C13_ND_STATUS(tag) KSI_OK
#else
#define C13_ND_STATUS(tag) c13_stub_status(ND_BOOL(tag##_fails), ND(int, tag##_code))
#endif

#ifdef C13_VERIFY_OK
#define C13_VERIFY_STATUS KSI_OK
#else
#define C13_VERIFY_STATUS C13_ND_STATUS(verify_with_request)
#endif
static char c13_dummy_hash;   /* stands for "a request hash is present" (KSI_DataHash is opaque here) */

/* The two service flavours (aggregator / extender) differ only in names; net_async.c drives both
 * through the same generic functions with function-pointer tables. */
#define C13_DEFINE_FLAVOUR(REQ, RESP, PDU, HASREQ_T, HASREQ_FIELD, HASREQ_GETTER)                                      \
struct REQ##_st { size_t ref; KSI_CTX *ctx; KSI_Integer *requestId; HASREQ_T *HASREQ_FIELD; KSI_Config *config; };     \
struct RESP##_st { size_t ref; KSI_CTX *ctx; KSI_Integer *requestId; KSI_Integer *status; KSI_Utf8String *errorMsg; }; \
struct PDU##_st { KSI_CTX *ctx; KSI_Header *header; REQ *request; RESP *response; KSI_Config *confResponse;            \
	KSI_ErrorPdu *error; int macFails; int macCode; };                                                                  \
int REQ##_new(KSI_CTX *ctx, REQ **t) {                                                                                  \
	REQ *r = KSI_new(REQ);                                                                                \
	if (r == NULL) return KSI_OUT_OF_MEMORY;                                                                            \
	r->ref = 1; r->ctx = ctx; r->requestId = NULL; r->HASREQ_FIELD = NULL; r->config = NULL; *t = r; return KSI_OK;     \
}                                                                                                                       \
void REQ##_free(REQ *t) {                                                                                               \
	if (t != NULL && --t->ref == 0) { KSI_Integer_free(t->requestId); KSI_Config_free(t->config); free(t); }            \
}                                                                                                                       \
REQ *REQ##_ref(REQ *o) { if (o != NULL) o->ref++; return o; }                                                           \
int REQ##_clone(const REQ *from, REQ **to) {                                                                            \
	if (from == NULL || to == NULL) return KSI_INVALID_ARGUMENT;                                                        \
	REQ *r = NULL; int res = REQ##_new(from->ctx, &r);                                                                  \
	if (res != KSI_OK) return res;                                                                                      \
	if (from->requestId != NULL) { res = KSI_Integer_new(from->ctx, from->requestId->value, &r->requestId); if (res != KSI_OK) { REQ##_free(r); return res; } } \
	r->HASREQ_FIELD = from->HASREQ_FIELD;     /* stands for the copied hash / time (never released by the model) */   \
	if (from->config != NULL) { res = KSI_Config_new(from->ctx, &r->config); if (res != KSI_OK) { REQ##_free(r); return res; } } \
	*to = r; return KSI_OK;                                                                                             \
}                                                                                                                       \
int REQ##_getRequestId(const REQ *o, KSI_Integer **v) { if (o == NULL || v == NULL) return KSI_INVALID_ARGUMENT; *v = o->requestId; return KSI_OK; } \
int REQ##_setRequestId(REQ *o, KSI_Integer *v) { if (o == NULL) return KSI_INVALID_ARGUMENT; o->requestId = v; return KSI_OK; } \
int REQ##_getConfig(const REQ *o, KSI_Config **v) { if (o == NULL || v == NULL) return KSI_INVALID_ARGUMENT; *v = o->config; return KSI_OK; } \
int REQ##_setConfig(REQ *o, KSI_Config *v) { if (o == NULL) return KSI_INVALID_ARGUMENT; o->config = v; return KSI_OK; } \
int REQ##_##HASREQ_GETTER(const REQ *o, HASREQ_T **v) { if (o == NULL || v == NULL) return KSI_INVALID_ARGUMENT; *v = o->HASREQ_FIELD; return KSI_OK; } \
int RESP##_new(KSI_CTX *ctx, RESP **t) {                                                                                \
	RESP *r = KSI_new(RESP);                                                                             \
	if (r == NULL) return KSI_OUT_OF_MEMORY;                                                                            \
	r->ref = 1; r->ctx = ctx; r->requestId = NULL; r->status = NULL; r->errorMsg = NULL; *t = r; return KSI_OK;         \
}                                                                                                                       \
void RESP##_free(RESP *t) {                                                                                             \
	if (t != NULL && --t->ref == 0) { KSI_Integer_free(t->requestId); KSI_Integer_free(t->status); KSI_Utf8String_free(t->errorMsg); free(t); } \
}                                                                                                                       \
RESP *RESP##_ref(RESP *o) { if (o != NULL) o->ref++; return o; }                                                        \
int RESP##_getRequestId(const RESP *o, KSI_Integer **v) { if (o == NULL || v == NULL) return KSI_INVALID_ARGUMENT; *v = o->requestId; return KSI_OK; } \
int RESP##_getStatus(const RESP *o, KSI_Integer **v) { if (o == NULL || v == NULL) return KSI_INVALID_ARGUMENT; *v = o->status; return KSI_OK; } \
int RESP##_getErrorMsg(const RESP *o, KSI_Utf8String **v) { if (o == NULL || v == NULL) return KSI_INVALID_ARGUMENT; *v = o->errorMsg; return KSI_OK; } \
/* (M2) response/request cross check: may fail */                                                                       \
static unsigned c13_##RESP##_verify_calls;                                                                              \
static int c13_##RESP##_verify_last;                                                                                    \
static const void *c13_##RESP##_verify_req;                                                                             \
int RESP##_verifyWithRequest(const RESP *resp, const REQ *req) {                                                        \
	if (resp == NULL) return KSI_INVALID_ARGUMENT;                                                                      \
	if (req == NULL) return KSI_INVALID_ARGUMENT;                                                                       \
	c13_##RESP##_verify_calls++;                                                                                        \
	c13_##RESP##_verify_req = req;                                                                                      \
	c13_##RESP##_verify_last = C13_VERIFY_STATUS;                                                                       \
	return c13_##RESP##_verify_last;                                                                                    \
}                                                                                                                       \
void PDU##_free(PDU *t) {                                                                                               \
	if (t != NULL) { KSI_Header_free(t->header); REQ##_free(t->request); RESP##_free(t->response);                      \
		KSI_Config_free(t->confResponse); KSI_ErrorPdu_free(t->error); free(t); }                                       \
}                                                                                                                       \
int PDU##_getResponse(const PDU *o, RESP **v) { if (o == NULL || v == NULL) return KSI_INVALID_ARGUMENT; *v = o->response; return KSI_OK; } \
int PDU##_getConfResponse(const PDU *o, KSI_Config **v) { if (o == NULL || v == NULL) return KSI_INVALID_ARGUMENT; *v = o->confResponse; return KSI_OK; } \
int PDU##_getError(const PDU *o, KSI_ErrorPdu **v) { if (o == NULL || v == NULL) return KSI_INVALID_ARGUMENT; *v = o->error; return KSI_OK; } \
int PDU##_setError(PDU *o, KSI_ErrorPdu *v) { if (o == NULL) return KSI_INVALID_ARGUMENT; o->error = v; return KSI_OK; } \
int PDU##_verify(const PDU *pdu, const char *pass) {                                                                    \
	if (pdu == NULL || pass == NULL) return KSI_INVALID_ARGUMENT;                                                       \
	return pdu->macFails ? pdu->macCode : KSI_OK;                                                                       \
}                                                                                                                       \
/* (M2) parsing: the harness prepares the typed PDU for every raw response (tag = first byte) */                     \
static PDU *c13_##PDU##_table[3];                                                                                       \
static int c13_##PDU##_parse_status[3];                                                                                 \
static unsigned c13_##PDU##_parse_calls[3];                                                                             \
int PDU##_parse(KSI_CTX *ctx, const unsigned char *raw, size_t len, PDU **t) {                                          \
	(void)ctx;                                                                                                          \
	if (raw == NULL || len == 0 || t == NULL) return KSI_INVALID_ARGUMENT;                                              \
	unsigned idx = raw[0];                                                                                              \
	if (idx >= 3) return KSI_INVALID_FORMAT;                                                                            \
	c13_##PDU##_parse_calls[idx]++;                                                                                     \
	if (c13_##PDU##_parse_status[idx] != KSI_OK) return c13_##PDU##_parse_status[idx];                                  \
	*t = c13_##PDU##_table[idx];                                                                                        \
	c13_##PDU##_table[idx] = NULL;                                                                                      \
	return KSI_OK;                                                                                                      \
}                                                                                                                       \
/* (M2) request side */                                                                                                 \
int REQ##_encloseWithHeader(REQ *req, KSI_Header *hdr, const char *key, PDU **pdu) {                                    \
	if (req == NULL || hdr == NULL || key == NULL || pdu == NULL) return KSI_INVALID_ARGUMENT;                          \
	int res = C13_ND_STATUS(enclose);                                                                                   \
	if (res != KSI_OK) return res;                                                                                      \
	PDU *p = KSI_new(PDU);                                                                                \
	if (p == NULL) return KSI_OUT_OF_MEMORY;                                                                            \
	p->ctx = req->ctx; p->header = hdr; p->request = req; p->response = NULL; p->confResponse = NULL; p->error = NULL;  \
	p->macFails = 0; p->macCode = 0;                                                                                    \
	*pdu = p; return KSI_OK;                                                                                            \
}                                                                                                                       \
int PDU##_serialize(const PDU *pdu, unsigned char **raw, size_t *len) {                                                 \
	if (pdu == NULL || raw == NULL || len == NULL) return KSI_INVALID_ARGUMENT;                                         \
	int res = C13_ND_STATUS(serialize);                                                                                 \
	if (res != KSI_OK) return res;                                                                                      \
	unsigned char *b = (unsigned char *)KSI_malloc(4);                                                                  \
	if (b == NULL) return KSI_OUT_OF_MEMORY;                                                                            \
	b[0] = 0; b[1] = 0; b[2] = 0; b[3] = 0;                                                                             \
	*raw = b; *len = 4; return KSI_OK;                                                                                  \
}

C13_DEFINE_FLAVOUR(KSI_AggregationReq, KSI_AggregationResp, KSI_AggregationPdu, KSI_DataHash, requestHash, getRequestHash)
C13_DEFINE_FLAVOUR(KSI_ExtendReq, KSI_ExtendResp, KSI_ExtendPdu, KSI_Integer, aggregationTime, getAggregationTime)

/* (M3) */
/* deterministic in its argument (it is consulted more than once for the same status) */
static int c13_service_error_code;
static int c13_service_error_code_set;
int KSI_convertAggregatorStatusCode(const KSI_Integer *statusCode) {
	if (statusCode == NULL || statusCode->value == 0) return KSI_OK;
	if (!c13_service_error_code_set) {
		c13_service_error_code = ND(int, service_error_code);
		__CPROVER_assume(c13_service_error_code != KSI_OK && c13_service_error_code != KSI_ASYNC_CONNECTION_CLOSED && c13_service_error_code != KSI_NETWORK_RECIEVE_TIMEOUT);
		c13_service_error_code_set = 1;
	}
	return c13_service_error_code;
}
int KSI_convertExtenderStatusCode(const KSI_Integer *statusCode) { return KSI_convertAggregatorStatusCode(statusCode); }

#endif
