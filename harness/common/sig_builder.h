/* sig_builder.h - typed KSI_Signature / KSI_VerificationContext builder for rule-level harnesses
 * (C01, C02; meant to be reused by C04, C08, C11).
 *
 * The objects are built DIRECTLY as the structs the parser would produce (no TLV parsing): the SHAPE is a
 * compile-time constant of the harness instance (macros below, set with -D in plan.json "instances"), every
 * VALUE is symbolic (ND) and is also recorded in the plain struct `SB` so that an oracle can be written over
 * the raw values without going through libksi getters.
 *
 * Usage (harness TU):
 *     #include "verif.h"
 *     #include "internal.h"  ... impl headers are pulled in here ...
 *     #include "ctx.h"
 *     #include "hash_model.h"
 *     #include "verif_post.h"
 *     #include "types_base.c"          <- REQUIRED before this header: struct KSI_Integer_st / KSI_OctetString_st are
 *                                         private to types_base.c (so do NOT list "types_base" in "tus")
 *     #include "sig_builder.h"
 *     void harness(void) { VERIF_ctx_init(); VERIF_hm_init(0); sb_build(VERIF_ctx); ... rule(&sb_vc, &result) ... }
 *   plan.json: "env": ["ctx","hash_model","list_wrap","fmt_stub"], "tus": ["hashchain","hash","signature",...],
 *              "object_bits": 12;  add "tlv_element","fast_tlv" and -DSB_WITH_METADATA=1 when a link kind is 2.
 *
 * Shape macros (all optional; defaults = one chain with one imprint link, nothing else):
 *   SB_NCHAINS           number of aggregation chains, 1..3
 *   SB_NLINKS            {n0,n1,n2}        links per chain, 0..3          (parser guarantees >= 1)
 *   SB_KIND              {{k,k,k},{k,k,k},{k,k,k}}  sibling kind per link: 0 imprint, 1 legacy id (29 B), 2 metadata
 *   SB_LCNULL            {{0,0,0},...}     1 = the link has no level-correction element (KSI_Integer* NULL)
 *   SB_SIBALG            {{a,a,a},...}     algorithm spec of an imprint sibling (see "algorithm spec")
 *   SB_MDLEN             {{n,n,n},...}     metadata payload = client-id element (tag 01) with n value bytes; n <= 8
 *   SB_IDXLEN            {l0,l1,l2}        chain index length per chain, 0..4     (parser guarantees >= 1)
 *   SB_INALG             {a0,a1,a2}        algorithm spec of each chain's input hash
 *   SB_AGGRALG           {h0,h1,h2}        hash_id of the chain (concrete, the algorithm the chain is hashed with)
 *   SB_AGGRALG_HI        1: hash_id = (symbolic 32 bit) << 32 | SB_AGGRALG  (ids beyond 32 bit);  default 0
 *   SB_HAS_CAL           calendar chain present;  SB_CAL_NLINKS 0..4;  SB_CAL_HAS_AGGRTIME 0/1;
 *   SB_CAL_INALG         algorithm spec of the calendar input hash;  SB_CAL_SIBALG {a,a,a,a} per link
 *   SB_CAL_DIRS          {d,d,d,d} calendar link direction: -1 symbolic (default), 0 right link, 1 left link (concrete
 *                        directions are needed when the chain is AGGREGATED with siblings of different digest lengths:
 *                        a calendar step is hashed with the algorithm of its right operand)
 *   SB_HAS_PUB / SB_HAS_AUTH   publication record / calendar auth record present;  SB_PUBALG algorithm spec of its imprint
 *   SB_HAS_RFC           RFC3161 record present;  SB_RFC_IDXLEN 0..4;  SB_RFC_INALG spec;  SB_RFC_PRELEN {tstPre,tstSuf,sigPre,sigSuf} 0..2
 *   SB_RFC_ALGS          {tstInfoAlgo, sigAttrAlgo}: >= 0 concrete id (any value up to 2^63-1), -1 = fully symbolic 64-bit value
 *   SB_HAS_DOC           context carries a document hash;  SB_DOCALG its algorithm spec
 * "algorithm spec": a >= 0  = that concrete algorithm id (needed wherever the imprint's algorithm selects a hasher);
 *                   a <  0  = symbolic algorithm id among all ids libksi accepts with digest length -a
 *                             (-20: SHA-1/RIPEMD-160, -28: SHA3-224, -32: SHA2-256/SHA3-256/SM3, -48, -64).
 * Values that are always symbolic: all times, chain indices, level corrections, link directions, docAggrLevel
 * (64 bit), all digest / legacy-id / metadata-value / prefix / suffix bytes.
 *
 * Representation invariants established here are exactly the constructors' postconditions:
 * KSI_DataHash has a valid algorithm id and imprint_length = 1 + its digest length (hash.c KSI_DataHash_fromDigest);
 * a link has exactly one of imprint / legacy id / metadata (tlv_template.c KSI_HashChainLink);
 * mandatory template fields are non-NULL; an empty octet string has data == NULL (types_base.c).
 * KSI_Integer objects are private heap objects even for values < 256, where libksi shares pool entries; the
 * only consumers (KSI_Integer_equals/compare/getUInt64) cannot tell the difference. */
#ifndef VERIF_SIG_BUILDER_H_
#define VERIF_SIG_BUILDER_H_

#include "impl/hash_impl.h"
#include "impl/hashchain_impl.h"
#include "impl/signature_impl.h"
#include "impl/publicationsfile_impl.h"
#include "impl/policy_impl.h"
#include "impl/meta_data_element_impl.h"
#include "hashchain.h"
#include "tlv_element.h"

#define SB_MAXCH 3
#define SB_MAXLN 3
#define SB_MAXIDX 4
#define SB_MAXCAL 4
#define SB_MDMAX 8

#ifndef SB_NCHAINS
#define SB_NCHAINS 1
#endif
#ifndef SB_NLINKS
#define SB_NLINKS {1, 1, 1}
#endif
#ifndef SB_KIND
#define SB_KIND {{0, 0, 0}, {0, 0, 0}, {0, 0, 0}}
#endif
#ifndef SB_LCNULL
#define SB_LCNULL {{0, 0, 0}, {0, 0, 0}, {0, 0, 0}}
#endif
#ifndef SB_SIBALG
#define SB_SIBALG {{-20, -20, -20}, {-20, -20, -20}, {-20, -20, -20}}
#endif
#ifndef SB_MDLEN
#define SB_MDLEN {{3, 3, 3}, {3, 3, 3}, {3, 3, 3}}
#endif
#ifndef SB_IDXLEN
#define SB_IDXLEN {1, 1, 1}
#endif
#ifndef SB_INALG
#define SB_INALG {-20, -20, -20}
#endif
#ifndef SB_AGGRALG
#define SB_AGGRALG {0, 0, 0}
#endif
#ifndef SB_AGGRALG_HI
#define SB_AGGRALG_HI 0
#endif
#ifndef SB_HAS_CAL
#define SB_HAS_CAL 0
#endif
#ifndef SB_CAL_NLINKS
#define SB_CAL_NLINKS 1
#endif
#ifndef SB_CAL_HAS_AGGRTIME
#define SB_CAL_HAS_AGGRTIME 1
#endif
#ifndef SB_CAL_INALG
#define SB_CAL_INALG 0
#endif
#ifndef SB_CAL_SIBALG
#define SB_CAL_SIBALG {0, 0, 0, 0}
#endif
#ifndef SB_CAL_DIRS
#define SB_CAL_DIRS {-1, -1, -1, -1}
#endif
#ifndef SB_HAS_PUB
#define SB_HAS_PUB 0
#endif
#ifndef SB_HAS_AUTH
#define SB_HAS_AUTH 0
#endif
#ifndef SB_PUBALG
#define SB_PUBALG -20
#endif
#ifndef SB_HAS_RFC
#define SB_HAS_RFC 0
#endif
#ifndef SB_RFC_IDXLEN
#define SB_RFC_IDXLEN 1
#endif
#ifndef SB_RFC_INALG
#define SB_RFC_INALG -20
#endif
#ifndef SB_RFC_PRELEN
#define SB_RFC_PRELEN {1, 1, 1, 1}
#endif
#ifndef SB_RFC_ALGS
#define SB_RFC_ALGS {0, 0}
#endif
#ifndef SB_HAS_DOC
#define SB_HAS_DOC 0
#endif
#ifndef SB_DOCALG
#define SB_DOCALG -20
#endif
#ifndef SB_WITH_METADATA
#define SB_WITH_METADATA 0
#endif

static const unsigned sb_nlinks[SB_MAXCH] = SB_NLINKS;
static const unsigned sb_kind[SB_MAXCH][SB_MAXLN] = SB_KIND;
static const unsigned sb_lcnull[SB_MAXCH][SB_MAXLN] = SB_LCNULL;
static const int sb_sibalg[SB_MAXCH][SB_MAXLN] = SB_SIBALG;
static const unsigned sb_mdlen[SB_MAXCH][SB_MAXLN] = SB_MDLEN;
static const unsigned sb_idxlen[SB_MAXCH] = SB_IDXLEN;
static const int sb_inalg[SB_MAXCH] = SB_INALG;
static const int sb_aggralg[SB_MAXCH] = SB_AGGRALG;
static const int sb_cal_sibalg[SB_MAXCAL] = SB_CAL_SIBALG;
static const int sb_cal_dirs[SB_MAXCAL] = SB_CAL_DIRS;
static const unsigned sb_rfc_prelen[4] = SB_RFC_PRELEN;
static const long long sb_rfc_algs[2] = SB_RFC_ALGS;

/* ---- the raw values (for oracles) ---- */
struct sb_hash_v { u8 imp[65]; unsigned len; };            /* imprint bytes (imp[0] = algorithm id), len = imprint length */
struct sb_link_v { _Bool isLeft; u64 lc; u8 sib[65]; unsigned siblen; };   /* sib = the bytes that are hashed for the sibling */
struct sb_chain_v { u64 aggrTime; u64 hashId; u64 idx[SB_MAXIDX]; struct sb_hash_v in; struct sb_link_v link[SB_MAXLN]; };
struct sb_vals {
	struct sb_chain_v ch[SB_MAXCH];
	struct { u64 pubTime; u64 aggrTime; struct sb_hash_v in; struct { _Bool isLeft; struct sb_hash_v sib; } link[SB_MAXCAL]; } cal;
	struct { u64 time; struct sb_hash_v imp; } pub, auth;
	struct { u64 aggrTime; u64 idx[SB_MAXIDX]; struct sb_hash_v in; u64 tstAlgo, sigAlgo; u8 pre[4][2]; } rfc;
	struct sb_hash_v doc;
	u64 docLevel;
};
static struct sb_vals SB;

/* ---- the typed objects ---- */
static KSI_Signature *sb_sig;
static KSI_VerificationContext sb_vc;
static VerificationTempData sb_tmp;
static KSI_AggregationHashChain *sb_chain[SB_MAXCH];
static KSI_HashChainLink *sb_link[SB_MAXCH][SB_MAXLN];
static KSI_CalendarHashChain *sb_cal;
static KSI_HashChainLink *sb_cal_link[SB_MAXCAL];
static u8 sb_md_raw[SB_MAXCH][SB_MAXLN][4 + SB_MDMAX];

/* digest length of every algorithm id libksi accepts in an imprint (KSI format: hash algorithm registry) */
static unsigned sb_alg_len(unsigned alg) {
	switch (alg) {
		case 0x00: return 20;  /* SHA-1 */
		case 0x01: return 32;  /* SHA2-256 */
		case 0x02: return 20;  /* RIPEMD-160 */
		case 0x04: return 48;  /* SHA2-384 */
		case 0x05: return 64;  /* SHA2-512 */
		case 0x07: return 28;  /* SHA3-224 */
		case 0x08: return 32;  /* SHA3-256 */
		case 0x09: return 48;  /* SHA3-384 */
		case 0x0a: return 64;  /* SHA3-512 */
		case 0x0b: return 32;  /* SM3 */
		default: return 0;
	}
}

static KSI_Integer *sb_mk_int(u64 v) {
	KSI_Integer *o = (KSI_Integer *)malloc(sizeof(KSI_Integer));
	ASSUME(o != NULL);
	o->ref = 1; o->value = v;
	return o;
}

static KSI_DataHash *sb_mk_hash(KSI_CTX *ctx, int spec, struct sb_hash_v *v) {
	const unsigned dl = spec >= 0 ? sb_alg_len((unsigned)spec) : (unsigned)(-spec);
	KSI_DataHash *h = (KSI_DataHash *)malloc(sizeof(KSI_DataHash));
	ASSUME(h != NULL);
	memset(h, 0, sizeof(*h));
	h->ctx = ctx; h->ref = 1; h->imprint_length = dl + 1;
	u8 a;
	if (spec >= 0) a = (u8)spec; else { a = ND(u8, sb_alg); ASSUME(sb_alg_len(a) == dl); }
	h->imprint[0] = a; v->imp[0] = a; v->len = dl + 1;
	for (unsigned i = 0; i < 64; i++) {
		if (i < dl) { u8 b = ND(u8, sb_digest); h->imprint[1 + i] = b; v->imp[1 + i] = b; } else v->imp[1 + i] = 0;
	}
	return h;
}

static KSI_OctetString *sb_mk_octets(KSI_CTX *ctx, unsigned len, u8 *v) {
	KSI_OctetString *o = (KSI_OctetString *)malloc(sizeof(KSI_OctetString));
	ASSUME(o != NULL);
	o->ctx = ctx; o->ref = 1; o->data_len = len; o->data = NULL;
	if (len > 0) {
		o->data = (unsigned char *)malloc(len);
		ASSUME(o->data != NULL);
		for (unsigned i = 0; i < len; i++) { u8 b = ND(u8, sb_octet); o->data[i] = b; v[i] = b; }
	}
	return o;
}

static KSI_LIST(KSI_Integer) *sb_mk_intlist(unsigned n, u64 *v) {
	KSI_LIST(KSI_Integer) *l = NULL;
	int res = KSI_IntegerList_new(&l);
	ASSUME(res == KSI_OK && l != NULL);
	for (unsigned i = 0; i < SB_MAXIDX; i++) {
		if (i < n) {
			v[i] = ND(u64, sb_idx);
			res = KSI_IntegerList_append(l, sb_mk_int(v[i]));
			ASSUME(res == KSI_OK);
		}
	}
	return l;
}

static KSI_HashChainLink *sb_mk_link(KSI_CTX *ctx, unsigned kind, int lcnull, int sibalg, unsigned mdlen, u8 *mdraw, struct sb_link_v *v) {
	KSI_HashChainLink *lk = (KSI_HashChainLink *)malloc(sizeof(KSI_HashChainLink));
	ASSUME(lk != NULL);
	lk->ctx = ctx; lk->legacyId = NULL; lk->metaData = NULL; lk->imprint = NULL; lk->levelCorrection = NULL;
	v->isLeft = ND_BOOL(sb_isleft);
	lk->isLeft = v->isLeft;
	if (lcnull) v->lc = 0; else { v->lc = ND(u64, sb_lc); lk->levelCorrection = sb_mk_int(v->lc); }
	if (kind == 0) {
		struct sb_hash_v hv;
		lk->imprint = sb_mk_hash(ctx, sibalg, &hv);
		for (unsigned i = 0; i < 65; i++) v->sib[i] = hv.imp[i];
		v->siblen = hv.len;
	} else if (kind == 1) {
		lk->legacyId = sb_mk_octets(ctx, 29, v->sib);
		v->siblen = 29;
	} else {
#if SB_WITH_METADATA
		KSI_MetaDataElement *md = (KSI_MetaDataElement *)malloc(sizeof(KSI_MetaDataElement));
		ASSUME(md != NULL);
		memset(md, 0, sizeof(*md)); md->ctx = ctx; md->ref = 1;
		/* 04 <len> { 01 <mdlen> <bytes> } : one client-id element; hashed bytes = the payload of element 04 */
		mdraw[0] = 0x04; mdraw[1] = (u8)(2 + mdlen); mdraw[2] = 0x01; mdraw[3] = (u8)mdlen;
		v->sib[0] = 0x01; v->sib[1] = (u8)mdlen;
		for (unsigned i = 0; i < SB_MDMAX; i++) if (i < mdlen) { u8 b = ND(u8, sb_md); mdraw[4 + i] = b; v->sib[2 + i] = b; }
		v->siblen = 2 + mdlen;
		int res = KSI_TlvElement_parse(mdraw, 4 + mdlen, &md->impl);
		ASSUME(res == KSI_OK);
		lk->metaData = md;
#else
		(void)mdlen; (void)mdraw;
		__CPROVER_assert(0, "sig_builder: metadata link needs -DSB_WITH_METADATA=1");
#endif
	}
	return lk;
}

static void sb_build(KSI_CTX *ctx) {
	int res;
	KSI_Signature *sig = (KSI_Signature *)malloc(sizeof(KSI_Signature));
	ASSUME(sig != NULL);
	memset(sig, 0, sizeof(*sig));
	sig->ctx = ctx; sig->ref = 1;
	sig->verificationResult.ctx = ctx;

	res = KSI_AggregationHashChainList_new(&sig->aggregationChainList);
	ASSUME(res == KSI_OK);
	for (unsigned c = 0; c < SB_MAXCH; c++) {
		if (c < SB_NCHAINS) {
			KSI_AggregationHashChain *ch = (KSI_AggregationHashChain *)malloc(sizeof(KSI_AggregationHashChain));
			ASSUME(ch != NULL);
			ch->ctx = ctx; ch->ref = 1; ch->inputData = NULL; ch->outputHash = NULL;
			ch->outputLevel = -1; ch->inputLevel = 0x1ff;           /* as KSI_AggregationHashChain_new */
			SB.ch[c].aggrTime = ND(u64, sb_aggrtime);
			ch->aggregationTime = sb_mk_int(SB.ch[c].aggrTime);
#if SB_AGGRALG_HI
			SB.ch[c].hashId = ((u64)ND(unsigned, sb_hashid_hi) << 32) | (u64)(unsigned)sb_aggralg[c];
#else
			SB.ch[c].hashId = (u64)(unsigned)sb_aggralg[c];
#endif
			ch->aggrHashId = sb_mk_int(SB.ch[c].hashId);
			ch->chainIndex = sb_mk_intlist(sb_idxlen[c], SB.ch[c].idx);
			ch->inputHash = sb_mk_hash(ctx, sb_inalg[c], &SB.ch[c].in);
			res = KSI_HashChainLinkList_new(&ch->chain);
			ASSUME(res == KSI_OK);
			for (unsigned l = 0; l < SB_MAXLN; l++) {
				if (l < sb_nlinks[c]) {
					sb_link[c][l] = sb_mk_link(ctx, sb_kind[c][l], (int)sb_lcnull[c][l], sb_sibalg[c][l], sb_mdlen[c][l], sb_md_raw[c][l], &SB.ch[c].link[l]);
					res = KSI_HashChainLinkList_append(ch->chain, sb_link[c][l]);
					ASSUME(res == KSI_OK);
				}
			}
			sb_chain[c] = ch;
			res = KSI_AggregationHashChainList_append(sig->aggregationChainList, ch);
			ASSUME(res == KSI_OK);
		}
	}

#if SB_HAS_CAL
	{
		KSI_CalendarHashChain *cal = (KSI_CalendarHashChain *)malloc(sizeof(KSI_CalendarHashChain));
		ASSUME(cal != NULL);
		cal->ctx = ctx; cal->ref = 1; cal->outputHash = NULL; cal->aggregationTime = NULL;
		SB.cal.pubTime = ND(u64, sb_cal_pubtime);
		cal->publicationTime = sb_mk_int(SB.cal.pubTime);
#if SB_CAL_HAS_AGGRTIME
		SB.cal.aggrTime = ND(u64, sb_cal_aggrtime);
		cal->aggregationTime = sb_mk_int(SB.cal.aggrTime);
#endif
		cal->inputHash = sb_mk_hash(ctx, SB_CAL_INALG, &SB.cal.in);
		res = KSI_HashChainLinkList_new(&cal->hashChain);
		ASSUME(res == KSI_OK);
		for (unsigned l = 0; l < SB_MAXCAL; l++) {
			if (l < SB_CAL_NLINKS) {
				/* calendar links carry an imprint only (hashchain.c KSI_CalendarHashChainLink_fromTlv) */
				KSI_HashChainLink *lk = (KSI_HashChainLink *)malloc(sizeof(KSI_HashChainLink));
				ASSUME(lk != NULL);
				lk->ctx = ctx; lk->legacyId = NULL; lk->metaData = NULL; lk->levelCorrection = NULL;
				if (sb_cal_dirs[l] < 0) SB.cal.link[l].isLeft = ND_BOOL(sb_cal_isleft); else SB.cal.link[l].isLeft = (sb_cal_dirs[l] != 0);
				lk->isLeft = SB.cal.link[l].isLeft;
				lk->imprint = sb_mk_hash(ctx, sb_cal_sibalg[l], &SB.cal.link[l].sib);
				sb_cal_link[l] = lk;
				res = KSI_HashChainLinkList_append(cal->hashChain, lk);
				ASSUME(res == KSI_OK);
			}
		}
		sb_cal = cal;
		sig->calendarChain = cal;
	}
#endif
#if SB_HAS_PUB
	{
		KSI_PublicationRecord *pr = (KSI_PublicationRecord *)malloc(sizeof(KSI_PublicationRecord));
		KSI_PublicationData *pd = (KSI_PublicationData *)malloc(sizeof(KSI_PublicationData));
		ASSUME(pr != NULL && pd != NULL);
		pr->ctx = ctx; pr->ref = 1; pr->publicationRef = NULL; pr->repositoryUriList = NULL; pr->publishedData = pd;
		pd->ctx = ctx; pd->ref = 1; pd->baseTlv = NULL;
		SB.pub.time = ND(u64, sb_pub_time);
		pd->time = sb_mk_int(SB.pub.time);
		pd->imprint = sb_mk_hash(ctx, SB_PUBALG, &SB.pub.imp);
		sig->publication = pr;
	}
#endif
#if SB_HAS_AUTH
	{
		KSI_CalendarAuthRec *ar = (KSI_CalendarAuthRec *)malloc(sizeof(KSI_CalendarAuthRec));
		KSI_PublicationData *pd = (KSI_PublicationData *)malloc(sizeof(KSI_PublicationData));
		ASSUME(ar != NULL && pd != NULL);
		ar->ctx = ctx; ar->ref = 1; ar->pubData = pd; ar->signatureData = NULL;   /* PKI data: not read by internal rules */
		pd->ctx = ctx; pd->ref = 1; pd->baseTlv = NULL;
		SB.auth.time = ND(u64, sb_auth_time);
		pd->time = sb_mk_int(SB.auth.time);
		pd->imprint = sb_mk_hash(ctx, SB_PUBALG, &SB.auth.imp);
		sig->calendarAuthRec = ar;
	}
#endif
#if SB_HAS_RFC
	{
		KSI_RFC3161 *rfc = (KSI_RFC3161 *)malloc(sizeof(KSI_RFC3161));
		ASSUME(rfc != NULL);
		rfc->ctx = ctx; rfc->ref = 1;
		SB.rfc.aggrTime = ND(u64, sb_rfc_aggrtime);
		rfc->aggregationTime = sb_mk_int(SB.rfc.aggrTime);
		rfc->chainIndex = sb_mk_intlist(SB_RFC_IDXLEN, SB.rfc.idx);
		rfc->inputHash = sb_mk_hash(ctx, SB_RFC_INALG, &SB.rfc.in);
		rfc->tstInfoPrefix = sb_mk_octets(ctx, sb_rfc_prelen[0], SB.rfc.pre[0]);
		rfc->tstInfoSuffix = sb_mk_octets(ctx, sb_rfc_prelen[1], SB.rfc.pre[1]);
		rfc->sigAttrPrefix = sb_mk_octets(ctx, sb_rfc_prelen[2], SB.rfc.pre[2]);
		rfc->sigAttrSuffix = sb_mk_octets(ctx, sb_rfc_prelen[3], SB.rfc.pre[3]);
		SB.rfc.tstAlgo = sb_rfc_algs[0] >= 0 ? (u64)sb_rfc_algs[0] : ND(u64, sb_rfc_tstalgo);
		SB.rfc.sigAlgo = sb_rfc_algs[1] >= 0 ? (u64)sb_rfc_algs[1] : ND(u64, sb_rfc_sigalgo);
		rfc->tstInfoAlgo = sb_mk_int(SB.rfc.tstAlgo);
		rfc->sigAttrAlgo = sb_mk_int(SB.rfc.sigAlgo);
		sig->rfc3161 = rfc;
	}
#endif
	sb_sig = sig;

	/* verification context as KSI_VerificationContext_init + caller supplied inputs; tempData as KSI_SignatureVerifier_verify */
	memset(&sb_tmp, 0, sizeof(sb_tmp));
	sb_vc.ctx = ctx;
	sb_vc.signature = sig;
	sb_vc.extendingAllowed = 0;
	SB.docLevel = ND(u64, sb_doclevel);
	sb_vc.docAggrLevel = SB.docLevel;
	sb_vc.documentHash = NULL;
#if SB_HAS_DOC
	sb_vc.documentHash = sb_mk_hash(ctx, SB_DOCALG, &SB.doc);
#endif
	sb_vc.userPublication = NULL;
	sb_vc.userPublicationsFile = NULL;
	sb_vc.tempData = &sb_tmp;
}

/* fresh result object as Rule_verify hands it to a rule (policy.c:92-94) */
static void sb_result_init(KSI_RuleVerificationResult *r) {
	memset(r, 0, sizeof(*r));
	r->resultCode = KSI_VER_RES_NA;
	r->errorCode = KSI_VER_ERR_GEN_2;
}

/* imprint equality over raw values: same length and same bytes (algorithm id included) */
static int sb_hash_eq(const struct sb_hash_v *a, const struct sb_hash_v *b) {
	if (a->len != b->len) return 0;
	int eq = 1;
	for (unsigned i = 0; i < 65; i++) if (i < a->len && a->imp[i] != b->imp[i]) eq = 0;
	return eq;
}

#endif
