/* C08 H-4: the baseTlv surgery done when a signature is extended.  Real code: replaceCalendarChain,
 * removeCalAuthAndPublication, KSI_SignatureBuilder_applyCalendarHashChain, KSI_SignatureBuilder_open (signature_builder.c,
 * included), KSI_Signature_replacePublicationRecord (signature.c), tlv.c (KSI_TLV_new / getNestedList / appendNestedTlv /
 * replaceNestedTlv / free), list.c.  KSI_TlvTemplate_construct (filling the new element from the typed object, C10) is a
 * stub whose outcome is fixed per instance (success, or failure of the first / second call).
 * The signature element has NCH children with SYMBOLIC tags (13 bit); what is fixed per instance is NCH and whether the
 * signature has a calendar chain (HAS_CAL).  Representation invariant assumed (established by the parser's template):
 * the element has a 0x802 child exactly when the signature object has a calendar chain, and at most one.
 *   MODE 0  KSI_SignatureBuilder_applyCalendarHashChain(builder, newChain)
 *   MODE 1  KSI_Signature_replacePublicationRecord(sig, pubRec)
 *   MODE 2  both in sequence (what KSI_Signature_extendWithPolicy does)
 * After success: every child that is not 0x802/0x803/0x805 (in particular every aggregation chain 0x801) is the SAME object
 * at the same relative position; there is exactly one 0x802 child - a new element at the old one's position (or appended)
 * [MODE 0/2]; there is no 0x805 and no old 0x803; the only 0x803 is the new one, appended last [MODE 1/2]; the signature
 * object points to the new chain / the supplied publication record and has no calendar authentication record.
 * After a failure in the construction step nothing in the element has changed [MODE 0]. */
#include "verif.h"
#include "internal.h"
#include "tlv.h"
#include "tlv_template.h"
#include "hashchain.h"
#include "net.h"
#include "signature.h"
#include "impl/signature_impl.h"
#include "impl/signature_builder_impl.h"
#include "impl/hashchain_impl.h"
#include "impl/publicationsfile_impl.h"
#include "ctx.h"
#include "verif_post.h"

#ifndef NCH
#define NCH 3
#endif
#ifndef HAS_CAL
#define HAS_CAL 1
#endif
#ifndef MODE
#define MODE 0
#endif
#ifndef CONSTRUCT_FAIL_AT
#define CONSTRUCT_FAIL_AT -1
#endif

static int st_construct[2]; static unsigned n_construct; static const void *construct_payload[2];
int KSI_TlvTemplate_construct(KSI_CTX *ctx, KSI_TLV *tlv, const void *payload, const KSI_TlvTemplate *tmpl) {
	(void)ctx; (void)tlv; (void)tmpl;
	unsigned k = n_construct < 2 ? n_construct : 1;
	n_construct++;
	construct_payload[k] = payload;
	/* concrete outcome per instance (CONSTRUCT_FAIL_AT = index of the call that fails, -1 = none): a symbolic outcome makes the list
	 * length symbolic after the merge of the success and failure paths inside replaceCalendarChain (measured: minutes instead of seconds) */
	st_construct[k] = ((int)k == CONSTRUCT_FAIL_AT) ? KSI_INVALID_FORMAT : KSI_OK;
	return st_construct[k];
}
static unsigned pub_freed; static KSI_PublicationRecord old_pub, new_pub;
void KSI_PublicationRecord_free(KSI_PublicationRecord *p) { if (p != NULL) pub_freed++; }
void KSI_PublicationData_free(KSI_PublicationData *p) { __CPROVER_assert(p == NULL, "CHECK C08.H4 unlinked destructor KSI_PublicationData_free only called with NULL"); }
void KSI_PKISignedData_free(KSI_PKISignedData *p) { __CPROVER_assert(p == NULL, "CHECK C08.H4 unlinked destructor KSI_PKISignedData_free only called with NULL"); }
void KSI_PublicationsFile_free(KSI_PublicationsFile *p) { __CPROVER_assert(p == NULL, "CHECK C08.H4 unlinked destructor KSI_PublicationsFile_free only called with NULL"); }

#include "signature_builder.c"

static int is_dropped(unsigned t, int drop802) { return t == 0x803 || t == 0x805 || (drop802 && t == 0x802); }

void harness(void) {
	VERIF_ctx_init(); KSI_CTX *ctx = VERIF_ctx;
	int res;
	KSI_SignatureBuilder *b = NULL;
	res = KSI_SignatureBuilder_open(ctx, &b); ASSUME(res == KSI_OK);
	KSI_Signature *sig = b->sig;

	unsigned t[NCH]; KSI_TLV *orig[NCH]; unsigned n802 = 0;
	KSI_TLV *base = NULL;
	res = KSI_TLV_new(ctx, 0x800, 0, 0, &base); ASSUME(res == KSI_OK);
	for (unsigned i = 0; i < NCH; i++) {
		t[i] = ND(unsigned, child_tag); ASSUME(t[i] <= 0x1fff);
		if (t[i] == 0x802) n802++;
		res = KSI_TLV_new(ctx, t[i], 0, 0, &orig[i]); ASSUME(res == KSI_OK);
		res = KSI_TLV_appendNestedTlv(base, orig[i]); ASSUME(res == KSI_OK);
	}
	ASSUME(n802 == HAS_CAL);   /* representation invariant, see above */
	sig->baseTlv = base;
	KSI_CalendarHashChain *oldcal = NULL, *newcal = NULL;
#if HAS_CAL
	res = KSI_CalendarHashChain_new(ctx, &oldcal); ASSUME(res == KSI_OK);
	sig->calendarChain = oldcal;
#endif
	res = KSI_CalendarHashChain_new(ctx, &newcal); ASSUME(res == KSI_OK);
	/* old trust anchor objects, as a parsed signature would have them */
	int has_oldpub = ND_BOOL(has_old_pub), has_oldauth = ND_BOOL(has_old_auth);
	old_pub.ctx = ctx; old_pub.ref = 1; new_pub.ctx = ctx; new_pub.ref = 1;
	if (has_oldpub) sig->publication = &old_pub;
	if (has_oldauth) {
		KSI_CalendarAuthRec *ar = malloc(sizeof(*ar)); ASSUME(ar != NULL);
		ar->ctx = ctx; ar->ref = 1; ar->pubData = NULL; ar->signatureData = NULL;
		sig->calendarAuthRec = ar;
	}

	int res_apply = KSI_OK, res_pub = KSI_OK;
#if MODE == 0 || MODE == 2
	res_apply = KSI_SignatureBuilder_applyCalendarHashChain(b, newcal);
#endif
#if MODE == 1 || MODE == 2
	if (res_apply == KSI_OK) res_pub = KSI_Signature_replacePublicationRecord(sig, &new_pub);
#endif

	KSI_LIST(KSI_TLV) *lst = NULL;
	res = KSI_TLV_getNestedList(base, &lst); ASSUME(res == KSI_OK);
	size_t len = KSI_TLVList_length(lst);
	const int did_apply = (MODE == 0 || MODE == 2), did_pub = (MODE == 1 || MODE == 2);

	if (res_apply == KSI_OK && res_pub == KSI_OK) {
		/* expected sequence: survivors keep identity and order; 0x802 replaced in place (or appended); new 0x803 last */
		unsigned pos = 0; int kept_ok = 1, cal_ok = 1; unsigned cal_seen = 0;
		for (unsigned i = 0; i < NCH; i++) {
			KSI_TLV *e = NULL;
			if (did_apply && t[i] == 0x802) {
				/* the old calendar element's place is taken by a new element with tag 0x802 */
				if (KSI_TLVList_elementAt(lst, pos, &e) != KSI_OK || e == NULL || e == orig[i] || KSI_TLV_getTag(e) != 0x802) cal_ok = 0;
				cal_seen++; pos++;
			} else if (!is_dropped(t[i], 0)) {
				if (KSI_TLVList_elementAt(lst, pos, &e) != KSI_OK || e != orig[i]) kept_ok = 0;
				pos++;
			}
		}
#if !HAS_CAL
		if (did_apply) {
			KSI_TLV *e = NULL;
			if (KSI_TLVList_elementAt(lst, pos, &e) != KSI_OK || e == NULL || KSI_TLV_getTag(e) != 0x802) cal_ok = 0;
			for (unsigned i = 0; i < NCH; i++) if (e == orig[i]) cal_ok = 0;
			cal_seen++; pos++;
		}
#endif
		CHECK(kept_ok, "C08.H4 every child other than 0x802/0x803/0x805 - in particular every aggregation chain 0x801 - is the same object at the same relative position");
		if (did_apply) {
			CHECK(cal_ok && cal_seen == 1, "C08.H4 exactly one 0x802 child: a new element in the old one's place, or appended when there was none");
			CHECK(n_construct >= 1 && construct_payload[0] == newcal, "C08.H4 the new 0x802 element is built from the supplied calendar chain");
			CHECK(sig->calendarChain == newcal && newcal->ref == 2, "C08.H4 the signature object holds the supplied calendar chain (one more reference)");
		}
		if (did_pub) {
			KSI_TLV *e = NULL; int pub_ok = 1;
			if (KSI_TLVList_elementAt(lst, pos, &e) != KSI_OK || e == NULL || KSI_TLV_getTag(e) != 0x803) pub_ok = 0;
			for (unsigned i = 0; i < NCH; i++) if (e == orig[i]) pub_ok = 0;
			pos++;
			CHECK(pub_ok, "C08.H4 the only 0x803 child is a new element appended last");
			CHECK(construct_payload[did_apply ? 1 : 0] == &new_pub && sig->publication == &new_pub, "C08.H4 the new 0x803 element is built from the supplied publication record, which the signature object now holds");
		} else {
			CHECK(sig->publication == NULL, "C08.H4 no publication record is left on the signature object");
		}
		CHECK(len == pos, "C08.H4 no other child: no old 0x803, no 0x805, nothing duplicated");
		CHECK(sig->calendarAuthRec == NULL, "C08.H4 no calendar authentication record is left on the signature object");
		CHECK(pub_freed == (has_oldpub ? 1u : 0u), "C08.H4 an old publication record object is released exactly once");
#if CONSTRUCT_FAIL_AT < 0
#if NCH >= 2 + HAS_CAL
		if (t[0] == 0x801 && t[NCH - 1] == 0x801) WITNESS_POINT("aggregation chains kept first and last");
#endif
#if NCH >= 1 + HAS_CAL
		if (t[0] == 0x805 && has_oldauth) WITNESS_POINT("calendar authentication record removed");
		if (t[NCH - 1] == 0x803 && has_oldpub) WITNESS_POINT("old publication record removed");
#endif
#if NCH >= 3 + HAS_CAL
		if (t[0] == 0x803 && t[1] == 0x805 && t[2] == 0x803) WITNESS_POINT("several anchor elements removed in one pass");
#endif
#if NCH == 0
		WITNESS_POINT("empty signature element handled");
#endif
#if NCH == 1 && HAS_CAL
		WITNESS_POINT("signature element with only a calendar chain handled");
#endif
#endif
	} else {
#if MODE == 0
		/* the only step that can fail here is the construction of the new element: nothing may have changed */
		int untouched = (len == NCH);
		for (unsigned i = 0; i < NCH; i++) { KSI_TLV *e = NULL; if (KSI_TLVList_elementAt(lst, i, &e) != KSI_OK || e != orig[i]) untouched = 0; }
		CHECK(res_apply == st_construct[0] && untouched, "C08.H4 a failed construction of the new calendar element leaves the signature element untouched");
		CHECK(sig->calendarChain == oldcal && newcal->ref == 1 && sig->publication == (has_oldpub ? &old_pub : NULL), "C08.H4 a failed apply leaves the signature object untouched");
#if CONSTRUCT_FAIL_AT == 0
		WITNESS_POINT("construction failure leaves everything untouched");
#endif
#else
		CHECK(res_apply != KSI_OK || res_pub == st_construct[did_apply ? 1 : 0], "C08.H4 a failed construction of the publication element is reported");
#if CONSTRUCT_FAIL_AT >= 0
		WITNESS_POINT("failure path");
#endif
#endif
	}
}
