#!/usr/bin/env python3
"""runall.py [quick|thorough] [ID ...] - run the registered checks one after the other against /repo, print a summary
(exit code, wall time, KNOWN-FINDING / VIOLATION / INCONCLUSIVE lines) and validate each evidence file."""
import json, os, subprocess, sys, time
V = os.path.dirname(os.path.dirname(os.path.abspath(__file__)))
tier = sys.argv[1] if len(sys.argv) > 1 and sys.argv[1] in ("quick", "thorough") else "quick"
ids = [a for a in sys.argv[1:] if a.startswith("C")]
man = json.load(open(os.path.join(V, "MANIFEST.json")))
rows = []
for c in man["checks"]:
    pid = c["property_id"]
    if ids and pid not in ids:
        continue
    t0 = time.time()
    p = subprocess.run(c["quick_cmd"] if tier == "quick" else c["thorough_cmd"], shell=True, cwd=V, capture_output=True, text=True)
    wall = time.time() - t0
    lines = [l for l in p.stdout.splitlines() if l.startswith(("VIOLATION", "KNOWN-FINDING", "INCONCLUSIVE", "OK property"))]
    ev_ok = "missing"
    try:
        ev = json.load(open(os.path.join(V, c["evidence_file"])))
        ev_ok = "ok" if ev.get("tier") == tier and ev["coverage"]["distinct_nontrivial"] >= 2 else "stale/weak"
    except Exception as e:
        ev_ok = "bad: %s" % e
    nk = sum(1 for l in lines if l.startswith("KNOWN"))
    nv = sum(1 for l in lines if l.startswith("VIOLATION"))
    print("%s exit=%d wall=%ds known=%d violations=%d evidence=%s %s" % (pid, p.returncode, wall, nk, nv, ev_ok, " | ".join(l[:160] for l in lines if not l.startswith("KNOWN"))[:400]), flush=True)
    open("/var/tmp/runall_%s_%s.log" % (pid, tier), "w").write(p.stdout + p.stderr)
    rows.append((pid, p.returncode, wall))
print("SUMMARY", [(a, b, int(c)) for a, b, c in rows])
