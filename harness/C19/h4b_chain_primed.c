/* C19 H-4b: KSI_AggregationHashChain_aggregate on a chain object whose cache is already PRIMED for another level:
 * aggregate at level A fault-free, aggregate at level B != A with one allocation failing, then repeat level B
 * without fault.  The repeated call must deliver the level-B result (level B + 3 + 1 and the same root a fresh,
 * identically built chain object gives for level B) - not whatever the failed call left in the cache. */
#include "c19.h"
#include "impl/hashchain_impl.h"
#include "hash_model.h"
#include "verif_post.h"
/* types.c is not linked: links of this scenario carry no metadata, so the destructor is only ever called with NULL */
void KSI_MetaDataElement_free(KSI_MetaDataElement *t) { CHECK(t == NULL, "C19.H4b stub: no metadata element exists in this scenario"); }
static KSI_AggregationHashChain *mk(KSI_CTX *ctx, const u8 *d) {
	KSI_AggregationHashChain *c = NULL; KSI_HashChainLink *link = NULL; int res;
	res = KSI_AggregationHashChain_new(ctx, &c); ASSUME(res == KSI_OK);
	res = KSI_Integer_new(ctx, KSI_HASHALG_SHA1, &c->aggrHashId); ASSUME(res == KSI_OK);
	res = KSI_DataHash_fromDigest(ctx, KSI_HASHALG_SHA1, d, 20, &c->inputHash); ASSUME(res == KSI_OK);
	res = KSI_HashChainLinkList_new(&c->chain); ASSUME(res == KSI_OK);
	res = KSI_HashChainLink_new(ctx, &link); ASSUME(res == KSI_OK);
	link->isLeft = 1;
	res = KSI_Integer_new(ctx, 3, &link->levelCorrection); ASSUME(res == KSI_OK);
	res = KSI_DataHash_fromDigest(ctx, KSI_HASHALG_SHA1, d, 20, &link->imprint); ASSUME(res == KSI_OK);
	res = KSI_HashChainLinkList_append(c->chain, link); ASSUME(res == KSI_OK);
	return c;
}
void harness(void) {
	VERIF_ctx_init(); VERIF_hm_init(1);   /* memoising hash model: equal messages give equal digests */ KSI_CTX *ctx = VERIF_ctx;
	u8 d[20]; for (int i = 0; i < 20; i++) d[i] = ND(u8, d);
	int A = ND(int, levelA), B = ND(int, levelB);
	ASSUME(A >= 0 && A <= 251 && B >= 0 && B <= 251 && A != B);
	KSI_AggregationHashChain *c = mk(ctx, d), *fresh = mk(ctx, d);      /* built fault-free */
	KSI_DataHash *ra = NULL, *rb = NULL, *rb2 = NULL, *rf = NULL; int lv = -1, res;
	res = KSI_AggregationHashChain_aggregate(c, A, &lv, &ra);
	CHECK(res == KSI_OK && lv == A + 4, "C19.H4b priming call succeeds");
	C19_ARM();
	lv = -1;
	res = KSI_AggregationHashChain_aggregate(c, B, &lv, &rb);
	C19_DISARM();
	C19_OUTCOME(res, lv == B + 4 && rb != NULL);
	if (res != KSI_OK) CHECK(rb == NULL, "C19.H4b no root on failure");
	lv = -1;
	res = KSI_AggregationHashChain_aggregate(c, B, &lv, &rb2);
	CHECK(res == KSI_OK && lv == B + 4, "C19.H4b the operation repeated without fault succeeds with the result for ITS level");
	int lf = -1;
	res = KSI_AggregationHashChain_aggregate(fresh, B, &lf, &rf);
	CHECK(res == KSI_OK && lf == B + 4 && KSI_DataHash_equals(rb2, rf), "C19.H4b the repeated call gives the root a fresh object gives");
	if (rb != NULL) CHECK(KSI_DataHash_equals(rb, rf), "C19.H4b a faulted call that still succeeded gave the fault-free root");
	KSI_DataHash_free(ra); KSI_DataHash_free(rb); KSI_DataHash_free(rb2); KSI_DataHash_free(rf);
	KSI_AggregationHashChain_free(c); KSI_AggregationHashChain_free(fresh);
	WITNESS_POINT("primed chain scenario finished");
#if FAULT_AT >= 1 && FAULT_AT <= 2
	if (VERIF_fault_hit) WITNESS_POINT("fault was injected");
#endif
}
