/* C14 H-3b: the blocking TCP client's request/response exchange, readResponse() of net_tcp.c (the function
 * KSI_RequestHandle_perform calls), on the REAL call chain readResponse -> KSI_FTLV_socketRead -> readData ->
 * KSI_IO_readSocket -> recv, with its real 65 539-byte stack buffer, under a scripted transport.
 * Shape concrete per instance (README rule 1): request length, per-call results of send() and recv() (sizes,
 * EINTR, would-block/timeout, hard error, peer close and their positions), form and declared length of the
 * response element.  Symbolic: all payload/tag/request bytes, the bytes of the NEXT element waiting in the socket,
 * errno values inside their class.
 *
 * Oracle (from the property text; it uses only what the transport model observed, not a prediction of how the
 * code sizes its reads): let F = "a scripted fault (anything but data/EINTR) was returned to the client".
 *   not F  =>  KSI_OK; the bytes accepted by send() are exactly the request; exactly header+payload bytes left the
 *              socket (the next element is untouched); handle->response is a copy of exactly those bytes; completed.
 *   F      =>  an error status of the network/io class; no response, response_length 0, not completed; nothing is
 *              read after a failed send; what was sent is a prefix of the request.
 *   always =>  the socket is closed exactly once and never used afterwards; the address list is released. */
#include <errno.h>
#include "verif.h"
#include "internal.h"
#include "ctx.h"
#include "sock_model.h"
#include "verif_post.h"
#include "net_tcp.c"

#ifndef B0
#define B0 0x02
#endif
#ifndef DLEN
#define DLEN 3
#endif
#ifndef REQ_LEN
#define REQ_LEN 4
#endif
#ifndef TX_SCRIPT
#define TX_SCRIPT {{SK_DATA, 4}}
#define TX_STEPS 1
#endif
#ifndef RX_SCRIPT
#define RX_SCRIPT {{SK_DATA, 2}, {SK_DATA, 3}}
#define RX_STEPS 2
#endif
#ifndef GAI_RET
#define GAI_RET 0
#endif
#ifndef SOCKET_FAIL
#define SOCKET_FAIL 0
#endif
#ifndef CONNECT_RET
#define CONNECT_RET 0
#endif
#define IS16 (((B0) & 0x80) != 0)
#define HDR (IS16 ? 4 : 2)
#define ELEN (HDR + (DLEN))
#define NEXT 3
#if (ELEN + NEXT) > SK_STREAM_MAX || REQ_LEN > SK_OUT_MAX
#error shape exceeds the model arrays
#endif

unsigned VERIF_sk_ai_leaks(void);
static const struct sk_step tx_script[] = TX_SCRIPT;
static const struct sk_step rx_script[] = RX_SCRIPT;

static int faulted(const struct sk_step *s, unsigned steps, unsigned calls, unsigned overrun) {
	int f = overrun != 0;
	for (unsigned i = 0; i < SK_SCRIPT_MAX; i++)
		if (i < steps && i < calls && s[i].kind != SK_DATA && s[i].kind != SK_EINTR) f = 1;
	return f;
}

void harness(void) {
	VERIF_ctx_init(); KSI_CTX *ctx = VERIF_ctx;
	VERIF_sk_reset();
	VERIF_sk_gai_ret = GAI_RET; VERIF_sk_socket_fail = SOCKET_FAIL; VERIF_sk_connect_ret = CONNECT_RET;
	VERIF_sk_connect_errno = ECONNREFUSED;
	for (unsigned i = 0; i < TX_STEPS; i++) VERIF_sk_tx[i] = tx_script[i];
	VERIF_sk_tx_steps = TX_STEPS;
	for (unsigned i = 0; i < RX_STEPS; i++) VERIF_sk_rx[i] = rx_script[i];
	VERIF_sk_rx_steps = RX_STEPS;

	/* the peer's stream: one element of the instance's form/length, then the first bytes of the next one */
	u8 *s = VERIF_sk_stream;
	s[0] = B0;
	if (IS16) { s[1] = ND(u8, tag_lo); s[2] = (u8)((DLEN) >> 8); s[3] = (u8)((DLEN) & 0xff); }
	else s[1] = (u8)(DLEN);
	for (unsigned i = HDR; i < ELEN + NEXT; i++) s[i] = ND(u8, stream);
	VERIF_sk_stream_len = ELEN + NEXT;

	u8 *req = verif_buf_alloc(REQ_LEN);
	for (unsigned i = 0; i < REQ_LEN; i++) req[i] = ND(u8, req);

	static char host[] = "h";
	TcpClientCtx tc; tc.host = host; tc.port = ND(unsigned, port);
	KSI_TcpClient impl; memset(&impl, 0, sizeof(impl)); impl.transferTimeoutSeconds = ND(int, tmo);
	KSI_NetworkClient client; memset(&client, 0, sizeof(client)); client.ctx = ctx; client.impl = &impl;
	KSI_RequestHandle h; memset(&h, 0, sizeof(h));
	h.ctx = ctx; h.ref = 1; h.request = req; h.request_length = REQ_LEN; h.client = &client; h.implCtx = &tc;

	int res = readResponse(&h);

	int conn_ok = (GAI_RET == 0) && !(SOCKET_FAIL) && (CONNECT_RET == 0);
	int txf = faulted(tx_script, TX_STEPS, VERIF_sk_tx_calls, VERIF_sk_tx_overrun);
	int rxf = faulted(rx_script, RX_STEPS, VERIF_sk_rx_calls, VERIF_sk_rx_overrun);

	CHECK(VERIF_sk_misuse == 0, "C14.H3b no call on a closed or foreign descriptor, no second socket");
	CHECK(!VERIF_sk_open && VERIF_sk_closes == VERIF_sk_sockets, "C14.H3b every opened socket is closed exactly once");
	CHECK(VERIF_sk_ai_leaks() == 0, "C14.H3b address list released");
	/* what was written is a prefix of the request, in order */
	int pre = VERIF_sk_out_len <= REQ_LEN && VERIF_sk_out_overflow == 0;
	for (unsigned i = 0; i < REQ_LEN; i++) if (i < VERIF_sk_out_len && VERIF_sk_out[i] != req[i]) pre = 0;
	CHECK(pre, "C14.H3b bytes written are a prefix of the serialized request");
	CHECK(VERIF_sk_rx_pos <= ELEN, "C14.H3b never more than the one response element leaves the socket");

	if (conn_ok && !txf && !rxf) {
		CHECK(res == KSI_OK, "C14.H3b partial sends, partial reads and EINTR fail nothing");
		CHECK(VERIF_sk_out_len == REQ_LEN, "C14.H3b the whole request is written");
		CHECK(VERIF_sk_rx_pos == ELEN, "C14.H3b exactly header+payload bytes are consumed");
		CHECK(h.completed && h.response != NULL && h.response_length == ELEN, "C14.H3b the response is the complete element");
		int same = (h.response != NULL && h.response_length == ELEN);
		for (unsigned i = 0; i < ELEN; i++) if (same && h.response[i] != s[i]) same = 0;
		CHECK(same, "C14.H3b response bytes equal the stream bytes of the element");
#if !defined(EXPECT_OK) || EXPECT_OK
		WITNESS_POINT("exchange completed");
#endif
	} else {
		CHECK(res != KSI_OK, "C14.H3b a fault never yields OK");
		CHECK(res == KSI_NETWORK_ERROR || res == KSI_NETWORK_RECIEVE_TIMEOUT || res == KSI_IO_ERROR, "C14.H3b a fault ends the request with a network/io error status");
		CHECK(h.response == NULL && h.response_length == 0 && !h.completed, "C14.H3b no partial response is delivered");
		if (!conn_ok) CHECK(VERIF_sk_tx_calls == 0 && VERIF_sk_rx_calls == 0, "C14.H3b nothing is transferred without a connection");
		if (txf) CHECK(VERIF_sk_rx_calls == 0, "C14.H3b nothing is read after a failed send");
		if (conn_ok && !txf) CHECK(VERIF_sk_out_len == REQ_LEN, "C14.H3b the whole request was written before reading");
#if defined(EXPECT_OK) && !EXPECT_OK
		WITNESS_POINT("exchange failed");
#endif
	}
	if (h.response != NULL) KSI_free(h.response);
	verif_buf_free(req, REQ_LEN);
}
