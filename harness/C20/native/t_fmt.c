#include <stdio.h>
#include <stdlib.h>
#include <string.h>
#include <stdarg.h>
static unsigned long domain_viol;
#define __CPROVER_assert(c, m) do { if (!(c)) { domain_viol++; } } while (0)
#define __CPROVER_same_object(a, b) (cur_obj_lo <= (const char *)(a) && (const char *)(a) < cur_obj_hi && cur_obj_lo <= (const char *)(b) && (const char *)(b) < cur_obj_hi)
static const char *cur_obj_lo, *cur_obj_hi;
#define vsnprintf model_vsnprintf
#define strlen model_strlen
#define static
#include "/verif/env/c20_vsnprintf.c"
#undef static
#undef vsnprintf
#undef strlen
static size_t KSI_snprintf_m(char *buf, size_t n, const char *fmt, ...) { va_list va; va_start(va, fmt); size_t r = 0; if (buf && n && n <= 0x7fffffff) { r = (size_t)model_vsnprintf(buf, n, fmt, va); if (r >= n) r = n - 1; } va_end(va); return r; }
static size_t KSI_snprintf_g(char *buf, size_t n, const char *fmt, ...) { va_list va; va_start(va, fmt); size_t r = 0; if (buf && n && n <= 0x7fffffff) { r = (size_t)vsnprintf(buf, n, fmt, va); if (r >= n) r = n - 1; } va_end(va); return r; }
#define COMPOSE(SN, buf, len) do { size_t count = 0; \
	if (scheme) count += SN(buf + count, len - count, "%s://", scheme); \
	if (user) count += SN(buf + count, len - count, "%s:%s@", user, pass); \
	if (host) count += SN(buf + count, len - count, "%s%s%s", v6 ? "[" : "", host, v6 ? "]" : ""); \
	if (port) count += SN(buf + count, len - count, ":%d", port); \
	if (path) count += SN(buf + count, len - count, "%s%s", (path[0] == '/') ? "" : "/", path); \
	if (query) count += SN(buf + count, len - count, "?%s", query); \
	if (frag) SN(buf + count, len - count, "#%s", frag); total = count; } while (0)
static unsigned rnd_state = 12345; static unsigned rnd(void) { rnd_state = rnd_state * 1103515245u + 12345u; return rnd_state >> 8; }
static const char *rstr(char *b, unsigned max) { unsigned n = rnd() % (max + 1); for (unsigned i = 0; i < n; i++) b[i] = (char)(33 + rnd() % 94); b[n] = 0; return b; }
int main(void) {
	unsigned long n = 0, bad = 0;
	static char big1[0xffff], big2[0xffff];
	for (unsigned it = 0; it < 400000; it++) {
		char s1[8], s2[8], s3[8], s4[10], s5[8], s6[8], s7[8];
		const char *scheme = (rnd() % 8) ? rstr(s1, 6) : NULL, *user = NULL, *pass = NULL, *host = (rnd() % 8) ? rstr(s4, 8) : NULL;
		if (rnd() % 3 == 0) { user = rstr(s2, 3); pass = rstr(s3, 3); }
		unsigned port = (rnd() % 4 == 0) ? 0 : (rnd() % 3 == 0 ? 1 + rnd() % 9 : rnd() % 65536);
		const char *path = (rnd() % 3) ? rstr(s5, 5) : NULL, *query = (rnd() % 2) ? rstr(s6, 4) : NULL, *frag = (rnd() % 2) ? rstr(s7, 4) : NULL;
		int v6 = rnd() % 4 == 0; size_t total, tg;
		size_t len = (it % 5 == 0) ? 24 : (it % 5 == 1 ? 64 : sizeof(big1));       /* also truncating buffer sizes */
		memset(big1, 0x55, 80); memset(big2, 0x55, 80);
		cur_obj_lo = big1; cur_obj_hi = big1 + sizeof(big1); c20_base = NULL; domain_viol = 0;
		COMPOSE(KSI_snprintf_m, big1, len); size_t tm = total;
		char got[64]; C20_fmt_text(big1, got, sizeof(got));
		size_t ml = model_strlen(big1);
		COMPOSE(KSI_snprintf_g, big2, len); tg = total;
		n++;
		if (domain_viol) { continue; } if (!scheme && !user && !host && !port && !path && !query && !frag) continue;   /* nothing composed: buffer untouched */     /* text longer than the store: outside the model's domain (asserted there) */
		if (tm != tg || strcmp(got, big2) != 0 || ml != strlen(big2)) { if (bad++ < 5) printf("MISMATCH len=%zu model '%s' (%zu,%zu) glibc '%s' (%zu)\n", len, got, tm, ml, big2, tg); }
	}
	printf("vsnprintf model (text store) vs glibc on uriCompose-style sequences: %lu compositions, %lu mismatches\n", n, bad);
	/* single directives */
	char a[32], b[32]; unsigned long m2 = 0, b2 = 0;
	for (long v = -70000; v <= 70000; v += 7) { cur_obj_lo = a; cur_obj_hi = a + 32; c20_base = NULL; size_t r1 = KSI_snprintf_m(a, sizeof a, "%d|%u|%c|%%", (int)v, (unsigned)(v < 0 ? -v : v), 'x'); char g[32]; C20_fmt_text(a, g, 32); size_t r2 = KSI_snprintf_g(b, sizeof b, "%d|%u|%c|%%", (int)v, (unsigned)(v < 0 ? -v : v), 'x'); m2++; if (r1 != r2 || strcmp(g, b)) { if (b2++ < 5) printf("MISMATCH %ld '%s' '%s'\n", v, g, b); } }
	printf("single directives %%d %%u %%c %%%%: %lu formatted, %lu mismatches\n", m2, b2);
	return bad != 0 || b2 != 0;
}
