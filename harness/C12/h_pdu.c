/* C12 H-pdu: KSI_AggregationPdu_parse / KSI_ExtendPdu_parse end to end (real tlv.c, fast_tlv.c, tlv_template.c with the
 * real tables and real function pointers, types.c, types_base.c, hash.c) on PDUs of a concrete LAYOUT (tags and
 * lengths concrete per instance - with concrete tags the template engine's control flow is concrete, which is what
 * lets this terminate) and symbolic leaf contents (every payload octet of every leaf element).
 * The input is an exact-size heap object.  Checked: KSI_OK or an error code, object returned exactly on KSI_OK,
 * no access outside the input, the parsed object and everything else is freed by the documented destructor
 * (leak check on), also on the rejection paths that unwind partially built objects.
 * What is accepted is C10's subject (engine) / C06's (MAC); here only the consequences the layout fixes. */
#include "verif.h"
#include "internal.h"
#include "tlv.h"
#include "ctx.h"
#include "verif_post.h"

#ifndef LAYOUT
#define LAYOUT 1
#endif

/* S = symbolic octet */
#define S 0x100
#if LAYOUT == 1
/* aggregation response PDU v2: header (login id, instance id, message id), error payload (status, message), MAC (SHA2-256 sized) */
#define IS_AGGR 1
static const unsigned short L[] = {
	0x82, 0x21, 0x00, 0x3c,
	  0x01, 0x0a,  0x01, 0x02, S, S,  0x02, 0x01, S,  0x03, 0x01, S,
	  0x03, 0x07,  0x04, 0x01, S,  0x05, 0x02, S, S,
	  0x1f, 0x21,  S, S,S,S,S,S,S,S, S,S,S,S,S,S,S,S, S,S,S,S,S,S,S,S, S,S,S,S,S,S,S,S,
};
#elif LAYOUT == 2
/* aggregation response PDU v2 with the header repeated (rejected after the first header has been built) */
#define IS_AGGR 1
static const unsigned short L[] = {
	0x82, 0x21, 0x00, 0x15,
	  0x01, 0x04,  0x01, 0x02, S, S,
	  0x01, 0x04,  0x01, 0x02, S, S,
	  0x03, 0x03,  0x04, 0x01, S,
	  0x1f, 0x02,  S, S,
};
#elif LAYOUT == 3
/* extension response PDU v2: header, error payload, MAC (SHA-1 sized) */
#define IS_AGGR 0
static const unsigned short L[] = {
	0x83, 0x21, 0x00, 0x26,
	  0x01, 0x04,  0x01, 0x02, S, S,
	  0x03, 0x07,  0x04, 0x01, S,  0x05, 0x02, S, S,
	  0x1f, 0x15,  S, S,S,S,S,S,S,S,S,S, S,S,S,S,S,S,S,S,S,S,
};
#elif LAYOUT == 4
/* aggregation PDU whose only child is an unknown element with symbolic flags octet kept in the TLV8 range and empty payload */
#define IS_AGGR 1
static const unsigned short L[] = {
	0x82, 0x21, 0x00, 0x02,
	  0x1d, 0x00,
};
#endif
#define N ((unsigned)(sizeof(L) / sizeof(L[0])))

void harness(void) {
	VERIF_ctx_init();
	KSI_CTX *ctx = VERIF_ctx;
	u8 *in = verif_buf_alloc(N);
	for (unsigned i = 0; i < N; i++) in[i] = (L[i] == S) ? ND(u8, b) : (u8)L[i];
#if IS_AGGR
	KSI_AggregationPdu *pdu = NULL;
	int res = KSI_AggregationPdu_parse(ctx, in, N, &pdu);
#else
	KSI_ExtendPdu *pdu = NULL;
	int res = KSI_ExtendPdu_parse(ctx, in, N, &pdu);
#endif
	CHECK((res == KSI_OK) == (pdu != NULL), "C12.pdu an object is returned exactly on KSI_OK");
#if LAYOUT == 1 || LAYOUT == 3
	if (res == KSI_OK) {
		KSI_Header *h = NULL; KSI_ErrorPdu *e = NULL; KSI_DataHash *m = NULL;
#if IS_AGGR
		CHECK(KSI_AggregationPdu_getHeader(pdu, &h) == KSI_OK && h != NULL && KSI_AggregationPdu_getError(pdu, &e) == KSI_OK && e != NULL &&
		      KSI_AggregationPdu_getHmac(pdu, &m) == KSI_OK && m != NULL, "C12.pdu accepted PDU has header, error payload and MAC");
#else
		CHECK(KSI_ExtendPdu_getHeader(pdu, &h) == KSI_OK && h != NULL && KSI_ExtendPdu_getError(pdu, &e) == KSI_OK && e != NULL &&
		      KSI_ExtendPdu_getHmac(pdu, &m) == KSI_OK && m != NULL, "C12.pdu accepted PDU has header, error payload and MAC");
#endif
		WITNESS_POINT("PDU accepted");
	} else {
		WITNESS_POINT("PDU with malformed leaf rejected");
	}
#elif LAYOUT == 2
	CHECK(res != KSI_OK, "C12.pdu repeated header is refused");
	WITNESS_POINT("repeated header refused, first header released");
#elif LAYOUT == 4
	CHECK(res != KSI_OK, "C12.pdu PDU without payload is refused");
	WITNESS_POINT("unknown element only");
#endif
#if IS_AGGR
	KSI_AggregationPdu_free(pdu);
#else
	KSI_ExtendPdu_free(pdu);
#endif
	verif_buf_free(in, N);
}
