/* C03 H-5: KSI_AggregationHashChain_calculateShape = 1-prefixed direction bit string
 * (most significant after the pad bit = last link, least significant = first link; left = 1),
 * and a chain whose pad bit + NLINKS bits do not fit 64 bits is rejected, not truncated. */
#include "verif.h"
#include "internal.h"
#include "impl/hashchain_impl.h"
#include "ctx.h"
#include "verif_post.h"
#ifndef NLINKS
#define NLINKS 3
#endif
void harness(void) {
	VERIF_ctx_init(); KSI_CTX *ctx = VERIF_ctx;
	int res; int dir[NLINKS > 0 ? NLINKS : 1];
	KSI_AggregationHashChain *chn = NULL;
	res = KSI_AggregationHashChain_new(ctx, &chn); ASSUME(res == KSI_OK);
	res = KSI_HashChainLinkList_new(&chn->chain); ASSUME(res == KSI_OK);
	for (unsigned i = 0; i < NLINKS; i++) {
		KSI_HashChainLink *link = NULL;
		res = KSI_HashChainLink_new(ctx, &link); ASSUME(res == KSI_OK);
		dir[i] = ND_BOOL(isleft); link->isLeft = dir[i];
		res = KSI_HashChainLinkList_append(chn->chain, link); ASSUME(res == KSI_OK);
	}
	KSI_uint64_t shape = 0;
	res = KSI_AggregationHashChain_calculateShape(chn, &shape);
#if NLINKS <= 63
	CHECK(res == KSI_OK, "C03.H5 shape of a chain of up to 63 links is computed");
	u64 ref = 1;
	for (int i = NLINKS - 1; i >= 0; i--) ref = (ref << 1) | (dir[i] ? 1u : 0u);
	CHECK(shape == ref, "C03.H5 shape = pad bit followed by the direction bits, last link first");
	WITNESS_POINT("shape computed");
#else
	CHECK(res != KSI_OK, "C03.H5 chain too long for a 64-bit shape is rejected, not truncated");
	WITNESS_POINT("over-long chain handled");
#endif
}
