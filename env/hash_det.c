/* Deterministic toy hash replacing hash_openssl.c (new file; alternative to hash_model.c for harnesses that compare
 * a memoised result with a fresh computation and must not carry hash-model state between calls).
 * The real hash.c front end (KSI_DataHasher_add/close/reset, KSI_DataHash_*) runs unmodified on top of it.
 *   digest[i] = message[len-1-i] ^ (i + algorithm id)   for i < min(len, digest length), else (i + algorithm id)
 * i.e. a fixed, stateless function of (algorithm, message): equal inputs give equal digests, and the LAST bytes of
 * the message (for hash-chain steps: the level byte and the right sibling) always influence the digest.  It is of
 * course not collision free; harnesses may only rely on determinism and on that sensitivity.
 * Messages longer than HD_LOG_MAX raise VERIF_hd_overflow (harnesses assert it to be 0). */
#include "internal.h"
#include "impl/hash_impl.h"
#include "verif.h"
#ifndef HD_LOG_MAX
#define HD_LOG_MAX 48
#endif
int VERIF_hd_overflow;
unsigned VERIF_hd_closed;       /* number of digests computed so far */
struct hd_state { u8 log[HD_LOG_MAX]; size_t len; };

int KSI_isHashAlgorithmSupported(KSI_HashAlgorithm algo_id) {
	return algo_id == KSI_HASHALG_SHA1 || algo_id == KSI_HASHALG_SHA2_256 || algo_id == KSI_HASHALG_RIPEMD160
		|| algo_id == KSI_HASHALG_SHA2_384 || algo_id == KSI_HASHALG_SHA2_512;
}
static int hd_closeExisting(KSI_DataHasher *hasher, KSI_DataHash *data_hash) {
	struct hd_state *st; size_t hash_length, i;
	if (hasher == NULL || data_hash == NULL) return KSI_INVALID_ARGUMENT;
	KSI_ERR_clearErrors(hasher->ctx);
	if (!KSI_isHashAlgorithmSupported(hasher->algorithm)) return KSI_INVALID_ARGUMENT;
	hash_length = KSI_getHashLength(hasher->algorithm);
	if (hash_length == 0) return KSI_UNKNOWN_ERROR;
	st = hasher->hashContext;
	for (i = 0; i < 64; i++) {
		if (i < hash_length) data_hash->imprint[1 + i] = (u8)((i < st->len && i < HD_LOG_MAX ? st->log[st->len - 1 - i] : 0) ^ (u8)(i + (size_t)hasher->algorithm));
	}
	data_hash->imprint[0] = (0xff & hasher->algorithm);
	data_hash->imprint_length = hash_length + 1;
	VERIF_hd_closed++;
	return KSI_OK;
}
static void hd_cleanup(KSI_DataHasher *hasher) { if (hasher != NULL) { free(hasher->hashContext); hasher->hashContext = NULL; } }
static int hd_reset(KSI_DataHasher *hasher) {
	struct hd_state *st;
	if (hasher == NULL) return KSI_INVALID_ARGUMENT;
	KSI_ERR_clearErrors(hasher->ctx);
	if (!KSI_isHashAlgorithmSupported(hasher->algorithm)) return KSI_OUT_OF_MEMORY;
	st = hasher->hashContext;
	if (st == NULL) {
		st = malloc(sizeof(struct hd_state));
		if (st == NULL) return KSI_OUT_OF_MEMORY;
		hasher->hashContext = st;
	}
	st->len = 0;
	return KSI_OK;
}
static int hd_add(KSI_DataHasher *hasher, const void *data, size_t data_length) {
	struct hd_state *st; size_t i;
	if (hasher == NULL || data == NULL) return KSI_INVALID_ARGUMENT;
	KSI_ERR_clearErrors(hasher->ctx);
	st = hasher->hashContext;
	if (data_length > 0) {
		if (data_length > HD_LOG_MAX || st->len > HD_LOG_MAX - data_length) { VERIF_hd_overflow = 1; return KSI_OK; }
		for (i = 0; i < HD_LOG_MAX; i++) if (i < data_length) st->log[st->len + i] = ((const unsigned char *)data)[i];
		st->len += data_length;
	}
	return KSI_OK;
}
int KSI_DataHasher_open(KSI_CTX *ctx, KSI_HashAlgorithm algo_id, KSI_DataHasher **hasher) {
	int res = KSI_UNKNOWN_ERROR;
	KSI_DataHasher *tmp_hasher = NULL;
	KSI_ERR_clearErrors(ctx);
	if (hasher == NULL) { res = KSI_INVALID_ARGUMENT; goto cleanup; }
	if (!KSI_isHashAlgorithmSupported(algo_id)) { res = KSI_UNAVAILABLE_HASH_ALGORITHM; goto cleanup; }
	tmp_hasher = KSI_new(KSI_DataHasher);
	if (tmp_hasher == NULL) { res = KSI_OUT_OF_MEMORY; goto cleanup; }
	tmp_hasher->hashContext = NULL;
	tmp_hasher->ctx = ctx;
	tmp_hasher->algorithm = algo_id;
	tmp_hasher->closeExisting = hd_closeExisting;
	tmp_hasher->isOpen = false;
	tmp_hasher->reset = hd_reset;
	tmp_hasher->add = hd_add;
	tmp_hasher->cleanup = hd_cleanup;
	res = KSI_DataHasher_reset(tmp_hasher);
	if (res != KSI_OK) goto cleanup;
	*hasher = tmp_hasher;
	tmp_hasher = NULL;
	res = KSI_OK;
cleanup:
	KSI_DataHasher_free(tmp_hasher);
	return res;
}
