/* C19 H-5: policy engine under allocation failure: KSI_Policy_create x2, KSI_Policy_setFallback,
 * KSI_SignatureVerifier_verify (result object, rule-result and policy-result lists, duplicated rule results),
 * KSI_PolicyVerificationResult_free.  Rule outcomes symbolic. */
#include "c19.h"
#include "verification_rule.h"
#include "impl/policy_impl.h"
#include "verif_post.h"
#include "policy.c"
static int rc[3], ec[3]; static unsigned calls[3];
static const char names[3][2] = {"a", "b", "c"};
#define RULE(k) static int rule_##k(KSI_VerificationContext *vc, KSI_RuleVerificationResult *r) { (void)vc; calls[k]++; r->resultCode = (KSI_VerificationResultCode)rc[k]; r->errorCode = (KSI_VerificationErrorCode)ec[k]; r->ruleName = names[k]; return KSI_OK; }
RULE(0) RULE(1) RULE(2)
static const KSI_Rule rules_p[] = {{KSI_RULE_TYPE_BASIC, rule_0}, {KSI_RULE_TYPE_BASIC, rule_1}, {KSI_RULE_TYPE_BASIC, NULL}};
static const KSI_Rule rules_f[] = {{KSI_RULE_TYPE_BASIC, rule_2}, {KSI_RULE_TYPE_BASIC, NULL}};
/* objects that never exist in this scenario (no signature, rules leave no temporary data) */
void KSI_Signature_free(KSI_Signature *s) { CHECK(s == NULL, "C19.H5 stub: no signature object in this scenario"); }
KSI_Signature *KSI_Signature_ref(KSI_Signature *s) { return s; }
void KSI_DataHash_free(KSI_DataHash *h) { CHECK(h == NULL, "C19.H5 stub: no temporary hash"); }
void KSI_CalendarHashChain_free(KSI_CalendarHashChain *c) { CHECK(c == NULL, "C19.H5 stub: no temporary calendar chain"); }
void KSI_PublicationsFile_free(KSI_PublicationsFile *p) { CHECK(p == NULL, "C19.H5 stub: no temporary publications file"); }
int KSI_strdup(const char *from, char **to) { (void)from; *to = NULL; return KSI_OK; }
static int run(KSI_CTX *ctx, KSI_Policy **p, KSI_Policy **f, KSI_PolicyVerificationResult **out) {
	int res; KSI_VerificationContext vc;
	res = KSI_Policy_create(ctx, rules_p, "P", p); if (res != KSI_OK) return res;
	res = KSI_Policy_create(ctx, rules_f, "F", f); if (res != KSI_OK) return res;
	res = KSI_Policy_setFallback(ctx, *p, *f); if (res != KSI_OK) return res;
	res = KSI_VerificationContext_init(&vc, ctx); if (res != KSI_OK) return res;
	res = KSI_SignatureVerifier_verify(*p, &vc, out);
	CHECK(vc.tempData == NULL, "C19.H5 temporary verification data detached on return");
	return res;
}
void harness(void) {
	VERIF_ctx_init(); KSI_CTX *ctx = VERIF_ctx;
	for (int k = 0; k < 3; k++) { rc[k] = ND(int, rc); ASSUME(rc[k] == KSI_VER_RES_OK || rc[k] == KSI_VER_RES_NA || rc[k] == KSI_VER_RES_FAIL); ec[k] = ND(int, ec); ASSUME(ec[k] >= 0 && ec[k] < __NOF_VER_ERRORS); }
	KSI_Policy *p = NULL, *f = NULL; KSI_PolicyVerificationResult *r = NULL;
	C19_ARM();
	int res = run(ctx, &p, &f, &r);
	C19_DISARM();
	C19_OUTCOME(res, r != NULL);
	if (res != KSI_OK) CHECK(r == NULL, "C19.H5 no result object on error");
	KSI_PolicyVerificationResult_free(r); KSI_Policy_free(p); KSI_Policy_free(f);
	p = f = NULL; r = NULL; calls[0] = calls[1] = calls[2] = 0;
	res = run(ctx, &p, &f, &r);
	CHECK(res == KSI_OK && r != NULL, "C19.H5 the operation repeated without fault succeeds");
	if (res == KSI_OK) {
		int first_ok = (rc[0] == KSI_VER_RES_OK && rc[1] == KSI_VER_RES_OK);
		CHECK((calls[2] == 1) == !first_ok, "C19.H5 fault-free repetition: fallback evaluated iff the first policy did not end OK");
		CHECK(r->finalResult.resultCode == (KSI_VerificationResultCode)(first_ok ? KSI_VER_RES_OK : rc[2]), "C19.H5 fault-free repetition: verdict of the last policy evaluated");
	}
	KSI_PolicyVerificationResult_free(r); KSI_Policy_free(p); KSI_Policy_free(f);
	WITNESS_POINT("policy scenario finished");
#if FAULT_AT >= 1 && FAULT_AT <= 4
	if (VERIF_fault_hit) WITNESS_POINT("fault was injected");
#endif
}
