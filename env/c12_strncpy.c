/* C12 H-errpush: plain loop implementation of the C library's strncpy for CBMC runs (C99 7.21.2.4: copies at
 * most n characters, then pads with NUL up to n).  CBMC's built-in strncpy model carries string-abstraction
 * preconditions and per-iteration checks that made two 1023-byte copies into the 33 KiB error ring run for
 * more than five minutes; this body is the textbook definition and reads the source only up to its terminator.
 * Compiles to nothing under -DREPLAY (the native replay uses the C library). */
#ifndef REPLAY
#include <stddef.h>
char *strncpy(char *dst, const char *src, size_t n) {
	int done = 0;
	for (size_t i = 0; i < n; i++) {
		char c = 0;
		if (!done) { c = src[i]; if (c == 0) done = 1; }
		dst[i] = c;
	}
	return dst;
}
#endif
