/* C14 H-2: send side of the asynchronous TCP client, dispatch() of net_tcp_async.c, as ONE step from an arbitrary
 * queue state: reqQueue holds NREQ requests; the head may have been written partially by an earlier call
 * (sentCount > 0); send() accepts the shape's byte counts and then would-blocks, fails hard, or the queue runs dry.
 * Concrete per shape (README rule 1): number of requests, their lengths, the head's sentCount, the class of every
 * request (0 = waiting for dispatch and in time, 1 = state changed by the application layer, 2 = send timeout
 * elapsed), per-call results of send(), poll's revents, an optional receive part (fill level of inBuf, outcome of
 * recv), the round throttle (requests already sent in this round, per-round maximum, round elapsed or not) and
 * the clock.  Symbolic: all request bytes, errno values, unused option values.
 *
 * Oracle (from the property text and the option documentation in net_async.h; the walk uses the lengths send()
 * was actually offered):
 *   W1 the bytes accepted by send() are: the rest of the head from raw+sentCount, then whole later requests in
 *      queue order, then possibly a prefix of one more - byte-identical, never past len; abandoned requests
 *      (class 1, 2) and throttled ones contribute nothing;
 *   W2 a completely written request is WAITING_FOR_RESPONSE, released (raw NULL, len 0, sentCount 0), stamped
 *      with the send time and dequeued; a partially written one stays at the head with sentCount advanced by
 *      exactly the accepted bytes; untouched ones keep their place and fields; roundCount counts completions;
 *   W3 would-block merely postpones: KSI_OK, connection open, nothing lost;
 *   W4 a hard error closes the socket once and returns CONNECTION_CLOSED;
 *   W5 framing of the wire: while the connection stays open, a request that is partly on the wire is still the
 *      queue head with sentCount = the bytes written; it is never abandoned in mid-request - if it has to be
 *      given up (send timeout, state changed by the application) the connection ends there (as W4);
 *   W6 fresh connection: when the connection was closed in this call, every request still queued has
 *      sentCount 0, i.e. will travel whole on the next connection. */
#include "c14_async.h"

/* S(id, NREQ, (len,sent,cls, ...), NTX, (kind,n, ...), REVENTS, L0, RXTERM, ROUNDCOUNT0, MAXCOUNT, ELAPSED) */
#ifndef SHAPES
#define SHAPES S(0, 2, (4,1,0, 3,0,0), 2, (SK_DATA,3, SK_DATA,3), POLLOUT, 0, 0, 0, 5, 0)
#define NSHAPES 1
#endif
#define UNPACK(...) __VA_ARGS__
#define S(id, nreq, rq, ntx, tx, rev, l0, rxterm, rc0, maxc, elapsed) static const unsigned rq_##id[] = {0, 0, UNPACK rq}; static const int tx_##id[] = {0, 0, UNPACK tx};
SHAPES
#undef S
#define MAXREQ 3
#define MAXLEN 8
#define NOW 1000
#define SND_TIMEOUT 10

static void scenario(const unsigned nreq, const unsigned *rq, const unsigned ntx, const int *tx, const int revents,
		const unsigned L0, const int rxterm, const unsigned rc0, const unsigned maxc, const int elapsed) {
	VERIF_ctx_init(); KSI_CTX *ctx = VERIF_ctx;
	VERIF_sk_reset();
	TcpAsyncCtx *t = c14_ctx_connected(ctx);
	int res;
	rq += 2; tx += 2;
	CHECK(nreq <= MAXREQ, "C14.H2 shape: at most MAXREQ requests");

	/* ---- clock and options: concrete, far from every boundary ---- */
	VERIF_sk_time_mode = SK_MODE_SCRIPT; VERIF_sk_time_step = 0; VERIF_sk_now = NOW;
	for (unsigned i = 0; i < __NOF_KSI_ASYNC_OPT; i++) c14_parent.options[i] = ND(size_t, option);
	c14_parent.options[KSI_ASYNC_OPT_CONNECTION_STATE_CALLBACK] = 0;
	c14_parent.options[KSI_ASYNC_OPT_SND_TIMEOUT] = SND_TIMEOUT;
	c14_parent.options[KSI_ASYNC_OPT_MAX_REQUEST_COUNT] = maxc;
	c14_parent.options[KSI_ASYNC_PRIVOPT_ROUND_DURATION] = 1;
	t->roundStartAt = elapsed ? NOW - 10 : NOW;
	t->roundCount = rc0;

	/* ---- the queue ---- */
	static KSI_AsyncHandle hs[MAXREQ];
	u8 *raw[MAXREQ]; u8 img[MAXREQ][MAXLEN]; unsigned len[MAXREQ], sent[MAXREQ], cls[MAXREQ];
	for (unsigned i = 0; i < MAXREQ; i++) {
		if (i < nreq) {
			len[i] = rq[3 * i]; sent[i] = rq[3 * i + 1]; cls[i] = rq[3 * i + 2];
			CHECK(len[i] >= 1 && len[i] <= MAXLEN && sent[i] < len[i] && (i == 0 || sent[i] == 0), "C14.H2 shape: only the head can be partially written");
			raw[i] = malloc(len[i]); ASSUME(raw[i] != NULL);       /* exact-size object, as KSI_*Pdu_serialize returns */
			for (unsigned k = 0; k < len[i]; k++) { img[i][k] = C14_BYTE(req_byte); raw[i][k] = img[i][k]; }
			memset(&hs[i], 0, sizeof(hs[i]));
			hs[i].ctx = ctx; hs[i].ref = 2;       /* one reference held by the request cache of the service, one by the queue */
			hs[i].id = i + 1; hs[i].raw = raw[i]; hs[i].len = len[i]; hs[i].sentCount = sent[i];
			hs[i].state = (cls[i] == 1) ? KSI_ASYNC_STATE_ERROR : KSI_ASYNC_STATE_WAITING_FOR_DISPATCH;
			hs[i].reqTime = (cls[i] == 2) ? NOW - 100 : NOW;
			hs[i].sndTime = 0;
			res = KSI_AsyncHandleList_append(t->reqQueue, &hs[i]); ASSUME(res == KSI_OK);
		}
	}
	/* ---- optional receive part: L0 bytes of an incomplete element are buffered; recv answers rxterm ---- */
	VERIF_sk_stream[0] = 0x02; VERIF_sk_stream[1] = 5; VERIF_sk_stream_len = 2;
	CHECK(L0 <= 1, "C14.H2 shape: at most one buffered byte");
	for (unsigned i = 0; i < L0; i++) t->inBuf[i] = VERIF_sk_stream[i];
	t->inLen = L0; VERIF_sk_rx_pos = L0;
	VERIF_sk_rx[0].kind = rxterm; VERIF_sk_rx[0].n = 0; VERIF_sk_rx_steps = (revents & POLLIN) ? 1 : 0;
	for (unsigned i = 0; i < ntx; i++) { VERIF_sk_tx[i].kind = tx[2 * i]; VERIF_sk_tx[i].n = tx[2 * i + 1]; }
	VERIF_sk_tx_steps = ntx;
	VERIF_sk_poll_ret = 1; VERIF_sk_poll_revents = (short)revents;

	res = dispatch(t);

	/* ---- reference walk ---- */
	int rx_closed = (revents & POLLIN) && rxterm != SK_WOULDBLOCK;
	unsigned k = 0;                       /* send() calls consumed by the reference */
	u8 wire[MAXREQ * MAXLEN]; unsigned nw = 0;
	unsigned pos[MAXREQ]; int done[MAXREQ], dropped[MAXREQ];
	int blocked = 0, hard = 0, abandoned_partial = 0, stop = rx_closed || !(revents & POLLOUT);
	unsigned budget = elapsed ? maxc : (rc0 < maxc ? maxc - rc0 : 0), completed = 0;
	for (unsigned i = 0; i < MAXREQ; i++) {
		if (i >= nreq) continue;
		pos[i] = sent[i]; done[i] = 0; dropped[i] = 0;
		if (stop) continue;
		if (completed >= budget) { stop = 1; continue; }          /* round limit reached: the rest stays buffered */
		if (cls[i] != 0) {
			dropped[i] = 1;
			/* part of it is on the wire already: the byte stream cannot go on with another request (W5), so the
			 * connection has to end here */
			if (sent[i] > 0) { abandoned_partial = 1; stop = 1; }
			continue;
		}
		for (unsigned c = 0; c < MAXLEN + 2; c++) {
			if (pos[i] >= len[i] || stop) break;
			CHECK(k < ntx, "C14.H2 shape: send script long enough");
			int kind = k < ntx ? tx[2 * k] : SK_WOULDBLOCK; unsigned n = k < ntx ? (unsigned)tx[2 * k + 1] : 0;
			size_t offered = k < SK_SCRIPT_MAX ? VERIF_sk_tx_req_len[k] : 0;
			k++;
			if (kind == SK_DATA) {
				unsigned acc = n < len[i] - pos[i] ? n : len[i] - pos[i];
				if (offered < acc) acc = (unsigned)offered;
				for (unsigned b = 0; b < MAXLEN; b++) if (b < acc) wire[nw + b] = img[i][pos[i] + b];
				nw += acc; pos[i] += acc;
				if (acc == 0) { stop = 1; blocked = 1; }
			} else if (kind == SK_WOULDBLOCK) { blocked = 1; stop = 1; }
			else { hard = 1; stop = 1; }
		}
		if (pos[i] == len[i]) { done[i] = 1; completed++; }
	}
	int closed = rx_closed || hard || abandoned_partial;

	/* W5 */
	if (abandoned_partial) {
		CHECK(!VERIF_sk_open, "C14.H2 W5 a partly written request is not abandoned while the connection stays open");
		if (VERIF_sk_open) return;     /* the wire is broken from here on; what follows has no reference any more */
	}
	CHECK(VERIF_sk_misuse == 0, "C14.H2 no call on a closed or foreign descriptor");
	CHECK(VERIF_sk_tx_calls == k && VERIF_sk_tx_overrun == 0, "C14.H2 send is called exactly as often as the reference needs: no retry after would-block or error, nothing after the limit");
	/* W1 */
	int w = (VERIF_sk_out_len == nw && VERIF_sk_out_overflow == 0);
	for (unsigned b = 0; b < MAXREQ * MAXLEN; b++) if (w && b < nw && VERIF_sk_out[b] != wire[b]) w = 0;
	CHECK(w, "C14.H2 W1 bytes written continue the head at raw+sentCount and then whole requests in queue order");
	/* W2 */
	unsigned qi = 0; int order = 1;
	for (unsigned i = 0; i < MAXREQ; i++) {
		if (i >= nreq) continue;
		if (done[i]) {
			CHECK(hs[i].state == KSI_ASYNC_STATE_WAITING_FOR_RESPONSE && hs[i].raw == NULL && hs[i].len == 0 && hs[i].sentCount == 0 && hs[i].sndTime == NOW && hs[i].ref == 1,
				"C14.H2 W2 a completely written request waits for its response, is released and dequeued");
		} else if (dropped[i]) {
			CHECK(hs[i].ref == 1, "C14.H2 W2 an abandoned request is dequeued");
			if (cls[i] == 2) CHECK(hs[i].state == KSI_ASYNC_STATE_ERROR && hs[i].err == KSI_NETWORK_SEND_TIMEOUT, "C14.H2 W2 send timeout is reported on the request");
		} else {
			KSI_AsyncHandle *q = NULL;
			int r2 = KSI_AsyncHandleList_elementAt(t->reqQueue, qi, &q);
			if (r2 != KSI_OK || q != &hs[i]) order = 0;
			qi++;
			int same = (hs[i].raw == raw[i] && hs[i].len == len[i] && hs[i].ref == 2);
			for (unsigned b = 0; b < MAXLEN; b++) if (same && b < len[i] && raw[i][b] != img[i][b]) same = 0;
			CHECK(same, "C14.H2 W2 a request that is not finished keeps its serialized bytes");
			if (!closed) CHECK(hs[i].sentCount == pos[i] && hs[i].state == KSI_ASYNC_STATE_WAITING_FOR_DISPATCH, "C14.H2 W2 sentCount advances by exactly the bytes accepted; would-block does not reset it");
			/* W6 */
			if (closed) CHECK(hs[i].sentCount == 0, "C14.H2 W6 after the connection is closed every queued request restarts from its first byte so that it travels whole on a fresh connection");
		}
	}
	CHECK(order && KSI_AsyncHandleList_length(t->reqQueue) == qi, "C14.H2 W2 the queue keeps exactly the unfinished requests in submission order");
	CHECK(VERIF_handle_destroyed == 0, "C14.H2 no request object is destroyed");
	if (!closed) CHECK(t->roundCount == (elapsed && nreq > 0 && (revents & POLLOUT) ? 0 : rc0) + completed, "C14.H2 W2 roundCount counts the requests completed in this round");
	/* W3 / W4 */
	if (closed) {
		CHECK(res == KSI_ASYNC_CONNECTION_CLOSED, "C14.H2 W4 a hard error, peer close or local close is reported as CONNECTION_CLOSED");
		CHECK(!VERIF_sk_open && VERIF_sk_closes == 1 && t->sockfd == KSI_INVALID_SOCKET, "C14.H2 W4 the socket is closed once and marked invalid");
	} else {
		CHECK(res == KSI_OK, "C14.H2 W3 would-block, throttling and partial sends fail nothing: KSI_OK");
		CHECK(VERIF_sk_open && VERIF_sk_closes == 0 && t->sockfd == VERIF_sk_fd, "C14.H2 W3 the connection stays open");
		CHECK(t->inLen == L0, "C14.H2 buffered input untouched");
	}
	(void)blocked;
}

void harness(void) {
	unsigned sel = ND(unsigned, shape_sel);
	ASSUME(sel < NSHAPES);
	switch (sel) {
#define S(id, nreq, rq, ntx, tx, rev, l0, rxterm, rc0, maxc, elapsed) case id: scenario(nreq, rq_##id, ntx, tx_##id, rev, l0, rxterm, rc0, maxc, elapsed); WITNESS_POINT("shape " #id " ran to its end"); break;
	SHAPES
#undef S
	default: break;
	}
}
