/* PKI model (DESIGN 3.4): replaces pkitruststore_openssl.c for the C04 KEY rules.
 * OpenSSL (X.509 parsing, RSA/PKCS#1, digest selection by OID) is NOT analysed; it is an oracle:
 *  - a certificate is an opaque object carrying a validity window of two arbitrary 64-bit times
 *  - KSI_PKITruststore_verifyRawSignature records exactly what it was asked to verify and returns the
 *    verdict the harness chose (KSI_OK = signature verifies; anything else = it does not / cannot). */
#ifndef VERIF_PKI_MODEL_H_
#define VERIF_PKI_MODEL_H_
#include "internal.h"
#include "pkitruststore.h"
#ifndef PKI_DATA_MAX
#define PKI_DATA_MAX 64
#endif
struct KSI_PKICertificate_st {
	KSI_CTX *ctx;
	KSI_uint64_t notBefore, notAfter;
};
struct pki_raw_call {
	unsigned calls;
	size_t data_len; unsigned char data[PKI_DATA_MAX]; int data_overflow;
	const char *oid;
	const unsigned char *sig; size_t sig_len;
	const KSI_PKICertificate *cert;
};
extern struct pki_raw_call VERIF_pki_raw;
extern int VERIF_pki_raw_verdict;       /* set by the harness (symbolic) */
extern unsigned VERIF_pki_cert_frees;
KSI_PKICertificate *VERIF_pki_mk_cert(KSI_CTX *ctx, KSI_uint64_t notBefore, KSI_uint64_t notAfter);
void VERIF_pki_init(void);
#endif
