/* C04 H-b: the REAL rule tables calendarBasedRules / keyBasedRules / publicationsFileBasedRules /
 * userProvidedPublicationBasedRules / generalRules (and internalRules below them) evaluated by the REAL Rule_verify /
 * Policy_verifySignature of policy.c over a symbolic FACT VECTOR F.  Every KSI_VerificationRule_* symbol is a stub
 * (common/rule_stubs.h) whose outcome is a function of F.  The mapping rule -> fact below is written from the
 * documented meaning of each rule (verification_rule.h) and of the PUB-01..05 / CAL-01..04 / KEY-02..03 codes
 * (policy.h); that each real rule behaves like its stub is the subject of the per-rule harnesses (h_*.c).
 *
 * Facts
 *   presence     : document hash given, RFC3161 record, calendar chain, publication record, calendar auth record,
 *                  user publication pointer given / complete (time and imprint), extending allowed
 *   internal     : 21 consistency conditions, each HOLDS / VIOLATED / UNCOMPUTABLE (as C01 H-b)
 *   signature    : sigDepr  = a calendar-chain hash algorithm was deprecated at publication time
 *   user pub     : up_timeEq, up_hashEq (signature publication vs user publication), up_before (aggregation time earlier
 *                  than the user publication), upx = outcome of extending to the user publication (0 chain obtained,
 *                  1 unavailable: inconclusive without error status, 2 failed with error status upx_res, 3 the extender answered
 *                  without a chain: the fetching rule is satisfied but nothing is buffered and every comparing rule then refuses with an
 *                  error status),
 *                  upx_depr / upx_root / upx_ptime / upx_atime / upx_input = the obtained chain is built with a deprecated
 *                  algorithm / reproduces the user publication hash / has the user publication time / has the signature's
 *                  aggregation time / starts from the signature's aggregation root
 *   pub file     : pf = availability of the publications file (0/1/2 as above), pf_hasTime = file has a record at the
 *                  signature's publication time, pf_hasPub = file has the signature's publication (time and hash),
 *                  pf_suitable = file has a publication at or after the aggregation time, pfx* = as upx* for the nearest publication
 *   key          : certFound, certValid (at aggregation time), pkiOk (PKI signature over the published data verifies)
 *   calendar     : chx / csx = outcome of extending to head / to the calendar chain's own publication time,
 *                  cx_root (same root as the signature's chain), cx_rlinks (same right links), cx_input, cx_atime
 *   per anchor rule a "cannot compute" flag: the rule then reports NA with an arbitrary status (error or KSI_OK).
 *
 * Oracle: an independent decision procedure per policy (ref_* below, written from the property statement and the
 * tutorial description of the policies) yields the SET of admissible verdicts; with no flag set the real verdict
 * must be in the set (singleton except where two contradictions or a contradiction and a deprecated algorithm coincide);
 * with flags:  OK => Internal(F) & Anchored(F);  FAIL => code of a contradiction that really holds;  error status =>
 * originates from a failing fetch or a rule that could not compute. */
#include "verif.h"
#include "internal.h"
#include "verification_rule.h"
#include "impl/policy_impl.h"
#include "ctx.h"
#include "verif_post.h"
#include "rule_stubs.h"
#include "policy.c"
/* secondary witness points are only compiled in the thorough tier (-DWITNESS_ALL): every witness costs a solver call plus a full trace */
#ifdef WITNESS_ALL
#define WITNESS_EXTRA(msg) WITNESS_POINT(msg)
#else
#define WITNESS_EXTRA(msg) ((void)0)
#endif

#define P_CAL 0
#define P_KEY 1
#define P_PUBFILE 2
#define P_USER 3
#define P_GENERAL 4
#ifndef POLICY
#define POLICY P_GENERAL
#endif
#ifndef FLAGS
#define FLAGS 1          /* 0: no "cannot compute" flags (exact reference only) */
#endif

enum { HOLDS = 0, VIOLATED = 1, UNCOMPUTABLE = 2 };
#define OKv KSI_VER_RES_OK
#define NAv KSI_VER_RES_NA
#define FAILv KSI_VER_RES_FAIL

/* internal conditions: id, checking rule, documented code (policy.h INT-xx / GEN-xx descriptions), applicable when */
#define COND_LIST(X) \
	X(0,  InputHashAlgorithmVerification,                 KSI_VER_ERR_GEN_4,  docGiven) \
	X(1,  DocumentHashVerification,                       KSI_VER_ERR_GEN_1,  docGiven) \
	X(2,  AggregationChainInputLevelVerification,         KSI_VER_ERR_GEN_3,  1) \
	X(3,  AggregationChainInputHashAlgorithmVerification, KSI_VER_ERR_INT_13, 1) \
	X(4,  Rfc3161RecordHashAlgorithmVerification,         KSI_VER_ERR_INT_14, hasRfc) \
	X(5,  Rfc3161RecordOutputHashAlgorithmVerification,   KSI_VER_ERR_INT_17, hasRfc) \
	X(6,  AggregationChainInputHashVerification,          KSI_VER_ERR_INT_1,  hasRfc) \
	X(7,  AggregationChainMetaDataVerification,           KSI_VER_ERR_INT_11, 1) \
	X(8,  AggregationChainHashAlgorithmVerification,      KSI_VER_ERR_INT_15, 1) \
	X(9,  AggregationHashChainIndexContinuation,          KSI_VER_ERR_INT_12, 1) \
	X(10, AggregationHashChainTimeConsistency,            KSI_VER_ERR_INT_2,  1) \
	X(11, AggregationHashChainConsistency,                KSI_VER_ERR_INT_1,  1) \
	X(12, AggregationHashChainIndexConsistency,           KSI_VER_ERR_INT_10, 1) \
	X(13, CalendarHashChainInputHashVerification,         KSI_VER_ERR_INT_3,  hasCal) \
	X(14, CalendarHashChainAggregationTime,               KSI_VER_ERR_INT_4,  hasCal) \
	X(15, CalendarHashChainRegistrationTime,              KSI_VER_ERR_INT_5,  hasCal) \
	X(16, CalendarChainHashAlgorithmObsoleteAtPubTime,    KSI_VER_ERR_INT_16, hasCal) \
	X(17, SignaturePublicationRecordPublicationHash,      KSI_VER_ERR_INT_9,  hasPub) \
	X(18, SignaturePublicationRecordPublicationTime,      KSI_VER_ERR_INT_7,  hasPub) \
	X(19, CalendarAuthenticationRecordAggregationHash,    KSI_VER_ERR_INT_8,  hasAuth) \
	X(20, CalendarAuthenticationRecordAggregationTime,    KSI_VER_ERR_INT_6,  hasAuth)
#define NCOND 21

/* the verifying / fetching anchor rules (everything that is not a pure presence probe) */
#define ANCHOR_LIST(X) \
	X(ExtendedSignatureCalendarChainRightLinksMatch) X(ExtendedSignatureCalendarChainRootHash) \
	X(ExtendSignatureCalendarChainInputHashToHead) X(ExtendSignatureCalendarChainInputHashToSamePubTime) \
	X(ExtendedSignatureCalendarChainInputHash) X(ExtendedSignatureCalendarChainAggregationTime) \
	X(CalendarHashChainHashAlgorithmDeprecatedAtPubTime) X(CertificateExistence) X(CertificateValidity) \
	X(CalendarAuthenticationRecordSignatureVerification) \
	X(PublicationsFileContainsSignaturePublication) X(PublicationsFileDoesNotContainSignaturePublication) \
	X(PublicationsFileSignaturePublicationVerification) X(PublicationsFileSignatureCalendarChainHashAlgorithmDeprecatedAtPubTime) \
	X(PublicationsFileContainsSuitablePublication) X(PublicationsFileExtendToPublication) \
	X(PublicationsFileExtendedCalendarChainHashAlgorithmDeprecatedAtPubTime) X(PublicationsFilePublicationHashMatchesExtenderResponse) \
	X(PublicationsFilePublicationTimeMatchesExtenderResponse) X(PublicationsFileExtendedSignatureInputHash) \
	X(UserProvidedPublicationTimeVerification) X(UserProvidedPublicationHashVerification) \
	X(UserProvidedPublicationSignatureCalendarChainHashAlgorithmDeprecatedAtPubTime) X(UserProvidedPublicationCreationTimeVerification) \
	X(UserProvidedPublicationExtendToPublication) X(UserProvidedPublicationExtendedCalendarChainHashAlgorithmDeprecatedAtPubTime) \
	X(UserProvidedPublicationHashMatchesExtendedResponse) X(UserProvidedPublicationTimeMatchesExtendedResponse) \
	X(UserProvidedPublicationExtendedSignatureInputHash) X(UserProvidedPublicationTimeDoesNotSuit)

#define A_DECL(n) static _Bool a_flag_##n, a_prebad_##n; static int a_flagres_##n;
ANCHOR_LIST(A_DECL)

/* admissible verdict set */
enum { B_PUB1 = 1, B_PUB2 = 2, B_PUB3 = 4, B_PUB4 = 8, B_PUB5 = 16, B_KEY2 = 32, B_KEY3 = 64, B_CAL1 = 128, B_CAL2 = 256, B_CAL3 = 512, B_CAL4 = 1024 };
struct adm { _Bool ok, na, err; int err_res; unsigned fail; };
static unsigned code_bit(int ec) {
	switch (ec) {
		case KSI_VER_ERR_PUB_1: return B_PUB1; case KSI_VER_ERR_PUB_2: return B_PUB2; case KSI_VER_ERR_PUB_3: return B_PUB3;
		case KSI_VER_ERR_PUB_4: return B_PUB4; case KSI_VER_ERR_PUB_5: return B_PUB5;
		case KSI_VER_ERR_KEY_2: return B_KEY2; case KSI_VER_ERR_KEY_3: return B_KEY3;
		case KSI_VER_ERR_CAL_1: return B_CAL1; case KSI_VER_ERR_CAL_2: return B_CAL2; case KSI_VER_ERR_CAL_3: return B_CAL3; case KSI_VER_ERR_CAL_4: return B_CAL4;
		default: return 0;
	}
}
static struct adm A_OK(void) { struct adm a = {1, 0, 0, 0, 0}; return a; }
static struct adm A_NA(void) { struct adm a = {0, 1, 0, 0, 0}; return a; }
static struct adm A_ERR(int r) { struct adm a = {0, 0, 1, r, 0}; return a; }
/* contradictions `viol` (non-empty) -> FAIL with one of them; if an algorithm is deprecated as well, NA is admissible too */
static struct adm A_FAIL(unsigned viol, _Bool depr) { struct adm a = {0, depr, 0, 0, viol}; return a; }

/* ---- facts (file scope so that the reference functions read them) ---- */
static _Bool docGiven, hasRfc, hasCal, hasPub, hasAuth, userPubPtr, userPubComplete, extAllowed, sigDepr;
static _Bool up_timeEq, up_hashEq, up_before, upx_depr, upx_root, upx_ptime, upx_atime, upx_input;
static _Bool pf_hasTime, pf_hasPub, pf_suitable, pfx_depr, pfx_root, pfx_ptime, pfx_atime, pfx_input;
static _Bool certFound, certValid, pkiOk, cx_root, cx_rlinks, cx_input, cx_atime;
static u8 upx, pf, pfx, chx, csx;
static int upx_res, pf_res, pfx_res, chx_res, csx_res, nochain_res;

/* ---- reference decision procedures (anchor part only; internal verification is handled by the caller) ---- */
static struct adm ref_user(void) {
	if (!userPubComplete) return A_NA();                          /* no anchor */
	if (hasPub && up_timeEq) {                                    /* the signature carries a publication of the user's time */
		if (!up_hashEq) return A_FAIL(B_PUB4, sigDepr);
		return sigDepr ? A_NA() : A_OK();
	}
	if (!up_before || !extAllowed) return A_NA();                 /* extension impossible or forbidden */
	if (upx == 1) return A_NA();
	if (upx == 2) return A_ERR(upx_res);
	if (upx == 3) return A_ERR(nochain_res);
	unsigned v = (upx_root ? 0 : B_PUB1) | ((upx_ptime && upx_atime) ? 0 : B_PUB2) | (upx_input ? 0 : B_PUB3);
	if (v) return A_FAIL(v, upx_depr);
	return upx_depr ? A_NA() : A_OK();
}
static struct adm ref_pubfile(void) {
	if (pf == 1) return A_NA();
	if (pf == 2) return A_ERR(pf_res);
	if (hasPub && pf_hasTime) {
		if (!pf_hasPub) return A_FAIL(B_PUB5, sigDepr);
		return sigDepr ? A_NA() : A_OK();
	}
	if (!pf_suitable || !extAllowed) return A_NA();
	if (pfx == 1) return A_NA();
	if (pfx == 2) return A_ERR(pfx_res);
	if (pfx == 3) return A_ERR(nochain_res);
	unsigned v = (pfx_root ? 0 : B_PUB1) | ((pfx_ptime && pfx_atime) ? 0 : B_PUB2) | (pfx_input ? 0 : B_PUB3);
	if (v) return A_FAIL(v, pfx_depr);
	return pfx_depr ? A_NA() : A_OK();
}
static struct adm ref_key(void) {
	if (!hasCal || !hasAuth) return A_NA();
	if (sigDepr && (pf != 0 || !certFound)) return A_NA();
	if (pf == 1) return A_NA();
	if (pf == 2) { struct adm a = A_ERR(pf_res); a.na = sigDepr; return a; }
	if (!certFound) return A_NA();
	unsigned v = (certValid ? 0 : B_KEY3) | (pkiOk ? 0 : B_KEY2);
	if (v) return A_FAIL(v, sigDepr);
	return sigDepr ? A_NA() : A_OK();
}
static struct adm ref_cal(void) {
	u8 x = hasCal ? csx : chx;
	if (x == 1) return A_NA();
	if (x == 2) return A_ERR(hasCal ? csx_res : chx_res);
	if (x == 3) return A_ERR(nochain_res);
	unsigned v = (cx_input ? 0 : B_CAL2) | (cx_atime ? 0 : B_CAL3);
	if (hasCal) v |= hasPub ? (cx_root ? 0 : B_CAL1) : (cx_rlinks ? 0 : B_CAL4);
	return v ? A_FAIL(v, 0) : A_OK();
}
static struct adm ref_general(void) {
	if (userPubPtr) return ref_user();                            /* a supplied user publication is the only anchor tried */
	struct adm a = ref_pubfile();
	if (a.na) {                                                    /* inconclusive with the publications file: key-based next */
		struct adm k = ref_key();
		a.na = k.na; a.ok = a.ok || k.ok; a.fail |= k.fail;
		if (k.err) { a.err = 1; a.err_res = k.err_res; }
	}
	return a;
}
/* Anchored_policy(F): the property statement's binding of the calendar root to the anchor (no deprecation, no ordering) */
static _Bool anch_user(void) { return userPubComplete && ((hasPub && up_timeEq && up_hashEq) || (extAllowed && upx == 0 && upx_root && upx_ptime && upx_atime && upx_input)); }
static _Bool anch_pubfile(void) { return pf == 0 && ((hasPub && pf_hasPub) || (extAllowed && pfx == 0 && pfx_root && pfx_ptime && pfx_atime && pfx_input)); }
static _Bool anch_key(void) { return hasCal && hasAuth && pf == 0 && certFound && certValid && pkiOk; }
static _Bool anch_cal(void) { return (hasCal ? csx : chx) == 0 && cx_input && cx_atime && (!hasCal || (hasPub ? cx_root : cx_rlinks)); }

void harness(void) {
	VERIF_ctx_init();
	KSI_CTX *ctx = VERIF_ctx;

	/* ---- facts ---- */
	docGiven = ND_BOOL(docGiven); hasRfc = ND_BOOL(hasRfc); hasCal = ND_BOOL(hasCal); hasPub = ND_BOOL(hasPub); hasAuth = ND_BOOL(hasAuth);
	/* well-formed signature (signature_builder.c checkSignatureInternals): no publication / auth record without calendar chain, never both */
	ASSUME(!(hasPub && hasAuth));
	ASSUME(hasCal || (!hasPub && !hasAuth));
	userPubPtr = ND_BOOL(userPubPtr); userPubComplete = ND_BOOL(userPubComplete);
	ASSUME(!userPubComplete || userPubPtr);
	extAllowed = ND_BOOL(extAllowed); sigDepr = ND_BOOL(sigDepr);
	up_timeEq = ND_BOOL(up_timeEq); up_hashEq = ND_BOOL(up_hashEq); up_before = ND_BOOL(up_before);
	upx_depr = ND_BOOL(upx_depr); upx_root = ND_BOOL(upx_root); upx_ptime = ND_BOOL(upx_ptime); upx_atime = ND_BOOL(upx_atime); upx_input = ND_BOOL(upx_input);
	pf_hasTime = ND_BOOL(pf_hasTime); pf_hasPub = ND_BOOL(pf_hasPub); pf_suitable = ND_BOOL(pf_suitable);
	ASSUME(!pf_hasPub || pf_hasTime);      /* a record equal in time and hash is a record of that time */
	pfx_depr = ND_BOOL(pfx_depr); pfx_root = ND_BOOL(pfx_root); pfx_ptime = ND_BOOL(pfx_ptime); pfx_atime = ND_BOOL(pfx_atime); pfx_input = ND_BOOL(pfx_input);
	certFound = ND_BOOL(certFound); certValid = ND_BOOL(certValid); pkiOk = ND_BOOL(pkiOk);
	cx_root = ND_BOOL(cx_root); cx_rlinks = ND_BOOL(cx_rlinks); cx_input = ND_BOOL(cx_input); cx_atime = ND_BOOL(cx_atime);
	upx = ND(u8, upx); pf = ND(u8, pf); pfx = ND(u8, pfx); chx = ND(u8, chx); csx = ND(u8, csx);
	ASSUME(upx <= 3 && pf <= 2 && pfx <= 3 && chx <= 3 && csx <= 3);
	upx_res = ND(int, upx_res); pf_res = ND(int, pf_res); pfx_res = ND(int, pfx_res); chx_res = ND(int, chx_res); csx_res = ND(int, csx_res);
	ASSUME(upx_res != KSI_OK && pf_res != KSI_OK && pfx_res != KSI_OK && chx_res != KSI_OK && csx_res != KSI_OK);
	nochain_res = ND(int, nochain_res); ASSUME(nochain_res != KSI_OK);      /* status of a comparing rule that finds no buffered chain */
	u8 st[NCOND]; int unc_res[NCOND]; int unc_ec[NCOND];
	for (int i = 0; i < NCOND; i++) {
		st[i] = ND(u8, cond_state); ASSUME(st[i] <= UNCOMPUTABLE);
		unc_res[i] = ND(int, unc_res); unc_ec[i] = ND(int, unc_ec);
	}

	/* ---- leaf rule outcomes as functions of the facts ---- */
	vr_havoc_all();
	int na_ec = ND(int, na_ec);            /* error code carried by inconclusive results: any value (the property does not fix it) */
	int pre_res = ND(int, pre_res); ASSUME(pre_res != KSI_OK);      /* status of a rule called without the component it reads */
#define PRESENT(rule, present) VR_SET(rule, KSI_OK, (present) ? OKv : NAv, (present) ? KSI_VER_ERR_NONE : na_ec)
	PRESENT(DocumentHashDoesNotExist, !docGiven);
	PRESENT(DocumentHashExistence, docGiven);
	PRESENT(Rfc3161DoesNotExist, !hasRfc);
	PRESENT(Rfc3161Existence, hasRfc);
	PRESENT(CalendarHashChainDoesNotExist, !hasCal);
	PRESENT(CalendarHashChainExistence, hasCal);
	PRESENT(SignatureDoesNotContainPublication, !hasPub);
	PRESENT(SignaturePublicationRecordExistence, hasPub);
	PRESENT(SignaturePublicationRecordMissing, !hasPub);
	PRESENT(CalendarAuthenticationRecordDoesNotExist, !hasAuth);
	PRESENT(CalendarAuthenticationRecordExistence, hasAuth);
	PRESENT(CalendarHashChainPresenceVerification, hasCal);
	PRESENT(CalendarAuthenticationRecordPresenceVerification, hasAuth);
	PRESENT(UserProvidedPublicationExistence, userPubComplete);
	PRESENT(RequireNoUserProvidedPublication, !userPubPtr);
	PRESENT(PublicationsFileExtendingPermittedVerification, extAllowed);
	PRESENT(UserProvidedPublicationExtendingPermittedVerification, extAllowed);
#define X(id, rule, code, app) \
	if (!(app) || st[id] == HOLDS) VR_SET(rule, KSI_OK, OKv, KSI_VER_ERR_NONE); \
	else if (st[id] == VIOLATED) VR_SET(rule, KSI_OK, FAILv, code); \
	else VR_SET(rule, unc_res[id], NAv, unc_ec[id]);
	COND_LIST(X)
#undef X

	unsigned n_flag = 0;
	/* ANCHOR(rule, precondition, outcome when computable): flagged -> (any status, NA); called without its component -> error */
#define ANCHOR(rule, pre, SET_COMPUTABLE) do { \
		_Bool f_ = FLAGS ? ND_BOOL(a_flag) : 0; int fr_ = ND(int, a_flag_res); int fe_ = ND(int, a_flag_ec); \
		a_flag_##rule = f_; a_flagres_##rule = fr_; a_prebad_##rule = !(pre); \
		if (f_) { n_flag++; VR_SET(rule, fr_, NAv, fe_); } \
		else if (!(pre)) VR_SET(rule, pre_res, NAv, na_ec); \
		else { SET_COMPUTABLE; } \
	} while (0)
#define VERIFY(rule, holds, code) VR_SET(rule, KSI_OK, (holds) ? OKv : FAILv, (holds) ? KSI_VER_ERR_NONE : (code))
	/* comparing rule on the buffered extender chain: refuses with an error status when nothing is buffered */
#define ON_CHAIN(rule, have, SET_WITH_CHAIN) do { if (have) { SET_WITH_CHAIN; } else VR_SET(rule, nochain_res, NAv, na_ec); } while (0)
#define PROBE(rule, holds) VR_SET(rule, KSI_OK, (holds) ? OKv : NAv, (holds) ? KSI_VER_ERR_NONE : na_ec)
#define FETCH(rule, x, xres) do { if ((x) == 0 || (x) == 3) VR_SET(rule, KSI_OK, OKv, KSI_VER_ERR_NONE); else if ((x) == 1) VR_SET(rule, KSI_OK, NAv, na_ec); else VR_SET(rule, xres, NAv, na_ec); } while (0)
	/* rules reading the publications file share its availability */
#define WITH_PF(rule, SET_AVAILABLE) do { if (pf == 0) { SET_AVAILABLE; } else FETCH(rule, pf, pf_res); } while (0)

	/* calendar-based: "the calendar hash chain from extending service must be buffered prior to verification" */
	_Bool cx_have = hasCal ? (csx == 0) : (chx == 0);                     /* a chain is buffered */
	_Bool cx_got = hasCal ? (csx == 0 || csx == 3) : (chx == 0 || chx == 3);  /* the fetching rule was satisfied */
	ANCHOR(ExtendSignatureCalendarChainInputHashToHead, 1, FETCH(ExtendSignatureCalendarChainInputHashToHead, chx, chx_res));
	ANCHOR(ExtendSignatureCalendarChainInputHashToSamePubTime, hasCal, FETCH(ExtendSignatureCalendarChainInputHashToSamePubTime, csx, csx_res));
	ANCHOR(ExtendedSignatureCalendarChainRightLinksMatch, hasCal && cx_got, ON_CHAIN(ExtendedSignatureCalendarChainRightLinksMatch, cx_have, VERIFY(ExtendedSignatureCalendarChainRightLinksMatch, cx_rlinks, KSI_VER_ERR_CAL_4)));
	ANCHOR(ExtendedSignatureCalendarChainRootHash, hasCal && cx_got, ON_CHAIN(ExtendedSignatureCalendarChainRootHash, cx_have, VERIFY(ExtendedSignatureCalendarChainRootHash, cx_root, KSI_VER_ERR_CAL_1)));
	ANCHOR(ExtendedSignatureCalendarChainInputHash, cx_got, ON_CHAIN(ExtendedSignatureCalendarChainInputHash, cx_have, VERIFY(ExtendedSignatureCalendarChainInputHash, cx_input, KSI_VER_ERR_CAL_2)));
	ANCHOR(ExtendedSignatureCalendarChainAggregationTime, cx_got, ON_CHAIN(ExtendedSignatureCalendarChainAggregationTime, cx_have, VERIFY(ExtendedSignatureCalendarChainAggregationTime, cx_atime, KSI_VER_ERR_CAL_3)));
	/* key-based */
	ANCHOR(CalendarHashChainHashAlgorithmDeprecatedAtPubTime, hasCal, PROBE(CalendarHashChainHashAlgorithmDeprecatedAtPubTime, !sigDepr));
	ANCHOR(CertificateExistence, hasAuth, WITH_PF(CertificateExistence, PROBE(CertificateExistence, certFound)));
	ANCHOR(CertificateValidity, hasAuth && hasCal && (pf != 0 || certFound), WITH_PF(CertificateValidity, VERIFY(CertificateValidity, certValid, KSI_VER_ERR_KEY_3)));
	ANCHOR(CalendarAuthenticationRecordSignatureVerification, hasAuth && (pf != 0 || certFound),
			WITH_PF(CalendarAuthenticationRecordSignatureVerification, VERIFY(CalendarAuthenticationRecordSignatureVerification, pkiOk, KSI_VER_ERR_KEY_2)));
	/* publications file based */
	ANCHOR(PublicationsFileContainsSignaturePublication, hasPub, WITH_PF(PublicationsFileContainsSignaturePublication, PROBE(PublicationsFileContainsSignaturePublication, pf_hasTime)));
	ANCHOR(PublicationsFileDoesNotContainSignaturePublication, hasPub, WITH_PF(PublicationsFileDoesNotContainSignaturePublication, PROBE(PublicationsFileDoesNotContainSignaturePublication, !pf_hasTime)));
	ANCHOR(PublicationsFileSignaturePublicationVerification, hasPub, WITH_PF(PublicationsFileSignaturePublicationVerification, VERIFY(PublicationsFileSignaturePublicationVerification, pf_hasPub, KSI_VER_ERR_PUB_5)));
	ANCHOR(PublicationsFileSignatureCalendarChainHashAlgorithmDeprecatedAtPubTime, hasCal, PROBE(PublicationsFileSignatureCalendarChainHashAlgorithmDeprecatedAtPubTime, !sigDepr));
	ANCHOR(PublicationsFileContainsSuitablePublication, 1, WITH_PF(PublicationsFileContainsSuitablePublication, PROBE(PublicationsFileContainsSuitablePublication, pf_suitable)));
	ANCHOR(PublicationsFileExtendToPublication, pf != 0 || pf_suitable, WITH_PF(PublicationsFileExtendToPublication, FETCH(PublicationsFileExtendToPublication, pfx, pfx_res)));
	_Bool pfx_got = (pf != 0) || (pf_suitable && (pfx == 0 || pfx == 3));
	_Bool pfx_have = (pfx == 0);
	ANCHOR(PublicationsFileExtendedCalendarChainHashAlgorithmDeprecatedAtPubTime, pfx_got,
			WITH_PF(PublicationsFileExtendedCalendarChainHashAlgorithmDeprecatedAtPubTime, ON_CHAIN(PublicationsFileExtendedCalendarChainHashAlgorithmDeprecatedAtPubTime, pfx_have, PROBE(PublicationsFileExtendedCalendarChainHashAlgorithmDeprecatedAtPubTime, !pfx_depr))));
	ANCHOR(PublicationsFilePublicationHashMatchesExtenderResponse, pfx_got,
			WITH_PF(PublicationsFilePublicationHashMatchesExtenderResponse, ON_CHAIN(PublicationsFilePublicationHashMatchesExtenderResponse, pfx_have, VERIFY(PublicationsFilePublicationHashMatchesExtenderResponse, pfx_root, KSI_VER_ERR_PUB_1))));
	/* documented as "publication time matches with extender response calendar chain shape" for both anchors: publication time
	 * and the position (aggregation time) the chain shape stands for */
	ANCHOR(PublicationsFilePublicationTimeMatchesExtenderResponse, pfx_got,
			WITH_PF(PublicationsFilePublicationTimeMatchesExtenderResponse, ON_CHAIN(PublicationsFilePublicationTimeMatchesExtenderResponse, pfx_have, VERIFY(PublicationsFilePublicationTimeMatchesExtenderResponse, pfx_ptime && pfx_atime, KSI_VER_ERR_PUB_2))));
	ANCHOR(PublicationsFileExtendedSignatureInputHash, pfx_got,
			WITH_PF(PublicationsFileExtendedSignatureInputHash, ON_CHAIN(PublicationsFileExtendedSignatureInputHash, pfx_have, VERIFY(PublicationsFileExtendedSignatureInputHash, pfx_input, KSI_VER_ERR_PUB_3))));
	/* user publication based */
	_Bool upx_have = (upx == 0), upx_got = (upx == 0 || upx == 3);
	ANCHOR(UserProvidedPublicationTimeVerification, hasPub && userPubComplete, PROBE(UserProvidedPublicationTimeVerification, up_timeEq));
	/* "user provided publication time does not equal the publication time inside the signature" (also when there is none) */
	ANCHOR(UserProvidedPublicationTimeDoesNotSuit, userPubPtr, PROBE(UserProvidedPublicationTimeDoesNotSuit, !(hasPub && up_timeEq)));
	ANCHOR(UserProvidedPublicationHashVerification, hasPub && userPubComplete, VERIFY(UserProvidedPublicationHashVerification, up_hashEq, KSI_VER_ERR_PUB_4));
	ANCHOR(UserProvidedPublicationSignatureCalendarChainHashAlgorithmDeprecatedAtPubTime, hasCal, PROBE(UserProvidedPublicationSignatureCalendarChainHashAlgorithmDeprecatedAtPubTime, !sigDepr));
	ANCHOR(UserProvidedPublicationCreationTimeVerification, userPubComplete, PROBE(UserProvidedPublicationCreationTimeVerification, up_before));
	ANCHOR(UserProvidedPublicationExtendToPublication, userPubComplete, FETCH(UserProvidedPublicationExtendToPublication, upx, upx_res));
	ANCHOR(UserProvidedPublicationExtendedCalendarChainHashAlgorithmDeprecatedAtPubTime, userPubComplete && upx_got, ON_CHAIN(UserProvidedPublicationExtendedCalendarChainHashAlgorithmDeprecatedAtPubTime, upx_have, PROBE(UserProvidedPublicationExtendedCalendarChainHashAlgorithmDeprecatedAtPubTime, !upx_depr)));
	ANCHOR(UserProvidedPublicationHashMatchesExtendedResponse, userPubComplete && upx_got, ON_CHAIN(UserProvidedPublicationHashMatchesExtendedResponse, upx_have, VERIFY(UserProvidedPublicationHashMatchesExtendedResponse, upx_root, KSI_VER_ERR_PUB_1)));
	ANCHOR(UserProvidedPublicationTimeMatchesExtendedResponse, userPubComplete && upx_got, ON_CHAIN(UserProvidedPublicationTimeMatchesExtendedResponse, upx_have, VERIFY(UserProvidedPublicationTimeMatchesExtendedResponse, upx_ptime && upx_atime, KSI_VER_ERR_PUB_2)));
	ANCHOR(UserProvidedPublicationExtendedSignatureInputHash, userPubComplete && upx_got, ON_CHAIN(UserProvidedPublicationExtendedSignatureInputHash, upx_have, VERIFY(UserProvidedPublicationExtendedSignatureInputHash, upx_input, KSI_VER_ERR_PUB_3)));

	/* ---- the real engine on the real tables ---- */
	KSI_VerificationContext vc;
	int r0 = KSI_VerificationContext_init(&vc, ctx);
	ASSUME(r0 == KSI_OK);
	KSI_PolicyVerificationResult pr;
	memset(&pr, 0, sizeof(pr));
	pr.ref = 1;
	KSI_RuleVerificationResult_init(&pr.finalResult);
	pr.ruleResults = NULL;      /* per-rule bookkeeping list off: Rule_verify ignores its outcome */
	pr.policyResults = NULL;
	const KSI_Policy *pol =
		POLICY == P_CAL ? KSI_VERIFICATION_POLICY_CALENDAR_BASED :
		POLICY == P_KEY ? KSI_VERIFICATION_POLICY_KEY_BASED :
		POLICY == P_PUBFILE ? KSI_VERIFICATION_POLICY_PUBLICATIONS_FILE_BASED :
		POLICY == P_USER ? KSI_VERIFICATION_POLICY_USER_PUBLICATION_BASED : KSI_VERIFICATION_POLICY_GENERAL;
	int res = Policy_verifySignature(pol, &vc, &pr);
	int rc = pr.finalResult.resultCode, ec = pr.finalResult.errorCode;
	_Bool final_ok = (res == KSI_OK && rc == OKv), final_fail = (res == KSI_OK && rc == FAILv), final_na = (res == KSI_OK && rc == NAv);
	CHECK(rc == OKv || rc == NAv || rc == FAILv, "C04.Hb result code is one of OK, NA, FAIL");
	CHECK(res == KSI_OK || rc == NAv, "C04.Hb an error status never comes with a verdict other than NA");

	/* ---- internal verification reference (as C01 H-b) ---- */
	unsigned i_viol = 0, i_unc = 0; _Bool i_code_matches = 0, i_res_matches = 0;
#define X(id, rule, code, app) if (app) { \
		if (st[id] == VIOLATED) { i_viol++; if (ec == (code)) i_code_matches = 1; } \
		if (st[id] == UNCOMPUTABLE) { i_unc++; if (unc_res[id] == res) i_res_matches = 1; } }
	COND_LIST(X)
#undef X
	_Bool internal_ok = (i_viol == 0 && i_unc == 0);

	/* ---- anchor reference ---- */
	struct adm a = POLICY == P_CAL ? ref_cal() : POLICY == P_KEY ? ref_key() : POLICY == P_PUBFILE ? ref_pubfile() : POLICY == P_USER ? ref_user() : ref_general();
	_Bool anchored =
		POLICY == P_CAL ? anch_cal() : POLICY == P_KEY ? anch_key() : POLICY == P_PUBFILE ? anch_pubfile() : POLICY == P_USER ? anch_user() :
		(userPubPtr ? anch_user() : (anch_pubfile() || anch_key()));
	/* contradictions that really hold (component present, chain obtained), whatever path was taken */
	unsigned really = 0;
	if (hasPub && userPubComplete && !up_hashEq) really |= B_PUB4;
	if (userPubComplete && upx == 0) really |= (upx_root ? 0 : B_PUB1) | ((upx_ptime && upx_atime) ? 0 : B_PUB2) | (upx_input ? 0 : B_PUB3);
	if (hasPub && pf == 0 && !pf_hasPub) really |= B_PUB5;
	if (pf == 0 && pf_suitable && pfx == 0) really |= (pfx_root ? 0 : B_PUB1) | ((pfx_ptime && pfx_atime) ? 0 : B_PUB2) | (pfx_input ? 0 : B_PUB3);
	if (hasAuth && hasCal && pf == 0 && certFound) really |= (certValid ? 0 : B_KEY3) | (pkiOk ? 0 : B_KEY2);
	if (cx_have) really |= (cx_input ? 0 : B_CAL2) | (cx_atime ? 0 : B_CAL3) | ((hasCal && !cx_root) ? B_CAL1 : 0) | ((hasCal && !cx_rlinks) ? B_CAL4 : 0);

	/* ---- the property ---- */
	/* (1) always, flags or not */
	CHECK(!final_ok || internal_ok, "C04.Hb a signature that fails internal verification is never OK");
	CHECK(!final_ok || anchored, "C04.Hb OK only if the calendar root is bound to the trust anchor of the policy");
	CHECK(!final_ok || ec == KSI_VER_ERR_NONE, "C04.Hb OK verdict carries no error code");
	CHECK(!final_fail || i_code_matches || (internal_ok && (code_bit(ec) & really) != 0), "C04.Hb FAIL carries the code of a contradiction that really holds");
	CHECK(!final_fail || !internal_ok || POLICY == P_GENERAL || (code_bit(ec) & (
			POLICY == P_CAL ? (B_CAL1 | B_CAL2 | B_CAL3 | B_CAL4) : POLICY == P_KEY ? (B_KEY2 | B_KEY3) :
			POLICY == P_PUBFILE ? (B_PUB1 | B_PUB2 | B_PUB3 | B_PUB5) : (B_PUB1 | B_PUB2 | B_PUB3 | B_PUB4))) != 0,
			"C04.Hb an anchor FAIL carries a code of the policy's own family");
	{
		_Bool explained = i_res_matches;
		if (pf == 2 && res == pf_res) explained = 1;
		if (pfx == 2 && res == pfx_res) explained = 1;
		if (upx == 2 && res == upx_res) explained = 1;
		if (chx == 2 && res == chx_res) explained = 1;
		if (csx == 2 && res == csx_res) explained = 1;
		if ((upx == 3 || pfx == 3 || chx == 3 || csx == 3) && res == nochain_res) explained = 1;
#define A_EXPL(n) if (a_flag_##n && VR_CALLS(n) > 0 && a_flagres_##n == res) explained = 1;
		ANCHOR_LIST(A_EXPL)
		CHECK(res == KSI_OK || explained, "C04.Hb an error status originates from a failed fetch or a rule that could not compute");
	}
	/* glue for the per-rule harnesses: a rule runs only when the component it reads is there (signature part, user publication,
	 * buffered extender chain, looked-up certificate) */
#define A_PRE(n) CHECK(!(a_prebad_##n && VR_CALLS(n) > 0), "C04.Hb rule " #n " runs only when the component it reads is present");
	ANCHOR_LIST(A_PRE)
	/* no extension request without permission under the publication based policies */
	CHECK(extAllowed || (VR_CALLS(PublicationsFileExtendToPublication) == 0 && VR_CALLS(UserProvidedPublicationExtendToPublication) == 0),
			"C04.Hb the publication based policies never extend when extending is not allowed");
	/* anchors of another policy are not consulted */
	if (POLICY == P_CAL || POLICY == P_KEY || POLICY == P_PUBFILE) CHECK(VR_CALLS(UserProvidedPublicationExistence) == 0 && VR_CALLS(UserProvidedPublicationHashVerification) == 0
			&& VR_CALLS(UserProvidedPublicationExtendToPublication) == 0, "C04.Hb user publication rules are not consulted by the other specific policies");
	if (POLICY == P_GENERAL && userPubPtr) CHECK(VR_CALLS(CertificateExistence) == 0 && VR_CALLS(PublicationsFileContainsSuitablePublication) == 0
			&& VR_CALLS(PublicationsFileContainsSignaturePublication) == 0, "C04.Hb general policy with a user publication consults no other anchor");
	if (POLICY != P_CAL) CHECK(VR_CALLS(ExtendSignatureCalendarChainInputHashToHead) == 0 && VR_CALLS(ExtendSignatureCalendarChainInputHashToSamePubTime) == 0,
			"C04.Hb only the calendar based policy extends without a publication");

	/* (2) no flag set, internal verification decided: the verdict is exactly the reference's */
	if (n_flag == 0 && i_unc == 0) {
		if (!internal_ok) {
			CHECK(final_fail && i_code_matches, "C04.Hb an internal contradiction yields FAIL with its internal code under every anchor policy");
		} else {
			_Bool in_set = (final_ok && a.ok) || (final_na && a.na) || (final_fail && (code_bit(ec) & a.fail) != 0) || (res != KSI_OK && a.err && res == a.err_res);
			CHECK(in_set, "C04.Hb verdict equals the reference: OK iff anchored, FAIL with the documented code on contradiction, NA or error otherwise");
			if (a.err && !a.na) CHECK(res == a.err_res && rc == NAv, "C04.Hb a failed fetch yields its error status with an inconclusive result");
		}
	}
	/* (3) internal verification could not be computed: error or NA, never a verdict */
	if (i_viol == 0 && i_unc > 0) CHECK(!final_ok && !final_fail, "C04.Hb uncomputable internal verification is never OK and never FAIL");

	/* ---- witnesses ---- */
#if POLICY == P_USER
	if (final_ok && userPubPtr && hasPub && up_timeEq) WITNESS_POINT("user publication equals the signature publication: OK");
	if (final_ok && userPubPtr && !hasPub) WITNESS_POINT("extended to user publication: OK");
	if (final_fail && ec == KSI_VER_ERR_PUB_4) WITNESS_POINT("user publication hash differs: PUB-04");
	if (final_fail && ec == KSI_VER_ERR_PUB_2 && userPubPtr) WITNESS_EXTRA("extender reply inconsistent with user publication: PUB-02");
	if (final_na && userPubComplete && internal_ok && !extAllowed && !hasPub) WITNESS_POINT("extending to user publication not allowed: NA");
	if (res != KSI_OK && n_flag == 0 && i_unc == 0 && upx == 2) WITNESS_EXTRA("extender failure: error status");
#endif
#if POLICY == P_PUBFILE
	if (final_ok && !userPubPtr && hasPub && pf_hasPub) WITNESS_POINT("signature publication found in publications file: OK");
	if (final_ok && !userPubPtr && !hasPub && pf == 0 && pfx == 0) WITNESS_POINT("extended to publications file publication: OK");
	if (final_fail && ec == KSI_VER_ERR_PUB_5) WITNESS_POINT("publications file has another hash for that time: PUB-05");
	if (final_fail && ec == KSI_VER_ERR_PUB_1 && !userPubPtr) WITNESS_EXTRA("extender root differs from publications file: PUB-01");
	if (final_fail && ec == KSI_VER_ERR_PUB_3 && !userPubPtr) WITNESS_EXTRA("extender input hash differs: PUB-03");
	if (final_na && internal_ok && pf == 0 && !hasPub && pf_suitable && !extAllowed) WITNESS_POINT("extending to publications file not allowed: NA");
	if (final_na && internal_ok && pf == 0 && !hasPub && pf_suitable && extAllowed && pfx == 1) WITNESS_EXTRA("extender unavailable: NA");
#endif
#if POLICY == P_KEY
	if (final_ok && hasAuth && !userPubPtr) WITNESS_POINT("key based: OK");
	if (final_fail && ec == KSI_VER_ERR_KEY_3) WITNESS_POINT("certificate not valid at aggregation time: KEY-03");
	if (final_fail && ec == KSI_VER_ERR_KEY_2) WITNESS_POINT("PKI signature wrong: KEY-02");
	if (final_na && internal_ok && hasAuth && pf == 0 && !certFound && !userPubPtr && n_flag == 0) WITNESS_POINT("certificate not found: NA");
#endif
#if POLICY == P_CAL
	if (res != KSI_OK && n_flag == 0 && i_unc == 0 && internal_ok && chx == 3 && !hasCal) WITNESS_POINT("calendar based, extender reply without chain: error status");
	if (final_ok && !hasCal) WITNESS_POINT("calendar based, extended to head: OK");
	if (final_ok && hasCal && hasPub) WITNESS_POINT("calendar based, same root: OK");
	if (final_ok && hasCal && !hasPub) WITNESS_EXTRA("calendar based, same right links: OK");
	if (final_fail && ec == KSI_VER_ERR_CAL_1) WITNESS_EXTRA("CAL-01");
	if (final_fail && ec == KSI_VER_ERR_CAL_2) WITNESS_EXTRA("CAL-02");
	if (final_fail && ec == KSI_VER_ERR_CAL_3) WITNESS_EXTRA("CAL-03");
	if (final_fail && ec == KSI_VER_ERR_CAL_4) WITNESS_POINT("CAL-04");
	if (final_na && internal_ok && n_flag == 0 && chx == 1 && !hasCal) WITNESS_EXTRA("calendar based, extender unavailable: NA");
#endif
#if POLICY == P_GENERAL
	if (final_ok && userPubPtr && hasPub && up_timeEq) WITNESS_POINT("general: user publication equals the signature publication: OK");
	if (final_fail && ec == KSI_VER_ERR_PUB_5) WITNESS_POINT("general: publications file has another hash for that time: PUB-05");
	if (final_fail && ec == KSI_VER_ERR_KEY_3 && !userPubPtr) WITNESS_POINT("general: key based KEY-03 after inconclusive publications file");
	if (final_na && userPubPtr && !userPubComplete && internal_ok) WITNESS_EXTRA("general: incomplete user publication: NA");
	if (final_ok && !userPubPtr && hasAuth && pf == 0 && !pf_suitable) WITNESS_POINT("general: falls through from publications file to key based");
#endif
#if POLICY == P_KEY
	if (!internal_ok && i_unc == 0 && final_fail) WITNESS_POINT("internal contradiction: FAIL");
#else
	if (!internal_ok && i_unc == 0 && final_fail) WITNESS_EXTRA("internal contradiction: FAIL");
#endif
#if FLAGS
	if (n_flag > 0 && final_ok) WITNESS_EXTRA("OK although some unrelated rule could not compute");
#endif
}
