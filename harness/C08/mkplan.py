#!/usr/bin/env python3
"""Generates harness/C08/plan.json."""
import json, os


def h2_compat():
    def inst(na, nb, aat=1, bat=1, apt=1, bpt=1):
        return {"label": "a%d_b%d_t%d%d%d%d" % (na, nb, aat, bat, apt, bpt),
                "defines": ["NA=%d" % na, "NB=%d" % nb, "A_HAS_AT=%d" % aat, "B_HAS_AT=%d" % bat, "A_HAS_PT=%d" % apt, "B_HAS_PT=%d" % bpt]}
    q = [inst(1, 1), inst(2, 2), inst(1, 2), inst(2, 1), inst(2, 3), inst(3, 3), inst(0, 1), inst(1, 0),
         inst(1, 1, 0, 1), inst(1, 1, 1, 0), inst(1, 1, 0, 0), inst(1, 1, 0, 1, 0, 1)]
    t = q + [inst(3, 4), inst(4, 4), inst(4, 3), inst(0, 0), inst(3, 2), inst(4, 2)]
    return {
        "name": "h2_compat", "src": "h2_compat.c",
        "env": ["ctx", "hash_model", "list_wrap", "fmt_stub"],
        "tus": ["hashchain", "hash", "tlv_element", "fast_tlv"],
        "unwind": 6, "harness_unwind": 30, "object_bits": 10, "timeout": 120, "mem_gb": 8,
        "functions": ["KSI_CalendarHashChain_verifyCompatibilityTo", "ksi_CalendarHashChain_verifyAggregationtimeCompatibility", "ksi_CalendarHashChain_verifyInputHashCompatibility",
                      "ksi_CalendarHashChain_verifyRightLinkCompatibility", "extractAggregationTime", "KSI_DataHash_equals", "KSI_Integer_equals"],
        "bound": "two calendar chains of 0..3 links each (thorough 0..4), presence of aggregation / publication time concrete per instance; symbolic: every link direction, every imprint "
                 "(algorithm id among SHA-1 / RIPEMD-160 and 20 digest bytes), both input hashes, all 64-bit times",
        "instances": q,
        "thorough": {"instances": t, "timeout": 900},
    }


def h1_extverify():
    names = {1: "req", 2: "status", 4: "respid", 8: "reqid", 16: "chain", 32: "chainpt", 64: "chainat", 128: "reqpt", 256: "reqat"}
    insts = [{"label": "stub_all", "defines": ["SHAPE_STUB=1", "PRES=511"]}]
    for bit, n in names.items():
        insts.append({"label": "stub_no_" + n, "defines": ["SHAPE_STUB=1", "PRES=%d" % (511 & ~bit)]})
    for n in (1, 2):
        insts.append({"label": "real_n%d" % n, "defines": ["SHAPE_STUB=0", "NLINKS=%d" % n, "PRES=511"], "unwind": n + 3})
    insts.append({"label": "real_n2_no_status", "defines": ["SHAPE_STUB=0", "NLINKS=2", "PRES=%d" % (511 & ~2)], "unwind": 5})
    th = insts + [{"label": "real_n%d" % n, "defines": ["SHAPE_STUB=0", "NLINKS=%d" % n, "PRES=511"], "unwind": n + 3} for n in (3, 4, 5, 6, 8)]
    return {
        "name": "h1_extverify", "src": "h1_extverify.c",
        "env": ["ctx", "hash_model", "list_wrap", "fmt_stub"],
        "tus": ["hashchain", "hash", "tlv_element", "fast_tlv", "net"],
        "unwind": 4, "harness_unwind": 70, "object_bits": 10, "timeout": 300, "mem_gb": 8, "solver": "kissat",
        "functions": ["KSI_ExtendResp_verifyWithRequest", "KSI_convertExtenderStatusCode", "KSI_CalendarHashChain_getPublicationTime", "KSI_CalendarHashChain_getAggregationTime",
                      "KSI_CalendarHashChain_calculateAggregationTime", "calculateCalendarAggregationTime", "KSI_Integer_equals", "KSI_Integer_equalsUInt"],
        "bound": "typed reply / request objects; presence of request, status, both ids, chain, the chain's and the request's two times concrete per instance (all present, each one "
                 "missing); shape computation stubbed (symbolic status and 64-bit result) or real on calendar chains of 1..2 links (thorough 1..6 and 8) with symbolic directions; symbolic: "
                 "64-bit status, ids and all four times",
        "instances": insts,
        "thorough": {"instances": th, "timeout": 1200},
    }


def h3_extwire():
    insts = []
    for entry, nm in ((0, "extendTo"), (1, "extendPub"), (2, "extendHead")):
        for cal in (1, 0):
            insts.append({"label": "%s_cal%d" % (nm, cal), "defines": ["ENTRY=%d" % entry, "HAS_CAL=%d" % cal]})
    insts.append({"label": "extendTo_cal1_noto", "defines": ["ENTRY=0", "HAS_CAL=1", "HAS_TO=0"]})
    return {
        "name": "h3_extwire", "src": "h3_extwire.c",
        "env": ["ctx", "hash_model", "list_wrap", "fmt_stub"],
        "tus": ["hashchain", "hash", "tlv_element", "fast_tlv"],
        "unwind": 4, "object_bits": 10, "timeout": 120, "mem_gb": 8,
        # the one indirect call (sig->removeCalAuthAndPublication) would otherwise fan out over every int f(pointer) in the linked TUs; the restriction is an assertion
        "restrict_fp": ["KSI_Signature_replacePublicationRecord.function_pointer_call.1/c08_removeCalAuthAndPublication"],
        "functions": ["KSI_Signature_extendToWithPolicy", "KSI_Signature_extendWithPolicy", "KSI_signature_extendToWithoutVerification", "KSI_createExtendRequest",
                      "KSI_Signature_getSigningTime", "KSI_Signature_replacePublicationRecord", "KSI_Signature_free"],
        "bound": "one extend call per instance (extendTo with/without target, extend with / without publication record; source signature with / without calendar chain); every callee "
                 "outside signature.c is a stub with a symbolic status; symbolic 64-bit signing / target / old publication time, presence of a caller verification context",
        "instances": insts,
    }


def h4_surgery():
    def inst(mode, n, cal, fail=-1):
        d = {"label": "m%d_n%d_cal%d" % (mode, n, cal) + ("_fail%d" % fail if fail >= 0 else ""), "defines": ["MODE=%d" % mode, "NCH=%d" % n, "HAS_CAL=%d" % cal, "CONSTRUCT_FAIL_AT=%d" % fail]}
        return d
    q = [inst(0, 3, 1), inst(0, 3, 0), inst(1, 3, 1), inst(2, 2, 0), inst(0, 1, 1), inst(0, 0, 0), inst(0, 3, 1, 0), inst(0, 2, 0, 0), inst(2, 2, 1, 1)]
    t = q + [inst(2, 3, 1), inst(0, 4, 1), inst(0, 4, 0), inst(1, 4, 1), inst(2, 4, 1), inst(2, 4, 0), inst(0, 5, 1), inst(2, 5, 1), inst(0, 6, 1), inst(1, 6, 0), inst(2, 6, 1)]
    return {
        "name": "h4_surgery", "src": "h4_surgery.c",
        "env": ["ctx", "hash_model", "list_wrap", "fmt_stub"],
        "tus": ["tlv", "signature", "hashchain", "hash", "verification", "policy", "types_base", "tlv_element", "fast_tlv"],
        "unwind": 8, "unwindset": ["KSI_TLV_free.0:3", "KSI_List_free.0:8"], "object_bits": 12, "timeout": 400, "mem_gb": 8,
        "restrict_fp": ["KSI_Signature_replacePublicationRecord.function_pointer_call.1/removeCalAuthAndPublication"],
        "functions": ["replaceCalendarChain", "removeCalAuthAndPublication", "KSI_SignatureBuilder_applyCalendarHashChain", "KSI_Signature_replacePublicationRecord",
                      "KSI_TLV_replaceNestedTlv", "KSI_TLV_appendNestedTlv", "KSI_TLV_getNestedList", "KSI_SignatureBuilder_open"],
        "bound": "signature element with 0..3 children (thorough up to 6) whose 13-bit tags are all symbolic, with / without calendar chain; symbolic presence of an old publication "
                 "record / calendar authentication record object; KSI_TlvTemplate_construct stubbed (succeeds, or the first / second call fails, per instance)",
        "instances": q,
        "thorough": {"instances": t, "timeout": 1500},
    }


def h3_async_ext():
    insts = [{"label": "cal%d_pub%d" % (c, p), "defines": ["HAS_CAL=%d" % c, "HAS_PUB=%d" % p]} for c in (1, 0) for p in (0, 1)]
    insts += [{"label": "missing%d" % m, "defines": ["MISSING=%d" % m]} for m in (1, 2, 3)]
    return {
        "name": "h3_async_ext", "src": "h3_async_ext.c",
        "env": ["ctx", "list_wrap", "fmt_stub"],
        "tus": [],
        "unwind": 4, "object_bits": 10, "timeout": 120, "mem_gb": 8,
        "functions": ["KSI_AsyncHandle_getSignature", "createExtendedSignature"],
        "bound": "one extending handle (source signature with / without calendar chain, with / without publication record; request, source or reply missing); callees outside "
                 "net_async.c are stubs with symbolic status",
        "instances": insts,
    }


def plan():
    return {
        "property": "C08",
        "outside": "the transports, MAC verification of the reply (C06), request / reply serialization and parsing (C09/C10), internal verification of the extended signature "
                   "(C01/C02: input hash = aggregation root, times, publication record) - here a gate with a symbolic verdict; calendar chains longer than 3 (thorough 8; compatibility check 4) links; signature "
                   "elements with more than 3 (thorough 6) children; KSI_Signature_clone / KSI_TLV_clone (the builder works on a clone: shown as 'opened from the source signature', the clone "
                   "function itself is C11's subject)",
        "assumptions": ["callee stubs return an arbitrary status and, on KSI_OK, set their out-parameter",
                        "representation invariant of a parsed signature: its element has a 0x802 child exactly when the object has a calendar chain, and at most one (template: single, optional)",
                        "KSI_TlvTemplate_construct (typed object -> TLV content) is a stub in the surgery harness"],
        "manifest": {
            "claimed": True,
            "level_text": "Bounded symbolic execution (CBMC) of the real types.c / hashchain.c / signature.c / signature_builder.c / net_async.c / tlv.c / list.c code. (H1) "
                          "KSI_ExtendResp_verifyWithRequest: KSI_OK implies request present, status zero (absent = 0), 64-bit ids present and equal, chain present, requested publication time "
                          "equal, aggregation time equal and shape-derived time equal; a matching reply with status 0 is accepted; non-zero status -> KSI_SERVICE_* error - for all 64-bit values, "
                          "each optional member present / absent, shape computation stubbed and real (chains of 1..2 links, thorough up to 8). (H2) KSI_CalendarHashChain_verifyCompatibilityTo == "
                          "(same aggregation time with publication-time fallback, same input hash, identical sequence of right-link imprints) for all chains of 0..3 x 0..3 links (thorough 4), all "
                          "directions and imprints. (H3) blocking extendTo / extend (with, without publication record) and asynchronous createExtendedSignature with callees stubbed: for ALL callee "
                          "outcomes success implies every gate (send, perform, MAC-gated response, verifyWithRequest, chain fetch, clone of the source, compatibility with the old chain, apply, close, "
                          "publication handling, final verification) returned OK once, in order, on the same objects; any failure returns that status, reaches nothing later, returns no signature and "
                          "releases what was built; the source signature object is unchanged. (H4) baseTlv surgery on elements with symbolic child tags: survivors (all 0x801) are the same objects "
                          "in order, exactly one new 0x802 in place, no old 0x803/0x805, the supplied publication record appended last.",
            "level_note": "Compositional: the wiring harnesses treat MAC verification, internal verification and the typed-object-to-TLV construction as gates with symbolic verdicts; 'the result "
                          "verifies for the same document and signing time' therefore rests on C01/C02, 'the builder works on a clone' on KSI_Signature_clone (not analysed here). Found and "
                          "reported: F-C08-1 (right-link comparison, fixed 282764a), F-C08-2 (reply without status accepted unchecked, fixed 612852d), F-C08-3 (asynchronous path lacks the "
                          "compatibility check; open - h3_async_ext.cal1_* fail until fixed or recorded).",
        },
        "harnesses": [h1_extverify(), h2_compat(), h3_extwire(), h3_async_ext(), h4_surgery()],
    }


if __name__ == "__main__":
    p = plan()
    out = os.path.join(os.path.dirname(os.path.abspath(__file__)), "plan.json")
    json.dump(p, open(out, "w"), indent=1)
    print("wrote", out, sum(len(h.get("instances") or [1]) for h in p["harnesses"]), "quick instances")
