/* The real list.c plus direct-call shims.  Each shim proves (assert) that the function
 * pointer stored in the list object is the static function it calls. */
/* Typed allocation inside list.c as well (same overrides as verif_post.h applies to every other TU):
 * with untyped KSI_malloc'd list objects CBMC cannot propagate the stored function pointers and
 * lengths, and every list->obj_free() call fans out over all address-taken functions (measured:
 * 100 s of symbolic execution for a 6-byte concrete TLV, < 1 s with typed objects). */
#include "internal.h"
#include <string.h>
#define VERIF_NO_LIST_DEVIRT
#include "verif_post.h"
#ifdef VERIF_FAULT_ALLOC
#define VERIF_LW_GATE() VERIF_fault_gate()
#else
#define VERIF_LW_GATE() 1
#endif
/* list.c allocates its element array with KSI_calloc(n, sizeof(struct listEl_st)): typed; the other use
 * (indexOf's size_t result cell) stays a plain zeroed allocation */
#define KSI_calloc(n, s) ((s) == sizeof(struct listEl_st) \
	? ({ size_t verif_n = (n); struct listEl_st *verif_p = VERIF_LW_GATE() ? malloc(verif_n * sizeof(struct listEl_st)) : NULL; \
	     if (verif_p != NULL) memset(verif_p, 0, verif_n * sizeof(struct listEl_st)); (void *)verif_p; }) \
	: (VERIF_LW_GATE() ? calloc((n), (s)) : NULL))
#include "list.c"
#undef KSI_calloc
#ifdef REPLAY
#include <assert.h>
#define LW_ASSERT(c) assert(c)
#else
#define LW_ASSERT(c) __CPROVER_assert((c), "DEVIRT list function pointer is the list.c implementation")
#endif
int VERIF_List_append(KSI_List *l, void *o) { if (l == NULL) return KSI_INVALID_ARGUMENT; LW_ASSERT(l->append == appendElement); return appendElement(l, o); }
int VERIF_List_removeElement(KSI_List *l, size_t pos, void **o) { if (l == NULL) return KSI_INVALID_ARGUMENT; LW_ASSERT(l->removeElement == removeElement); return removeElement(l, pos, o); }
int VERIF_List_indexOf(KSI_List *l, void *o, size_t **i) { if (l == NULL) return KSI_INVALID_ARGUMENT; LW_ASSERT(l->indexOf == indexOf); return indexOf(l, o, i); }
int VERIF_List_insertAt(KSI_List *l, size_t pos, void *o) { if (l == NULL) return KSI_INVALID_ARGUMENT; LW_ASSERT(l->insertAt == insertElementAt); return insertElementAt(l, pos, o); }
int VERIF_List_replaceAt(KSI_List *l, size_t pos, void *o) { if (l == NULL) return KSI_INVALID_ARGUMENT; LW_ASSERT(l->replaceAt == replaceElementAt); return replaceElementAt(l, pos, o); }
int VERIF_List_elementAt(KSI_List *l, size_t pos, void **o) { if (l == NULL || o == NULL) return KSI_INVALID_ARGUMENT; LW_ASSERT(l->elementAt == elementAt); return elementAt(l, pos, o); }
size_t VERIF_List_length(KSI_List *l) { if (l == NULL) return 0; LW_ASSERT(l->length == length); return length(l); }
int VERIF_List_find(KSI_List *l, void *o, int *found, size_t *pos) { if (l == NULL || found == NULL || pos == NULL) return KSI_INVALID_ARGUMENT; LW_ASSERT(l->find == find); return find(l, o, found, pos); }
int VERIF_List_sort(KSI_List *l, int (*cmp)(const void **, const void **)) { if (l == NULL) return KSI_INVALID_ARGUMENT; return KSI_List_sort(l, cmp); }
int VERIF_List_foldl(KSI_List *l, void *foldCtx, int (*fn)(void *, void *)) {
	int res; size_t i; void *el;
	if (l == NULL || fn == NULL) return KSI_INVALID_ARGUMENT;
	for (i = 0; i < VERIF_List_length(l); i++) {
		res = VERIF_List_elementAt(l, i, &el); if (res != KSI_OK) return res;
		res = fn(el, foldCtx); if (res != KSI_OK) return res;
	}
	return KSI_OK;
}
