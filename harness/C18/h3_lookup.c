/* C18 H-3: lookup functions of publicationsfile.c against an independent reference scan.
 *
 * A KSI_PublicationsFile object is built with the library's own constructors/setters:
 *   NPUB publication records (time = symbolic 64 bit, imprint = SHA-1 sized, symbolic bytes) and
 *   NCERT certificate records (id length concrete per instance (IDLENS), id bytes symbolic).
 * Shape (counts, id lengths, "list absent" vs "empty list") is concrete per instance, all values symbolic.
 *
 * Reference (written from the header documentation / property text, on the raw u64 / byte arrays):
 *   exact(t)    : some record with time == t, NULL iff there is none
 *   nearest(t)  : a record whose time is the MINIMUM of { time_i : time_i >= t }, NULL iff that set is empty
 *   latest(t)   : a record whose time is the MAXIMUM of { time_i : time_i >= t }, NULL iff empty
 *   latest(NULL): a record whose time is the maximum of all, NULL iff there is no record
 *   find(t[,h]) : a record with time == t (and imprint == h); output untouched (NULL) iff there is none
 *   certById(id): the certificate of a record whose id has the same length and bytes; untouched (NULL) iff none
 * Only the VALUE (time / imprint / id of the returned record, and that it is one of the file's records) is
 * compared: which of several records with identical time (identical id) is returned is not specified by
 * the documentation and deliberately not pinned.
 * Ownership as used by every caller in libksi: getNearestPublication / findPublication* return a new
 * reference (released here), the others return a borrowed pointer; at the end the file is freed, so a wrong
 * reference count shows up as a double free / use after free / leak (leak check is on). */
#include "verif.h"
#include "internal.h"
#include "impl/publicationsfile_impl.h"
#include "ctx.h"
#include "hash_model.h"
#include "c18_pki_model.h"
#include "verif_post.h"
#include "types_base.c"    /* struct KSI_Integer_st is private to types_base.c (so "types_base" is not listed in "tus") */

#ifndef NPUB
#define NPUB 2
#endif
#ifndef NCERT
#define NCERT 2
#endif
#ifndef IDLENS
#define IDLENS {4, 4, 4, 4}
#endif
#ifndef QLEN
#define QLEN 4
#endif
#ifndef EMPTY_LISTS
#define EMPTY_LISTS 0     /* 1: a list object of length 0 instead of an absent (NULL) list when N == 0 */
#endif
#define MAXN 4
#define IDMAX 4
#define DL 20

static u64 tm[MAXN];
static u8 dg[MAXN][DL];
static KSI_PublicationRecord *rec[MAXN];
static const unsigned idlen[MAXN] = IDLENS;
static u8 idb[MAXN][IDMAX];
static KSI_PKICertificate *crt[MAXN];

static int is_rec_with_time(const KSI_PublicationRecord *r, u64 t) {
	int ok = 0;
	for (unsigned i = 0; i < NPUB; i++) if (r == rec[i] && tm[i] == t) ok = 1;
	return ok;
}
static int dg_eq(const u8 *a, const u8 *b) { int eq = 1; for (unsigned k = 0; k < DL; k++) if (a[k] != b[k]) eq = 0; return eq; }

/* KSI_Integer objects are private heap objects for EVERY value.  KSI_Integer_new would hand out an entry of
 * the static 256-element pool for values < 256; a symbolic pointer into that pool made the query explode
 * (5.4 M variables, no answer) while the private representation takes seconds.  That the consumers used by
 * the lookups (KSI_Integer_equals / _compare / _getUInt64) cannot tell a pool entry from a heap object with
 * the same value is proved separately on the real constructor by harness h3_int (all 64-bit values).
 * KSI_Integer_free never frees values < 256, so the harness releases those stand-ins itself (mk_int_release). */
static KSI_Integer *ints[2 * MAXN + 4]; static u64 ints_v[2 * MAXN + 4]; static unsigned n_ints;
static KSI_Integer *mk_int(u64 v) {
	KSI_Integer *o = malloc(sizeof(*o)); ASSUME(o != NULL);
	o->ref = 1; o->value = v;
	ints[n_ints] = o; ints_v[n_ints] = v; n_ints++;
	return o;
}
static void mk_int_release(void) {
	for (unsigned i = 0; i < sizeof(ints) / sizeof(ints[0]); i++) if (i < n_ints && ints_v[i] < integerPoolSize) free(ints[i]);
}
static KSI_PublicationRecord *mk_rec(KSI_CTX *ctx, u64 t, const u8 *d) {
	KSI_PublicationRecord *r = NULL; KSI_PublicationData *pd = NULL; KSI_Integer *ti = NULL; KSI_DataHash *h = NULL; int res;
	res = KSI_PublicationRecord_new(ctx, &r); ASSUME(res == KSI_OK);
	res = KSI_PublicationData_new(ctx, &pd); ASSUME(res == KSI_OK);
	ti = mk_int(t);
	res = KSI_DataHash_fromDigest(ctx, KSI_HASHALG_SHA1, d, DL, &h); ASSUME(res == KSI_OK);
	res = KSI_PublicationData_setTime(pd, ti); ASSUME(res == KSI_OK);
	res = KSI_PublicationData_setImprint(pd, h); ASSUME(res == KSI_OK);
	res = KSI_PublicationRecord_setPublishedData(r, pd); ASSUME(res == KSI_OK);
	return r;
}

void harness(void) {
	VERIF_ctx_init(); VERIF_hm_init(0); VERIF_pki_init();
	KSI_CTX *ctx = VERIF_ctx; int res;
	KSI_PublicationsFile *pf = NULL;
	res = KSI_PublicationsFile_new(ctx, &pf); ASSUME(res == KSI_OK);

	/* ---- build the file ---- */
#if NPUB > 0 || EMPTY_LISTS
	{
		KSI_LIST(KSI_PublicationRecord) *pl = NULL;
		res = KSI_PublicationRecordList_new(&pl); ASSUME(res == KSI_OK);
		for (unsigned i = 0; i < NPUB; i++) {
			tm[i] = ND(u64, pub_time);
			for (unsigned k = 0; k < DL; k++) dg[i][k] = ND(u8, pub_digest);
			rec[i] = mk_rec(ctx, tm[i], dg[i]);
			res = KSI_PublicationRecordList_append(pl, rec[i]); ASSUME(res == KSI_OK);
		}
		res = KSI_PublicationsFile_setPublications(pf, pl); ASSUME(res == KSI_OK);
	}
#endif
#if NCERT > 0 || EMPTY_LISTS
	{
		KSI_LIST(KSI_CertificateRecord) *cl = NULL;
		res = KSI_CertificateRecordList_new(&cl); ASSUME(res == KSI_OK);
		for (unsigned i = 0; i < NCERT; i++) {
			KSI_CertificateRecord *cr = NULL; KSI_OctetString *id = NULL; u8 der[1] = {0x30};
			for (unsigned k = 0; k < IDMAX; k++) idb[i][k] = ND(u8, cert_id);
			res = KSI_OctetString_new(ctx, idb[i], idlen[i], &id); ASSUME(res == KSI_OK);
			res = KSI_PKICertificate_new(ctx, der, 1, &crt[i]); ASSUME(res == KSI_OK);
			res = KSI_CertificateRecord_new(ctx, &cr); ASSUME(res == KSI_OK);
			res = KSI_CertificateRecord_setCertId(cr, id); ASSUME(res == KSI_OK);
			res = KSI_CertificateRecord_setCert(cr, crt[i]); ASSUME(res == KSI_OK);
			res = KSI_CertificateRecordList_append(cl, cr); ASSUME(res == KSI_OK);
		}
		res = KSI_PublicationsFile_setCertificates(pf, cl); ASSUME(res == KSI_OK);
	}
#endif

	/* ---- the query ---- */
	u64 q = ND(u64, query_time);
	KSI_Integer *qi = mk_int(q);

	/* reference scan over the raw values */
	int n_eq = 0, n_ge = 0; u64 min_ge = 0, max_ge = 0, max_all = 0;
	for (unsigned i = 0; i < NPUB; i++) {
		if (tm[i] == q) n_eq++;
		if (tm[i] >= q) {
			if (n_ge == 0 || tm[i] < min_ge) min_ge = tm[i];
			if (n_ge == 0 || tm[i] > max_ge) max_ge = tm[i];
			n_ge++;
		}
		if (i == 0 || tm[i] > max_all) max_all = tm[i];
	}

	KSI_PublicationRecord *r;

	/* exact time */
	r = (KSI_PublicationRecord *)&res;     /* must be overwritten: "otherwise pubRec is evaluated to NULL" */
	res = KSI_PublicationsFile_getPublicationDataByTime(pf, qi, &r);
	CHECK(res == KSI_OK, "C18.H3 getPublicationDataByTime succeeds");
	CHECK((r != NULL) == (n_eq > 0), "C18.H3 getPublicationDataByTime finds a record iff one has exactly that time");
	if (r != NULL) {
		CHECK(is_rec_with_time(r, q), "C18.H3 getPublicationDataByTime returns a record of the file with the given time");
		KSI_PublicationData *pd = NULL; KSI_Integer *ti = NULL;
		KSI_PublicationRecord_getPublishedData(r, &pd); KSI_PublicationData_getTime(pd, &ti);
		CHECK(KSI_Integer_getUInt64(ti) == q, "C18.H3 getPublicationDataByTime: time read through the getters is the query time");
#if NPUB >= 2
		if (tm[0] != q) WITNESS_POINT("exact: found a later record");
#endif
	}

	/* earliest not before q */
	r = (KSI_PublicationRecord *)&res;
	res = KSI_PublicationsFile_getNearestPublication(pf, qi, &r);
	CHECK(res == KSI_OK, "C18.H3 getNearestPublication succeeds");
	CHECK((r != NULL) == (n_ge > 0), "C18.H3 getNearestPublication finds a record iff some publication is not before the time");
	if (r != NULL) {
		CHECK(is_rec_with_time(r, min_ge), "C18.H3 getNearestPublication returns the earliest publication not before the time");
#if NPUB >= 2
		if (tm[0] > tm[1] && tm[1] > q) WITNESS_POINT("nearest: a later list element is earlier in time");
		if (tm[0] < q && tm[1] == q) WITNESS_POINT("nearest: record at exactly the query time");
#endif
		KSI_PublicationRecord_free(r);     /* new reference, as every caller in libksi treats it */
	}

	/* latest not before q */
	r = (KSI_PublicationRecord *)&res;
	res = KSI_PublicationsFile_getLatestPublication(pf, qi, &r);
	CHECK(res == KSI_OK, "C18.H3 getLatestPublication(time) succeeds");
	CHECK((r != NULL) == (n_ge > 0), "C18.H3 getLatestPublication(time) finds a record iff some publication is not before the time");
	if (r != NULL) {
		CHECK(is_rec_with_time(r, max_ge), "C18.H3 getLatestPublication(time) returns the latest publication not before the time");
#if NPUB >= 2
		if (tm[0] > tm[1] && tm[1] >= q) WITNESS_POINT("latest: first list element is the latest");
#endif
	}

	/* latest of all */
	r = (KSI_PublicationRecord *)&res;
	res = KSI_PublicationsFile_getLatestPublication(pf, NULL, &r);
	CHECK(res == KSI_OK, "C18.H3 getLatestPublication(NULL) succeeds");
	CHECK((r != NULL) == (NPUB > 0), "C18.H3 getLatestPublication(NULL) finds a record iff the file has publications");
	if (r != NULL) CHECK(is_rec_with_time(r, max_all), "C18.H3 getLatestPublication(NULL) returns the latest publication of the file");

	/* findPublicationByTime: output written only on a match */
	r = NULL;
	res = KSI_PublicationsFile_findPublicationByTime(pf, qi, &r);
	CHECK(res == KSI_OK, "C18.H3 findPublicationByTime succeeds");
	CHECK((r != NULL) == (n_eq > 0), "C18.H3 findPublicationByTime finds a record iff one has exactly that time");
	if (r != NULL) {
		CHECK(is_rec_with_time(r, q), "C18.H3 findPublicationByTime returns a record of the file with the given time");
		KSI_PublicationRecord_free(r);
	}

	/* findPublication(record): time and imprint must both agree */
	{
		u8 qd[DL]; int n_both = 0;
		for (unsigned k = 0; k < DL; k++) qd[k] = ND(u8, query_digest);
		KSI_PublicationRecord *in = mk_rec(ctx, q, qd);
		for (unsigned i = 0; i < NPUB; i++) if (tm[i] == q && dg_eq(dg[i], qd)) n_both++;
		r = NULL;
		res = KSI_PublicationsFile_findPublication(pf, in, &r);
		CHECK(res == KSI_OK, "C18.H3 findPublication succeeds");
		CHECK((r != NULL) == (n_both > 0), "C18.H3 findPublication finds a record iff one has that time and that imprint");
		if (r != NULL) {
			int ok = 0;
			for (unsigned i = 0; i < NPUB; i++) if (r == rec[i] && tm[i] == q && dg_eq(dg[i], qd)) ok = 1;
			CHECK(ok, "C18.H3 findPublication returns a record of the file with the given time and imprint");
#if NPUB >= 2
			if (tm[0] == q && !dg_eq(dg[0], qd)) WITNESS_POINT("find: same time, other imprint skipped");
#endif
			KSI_PublicationRecord_free(r);
		}
#if NPUB >= 1
		else if (n_eq > 0) WITNESS_POINT("find: time matches but imprint differs -> not found");
#endif
		KSI_PublicationRecord_free(in);
	}

	/* certificate by id */
	{
		u8 qid[IDMAX]; KSI_OctetString *qo = NULL; KSI_PKICertificate *c = NULL; int n_id = 0;
		for (unsigned k = 0; k < IDMAX; k++) qid[k] = ND(u8, query_id);
		res = KSI_OctetString_new(ctx, qid, QLEN, &qo); ASSUME(res == KSI_OK);
		int same[MAXN];
		for (unsigned i = 0; i < NCERT; i++) {
			same[i] = (idlen[i] == QLEN);
			for (unsigned k = 0; k < IDMAX; k++) if (k < QLEN && k < idlen[i] && idb[i][k] != qid[k]) same[i] = 0;
			if (same[i]) n_id++;
		}
		res = KSI_PublicationsFile_getPKICertificateById(pf, qo, &c);
		CHECK(res == KSI_OK, "C18.H3 getPKICertificateById succeeds");
		CHECK((c != NULL) == (n_id > 0), "C18.H3 getPKICertificateById finds a certificate iff a record has the identical id");
		if (c != NULL) {
			int ok = 0;
			for (unsigned i = 0; i < NCERT; i++) if (c == crt[i] && same[i]) ok = 1;
			CHECK(ok, "C18.H3 getPKICertificateById returns the certificate of a record with the identical id");
#if NCERT >= 2
			if (!same[0]) WITNESS_POINT("cert: found in a later record");
#endif
		}
#if NCERT >= 1 && !defined(CERT_ALWAYS_HIT)    /* CERT_ALWAYS_HIT: instance where a zero-length id necessarily matches */
		else WITNESS_POINT("cert: no record with that id");
#endif
		KSI_OctetString_free(qo);
	}

	/* the lookups did not change the file */
	for (unsigned i = 0; i < NPUB; i++) {
		KSI_PublicationRecord *e = NULL;
		res = KSI_PublicationRecordList_elementAt(pf->publications, i, &e);
		CHECK(res == KSI_OK && e == rec[i] && e->ref == 1 && KSI_Integer_getUInt64(e->publishedData->time) == tm[i],
			"C18.H3 lookups leave the publication list and the reference counts unchanged");
	}
	CHECK(KSI_PublicationRecordList_length(pf->publications) == NPUB && KSI_CertificateRecordList_length(pf->certificates) == NCERT,
		"C18.H3 lookups leave the list lengths unchanged");

	/* documented argument checks */
	r = NULL;
	CHECK(KSI_PublicationsFile_getPublicationDataByTime(NULL, qi, &r) == KSI_INVALID_ARGUMENT
		&& KSI_PublicationsFile_getPublicationDataByTime(pf, NULL, &r) == KSI_INVALID_ARGUMENT
		&& KSI_PublicationsFile_getNearestPublication(pf, NULL, &r) == KSI_INVALID_ARGUMENT
		&& KSI_PublicationsFile_getLatestPublication(NULL, qi, &r) == KSI_INVALID_ARGUMENT
		&& KSI_PublicationsFile_findPublicationByTime(pf, NULL, &r) == KSI_INVALID_ARGUMENT
		&& KSI_PublicationsFile_findPublication(pf, NULL, &r) == KSI_INVALID_ARGUMENT && r == NULL,
		"C18.H3 missing arguments are refused with KSI_INVALID_ARGUMENT");

#if NPUB == 0
	WITNESS_POINT("empty publication set answered");
#endif
	KSI_Integer_free(qi);
	KSI_PublicationsFile_free(pf);
	mk_int_release();
}
