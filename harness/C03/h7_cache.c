/* C03 H-7: the result cache of KSI_AggregationHashChain_aggregate over a HISTORY of calls on one chain object:
 * three consecutive calls with arbitrary start levels (equal or different, in range or not).  Every call must
 * answer for ITS OWN start level: accepted iff level + correction + 1 <= 255, the end level is that sum, and the
 * root is the digest of a hash whose level byte is that sum - whatever the object answered or refused before.
 * Shape: 1 chain x 1 imprint link (SHA-1 sized); values (digests, direction, correction, the three levels) symbolic. */
#include "verif.h"
#include "internal.h"
#include "impl/hashchain_impl.h"
#include "ctx.h"
#include "hash_model.h"
#include "verif_post.h"
#define NCALL 3
/* types.c is not linked: the link of this scenario carries no metadata, so the destructor is only ever called with NULL */
void KSI_MetaDataElement_free(KSI_MetaDataElement *t) { CHECK(t == NULL, "C03.H7 stub: no metadata element exists in this scenario"); }
void harness(void) {
	VERIF_ctx_init(); VERIF_hm_init(0);
	KSI_CTX *ctx = VERIF_ctx; int res;
	KSI_AggregationHashChain *c = NULL; KSI_HashChainLink *link = NULL;
	u8 in_d[20], sib_d[20];
	for (unsigned k = 0; k < 20; k++) { in_d[k] = ND(u8, in_d); sib_d[k] = ND(u8, sib_d); }
	int left = ND_BOOL(left); u64 corr = ND(u64, corr);
	res = KSI_AggregationHashChain_new(ctx, &c); ASSUME(res == KSI_OK);
	res = KSI_Integer_new(ctx, KSI_HASHALG_SHA1, &c->aggrHashId); ASSUME(res == KSI_OK);
	res = KSI_DataHash_fromDigest(ctx, KSI_HASHALG_SHA1, in_d, 20, &c->inputHash); ASSUME(res == KSI_OK);
	res = KSI_HashChainLinkList_new(&c->chain); ASSUME(res == KSI_OK);
	res = KSI_HashChainLink_new(ctx, &link); ASSUME(res == KSI_OK);
	link->isLeft = left;
	res = KSI_Integer_new(ctx, corr, &link->levelCorrection); ASSUME(res == KSI_OK);
	res = KSI_DataHash_fromDigest(ctx, KSI_HASHALG_SHA1, sib_d, 20, &link->imprint); ASSUME(res == KSI_OK);
	res = KSI_HashChainLinkList_append(c->chain, link); ASSUME(res == KSI_OK);

	int lv[NCALL]; int nok = 0, nrej = 0;
	for (unsigned i = 0; i < NCALL; i++) { lv[i] = ND(int, level); ASSUME(lv[i] >= 0 && lv[i] <= 255); }
	for (unsigned i = 0; i < NCALL; i++) {
		KSI_DataHash *root = NULL; int el = -1;
		res = KSI_AggregationHashChain_aggregate(c, lv[i], &el, &root);
		u64 want = (u64)lv[i] + corr + 1;
		int ok = corr <= 255 && want <= 255;
		CHECK((res == KSI_OK) == ok, "C03.H7 every call of a history is accepted iff ITS start level keeps the chain within 0..255");
		if (res == KSI_OK) {
			nok++;
			CHECK(el == (int)want, "C03.H7 end level of every call = its start level + correction + 1");
			const unsigned char *imp = NULL; size_t il = 0; KSI_DataHash_getImprint(root, &imp, &il);
			int found = 0;
			for (unsigned r = 0; r < HM_REC_MAX; r++) {
				if (r < VERIF_hm_nrec && VERIF_hm_rec[r].len == 43 && VERIF_hm_rec[r].msg[42] == (u8)want && il == 21 && imp[0] == KSI_HASHALG_SHA1) {
					int eq = 1;
					for (unsigned k = 0; k < 20; k++) if (imp[1 + k] != VERIF_hm_rec[r].digest[k]) eq = 0;
					if (eq) found = 1;
				}
			}
			CHECK(found, "C03.H7 root of every call is the digest of a hash taken at ITS level");
			KSI_DataHash_free(root);
		} else {
			nrej++;
			CHECK(root == NULL && el == -1, "C03.H7 a refused call returns no root and no level");
		}
	}
	CHECK(VERIF_hm_nrec <= NCALL, "C03.H7 at most one hash per call");
	if (nok == 2 && nrej == 1 && lv[1] == lv[2] && lv[0] != lv[1]) WITNESS_POINT("accepted, refused, asked again");
	if (nok == 3 && lv[0] == lv[1] && lv[1] != lv[2]) WITNESS_POINT("cached then recomputed");
	if (nrej == 3) WITNESS_POINT("all refused");
	KSI_AggregationHashChain_free(c);
}
