/* C19 H-3: base types and element codec under allocation failure: KSI_Integer_new (pool and heap),
 * KSI_OctetString_new, KSI_Utf8String_new, KSI_TlvElement parse / getElement / detach / setInteger. */
#include "c19.h"
#include "tlv.h"
#include "tlv_element.h"
#include "verif_post.h"
static u8 elraw[8] = {0x01, 0x05, 0x02, 0x01, 0x07, 0x03, 0x00, 0x00};   /* 01 { 02:07, 03: } + 1 spare */
static int run(KSI_CTX *ctx, KSI_Integer **i1, KSI_Integer **i2, KSI_OctetString **o, KSI_Utf8String **u, KSI_TlvElement **e) {
	int res; KSI_TlvElement *ch = NULL;
	static const u8 od[3] = {1, 2, 3};
	res = KSI_Integer_new(ctx, 7, i1); if (res != KSI_OK) goto done;
	res = KSI_Integer_new(ctx, 0x1234567890ULL, i2); if (res != KSI_OK) goto done;
	res = KSI_OctetString_new(ctx, od, 3, o); if (res != KSI_OK) goto done;
	res = KSI_Utf8String_new(ctx, "ab", 3, u); if (res != KSI_OK) goto done;
	res = KSI_TlvElement_parse(elraw, 7, e); if (res != KSI_OK) goto done;
	res = KSI_TlvElement_getElement(*e, 0x02, &ch); if (res != KSI_OK) goto done;
	res = KSI_TlvElement_detach(*e); if (res != KSI_OK) goto done;
	res = KSI_TlvElement_setInteger(*e, 0x04, *i2); if (res != KSI_OK) goto done;
done:
	KSI_TlvElement_free(ch);
	return res;
}
void harness(void) {
	VERIF_ctx_init(); KSI_CTX *ctx = VERIF_ctx;
	KSI_Integer *i1 = NULL, *i2 = NULL; KSI_OctetString *o = NULL; KSI_Utf8String *u = NULL; KSI_TlvElement *e = NULL;
	C19_ARM();
	int res = run(ctx, &i1, &i2, &o, &u, &e);
	C19_DISARM();
	C19_OUTCOME(res, e != NULL && i2 != NULL && KSI_Integer_getUInt64(i2) == 0x1234567890ULL);
	/* the element must remain usable after the failed call (faults disarmed): it serialises and can be queried */
	if (e != NULL) { u8 o2[32]; size_t l2 = 0; KSI_TlvElement *q = NULL;
		int r2 = KSI_TlvElement_serialize(e, o2, sizeof(o2), &l2, 0);
		CHECK(r2 == KSI_OK && l2 >= 7 && o2[0] == 0x01, "C19.H3 an element that saw a failed allocation still serialises");
		r2 = KSI_TlvElement_getElement(e, 0x02, &q);
		CHECK(r2 == KSI_OK && q != NULL && q->ftlv.dat_len == 1, "C19.H3 ... and its children can still be looked up");
		KSI_TlvElement_free(q); }
	KSI_Integer_free(i1); KSI_Integer_free(i2); KSI_OctetString_free(o); KSI_Utf8String_free(u); KSI_TlvElement_free(e);
	i1 = i2 = NULL; o = NULL; u = NULL; e = NULL;
	res = run(ctx, &i1, &i2, &o, &u, &e);
	CHECK(res == KSI_OK, "C19.H3 the operation repeated without fault succeeds");
	if (res == KSI_OK) { u8 out[24]; size_t ol = 0; res = KSI_TlvElement_serialize(e, out, sizeof(out), &ol, 0); CHECK(res == KSI_OK && ol == 2 + 5 + 2 + 5, "C19.H3 element holds the integer added after the detach"); }
	KSI_Integer_free(i1); KSI_Integer_free(i2); KSI_OctetString_free(o); KSI_Utf8String_free(u); KSI_TlvElement_free(e);
	WITNESS_POINT("base scenario finished");
#if FAULT_AT >= 1 && FAULT_AT <= 6
	if (VERIF_fault_hit) WITNESS_POINT("fault was injected");
#endif
}
