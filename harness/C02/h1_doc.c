/* C02 H-1..4: the five document-level rules on a typed signature, against reference predicates written
 * from the property text and the rule documentation in verification_rule.h:
 *   DocumentHashDoesNotExist / DocumentHashExistence : presence probes (OK / NA without error code)
 *   InputHashAlgorithmVerification  : algorithm id of the document hash == algorithm id of the SIGNED hash, else FAIL GEN-04
 *   DocumentHashVerification        : document hash == SIGNED hash (algorithm id and digest), else FAIL GEN-01
 *   AggregationChainInputLevelVerification : level 0 always fits; level > 255 is refused (KSI_INVALID_VERIFICATION_INPUT);
 *                                     otherwise the level must not exceed the first link's level correction
 *                                     ("always 0 for RFC-3161 record"), else FAIL GEN-03
 * SIGNED hash = input hash of the RFC3161 record if present, else input hash of the first aggregation chain.
 * Shape per instance (sig_builder.h): RFC3161 record present?, document hash given?, digest length classes of the
 * signed hash and of the document hash, first link with / without level-correction element.  Symbolic: algorithm ids
 * inside the length class, all digest bytes, level (64 bit), level correction (64 bit). */
#include "verif.h"
#include "internal.h"
#include "verification_rule.h"
#include "ctx.h"
#include "hash_model.h"
#include "verif_post.h"
#include "types_base.c"
#include "sig_builder.h"
#ifndef DOC_SAME_LEN
#define DOC_SAME_LEN 1     /* instance: document hash and signed hash have the same digest length */
#endif
#ifndef FIRST_LC_NULL
#define FIRST_LC_NULL 0    /* instance: first link has no level-correction element */
#endif

void harness(void) {
	VERIF_ctx_init();
	VERIF_hm_init(0);
	KSI_CTX *ctx = VERIF_ctx;
	sb_build(ctx);
	KSI_RuleVerificationResult r;
	int res;

	const struct sb_hash_v *S = SB_HAS_RFC ? &SB.rfc.in : &SB.ch[0].in;
	const struct sb_hash_v *D = &SB.doc;

	/* ---- presence probes ---- */
	sb_result_init(&r);
	res = KSI_VerificationRule_DocumentHashDoesNotExist(&sb_vc, &r);
	CHECK(res == KSI_OK && r.resultCode == (SB_HAS_DOC ? KSI_VER_RES_NA : KSI_VER_RES_OK) && r.errorCode == KSI_VER_ERR_NONE, "C02.H1 DocumentHashDoesNotExist is OK exactly without a document hash (NA, no error code otherwise)");
	sb_result_init(&r);
	res = KSI_VerificationRule_DocumentHashExistence(&sb_vc, &r);
	CHECK(res == KSI_OK && r.resultCode == (SB_HAS_DOC ? KSI_VER_RES_OK : KSI_VER_RES_NA) && r.errorCode == KSI_VER_ERR_NONE, "C02.H1 DocumentHashExistence is OK exactly with a document hash (NA, no error code otherwise)");

#if SB_HAS_DOC
	/* ---- algorithm ---- */
	sb_result_init(&r);
	res = KSI_VerificationRule_InputHashAlgorithmVerification(&sb_vc, &r);
	if (D->imp[0] == S->imp[0]) {
		CHECK(res == KSI_OK && r.resultCode == KSI_VER_RES_OK && r.errorCode == KSI_VER_ERR_NONE, "C02.H2 same hash algorithm is accepted");
	} else {
		CHECK(res == KSI_OK && r.resultCode == KSI_VER_RES_FAIL && r.errorCode == KSI_VER_ERR_GEN_4, "C02.H2 another hash algorithm yields FAIL GEN-04");
		WITNESS_POINT("document hash with another algorithm");
	}
	/* ---- imprint ---- */
	sb_result_init(&r);
	res = KSI_VerificationRule_DocumentHashVerification(&sb_vc, &r);
	if (sb_hash_eq(D, S)) {
		CHECK(res == KSI_OK && r.resultCode == KSI_VER_RES_OK && r.errorCode == KSI_VER_ERR_NONE, "C02.H3 the signed hash is accepted");
#if DOC_SAME_LEN
		WITNESS_POINT("document hash equals the signed hash");
#endif
	} else {
		CHECK(res == KSI_OK && r.resultCode == KSI_VER_RES_FAIL && r.errorCode == KSI_VER_ERR_GEN_1, "C02.H3 any other imprint yields FAIL GEN-01");
#if DOC_SAME_LEN
		if (D->imp[0] == S->imp[0] && D->len == S->len) {
			unsigned ndiff = 0;
			for (unsigned i = 1; i < 65; i++) if (i < D->len) { u8 x = D->imp[i] ^ S->imp[i]; if (x) ndiff += (x & (x - 1)) ? 2 : 1; }
			if (ndiff == 1) WITNESS_POINT("document digest differs from the signed digest in exactly one bit");
		}
#else
		if (D->len != S->len) WITNESS_POINT("document hash of another length");
#endif
	}
#endif

	/* ---- level ---- */
	sb_result_init(&r);
	res = KSI_VerificationRule_AggregationChainInputLevelVerification(&sb_vc, &r);
	u64 L = SB.docLevel;
	u64 first_corr = SB_HAS_RFC ? 0 : SB.ch[0].link[0].lc;     /* absent level-correction element = 0 */
	if (L == 0) {
		CHECK(res == KSI_OK && r.resultCode == KSI_VER_RES_OK && r.errorCode == KSI_VER_ERR_NONE, "C02.H4 level 0 always fits");
	} else if (L > 255) {
		CHECK(res == KSI_INVALID_VERIFICATION_INPUT && r.resultCode != KSI_VER_RES_OK, "C02.H4 a level above 255 is refused as invalid verification input");
		if (L > 0xffffffffull) WITNESS_POINT("huge level refused");
	} else if (L <= first_corr) {
		CHECK(res == KSI_OK && r.resultCode == KSI_VER_RES_OK && r.errorCode == KSI_VER_ERR_NONE, "C02.H4 a level not above the first level correction fits");
#if !SB_HAS_RFC && !FIRST_LC_NULL
		if (L == first_corr) WITNESS_POINT("level equal to the first level correction fits");
		if (first_corr > 0xffffffffull) WITNESS_POINT("level below a huge level correction");
#endif
	} else {
		CHECK(res == KSI_OK && r.resultCode == KSI_VER_RES_FAIL && r.errorCode == KSI_VER_ERR_GEN_3, "C02.H4 a level above the first level correction yields FAIL GEN-03");
		if (L == first_corr + 1) WITNESS_POINT("level one above the first level correction fails");
	}
}
