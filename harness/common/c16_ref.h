/* C16 shared reference model (harness side, independent of tree_builder.c / hashchain.c).
 *
 * Values: a tree node value is the byte string that enters its parent's hash: the imprint
 * (algorithm byte + digest) of a hash node, the serialized payload of a metadata node.
 * Hash oracle: H is the memoising hash model's record table (env/hash_model.c, VERIF_hm_rec):
 * c16_H(alg, l, r, level) looks up the message  l.bytes || r.bytes || (u8)level  among the
 * messages that were hashed so far.  "Not found" means the message was never hashed by the code
 * under test; under the collision-freeness assumption of the model its digest then differs from
 * every recorded digest, so a chain or a reference tree that needs it cannot reproduce a root
 * that the builder computed.  The callers CHECK found.
 *
 * Reference tree (KSI aggregation tree built on the fly): leaves are merged left to right into a
 * forest of perfect binary trees exactly like incrementing a binary counter (slot i holds a tree
 * of 2^i leaves; a new leaf is a carry that joins with every occupied slot from slot 0 upwards
 * until it reaches a free one); closing joins the remaining trees from the lowest slot upwards,
 * the tree of the HIGHER slot (= earlier leaves) on the LEFT.  join(l, r): level = max(l, r) + 1,
 * hash = H(l || r || level byte).  All of this is concrete in the number of leaves.
 *
 * Chain formula (KSI aggregation hash chain): start at the leaf value and the leaf level; each link:
 * level += correction + 1; value = H(value || sibling || level) for a left link and
 * H(sibling || value || level) for a right link. */
#ifndef C16_REF_H_
#define C16_REF_H_

#define C16_VMAX 33            /* longest value: SHA2-256 imprint */
#define C16_SLOTS 8            /* binary counter slots of the reference (<= 255 leaves) */

struct c16_val {
	u8 b[C16_VMAX];
	unsigned len;              /* concrete */
	unsigned level;            /* symbolic; > 255 = out of range */
	int used;                  /* concrete */
};

static unsigned c16_alg_len(int alg) {
	return alg == KSI_HASHALG_SHA1 ? 20 : alg == KSI_HASHALG_SHA2_256 ? 32 : alg == KSI_HASHALG_RIPEMD160 ? 20 : alg == KSI_HASHALG_SHA2_384 ? 48 : 64;
}

/* number of failed look-ups (must stay 0) */
static unsigned c16_H_missing;

/* out = imprint of H_alg(l || r || level byte), taken from the record table */
static void c16_H(int alg, const struct c16_val *l, const struct c16_val *r, unsigned level, struct c16_val *out) {
	u8 m[2 * C16_VMAX + 1];
	unsigned n = 0, k, q;
	int found = 0;
	unsigned dl = c16_alg_len(alg);
	for (k = 0; k < C16_VMAX; k++) if (k < l->len) m[n++] = l->b[k];
	for (k = 0; k < C16_VMAX; k++) if (k < r->len) m[n++] = r->b[k];
	m[n++] = (u8)level;
	out->len = 1 + dl;
	out->level = level;
	out->used = 1;
	out->b[0] = (u8)alg;
	for (k = 1; k < C16_VMAX; k++) out->b[k] = 0;
	for (q = 0; q < HM_REC_MAX; q++) {
		if (q < VERIF_hm_nrec && !found && VERIF_hm_rec[q].alg == alg && VERIF_hm_rec[q].len == n) {
			int eq = 1;
			for (k = 0; k < 2 * C16_VMAX + 1; k++) if (k < n && VERIF_hm_rec[q].msg[k] != m[k]) eq = 0;
			if (eq) {
				found = 1;
				for (k = 0; k < C16_VMAX - 1; k++) if (k < dl) out->b[1 + k] = VERIF_hm_rec[q].digest[k];
			}
		}
	}
	if (!found) c16_H_missing++;
}

/* join of the KSI tree: level = max + 1 (everything above 255 is reported as 256 = out of range).
 * with_hash: also look the hash up (callers do that only when they know that all levels are <= 255). */
static void c16_join(int alg, const struct c16_val *l, const struct c16_val *r, struct c16_val *out, int with_hash) {
	unsigned lv = (l->level > r->level ? l->level : r->level) + 1;
	if (with_hash) c16_H(alg, l, r, lv, out);
	else { out->len = 1 + c16_alg_len(alg); out->used = 1; for (unsigned k = 0; k < C16_VMAX; k++) out->b[k] = 0; }
	out->level = lv > 255 ? 256 : lv;
}

struct c16_forest { struct c16_val slot[C16_SLOTS]; };

static void c16_forest_init(struct c16_forest *f) { for (unsigned i = 0; i < C16_SLOTS; i++) f->slot[i].used = 0; }

/* add one leaf (binary-counter carry).  Returns the highest level produced by the carries
 * (256 = some join left 0..255; the forest is then not to be used any further). */
static unsigned c16_forest_add(struct c16_forest *f, int alg, const struct c16_val *leaf, int with_hash) {
	struct c16_val carry = *leaf, t;
	unsigned hi = leaf->level;
	int placed = 0;
	for (unsigned i = 0; i < C16_SLOTS; i++) {
		if (!placed) {
			if (!f->slot[i].used) { f->slot[i] = carry; f->slot[i].used = 1; placed = 1; }
			else {
				c16_join(alg, &f->slot[i], &carry, &t, with_hash);
				f->slot[i].used = 0;
				carry = t;
				if (carry.level > hi) hi = carry.level;
			}
		}
	}
	return hi;
}

/* close: join the remaining trees from the lowest slot upwards, higher slot on the left.
 * Returns 0 when the forest is empty.  root->level == 256 when a join left 0..255. */
static int c16_forest_close(const struct c16_forest *f, int alg, struct c16_val *root, int with_hash) {
	int have = 0;
	struct c16_val t;
	for (unsigned i = 0; i < C16_SLOTS; i++) {
		if (f->slot[i].used) {
			if (!have) { *root = f->slot[i]; have = 1; }
			else { c16_join(alg, &f->slot[i], root, &t, with_hash); *root = t; }
		}
	}
	return have;
}

/* level of the root if the forest were closed right now with one more leaf of level lv added */
static unsigned c16_level_if_added(const struct c16_forest *f, int alg, unsigned lv) {
	struct c16_forest g = *f;
	struct c16_val leaf, root;
	leaf.len = 0; leaf.level = lv; leaf.used = 1;
	(void)c16_forest_add(&g, alg, &leaf, 0);
	(void)c16_forest_close(&g, alg, &root, 0);
	return root.level;
}

#endif
