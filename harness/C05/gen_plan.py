#!/usr/bin/env python3
"""Regenerates harness/C05/plan.json (run from anywhere: python3 harness/C05/gen_plan.py).
The skeleton instances of H-1 / H-1b are enumerated here; the rest of the plan is written out in main()."""
import itertools, json, os

HERE = os.path.dirname(os.path.abspath(__file__))
MAXSLOTS = 40


def nlists(w, d):
    return sum(w ** i for i in range(d + 1))


def skeletons(w, d):
    """All canonical skeletons of the complete w-ary tree of depth d: a list is a tuple of w elements, an element
    is 'b' or ('c', child list); lists at depth d hold only 'b'.  Child lists exist only below composites
    (= the skeletons that differ after dropping unreachable child lists)."""
    def lists(depth):
        elems = ['b']
        if depth < d:
            elems += [('c', sub) for sub in lists(depth + 1)]
        return list(itertools.product(elems, repeat=w))
    return lists(0)


def code(lst):
    return "".join('b' if e == 'b' else 'c' + code(e[1]) for e in lst)


def kinds(lst, w, d):
    """breadth-first slot kinds in the layout of common/c05_tree.h (child list of slot s = list s+1)"""
    k = [0] * (nlists(w, d) * w)
    def fill(l, lst):
        for p, e in enumerate(lst):
            s = l * w + p
            if e != 'b':
                k[s] = 1
                fill(s + 1, e[1])
    fill(0, lst)
    return k


def ncomp(lst):
    return sum(0 if e == 'b' else 1 + ncomp(e[1]) for e in lst)


def nonlast(lst):
    """some composite is not the last element of its list"""
    return any(e != 'b' and (p + 1 < len(lst) or nonlast(e[1])) for p, e in enumerate(lst))


def inst(w, d, lst, extra=()):
    k = kinds(lst, w, d)
    return {"label": "w%dd%d_%s" % (w, d, code(lst)),
            "defines": ["C05_W=%d" % w, "C05_D=%d" % d, "C05_KIND={%s}" % ",".join(map(str, k)), "C05_NCOMP=%d" % ncomp(lst),
                        "C05_NONLAST=%d" % (1 if nonlast(lst) else 0)] + list(extra),
            "unwind": (8 if extra else d + 3), "unwindset": ["Rule_verify.0:%d" % (w + 2), "Rule_verify:%d" % (d + 2)]}


W3D2_STRIDE = 5     # thorough: every 5th of the 729 width-3 depth-2 skeletons (ordered by decreasing number of composites)


def main():
    fp = "Rule_verify.function_pointer_call.1/" + ",".join("c05_rule_%d" % i for i in range(MAXSLOTS))
    q22 = [inst(2, 2, s) for s in skeletons(2, 2)]
    q31 = [inst(3, 1, s) for s in skeletons(3, 1)]
    s32 = skeletons(3, 2)
    s32.sort(key=lambda s: (-ncomp(s), code(s)))
    t32 = [inst(3, 2, s) for k, s in enumerate(s32) if k % W3D2_STRIDE == 0]
    s23 = [s for s in skeletons(2, 3) if ncomp(s) <= 4]
    t23 = [inst(2, 3, s) for s in s23]
    print("H-1 quick: %d w2d2 + %d w3d1;  thorough adds %d of %d w3d2 and %d of %d w2d3 (<= 4 composites)"
          % (len(q22), len(q31), len(t32), len(s32), len(t23), len(skeletons(2, 3))))

    def li(w, s):
        return inst(w, 1, s, ["C05_WITH_LIST=1", "C05_WARM_LIST=%d" % (0 if ncomp(s) == 0 and w == 2 else 1)])
    b_q = [li(2, s) for s in skeletons(2, 1)]
    b_t = b_q + [li(3, s) for s in skeletons(3, 1) if ncomp(s) <= 1]

    def P(n, s):
        return {"label": "p%d_%s" % (n, "sig" if s else "nosig"), "defines": ["NPOL=%d" % n, "WITH_SIG=%d" % s]}
    h2_q = [P(n, s) for n in (1, 2, 3) for s in (0, 1)]
    h2_t = h2_q + [P(4, 0), P(4, 1)]

    plan = {
        "property": "C05",
        "outside": "rule trees wider than 3 or deeper than 3 list levels (quick: width 2 / depth 2 and width 3 / depth 1); fallback chains "
                   "longer than 3 (quick 2); the predefined policy tables themselves (covered by C01/C02/C04 on the same Rule_verify); rule "
                   "functions that write result codes outside OK/NA/FAIL; allocation failure inside the bookkeeping (C19)",
        "assumptions": [
            "every rule array holds at least one rule before the final empty rule (documented layout of KSI_Rule arrays; an empty array makes "
            "Rule_verify return its initial KSI_UNKNOWN_ERROR - robustness note, not a violation)",
            "rule functions always write resultCode (one of OK/NA/FAIL), errorCode and ruleName, as the VERIFICATION_RESULT_* macros of "
            "verification_rule.c do",
            "H-2: the destructors of the three temporary objects and KSI_Signature objects are counting stand-ins / a zeroed struct",
        ],
        "manifest": {
            "claimed": True,
            "level_text": "Bounded model checking (CBMC) of the real Rule_verify and KSI_SignatureVerifier_verify of policy.c against a reference "
                          "interpreter written from the policy.h text. H-1: for every rule-tree skeleton in the bound (quick: all 25 distinct "
                          "skeletons of width 2 / depth 2 and all 8 of width 3 / depth 1; thorough adds 146 of the 729 skeletons of width 3 / "
                          "depth 2 and the 48 skeletons of width 2 / depth 3 with <= 4 composites) and ALL list lengths 1..W, AND/OR labels, and "
                          "rule outcomes (any int status, OK/NA/FAIL, any int error code - a superset of the five outcome classes), the SAT "
                          "solver shows that the return code, the final result/error code and the invocation sequence number of EVERY rule slot "
                          "(0 = never invoked) equal the reference - i.e. rules run strictly in order, nothing runs after the stopping point, a "
                          "FAIL or an internal error is never masked, the verdict is that of the last rule evaluated. H-1b: the real ruleResults "
                          "list holds the evaluated rules' results in order, without the (KSI_OK, NA, KSI_VER_ERR_NONE) answers and without a "
                          "second entry per rule-name pointer. H-2: fallback chains of 0..2 (thorough 3) fallbacks built with "
                          "KSI_Policy_create/setFallback/clone: the next policy is evaluated iff the previous verdict is FAIL or NA, never after OK "
                          "or an internal error (returned without result object); one policyResults entry per evaluated policy; tempData empty at "
                          "each policy start, released exactly once, NULL on return; last-failed-signature bookkeeping.",
            "level_note": "Bounded: trees beyond the enumerated skeletons and chains beyond 3 fallbacks are outside; in thorough only every 5th "
                          "width-3/depth-2 skeleton is run (time cap) - the number discharged is the number of ok instances in the evidence. "
                          "Trusted base: CBMC 6.11 C semantics; logging stubbed; typed-list devirtualisation (proof obligation per call site); the "
                          "indirect rule call in Rule_verify is restricted to the 40 instrumented slot functions with goto-instrument's "
                          "membership assertion; H-1b gives the result list its capacity up front (append+remove) except in one instance that "
                          "runs on the fresh list. An empty rule array (no rule before the terminator) makes Rule_verify return "
                          "KSI_UNKNOWN_ERROR: treated as a violated precondition, reported as a robustness note only. Duplicate suppression in "
                          "ruleResults is by rule-NAME POINTER and keeps the FIRST result of a name (a later FAIL of the same rule function is "
                          "not listed although it is the verdict) - this is the implemented and asserted behaviour, not a documented contract."
        },
        "harnesses": [
            {"name": "h1_rule", "src": "h1_rule.c", "env": ["ctx", "list_wrap"], "tus": [],
             "unwind": 5, "timeout": 300, "mem_gb": 8, "object_bits": 12, "restrict_fp": [fp],
             "functions": ["Rule_verify"],
             "bound": "rule trees given by skeleton instances wWdD_<code> (code: b = basic slot, c<children> = composite slot with its child "
                      "list); per instance symbolic: every list length 1..W (trailing basic slots cut off), AND/OR label of every composite, "
                      "type of every terminator, outcome of every basic rule (int status, OK/NA/FAIL, int error code)",
             "instances": q22 + q31,
             "thorough": {"instances": q22 + q31 + t32 + t23, "timeout": 900}},
            {"name": "h1b_list", "src": "h1_rule.c", "env": ["ctx", "list_wrap"], "tus": [],
             "unwind": 8, "timeout": 400, "mem_gb": 8, "object_bits": 12, "restrict_fp": [fp],
             "functions": ["Rule_verify", "PolicyVerificationResult_addLatestRuleResult", "isDuplicateRuleResult", "KSI_RuleVerificationResult_dup",
                           "PolicyVerificationResult_create"],
             "bound": "width 2 / depth 1 trees (all 4 skeletons; thorough also the 4 width-3 skeletons with <= 1 composite), rule-name pointer of "
                      "every basic rule symbolic among 3 shared names, all outcomes / labels / lengths symbolic, real result list",
             "instances": b_q, "thorough": {"instances": b_t, "timeout": 1200}},
            {"name": "h2_fallback", "src": "h2_fallback.c", "env": ["ctx", "list_wrap", "fmt_stub"], "tus": ["signature"],
             "unwind": 7, "unwindset": ["Rule_verify.0:3", "Rule_verify:3"], "timeout": 300, "mem_gb": 8, "object_bits": 12,
             "functions": ["KSI_SignatureVerifier_verify", "Policy_verifySignature", "Rule_verify", "KSI_Policy_create", "KSI_Policy_clone",
                           "KSI_Policy_setFallback", "PolicyVerificationResult_create", "PolicyVerificationResult_addLatestPolicyResult",
                           "VerificationTempData_clear", "KSI_Signature_free", "KSI_Signature_ref"],
             "bound": "chains of 1..3 policies (thorough 4) with one instrumented rule each, with and without a signature object in the context; "
                      "per policy symbolic: status, OK/NA/FAIL, error code, which of the three temporary objects the rule leaves behind; entry "
                      "through the first policy or its clone",
             "instances": h2_q, "thorough": {"instances": h2_t, "timeout": 900}},
        ]}
    json.dump(plan, open(os.path.join(HERE, "plan.json"), "w"), indent=1)


if __name__ == "__main__":
    main()
