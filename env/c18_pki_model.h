/* PKI model (DESIGN 3.4) - replaces pkitruststore_openssl.c for the publications-file harnesses (C18).
 * OpenSSL (PKCS#7 parsing and verification, X.509 chain building, subject-name matching) is OUTSIDE the
 * model: a signature / certificate object just keeps a private copy of the DER bytes it was created from,
 * KSI_PKITruststore_verifyPKISignature records its arguments and returns a symbolic verdict. */
#ifndef VERIF_C18_PKI_MODEL_H_
#define VERIF_C18_PKI_MODEL_H_
#include "internal.h"
#include "pkitruststore.h"

struct KSI_PKITruststore_st { KSI_CTX *ctx; int isDefault; };
struct KSI_PKICertificate_st { KSI_CTX *ctx; unsigned char *der; size_t der_len; KSI_uint64_t notBefore, notAfter; };
struct KSI_PKISignature_st { KSI_CTX *ctx; unsigned char *der; size_t der_len; };

/* what the last call of KSI_PKITruststore_verifyPKISignature received */
struct VERIF_pki_call {
	unsigned count;                       /* number of calls so far */
	const KSI_PKITruststore *pki;
	const unsigned char *data; size_t data_len;
	const KSI_PKISignature *signature;
	KSI_CertConstraint *certConstraints;
	int verdict;                          /* the symbolic status code the model returned */
};
extern struct VERIF_pki_call VERIF_pki_last;
extern unsigned VERIF_pki_truststores_created, VERIF_pki_sig_new_calls, VERIF_pki_sig_freed;
extern int VERIF_pki_sig_der_ok;
void VERIF_pki_init(void);
#endif
