/* C19 H-4: hash-chain aggregation under allocation failure: KSI_AggregationHashChain_aggregate (cache),
 * called at level 0, at a level that makes the chain overflow (error path), and at level 0 again. */
#include "c19.h"
#include "impl/hashchain_impl.h"
#include "hash_model.h"
#include "verif_post.h"
/* types.c is not linked: links of this scenario carry no metadata, so the destructor is only ever called with NULL */
void KSI_MetaDataElement_free(KSI_MetaDataElement *t) { CHECK(t == NULL, "C19.H4 stub: no metadata element exists in this scenario"); }
static KSI_AggregationHashChain *mk(KSI_CTX *ctx) {
	KSI_AggregationHashChain *c = NULL; KSI_HashChainLink *link = NULL; int res; u8 d[20];
	for (int i = 0; i < 20; i++) d[i] = ND(u8, d);
	res = KSI_AggregationHashChain_new(ctx, &c); ASSUME(res == KSI_OK);
	res = KSI_Integer_new(ctx, KSI_HASHALG_SHA1, &c->aggrHashId); ASSUME(res == KSI_OK);
	res = KSI_DataHash_fromDigest(ctx, KSI_HASHALG_SHA1, d, 20, &c->inputHash); ASSUME(res == KSI_OK);
	res = KSI_HashChainLinkList_new(&c->chain); ASSUME(res == KSI_OK);
	res = KSI_HashChainLink_new(ctx, &link); ASSUME(res == KSI_OK);
	link->isLeft = 1;
	res = KSI_Integer_new(ctx, 3, &link->levelCorrection); ASSUME(res == KSI_OK);
	res = KSI_DataHash_fromDigest(ctx, KSI_HASHALG_SHA1, d, 20, &link->imprint); ASSUME(res == KSI_OK);
	res = KSI_HashChainLinkList_append(c->chain, link); ASSUME(res == KSI_OK);
	return c;
}
void harness(void) {
	VERIF_ctx_init(); VERIF_hm_init(1);   /* memoising hash model: equal messages give equal digests */ KSI_CTX *ctx = VERIF_ctx;
	KSI_AggregationHashChain *c = mk(ctx);      /* built fault-free */
	KSI_DataHash *r1 = NULL, *r2 = NULL, *r3 = NULL; int lv = -1, res;
	C19_ARM();
	res = KSI_AggregationHashChain_aggregate(c, 0, &lv, &r1);
	int res2 = KSI_AggregationHashChain_aggregate(c, 254, &lv, &r2);     /* level 254 + 3 + 1 > 255: must fail */
	int res3 = KSI_AggregationHashChain_aggregate(c, 0, &lv, &r3);
	C19_DISARM();
	CHECK(res2 != KSI_OK && r2 == NULL, "C19.H4 out-of-range start level is refused");
	if (!VERIF_fault_hit) CHECK(res == KSI_OK && res3 == KSI_OK && lv == 4, "C19.H4 without a fault both in-range aggregations succeed");
	if (res == KSI_OK && res3 == KSI_OK) CHECK(KSI_DataHash_equals(r1, r3), "C19.H4 re-aggregation after a refused level yields the same root");
	KSI_DataHash_free(r1); KSI_DataHash_free(r3);
	KSI_DataHash *r4 = NULL;
	res = KSI_AggregationHashChain_aggregate(c, 0, &lv, &r4);
	CHECK(res == KSI_OK && lv == 4, "C19.H4 the operation repeated without fault succeeds");
	KSI_DataHash_free(r4);
	KSI_AggregationHashChain_free(c);
	WITNESS_POINT("chain scenario finished");
#if FAULT_AT >= 1 && FAULT_AT <= 3
	if (VERIF_fault_hit) WITNESS_POINT("fault was injected");
#endif
}
