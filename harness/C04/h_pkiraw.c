/* C04 H-pki: KSI_PKITruststore_verifyRawSignature (pkitruststore_openssl.c) with every OpenSSL call replaced by
 * a nondeterministic external inside its documented return contract (pointers: NULL or an object; EVP_VerifyInit /
 * EVP_VerifyUpdate: 0 or 1; EVP_VerifyFinal: -1 error, 0 mismatch, 1 match).
 * KSI_OK is returned only if OpenSSL was asked to verify exactly (data, data_len) against exactly
 * (signature, signature_len) with the certificate's public key and the digest named by the OID, and
 * EVP_VerifyFinal answered 1; an OpenSSL error (-1) or mismatch (0) is never reported as success. */
#include "verif.h"
#include "internal.h"
#include "pkitruststore.h"
#include "ctx.h"
#include "verif_post.h"
#include "pkitruststore_openssl.c"

static int d_obj, d_md, d_key, d_x509, d_mdctx;
static int ret_init, ret_update, ret_final, md_known;
static const void *upd_data, *fin_sig, *fin_key, *init_md; static size_t upd_len; static unsigned fin_len; static int n_final;

EVP_MD_CTX *EVP_MD_CTX_new(void) { return ND_BOOL(mdctx_ok) ? (EVP_MD_CTX *)&d_mdctx : NULL; }
void EVP_MD_CTX_free(EVP_MD_CTX *c) { (void)c; }
int EVP_MD_CTX_reset(EVP_MD_CTX *c) { (void)c; return 1; }
ASN1_OBJECT *OBJ_txt2obj(const char *s, int no_name) { (void)s; (void)no_name; return ND_BOOL(obj_ok) ? (ASN1_OBJECT *)&d_obj : NULL; }
int OBJ_obj2nid(const ASN1_OBJECT *o) { (void)o; return ND(int, nid); }
const char *OBJ_nid2sn(int n) { (void)n; return "x"; }
static const EVP_MD *the_md;
const EVP_MD *EVP_get_digestbyname(const char *name) { (void)name;   /* NULL, a digest libksi knows (SHA2-256) or one it does not */
	if (!ND_BOOL(md_ok)) return NULL; the_md = md_known ? EVP_sha256() : (const EVP_MD *)&d_md; return the_md; }
static int d_sha256, d_sha1, d_rmd, d_sha384, d_sha512;
const EVP_MD *EVP_sha256(void) { return (const EVP_MD *)&d_sha256; }
const EVP_MD *EVP_sha1(void) { return (const EVP_MD *)&d_sha1; }
const EVP_MD *EVP_ripemd160(void) { return (const EVP_MD *)&d_rmd; }
const EVP_MD *EVP_sha384(void) { return (const EVP_MD *)&d_sha384; }
const EVP_MD *EVP_sha512(void) { return (const EVP_MD *)&d_sha512; }
EVP_PKEY *X509_get_pubkey(X509 *x) { (void)x; return ND_BOOL(key_ok) ? (EVP_PKEY *)&d_key : NULL; }
int EVP_DigestInit(EVP_MD_CTX *c, const EVP_MD *md) { (void)c; init_md = md; return ret_init; }
int EVP_DigestInit_ex(EVP_MD_CTX *c, const EVP_MD *md, ENGINE *e) { (void)c; (void)e; init_md = md; return ret_init; }
int EVP_DigestUpdate(EVP_MD_CTX *c, const void *d, size_t n) { (void)c; upd_data = d; upd_len = n; return ret_update; }
int EVP_VerifyFinal(EVP_MD_CTX *c, const unsigned char *sig, unsigned int siglen, EVP_PKEY *pkey) { (void)c; n_final++; fin_sig = sig; fin_len = siglen; fin_key = pkey; return ret_final; }
void ASN1_OBJECT_free(ASN1_OBJECT *a) { (void)a; }
void EVP_PKEY_free(EVP_PKEY *k) { (void)k; }

void harness(void) {
	VERIF_ctx_init(); KSI_CTX *ctx = VERIF_ctx;
	ret_init = ND(int, ret_init); ASSUME(ret_init == 0 || ret_init == 1);
	ret_update = ND(int, ret_update); ASSUME(ret_update == 0 || ret_update == 1);
	ret_final = ND(int, ret_final); ASSUME(ret_final >= -1 && ret_final <= 1);
	md_known = ND_BOOL(md_known);
	static unsigned char data[4], sig[6];
	size_t data_len = ND(size_t, data_len), sig_len = ND(size_t, sig_len);
	ASSUME(data_len <= 4 && sig_len <= 6);
	KSI_PKICertificate cert; cert.ctx = ctx; cert.x509 = (X509 *)&d_x509;
	int res = KSI_PKITruststore_verifyRawSignature(ctx, data, data_len, "1.2.840.113549.1.1.11", sig, sig_len, &cert);
	if (res == KSI_OK) {
		CHECK(n_final == 1 && ret_final == 1, "C04.Hpki success only if OpenSSL's signature verification answered 1 (neither mismatch 0 nor error -1)");
		CHECK(ret_init == 1 && ret_update == 1, "C04.Hpki success only if digest initialisation and update succeeded");
		CHECK(upd_data == data && upd_len == data_len, "C04.Hpki exactly the given data bytes are digested");
		CHECK(fin_sig == sig && fin_len == sig_len && fin_key == (void *)&d_key, "C04.Hpki exactly the given signature bytes are verified with the certificate's public key");
		CHECK(init_md == (const void *)the_md && md_known, "C04.Hpki the digest is the one named by the signature algorithm OID and is one libksi supports");
		WITNESS_POINT("signature accepted");
	} else {
		if (ret_final == -1 && n_final == 1) { CHECK(res == KSI_CRYPTO_FAILURE, "C04.Hpki an OpenSSL error during verification is a crypto failure"); WITNESS_POINT("openssl error refused"); }
		if (ret_final == 0 && n_final == 1) { CHECK(res == KSI_INVALID_PKI_SIGNATURE, "C04.Hpki a signature mismatch is reported as invalid PKI signature"); WITNESS_POINT("mismatch refused"); }
	}
}
