#!/usr/bin/env python3
"""Generates harness/C10/plan.json (run after changing the instance lists below).
The schema data is read from schema.h (single source); it is used here ONLY to decide which witness
points are reachable for a given shape (a wrong guess shows up as a 'vacuous' instance, never as a pass)."""
import itertools, json, os, re

HERE = os.path.dirname(os.path.abspath(__file__))
MANY = 0xffff


def read_schemas():
    txt = open(os.path.join(HERE, "schema.h")).read()
    res = {}
    for m in re.finditer(r"#define C10_SCHEMA_(\w+) \{ \\\n((?:\s*\{[^}]*\}, \\\n)+)\}", txt):
        rows = []
        for r in re.finditer(r"\{([^}]*)\}", m.group(2)):
            f = [x.strip() for x in r.group(1).split(",")]
            rows.append([MANY if x == "C10_MANY" else int(x, 0) for x in f])
        res[m.group(1)] = rows
    return res


SCH = read_schemas()


def accepts(S, seq):
    """seq: list of (tag or None for unknown, nc) -> schema verdict (third implementation, witness planning only)"""
    tags = [r[0] for r in S]
    known = [tags.index(t) for (t, nc) in seq if t in tags]
    for (t, nc) in seq:
        if t not in tags and not nc:
            return False
    for e, r in enumerate(S):
        c = known.count(e)
        if c < r[1] or (r[2] != MANY and c > r[2]):
            return False
    for g in (1, 2):
        need = [e for e, r in enumerate(S) if r[3] & g]
        if need and not any(e in known for e in need):
            return False
        if sum(1 for e in known if S[e][4] & g) > 1:
            return False
    mr = 0
    for p, e in enumerate(known):
        if S[e][5] and p != 0:
            return False
        if S[e][6] and p != len(known) - 1:
            return False
        if S[e][7]:
            if S[e][7] < mr:
                return False
            mr = S[e][7]
    return True


def witnesses(S, shape):
    tags = [r[0] for r in S]
    free = [i for i, t in enumerate(shape) if t is None]
    w = set()
    for choice in itertools.product(tags + [None], repeat=len(free)):
        for ncs in itertools.product([0, 1], repeat=len(free)):
            seq = []
            k = 0
            for t in shape:
                if t is None:
                    seq.append((choice[k], ncs[k])); k += 1
                else:
                    seq.append((t, 0))
            ok = accepts(S, seq)
            unk = any(t not in tags for t, _ in seq)
            nknown = sum(1 for t, _ in seq if t in tags)
            if ok:
                w.add("W_ACCEPT")
                if unk: w.add("W_ACCEPT_UNK")
                if nknown: w.add("W_REJECT_LEAF")
            else:
                if not unk: w.add("W_REJECT_SCHEMA")
                if any(t not in tags and not nc for t, nc in seq): w.add("W_REJECT_CRIT")
    return sorted(w)


def shape_def(shape):
    return "SHAPE={%s}" % ",".join("-1" if t is None else hex(t) for t in shape) if shape else "SHAPE={-1}"


def inst(S, label, shape):
    return {"label": label, "defines": ["NCH=%d" % len(shape), shape_def(shape)] + witnesses(S, shape)}


def shapes(S, base, tier):
    """Shapes of the child sequence (None = free child).
    quick: no child, 1-2 free children, the valid base sequence, the base with one position replaced by a free child
    or one free child inserted - at the real position when at most two children follow it, otherwise moved to the end
    (t<p>: base without element p, then the free child).  The restriction keeps the quick tier fast on a tree where
    the engine's start-row optimisation makes the row index symbolic for every child after a free one.
    thorough: additionally 3 free children, every real position, two free children at the tail, pairs for short bases."""
    n = len(base)
    out = [("e0", [])]
    for k in (1, 2):
        out.append(("f%d" % k, [None] * k))
    if tier == "thorough":
        out.append(("base", list(base)))     # quick: subsumed by the r<p> shapes (the free child can take the base tag)
    for p in range(n):
        if n - 1 - p <= 2 or tier == "thorough":
            s = list(base); s[p] = None
            out.append(("r%d" % p, s))
        if n - 1 - p > 2:
            s = list(base); del s[p]; s.append(None)
            out.append(("t%d" % p, s))
    for p in range(n + 1):
        if n - p <= 2 or tier == "thorough":
            s = list(base); s.insert(p, None)
            out.append(("i%d" % p, s))
    if tier == "thorough":
        out.append(("f3", [None] * 3))
        for p in range(max(0, n - 1), n + 1):
            s = list(base); s.insert(p, None); s.insert(p, None)
            out.append(("ii%d" % p, s))
        if n <= 4:
            for p, q in itertools.combinations(range(n), 2):
                s = list(base); s[p] = None; s[q] = None
                out.append(("r%d_%d" % (p, q), s))
    return out


# template -> (valid base sequence, extra TUs holding the table, tier)
TEMPLATES = [
    ("KSI_AggregationHashChain", [0x02, 0x03, 0x05, 0x06, 0x07], [], "quick"),
    ("KSI_CalendarHashChain", [0x01, 0x02, 0x05, 0x08], [], "quick"),
    ("KSI_HashChainLink", [0x01, 0x02], [], "quick"),
    ("KSI_MetaDataElement", [0x1e, 0x01, 0x02], [], "quick"),
    ("KSI_Signature", [0x0801, 0x0802, 0x0805], ["signature_builder"], "quick"),
    ("KSI_AggregationRespPdu", [0x01, 0x02, 0x1f], [], "quick"),
    ("KSI_ExtendRespPdu", [0x01, 0x02, 0x1f], [], "quick"),
    ("KSI_PublicationsFile", [0x0701, 0x0702, 0x0703, 0x0704], ["publicationsfile"], "quick"),
    ("KSI_AggregationPdu", [0x01, 0x202, 0x1f], [], "quick"),
    ("KSI_ExtendPdu", [0x01, 0x302, 0x1f], [], "quick"),
    ("KSI_AggregationReqPdu", [0x01, 0x02, 0x1f], [], "thorough"),
    ("KSI_ExtendReqPdu", [0x01, 0x02, 0x1f], [], "thorough"),
    ("KSI_PublicationRecord", [0x10, 0x09, 0x0a], [], "thorough"),
    ("KSI_PublicationData", [0x02, 0x04], [], "thorough"),
    ("KSI_CalendarAuthRec", [0x10, 0x0b], [], "thorough"),
    ("KSI_CalAuthRecPKISignedData", [0x01, 0x02, 0x03, 0x04], [], "thorough"),
    ("KSI_AggrAuthRecPKISignedData", [0x01, 0x02, 0x03, 0x04], [], "thorough"),
    ("KSI_AggregationAuthRec", [0x02, 0x03, 0x05, 0x0b], [], "thorough"),
    ("KSI_RFC3161", [0x02, 0x03, 0x05, 0x10, 0x11, 0x12, 0x13, 0x14, 0x15], [], "thorough"),
    ("KSI_Header", [0x01, 0x02, 0x03], [], "thorough"),
    ("KSI_PublicationsHeader", [0x01, 0x02, 0x03], [], "thorough"),
    ("KSI_CertificateRecord", [0x01, 0x02], [], "thorough"),
    ("KSI_ErrorPdu", [0x04, 0x05], [], "thorough"),
]


# templates whose table has rows of type KSI_TLV_TEMPLATE_COMPOSITE (the harness checks this flag against the real table)
COMPOSITE = {"KSI_Signature", "KSI_AggregationRespPdu", "KSI_ExtendRespPdu", "KSI_PublicationsFile", "KSI_AggregationPdu", "KSI_ExtendPdu",
             "KSI_AggregationReqPdu", "KSI_ExtendReqPdu", "KSI_PublicationRecord", "KSI_CalendarAuthRec", "KSI_AggregationAuthRec"}


def tmpl_harness(name, base, extra_tus, tier):
    S = SCH[name]
    assert accepts(S, [(t, 0) for t in base]), name
    nrows = len(S)
    gets = ",".join("get%d" % k for k in range(nrows))
    sets = ",".join("set%d" % k for k in range(nrows))
    h = {
        "name": "tmpl_" + name[4:], "src": "h_tmpl.c", "env": ["ctx", "list_wrap", "c10_fmt_nowrite"],
        "tus": ["tlv_template", "tlv", "fast_tlv"] + extra_tus,
        "defines": ["TMPL=" + name, "NROWS=%d" % nrows, "HAS_COMPOSITE=%d" % (1 if name in COMPOSITE else 0)],
        "unwind": max(nrows, len(base) + 2) + 2, "timeout": 240, "max_replays": 1, "object_bits": 12, "solver": "kissat",
        "restrict_fp": [
            "storeObjectValue.function_pointer_call.1/" + gets,
            "storeObjectValue.function_pointer_call.2/stub_listNew",
            "storeObjectValue.function_pointer_call.3/stub_listAppend",
            "storeObjectValue.function_pointer_call.4/" + sets,
            "storeObjectValue.function_pointer_call.5/" + sets,
            "storeObjectValue.function_pointer_call.6/stub_listFree",
            "extractObject.function_pointer_call.1/stub_parser",
            "extractObject.function_pointer_call.2/stub_fromTlv",
            "extractObject.function_pointer_call.3/stub_destruct",
            "extractComposite.function_pointer_call.1/stub_construct",
            "extractComposite.function_pointer_call.2/stub_destruct",
            "extractGenerator.function_pointer_call.1/gen,TLVListIterator_next",
            "extractGenerator.function_pointer_call.2/" + gets],
        "functions": ["KSI_TlvTemplate_extractGenerator", "extractGenerator", "extractObject", "extractComposite", "extract",
                      "storeObjectValue", "getTemplateLength", "TLVListIterator_next", "KSI_TLV_new", "KSI_TLV_getNestedList"],
        "bound": "real table %s_template (rows copied, function-pointer columns and sub-template redirected to recording stubs; every "
                 "indirect call of the engine restricted to those stubs by goto-instrument, which turns the restriction into a proof obligation) "
                 "vs. schema.h; child sequences: 0..2 free children, the base sequence %s with any one position replaced by a free "
                 "child, the base with one free child inserted at any position (thorough: 3 free children, two replacements/insertions); a free "
                 "child = symbolic tag over the schema alphabet plus a symbolic unknown tag; all children: symbolic non-critical and forward "
                 "flags and symbolic leaf-parser outcome" % (name, [hex(t) for t in base]),
        "instances": [inst(S, l, s) for l, s in shapes(S, base, "quick")],
        "thorough": {"instances": [inst(S, l, s) for l, s in shapes(S, base, "thorough")], "timeout": 1200},
    }
    if tier == "thorough":
        h["tier"] = "thorough"
    return h


def main():
    plan = json.load(open(os.path.join(HERE, "plan_static.json")))
    plan["harnesses"] = [tmpl_harness(*t) for t in TEMPLATES] + plan["harnesses"]
    json.dump(plan, open(os.path.join(HERE, "plan.json"), "w"), indent=1)
    nq = sum(len(h.get("instances", [1])) for h in plan["harnesses"] if h.get("tier") != "thorough")
    nt = sum(len(h.get("thorough", {}).get("instances", h.get("instances", [1]))) for h in plan["harnesses"])
    print("plan.json written: %d harnesses, %d quick instances, %d thorough instances" % (len(plan["harnesses"]), nq, nt))


if __name__ == "__main__":
    main()
