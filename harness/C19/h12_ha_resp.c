/* C19 H-12: the RESPONSE side of the high-availability service (net_ha.c) under a single allocation failure at the
 * concrete index FAULT_AT, followed by CONTINUED USE with faults disarmed.
 *
 * Subject (real code, #included): KSI_AsyncService_run -> KSI_HighAvailabilityService_run -> responseHandler ->
 * handleReqResponse / handleErrorResponse -> KSI_HighAvailabilityService_reportErrorNotice, KSI_AsyncHandle_free /
 * KSI_HighAvailabilityRequest_free with the REAL recycle lists of the context, KSI_AsyncService_free.
 * Scenario (set-up of H-9): HA signing service with two stub endpoints; ONE signing request is forwarded to both,
 * fault-free.  Then ARMED: one HA service round in which endpoint 0 and endpoint 1 hand back their copies with the
 * outcomes OUT0 / OUT1 (1 = a valid response, 2 = an error); the replies themselves were received
 * (allocated) before.  Then, disarmed: rounds until the response queue is drained; everything handed back is released;
 * a second request is submitted, answered by both endpoints and completed; the service is freed.
 * Checks: without fault the documented result (first round hands back: 1,1 the request with its response; 2,1 the error
 * notice of endpoint 0, then the request with the response; 2,2 the notice of endpoint 1, then the request failed with
 * the error of endpoint 0; 1,2 the request with its response,
 * then the notice); with a fault: error status or the fault-free hand-out, AND IN EVERY CASE the user's request is
 * handed back exactly once in a final state (it must not be lost: no copy is outstanding any more, so nothing could
 * complete it later); every forwarded copy is released exactly once; an error notice references the request and
 * keeps it alive; the repeated operation completes exactly once; CBMC: no use-after-free / double free / leak.
 * NALLOC = allocations of the faulted round when none fails (instance constant, checked exact).
 * Payload objects: C13 models allocating through KSI_new.
 *
 * RESULT on the unchanged /repo: o11_k1, o12_k1, o21_k2, o22_k2 FAIL "the request is not lost" (genuine defect, native
 * replay confirms; FINDINGS_h12.md with a validated patch); the other 16 instances pass; with the patch all 20 pass.
 * MUTATIONS caught (on the patched scratch tree, see FINDINGS_h12.md): Mh1 responseHandler drops the response it could
 * not process (o12_k1: request lost), Mh2 reportErrorNotice cleanup without KSI_AsyncHandle_free(noticeHandle)
 * (o21_k2: leak, request reference never released). */
#define HN "C19.H12"
#define C13_STUBS_NEVER_FAIL 1
#define C13_CREDENTIALS_OK 1
#ifndef OUT0
#define OUT0 1
#endif
#ifndef OUT1
#define OUT1 1
#endif
#ifndef NALLOC
#error "NALLOC: number of allocations of the faulted round (instance constant, checked)"
#endif
#include "c19.h"
#include "net_ha.h"
#include "net_async.h"
#include "impl/ctx_impl.h"
#include "verif_post.h"
#include "c13_model.h"
#include "net_async.c"
#include "net_ha.c"

#define NSUB 2
KSI_IMPLEMENT_LIST(KSI_AsyncHandle, KSI_AsyncHandle_free)
KSI_IMPLEMENT_LIST(KSI_HighAvailabilityRequest, KSI_HighAvailabilityRequest_free)
KSI_IMPLEMENT_LIST(KSI_AsyncService, KSI_AsyncService_free)
int KSI_AbstractAsyncService_new(KSI_CTX *ctx, KSI_AsyncService **service) {
	if (ctx == NULL || service == NULL) return KSI_INVALID_ARGUMENT;
	KSI_AsyncService *s = KSI_new(KSI_AsyncService);
	if (s == NULL) return KSI_OUT_OF_MEMORY;
	memset(s, 0, sizeof(*s)); s->ctx = ctx; *service = s; return KSI_OK;
}
int KSI_isHashAlgorithmTrusted(KSI_HashAlgorithm a) { (void)a; return 1; }
const char *KSI_getHashAlgorithmName(KSI_HashAlgorithm a) { (void)a; return "alg"; }
int KSI_TcpAsyncClient_new(KSI_CTX *ctx, KSI_AsyncClient **c) { (void)ctx; (void)c; return KSI_UNKNOWN_ERROR; }
int KSI_HttpAsyncClient_new(KSI_CTX *ctx, KSI_AsyncClient **c) { (void)ctx; (void)c; return KSI_UNKNOWN_ERROR; }
/* signature creation is not reached (H-11 covers it): trapping definitions keep the call graph closed */
int KSI_SignatureBuilder_openFromAggregationResp(const KSI_AggregationResp *r, KSI_SignatureBuilder **b) { (void)r; (void)b; CHECK(0, HN " unreachable: signature builder"); return KSI_UNKNOWN_ERROR; }

/* stub endpoint: holds the forwarded copies; hands one back per round with the outcome prepared for it */
struct sub { size_t id; KSI_AsyncHandle *held[2]; unsigned nheld, accepted, returned; int outcome; KSI_AggregationResp *reply; int err; };
static struct sub subs[NSUB];
static void reply_free(void *p) { KSI_AggregationResp_free((KSI_AggregationResp *)p); }
static int sub_addRequest(void *impl, KSI_AsyncHandle *h) {
	struct sub *s = (struct sub *)impl;
	if (s->nheld >= 2) return KSI_ASYNC_REQUEST_CACHE_FULL;
	s->held[s->nheld++] = h; s->accepted++;
	h->state = KSI_ASYNC_STATE_WAITING_FOR_DISPATCH; h->parentId = s->id;
	return KSI_OK;
}
static int sub_run(void *impl, int (*rh)(void *), KSI_AsyncHandle **handle, size_t *waiting) {
	struct sub *s = (struct sub *)impl; (void)rh;
	if (handle != NULL) {
		*handle = NULL;
		if (s->nheld > 0 && s->outcome != 0) {
			KSI_AsyncHandle *h = s->held[0]; s->held[0] = s->held[1]; s->held[1] = NULL; s->nheld--; s->returned++;
			if (s->outcome == 1) { h->state = KSI_ASYNC_STATE_RESPONSE_RECEIVED; h->respCtx = s->reply; h->respCtx_free = reply_free; s->reply = NULL; }
			else { h->state = KSI_ASYNC_STATE_ERROR; h->err = s->err; }
			s->outcome = 0;
			*handle = h;
		}
	}
	if (waiting != NULL) *waiting = s->nheld;
	return KSI_OK;
}
static int sub_count(void *impl, size_t *n) { struct sub *s = (struct sub *)impl; *n = s->nheld; return KSI_OK; }
static int sub_zero(void *impl, size_t *n) { (void)impl; *n = 0; return KSI_OK; }
/* the reply an endpoint received earlier (allocated before the faulted call) */
static void prepare(unsigned i, int outcome) {
	subs[i].outcome = outcome;
	if (outcome == 1) { int res = KSI_AggregationResp_new(VERIF_ctx, &subs[i].reply); ASSUME(res == KSI_OK); }
	else subs[i].err = (i == 0 ? KSI_NETWORK_ERROR : KSI_SERVICE_UPSTREAM_TIMEOUT);   /* concrete: "err == KSI_OK" is a branch of reportErrorNotice (shape) */
}

static KSI_AsyncHandle *mk_user(KSI_CTX *ctx) {
	KSI_AggregationReq *req = NULL; KSI_AsyncHandle *u = NULL;
	int res = KSI_AggregationReq_new(ctx, &req); ASSUME(res == KSI_OK);
	req->requestHash = (KSI_DataHash *)&c13_dummy_hash;
	res = KSI_AsyncAggregationHandle_new(ctx, req, &u); ASSUME(res == KSI_OK && u != NULL);
	return u;
}

static unsigned got_user, got_notice, got_other;
static int user_final_state;
static void take(KSI_AsyncHandle *out, const KSI_AsyncHandle *user) {
	if (out == NULL) return;
	if (out == user) {
		got_user++; user_final_state = out->state;
		CHECK(out->state == KSI_ASYNC_STATE_RESPONSE_RECEIVED || out->state == KSI_ASYNC_STATE_ERROR, HN " the request is handed back in a final state");
		CHECK((out->state == KSI_ASYNC_STATE_RESPONSE_RECEIVED) == (out->respCtx != NULL), HN " the request carries a response exactly when it did not fail");
	} else if (out->state == KSI_ASYNC_STATE_ERROR_NOTICE) {
		got_notice++;
		CHECK(out->userCtx == (void *)user && out->err != KSI_OK, HN " an error notice carries the endpoint's error and references the request");
	} else got_other++;
	KSI_AsyncHandle_free(out);
}

void harness(void) {
	VERIF_ctx_init();
	KSI_CTX *ctx = VERIF_ctx;
	int res;
	KSI_AsyncService *ha = NULL;
	res = KSI_AsyncHandleList_new(&ctx->asyncHandleRecycle); ASSUME(res == KSI_OK);                 /* base.c:329 */
	res = KSI_HighAvailabilityRequestList_new(&ctx->haRequestRecycle); ASSUME(res == KSI_OK);       /* base.c */
	res = KSI_SigningHighAvailabilityService_new(ctx, &ha); ASSUME(res == KSI_OK && ha != NULL);
	KSI_HighAvailabilityService *has = (KSI_HighAvailabilityService *)ha->impl;
	for (unsigned i = 0; i < NSUB; i++) {
		KSI_AsyncService *as = NULL;
		res = KSI_AbstractAsyncService_new(ctx, &as); ASSUME(res == KSI_OK);
		memset(&subs[i], 0, sizeof(subs[i])); subs[i].id = 100 + i;
		as->impl = &subs[i]; as->addRequest = sub_addRequest; as->run = sub_run; as->getPendingCount = sub_count; as->getReceivedCount = sub_zero;
		res = KSI_AsyncServiceList_append(has->services, as); ASSUME(res == KSI_OK);
	}
	KSI_AsyncHandle *user = mk_user(ctx);
	KSI_AsyncHandle_ref(user);                   /* observer, released at the end */
	res = KSI_AsyncService_addRequest(ha, user); ASSUME(res == KSI_OK);
	CHECK(subs[0].accepted == 1 && subs[1].accepted == 1 && user->state == KSI_ASYNC_STATE_WAITING_FOR_RESPONSE, HN " the request is forwarded to both endpoints");
	prepare(0, OUT0); prepare(1, OUT1);

	/* ---- the faulted round ---- */
	KSI_AsyncHandle *out = NULL; size_t waiting = 0;
	C19_ARM();
	res = KSI_AsyncService_run(ha, &out, &waiting);
	C19_DISARM();
	const unsigned armed_allocs = VERIF_alloc_count;
	if (res == KSI_OK) CHECK(subs[0].returned == 1 && subs[1].returned == 1, HN " both endpoints handed their copy back in the round");
	if (res != KSI_OK) CHECK(out == NULL, HN " a failed round hands out nothing");
	{
		int first_is_user = (out == user), first_is_notice = (out != NULL && out != user && out->state == KSI_ASYNC_STATE_ERROR_NOTICE);
		int ff_ok = (res == KSI_OK);
#if OUT0 == 1
		ff_ok = ff_ok && first_is_user && user->state == KSI_ASYNC_STATE_RESPONSE_RECEIVED;
#elif OUT1 == 1
		ff_ok = ff_ok && first_is_notice && user->state == KSI_ASYNC_STATE_RESPONSE_RECEIVED;
#else
		/* both endpoints failed: the first error decides the request, the second is a notice (queued before the request) */
		ff_ok = ff_ok && first_is_notice && user->state == KSI_ASYNC_STATE_ERROR && user->err == subs[0].err;
#endif
		if (VERIF_fault_hit) CHECK(ff_ok || res != KSI_OK || (user->state == KSI_ASYNC_STATE_ERROR && user->err != KSI_OK) || user->state == KSI_ASYNC_STATE_RESPONSE_RECEIVED,
			HN " with a failed allocation the round delivers the fault-free result, or an error, or the request is completed");
		else CHECK(ff_ok, HN " without a fault the round delivers the documented result");
	}
	take(out, user);

	/* ---- continued use: drain ---- */
	for (unsigned r = 0; r < 4; r++) {
		out = NULL;
		res = KSI_AsyncService_run(ha, &out, &waiting);
		CHECK(res == KSI_OK, HN " a service round after the fault succeeds");
		take(out, user);
	}
	CHECK(subs[0].returned == 1 && subs[1].returned == 1, HN " both endpoints handed their copy back");
	CHECK(KSI_AsyncHandleList_length(has->respQueue) == 0 && subs[0].nheld == 0 && subs[1].nheld == 0, HN " nothing is outstanding any more");
	CHECK(got_user <= 1, HN " the request is not handed back twice");
	CHECK(got_user >= 1, HN " the request is not lost: it is handed back although a reply was being processed when the allocation failed");
	CHECK(got_other == 0 && got_notice <= (unsigned)((OUT0 == 2) + (OUT1 == 2)), HN " nothing foreign is handed back, at most one notice per failing endpoint");
	if (!VERIF_fault_hit) CHECK(got_notice == ((OUT0 == 2 && OUT1 == 2) ? 1u : (unsigned)((OUT0 == 2) + (OUT1 == 2))), HN " without fault every endpoint error that did not decide the request is reported as a notice");
	CHECK(user->ref == 1, HN " at the end only the observer holds the request");

	/* ---- the same operation repeated without fault ---- */
	KSI_AsyncHandle *user2 = mk_user(ctx);
	KSI_AsyncHandle_ref(user2);
	res = KSI_AsyncService_addRequest(ha, user2);
	CHECK(res == KSI_OK && subs[0].accepted == 2 && subs[1].accepted == 2, HN " a further request is forwarded to both endpoints");
	prepare(0, 1); prepare(1, 1);
	got_user = 0; got_notice = 0;
	for (unsigned r = 0; r < 3; r++) { out = NULL; res = KSI_AsyncService_run(ha, &out, &waiting); CHECK(res == KSI_OK, HN " a round of the repeated operation succeeds"); take(out, user2); }
	CHECK(got_user == 1 && got_notice == 0 && got_other == 0 && user2->state == KSI_ASYNC_STATE_RESPONSE_RECEIVED && user2->ref == 1, HN " the repeated request is completed exactly once");

	KSI_AsyncHandle_free(user); KSI_AsyncHandle_free(user2);
	KSI_AsyncService_free(ha);
	KSI_AsyncHandleList_free(ctx->asyncHandleRecycle); ctx->asyncHandleRecycle = NULL;            /* KSI_CTX_free */
	KSI_HighAvailabilityRequestList_free(ctx->haRequestRecycle); ctx->haRequestRecycle = NULL;
	if (!VERIF_fault_hit) CHECK(armed_allocs == NALLOC, HN " the faulted round performs exactly NALLOC allocations when none fails");
	CHECK((VERIF_fault_hit != 0) == (FAULT_AT >= 1 && FAULT_AT <= NALLOC), HN " every enumerated index up to NALLOC strikes, none beyond");
	WITNESS_POINT("scenario finished");
#if FAULT_AT >= 1 && FAULT_AT <= NALLOC
	if (VERIF_fault_hit) WITNESS_POINT("fault was injected");
#endif
}
