/* C12 H-endleaf: value constructors must validate the length before touching bytes.
 * The element is the LAST thing in an exact-size heap buffer (KSI_TLV_parseBlob makes its own exact-size copy),
 * its payload has LEN octets (0, 1 or 2; LEN = 0 puts the payload pointer one past the end of the allocation).
 * Each leaf parser (integer, octet string, UTF-8 string, non-empty UTF-8 string, imprint, legacy id, metadata
 * sub-structure check via the link template is C10's) is run on it: no access outside the buffer, KSI_OK or an
 * error code, all objects freed (leak check on).  Regression harness for the zero-length imprint read (F6). */
#include "verif.h"
#include "internal.h"
#include "tlv.h"
#include "hashchain.h"
#include "ctx.h"
#include "verif_post.h"

#ifndef LEN
#define LEN 0
#endif

void harness(void) {
	VERIF_ctx_init();
	KSI_CTX *ctx = VERIF_ctx;
	u8 in[2 + LEN + 1];
	in[0] = 0x05; in[1] = (u8)LEN;
	for (unsigned i = 0; i < LEN; i++) in[2 + i] = ND(u8, pl);
	KSI_TLV *tlv = NULL;
	int res = KSI_TLV_parseBlob(ctx, in, 2 + LEN, &tlv);
	CHECK(res == KSI_OK && tlv != NULL, "C12.endleaf element parses");
	if (res != KSI_OK || tlv == NULL) return;

	KSI_Integer *i = NULL; KSI_OctetString *o = NULL, *lid = NULL; KSI_Utf8String *u = NULL, *unz = NULL; KSI_DataHash *h = NULL;
	int r1 = KSI_Integer_fromTlv(tlv, &i);
	int r2 = KSI_OctetString_fromTlv(tlv, &o);
	int r3 = KSI_Utf8String_fromTlv(tlv, &u);
	int r4 = KSI_Utf8StringNZ_fromTlv(tlv, &unz);
	int r5 = KSI_DataHash_fromTlv(tlv, &h);
	int r6 = KSI_HashChainLink_LegacyId_fromTlv(tlv, &lid);
	CHECK((r1 == KSI_OK) == (i != NULL) && (r2 == KSI_OK) == (o != NULL) && (r3 == KSI_OK) == (u != NULL) && (r4 == KSI_OK) == (unz != NULL) &&
	      (r5 == KSI_OK) == (h != NULL) && (r6 == KSI_OK) == (lid != NULL), "C12.endleaf every parser returns an object exactly on KSI_OK");
	CHECK(r2 == KSI_OK, "C12.endleaf octet string accepts any payload");
	CHECK(r5 != KSI_OK && r6 != KSI_OK, "C12.endleaf no imprint or legacy id of 0..2 octets exists");
#if LEN == 0
	CHECK(r1 == KSI_OK && r3 != KSI_OK && r4 != KSI_OK, "C12.endleaf empty payload: integer zero, no string");
	WITNESS_POINT("empty payload at the end of the buffer handled");
#elif LEN == 1
	if (r3 == KSI_OK && r4 != KSI_OK) WITNESS_POINT("empty string accepted only by the plain string parser");
	if (r1 == KSI_OK) WITNESS_POINT("one-octet integer");
#else
	if (r1 == KSI_OK && r3 == KSI_OK && r4 == KSI_OK) WITNESS_POINT("payload is both an integer and a string");
#endif
	KSI_Integer_free(i); KSI_OctetString_free(o); KSI_OctetString_free(lid); KSI_Utf8String_free(u); KSI_Utf8String_free(unz); KSI_DataHash_free(h);
	KSI_TLV_free(tlv);
}
