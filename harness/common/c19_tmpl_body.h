/* C19 H-13 common body: one operation of the TLV template engine (tlv_template.c, REAL) on a REAL template of a small
 * object with the FAULT_AT-th allocation of that operation failing (c19.h conventions).  Included by h13_header.c,
 * h13_config.c, h13_link.c (which also list the mutations this body catches).
 *
 * The including harness (h13_<object>.c) provides, for its object type T:
 *   T, T_NEW(ctx, &o), T_FREE(o), TMPL (the real template table), TOP_TAG, EXP_LEN (length of the encoding, concrete),
 *   struct vals + draw(&v)              symbolic field values (shape concrete, values ND)
 *   mk_bytes(buf, &v)                   ORACLE: the encoding of the object, written by hand from the KSI format
 *   mk_obj(ctx, &v)                     the object built with the real constructors and setters
 *   obj_matches(o, &v)                  the object's fields hold exactly the values of v
 *   NSNAP, obj_snap(o, s)               identity of the member objects (to show that a call did not touch the object)
 *   optional T_FROMTLV(tlv, &o) / T_TOTLV(ctx, o, &tlv) / fromtlv_extra(o, &v)  the object's own fromTlv / toTlv wrappers
 *   OP (which operation), NALLOC (allocations of that operation in the fault-free run; checked in instance k0)
 *
 * Operations (OP):
 *   1 KSI_TlvTemplate_extract            from a parsed element whose top-level nested list is already expanded
 *   2 KSI_TlvTemplate_extractGenerator   children handed out by a harness generator
 *   3 KSI_TlvTemplate_parse              from bytes (parseBlob2 + lazy expansion + extract)
 *   4 KSI_TlvTemplate_extract            from a freshly parsed element (lazy expansion happens under the fault)
 *   5 KSI_TlvTemplate_construct          object -> caller-provided element
 *   6 KSI_TlvTemplate_serializeObject    object -> allocated bytes
 *   7 KSI_TlvTemplate_writeBytes         object -> caller-provided buffer
 *   8 <T>_fromTlv                        the object's fromTlv wrapper (constructor + extract + add-on)
 *   9 <T>_toTlv                          the object's toTlv wrapper (KSI_TLV_new + construct)
 *
 * Checked per operation and fault index (besides CBMC's built-in memory-safety checks and --memory-leak-check):
 *   - error, or the fault-free result (extract: every field has the value the input encodes; construct / serialize: the
 *     bytes are the oracle's bytes);
 *   - on error an output POINTER (ops 6, 8, 9) is untouched; a caller-provided object / element may be partly filled and
 *     is released by the caller with its destructor (no double free of members moved into it, nothing leaks);
 *   - the INPUT is unchanged and usable: an input element tree still serialises to the oracle's bytes, input bytes are
 *     unchanged, an input object still has the very same members with the same values;
 *   - the same operation repeated without fault on the same input succeeds with the fault-free result;
 *   - k0: the operation performs exactly NALLOC allocations; k > NALLOC: no fault is hit (enumeration complete). */
#ifndef C19_TMPL_BODY_H_
#define C19_TMPL_BODY_H_

#ifndef OP
#define OP 1
#endif
#ifndef NALLOC
#define NALLOC 0
#endif
#define FAULTED (FAULT_AT >= 1 && FAULT_AT <= NALLOC)
#define OUTSZ (EXP_LEN + 8)

static int bytes_equal(const u8 *a, const u8 *b) {
	int same = 1;
	for (unsigned i = 0; i < EXP_LEN; i++) if (a[i] != b[i]) same = 0;
	return same;
}
/* the element serialises to exactly the oracle's bytes */
static int tree_is(const KSI_TLV *t, const u8 *exp) {
	u8 out[OUTSZ]; size_t ol = 0;
	for (unsigned i = 0; i < OUTSZ; i++) out[i] = 0;
	int r = KSI_TLV_serialize_ex(t, out, sizeof(out), &ol);
	return r == KSI_OK && ol == EXP_LEN && bytes_equal(out, exp);
}
static int snap_same(void *const *a, void *const *b) {
	int same = 1;
	for (unsigned i = 0; i < NSNAP; i++) if (a[i] != b[i]) same = 0;
	return same;
}

/* targets named in the plan's restrict_fp lists for call sites this object's template never uses (no parser column,
 * no composite row): reaching one of them is a violation */
int h13_noparser(KSI_CTX *c, unsigned char *r, size_t l, int o, void *out) { (void)c; (void)r; (void)l; (void)o; (void)out; CHECK(0, "C19.H13 [table] no row of this template has a parser column"); return KSI_UNKNOWN_ERROR; }
int h13_nocomposite_new(KSI_CTX *c, void **o) { (void)c; (void)o; CHECK(0, "C19.H13 [table] no row of this template is a composite with a constructor"); return KSI_UNKNOWN_ERROR; }
void h13_nocomposite_free(void *o) { (void)o; CHECK(0, "C19.H13 [table] no composite destructor is used by this template"); }
struct gen_st { KSI_LIST(KSI_TLV) *list; size_t idx; };
int h13_gen(void *g, KSI_TLV **out) {
	struct gen_st *s = g; KSI_TLV *t = NULL;
	if (s->idx < KSI_TLVList_length(s->list)) { if (KSI_TLVList_elementAt(s->list, s->idx, &t) != KSI_OK) return KSI_UNKNOWN_ERROR; s->idx++; }
	*out = t;
	return KSI_OK;
}

void harness(void) {
	VERIF_ctx_init(); KSI_CTX *ctx = VERIF_ctx;
	struct vals v; draw(&v);
	u8 exp[EXP_LEN]; mk_bytes(exp, &v);
	int res;

#if OP >= 1 && OP <= 4 || OP == 8
	/* ---------------- element / bytes -> object ----------------
	 * The input element is always parsed IN PLACE from the exact-size byte buffer (KSI_TLV_parseBlob2, ownMemory 0): values
	 * then live in a small array (an element with its own 64 KiB value buffer would hide every value and length from
	 * CBMC's constant propagation, README rule 3). */
	KSI_TLV *in = NULL; u8 *raw = NULL; T *o = NULL;
	raw = verif_buf_alloc(EXP_LEN);
	for (unsigned i = 0; i < EXP_LEN; i++) raw[i] = exp[i];
#if OP != 3
	res = KSI_TLV_parseBlob2(ctx, raw, EXP_LEN, 0, &in); ASSUME(res == KSI_OK);
#endif
#if OP == 1 || OP == 2
	struct gen_st g; g.idx = 0; g.list = NULL;
	res = KSI_TLV_getNestedList(in, &g.list); ASSUME(res == KSI_OK);      /* top level expanded before the fault is armed */
#endif
#if OP != 8
	res = T_NEW(ctx, &o); ASSUME(res == KSI_OK);
#endif

	C19_ARM();
#if OP == 1 || OP == 4
	res = KSI_TlvTemplate_extract(ctx, o, in, TMPL);
#elif OP == 2
	res = KSI_TlvTemplate_extractGenerator(ctx, o, &g, TMPL, h13_gen);
#elif OP == 3
	res = KSI_TlvTemplate_parse(ctx, raw, EXP_LEN, TMPL, o);
#else
	res = T_FROMTLV(in, &o);
#endif
	C19_DISARM();
	unsigned used = VERIF_alloc_count;

#if OP == 8
	C19_OUTCOME(res, o != NULL && obj_matches(o, &v) && fromtlv_extra(o, &v));
	if (res != KSI_OK) CHECK(o == NULL, "C19.H13 a failed fromTlv leaves the output pointer untouched");
#else
	C19_OUTCOME(res, obj_matches(o, &v));
#endif
	/* the input is unchanged and usable */
	if (in != NULL) CHECK(tree_is(in, exp), "C19.H13 after the (failed) call the input element still serialises to the same bytes");
	if (raw != NULL) CHECK(bytes_equal(raw, exp), "C19.H13 after the (failed) call the input bytes are unchanged");
	if (res != KSI_OK) {
		/* the caller releases the partly filled object with its destructor, then repeats the call on a fresh object */
		T_FREE(o); o = NULL;
#if OP != 8
		res = T_NEW(ctx, &o); ASSUME(res == KSI_OK);
#endif
#if OP == 1 || OP == 4
		res = KSI_TlvTemplate_extract(ctx, o, in, TMPL);
#elif OP == 2
		g.idx = 0;
		res = KSI_TlvTemplate_extractGenerator(ctx, o, &g, TMPL, h13_gen);
#elif OP == 3
		res = KSI_TlvTemplate_parse(ctx, raw, EXP_LEN, TMPL, o);
#else
		res = T_FROMTLV(in, &o);
#endif
		CHECK(res == KSI_OK && o != NULL && obj_matches(o, &v), "C19.H13 the element -> object operation repeated without fault succeeds with the fault-free result");
		if (in != NULL) CHECK(tree_is(in, exp), "C19.H13 after the repeated call the input element still serialises to the same bytes");
#if FAULTED
		WITNESS_POINT("element -> object operation repeated after a fault");
#endif
	}
	T_FREE(o);
	KSI_TLV_free(in);
	if (raw != NULL) verif_buf_free(raw, EXP_LEN);

#else
	/* ---------------- object -> element / bytes ---------------- */
	T *o = mk_obj(ctx, &v);
	void *s0[NSNAP], *s1[NSNAP];
	obj_snap(o, s0);
	CHECK(obj_matches(o, &v), "C19.H13 [set-up] the object built with the setters holds the drawn values");
#if OP == 5
	KSI_TLV *out = NULL;
	res = KSI_TLV_new(ctx, TOP_TAG, 0, 0, &out); ASSUME(res == KSI_OK);
	C19_ARM();
	res = KSI_TlvTemplate_construct(ctx, out, o, TMPL);
	C19_DISARM();
	unsigned used = VERIF_alloc_count;
	C19_OUTCOME(res, tree_is(out, exp));
	if (res != KSI_OK) {
		KSI_TLV_free(out); out = NULL;         /* partly built element: released by the caller */
		res = KSI_TLV_new(ctx, TOP_TAG, 0, 0, &out); ASSUME(res == KSI_OK);
		res = KSI_TlvTemplate_construct(ctx, out, o, TMPL);
		CHECK(res == KSI_OK && tree_is(out, exp), "C19.H13 construct repeated without fault gives the oracle's encoding");
#if FAULTED
		WITNESS_POINT("object -> element operation repeated after a fault");
#endif
	}
	KSI_TLV_free(out);
#elif OP == 9
	KSI_TLV *out = NULL;
	C19_ARM();
	res = T_TOTLV(ctx, o, &out);
	C19_DISARM();
	unsigned used = VERIF_alloc_count;
	C19_OUTCOME(res, out != NULL && tree_is(out, exp));
	if (res != KSI_OK) {
		CHECK(out == NULL, "C19.H13 a failed toTlv leaves the output pointer untouched");
		res = T_TOTLV(ctx, o, &out);
		CHECK(res == KSI_OK && out != NULL && tree_is(out, exp), "C19.H13 toTlv repeated without fault gives the oracle's encoding");
#if FAULTED
		WITNESS_POINT("object -> element operation repeated after a fault");
#endif
	}
	KSI_TLV_free(out);
#elif OP == 6
	unsigned char *sraw = NULL; size_t slen = 77777;
	C19_ARM();
	res = KSI_TlvTemplate_serializeObject(ctx, o, TOP_TAG, 0, 0, TMPL, &sraw, &slen);
	C19_DISARM();
	unsigned used = VERIF_alloc_count;
	C19_OUTCOME(res, sraw != NULL && slen == EXP_LEN && bytes_equal(sraw, exp));
	if (res != KSI_OK) {
		CHECK(sraw == NULL && slen == 77777, "C19.H13 a failed serializeObject leaves both outputs untouched");
		res = KSI_TlvTemplate_serializeObject(ctx, o, TOP_TAG, 0, 0, TMPL, &sraw, &slen);
		CHECK(res == KSI_OK && sraw != NULL && slen == EXP_LEN && bytes_equal(sraw, exp), "C19.H13 serializeObject repeated without fault gives the oracle's encoding");
#if FAULTED
		WITNESS_POINT("object -> bytes operation repeated after a fault");
#endif
	}
	KSI_free(sraw);
#else /* OP == 7 */
	u8 wbuf[OUTSZ]; size_t wlen = 77777;
	for (unsigned i = 0; i < OUTSZ; i++) wbuf[i] = 0;
	C19_ARM();
	res = KSI_TlvTemplate_writeBytes(ctx, o, TOP_TAG, 0, 0, TMPL, wbuf, sizeof(wbuf), &wlen, 0);
	C19_DISARM();
	unsigned used = VERIF_alloc_count;
	C19_OUTCOME(res, wlen == EXP_LEN && bytes_equal(wbuf, exp));
	if (res != KSI_OK) {
		CHECK(wlen == 77777, "C19.H13 a failed writeBytes leaves the length output untouched");
		res = KSI_TlvTemplate_writeBytes(ctx, o, TOP_TAG, 0, 0, TMPL, wbuf, sizeof(wbuf), &wlen, 0);
		CHECK(res == KSI_OK && wlen == EXP_LEN && bytes_equal(wbuf, exp), "C19.H13 writeBytes repeated without fault gives the oracle's encoding");
#if FAULTED
		WITNESS_POINT("object -> bytes operation repeated after a fault");
#endif
	}
#endif
	obj_snap(o, s1);
	CHECK(snap_same(s0, s1) && obj_matches(o, &v), "C19.H13 the input object is unchanged (same member objects, same values) after the (failed) call");
	T_FREE(o);
#endif

	/* ---------------- bookkeeping of the enumeration ---------------- */
#if defined(REPLAY) && defined(CALIB)      /* native calibration aid: prints the allocation count that goes into NALLOC of the plan */
	fprintf(stderr, "H13 OP=%d FAULT_AT=%d used=%u fault_hit=%d res=%d\n", OP, FAULT_AT, used, VERIF_fault_hit, res);
#endif
#if FAULT_AT == 0
	CHECK(used == NALLOC, "C19.H13 the fault-free operation performs exactly the catalogued number of allocations");
	CHECK(res == KSI_OK, "C19.H13 the fault-free operation succeeds");
#elif FAULTED
	CHECK(VERIF_fault_hit, "C19.H13 the catalogued allocation index is reached");
	if (VERIF_fault_hit) WITNESS_POINT("fault was injected");
#else
	CHECK(!VERIF_fault_hit, "C19.H13 the enumeration of allocation indices is complete (no allocation beyond NALLOC)");
#endif
	(void)used;
	WITNESS_POINT("template scenario finished");
}
#endif
