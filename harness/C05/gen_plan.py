#!/usr/bin/env python3
"""Regenerates harness/C05/plan.json (run from anywhere: python3 harness/C05/gen_plan.py).
The skeleton instances of H-1 are enumerated here; everything else in plan.json is written by hand below."""
import itertools, json, os

HERE = os.path.dirname(os.path.abspath(__file__))
MAXSLOTS = 40


def nlists(w, d):
    return sum(w ** i for i in range(d + 1))


def skeletons(w, d):
    """All canonical skeletons of the complete w-ary tree of depth d: a list is a tuple of w elements, an element
    is 'b' or ('c', child list); lists at depth d hold only 'b'.  Child lists exist only below composites
    (= the skeletons that differ after dropping unreachable child lists)."""
    def lists(depth):
        elems = ['b']
        if depth < d:
            elems += [('c', sub) for sub in lists(depth + 1)]
        return list(itertools.product(elems, repeat=w))
    return lists(0)


def code(lst):
    return "".join('b' if e == 'b' else 'c' + code(e[1]) for e in lst)


def kinds(lst, w, d):
    """breadth-first slot kinds in the layout of common/c05_tree.h (child list of slot s = list s+1)"""
    k = [0] * (nlists(w, d) * w)
    def fill(l, lst):
        for p, e in enumerate(lst):
            s = l * w + p
            if e != 'b':
                k[s] = 1
                fill(s + 1, e[1])
    fill(0, lst)
    return k


def ncomp(lst):
    return sum(0 if e == 'b' else 1 + ncomp(e[1]) for e in lst)


def nonlast(lst):
    """some composite is not the last element of its list"""
    return any(e != 'b' and (p + 1 < len(lst) or nonlast(e[1])) for p, e in enumerate(lst))


def inst(w, d, lst, extra=()):
    k = kinds(lst, w, d)
    return {"label": "w%dd%d_%s" % (w, d, code(lst)),
            "defines": ["C05_W=%d" % w, "C05_D=%d" % d, "C05_KIND={%s}" % ",".join(map(str, k)), "C05_NCOMP=%d" % ncomp(lst),
                        "C05_NONLAST=%d" % (1 if nonlast(lst) else 0)] + list(extra),
            "unwind": (8 if extra else d + 3), "unwindset": ["Rule_verify.0:%d" % (w + 2)]}


def main():
    fp = "Rule_verify.function_pointer_call.1/" + ",".join("c05_rule_%d" % i for i in range(MAXSLOTS))
    q22 = [inst(2, 2, s) for s in skeletons(2, 2)]
    # thorough: width 3 depth 2 (729 skeletons; a deterministic subset, see "bound"), depth 3 width 2 with <= 4 composites
    s32 = skeletons(3, 2)
    s32.sort(key=lambda s: (-ncomp(s), code(s)))
    t32 = [inst(3, 2, s) for s in s32]
    s23 = [s for s in skeletons(2, 3) if ncomp(s) <= 4]
    t23 = [inst(2, 3, s) for s in s23]
    print("w2d2: %d  w3d2: %d  w2d3(<=4 comp): %d of %d" % (len(q22), len(t32), len(t23), len(skeletons(2, 3))))
    plan = json.load(open(os.path.join(HERE, "plan.in.json")))
    for h in plan["harnesses"]:
        if h["name"] == "h1_rule":
            h["restrict_fp"] = [fp]
            q31 = [inst(3, 1, s) for s in skeletons(3, 1)]
            h["instances"] = q22 + q31
            h["thorough"]["instances"] = q22 + q31 + t32[:int(h["thorough"].pop("_cap_w3d2"))] + t23
        if h["name"] == "h1b_list":
            h["restrict_fp"] = [fp]
            def li(w, s):
                return inst(w, 1, s, ["C05_WITH_LIST=1", "C05_WARM_LIST=%d" % (0 if ncomp(s) == 0 and w == 2 else 1)])
            h["instances"] = [li(2, s) for s in skeletons(2, 1)]
            h["thorough"]["instances"] = h["instances"] + [li(3, s) for s in skeletons(3, 1) if ncomp(s) <= 1]
    json.dump(plan, open(os.path.join(HERE, "plan.json"), "w"), indent=1)


if __name__ == "__main__":
    main()
