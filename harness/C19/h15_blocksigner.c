/* C19 H-15: the block signer under allocation failure (c19.h conventions: the FAULT_AT-th KSI_malloc / KSI_calloc / KSI_new of
 * the faulted operation fails, FAULT_AT concrete per instance, 0 = fault-free, the last index of each operation proves that
 * there is no further allocation).  Real: blocksigner.c and tree_builder.c (both included: the harness reads the signer's
 * state), signature_builder.c, hashchain.c, hash.c (hash model), tlv.c, list.c, types_base.c, tlv_element.c.
 * Models (harness/common/c16_sigmodel.h, all allocating through the library allocator and releasing what they built when
 * they fail): KSI_Signature_clone / free / getSigningTime, KSI_TlvTemplate_construct / extract, the internal verification
 * inside KSI_SignatureBuilder_close, qsort.  KSI_Signature_signAggregated = the signing service: builds a base signature
 * (one chain, one link, correction 9) through the library allocator - so it can run out of memory - or, in the SIGN_ERR
 * instance, answers KSI_NETWORK_ERROR.  Metadata objects are harness objects (common/c16_md.h), their own allocation never fails.
 * Values: leaf levels 0, SHA2-256; digests / payload / iv symbolic.  Blinding masks on, leaf 0 carries metadata.
 *   OP 0  KSI_BlockSigner_new
 *   OP 1  KSI_BlockSigner_addLeaf (metadata + mask) on a signer that already holds one leaf
 *   OP 2  KSI_BlockSigner_closeAndSign (2 leaves)                      [+ instance SIGN_ERR: the service answers an error]
 *   OP 3  KSI_BlockSignerHandle_getSignature (leaf 0 of the closed block) through the signature builder
 *   OP 4  KSI_BlockSigner_reset of the closed block
 * Decided by CBMC (and ASan / LeakSanitizer in the replay): the call reports an error or delivers the result; after an error
 * the objects are consistent and usable (OP 1: no handle, the block still closes with the leaves it has; OP 2: no signature
 * kept; OP 3: no signature returned, the block's base signature untouched and consistent with its element; OP 4: the signer
 * is either untouched or completely reset - in particular it never runs WITHOUT its two leaf processors, which would
 * silently drop masks and metadata of the next block); the operation repeated without fault succeeds; afterwards everything is
 * released with KSI_BlockSignerHandle_free / KSI_BlockSigner_free / KSI_Signature_free: no double free, no use after free,
 * no leak.
 * GENUINE DEFECTS found on the unchanged /repo (F-H15-1..3, text and validated patch in FINDINGS_h15.md; repaired in /repo by 14a44c0, 70ab135, fcffdcd):
 * op1_k6..k12 leak in processAndInsertNode, op2_sign_err / op2_k1..k24 closeAndSign not repeatable, op4_k5 half-done reset.
 * MUTATIONS caught (scratch worktree with the patch applied): m1 first version of the tree_builder.c patch without `tmp = NULL`
 * after the join (sibling released twice) -> op1_k11, op1_k12 heap-use-after-free (CBMC + ASan replay); m2 reverting any hunk of
 * the patch = unchanged /repo -> the instances listed above; m3 getSignature without KSI_SignatureBuilder_free(builder) -> op3_k0
 * memory leak. */
#include "c19.h"
#include "tree_builder.h"
#include "blocksigner.h"
#include "signature.h"
#include "signature_builder.h"
#include "policy.h"
#include "hashchain.h"
#include "tlv.h"
#include "tlv_template.h"
#include "net.h"
#include "impl/hashchain_impl.h"
#include "impl/signature_impl.h"
#include "impl/signature_builder_impl.h"
#include "impl/policy_impl.h"
#include "hash_model.h"
#include "verif_post.h"
#include "c16_md.h"
#include "c16_sigmodel.h"
#include "tree_builder.c"
#include "blocksigner.c"

#ifndef OP
#define OP 0
#endif
#ifndef SIGN_ERR
#define SIGN_ERR 0
#endif
#ifndef NALLOC
#define NALLOC 0          /* allocations of the faulted operation (per OP, set by the plan); FAULT_AT > NALLOC proves completeness */
#endif
#define ALG KSI_HASHALG_SHA2_256
#define IVLEN 8

static unsigned op_allocs;    /* allocations performed by the faulted operation */
#undef C19_DISARM
#define C19_DISARM() do { VERIF_fault_at = 0; op_allocs = VERIF_alloc_count; } while (0)
static int sign_fail;          /* the service answers an error (no allocation involved) */
static KSI_Signature *base_sig;
int KSI_Signature_signAggregatedWithPolicy(KSI_CTX *ctx, KSI_DataHash *rootHash, KSI_uint64_t rootLevel, const KSI_Policy *policy, KSI_VerificationContext *context, KSI_Signature **signature) {
	struct sm_linkspec ls[1]; KSI_AggregationHashChain *ch[1] = {NULL}; u64 idx[1] = {0x1234}; int res;
	(void)policy; (void)context; (void)rootLevel;
	if (sign_fail) return KSI_NETWORK_ERROR;
	ls[0].isLeft = 1; ls[0].has_corr = 1; ls[0].corr = 9;
	for (unsigned q = 0; q < 32; q++) ls[0].sib[q] = ND(u8, base_sib);
	res = sm_mk_chain(ctx, rootHash, ALG, 0x5eed0000u, 1, idx, 1, ls, &ch[0]); if (res != KSI_OK) return res;
	res = sm_mk_sig(ctx, 1, ch, &base_sig); if (res != KSI_OK) { KSI_AggregationHashChain_free(ch[0]); return res; }
	*signature = base_sig;
	return KSI_OK;
}

static KSI_DataHash *sym_hash(KSI_CTX *ctx) {
	KSI_DataHash *h = NULL; u8 d[32];
	for (unsigned k = 0; k < 32; k++) d[k] = ND(u8, digest);
	int res = KSI_DataHash_fromDigest(ctx, ALG, d, 32, &h); ASSUME(res == KSI_OK);
	return h;
}
static size_t n_processors(const KSI_BlockSigner *s) { return s->builder != NULL ? KSI_TreeBuilderLeafProcessorList_length(s->builder->cbList) : 0; }

void harness(void) {
	VERIF_ctx_init(); VERIF_hm_init(0);
	KSI_CTX *ctx = VERIF_ctx; int res;
	u8 ivb[IVLEN], p[C16_MDLEN];
	KSI_DataHash *prevLeaf = sym_hash(ctx), *x0 = sym_hash(ctx), *x1 = sym_hash(ctx);
	KSI_OctetString *iv = NULL;
	for (unsigned k = 0; k < IVLEN; k++) ivb[k] = ND(u8, iv);
	res = KSI_OctetString_new(ctx, ivb, IVLEN, &iv); ASSUME(res == KSI_OK);
	for (unsigned k = 0; k < C16_MDLEN; k++) p[k] = ND(u8, md);
	KSI_MetaData *md = c16_md_make(ctx, 0, p);
	KSI_BlockSigner *s = NULL; KSI_BlockSignerHandle *h0 = NULL, *h1 = NULL, *h2 = NULL; KSI_Signature *sig = NULL;

#if OP == 0
	C19_ARM();
	res = KSI_BlockSigner_new(ctx, ALG, prevLeaf, iv, &s);
	C19_DISARM();
	C19_OUTCOME(res, s != NULL && n_processors(s) == 2);
	if (res != KSI_OK) {
		CHECK(s == NULL, "C19.H15 a failed KSI_BlockSigner_new returns no signer");
		res = KSI_BlockSigner_new(ctx, ALG, prevLeaf, iv, &s);
		CHECK(res == KSI_OK && s != NULL && n_processors(s) == 2, "C19.H15 KSI_BlockSigner_new repeated without fault succeeds");
	}
	res = KSI_BlockSigner_addLeaf(s, x0, 0, md, &h0);
	CHECK(res == KSI_OK && h0 != NULL, "C19.H15 the new signer accepts a leaf");
#else
	/* ---- set-up without faults ---- */
	res = KSI_BlockSigner_new(ctx, ALG, prevLeaf, iv, &s); ASSUME(res == KSI_OK && s != NULL);
	res = KSI_BlockSigner_addLeaf(s, x1, 0, NULL, &h1); ASSUME(res == KSI_OK && h1 != NULL);
#if OP == 1
	C19_ARM();
	res = KSI_BlockSigner_addLeaf(s, x0, 0, md, &h0);
	C19_DISARM();
	C19_OUTCOME(res, h0 != NULL);
	CHECK(s->metaData == NULL, "C19.H15 addLeaf never keeps the caller's metadata pointer");
	if (res != KSI_OK) {
		CHECK(h0 == NULL, "C19.H15 a failed addLeaf returns no handle");
		CHECK(n_processors(s) == 2, "C19.H15 a failed addLeaf leaves the leaf processors in place");
	}
	/* continued use: the block closes with the leaves it has and the surviving handle yields a chain */
	res = KSI_BlockSigner_closeAndSign(s);
	CHECK(res == KSI_OK && s->signature != NULL, "C19.H15 after a (failed) addLeaf the block still closes and is signed");
	{
		KSI_AggregationHashChain *c = NULL;
		res = KSI_TreeLeafHandle_getAggregationChain(h1->leafHandle, &c);
		CHECK(res == KSI_OK && c != NULL, "C19.H15 after a (failed) addLeaf the earlier leaf still has its aggregation chain");
		KSI_AggregationHashChain_free(c);
	}
#else
	res = KSI_BlockSigner_addLeaf(s, x0, 0, md, &h0); ASSUME(res == KSI_OK && h0 != NULL);
#if OP == 2
	sign_fail = SIGN_ERR;
	C19_ARM();
	res = KSI_BlockSigner_closeAndSign(s);
	C19_DISARM();
#if SIGN_ERR
	CHECK(res == KSI_NETWORK_ERROR && s->signature == NULL, "C19.H15 an error of the signing service is reported by closeAndSign and no signature is kept");
#else
	C19_OUTCOME(res, s->signature != NULL && s->signature == base_sig);
#endif
	if (res != KSI_OK) {
		CHECK(s->signature == NULL, "C19.H15 a failed closeAndSign keeps no signature");
		sign_fail = 0;
		res = KSI_BlockSigner_closeAndSign(s);
		CHECK(res == KSI_OK && s->signature != NULL, "C19.H15 closeAndSign repeated without fault succeeds");
#if SIGN_ERR || (FAULT_AT >= 1 && FAULT_AT <= NALLOC)
		WITNESS_POINT("closeAndSign repeated after a failure");
#endif
	}
	res = KSI_BlockSignerHandle_getSignature(h0, &sig);
	CHECK(res == KSI_OK && sig != NULL, "C19.H15 after closeAndSign a leaf signature can be assembled");
#else
	res = KSI_BlockSigner_closeAndSign(s); ASSUME(res == KSI_OK && s->signature != NULL);
#if OP == 3
	C19_ARM();
	res = KSI_BlockSignerHandle_getSignature(h0, &sig);
	C19_DISARM();
	C19_OUTCOME(res, sig != NULL && KSI_AggregationHashChainList_length(sig->aggregationChainList) == 2 && sm_sig_consistent(sig));
	CHECK(s->signature == base_sig && KSI_AggregationHashChainList_length(base_sig->aggregationChainList) == 1 && sm_sig_consistent(base_sig),
		"C19.H15 getSignature (failed or not) leaves the block's base signature untouched and consistent with its element");
	if (res != KSI_OK) {
		CHECK(sig == NULL, "C19.H15 a failed getSignature returns no signature");
		res = KSI_BlockSignerHandle_getSignature(h0, &sig);
		CHECK(res == KSI_OK && sig != NULL && KSI_AggregationHashChainList_length(sig->aggregationChainList) == 2 && sm_sig_consistent(sig),
			"C19.H15 getSignature repeated without fault gives the fault-free result");
#if FAULT_AT >= 1 && FAULT_AT <= NALLOC
		WITNESS_POINT("getSignature repeated after a fault");
#endif
	}
	{
		KSI_Signature *sig2 = NULL;
		res = KSI_BlockSignerHandle_getSignature(h1, &sig2);
		CHECK(res == KSI_OK && sig2 != NULL, "C19.H15 the other leaf of the block gets its signature as well");
		KSI_Signature_free(sig2);
	}
#else /* OP 4 */
	KSI_TreeBuilder *old_builder = s->builder;
	C19_ARM();
	res = KSI_BlockSigner_reset(s);
	C19_DISARM();
	C19_OUTCOME(res, s->signature == NULL && s->builder != NULL && s->builder != old_builder && n_processors(s) == 2 && s->prevLeaf == s->origPrevLeaf);
	if (res != KSI_OK) {
		int untouched = s->builder == old_builder && s->signature == base_sig;
		int fully_reset = s->builder != NULL && s->builder != old_builder && s->signature == NULL && n_processors(s) == 2;
		CHECK(s->builder != NULL && n_processors(s) == 2, "C19.H15 a failed reset never leaves the signer without its two leaf processors (masks / metadata of the next block would be dropped silently)");
		CHECK(untouched || fully_reset, "C19.H15 a failed reset leaves the signer untouched or completely reset");
		res = KSI_BlockSigner_reset(s);
		CHECK(res == KSI_OK && s->signature == NULL && n_processors(s) == 2, "C19.H15 reset repeated without fault succeeds");
#if FAULT_AT >= 1 && FAULT_AT <= NALLOC
		WITNESS_POINT("reset repeated after a fault");
#endif
	}
	/* continued use: a new block on the reset signer */
	res = KSI_BlockSigner_addLeaf(s, x0, 0, md, &h2);
	CHECK(res == KSI_OK && h2 != NULL, "C19.H15 the reset signer accepts a leaf with metadata");
	if (h2 != NULL) {
		KSI_AggregationHashChain *c = NULL;
		res = KSI_BlockSigner_closeAndSign(s);
		CHECK(res == KSI_OK, "C19.H15 the reset signer closes its new block");
		res = KSI_TreeLeafHandle_getAggregationChain(h2->leafHandle, &c);
		CHECK(res == KSI_OK && c != NULL && KSI_HashChainLinkList_length(c->chain) == 2, "C19.H15 a leaf of the new block is still joined with its metadata and its mask (2 links)");
		KSI_AggregationHashChain_free(c);
	}
#endif /* OP 3 / 4 */
#endif /* OP 2 */
#endif /* OP 1 */
#endif /* OP 0 */

	/* ---- release what the caller owns ---- */
	KSI_Signature_free(sig);
	KSI_BlockSignerHandle_free(h0); KSI_BlockSignerHandle_free(h1); KSI_BlockSignerHandle_free(h2);
	KSI_BlockSigner_free(s);
	KSI_DataHash_free(prevLeaf); KSI_DataHash_free(x0); KSI_DataHash_free(x1);
	KSI_OctetString_free(iv);
	KSI_MetaData_free(md);
	WITNESS_POINT("block signer scenario finished");
#ifdef COUNT_PROBE
#define P1(n) __CPROVER_assert(op_allocs != (n), "PROBE " #n);
#define P4(n) P1(n) P1(n + 1) P1(n + 2) P1(n + 3)
#define P16(n) P4(n) P4(n + 4) P4(n + 8) P4(n + 12)
	P16(0) P16(16) P16(32) P16(48) P16(64) P16(80) P16(96) P16(112) P16(128) P16(144)
#endif
#if FAULT_AT == 0
	CHECK(op_allocs == NALLOC, "C19.H15 NALLOC is the number of allocations of the fault-free operation");
#endif
#if FAULT_AT >= 1 && FAULT_AT <= NALLOC
	CHECK(VERIF_fault_hit, "C19.H15 the fault index lies within the operation's allocations");
	WITNESS_POINT("fault was injected");
#elif FAULT_AT > NALLOC
	CHECK(!VERIF_fault_hit, "C19.H15 the enumeration of allocation indices is complete (no allocation beyond NALLOC)");
#endif
}

