/* C02 H-5: the document-hash and input-level rules gate EVERY verifying predefined policy.
 * REAL tables + REAL Rule_verify / Policy_verifySignature of policy.c; leaf rules are stubs (common/rule_stubs.h).
 * The document rules and the level rule answer according to four facts (document hash given, algorithm equal,
 * imprint equal, level state); EVERY OTHER leaf rule of every policy returns an arbitrary outcome (any status,
 * OK/NA/FAIL, any code).  One instance per policy (POLICY = 0..5).
 * Oracle (property text): with a document hash, verification can only succeed if algorithm and digest are those
 * of the signature and the level fits; other algorithm => FAIL GEN-04, other digest => FAIL GEN-01, larger level
 * => FAIL GEN-03, level > 255 => refused as invalid input (KSI_INVALID_VERIFICATION_INPUT); never OK. */
#include "verif.h"
#include "internal.h"
#include "verification_rule.h"
#include "impl/policy_impl.h"
#include "ctx.h"
#include "verif_post.h"
#include "rule_stubs.h"
#include "policy.c"

#ifndef POLICY
#define POLICY 0
#endif
enum { LVL_FITS = 0, LVL_TOO_LARGE = 1, LVL_INVALID = 2 };

void harness(void) {
	VERIF_ctx_init();
	KSI_CTX *ctx = VERIF_ctx;
	const KSI_Policy *policies[6] = {KSI_VERIFICATION_POLICY_INTERNAL, KSI_VERIFICATION_POLICY_CALENDAR_BASED, KSI_VERIFICATION_POLICY_KEY_BASED,
		KSI_VERIFICATION_POLICY_PUBLICATIONS_FILE_BASED, KSI_VERIFICATION_POLICY_USER_PUBLICATION_BASED, KSI_VERIFICATION_POLICY_GENERAL};
	const KSI_Policy *policy = policies[POLICY];

	_Bool docGiven = ND_BOOL(docGiven), algEqual = ND_BOOL(algEqual), imprintEqual = ND_BOOL(imprintEqual);
	u8 lvl = ND(u8, lvl); ASSUME(lvl <= LVL_INVALID);
	ASSUME(algEqual || !imprintEqual);     /* an imprint contains its algorithm byte: equal imprints have equal algorithms */

	vr_havoc_all();
	VR_SET(DocumentHashDoesNotExist, KSI_OK, docGiven ? KSI_VER_RES_NA : KSI_VER_RES_OK, KSI_VER_ERR_NONE);
	VR_SET(DocumentHashExistence, KSI_OK, docGiven ? KSI_VER_RES_OK : KSI_VER_RES_NA, KSI_VER_ERR_NONE);
	if (algEqual) VR_SET(InputHashAlgorithmVerification, KSI_OK, KSI_VER_RES_OK, KSI_VER_ERR_NONE);
	else VR_SET(InputHashAlgorithmVerification, KSI_OK, KSI_VER_RES_FAIL, KSI_VER_ERR_GEN_4);
	if (imprintEqual) VR_SET(DocumentHashVerification, KSI_OK, KSI_VER_RES_OK, KSI_VER_ERR_NONE);
	else VR_SET(DocumentHashVerification, KSI_OK, KSI_VER_RES_FAIL, KSI_VER_ERR_GEN_1);
	if (lvl == LVL_FITS) VR_SET(AggregationChainInputLevelVerification, KSI_OK, KSI_VER_RES_OK, KSI_VER_ERR_NONE);
	else if (lvl == LVL_TOO_LARGE) VR_SET(AggregationChainInputLevelVerification, KSI_OK, KSI_VER_RES_FAIL, KSI_VER_ERR_GEN_3);
	else VR_SET(AggregationChainInputLevelVerification, KSI_INVALID_VERIFICATION_INPUT, KSI_VER_RES_NA, KSI_VER_ERR_GEN_2);

	KSI_VerificationContext vc;
	int r0 = KSI_VerificationContext_init(&vc, ctx);
	ASSUME(r0 == KSI_OK);
	KSI_PolicyVerificationResult pr;
	memset(&pr, 0, sizeof(pr));
	pr.ref = 1;
	KSI_RuleVerificationResult_init(&pr.finalResult);
	pr.ruleResults = NULL;      /* bookkeeping list off: Rule_verify ignores its outcome (policy.c:126) */
	pr.policyResults = NULL;

	int res = Policy_verifySignature(policy, &vc, &pr);
	int rc = pr.finalResult.resultCode, ec = pr.finalResult.errorCode;
	int final_ok = (res == KSI_OK && rc == KSI_VER_RES_OK);
	int doc_matches = !docGiven || (algEqual && imprintEqual);

	CHECK(!final_ok || (doc_matches && lvl == LVL_FITS), "C02.H5 a policy reports OK only for the signed document hash and a fitting level");
	if (docGiven && !algEqual) CHECK(res == KSI_OK && rc == KSI_VER_RES_FAIL && ec == KSI_VER_ERR_GEN_4, "C02.H5 another hash algorithm yields FAIL GEN-04 under every policy");
	if (docGiven && algEqual && !imprintEqual) CHECK(res == KSI_OK && rc == KSI_VER_RES_FAIL && ec == KSI_VER_ERR_GEN_1, "C02.H5 another digest yields FAIL GEN-01 under every policy");
	if (doc_matches && lvl == LVL_TOO_LARGE) CHECK(res == KSI_OK && rc == KSI_VER_RES_FAIL && ec == KSI_VER_ERR_GEN_3, "C02.H5 a larger level yields FAIL GEN-03 under every policy");
	if (doc_matches && lvl == LVL_INVALID) CHECK(res == KSI_INVALID_VERIFICATION_INPUT && rc != KSI_VER_RES_OK, "C02.H5 a level above 255 is refused as invalid input under every policy");
	CHECK(VR_SEQ(DocumentHashDoesNotExist) == 1, "C02.H5 the document hash rules are the first rules every policy consults");
	if (!doc_matches) CHECK(VR_CALLS(AggregationChainInputHashAlgorithmVerification) == 0 && VR_CALLS(AggregationHashChainConsistency) == 0
		&& VR_CALLS(CalendarHashChainExistence) == 0, "C02.H5 no further rule is consulted after a document hash mismatch");

	if (final_ok && docGiven) WITNESS_POINT("policy succeeds with the matching document hash");
	if (final_ok && !docGiven) WITNESS_POINT("policy succeeds without document hash");
	if (docGiven && algEqual && !imprintEqual && rc == KSI_VER_RES_FAIL) WITNESS_POINT("wrong document");
	if (doc_matches && lvl == LVL_INVALID && res != KSI_OK) WITNESS_POINT("invalid level refused");
#if POLICY == 5
	if (final_ok && VR_CALLS(CertificateExistence) > 0) WITNESS_POINT("general policy succeeds through the key based branch");
#endif
}
