/* C08 H-2: KSI_CalendarHashChain_verifyCompatibilityTo(a, b) (hashchain.c, real) against the reference
 *     compatible  <=>  aggregation time equal (a chain without aggregation time counts with its publication time)
 *                 and  input hashes equal (whole imprint)
 *                 and  the sequence of RIGHT-link imprints of a == the sequence of RIGHT-link imprints of b
 *                      (same number, pairwise equal whole imprints; left links are ignored);
 *     KSI_OK iff compatible, otherwise KSI_INCOMPATIBLE_HASH_CHAIN (KSI_INVALID_STATE when a chain has no time at all).
 * A right link (isLeft == 0) carries the sibling that lies in the past of the calendar - it must never change when a
 * signature is extended; left links depend on the publication time and may differ.
 * Shape (concrete per instance): NA, NB links; which time fields exist.  Symbolic: every link direction, every imprint
 * (algorithm id among the two 20-byte algorithms, all digest bytes), input hashes, all times. */
#include "verif.h"
#include "internal.h"
#include "impl/hash_impl.h"
#include "impl/hashchain_impl.h"
#include "hashchain.h"
#include "ctx.h"
#include "verif_post.h"
#include "types_base.c"

#ifndef NA
#define NA 2
#endif
#ifndef NB
#define NB 2
#endif
#ifndef A_HAS_AT
#define A_HAS_AT 1
#endif
#ifndef B_HAS_AT
#define B_HAS_AT 1
#endif
#ifndef A_HAS_PT
#define A_HAS_PT 1
#endif
#ifndef B_HAS_PT
#define B_HAS_PT 1
#endif
#define MX(n) ((n) > 0 ? (n) : 1)
#define IL 21

static KSI_Integer *mk_int(u64 v) { KSI_Integer *i = malloc(sizeof(*i)); ASSUME(i != NULL); i->ref = 1; i->value = v; return i; }
static KSI_DataHash *mk_hash(KSI_CTX *ctx, const u8 *imp) {
	KSI_DataHash *d = malloc(sizeof(*d)); ASSUME(d != NULL);
	d->ctx = ctx; d->ref = 1; d->imprint_length = IL;
	for (unsigned i = 0; i < IL; i++) d->imprint[i] = imp[i];
	return d;
}
static void nd_imprint(u8 *imp) {
	u8 a = ND(u8, imprint_alg); ASSUME(a == 0x00 || a == 0x02);   /* the two algorithms with a 20-byte digest */
	imp[0] = a;
	for (unsigned i = 1; i < IL; i++) imp[i] = ND(u8, imprint_byte);
}
static int imp_eq(const u8 *x, const u8 *y) { int e = 1; for (unsigned i = 0; i < IL; i++) if (x[i] != y[i]) e = 0; return e; }

struct chain_in { int left[4]; u8 sib[4][IL]; u8 in[IL]; u64 at, pt; };

static KSI_CalendarHashChain *build(KSI_CTX *ctx, struct chain_in *c, unsigned n, int has_at, int has_pt) {
	KSI_CalendarHashChain *cal = NULL; int res;
	res = KSI_CalendarHashChain_new(ctx, &cal); ASSUME(res == KSI_OK);
	res = KSI_HashChainLinkList_new(&cal->hashChain); ASSUME(res == KSI_OK);
	for (unsigned i = 0; i < 4; i++) {
		if (i < n) {
			KSI_HashChainLink *link = NULL;
			res = KSI_HashChainLink_new(ctx, &link); ASSUME(res == KSI_OK);
			c->left[i] = ND_BOOL(is_left); link->isLeft = c->left[i];
			nd_imprint(c->sib[i]);
			link->imprint = mk_hash(ctx, c->sib[i]);
			res = KSI_HashChainLinkList_append(cal->hashChain, link); ASSUME(res == KSI_OK);
		}
	}
	nd_imprint(c->in);
	cal->inputHash = mk_hash(ctx, c->in);
	c->at = ND(u64, aggr_time); c->pt = ND(u64, pub_time);
	if (has_at) cal->aggregationTime = mk_int(c->at);
	if (has_pt) cal->publicationTime = mk_int(c->pt);
	return cal;
}

void harness(void) {
	VERIF_ctx_init(); KSI_CTX *ctx = VERIF_ctx;
	static struct chain_in A, B;
	KSI_CalendarHashChain *a = build(ctx, &A, NA, A_HAS_AT, A_HAS_PT);
	KSI_CalendarHashChain *b = build(ctx, &B, NB, B_HAS_AT, B_HAS_PT);

	int res = KSI_CalendarHashChain_verifyCompatibilityTo(a, b);

	/* ---- reference ---- */
	int a_time_ok = A_HAS_AT || A_HAS_PT, b_time_ok = B_HAS_AT || B_HAS_PT;
	u64 ta = A_HAS_AT ? A.at : A.pt, tb = B_HAS_AT ? B.at : B.pt;
	/* right-link sequences */
	unsigned na = 0, nb = 0; const u8 *ra[MX(NA)], *rb[MX(NB)];
	for (unsigned i = 0; i < NA; i++) ra[i] = A.sib[0];
	for (unsigned i = 0; i < NB; i++) rb[i] = B.sib[0];
	/* the k-th right link of a chain: position found by counting (written without symbolic array stores) */
	int seq_eq = 1;
	for (unsigned i = 0; i < NA; i++) if (!A.left[i]) na++;
	for (unsigned i = 0; i < NB; i++) if (!B.left[i]) nb++;
	if (na != nb) seq_eq = 0;
	for (unsigned i = 0; i < NA; i++) {
		for (unsigned j = 0; j < NB; j++) {
			if (!A.left[i] && !B.left[j]) {
				/* rank of i among a's right links, rank of j among b's */
				unsigned ri = 0, rj = 0;
				for (unsigned k = 0; k < NA; k++) if (k < i && !A.left[k]) ri++;
				for (unsigned k = 0; k < NB; k++) if (k < j && !B.left[k]) rj++;
				if (ri == rj && !imp_eq(A.sib[i], B.sib[j])) seq_eq = 0;
			}
		}
	}
	(void)ra; (void)rb;
	int compatible = a_time_ok && b_time_ok && ta == tb && imp_eq(A.in, B.in) && seq_eq;

#if !((A_HAS_AT || A_HAS_PT) && (B_HAS_AT || B_HAS_PT))
	{
		CHECK(res != KSI_OK, "C08.H2 a chain without any time is never compatible");
		WITNESS_POINT("chain without time refused");
	}
#else
	{
		CHECK((res == KSI_OK) == (compatible != 0), "C08.H2 compatible iff same aggregation time, same input hash and identical sequence of right-link imprints");
		if (!compatible) CHECK(res == KSI_INCOMPATIBLE_HASH_CHAIN, "C08.H2 incompatibility is reported as KSI_INCOMPATIBLE_HASH_CHAIN");
		if (res == KSI_OK) {
#if NA >= 1 && NB > NA
			if (na >= 1) WITNESS_POINT("longer new chain with the same right links accepted");
#endif
			if (na == 0) WITNESS_POINT("chains without right links accepted");
		} else {
#if NA >= 1 && NB >= 1
			if (ta == tb && imp_eq(A.in, B.in) && na == nb && na > 0) WITNESS_POINT("altered right link refused");
#endif
#if NA >= 1
			if (ta == tb && imp_eq(A.in, B.in) && na > nb) WITNESS_POINT("missing right link in the new chain refused");
#endif
			if (ta != tb) WITNESS_POINT("other aggregation time refused");
		}
	}
#endif
}
