/* C13 H-4: error fan-out (asyncClient_setResponseError, as used for error PDUs, transport errors, failed response
 * processing and closed connections) on an ARBITRARY invariant-satisfying client state.
 *
 * Contract: exactly the cached handles (request slots and serverConf) that are WAITING_FOR_RESPONSE become ERROR
 * carrying the given cause (code, external code, a new reference to the message); every other handle is untouched;
 * counters unchanged (a failed handle stays pending until returned); Inv(c) afterwards. */
#define HN "C13.H4"
#include "verif.h"
#include "internal.h"
#include "ctx.h"
#include "verif_post.h"
#include "c13_model.h"
#include "net_async.c"
#include "c13_state.h"

void harness(void) {
	VERIF_ctx_init();
	KSI_CTX *ctx = VERIF_ctx;
	struct c13_snap pre;
	int res;
	KSI_AsyncClient *c = c13_mk_client(ctx, &pre);
	const int err = ND(int, cause); ASSUME(err != KSI_OK);
	const long ext = ND(long, cause_ext);
	KSI_Utf8String *msg = NULL;
	if (ND_BOOL(cause_has_message)) { res = KSI_Utf8String_new(ctx, c13_user, 2, &msg); ASSUME(res == KSI_OK); }

	asyncClient_setResponseError(c, KSI_ASYNC_STATE_WAITING_FOR_RESPONSE, err, ext, msg);

	unsigned hit = 0; int ok = 1, frame = 1;
	for (size_t i = 0; i < CACHE_S; i++) {
		const struct c13_hsnap *p = (i == 0) ? &pre.conf : &pre.slot[i];
		const KSI_AsyncHandle *h = (i == 0) ? c->serverConf : c->reqCache[i];
		if (h != p->h) frame = 0;
		else if (h != NULL) {
			if (p->state == KSI_ASYNC_STATE_WAITING_FOR_RESPONSE) {
				hit++;
				if (h->state != KSI_ASYNC_STATE_ERROR || h->err != err || h->errExt != ext || h->errMsg != msg) ok = 0;
				if (h->respCtx != p->respCtx || h->ref != p->ref || h->id != p->id) frame = 0;
			} else {
				if (h->state != p->state || h->err != p->err || h->errExt != p->errExt || h->errMsg != p->errMsg || h->respCtx != p->respCtx || h->ref != p->ref || h->id != p->id) frame = 0;
			}
		}
	}
	CHECK(ok, HN " every handle waiting for a response fails with the given cause");
	CHECK(frame, HN " handles not waiting for a response are untouched, nothing leaves the cache");
	CHECK(msg == NULL || msg->ref == 1 + hit, HN " one message reference per failed handle");
	CHECK(c->pending == pre.pending && c->received == pre.received, HN " failing handles changes no counter");
	#if CACHE_S > 2
	if (hit >= 2) WITNESS_POINT("two handles failed at once");
#endif
	if (hit == 0 && pre.nocc > 0) WITNESS_POINT("no handle waiting: nothing changes");
	if (pre.conf.h != NULL && pre.conf.state == KSI_ASYNC_STATE_WAITING_FOR_RESPONSE) WITNESS_POINT("sent configuration request failed");
	c13_check_inv(c);
}
