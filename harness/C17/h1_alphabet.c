/* C17 H-1: alphabet of KSI_base32Decode.  A string of LEN characters; the character at position POS is a fully
 * symbolic byte (all 256 values), the others are the concrete alphabet characters of PATTERN (mixed letters and
 * digits; they have to be concrete: every symbolic character is a possible '=' / '-' / foreign byte for CBMC's
 * symbolic execution, the decoded bit count becomes symbolic and 13 such characters already time out).
 * Reference (RFC 4648 / publication string format):
 *   byte is a letter or '2'..'7'  -> accepted, contributes exactly its 5-bit value
 *   '-'                            -> accepted, skipped (group separator)
 *   '=' or NUL                     -> accepted, the data ends here (padding / end of string)
 *   anything else                  -> never contributes data bits (property text): either KSI_INVALID_FORMAT and no
 *                                     buffer (what base32.c does for every such byte it recognises as foreign), or
 *                                     accepted and skipped like a separator
 * (NUL is the instance NUL_AT_POS: the string length must be concrete for CBMC, see common/c17_strlen.h.)
 * accepted  ==> decoded bytes = the concatenated 5-bit values, most significant bit first, truncated to whole
 *               bytes. */
#include "verif.h"
#include "internal.h"
#include "base32.h"
#include "ctx.h"
#include "verif_post.h"
#include "c17_ref.h"
#include "c17_strlen.h"
#include "base32.c"

#ifndef LEN
#define LEN 8
#endif
#ifndef POS
#define POS 3
#endif
#ifndef PATTERN
#define PATTERN "M7xW2ybAQ5dzLK36"
#endif
#define OUTMAX ((LEN * 5) / 8)

void harness(void) {
	VERIF_ctx_init();
	char s[LEN + 1];
	u8 val[LEN];
	static const char pattern[] = PATTERN;
	for (unsigned i = 0; i < LEN; i++) {
		s[i] = pattern[i % (sizeof(pattern) - 1)];
		val[i] = (u8)c17_sym_value((unsigned char)s[i]);
	}
	s[LEN] = 0;
	u8 c = ND(u8, c);
#ifdef NUL_AT_POS
	c = 0;                       /* the terminator case: concrete, the string is POS characters long */
	c17_expected_len = POS;
#else
	ASSUME(c != 0);              /* all 255 other byte values */
	c17_expected_len = LEN;
#endif
	s[POS] = (char)c;

	unsigned char *out = NULL; size_t out_len = 0;
	int res = KSI_base32Decode(s, &out, &out_len);

	/* reference: symbols that contribute */
	u8 sym[LEN]; unsigned nsym = 0;
	int v = c17_sym_value(c);
	int ends = (c == '=' || c == 0);
	int skip = (c == '-');
	int must_accept = (v >= 0) || ends || skip;
	/* symbol j of the data: before POS the string's symbols; from POS on either the symbolic character's value
	 * followed by the rest (alphabet character) or, for a skipped '-', the rest shifted by one */
	for (unsigned j = 0; j < LEN; j++) {
		if (j < POS) sym[j] = val[j];
		else if (v >= 0) sym[j] = (j == POS) ? (u8)v : val[j];
		else sym[j] = (j + 1 < LEN) ? val[j + 1] : 0;
	}
	(void)nsym;
	unsigned n_expected = ends ? POS : (v >= 0 ? LEN : LEN - 1);

	if (must_accept) CHECK(res == KSI_OK, "C17.H1 a string of base32 symbols, '-' and '=' is accepted");
	if (res != KSI_OK) {
		CHECK(res == KSI_INVALID_FORMAT, "C17.H1 a character outside the alphabet yields KSI_INVALID_FORMAT");
		CHECK(out == NULL, "C17.H1 no buffer is returned for a rejected string");
#ifndef NUL_AT_POS
		if (c == '@' || c == '[' || c == '`' || c == '{') WITNESS_POINT("character next to the letter ranges rejected");
		if (c >= 0x80) WITNESS_POINT("non-ASCII byte rejected");
#endif
		return;
	}
	CHECK(out != NULL, "C17.H1 accepted string yields a buffer");
	if (out == NULL) return;
	CHECK(out_len == (n_expected * 5) / 8, "C17.H1 decoded length = floor(5 * symbols / 8)");
	for (unsigned i = 0; i < OUTMAX; i++) {
		if (i < (n_expected * 5) / 8 && i < out_len)
			CHECK(out[i] == c17_stream_byte(sym, i), "C17.H1 decoded bytes = concatenated 5-bit values of the alphabet characters only (a foreign character contributes no bits)");
	}
#ifndef NUL_AT_POS
	if (v >= 26) WITNESS_POINT("digit 2..7 accepted as 26..31");
	if (c >= 'a' && c <= 'z') WITNESS_POINT("lower case letter accepted");
	if (skip) WITNESS_POINT("dash skipped");
	if (c == '=') WITNESS_POINT("padding ends the data");
#else
	WITNESS_POINT("NUL ends the string");
#endif
	KSI_free(out);
}
