/* C13 H-7: processing a batch of NRESP raw responses (asyncClient_process{Aggregation,Extender}ResponseQueue ->
 * processResponseQueue -> asyncClient_handleServerConfig / handleResponse / asyncClient_setResponseError) on an
 * ARBITRARY invariant-satisfying client state.
 *
 * Every raw response is one of: unparsable | error PDU (status, message) | ordinary PDU with a good or bad MAC,
 * optionally carrying a configuration and/or a response (id, status, message).
 * Reference (from the property text and net_async.h, built on the per-step contracts of H-2/H-3/H-4):
 *  - responses are taken from the transport in order, each parsed once;
 *  - processing stops with that error at the first unparsable or unauthenticated PDU (or transport failure);
 *    nothing of that PDU or a later one is applied (no completion from unauthenticated data);
 *  - an authenticated PDU applies its configuration (H-3 rule, no callback configured here) and then its response
 *    (H-2 rule: only the WAITING_FOR_RESPONSE handle with the same full id; status 0/absent completes, else fails);
 *  - error PDUs are kept until the whole batch is processed; then every handle still WAITING_FOR_RESPONSE fails
 *    with the (last) error PDU's converted status, raw status and message - a handle answered later in the same
 *    batch is completed, not failed;
 *  - Inv(c) afterwards.
 * The response/request cross-check stub always succeeds here (its failure is H-2's subject). */
#define HN "C13.H7"
#define C13_VERIFY_OK 1
#define C13_CREDENTIALS_OK 1     /* credential lookup failing is exercised by H-1 */
#include "verif.h"
#include "internal.h"
#include "ctx.h"
#include "verif_post.h"
#include "c13_model.h"
#include "net_async.c"
#include "c13_state.h"

#ifndef NRESP
#define NRESP 2
#endif
#if EXT_FLAVOUR
#define RESP_T KSI_ExtendResp
#define PDU_T KSI_ExtendPdu
#define RESP_NEW KSI_ExtendResp_new
#define PROCESS asyncClient_processExtenderResponseQueue
#define PDU_TABLE c13_KSI_ExtendPdu_table
#define PARSE_STATUS c13_KSI_ExtendPdu_parse_status
#define PARSE_CALLS c13_KSI_ExtendPdu_parse_calls
#else
#define RESP_T KSI_AggregationResp
#define PDU_T KSI_AggregationPdu
#define RESP_NEW KSI_AggregationResp_new
#define PROCESS asyncClient_processAggregationResponseQueue
#define PDU_TABLE c13_KSI_AggregationPdu_table
#define PARSE_STATUS c13_KSI_AggregationPdu_parse_status
#define PARSE_CALLS c13_KSI_AggregationPdu_parse_calls
#endif

/* abstract handle state of the reference */
struct rstate { int present; int state; int err; int errConverted; long ext; void *respCtx; KSI_Utf8String *msg; int touched; };

static unsigned char rawbuf[3][2];
static struct KSI_OctetString_st octets[3];

void harness(void) {
	VERIF_ctx_init();
	KSI_CTX *ctx = VERIF_ctx;
	struct c13_snap pre;
	int res;
	KSI_AsyncClient *c = c13_mk_client(ctx, &pre);
	/* no push-configuration callback configured on the service or the context (H-3 covers the callback) */
	ASSUME(c->options[KSI_ASYNC_OPT_PUSH_CONF_CALLBACK] == 0);

	/* ---- the batch ---- */
	unsigned kind[NRESP]; _Bool macFails[NRESP], hasResp[NRESP], hasConf[NRESP], hasStatus[NRESP];
	u64 rid[NRESP], status[NRESP]; int failCode[NRESP];
	RESP_T *resp[NRESP]; KSI_Config *conf[NRESP]; KSI_Utf8String *msg[NRESP]; KSI_ErrorPdu *epdu[NRESP];
	for (unsigned j = 0; j < NRESP; j++) {
		kind[j] = ND(unsigned, pdu_kind); ASSUME(kind[j] <= 2);
		macFails[j] = ND_BOOL(mac_fails); hasResp[j] = ND_BOOL(has_response); hasConf[j] = ND_BOOL(has_config); hasStatus[j] = ND_BOOL(has_status);
		rid[j] = ND(u64, reply_id); status[j] = ND(u64, reply_status);
		failCode[j] = c13_stub_status(1, ND(int, fail_code));
		resp[j] = NULL; conf[j] = NULL; msg[j] = NULL; epdu[j] = NULL;
		rawbuf[j][0] = (unsigned char)j; rawbuf[j][1] = 0;
		octets[j].ctx = ctx; octets[j].ref = 2; /* one reference stays with the harness: storage is static */
		octets[j].data = rawbuf[j]; octets[j].data_len = 2;
		c13_tr.resp[j] = &octets[j];
		PARSE_STATUS[j] = KSI_OK; PDU_TABLE[j] = NULL;
		if (kind[j] == 0) { PARSE_STATUS[j] = failCode[j]; continue; }
		PDU_T *pdu = (PDU_T *)malloc(sizeof(PDU_T)); ASSUME(pdu != NULL);
		memset(pdu, 0, sizeof(*pdu)); pdu->ctx = ctx;
		if (ND_BOOL(has_message)) { res = KSI_Utf8String_new(ctx, c13_user, 2, &msg[j]); ASSUME(res == KSI_OK); }
		if (kind[j] == 1) {
			KSI_ErrorPdu *e = (KSI_ErrorPdu *)malloc(sizeof(KSI_ErrorPdu)); ASSUME(e != NULL);
			e->ctx = ctx; e->status = NULL; e->errorMsg = msg[j];
			if (hasStatus[j]) { res = KSI_Integer_new(ctx, status[j], &e->status); ASSUME(res == KSI_OK); }
			pdu->error = e; epdu[j] = e;
		} else {
			pdu->macFails = macFails[j]; pdu->macCode = failCode[j];
			if (hasConf[j]) { res = KSI_Config_new(ctx, &conf[j]); ASSUME(res == KSI_OK); KSI_Config_ref(conf[j]); pdu->confResponse = conf[j]; }
			if (hasResp[j]) {
				res = RESP_NEW(ctx, &resp[j]); ASSUME(res == KSI_OK);
				res = KSI_Integer_new(ctx, rid[j], &resp[j]->requestId); ASSUME(res == KSI_OK);
				if (hasStatus[j]) { res = KSI_Integer_new(ctx, status[j], &resp[j]->status); ASSUME(res == KSI_OK); }
				resp[j]->errorMsg = msg[j];
				RESP_T *keep = resp[j]; keep->ref++;      /* observer's reference */
				pdu->response = resp[j];
			}
		}
		PDU_TABLE[j] = pdu;
	}
	c13_tr.nresp = NRESP;

	res = PROCESS(c);

	/* ---- reference ---- */
	struct rstate r[CACHE_S];   /* index 0: serverConf */
	for (size_t i = 0; i < CACHE_S; i++) {
		const struct c13_hsnap *p = (i == 0) ? &pre.conf : &pre.slot[i];
		r[i].present = (p->h != NULL); r[i].state = p->state; r[i].err = p->err; r[i].ext = p->errExt; r[i].respCtx = p->respCtx; r[i].msg = p->errMsg; r[i].touched = 0; r[i].errConverted = 0;
	}
	int stopped = 0, stopCode = KSI_OK; unsigned processed = 0;
	int haveErrPdu = 0; u64 errStatus = 0; int errHasStatus = 0; KSI_Utf8String *errMsg = NULL;
	int confCreated = 0;
	for (unsigned j = 0; j < NRESP; j++) {
		if (stopped) continue;
		if (c13_tr.get_failed != KSI_OK && c13_tr.get_calls == j + 1) { stopped = 1; stopCode = c13_tr.get_failed; continue; }
		processed++;
		if (kind[j] == 0) { stopped = 1; stopCode = failCode[j]; continue; }
		if (kind[j] == 1) { haveErrPdu = 1; errStatus = status[j]; errHasStatus = hasStatus[j]; errMsg = msg[j]; continue; }
		if (macFails[j]) { stopped = 1; stopCode = failCode[j]; continue; }
		if (hasConf[j]) {
			if (!r[0].present) { r[0].present = 1; confCreated = 1; r[0].err = 0; r[0].ext = 0; r[0].msg = NULL; }
			r[0].state = KSI_ASYNC_STATE_PUSH_CONFIG_RECEIVED; r[0].respCtx = conf[j]; r[0].touched = 1;
		}
		if (hasResp[j]) {
			for (size_t i = 1; i < CACHE_S; i++) {
				if ((rid[j] & 0xffffffffull) == i && r[i].present && pre.slot[i].id == rid[j] && r[i].state == KSI_ASYNC_STATE_WAITING_FOR_RESPONSE) {
					r[i].touched = 1;
					if (!hasStatus[j] || status[j] == 0) { r[i].state = KSI_ASYNC_STATE_RESPONSE_RECEIVED; r[i].respCtx = resp[j]; }
					else { r[i].state = KSI_ASYNC_STATE_ERROR; r[i].errConverted = 1; r[i].ext = (long)status[j]; r[i].msg = msg[j]; }
				}
			}
		}
	}
	/* a transport failure on the call after the last response cannot happen: the loop ends when nothing is left */
	int fanout = (!stopped && haveErrPdu);
	if (fanout) {
		for (size_t i = 0; i < CACHE_S; i++) if (r[i].present && r[i].state == KSI_ASYNC_STATE_WAITING_FOR_RESPONSE) {
			r[i].state = KSI_ASYNC_STATE_ERROR; r[i].touched = 1; r[i].ext = (long)(errHasStatus ? errStatus : 0); r[i].msg = errMsg;
			r[i].errConverted = (errHasStatus && errStatus != 0); r[i].err = KSI_OK;
		}
	}

	/* ---- comparison ---- */
	CHECK(res == (stopped ? stopCode : KSI_OK), HN " batch result: error of the first unusable response, else OK");
	for (unsigned j = 0; j < NRESP; j++) {
		CHECK(PARSE_CALLS[j] == (j < processed ? 1u : 0u), HN " every response taken before the stop is parsed exactly once, later ones not at all");
	}
	int same = 1, errOk = 1;
	for (size_t i = 0; i < CACHE_S; i++) {
		const KSI_AsyncHandle *h = (i == 0) ? c->serverConf : c->reqCache[i];
		const struct c13_hsnap *p = (i == 0) ? &pre.conf : &pre.slot[i];
		if ((h != NULL) != (r[i].present != 0)) { same = 0; continue; }
		if (h == NULL) continue;
		if (!(i == 0 && confCreated) && h != p->h) same = 0;
		if (h->state != r[i].state || h->respCtx != r[i].respCtx) same = 0;
		if (r[i].state == KSI_ASYNC_STATE_ERROR) {
			if (r[i].errConverted) { if (h->err == KSI_OK || h->err != c13_service_error_code) errOk = 0; }
			else if (h->err != r[i].err) errOk = 0;
			if (h->errExt != r[i].ext || h->errMsg != r[i].msg) errOk = 0;
		}
		if (!r[i].touched && (h->err != p->err || h->errMsg != p->errMsg || h->ref != p->ref)) same = 0;
	}
	CHECK(same, HN " cached handles end in the states the authenticated responses of the batch imply, nothing else changes");
	CHECK(errOk, HN " failed handles carry the converted status, raw status and message of the reply or error PDU that failed them");
	for (unsigned j = 0; j < NRESP; j++) {
		if (resp[j] != NULL) {
			int used = 0;
			for (size_t i = 1; i < CACHE_S; i++) if (c->reqCache[i] != NULL && c->reqCache[i]->respCtx == (void *)resp[j]) used++;
			/* a PDU that was never taken from the transport still sits in the harness' table with its reference */
			CHECK(resp[j]->ref == 1u + (unsigned)used + (j < processed ? 0u : 1u) && used <= 1, HN " a response is referenced by at most one handle and released otherwise");
		}
		if (conf[j] != NULL) CHECK(conf[j]->ref == 1u + (j < processed ? 0u : 1u) + ((c->serverConf != NULL && c->serverConf->respCtx == (void *)conf[j]) ? 1u : 0u), HN " a configuration is referenced only by the configuration handle holding it");
	}
	c13_check_inv(c);

#if NRESP >= 2
	{
		const u64 idx = rid[1] & 0xffffffffull;
	#if !(CACHE_S == 2 && CONF_KIND == 1)   /* a cache of one holding a pending configuration request has no request slot in use (I6) */
	if (!stopped && kind[0] == 1 && kind[1] == 2 && hasResp[1] && idx >= 1 && idx < CACHE_S) {
			for (size_t i = 1; i < CACHE_S; i++)
				if (i == idx && r[i].present && r[i].state == KSI_ASYNC_STATE_RESPONSE_RECEIVED && r[i].respCtx == (void *)resp[1])
					WITNESS_POINT("handle answered after an error PDU in the same batch is completed");
		}
#endif
	}
	if (stopped && processed == 2 && kind[1] == 2 && macFails[1] && kind[0] == 2 && hasResp[0]) WITNESS_POINT("second PDU unauthenticated: first applied, second not");
#endif
	{
		int anyWaiting = 0;
		for (size_t i = 0; i < CACHE_S; i++) { const struct c13_hsnap *p = (i == 0) ? &pre.conf : &pre.slot[i]; if (p->h != NULL && p->state == KSI_ASYNC_STATE_WAITING_FOR_RESPONSE) anyWaiting = 1; }
		if (fanout && anyWaiting) WITNESS_POINT("error PDU fails the waiting handles");
	}
	if (stopped && kind[0] == 0) WITNESS_POINT("unparsable first response stops the batch");
#if CONF_KIND == 0
	if (!stopped && confCreated) WITNESS_POINT("pushed configuration cached by the batch");
#endif
}
