/* C07 H-4: KSI_SignatureBuilder_openFromAggregationResp (signature_builder.c) - status conversion and what the new
 * signature is made of.  Real: signature_builder.c (included), KSI_convertAggregatorStatusCode (net.c), the response
 * type (types.c), tlv.c (KSI_TLV_new / getNestedList / appendNestedTlv / getTag / free), list.c, KSI_Signature_new/free.
 * KSI_TLV_clone is replaced by a structural clone written on top of the public TLV API (tag + nested children;
 * the real one serializes and re-parses through 64 KiB buffers, which is C09's subject).
 *   - response element with a tag other than 0x202 / 0x02 (or none)  ->  KSI_INVALID_FORMAT, no builder;
 *   - status present and != 0  ->  an error (the documented mapping of the KSI status codes), never KSI_OK, no builder;
 *   - status absent or 0  ->  KSI_OK, a builder whose signature has a 0x800 element made of exactly the response's children
 *     that are not PDU bookkeeping (request id 0x01, status 0x04, error message 0x05, config 0x10, ack 0x11), in the original
 *     order; the response's own element is left as it was.
 * Shape (concrete): the child tag sequence TAGS; status presence.  Symbolic: the 64-bit status value, the response tag. */
#include "verif.h"
#include "internal.h"
#include "tlv.h"
#include "tlv_template.h"
#include "hashchain.h"
#include "net.h"
#include "impl/signature_impl.h"
#include "impl/signature_builder_impl.h"
#include "ctx.h"
#include "verif_post.h"
#include "types_base.c"

#ifndef NCH
#define NCH 8
#endif
#ifndef TAGS
#define TAGS {0x01, 0x801, 0x04, 0x802, 0x05, 0x805, 0x10, 0x11}
#endif
#ifndef HAS_STATUS
#define HAS_STATUS 1
#endif
#ifndef HAS_BASE
#define HAS_BASE 1
#endif
static const unsigned tags[NCH] = TAGS;

static KSI_Integer *mk_int(u64 v) { KSI_Integer *i = malloc(sizeof(*i)); ASSUME(i != NULL); i->ref = 1; i->value = v; return i; }

/* structural clone on the public API of the real tlv.c */
static int c07_tlv_clone(const KSI_TLV *tlv, KSI_TLV **clone) {
	KSI_TLV *c = NULL; KSI_LIST(KSI_TLV) *ch = NULL; int res;
	if (tlv == NULL || clone == NULL) return KSI_INVALID_ARGUMENT;
	res = KSI_TLV_new(KSI_TLV_getCtx((KSI_TLV *)tlv), KSI_TLV_getTag(tlv), KSI_TLV_isNonCritical(tlv), KSI_TLV_isForward(tlv), &c);
	if (res != KSI_OK) return res;
	res = KSI_TLV_getNestedList((KSI_TLV *)tlv, &ch);
	if (res != KSI_OK) { KSI_TLV_free(c); return res; }
	for (size_t i = 0; i < KSI_TLVList_length(ch); i++) {
		KSI_TLV *e = NULL, *ec = NULL;
		res = KSI_TLVList_elementAt(ch, i, &e); if (res != KSI_OK) { KSI_TLV_free(c); return res; }
		res = KSI_TLV_new(KSI_TLV_getCtx(e), KSI_TLV_getTag(e), 0, 0, &ec); if (res != KSI_OK) { KSI_TLV_free(c); return res; }
		res = KSI_TLV_appendNestedTlv(c, ec); if (res != KSI_OK) { KSI_TLV_free(ec); KSI_TLV_free(c); return res; }
	}
	*clone = c;
	return KSI_OK;
}
#define KSI_TLV_clone c07_tlv_clone
#include "signature_builder.c"
#undef KSI_TLV_clone

/* status codes of the KSI aggregator protocol and the error they are reported as */
static int expected_error(u64 st) {
	switch (st) {
	case 0x0101: return KSI_SERVICE_INVALID_REQUEST;
	case 0x0102: return KSI_SERVICE_AUTHENTICATION_FAILURE;
	case 0x0103: return KSI_SERVICE_INVALID_PAYLOAD;
	case 0x0104: return KSI_SERVICE_AGGR_REQUEST_TOO_LARGE;
	case 0x0105: return KSI_SERVICE_AGGR_REQUEST_OVER_QUOTA;
	case 0x0106: return KSI_SERVICE_AGGR_TOO_MANY_REQUESTS;
	case 0x0107: return KSI_SERVICE_AGGR_INPUT_TOO_LONG;
	case 0x0200: return KSI_SERVICE_INTERNAL_ERROR;
	case 0x0300: return KSI_SERVICE_UPSTREAM_ERROR;
	case 0x0301: return KSI_SERVICE_UPSTREAM_TIMEOUT;
	default: return KSI_SERVICE_UNKNOWN_ERROR;
	}
}
/* reached from KSI_VerificationResult_reset when a signature under construction is destroyed; the harness never attaches a publications file */
void KSI_PublicationsFile_free(KSI_PublicationsFile *p) { __CPROVER_assert(p == NULL, "CHECK C07.H4 unlinked destructor KSI_PublicationsFile_free only called with NULL"); }
static int is_bookkeeping(unsigned t) { return t == 0x01 || t == 0x04 || t == 0x05 || t == 0x10 || t == 0x11; }

void harness(void) {
	VERIF_ctx_init();
	KSI_CTX *ctx = VERIF_ctx;
	int res;
	KSI_AggregationResp *resp = NULL;
	res = KSI_AggregationResp_new(ctx, &resp); ASSUME(res == KSI_OK);
	u64 status = ND(u64, status);
#if HAS_STATUS
	res = KSI_AggregationResp_setStatus(resp, mk_int(status)); ASSUME(res == KSI_OK);
#endif
	unsigned rtag = ND(unsigned, resp_tag); ASSUME(rtag <= 0x1fff);
	KSI_TLV *base = NULL;
#if HAS_BASE
	res = KSI_TLV_new(ctx, rtag, 0, 0, &base); ASSUME(res == KSI_OK);
	for (unsigned i = 0; i < NCH; i++) {
		KSI_TLV *c = NULL;
		res = KSI_TLV_new(ctx, tags[i], 0, 0, &c); ASSUME(res == KSI_OK);
		res = KSI_TLV_appendNestedTlv(base, c); ASSUME(res == KSI_OK);
	}
	res = KSI_AggregationResp_setBaseTlv(resp, base); ASSUME(res == KSI_OK);
#endif
	KSI_SignatureBuilder *b = NULL;

	res = KSI_SignatureBuilder_openFromAggregationResp(resp, &b);

	int tag_ok = HAS_BASE && (rtag == 0x202 || rtag == 0x02);
	int status_ok = !HAS_STATUS || status == 0;
	if (!tag_ok) {
		CHECK(res == KSI_INVALID_FORMAT && b == NULL, "C07.H4 something that is not an aggregation response element yields no builder");
		WITNESS_POINT("wrong response element refused");
	} else if (!status_ok) {
		CHECK(res != KSI_OK && b == NULL, "C07.H4 a response with a non-zero status never yields a builder");
		CHECK(res == expected_error(status), "C07.H4 the status is reported as the corresponding KSI_SERVICE_* error");
#if HAS_STATUS && HAS_BASE
		if (status == 0x0102) WITNESS_POINT("authentication failure status reported");
		if (status == (1ULL << 32)) WITNESS_POINT("status 2^32 is not mistaken for 0");
#endif
	} else {
		CHECK(res == KSI_OK && b != NULL && b->sig != NULL && b->noVerify == 0, "C07.H4 a response with status 0 (or none) yields a builder");
		if (res == KSI_OK && b != NULL && b->sig != NULL) {
			KSI_LIST(KSI_TLV) *sc = NULL; KSI_LIST(KSI_TLV) *rc = NULL;
			CHECK(KSI_TLV_getTag(b->sig->baseTlv) == 0x800, "C07.H4 the new signature element has tag 0x800");
			res = KSI_TLV_getNestedList(b->sig->baseTlv, &sc); ASSUME(res == KSI_OK);
			res = KSI_TLV_getNestedList(base, &rc); ASSUME(res == KSI_OK);
			unsigned k = 0; int same = 1;
			for (unsigned i = 0; i < NCH; i++) {
				if (!is_bookkeeping(tags[i])) {
					KSI_TLV *e = NULL;
					if (KSI_TLVList_elementAt(sc, k, &e) != KSI_OK || KSI_TLV_getTag(e) != tags[i]) same = 0;
					k++;
				}
			}
			CHECK(same && KSI_TLVList_length(sc) == k, "C07.H4 the signature consists of exactly the non-bookkeeping children of the response, in order");
			int untouched = KSI_TLVList_length(rc) == NCH;
			for (unsigned i = 0; i < NCH; i++) { KSI_TLV *e = NULL; if (KSI_TLVList_elementAt(rc, i, &e) != KSI_OK || KSI_TLV_getTag(e) != tags[i]) untouched = 0; }
			CHECK(untouched, "C07.H4 the response's own element is left as it was");
			CHECK(b->sig->calendarChain == NULL && b->sig->calendarAuthRec == NULL && b->sig->publication == NULL && b->sig->aggregationChainList == NULL, "C07.H4 nothing appears in the signature that the response did not carry");
#if HAS_BASE
			WITNESS_POINT("builder opened from a status-0 response");
#endif
		}
	}
}
