/* C05 H-1 / H-1b: the REAL Rule_verify (policy.c, static, reached by including the file) on rule trees.
 * Skeleton (which slot is basic / composite) = compile-time constant of the instance; list lengths 1..W, AND/OR
 * labels and the outcome (status, result code, error code) of every basic rule are symbolic (common/c05_tree.h).
 *
 * Oracle: c05_reference() - a bottom-up evaluator written from policy.h:206-235 and the property text:
 *   a basic or AND element lets evaluation continue only on OK; an OR element ends its list on OK and passes on to
 *   the next element when inconclusive; any FAIL or error ends the whole evaluation; the reported result is that
 *   of the last rule evaluated.
 * Asserted: return code, (result code, error code) of the verdict, and for EVERY slot the sequence number at which
 * its rule function was invoked (0 = never) - i.e. strictly in order, nothing invoked after the stopping point,
 * FAIL / error never masked.
 *
 * H-1b (-DC05_WITH_LIST=1): additionally the real ruleResults list (PolicyVerificationResult_create): it holds the
 * results of the evaluated basic rules in evaluation order, without the "component exists / is missing" answers
 * (KSI_OK, NA, KSI_VER_ERR_NONE), and at most one entry per rule-name pointer (the first one). */
#include "verif.h"
#include "internal.h"
#include "verification_rule.h"
#include "impl/policy_impl.h"
#include "ctx.h"
#include "verif_post.h"
#include "c05_tree.h"
#include "policy.c"

#ifndef C05_WITH_LIST
#define C05_WITH_LIST 0
#endif
#ifndef C05_WARM_LIST
#define C05_WARM_LIST 0
#endif
#ifndef C05_SHARED_NAMES
#define C05_SHARED_NAMES C05_WITH_LIST
#endif
#ifndef C05_NCOMP
#define C05_NCOMP 0          /* number of composite slots of the skeleton (for witness guards) */
#endif

void harness(void) {
	VERIF_ctx_init();
	KSI_CTX *ctx = VERIF_ctx;
	unsigned s;

	c05_build(C05_SHARED_NAMES);
	CHECK(c05_skeleton_ok, "C05.H1 instance skeleton is well formed (no composite in a leaf list)");
	if (!c05_skeleton_ok) return;
	c05_reference();

	KSI_VerificationContext vc;
	int r0 = KSI_VerificationContext_init(&vc, ctx);
	ASSUME(r0 == KSI_OK);

#if C05_WITH_LIST
	KSI_PolicyVerificationResult *pr = NULL;
	r0 = PolicyVerificationResult_create(&pr);
	ASSUME(r0 == KSI_OK && pr != NULL);
#if C05_WARM_LIST
	/* CBMC: the list's first append allocates its array; when that append is conditional every later one sees a
	 * symbolic capacity.  Give the (still empty) list its capacity up front through the list API: append one entry and
	 * remove it again.  The w2d1_bb instance runs on the untouched fresh list. */
	{
		KSI_RuleVerificationResult *dummy = NULL, *back = NULL;
		r0 = KSI_RuleVerificationResult_dup(&pr->finalResult, &dummy); ASSUME(r0 == KSI_OK);
		r0 = KSI_RuleVerificationResultList_append(pr->ruleResults, dummy); ASSUME(r0 == KSI_OK);
		r0 = KSI_RuleVerificationResultList_remove(pr->ruleResults, 0, &back); ASSUME(r0 == KSI_OK && back == dummy);
		KSI_RuleVerificationResult_free(dummy);
	}
#endif
#else
	KSI_PolicyVerificationResult pr_obj, *pr = &pr_obj;
	memset(&pr_obj, 0, sizeof(pr_obj));
	pr_obj.ref = 1;
	KSI_RuleVerificationResult_init(&pr_obj.finalResult);
	pr_obj.ruleResults = NULL;       /* bookkeeping list off: Rule_verify ignores its outcome (policy.c:126); H-1b has it on */
	pr_obj.policyResults = NULL;
#endif

	int res = Rule_verify(&c05_L[0][0], &vc, pr);

	/* ---- the three equalities ---- */
	CHECK(res == c05_exp.res, "C05.H1 return code is the status of the last rule evaluated (an internal error is returned, never masked)");
	if (res == KSI_OK) {
		CHECK(pr->finalResult.resultCode == (KSI_VerificationResultCode)c05_exp.rc, "C05.H1 result code is that of the last rule evaluated (FAIL never masked)");
		CHECK(pr->finalResult.errorCode == (KSI_VerificationErrorCode)c05_exp.ec, "C05.H1 error code is that of the last rule evaluated");
		CHECK(pr->resultCode == pr->finalResult.resultCode, "C05.H1 policy result code duplicates the final result code");
	} else {
		CHECK(pr->finalResult.resultCode != KSI_VER_RES_OK || c05_exp.rc == KSI_VER_RES_OK, "C05.H1 an internal error does not turn into an OK verdict");
	}
	int order_ok = 1, once_ok = 1;
	for (s = 0; s < C05_NSLOTS; s++) {
		if (c05_kind[s] || !c05_reach[s / C05_W]) continue;
		if (c05_seq[s] != c05_exp_seq[s]) order_ok = 0;
		if (c05_calls[s] != (c05_exp_seq[s] != 0 ? 1u : 0u)) once_ok = 0;
	}
	CHECK(order_ok, "C05.H1 every rule is invoked at exactly the expected position of the evaluation order and not at all after the stopping point");
	CHECK(once_ok, "C05.H1 every rule is invoked at most once and exactly when the semantics reaches it");
	CHECK(c05_clock == c05_exp_count, "C05.H1 total number of rule invocations");

#if C05_WITH_LIST
	/* ---- H-1b: expected result list ---- */
	{
		struct { int rc, ec; const char *name; } e[C05_NSLOTS];
		unsigned n = 0, k, j;
		for (j = 0; j < C05_NSLOTS; j++) { e[j].rc = 0; e[j].ec = 0; e[j].name = NULL; }
		for (k = 1; k <= C05_NSLOTS; k++) {
			for (s = 0; s < C05_NSLOTS; s++) {
				if (c05_kind[s] || !c05_reach[s / C05_W] || c05_exp_seq[s] != k) continue;
				if (c05_res[s] == KSI_OK && c05_rc[s] == KSI_VER_RES_NA && c05_ec[s] == KSI_VER_ERR_NONE) continue;   /* existence-type answer */
				int dup = 0;
				for (j = 0; j < C05_NSLOTS; j++) if (j < n && e[j].name == c05_nameptr[s]) dup = 1;
				if (dup) continue;
				for (j = 0; j < C05_NSLOTS; j++) if (j == n) { e[j].rc = c05_rc[s]; e[j].ec = c05_ec[s]; e[j].name = c05_nameptr[s]; }
				n++;
			}
		}
		size_t ln = KSI_RuleVerificationResultList_length(pr->ruleResults);
		CHECK(ln == n, "C05.H1b result list has one entry per evaluated, reportable, not yet listed rule");
		int same = 1;
		for (j = 0; j < C05_NSLOTS; j++) {
			KSI_RuleVerificationResult *it = NULL;
			if (j >= n || j >= ln) continue;
			int r1 = KSI_RuleVerificationResultList_elementAt(pr->ruleResults, j, &it);
			if (r1 != KSI_OK || it == NULL) { same = 0; continue; }
			if ((int)it->resultCode != e[j].rc || (int)it->errorCode != e[j].ec || it->ruleName != e[j].name) same = 0;
		}
		CHECK(same, "C05.H1b result list entries are the rule results in evaluation order");
		CHECK(KSI_RuleVerificationResultList_length(pr->policyResults) == 0, "C05.H1b Rule_verify does not touch the policy result list");
		if (n >= 2 && ln == n) WITNESS_POINT("two distinct rule results listed");
		{
			int suppressed = 0; unsigned a, b;
			for (a = 0; a < C05_NSLOTS; a++) for (b = 0; b < C05_NSLOTS; b++) {
				if (a == b || c05_kind[a] || c05_kind[b] || !c05_reach[a / C05_W] || !c05_reach[b / C05_W]) continue;
				if (c05_exp_seq[a] != 0 && c05_exp_seq[b] > c05_exp_seq[a] && c05_nameptr[a] == c05_nameptr[b]
						&& !(c05_rc[a] == KSI_VER_RES_NA && c05_ec[a] == KSI_VER_ERR_NONE) && !(c05_rc[b] == KSI_VER_RES_NA && c05_ec[b] == KSI_VER_ERR_NONE))
					suppressed = 1;
			}
			if (suppressed && ln == n) WITNESS_POINT("second result of the same rule name suppressed");
		}
		if (c05_exp_count >= 1 && n == 0 && res == KSI_OK) WITNESS_POINT("existence-type answer not listed");
	}
	KSI_PolicyVerificationResult_free(pr);
#else
	/* ---- witnesses ---- */
	if (res == KSI_OK && c05_exp.rc == KSI_VER_RES_OK && c05_clock >= 2) WITNESS_POINT("verdict OK after several rules");
	if (res != KSI_OK && c05_clock >= 1) WITNESS_POINT("internal error ends the evaluation");
	if (res == KSI_OK && c05_exp.rc == KSI_VER_RES_FAIL && c05_clock >= 2) WITNESS_POINT("FAIL after an OK rule ends the evaluation");
	if (res == KSI_OK && c05_exp.rc == KSI_VER_RES_NA && c05_exp.ec == KSI_VER_ERR_NONE) WITNESS_POINT("inconclusive verdict without error code");
#if C05_NCOMP > 0
	{
		int and_na = 0, or_ok_skip = 0, or_na_next = 0;
		for (s = 0; s < C05_NSLOTS; s++) {
			unsigned l = s / C05_W, p = s % C05_W;
			if (!c05_kind[s] || !c05_reach[l] || !c05_active[s + 1] || c05_lo[s + 1].res != KSI_OK) continue;
			if (c05_is_and[s] && c05_lo[s + 1].rc == KSI_VER_RES_NA) and_na = 1;
			if (!c05_is_and[s] && c05_lo[s + 1].rc == KSI_VER_RES_OK && p + 1 < c05_len[l]) or_ok_skip = 1;
			if (!c05_is_and[s] && c05_lo[s + 1].rc == KSI_VER_RES_NA && p + 1 < c05_len[l]) or_na_next = 1;
		}
		if (and_na) WITNESS_POINT("inconclusive AND composite ends its list");
#if C05_NONLAST
		if (or_ok_skip) WITNESS_POINT("successful OR composite skips the rest of its list");
		if (or_na_next) WITNESS_POINT("inconclusive OR composite passes on to the next element");
#endif
	}
#endif
#endif
}
