/* C19 H-13 (c): the TLV template engine on the REAL template of an object with a LIST member, KSI_Config (three integers
 * and the parent_uri list of utf8 strings; template row KSI_TLV_UTF8_STRING_LIST = listNew / listAppend / listFree /
 * listLength / listElementAt columns) under allocation failure.  Generic part and the list of checks:
 * harness/common/c19_tmpl_body.h.  Real code: tlv_template.c (text, one cut with proof obligation: c19_tmpl_cut.h), tlv.c,
 * fast_tlv.c, list.c, types.c (KSI_Config_new / _free / getters / setters), types_base.c.
 *
 * Shape (concrete): max_level = 1-byte integer (static pool, no allocation), aggr_algo = 1-byte integer, aggr_period =
 * 2-byte integer (heap object), parent_uri = TWO strings of one character + NUL.  Values: concrete (see h13_header.c for
 * the reason: the static integer pool and the UTF-8 verifier make every integer / character value decide an allocation
 * or a loop index).  The element tag 0x10 is the one the aggregation request template gives the configuration.
 * Encoding (oracle, by hand): 10 12 | 01 01 03 | 02 01 01 | 03 02 12 34 | 04 02 'a' 00 | 04 02 'b' 00.
 *
 * In the plan: the element -> object operations 1-4 (extract, extractGenerator, parse, extract with lazy expansion).  The
 * object -> element operations 5-7 are in this text but NOT in the plan: the length of a list member reached through
 * listElementAt is not a constant for CBMC, KSI_TLV_setRawValue's memcpy into the element's 64 KiB buffer then has a
 * non-constant size (byte_update on a 64 KiB array) and cons_k0 ran out of memory at 6 GB.  They were enumerated natively
 * (gcc -DREPLAY, ASan/UBSan/LSan, every k = 0..NALLOC+1 with NALLOC 13 / 15 / 14) without a report.
 *
 * MUTATION caught (scratch worktree; the others are listed in h13_header.c):
 *  M2 storeObjectValue clean-up: "tmpl->listFree(list)" -> "tmpl->listFree(NULL)" (the list created for the first member is
 *     not released when listAppend fails) -> ext_k6 (k6 = the allocation inside KSI_List_append): memory-leak property;
 *     replay: LeakSanitizer.  (Deleting the statement outright removes the call site that restrict_fp names and
 *     goto-instrument refuses to build.) */
#include "c19.h"
#include "tlv.h"
#include "tlv_template.h"
#include "verif_post.h"
#define TMPL_ROWS_OF(t) ((t) == KSI_TLV_TEMPLATE(KSI_Config) ? 4u : 0u)
#include "c19_tmpl_cut.h"               /* the REAL tlv_template.c as text; getTemplateLength cut with proof obligation */
/* types.c as text in the SAME translation unit: its fromTlv / toTlv wrappers take the address of template tables it only
 * knows as "extern const KSI_TlvTemplate x[]"; linked as a separate goto-cc unit that incomplete type made CBMC treat the
 * table as a one-row object (spurious out-of-bounds reports, not reproduced natively) */
#include "types.c"

#define T KSI_Config
#define T_NEW(ctx, po) KSI_Config_new((ctx), (po))
#define T_FREE(o) KSI_Config_free(o)
#define TMPL KSI_TLV_TEMPLATE(KSI_Config)
#define TOP_TAG 0x10
#define EXP_LEN 20
#define NSNAP 7

struct vals { u8 lvl, alg, p0, p1, ua, ub; };
static void draw(struct vals *v) { v->lvl = 3; v->alg = 1; v->p0 = 0x12; v->p1 = 0x34; v->ua = 'a'; v->ub = 'b'; }
static void mk_bytes(u8 *b, const struct vals *v) {
	b[0] = 0x10; b[1] = 0x12;
	b[2] = 0x01; b[3] = 0x01; b[4] = v->lvl;
	b[5] = 0x02; b[6] = 0x01; b[7] = v->alg;
	b[8] = 0x03; b[9] = 0x02; b[10] = v->p0; b[11] = v->p1;
	b[12] = 0x04; b[13] = 0x02; b[14] = v->ua; b[15] = 0;
	b[16] = 0x04; b[17] = 0x02; b[18] = v->ub; b[19] = 0;
}
static KSI_Config *mk_obj(KSI_CTX *ctx, const struct vals *v) {
	KSI_Config *c = NULL; KSI_Integer *a = NULL, *b = NULL, *p = NULL; KSI_Utf8String *s = NULL; KSI_LIST(KSI_Utf8String) *l = NULL; int res;
	char ua[2] = {(char)v->ua, 0}, ub[2] = {(char)v->ub, 0};
	res = KSI_Config_new(ctx, &c); ASSUME(res == KSI_OK);
	res = KSI_Integer_new(ctx, v->lvl, &a); ASSUME(res == KSI_OK);
	res = KSI_Integer_new(ctx, v->alg, &b); ASSUME(res == KSI_OK);
	res = KSI_Integer_new(ctx, (KSI_uint64_t)v->p0 << 8 | v->p1, &p); ASSUME(res == KSI_OK);
	res = KSI_Utf8StringList_new(&l); ASSUME(res == KSI_OK);
	res = KSI_Utf8String_new(ctx, ua, 2, &s); ASSUME(res == KSI_OK);
	res = KSI_Utf8StringList_append(l, s); ASSUME(res == KSI_OK);
	s = NULL;
	res = KSI_Utf8String_new(ctx, ub, 2, &s); ASSUME(res == KSI_OK);
	res = KSI_Utf8StringList_append(l, s); ASSUME(res == KSI_OK);
	res = KSI_Config_setMaxLevel(c, a); ASSUME(res == KSI_OK);
	res = KSI_Config_setAggrAlgo(c, b); ASSUME(res == KSI_OK);
	res = KSI_Config_setAggrPeriod(c, p); ASSUME(res == KSI_OK);
	res = KSI_Config_setParentUri(c, l); ASSUME(res == KSI_OK);
	return c;
}
static int str_is(KSI_Utf8String *s, u8 ch) {
	if (s == NULL || KSI_Utf8String_size(s) != 2) return 0;
	const char *c = KSI_Utf8String_cstr(s);
	return c[0] == (char)ch && c[1] == 0;
}
static int obj_matches(KSI_Config *c, const struct vals *v) {
	KSI_Integer *a = NULL, *b = NULL, *p = NULL, *x = NULL; KSI_LIST(KSI_Utf8String) *l = NULL; KSI_Utf8String *s0 = NULL, *s1 = NULL;
	if (c == NULL) return 0;
	if (KSI_Config_getMaxLevel(c, &a) != KSI_OK || KSI_Config_getAggrAlgo(c, &b) != KSI_OK || KSI_Config_getAggrPeriod(c, &p) != KSI_OK
		|| KSI_Config_getParentUri(c, &l) != KSI_OK) return 0;
	if (a == NULL || b == NULL || p == NULL || l == NULL) return 0;
	if (KSI_Config_getMaxRequests(c, &x) != KSI_OK || x != NULL) return 0;
	if (KSI_Utf8StringList_length(l) != 2) return 0;
	if (KSI_Utf8StringList_elementAt(l, 0, &s0) != KSI_OK || KSI_Utf8StringList_elementAt(l, 1, &s1) != KSI_OK) return 0;
	return KSI_Integer_getUInt64(a) == v->lvl && KSI_Integer_getUInt64(b) == v->alg && KSI_Integer_getUInt64(p) == ((KSI_uint64_t)v->p0 << 8 | v->p1)
		&& str_is(s0, v->ua) && str_is(s1, v->ub);      /* list members in input order */
}
static void obj_snap(KSI_Config *c, void **s) {
	KSI_Integer *a = NULL, *b = NULL, *p = NULL; KSI_LIST(KSI_Utf8String) *l = NULL; KSI_Utf8String *s0 = NULL, *s1 = NULL;
	KSI_Config_getMaxLevel(c, &a); KSI_Config_getAggrAlgo(c, &b); KSI_Config_getAggrPeriod(c, &p); KSI_Config_getParentUri(c, &l);
	if (l != NULL) { KSI_Utf8StringList_elementAt(l, 0, &s0); KSI_Utf8StringList_elementAt(l, 1, &s1); }
	s[0] = a; s[1] = b; s[2] = p; s[3] = l; s[4] = s0; s[5] = s1; s[6] = (l != NULL) ? (void *)(size_t)KSI_Utf8StringList_length(l) : NULL;
}
#include "c19_tmpl_body.h"
