/* vsnprintf model for CBMC (DESIGN 3.6) - used where the composed URL is the subject (C20).
 * The real KSI_snprintf / KSI_vsnprintf (compatibility.c) run on top of it.  Supported: literal characters,
 * %%, %s, %c, %d, %u (no flags / width / precision - the only directives net.c:uriCompose uses); anything
 * else trips the assertion "vsnprintf model domain".  C99 semantics for the return value (length the complete
 * output would have) and truncation to n-1 characters.
 *
 * TEXT STORE.  libksi composes service URLs into a 64 KiB stack buffer by a sequence of
 * KSI_snprintf(buf + count, len - count, ...) calls whose offsets `count` are sums of string lengths.  For
 * CBMC those lengths are symbolic values, and stores at symbolic offsets into a 64 KiB array exhaust memory
 * (measured; array theory does not help).  The model therefore keeps the formatted text in a small side array
 * (C20_TEXT_MAX characters) keyed by the destination object (strlen() on that object is answered from the side array too): the first call on a new destination object
 * records it as the base; every call writes its output at offset (buf - base) of the side array.  The
 * destination object itself only receives its very first character (so that "is the buffer non-empty" tests
 * still see the truth); all other bytes of it stay unconstrained.  Harness stubs that are handed a pointer by
 * the code under test read the text through C20_fmt_text(), which returns the side array's content when the
 * pointer lies in the recorded destination object and the pointed-to bytes otherwise.
 * Consequences, stated in the manifest: (1) the claim "text handed to the transport" is made at
 * C20_fmt_text(); (2) code that re-reads a composed buffer directly sees unconstrained bytes beyond the first
 * character - it can fail a check spuriously but cannot pass one by accident; (3) the composed text must fit
 * C20_TEXT_MAX characters (asserted: "vsnprintf model domain: composed text fits the text store").
 *
 * Under -DREPLAY only C20_fmt_text() remains (a plain bounded copy): native replays use glibc's vsnprintf, so a
 * divergence between model and glibc on a counterexample surfaces as MODEL-MISMATCH.  A one-off native
 * differential test of the formatting core against glibc is recorded in harness/C20/MUTATIONS.md. */
#include <stddef.h>
#ifndef C20_TEXT_MAX
#define C20_TEXT_MAX 64
#endif
#ifndef C20_FMT_MAXSTR
#define C20_FMT_MAXSTR 48
#endif

#ifdef REPLAY
void C20_fmt_text(const char *p, char *out, unsigned max) {
	int end = 0;
	for (unsigned i = 0; i < max; i++) { if (!end) { out[i] = p[i]; if (p[i] == 0) end = 1; } else out[i] = 0; }
	if (max > 0 && !end) out[max - 1] = 0;
}
#else
#include <stdarg.h>
static const char *c20_base;            /* destination object of the composition in progress */
static char c20_text[C20_TEXT_MAX];

/* core: format into dst[0..cap) (dst is the side array window), return the untruncated length */
static void c20_put(size_t off, size_t n, size_t *pos, char c) {
	/* C99: only the first n-1 characters are stored */
	if (n > 0 && *pos < n - 1) {
		__CPROVER_assert(off + *pos < C20_TEXT_MAX - 1, "vsnprintf model domain: composed text fits the text store");
		c20_text[off + *pos] = c;
	}
	(*pos)++;
}

int vsnprintf(char *buf, size_t n, const char *fmt, va_list ap) {
	size_t pos = 0, off;
	unsigned fi = 0;
	__CPROVER_assert(buf != NULL || n == 0, "vsnprintf model domain: destination");
	int fresh = 0;
	if (c20_base == NULL || !__CPROVER_same_object(buf, c20_base)) {
		c20_base = buf; fresh = 1;
		for (unsigned i = 0; i < C20_TEXT_MAX; i++) c20_text[i] = 0;
	}
	__CPROVER_assert(buf >= c20_base, "vsnprintf model domain: a composition proceeds forward from its first destination");
	off = (size_t)(buf - c20_base);
	for (unsigned guard = 0; guard < 64; guard++) {
		char f = fmt[fi];
		if (f == 0) break;
		fi++;
		if (f != '%') { c20_put(off, n, &pos, f); continue; }
		char d = fmt[fi++];
		if (d == '%') { c20_put(off, n, &pos, '%'); }
		else if (d == 'c') { int c = va_arg(ap, int); c20_put(off, n, &pos, (char)c); }
		else if (d == 's') {
			const char *s = va_arg(ap, const char *);
			__CPROVER_assert(s != NULL, "vsnprintf model domain: %s argument is not NULL");
			int end = 0;
			for (unsigned i = 0; i < C20_FMT_MAXSTR + 1; i++) {
				if (!end && s[i] == 0) end = 1;
				if (!end) { __CPROVER_assert(i < C20_FMT_MAXSTR, "vsnprintf model domain: string argument within the modelled length"); c20_put(off, n, &pos, s[i]); }
			}
		}
		else if (d == 'd' || d == 'u') {
			unsigned long v; int neg = 0;
			if (d == 'd') { int x = va_arg(ap, int); if (x < 0) { neg = 1; v = (unsigned long)(-(long)x); } else v = (unsigned long)x; }
			else v = va_arg(ap, unsigned);
			char tmp[10]; unsigned nd = 0;
			for (unsigned i = 0; i < 10; i++) if (i == 0 || v != 0) { tmp[i] = (char)('0' + v % 10); v /= 10; nd = i + 1; }
			if (neg) c20_put(off, n, &pos, '-');
			for (unsigned i = 0; i < 10; i++) if (i < nd) c20_put(off, n, &pos, tmp[nd - 1 - i]);
		}
		else { __CPROVER_assert(0, "vsnprintf model domain: supported directive"); }
	}
	if (n > 0) {
		size_t t = pos < n - 1 ? pos : n - 1;
		__CPROVER_assert(off + t < C20_TEXT_MAX, "vsnprintf model domain: composed text fits the text store");
		c20_text[off + t] = 0;
		if (fresh) buf[0] = c20_text[0];                /* the destination object itself only gets its first character */
	}
	return (int)pos;
}

/* strlen on a composed buffer answers from the text store (net_async.c tests strlen(addr)); on any other object it is
 * the plain loop (bounded by C20_STRLEN_MAX, asserted) */
#ifndef C20_STRLEN_MAX
#define C20_STRLEN_MAX 70
#endif
size_t strlen(const char *s) {
	size_t len = 0; int end = 0;
	if (c20_base != NULL && __CPROVER_same_object(s, c20_base)) {
		__CPROVER_assert(s >= c20_base, "vsnprintf model domain: text is read at or after the start of the composition");
		size_t off = (size_t)(s - c20_base);
		for (unsigned i = 0; i < C20_TEXT_MAX; i++) if (!end) { if (off + i >= C20_TEXT_MAX || c20_text[off + i] == 0) end = 1; else len++; }
	} else {
		for (unsigned i = 0; i < C20_STRLEN_MAX + 1; i++) if (!end) {
			if (s[i] == 0) end = 1;
			else { __CPROVER_assert(i < C20_STRLEN_MAX, "strlen model: string within the modelled length"); len++; }
		}
	}
	return len;
}

void C20_fmt_text(const char *p, char *out, unsigned max) {
	if (c20_base != NULL && __CPROVER_same_object(p, c20_base)) {
		__CPROVER_assert(p >= c20_base, "vsnprintf model domain: text is read at or after the start of the composition");
		size_t off = (size_t)(p - c20_base);
		int end = 0;
		for (unsigned i = 0; i < max; i++) {
			char c = (off + i < C20_TEXT_MAX) ? c20_text[off + i] : 0;
			if (!end) { out[i] = c; if (c == 0) end = 1; } else out[i] = 0;
		}
	} else {
		int end = 0;
		for (unsigned i = 0; i < max; i++) { if (!end) { out[i] = p[i]; if (p[i] == 0) end = 1; } else out[i] = 0; }
	}
	if (max > 0) out[max - 1] = 0;
}
#endif
