#!/bin/sh
# usage: engine/mkscratch.sh <dir> [git-rev]   - scratch worktree of /repo (with the generated headers) for
# mutation tests / trying a fix:  VERIF_REPO=<dir> python3 engine/ksicheck.py ...
# remove afterwards with: git -C /repo worktree remove --force <dir>
set -e
d="$1"; rev="${2:-HEAD}"
git -C /repo worktree add -q --detach "$d" "$rev"
for f in config.h version.h; do cp /repo/src/ksi/$f "$d/src/ksi/$f"; done
echo "scratch worktree at $d ($rev)"
