/* C07 H-3: KSI_AggregationResp_verifyWithRequest (types.c) against the predicate
 *     KSI_OK  <=>  request present  and  both carry a request id  and  the two 64-bit ids are equal;
 *     otherwise KSI_REQUEST_ID_MISMATCH (KSI_INVALID_ARGUMENT for a missing request / response).
 * The status code of the response is deliberately NOT part of this function (it is converted and refused in
 * KSI_SignatureBuilder_openFromAggregationResp, C07 H-4, and in handleResponse, C07 H-5); the harness gives the response
 * an arbitrary status to show the verdict does not depend on it.
 * Shape (concrete per instance): which of the two ids exist / are the same object (IDS: 0 both distinct objects,
 * 1 response id missing, 2 request id missing, 3 both missing, 4 same object), request / response missing. */
#include "verif.h"
#include "internal.h"
#include "ctx.h"
#include "tlv.h"
#include "hmac.h"
#include "tlv_template.h"
#include "hashchain.h"
#include "pkitruststore.h"
#include "net.h"
#include "net_async.h"
#include "net_ha.h"
#include "tlv_element.h"
#include "impl/ctx_impl.h"
#include "impl/meta_data_impl.h"
#include "impl/meta_data_element_impl.h"
#include "verif_post.h"
#include "types_base.c"
#include "types.c"

#ifndef IDS
#define IDS 0
#endif
#ifndef NOREQ
#define NOREQ 0
#endif
#ifndef NORESP
#define NORESP 0
#endif
#ifndef NOSTATUS
#define NOSTATUS 0    /* 1: the response has no status element at all */
#endif
static KSI_Integer *mk_int(u64 v) { KSI_Integer *i = malloc(sizeof(*i)); ASSUME(i != NULL); i->ref = 1; i->value = v; return i; }

void harness(void) {
	VERIF_ctx_init();
	KSI_CTX *ctx = VERIF_ctx;
	int res;
	KSI_AggregationResp *resp = NULL; KSI_AggregationReq *req = NULL;
	res = KSI_AggregationResp_new(ctx, &resp); ASSUME(res == KSI_OK);
	res = KSI_AggregationReq_new(ctx, &req); ASSUME(res == KSI_OK);
	u64 a = ND(u64, resp_id), b = ND(u64, req_id);
#if !NOSTATUS
	resp->status = mk_int(ND(u64, resp_status));
#endif
#if IDS == 0
	resp->requestId = mk_int(a); req->requestId = mk_int(b);
#elif IDS == 1
	req->requestId = mk_int(b);
#elif IDS == 2
	resp->requestId = mk_int(a);
#elif IDS == 4
	resp->requestId = mk_int(a); req->requestId = resp->requestId; b = a;
#endif
	res = KSI_AggregationResp_verifyWithRequest(NORESP ? NULL : resp, NOREQ ? NULL : req);
#if NORESP || NOREQ
	CHECK(res == KSI_INVALID_ARGUMENT, "C07.H3 a missing response or request is an error");
	WITNESS_POINT("missing request or response refused");
#elif IDS == 0 || IDS == 4
	CHECK((res == KSI_OK) == (a == b), "C07.H3 accepted iff the response's request id equals the request's id (64 bit)");
	if (a != b) CHECK(res == KSI_REQUEST_ID_MISMATCH, "C07.H3 differing ids are reported as KSI_REQUEST_ID_MISMATCH");
#if IDS == 0
	if (res != KSI_OK && (a ^ b) == (1ULL << 63)) WITNESS_POINT("ids differing only in bit 63 refused");
	if (res != KSI_OK && (a ^ b) == 1) WITNESS_POINT("ids differing only in bit 0 refused");
	if (res == KSI_OK && a > 0xffffffffULL) WITNESS_POINT("equal ids above 32 bit accepted");
#else
	WITNESS_POINT("shared id object accepted");
#endif
#else
	CHECK(res == KSI_REQUEST_ID_MISMATCH, "C07.H3 a response or request without request id never matches");
	WITNESS_POINT("missing id refused");
#endif
}
