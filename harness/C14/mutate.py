#!/usr/bin/env python3
"""C14 mutation runner (see MUTATIONS.md): python3 mutate.py [ids...]
needs a scratch worktree: engine/mkscratch.sh /tmp/c14mut; results -> /tmp/c14t/mut_results.json"""
import subprocess, sys, re, json, os
WT = "/tmp/c14mut"
A = "src/ksi/net_tcp_async.c"; F = "src/ksi/fast_tlv.c"; I = "src/ksi/io.c"; T = "src/ksi/net_tcp.c"
MUTS = [
 ("M01", A, "memmove source offset slips by one", "memmove(tcpCtx->inBuf, tcpCtx->inBuf + count, tcpCtx->inLen);", "memmove(tcpCtx->inBuf, tcpCtx->inBuf + count + 1, tcpCtx->inLen);", "h1_recv.m12conc"),
 ("M02", A, "memmove moves one byte too few", "memmove(tcpCtx->inBuf, tcpCtx->inBuf + count, tcpCtx->inLen);", "memmove(tcpCtx->inBuf, tcpCtx->inBuf + count, tcpCtx->inLen > 0 ? tcpCtx->inLen - 1 : 0);", "h1_recv.m12conc"),
 ("M03", A, "remainder moved before the element is copied out (memmove before KSI_OctetString_new)", "			res = KSI_OctetString_new(tcpCtx->ctx, tcpCtx->inBuf, count, &resp);", "			memmove(tcpCtx->inBuf, tcpCtx->inBuf + count, tcpCtx->inLen - count);\n			res = KSI_OctetString_new(tcpCtx->ctx, tcpCtx->inBuf, count, &resp);", "h1_recv.m12conc"),
 ("M04", A, "recv is offered the whole buffer size instead of one maximal PDU (reads when less than the offered size fits)", "c = recv(tcpCtx->sockfd, (tcpCtx->inBuf + tcpCtx->inLen), KSI_TLV_MAX_SIZE, 0);", "c = recv(tcpCtx->sockfd, (tcpCtx->inBuf + tcpCtx->inLen), sizeof(tcpCtx->inBuf), 0);", "h1_recv.m12c1A,h1_recv.m12t0A"),
 ("M05", A, "complete-element test off by one (inLen > count)", "if (count != 0 && tcpCtx->inLen >= count) {", "if (count != 0 && tcpCtx->inLen > count) {", "h1_recv.m12c1A"),
 ("M06", A, "element size without the header", "count = ftlv.hdr_len + ftlv.dat_len;", "count = ftlv.dat_len;", "h1_recv.m12conc"),
 ("M07", A, "closeSocket keeps the partial input", "		tcpCtx->inLen = 0;\n	}\n}", "	}\n}", "h1_recv.m12x1A,h1_recv.m12t0A"),
 ("M08", A, "peer close treated like would-block", "					closeSocket(tcpCtx, __LINE__);\n					res = KSI_ASYNC_CONNECTION_CLOSED;\n					goto cleanup;\n				} else if (c == KSI_SCK_SOCKET_ERROR) {", "					inputProcessed = true;\n				} else if (c == KSI_SCK_SOCKET_ERROR) {", "h1_recv.m12x1A,h1_recv.m12t0A"),
 ("M09", A, "fill level overwritten instead of advanced", "tcpCtx->inLen += c;", "tcpCtx->inLen = c;", "h1_recv.m12c1A"),
 ("M10", A, "recv always writes at the start of the buffer", "c = recv(tcpCtx->sockfd, (tcpCtx->inBuf + tcpCtx->inLen), KSI_TLV_MAX_SIZE, 0);", "c = recv(tcpCtx->sockfd, tcpCtx->inBuf, KSI_TLV_MAX_SIZE, 0);", "h1_recv.m12conc"),
 ("M11", A, "read condition ignores the fill level (reads even when a maximal PDU no longer fits)", "if ((tcpCtx->inLen + KSI_TLV_MAX_SIZE) <= sizeof(tcpCtx->inBuf)) {", "if (1) {", "h1_recv.m12c1A,h1_recv.m12c1B,h1_recv.m12c2B"),
 ("M12", A, "sentCount reset on would-block", "							(unsigned)req->sentCount, (unsigned)req->len, KSI_SCK_errno, KSI_SCK_strerror(KSI_SCK_errno));\n					goto cleanup;", "							(unsigned)req->sentCount, (unsigned)req->len, KSI_SCK_errno, KSI_SCK_strerror(KSI_SCK_errno));\n					req->sentCount = 0;\n					goto cleanup;", "h2_send.f1"),
 ("M13", A, "send ignores sentCount for the offset", "c = send(tcpCtx->sockfd, (char *) req->raw + req->sentCount, req->len - req->sentCount, 0);", "c = send(tcpCtx->sockfd, (char *) req->raw, req->len - req->sentCount, 0);", "h2_send.base"),
 ("M14", A, "send offers len instead of the remaining bytes", "c = send(tcpCtx->sockfd, (char *) req->raw + req->sentCount, req->len - req->sentCount, 0);", "c = send(tcpCtx->sockfd, (char *) req->raw + req->sentCount, req->len, 0);", "h2_send.base"),
 ("M15", A, "request dequeued as soon as anything was sent", "		if (req->sentCount == req->len) {\n			tcpCtx->roundCount++;", "		if (req->sentCount > 0) {\n			tcpCtx->roundCount++;", "h2_send.base,h2_send.f1"),
 ("M16", A, "hard send error does not close the socket", "Unable to write to socket. Error: %d (%s).\", tcpCtx,\n\t\t\t\t\t\t\tKSI_SCK_errno, KSI_SCK_strerror(KSI_SCK_errno));\n\t\t\t\t\tcloseSocket(tcpCtx, __LINE__);", "Unable to write to socket. Error: %d (%s).\", tcpCtx,\n\t\t\t\t\t\t\tKSI_SCK_errno, KSI_SCK_strerror(KSI_SCK_errno));", "h2_send.base"),
 ("M17", A, "round limit not enforced", "if (!(tcpCtx->roundCount < tcpCtx->parent->options[KSI_ASYNC_OPT_MAX_REQUEST_COUNT])) {", "if (0) {", "h2_send.base"),
 ("M18", A, "second request sent before the head (queue order)", "KSI_AsyncHandleList_elementAt(tcpCtx->reqQueue, 0, &req) == KSI_OK && req != NULL) {", "KSI_AsyncHandleList_elementAt(tcpCtx->reqQueue, KSI_AsyncHandleList_length(tcpCtx->reqQueue) - 1, &req) == KSI_OK && req != NULL) {", "h2_send.base"),
 ("M20", F, "payload read asks for one byte more than declared", "res = read_fn(fd, datap, t->dat_len, &rd);", "res = read_fn(fd, datap, t->dat_len + 1, &rd);", "h3_sockread.n3,h3_readresp.e4_mixed,h3_lenarith"),
 ("M21", F, "header read as 4 bytes at once (payload consumed before the form is known)", "	res = read_fn(fd, buf, 2, &rd);\n	count += rd;\n	if (res != KSI_OK) goto cleanup;\n\n	if (rd != 2) {", "	res = read_fn(fd, buf, len < 4 ? 2 : 4, &rd);\n	count += rd;\n	if (res != KSI_OK) goto cleanup;\n\n	if (rd < 2) {", "h3_sockread.n4,h3_readresp.e1_whole,h3_lenarith"),
 ("M22", I, "read pointer not advanced", "		len -= c;\n		ptr += c;", "		len -= c;", "h3_sockread.n4,h3_readresp.e2_bytes"),
 ("M23", I, "peer close treated as end of data (success)", "		if (c == 0) {\n			/* Connection closed from server side. */\n			res = KSI_NETWORK_ERROR;\n			goto cleanup;", "		if (c == 0) {\n			/* Connection closed from server side. */\n			break;", "h3_sockread.n4,h3_readresp.e4_f3_eof"),
 ("M24", I, "remaining length not decreased", "		len -= c;\n		ptr += c;", "		ptr += c;", "h3_sockread.n3,h3_readresp.e2_bytes"),
 ("M25", T, "response copied one byte short", "	memcpy(handle->response, buffer, count);", "	memcpy(handle->response, buffer, count - 1);", "h3_readresp.e4_mixed,h3_readresp.e1_whole"),
 ("M26", T, "send loop ignores what was already written", "send(sockfd, (char *) handle->request + count, handle->request_length - count, 0));\n#endif", "send(sockfd, (char *) handle->request, handle->request_length - count, 0));\n#endif", "h3_readresp.e2_bytes,h3_readresp.e4_eintr"),
 ("M27", T, "read error ignored when some bytes arrived (partial PDU delivered)", "	if (res != KSI_OK) {\n		KSI_pushError(handle->ctx, res, \"Failed to read TLV from socket.\");", "	if (res != KSI_OK && count == 0) {\n		KSI_pushError(handle->ctx, res, \"Failed to read TLV from socket.\");", "h3_readresp.e4_f3_eof,h3_readresp.e4_f0_eof"),
 ("M28", F, "short payload read not checked", "		if (rd != t->dat_len) {\n			res = KSI_INVALID_FORMAT;\n			goto cleanup;\n		}", "", "h3_sockread.n4,h3_lenarith"),
 ("M29", T, "socket not closed after a failed read", "	if (sockfd >= 0) {\n		KSI_SCK_TEMP_FAILURE_RETRY(rc, close(sockfd));", "	if (sockfd >= 0 && res == KSI_OK) {\n		KSI_SCK_TEMP_FAILURE_RETRY(rc, close(sockfd));", "h3_readresp.e4_f3_eof,h3_readresp.e4_mixed"),
]
def sh(c, **k): return subprocess.run(c, shell=True, capture_output=True, text=True, **k)
def main():
    ids = sys.argv[1:]
    res = {}
    if os.path.exists("/tmp/c14t/mut_results.json"): res = json.load(open("/tmp/c14t/mut_results.json"))
    for (mid, f, what, old, new, only) in MUTS:
        if ids and mid not in ids: continue
        sh("git -C %s checkout -q -- . && git -C %s apply /verif/harness/C14/hook.diff" % (WT, WT))
        p = os.path.join(WT, f); s = open(p).read()
        if s.count(old) != 1:
            print(mid, "PATTERN COUNT", s.count(old)); continue
        open(p, "w").write(s.replace(old, new))
        r = sh("cd /verif && VERIF_REPO=%s python3 engine/ksicheck.py C14 --only %s --jobs 6 2>&1" % (WT, only))
        out = r.stdout
        viol = sorted(set(re.findall(r"check=(CHECK [^(]*?) \(", out)))
        stat = re.findall(r"^\[C14\] (\S+)\s+(\S+)", out, re.M)
        bad = [(a, b) for a, b in stat if b != "ok"]
        nviol = out.count("VIOLATION property")
        mm = out.count("MODEL-MISMATCH")
        res[mid] = {"file": f, "what": what, "only": only, "violations": nviol, "checks": viol, "nonok": bad, "mismatch": mm}
        print(mid, what, "->", "CAUGHT" if nviol else "MISSED", nviol, viol[:4], bad[:3], "mismatch=%d" % mm, flush=True)
        json.dump(res, open("/tmp/c14t/mut_results.json", "w"), indent=1)
    sh("git -C %s checkout -q -- . && git -C %s apply /verif/harness/C14/hook.diff" % (WT, WT))
main()
