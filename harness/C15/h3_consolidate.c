/* C15 H-3: KSI_HighAvailabilityService_consolidateConfig == field-wise consolidation of the pushed
 * configurations restricted to the documented ranges, independent of the arrival order.
 *
 *   reference (written from the property text / the SDK's documented ranges, not from net_ha.c):
 *     max level        = largest  value v with 1 <= v <= 20
 *     aggregation period = smallest value v with 100 <= v <= 20000   (ms)
 *     max requests     = largest  value v with 1 <= v <= 16000
 *     calendar first   = earliest value v with v >= 1136073600       (2006-01-01)
 *     calendar last    = latest   value v with v >= 1136073600
 *     a field for which no configuration carried an in-range value stays absent.
 *
 * NCFG configurations; every numeric field of every configuration is independently absent or any
 * 64-bit value.  Service A consumes them in order 0..NCFG-1, service B in a symbolic permutation;
 * both must equal the reference (and therefore each other; A == B is also asserted directly).
 *
 * Real code: net_ha.c (KSI_AbstractHighAvailabilityService_new, consolidateConfig and the six field
 * consolidators, range predicates), types.c (KSI_Config), types_base.c (KSI_Integer), list.c.
 * Stubs (trusted base): KSI_isHashAlgorithmTrusted / KSI_getHashAlgorithmName (the hash-algorithm
 * field is "last trusted value wins" by design and is not part of the order-independence claim; it is
 * present in the inputs so that its consolidator runs, and it is checked against that rule). */
#include "verif.h"
#include "internal.h"
#include "net_ha.h"
#include "net_async.h"
#include "ctx.h"
#include "verif_post.h"
#include "types_base.c"   /* struct KSI_Integer_st is private to it */
#include "net_ha.c"

#ifndef NCFG
#define NCFG 2
#endif
#define NF 5   /* level, period, requests, first, last */

/* ---- stubs ---- */
static int stub_trusted[NCFG * 2];
static unsigned stub_trusted_calls;
int KSI_isHashAlgorithmTrusted(KSI_HashAlgorithm algo_id) {
	(void)algo_id;
	int r = ND_BOOL(alg_trusted);
	if (stub_trusted_calls < NCFG * 2) stub_trusted[stub_trusted_calls] = r;
	stub_trusted_calls++;
	return r;
}
const char *KSI_getHashAlgorithmName(KSI_HashAlgorithm id) { (void)id; return "alg"; }

/* ---- helpers ---- */
/* KSI_Integer built as KSI_Integer_new builds it for values outside the shared small-integer pool
 * (types_base.c:634-641).  Values < 256 would come from the static pool (never freed, KSI_Integer_free
 * ignores them by value); a heap object carrying such a value is treated identically by every function
 * used here (getUInt64, compare, free-by-value-test), it is merely not released.  Avoiding the pool
 * keeps the integer pointers concrete (a symbolic offset into the 256-entry pool cost 82 M clauses). */
static KSI_Integer *mkint(KSI_CTX *ctx, int present, u64 v) {
	(void)ctx;
	if (!present) return NULL;
	KSI_Integer *o = KSI_new(KSI_Integer);
	ASSUME(o != NULL);
	o->value = v;
	o->ref = 1;
	return o;
}

static KSI_Config *mkcfg(KSI_CTX *ctx, const _Bool *pr, const u64 *v, int algPresent, u64 alg) {
	KSI_Config *c = NULL;
	int res = KSI_Config_new(ctx, &c);
	ASSUME(res == KSI_OK && c != NULL);
	res = KSI_Config_setMaxLevel(c, mkint(ctx, pr[0], v[0])); ASSUME(res == KSI_OK);
	res = KSI_Config_setAggrPeriod(c, mkint(ctx, pr[1], v[1])); ASSUME(res == KSI_OK);
	res = KSI_Config_setMaxRequests(c, mkint(ctx, pr[2], v[2])); ASSUME(res == KSI_OK);
	res = KSI_Config_setCalendarFirstTime(c, mkint(ctx, pr[3], v[3])); ASSUME(res == KSI_OK);
	res = KSI_Config_setCalendarLastTime(c, mkint(ctx, pr[4], v[4])); ASSUME(res == KSI_OK);
	res = KSI_Config_setAggrAlgo(c, mkint(ctx, algPresent, alg)); ASSUME(res == KSI_OK);
	return c;
}

struct snap { _Bool has[NF]; u64 v[NF]; _Bool hasAlg; u64 alg; };

static void snapshot(KSI_Config *c, struct snap *s) {
	KSI_Integer *i = NULL;
	int res;
	res = KSI_Config_getMaxLevel(c, &i); ASSUME(res == KSI_OK); s->has[0] = (i != NULL); s->v[0] = KSI_Integer_getUInt64(i);
	res = KSI_Config_getAggrPeriod(c, &i); ASSUME(res == KSI_OK); s->has[1] = (i != NULL); s->v[1] = KSI_Integer_getUInt64(i);
	res = KSI_Config_getMaxRequests(c, &i); ASSUME(res == KSI_OK); s->has[2] = (i != NULL); s->v[2] = KSI_Integer_getUInt64(i);
	res = KSI_Config_getCalendarFirstTime(c, &i); ASSUME(res == KSI_OK); s->has[3] = (i != NULL); s->v[3] = KSI_Integer_getUInt64(i);
	res = KSI_Config_getCalendarLastTime(c, &i); ASSUME(res == KSI_OK); s->has[4] = (i != NULL); s->v[4] = KSI_Integer_getUInt64(i);
	res = KSI_Config_getAggrAlgo(c, &i); ASSUME(res == KSI_OK); s->hasAlg = (i != NULL); s->alg = KSI_Integer_getUInt64(i);
}

static int snap_eq(const struct snap *a, const struct snap *b) {
	int eq = 1;
	for (int f = 0; f < NF; f++) {
		if (a->has[f] != b->has[f]) eq = 0;
		if (a->has[f] && b->has[f] && a->v[f] != b->v[f]) eq = 0;
	}
	return eq;
}

/* ---- reference ---- */
static int in_range(int f, u64 v) {
	switch (f) {
		case 0: return v >= 1 && v <= 20;
		case 1: return v >= 100 && v <= 20000;
		case 2: return v >= 1 && v <= 16000;
		default: return v >= 1136073600ull;
	}
}
static int takes_max(int f) { return f == 0 || f == 2 || f == 4; }

static void ref_add(struct snap *r, const _Bool *pr, const u64 *v) {
	for (int f = 0; f < NF; f++) {
		if (pr[f] && in_range(f, v[f])) {
			if (!r->has[f]) { r->has[f] = 1; r->v[f] = v[f]; }
			else if (takes_max(f) ? (v[f] > r->v[f]) : (v[f] < r->v[f])) r->v[f] = v[f];
		}
	}
}

void harness(void) {
	VERIF_ctx_init();
	KSI_CTX *ctx = VERIF_ctx;
	int res;

	/* symbolic inputs */
	_Bool pr[NCFG][NF]; u64 val[NCFG][NF];
#ifdef WITH_ALGO
	_Bool algPr[NCFG];
#endif
	u64 algV[NCFG];
	for (int i = 0; i < NCFG; i++) {
		for (int f = 0; f < NF; f++) { pr[i][f] = ND_BOOL(present); val[i][f] = ND(u64, value); }
#ifdef WITH_ALGO
		algPr[i] = ND_BOOL(alg_present);
		algV[i] = ND(u64, alg_value);
#else
		algV[i] = 0;
#endif
	}
	/* arrival order at service B: a permutation of 0..NCFG-1 */
	unsigned perm[NCFG];
	for (int i = 0; i < NCFG; i++) { perm[i] = ND(unsigned, perm); ASSUME(perm[i] < NCFG); }
	for (int i = 0; i < NCFG; i++) for (int j = 0; j < i; j++) ASSUME(perm[i] != perm[j]);

	KSI_HighAvailabilityService *hasA = NULL, *hasB = NULL;
	res = KSI_AbstractHighAvailabilityService_new(ctx, &hasA); ASSUME(res == KSI_OK);
	res = KSI_AbstractHighAvailabilityService_new(ctx, &hasB); ASSUME(res == KSI_OK);

	struct snap ref; memset(&ref, 0, sizeof(ref));
	struct snap before, after;
	int anyRejected = 0, anyAccepted = 0, anyReplaced = 0;
	_Bool refHasAlg = 0; u64 refAlg = 0;

	/* ---- service A: order 0..NCFG-1, checked against the reference after every step ---- */
	for (int i = 0; i < NCFG; i++) {
#ifdef WITH_ALGO
		KSI_Config *c = mkcfg(ctx, pr[i], val[i], algPr[i], algV[i]);
		unsigned callsBefore = stub_trusted_calls;
#else
		KSI_Config *c = mkcfg(ctx, pr[i], val[i], 0, 0);
#endif
		bool updated = false;
		snapshot(hasA->consolidatedConfig, &before);
		res = KSI_HighAvailabilityService_consolidateConfig(hasA, c, &updated);
		CHECK(res == KSI_OK, "C15.H3 consolidation of a well-formed configuration succeeds");
		snapshot(hasA->consolidatedConfig, &after);
		struct snap refBefore = ref;
		ref_add(&ref, pr[i], val[i]);

		CHECK(after.has[0] == ref.has[0] && (!ref.has[0] || after.v[0] == ref.v[0]), "C15.H3 max level = largest pushed value within 1..20, out-of-range values ignored");
		CHECK(after.has[1] == ref.has[1] && (!ref.has[1] || after.v[1] == ref.v[1]), "C15.H3 aggregation period = smallest pushed value within 100..20000, out-of-range values ignored");
		CHECK(after.has[2] == ref.has[2] && (!ref.has[2] || after.v[2] == ref.v[2]), "C15.H3 max requests = largest pushed value within 1..16000, out-of-range values ignored");
		CHECK(after.has[3] == ref.has[3] && (!ref.has[3] || after.v[3] == ref.v[3]), "C15.H3 calendar first time = earliest pushed value >= 1136073600, earlier values ignored");
		CHECK(after.has[4] == ref.has[4] && (!ref.has[4] || after.v[4] == ref.v[4]), "C15.H3 calendar last time = latest pushed value >= 1136073600, earlier values ignored");
		int algAccepted = 0;
#ifdef WITH_ALGO
		/* hash algorithm: a present value the trust predicate accepts replaces the previous one */
		if (algPr[i]) {
			CHECK(stub_trusted_calls == callsBefore + 1, "C15.H3 trust predicate consulted once per pushed hash algorithm");
			if (stub_trusted[callsBefore < NCFG * 2 ? callsBefore : 0]) { refHasAlg = 1; refAlg = algV[i]; algAccepted = 1; }
		}
		CHECK(after.hasAlg == refHasAlg && (!refHasAlg || after.alg == refAlg), "C15.H3 hash algorithm = last pushed value accepted by the trust predicate");
#endif
		CHECK((updated != false) == (!snap_eq(&refBefore, &ref) || algAccepted), "C15.H3 change flag raised exactly when the consolidated configuration changed");

		for (int f = 0; f < NF; f++) {
			if (pr[i][f] && !in_range(f, val[i][f]) && val[i][f] != 0) anyRejected = 1;
			if (pr[i][f] && in_range(f, val[i][f])) anyAccepted = 1;
			if (refBefore.has[f] && ref.v[f] != refBefore.v[f]) anyReplaced = 1;
		}
		KSI_Config_free(c);
	}

	/* ---- service B: permuted order ---- */
	for (int i = 0; i < NCFG; i++) {
		_Bool p[NF]; u64 v[NF];
		for (int f = 0; f < NF; f++) { p[f] = 0; v[f] = 0; }
		for (int k = 0; k < NCFG; k++) if (perm[i] == (unsigned)k) {
			for (int f = 0; f < NF; f++) { p[f] = pr[k][f]; v[f] = val[k][f]; }
		}
		KSI_Config *c = mkcfg(ctx, p, v, 0, 0);
		bool updated = false;
		res = KSI_HighAvailabilityService_consolidateConfig(hasB, c, &updated);
		CHECK(res == KSI_OK, "C15.H3 consolidation succeeds (permuted order)");
		KSI_Config_free(c);
	}
	struct snap finA, finB;
	snapshot(hasA->consolidatedConfig, &finA);
	snapshot(hasB->consolidatedConfig, &finB);
	CHECK(snap_eq(&finB, &ref), "C15.H3 permuted arrival order yields the reference consolidation");
	CHECK(snap_eq(&finA, &finB), "C15.H3 consolidated numeric fields do not depend on the arrival order");

	if (anyRejected && anyAccepted) WITNESS_POINT("an out-of-range value ignored next to an accepted one");
	if (anyReplaced) WITNESS_POINT("a later configuration replaced a consolidated value");
	if (perm[0] != 0 && ref.has[1] && ref.has[4]) WITNESS_POINT("non-identity arrival order with period and last time consolidated");
	if (!ref.has[0] && !ref.has[1] && !ref.has[2] && !ref.has[3] && !ref.has[4] && pr[0][0] && val[0][0] > 20) WITNESS_POINT("nothing in range: consolidated configuration stays empty");

	KSI_HighAvailabilityService_free(hasA);
	KSI_HighAvailabilityService_free(hasB);
}
