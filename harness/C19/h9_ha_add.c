/* C19 H-9: KSI_HighAvailabilityService_addRequest (net_ha.c) under a single allocation failure at the concrete index
 * FAULT_AT, followed by CONTINUED USE with faults disarmed.
 * Scenario: HA signing service (real constructor) with two stub endpoints that accept every forwarded copy; one signing
 * request submitted with the fault armed.  Then, disarmed: if the call failed the caller releases its handle; every
 * copy an endpoint did accept comes back with a valid reply through the real responseHandler / handleReqResponse in
 * service rounds; what is queued is drained and released; a second request is submitted without fault and completed;
 * the service is freed.
 * Checks: error or the correct result (both endpoints got a copy); after an error the user handle is never handed back
 * by the service and the caller's release does not free it under the feet of a forwarded copy; every forwarded copy
 * is released exactly once; the repeated operation succeeds and completes exactly once; CBMC: no use-after-free /
 * double free / leak.  Payload objects: C13 models allocating through KSI_new. */
#define HN "C19.H9"
#define C13_STUBS_NEVER_FAIL 1
#define C13_CREDENTIALS_OK 1
#include "c19.h"
#include "net_ha.h"
#include "net_async.h"
#include "verif_post.h"
#include "c13_model.h"
#include "net_async.c"
#include "net_ha.c"

#define NSUB 2
KSI_IMPLEMENT_LIST(KSI_AsyncHandle, KSI_AsyncHandle_free)
KSI_IMPLEMENT_LIST(KSI_HighAvailabilityRequest, KSI_HighAvailabilityRequest_free)
KSI_IMPLEMENT_LIST(KSI_AsyncService, KSI_AsyncService_free)
int KSI_AbstractAsyncService_new(KSI_CTX *ctx, KSI_AsyncService **service) {
	if (ctx == NULL || service == NULL) return KSI_INVALID_ARGUMENT;
	KSI_AsyncService *s = KSI_new(KSI_AsyncService);
	if (s == NULL) return KSI_OUT_OF_MEMORY;
	memset(s, 0, sizeof(*s)); s->ctx = ctx; *service = s; return KSI_OK;
}
int KSI_isHashAlgorithmTrusted(KSI_HashAlgorithm a) { (void)a; return 1; }
const char *KSI_getHashAlgorithmName(KSI_HashAlgorithm a) { (void)a; return "alg"; }
int KSI_TcpAsyncClient_new(KSI_CTX *ctx, KSI_AsyncClient **c) { (void)ctx; (void)c; return KSI_UNKNOWN_ERROR; }
int KSI_HttpAsyncClient_new(KSI_CTX *ctx, KSI_AsyncClient **c) { (void)ctx; (void)c; return KSI_UNKNOWN_ERROR; }

struct sub { size_t id; KSI_AsyncHandle *held[2]; unsigned nheld, accepted, returned; };
static struct sub subs[NSUB];
static void reply_free(void *p) { KSI_AggregationResp_free((KSI_AggregationResp *)p); }
static int sub_addRequest(void *impl, KSI_AsyncHandle *h) {
	struct sub *s = (struct sub *)impl;
	if (s->nheld >= 2) return KSI_ASYNC_REQUEST_CACHE_FULL;
	s->held[s->nheld++] = h; s->accepted++;
	h->state = KSI_ASYNC_STATE_WAITING_FOR_DISPATCH; h->parentId = s->id;
	return KSI_OK;
}
static int sub_run(void *impl, int (*rh)(void *), KSI_AsyncHandle **handle, size_t *waiting) {
	struct sub *s = (struct sub *)impl; (void)rh;
	if (waiting != NULL) *waiting = s->nheld;
	if (handle == NULL) return KSI_OK;
	*handle = NULL;
	if (s->nheld > 0) {
		KSI_AsyncHandle *h = s->held[0]; s->held[0] = s->held[1]; s->held[1] = NULL; s->nheld--; s->returned++;
		KSI_AggregationResp *r = NULL;
		if (KSI_AggregationResp_new(VERIF_ctx, &r) == KSI_OK) { h->state = KSI_ASYNC_STATE_RESPONSE_RECEIVED; h->respCtx = r; h->respCtx_free = reply_free; }
		else { h->state = KSI_ASYNC_STATE_ERROR; h->err = KSI_OUT_OF_MEMORY; }
		*handle = h;
	}
	return KSI_OK;
}
static int sub_count(void *impl, size_t *n) { struct sub *s = (struct sub *)impl; *n = s->nheld; return KSI_OK; }
static int sub_zero(void *impl, size_t *n) { (void)impl; *n = 0; return KSI_OK; }

static KSI_AsyncHandle *mk_user(KSI_CTX *ctx) {
	KSI_AggregationReq *req = NULL; KSI_AsyncHandle *u = NULL;
	int res = KSI_AggregationReq_new(ctx, &req); ASSUME(res == KSI_OK);
	req->requestHash = (KSI_DataHash *)&c13_dummy_hash;
	res = KSI_AsyncAggregationHandle_new(ctx, req, &u); ASSUME(res == KSI_OK && u != NULL);
	return u;
}

/* rounds + drain: returns how often `user` was handed back; everything handed back is released */
static unsigned pump(KSI_AsyncService *ha, KSI_HighAvailabilityService *has, const KSI_AsyncHandle *user) {
	unsigned got = 0;
	for (unsigned r = 0; r < 6; r++) {
		KSI_AsyncHandle *out = NULL;
		int res = KSI_AsyncService_run(ha, &out, NULL);
		CHECK(res == KSI_OK, HN " a service round after the fault succeeds");
		if (out != NULL) { if (out == user) got++; KSI_AsyncHandle_free(out); }
	}
	CHECK(KSI_AsyncHandleList_length(has->respQueue) == 0 && subs[0].nheld == 0 && subs[1].nheld == 0, HN " everything forwarded has come back and the queue is drained");
	return got;
}

void harness(void) {
	VERIF_ctx_init();
	KSI_CTX *ctx = VERIF_ctx;
	int res;
	KSI_AsyncService *ha = NULL;
	res = KSI_SigningHighAvailabilityService_new(ctx, &ha); ASSUME(res == KSI_OK && ha != NULL);
	KSI_HighAvailabilityService *has = (KSI_HighAvailabilityService *)ha->impl;
	for (unsigned i = 0; i < NSUB; i++) {
		KSI_AsyncService *as = NULL;
		res = KSI_AbstractAsyncService_new(ctx, &as); ASSUME(res == KSI_OK);
		memset(&subs[i], 0, sizeof(subs[i])); subs[i].id = 100 + i;
		as->impl = &subs[i]; as->addRequest = sub_addRequest; as->run = sub_run; as->getPendingCount = sub_count; as->getReceivedCount = sub_zero;
		res = KSI_AsyncServiceList_append(has->services, as); ASSUME(res == KSI_OK);
	}
	KSI_AsyncHandle *user = mk_user(ctx);
	KSI_AsyncHandle_ref(user);                   /* observer, released at the end */

	/* ---- the faulted call ---- */
	C19_ARM();
	res = KSI_AsyncService_addRequest(ha, user);
	C19_DISARM();
	C19_OUTCOME(res, subs[0].accepted == 1 && subs[1].accepted == 1 && user->state == KSI_ASYNC_STATE_WAITING_FOR_RESPONSE && user->ref == 2);
	const int failed = (res != KSI_OK);
	const unsigned forwarded = subs[0].accepted + subs[1].accepted;
	if (failed) {
		CHECK(KSI_AsyncHandleList_length(has->respQueue) == 0, HN " a failed submission queues nothing");
		KSI_AsyncHandle_free(user);              /* the caller cleans up (API contract); the observer's reference remains */
	}
	/* ---- continued use ---- */
	unsigned got = pump(ha, has, user);
	CHECK(subs[0].returned + subs[1].returned == forwarded, HN " every forwarded copy came back exactly once");
	if (failed) CHECK(got == 0, HN " the handle of a failed submission is never handed back by the service");
	else CHECK(got == 1, HN " the accepted request is completed exactly once");
	CHECK(user->ref == 1, HN " at the end only the observer holds the user handle");

	KSI_AsyncHandle *user2 = mk_user(ctx);
	KSI_AsyncHandle_ref(user2);
	res = KSI_AsyncService_addRequest(ha, user2);
	CHECK(res == KSI_OK && subs[0].accepted + subs[1].accepted == forwarded + 2, HN " the operation repeated without fault succeeds and reaches both endpoints");
	got = pump(ha, has, user2);
	CHECK(got == 1 && user2->state == KSI_ASYNC_STATE_RESPONSE_RECEIVED && user2->ref == 1, HN " the repeated request is completed exactly once");

	KSI_AsyncHandle_free(user); KSI_AsyncHandle_free(user2);
	KSI_AsyncService_free(ha);
	WITNESS_POINT("scenario finished");
#if FAULT_AT >= 1 && FAULT_AT <= 5
	if (VERIF_fault_hit) WITNESS_POINT("fault was injected");
#endif
}
