/* C19 H-13: the REAL tlv_template.c as text, with one cut that carries its own proof obligation (the idiom of C18's
 * cut_memRead).  getTemplateLength() walks the table with "while (tmp != NULL && tmp++->tag)"; CBMC's simplifier cannot
 * decide "&table[k] != NULL", so the row count - although every tag is a constant - reaches the engine's loops as a
 * symbolic value and every loop over the rows is explored up to the unwinding bound (measured: 3.6 M variables for the
 * three-row KSI_Header template).  The cut runs the REAL function, CHECKs (solver obligation) that it returns the number
 * of rows the harness states for that table, and hands that CONSTANT on.  The including harness defines
 * TMPL_ROWS_OF(t): the row count of every table the scenario passes to the engine (0 = table not expected).
 * Mechanics: the definition "getTemplateLength(const KSI_TlvTemplate *tmpl)" and the two calls "getTemplateLength(tmpl)"
 * are told apart by the first token of the argument (token pasting); any other spelling fails to compile.
 * Under REPLAY (native build) nothing is cut. */
#ifndef C19_TMPL_CUT_H_
#define C19_TMPL_CUT_H_
#ifndef REPLAY
static size_t h13_cut_getTemplateLength(const KSI_TlvTemplate *tmpl);
#define getTemplateLength(a) h13_gtl_##a )
#define h13_gtl_const h13_real_getTemplateLength(const
#define h13_gtl_tmpl h13_cut_getTemplateLength(tmpl
#include "tlv_template.c"
#undef getTemplateLength
#undef h13_gtl_const
#undef h13_gtl_tmpl
static size_t h13_cut_getTemplateLength(const KSI_TlvTemplate *tmpl) {
	size_t real = h13_real_getTemplateLength(tmpl);
	size_t rows = TMPL_ROWS_OF(tmpl);
	CHECK(rows != 0 && real == rows, "C19.H13 [cut] getTemplateLength returns the row count the harness states for this table");
	return rows;
}
#else
#include "tlv_template.c"
#endif
#endif
