/* c16_sigmodel.h - the parts of signature.c / tlv_template.c / policy.c that blocksigner.c + signature_builder.c need, as
 * small models, for harnesses whose subject is KSI_BlockSignerHandle_getSignature and the signature builder's level /
 * identity bookkeeping (C16 h5_blocksig_levels, C19 h15_blocksigner).  Include AFTER the libksi headers, ctx.h and
 * verif_post.h.  signature.c, tlv_template.c, policy.c, verification.c are NOT linked; real: tlv.c, list.c, hashchain.c,
 * types_base.c, signature_builder.c, blocksigner.c, tree_builder.c.
 *
 * Every model allocates through the library allocator (KSI_new / real constructors), so that C19's counted allocation
 * faults reach it and it can fail half way; every model releases what it built when it fails.
 *
 *  KSI_TlvTemplate_construct(ctx, tlv, chain, tmpl)   "typed aggregation chain -> content of a 0x801 element": one child
 *      element through the real KSI_TLV_new / KSI_TLV_appendNestedTlv (the C19 h10 idiom) + a GHOST record of what the real
 *      serialiser would have written that matters here: the chain object, its chain-index length, its number of links and
 *      the level correction of its first link AT THAT MOMENT.
 *  KSI_TlvTemplate_extract(ctx, chain, tlv, tmpl)     "0x801 element -> typed chain" as far as updateLevelCorrection uses
 *      it: a chain index of the recorded length (KSI_AggregationHashChain_compare looks at the lengths only).
 *  KSI_Signature_clone      real = serialise the element, parse it again: the copy reflects the ELEMENT.  Model = deep copy
 *      of the typed aggregation chains (new chain, link and list objects; immutable integers / hashes / metadata
 *      shared by reference) and a new 0x800 element with one constructed 0x801 child per chain, guarded by the obligation
 *      sm_sig_consistent(): at the moment of the copy every typed chain has its own 0x801 child that was constructed from
 *      it with the level correction it has now - i.e. copying the typed state and copying the element give the same chains.
 *  KSI_Signature_free, KSI_Signature_getSigningTime   re-stated from signature.c:906-920 / 965-1018 for signatures without
 *      calendar chain, records and RFC3161 part (obligation: those members are NULL).
 *  KSI_VerificationContext_init / _clean, KSI_SignatureVerifier_verify, KSI_PolicyVerificationResult_free: the internal
 *      verification of KSI_SignatureBuilder_close is a stub that allocates its result and answers sm_verify_code (default
 *      KSI_VER_RES_OK); the harness' own oracle does the checking.
 *  qsort   insertion sort (CBMC only; the native replay uses libc's). */
#ifndef C16_SIGMODEL_H_
#define C16_SIGMODEL_H_
#include "tlv.h"
#include "tlv_template.h"
#include "hashchain.h"
#include "signature.h"
#include "policy.h"
#include "impl/hashchain_impl.h"
#include "impl/signature_impl.h"
#include "impl/meta_data_element_impl.h"
#include "impl/policy_impl.h"

#define SM_MAXCH 4
#define SM_MAXLN 8
#define SM_MAXIDX 6
#ifndef SM_GHOST_MAX
#define SM_GHOST_MAX 24
#endif

/* the list of aggregation chains lives in signature.c:179; the real macro, instantiated exactly as there */
KSI_IMPLEMENT_LIST(KSI_AggregationHashChain, KSI_AggregationHashChain_free);

struct sm_ghost { const KSI_TLV *tlv; const void *src; unsigned idxlen; unsigned nlinks; u64 corr0; };
static struct sm_ghost sm_ghost[SM_GHOST_MAX];
static unsigned sm_nghost;
static int sm_ghost_overflow;

static u64 sm_first_corr(const KSI_AggregationHashChain *c) {
	KSI_HashChainLink *l = NULL;
	if (c == NULL || KSI_HashChainLinkList_length(c->chain) == 0) return 0;
	if (KSI_HashChainLinkList_elementAt(c->chain, 0, &l) != KSI_OK || l == NULL) return 0;
	return l->levelCorrection != NULL ? KSI_Integer_getUInt64(l->levelCorrection) : 0;
}

/* latest record for an element (an address can only recur in the native replay, after a release) */
static int sm_ghost_find(const KSI_TLV *t) {
	int found = -1;
	for (unsigned k = 0; k < SM_GHOST_MAX; k++) if (k < sm_nghost && sm_ghost[k].tlv == t) found = (int)k;
	return found;
}

int KSI_TlvTemplate_construct(KSI_CTX *ctx, KSI_TLV *tlv, const void *payload, const KSI_TlvTemplate *tmpl) {
	KSI_TLV *c = NULL; int res; (void)tmpl;
	const KSI_AggregationHashChain *ch = payload;
	if (ctx == NULL || tlv == NULL || payload == NULL) return KSI_INVALID_ARGUMENT;
	res = KSI_TLV_new(ctx, 0x10, 0, 0, &c); if (res != KSI_OK) return res;
	res = KSI_TLV_appendNestedTlv(tlv, c); if (res != KSI_OK) { KSI_TLV_free(c); return res; }
	if (sm_nghost >= SM_GHOST_MAX) { sm_ghost_overflow = 1; return KSI_OK; }
	sm_ghost[sm_nghost].tlv = tlv; sm_ghost[sm_nghost].src = ch;
	sm_ghost[sm_nghost].idxlen = (unsigned)KSI_IntegerList_length(ch->chainIndex);
	sm_ghost[sm_nghost].nlinks = (unsigned)KSI_HashChainLinkList_length(ch->chain);
	sm_ghost[sm_nghost].corr0 = sm_first_corr(ch);
	sm_nghost++;
	return KSI_OK;
}

int KSI_TlvTemplate_extract(KSI_CTX *ctx, void *payload, KSI_TLV *tlv, const KSI_TlvTemplate *tmpl) {
	KSI_AggregationHashChain *ch = payload; KSI_LIST(KSI_Integer) *idx = NULL; KSI_Integer *v = NULL; int res; (void)tmpl;
	int g = sm_ghost_find(tlv);
	if (ctx == NULL || ch == NULL || g < 0) return KSI_INVALID_FORMAT;
	res = KSI_IntegerList_new(&idx); if (res != KSI_OK) return res;
	for (unsigned k = 0; k < SM_MAXIDX; k++) {
		if (k < sm_ghost[g].idxlen) {
			res = KSI_Integer_new(ctx, 0, &v); if (res != KSI_OK) { KSI_IntegerList_free(idx); return res; }
			res = KSI_IntegerList_append(idx, v); if (res != KSI_OK) { KSI_Integer_free(v); KSI_IntegerList_free(idx); return res; }
		}
	}
	ch->chainIndex = idx;
	return KSI_OK;
}

/* every typed chain of the signature has its own 0x801 child, constructed from it with its present first-link correction,
 * index length and link count; and there are no other 0x801 children */
static int sm_sig_consistent(const KSI_Signature *sig) {
	KSI_LIST(KSI_TLV) *nested = NULL; int ok = 1; unsigned n801 = 0;
	if (sig == NULL || sig->baseTlv == NULL) return 0;
	if (KSI_TLV_getNestedList(sig->baseTlv, &nested) != KSI_OK) return 0;
	size_t nch = KSI_AggregationHashChainList_length(sig->aggregationChainList);
	size_t ntl = KSI_TLVList_length(nested);
	for (unsigned j = 0; j < SM_MAXCH + 2; j++) {
		if (j < ntl) { KSI_TLV *t = NULL; KSI_TLVList_elementAt(nested, j, &t); if (t != NULL && KSI_TLV_getTag(t) == 0x801) n801++; }
	}
	if (n801 != nch) ok = 0;
	for (unsigned c = 0; c < SM_MAXCH; c++) {
		if (c < nch) {
			KSI_AggregationHashChain *ch = NULL; unsigned hits = 0;
			KSI_AggregationHashChainList_elementAt(sig->aggregationChainList, c, &ch);
			for (unsigned j = 0; j < SM_MAXCH + 2; j++) {
				if (j < ntl) {
					KSI_TLV *t = NULL; KSI_TLVList_elementAt(nested, j, &t);
					int g = t != NULL && KSI_TLV_getTag(t) == 0x801 ? sm_ghost_find(t) : -1;
					if (g >= 0 && sm_ghost[g].src == ch && sm_ghost[g].corr0 == sm_first_corr(ch)
						&& sm_ghost[g].idxlen == KSI_IntegerList_length(ch->chainIndex) && sm_ghost[g].nlinks == KSI_HashChainLinkList_length(ch->chain)) hits++;
				}
			}
			if (hits != 1) ok = 0;
		}
	}
	return ok;
}

#define sm_Integer_new KSI_Integer_new
/* integers are immutable; a level correction is only ever REPLACED in its link (updateLevelCorrection).  Times, ids and
 * chain index elements are shared by reference, a level correction gets its own object as the parser would create it */
static int sm_int_copy(KSI_CTX *ctx, const KSI_Integer *s, KSI_Integer **out) {
	*out = NULL;
	if (s == NULL) return KSI_OK;
	return sm_Integer_new(ctx, KSI_Integer_getUInt64(s), out);
}
static int sm_int_share(KSI_CTX *ctx, const KSI_Integer *s, KSI_Integer **out) {
	(void)ctx;
	*out = KSI_Integer_ref((KSI_Integer *)s);
	return KSI_OK;
}

static int sm_chain_copy(KSI_CTX *ctx, const KSI_AggregationHashChain *s, KSI_AggregationHashChain **out) {
	KSI_AggregationHashChain *c = NULL; KSI_HashChainLink *lk = NULL; KSI_Integer *iv = NULL; int res;
	res = KSI_AggregationHashChain_new(ctx, &c); if (res != KSI_OK) goto cleanup;
	res = sm_int_share(ctx, s->aggregationTime, &c->aggregationTime); if (res != KSI_OK) goto cleanup;
	res = sm_int_share(ctx, s->aggrHashId, &c->aggrHashId); if (res != KSI_OK) goto cleanup;
	c->inputHash = KSI_DataHash_ref(s->inputHash);
	if (s->chainIndex != NULL) {
		res = KSI_IntegerList_new(&c->chainIndex); if (res != KSI_OK) goto cleanup;
		for (unsigned k = 0; k < SM_MAXIDX; k++) {
			if (k < KSI_IntegerList_length(s->chainIndex)) {
				KSI_Integer *e = NULL;
				res = KSI_IntegerList_elementAt(s->chainIndex, k, &e); if (res != KSI_OK) goto cleanup;
				res = sm_int_share(ctx, e, &iv); if (res != KSI_OK) goto cleanup;
				res = KSI_IntegerList_append(c->chainIndex, iv); if (res != KSI_OK) goto cleanup;
				iv = NULL;
			}
		}
	}
	res = KSI_HashChainLinkList_new(&c->chain); if (res != KSI_OK) goto cleanup;
	for (unsigned k = 0; k < SM_MAXLN; k++) {
		if (k < KSI_HashChainLinkList_length(s->chain)) {
			KSI_HashChainLink *e = NULL;
			res = KSI_HashChainLinkList_elementAt(s->chain, k, &e); if (res != KSI_OK) goto cleanup;
			res = KSI_HashChainLink_new(ctx, &lk); if (res != KSI_OK) goto cleanup;
			lk->isLeft = e->isLeft;
			res = sm_int_copy(ctx, e->levelCorrection, &lk->levelCorrection); if (res != KSI_OK) goto cleanup;
			lk->imprint = KSI_DataHash_ref(e->imprint);
			lk->metaData = KSI_MetaDataElement_ref(e->metaData);
			lk->legacyId = KSI_OctetString_ref(e->legacyId);
			res = KSI_HashChainLinkList_append(c->chain, lk); if (res != KSI_OK) goto cleanup;
			lk = NULL;
		}
	}
	*out = c; c = NULL; res = KSI_OK;
cleanup:
	KSI_Integer_free(iv);
	KSI_HashChainLink_free(lk);
	KSI_AggregationHashChain_free(c);
	return res;
}

/* attach a new 0x800 element with one constructed 0x801 child per typed chain */
static int sm_sig_make_element(KSI_Signature *sig) {
	KSI_TLV *base = NULL, *t = NULL; int res;
	res = KSI_TLV_new(sig->ctx, 0x800, 0, 0, &base); if (res != KSI_OK) goto cleanup;
	for (unsigned c = 0; c < SM_MAXCH; c++) {
		if (c < KSI_AggregationHashChainList_length(sig->aggregationChainList)) {
			KSI_AggregationHashChain *ch = NULL;
			res = KSI_AggregationHashChainList_elementAt(sig->aggregationChainList, c, &ch); if (res != KSI_OK) goto cleanup;
			res = KSI_TLV_new(sig->ctx, 0x801, 0, 0, &t); if (res != KSI_OK) goto cleanup;
			res = KSI_TlvTemplate_construct(sig->ctx, t, ch, NULL); if (res != KSI_OK) goto cleanup;
			res = KSI_TLV_appendNestedTlv(base, t); if (res != KSI_OK) goto cleanup;
			t = NULL;
		}
	}
	sig->baseTlv = base; base = NULL; res = KSI_OK;
cleanup:
	KSI_TLV_free(t);
	KSI_TLV_free(base);
	return res;
}

static int sm_sig_new(KSI_CTX *ctx, KSI_Signature **out) {
	KSI_Signature *tmp = KSI_new(KSI_Signature);
	if (tmp == NULL) return KSI_OUT_OF_MEMORY;
	memset(tmp, 0, sizeof(*tmp));
	tmp->ctx = ctx; tmp->ref = 1; tmp->verificationResult.ctx = ctx;
	*out = tmp;
	return KSI_OK;
}

void KSI_Signature_free(KSI_Signature *sig) {
	if (sig != NULL && --sig->ref == 0) {
		__CPROVER_assert(sig->calendarChain == NULL && sig->calendarAuthRec == NULL && sig->aggregationAuthRec == NULL && sig->publication == NULL
			&& sig->rfc3161 == NULL && sig->policyVerificationResult == NULL, "CHECK C16.SM model signatures carry aggregation chains only");
		KSI_TLV_free(sig->baseTlv);
		KSI_AggregationHashChainList_free(sig->aggregationChainList);
		KSI_free(sig);
	}
}

static unsigned sm_clone_calls, sm_clone_inconsistent;
int KSI_Signature_clone(const KSI_Signature *sig, KSI_Signature **clone) {
	KSI_Signature *tmp = NULL; KSI_AggregationHashChain *cc = NULL; int res;
	if (sig == NULL || clone == NULL) return KSI_INVALID_ARGUMENT;
	sm_clone_calls++;
	if (!sm_sig_consistent(sig)) sm_clone_inconsistent++;
	res = sm_sig_new(sig->ctx, &tmp); if (res != KSI_OK) goto cleanup;
	res = KSI_AggregationHashChainList_new(&tmp->aggregationChainList); if (res != KSI_OK) goto cleanup;
	for (unsigned c = 0; c < SM_MAXCH; c++) {
		if (c < KSI_AggregationHashChainList_length(sig->aggregationChainList)) {
			KSI_AggregationHashChain *ch = NULL;
			res = KSI_AggregationHashChainList_elementAt(sig->aggregationChainList, c, &ch); if (res != KSI_OK) goto cleanup;
			res = sm_chain_copy(sig->ctx, ch, &cc); if (res != KSI_OK) goto cleanup;
			res = KSI_AggregationHashChainList_append(tmp->aggregationChainList, cc); if (res != KSI_OK) goto cleanup;
			cc = NULL;
		}
	}
	res = sm_sig_make_element(tmp); if (res != KSI_OK) goto cleanup;
	*clone = tmp; tmp = NULL; res = KSI_OK;
cleanup:
	KSI_AggregationHashChain_free(cc);
	KSI_Signature_free(tmp);
	return res;
}

int KSI_Signature_getSigningTime(const KSI_Signature *sig, KSI_Integer **signTime) {
	KSI_AggregationHashChain *ptr = NULL; int res;
	if (sig == NULL || signTime == NULL) return KSI_INVALID_ARGUMENT;
	__CPROVER_assert(sig->calendarChain == NULL, "CHECK C16.SM model signatures have no calendar chain");
	res = KSI_AggregationHashChainList_elementAt(sig->aggregationChainList, 0, &ptr); if (res != KSI_OK) return res;
	return KSI_AggregationHashChain_getAggregationTime(ptr, signTime);
}

/* ---- hand-built signatures ---- */
struct sm_linkspec { int isLeft; int has_corr; u64 corr; u8 sib[32]; };
/* chain hashed with alg (SHA-1 or SHA2-256 siblings of that algorithm), input hash `in` (a reference is taken) */
static int sm_mk_chain(KSI_CTX *ctx, KSI_DataHash *in, int alg, u64 aggrTime, unsigned nidx, const u64 *idx, unsigned nl, const struct sm_linkspec *ls, KSI_AggregationHashChain **out) {
	KSI_AggregationHashChain *c = NULL; KSI_HashChainLink *lk = NULL; KSI_Integer *iv = NULL; int res;
	unsigned dl = alg == KSI_HASHALG_SHA1 ? 20 : 32;
	res = KSI_AggregationHashChain_new(ctx, &c); if (res != KSI_OK) goto cleanup;
	res = KSI_Integer_new(ctx, aggrTime, &c->aggregationTime); if (res != KSI_OK) goto cleanup;
	res = KSI_Integer_new(ctx, (u64)alg, &c->aggrHashId); if (res != KSI_OK) goto cleanup;
	c->inputHash = KSI_DataHash_ref(in);
	res = KSI_IntegerList_new(&c->chainIndex); if (res != KSI_OK) goto cleanup;
	for (unsigned k = 0; k < SM_MAXIDX; k++) {
		if (k < nidx) {
			res = KSI_Integer_new(ctx, idx[k], &iv); if (res != KSI_OK) goto cleanup;
			res = KSI_IntegerList_append(c->chainIndex, iv); if (res != KSI_OK) goto cleanup;
			iv = NULL;
		}
	}
	res = KSI_HashChainLinkList_new(&c->chain); if (res != KSI_OK) goto cleanup;
	for (unsigned k = 0; k < SM_MAXLN; k++) {
		if (k < nl) {
			res = KSI_HashChainLink_new(ctx, &lk); if (res != KSI_OK) goto cleanup;
			lk->isLeft = ls[k].isLeft;
			if (ls[k].has_corr) { res = sm_Integer_new(ctx, ls[k].corr, &lk->levelCorrection); if (res != KSI_OK) goto cleanup; }
			res = KSI_DataHash_fromDigest(ctx, alg, ls[k].sib, dl, &lk->imprint); if (res != KSI_OK) goto cleanup;
			res = KSI_HashChainLinkList_append(c->chain, lk); if (res != KSI_OK) goto cleanup;
			lk = NULL;
		}
	}
	*out = c; c = NULL; res = KSI_OK;
cleanup:
	KSI_Integer_free(iv);
	KSI_HashChainLink_free(lk);
	KSI_AggregationHashChain_free(c);
	return res;
}

/* signature owning the given chains (ownership moves on success only), with its element */
static int sm_mk_sig(KSI_CTX *ctx, unsigned nch, KSI_AggregationHashChain **ch, KSI_Signature **out) {
	KSI_Signature *tmp = NULL; int res; unsigned moved = 0;
	res = sm_sig_new(ctx, &tmp); if (res != KSI_OK) goto cleanup;
	res = KSI_AggregationHashChainList_new(&tmp->aggregationChainList); if (res != KSI_OK) goto cleanup;
	for (unsigned c = 0; c < SM_MAXCH; c++) {
		if (c < nch) { res = KSI_AggregationHashChainList_append(tmp->aggregationChainList, ch[c]); if (res != KSI_OK) goto cleanup; moved++; }
	}
	res = sm_sig_make_element(tmp); if (res != KSI_OK) goto cleanup;
	*out = tmp; tmp = NULL; res = KSI_OK;
cleanup:
	if (tmp != NULL) {
		/* hand the chains back to the caller: take them out of the list again */
		for (unsigned c = 0; c < SM_MAXCH; c++) if (c < moved) { KSI_AggregationHashChain *x = NULL; KSI_AggregationHashChainList_remove(tmp->aggregationChainList, 0, &x); }
		KSI_Signature_free(tmp);
	}
	return res;
}

/* ---- verification stubs ---- */
static KSI_Policy sm_internal_policy_obj;
const KSI_Policy *KSI_VERIFICATION_POLICY_INTERNAL = &sm_internal_policy_obj;
static KSI_VerificationResultCode sm_verify_code = KSI_VER_RES_OK;
static unsigned sm_verify_calls;
int KSI_VerificationContext_init(KSI_VerificationContext *context, KSI_CTX *ctx) {
	if (context == NULL || ctx == NULL) return KSI_INVALID_ARGUMENT;
	memset(context, 0, sizeof(*context)); context->ctx = ctx; return KSI_OK;
}
void KSI_VerificationContext_clean(KSI_VerificationContext *context) { (void)context; }
int KSI_SignatureVerifier_verify(const KSI_Policy *policy, KSI_VerificationContext *context, KSI_PolicyVerificationResult **result) {
	KSI_PolicyVerificationResult *r;
	if (policy == NULL || context == NULL || result == NULL || context->signature == NULL) return KSI_INVALID_ARGUMENT;
	sm_verify_calls++;
	r = KSI_new(KSI_PolicyVerificationResult);
	if (r == NULL) return KSI_OUT_OF_MEMORY;
	memset(r, 0, sizeof(*r)); r->ref = 1;
	r->resultCode = sm_verify_code; r->finalResult.resultCode = sm_verify_code;
	*result = r;
	return KSI_OK;
}
void KSI_PolicyVerificationResult_free(KSI_PolicyVerificationResult *r) { if (r != NULL && --r->ref == 0) KSI_free(r); }

#ifndef REPLAY
/* insertion sort in place of libc's qsort (n <= SM_MAXCH, element size concrete at the only call site, list.c KSI_List_sort) */
void qsort(void *base, size_t n, size_t size, int (*cmp)(const void *, const void *)) {
	unsigned char *b = base; unsigned char tmp[64];
	__CPROVER_assert(size <= sizeof(tmp) && n <= SM_MAXCH, "CHECK C16.SM qsort model bounds");
	for (size_t i = 1; i < SM_MAXCH; i++) {
		if (i < n) {
			for (size_t j = i; j > 0; j--) {
				if (cmp(b + (j - 1) * size, b + j * size) > 0) {
					memcpy(tmp, b + (j - 1) * size, size); memcpy(b + (j - 1) * size, b + j * size, size); memcpy(b + j * size, tmp, size);
				} else break;
			}
		}
	}
}
#endif
#endif
