/* C03 H-2: KSI_HashChain_aggregateCalendar follows the calendar algorithm-switching rule:
 * step i is hashed with the algorithm of the most recent LEFT link's imprint at or before i
 * (initially the input hash's algorithm), message = left || right || 0xff.
 * Shape per instance (all length-determining): number of links, direction and imprint algorithm of
 * every link, input hash algorithm.  Values (all digest bytes) symbolic. */
#include "verif.h"
#include "internal.h"
#include "impl/hashchain_impl.h"
#include "ctx.h"
#include "hash_model.h"
#include "verif_post.h"

#ifndef NLINKS
#define NLINKS 2
#endif
#ifndef IN_ALG
#define IN_ALG 0
#endif
#ifndef SHAPE_LEFT
#define SHAPE_LEFT {1, 0, 0, 0}
#endif
#ifndef SHAPE_ALG
#define SHAPE_ALG {1, 0, 0, 0}
#endif
#define NL (NLINKS > 0 ? NLINKS : 1)
static const int shape_left[4] = SHAPE_LEFT;
static const int shape_alg[4] = SHAPE_ALG;     /* index into algs[] */
static const int algs[5] = {KSI_HASHALG_SHA1, KSI_HASHALG_SHA2_256, KSI_HASHALG_RIPEMD160, KSI_HASHALG_SHA2_384, KSI_HASHALG_SHA2_512};
static const unsigned alglen[5] = {20, 32, 20, 48, 64};

void harness(void) {
	VERIF_ctx_init(); VERIF_hm_init(0);
	KSI_CTX *ctx = VERIF_ctx;
	int res;
	u8 in_imp[65]; in_imp[0] = (u8)algs[IN_ALG];
	for (unsigned k = 0; k < 64; k++) { u8 b = ND(u8, in_digest); in_imp[1 + k] = b; }
	KSI_DataHash *inputHash = NULL;
	res = KSI_DataHash_fromDigest(ctx, algs[IN_ALG], in_imp + 1, alglen[IN_ALG], &inputHash); ASSUME(res == KSI_OK);
	KSI_LIST(KSI_HashChainLink) *chain = NULL;
	res = KSI_HashChainLinkList_new(&chain); ASSUME(res == KSI_OK);
	u8 sib[NL][65];
	for (unsigned i = 0; i < NLINKS; i++) {
		KSI_HashChainLink *link = NULL;
		res = KSI_HashChainLink_new(ctx, &link); ASSUME(res == KSI_OK);
		link->isLeft = shape_left[i];
		sib[i][0] = (u8)algs[shape_alg[i]];
		for (unsigned k = 0; k < 64; k++) { u8 b = ND(u8, sib); sib[i][1 + k] = b; }
		res = KSI_DataHash_fromDigest(ctx, algs[shape_alg[i]], sib[i] + 1, alglen[shape_alg[i]], &link->imprint); ASSUME(res == KSI_OK);
		res = KSI_HashChainLinkList_append(chain, link); ASSUME(res == KSI_OK);
	}
	KSI_DataHash *out = NULL;
	res = KSI_HashChain_aggregateCalendar(ctx, chain, inputHash, &out);
	CHECK(VERIF_hm_overflow == 0, "C03.H2 hash-model log large enough");
	CHECK(res == KSI_OK, "C03.H2 calendar chain of supported algorithms aggregates");
	CHECK(VERIF_hm_nrec == NLINKS, "C03.H2 one hash computation per calendar link");
	/* reference */
	u8 cur[65]; unsigned curlen = 1 + alglen[IN_ALG];
	for (unsigned k = 0; k < 65; k++) cur[k] = in_imp[k];
	int alg_i = IN_ALG;
	for (unsigned i = 0; i < NLINKS; i++) {
		if (shape_left[i]) alg_i = shape_alg[i];
		const u8 *L = shape_left[i] ? cur : sib[i]; unsigned ll = shape_left[i] ? curlen : 1 + alglen[shape_alg[i]];
		const u8 *R = shape_left[i] ? sib[i] : cur; unsigned rl = shape_left[i] ? 1 + alglen[shape_alg[i]] : curlen;
		unsigned el = ll + rl + 1; int same = 1;
		for (unsigned k = 0; k < HM_LOG_MAX; k++) {
			u8 e = 0;
			if (k < ll) e = L[k < 65 ? k : 0];
			else if (k < ll + rl) e = R[(k - ll) < 65 ? (k - ll) : 0];
			else if (k == ll + rl) e = 0xff;
			if (k < el && VERIF_hm_rec[i].msg[k] != e) same = 0;
		}
		CHECK(VERIF_hm_rec[i].alg == algs[alg_i], "C03.H2 step algorithm = algorithm of the most recent left link (else input hash)");
		CHECK(VERIF_hm_rec[i].len == el, "C03.H2 step message length");
		CHECK(same, "C03.H2 step message = left || right || 0xff");
		cur[0] = (u8)algs[alg_i]; for (unsigned k = 0; k < 64; k++) cur[1 + k] = VERIF_hm_rec[i].digest[k]; curlen = 1 + alglen[alg_i];
	}
#if NLINKS >= 1
	const unsigned char *imp = NULL; size_t implen = 0;
	KSI_DataHash_getImprint(out, &imp, &implen);
	int eq = (implen == curlen);
	for (unsigned k = 0; k < 65; k++) if (k < curlen && eq && imp[k] != cur[k]) eq = 0;
	CHECK(eq, "C03.H2 calendar root = digest of the last step");
	if (res == KSI_OK) WITNESS_POINT("calendar chain aggregated");
#else
	CHECK(out == NULL, "C03.H2 empty calendar chain yields no digest");
	WITNESS_POINT("empty calendar chain");
#endif
}
