/* C12 H-uri: KSI_UriSplitBasic (net.c uriSplit + the real http_parser_parse_url) on EVERY NUL-terminated string of
 * LEN characters (exact-size heap object, LEN concrete per instance, characters symbolic; C20 covers long
 * well-formed service URIs): the call terminates, reads nothing outside the string, returns KSI_OK or
 * KSI_INVALID_FORMAT, every returned part is a NUL-terminated heap string that the caller can free, nothing leaks.
 * strtoul (port) = env/c20_strtoul.c (decimal model validated by C20/h0_strtoul). */
#include "verif.h"
#include "internal.h"
#include "net.h"
#include "ctx.h"
#include "verif_post.h"

#ifndef LEN
#define LEN 4
#endif

static int terminated(const char *p) { for (unsigned i = 0; i <= LEN; i++) if (p[i] == 0) return 1; return 0; }

void harness(void) {
	VERIF_ctx_init();
	char *s = (char *)verif_buf_alloc(LEN + 1);
	for (unsigned i = 0; i < LEN; i++) { char c = (char)ND(u8, ch); ASSUME(c != 0); s[i] = c; }
	s[LEN] = 0;
	char *scheme = NULL, *host = NULL, *path = NULL; unsigned port = 777777;
	int res = KSI_UriSplitBasic(s, &scheme, &host, &port, &path);
	CHECK(res == KSI_OK || res == KSI_INVALID_FORMAT, "C12.uri split returns KSI_OK or KSI_INVALID_FORMAT");
	if (res == KSI_OK) {
		CHECK(scheme == NULL || terminated(scheme), "C12.uri scheme is a terminated string no longer than the input");
		CHECK(host == NULL || terminated(host), "C12.uri host is a terminated string no longer than the input");
		CHECK(path == NULL || terminated(path), "C12.uri path is a terminated string no longer than the input");
		CHECK(port <= 65535, "C12.uri port fits 16 bits");
#if LEN >= 5
		if (scheme != NULL && host != NULL) WITNESS_POINT("scheme and host split");
#endif
#if LEN >= 1
		if (path != NULL && scheme == NULL) WITNESS_POINT("path only");
#else
		WITNESS_POINT("empty string splits into nothing");
#endif
	} else {
		CHECK(scheme == NULL && host == NULL && path == NULL, "C12.uri nothing returned on rejection");
#if LEN >= 1
		WITNESS_POINT("string rejected");
#endif
	}
	KSI_free(scheme); KSI_free(host); KSI_free(path);
	verif_buf_free((u8 *)s, LEN + 1);
}
