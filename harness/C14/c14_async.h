/* Shared by the C14 dispatch() harnesses: includes the REAL net_tcp_async.c (so that the static dispatch() and
 * the TcpAsyncCtx type are reachable) with the reassembly buffer instantiated at 2 x KSI_TLV_MAX_SIZE bytes for a
 * SMALL KSI_TLV_MAX_SIZE given by the instance (-DKSI_TLV_MAX_SIZE=12; source hook, see hook.diff), and builds a
 * typed TcpAsyncCtx in the state KSI_TcpAsyncClient_new + an established connection leave it in. */
#ifndef C14_ASYNC_H_
#define C14_ASYNC_H_
#include <errno.h>
#include <poll.h>
#include "verif.h"
#include "internal.h"
#include "net_async.h"
#include "impl/net_async_impl.h"
#include "ctx.h"
#include "sock_model.h"
#include "verif_post.h"

#ifndef KSI_TLV_MAX_SIZE
#error the instance must define KSI_TLV_MAX_SIZE (small reassembly buffer)
#endif
enum { C14_INSTANCE_MAX = KSI_TLV_MAX_SIZE };
#include "net_tcp_async.c"
/* without the source hook (harness/C14/hook.diff) the file redefines KSI_TLV_MAX_SIZE to 0xffff + 4 and the
 * 131 078-byte buffer cannot be analysed: stop at build time instead of running out of memory */
_Static_assert(sizeof(((TcpAsyncCtx *)0)->inBuf) == 2 * (size_t)C14_INSTANCE_MAX, "C14: source hook harness/C14/hook.diff is not applied to net_tcp_async.c");

/* net_tcp_async.c's request queue type; types.c (which instantiates it in the library) is not linked */
unsigned VERIF_handle_destroyed;
void KSI_AsyncHandle_free(KSI_AsyncHandle *o) {
	/* reference counting of net_async.c:KSI_AsyncHandle_free; the handles of these harnesses are owned by the
	 * harness (one extra reference, as the service's request cache holds in the library), so the count never
	 * reaches zero on a correct path */
	if (o == NULL) return;
	if (o->ref > 0) o->ref--;
	if (o->ref == 0) VERIF_handle_destroyed++;
}
KSI_IMPLEMENT_LIST(KSI_AsyncHandle, KSI_AsyncHandle_free);

/* Byte values are symbolic.  The "conc" instances compile the same harness with pseudo-random CONCRETE bytes: a
 * plain test run through the same oracle, which stays conclusive (and replayable) even for defects that move
 * symbolic payload bytes into header positions, where the symbolic runs merely time out. */
#ifdef C14_CONCRETE_BYTES
static unsigned c14_lcg = 2463534242u;
static u8 c14_byte(void) { c14_lcg ^= c14_lcg << 13; c14_lcg ^= c14_lcg >> 17; c14_lcg ^= c14_lcg << 5; return (u8)(c14_lcg >> 11); }
#define C14_BYTE(tag) c14_byte()
#else
#define C14_BYTE(tag) ND(u8, tag)
#endif

static TcpAsyncCtx c14_tcp;
static KSI_AsyncClient c14_parent;

/* state after KSI_TcpAsyncClient_new (TcpAsyncCtx_new) and a completed connect; the bytes of inBuf are symbolic */
static TcpAsyncCtx *c14_ctx_connected(KSI_CTX *ctx) {
	TcpAsyncCtx *t = &c14_tcp;
	int res;
	memset(&c14_parent, 0, sizeof(c14_parent));
	c14_parent.ctx = ctx;
	c14_parent.clientImpl = t;
	t->ctx = ctx;
	t->reqQueue = NULL; t->respQueue = NULL;
	res = KSI_AsyncHandleList_new(&t->reqQueue); ASSUME(res == KSI_OK);
	res = KSI_OctetStringList_new(&t->respQueue); ASSUME(res == KSI_OK);
	for (unsigned i = 0; i < sizeof(t->inBuf); i++) t->inBuf[i] = C14_BYTE(inbuf_garbage);
	t->inLen = 0;
	{ extern const unsigned char *VERIF_mm_guard_base; extern size_t VERIF_mm_guard_len; VERIF_mm_guard_base = t->inBuf; VERIF_mm_guard_len = sizeof(t->inBuf); }   /* inBuf is a struct member: guard it explicitly */
	t->ksi_user = NULL; t->ksi_pass = NULL; t->host = NULL; t->port = 0;
	t->parent = &c14_parent;
	VERIF_sk_open = 1;
	t->sockfd = VERIF_sk_fd;
	t->socketReady = true;
	t->connectedAt = 0; t->roundStartAt = 0; t->roundCount = 0;
	return t;
}

/* reference element reader, from the TLV format (tlv.h): returns the total size of the element that starts at
 * s[pos] if it lies completely inside s[0..end), else 0 */
static size_t c14_ref_elem(const u8 *s, size_t pos, size_t end) {
	size_t hdr, dat;
	if (end - pos < 2) return 0;
	if (s[pos] & 0x80) {
		if (end - pos < 4) return 0;
		hdr = 4; dat = ((size_t)s[pos + 2] << 8) | s[pos + 3];
	} else { hdr = 2; dat = s[pos + 1]; }
	if (end - pos < hdr + dat) return 0;
	return hdr + dat;
}
#endif
