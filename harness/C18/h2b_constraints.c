/* C18 H-2b: KSI_PKITruststore_verifyPKISignature of the REAL pkitruststore_openssl.c (included as text) with
 * every OpenSSL function it reaches replaced by a recording stub with a symbolic outcome.  What is checked is the
 * library's own logic around OpenSSL - which results are required for "trusted":
 *   result KSI_OK  <=>  PKCS7_verify(signature, data, data_len) returned 1
 *                   and the signer certificate could be extracted and X509_verify_cert returned 1
 *                   and a constraint set is configured: the file's set if one was given, else the context's;
 *                       a missing or empty set is KSI_PUBFILE_VERIFICATION_NOT_CONFIGURED
 *                   and for EVERY constraint of that set the subject has a value for the OID and that text is
 *                       the expected string: SAME LENGTH and the same characters (a text that is only a prefix
 *                       of the configured value, or only starts with it, does not match);
 *   the bytes verified are exactly (data, data_len); every certificate copy is released exactly once.
 * PKCS#7 / X.509 processing itself (what OpenSSL does) is outside: the stubs return arbitrary values.
 * Shape per instance: NFILE (-1: no file-level set, 0..2 entries), NCTX (-1 / 0..2), and per constraint position
 * the length of the certificate's attribute text (TLENS) and of the configured value (VLENS), each 0..3: equal,
 * text shorter than value (symbolic characters: proper prefix and non-prefix alike), text longer than value, empty.
 * Symbolic: all OpenSSL outcomes, every character of texts and values (non-NUL), data_len.
 * X509_NAME_get_text_by_OBJ stub = OpenSSL's contract for a text that fits the buffer: copies the text and a NUL,
 * returns its length.  OUTSIDE: attribute texts of 255+ characters (truncated by OpenSSL to the 256-byte local
 * buffer of the function under test; a 255-character constraint would then match a longer attribute). */
#include "verif.h"
#include "internal.h"
#include "impl/ctx_impl.h"
#include "ctx.h"
#include "verif_post.h"
#include "pkitruststore_openssl.c"

#ifndef NFILE
#define NFILE 1
#endif
#ifndef NCTX
#define NCTX -1
#endif
#define MAXC 2
#define LMAX 3          /* longest attribute text / configured value */
#ifndef TLENS
#define TLENS {2, 2}    /* length of the certificate's attribute text for constraint position 0, 1 */
#endif
#ifndef VLENS
#define VLENS {2, 2}    /* length of the configured value for constraint position 0, 1 */
#endif
static const unsigned tlen[MAXC] = TLENS, vlen[MAXC] = VLENS;

/* ---------- recording OpenSSL stubs ---------- */
static char o_bio[4], o_stack[4], o_chain[4], o_x509_signer[4], o_x509_copy[2][4], o_storectx[4], o_store[4], o_name[4], o_oid[2 * MAXC][4];
static struct {
	unsigned bio_new, bio_ok, bio_free; const void *bio_buf; int bio_len;
	unsigned p7_calls; PKCS7 *p7_arg; BIO *p7_in; int p7_flags, p7_ret;
	unsigned dups, frees; int double_free;
	unsigned verify_calls; int verify_ret; X509 *init_cert; X509_STORE *init_store; STACK_OF(X509) *init_chain;
	unsigned subj_calls; X509 *subj_cert;
	unsigned txt2obj[2 * MAXC], gettext[2 * MAXC]; int oid_ok[2 * MAXC], text_ret[2 * MAXC]; char text[2 * MAXC][LMAX + 1];   /* index: file set 0..MAXC-1, context set MAXC.. */
	unsigned oid_free;
} o;
static const KSI_CertConstraint *set_file, *set_ctx;
static int copy_live[2];

BIO *BIO_new_mem_buf(const void *buf, int len) { o.bio_new++; o.bio_buf = buf; o.bio_len = len; if (!ND_BOOL(ossl_bio_ok)) return NULL; o.bio_ok++; return (BIO *)o_bio; }
int BIO_free(BIO *a) { if (a != NULL) o.bio_free++; return 1; }
int PKCS7_verify(PKCS7 *p7, STACK_OF(X509) *certs, X509_STORE *store, BIO *indata, BIO *out, int flags) {
	(void)certs; (void)store; (void)out;
	o.p7_calls++; o.p7_arg = p7; o.p7_in = indata; o.p7_flags = flags; o.p7_ret = ND(int, ossl_pkcs7_verify);
	return o.p7_ret;
}
void ERR_error_string_n(unsigned long e, char *buf, size_t len) { (void)e; if (len > 0) buf[0] = 0; }
STACK_OF(X509) *PKCS7_get0_signers(PKCS7 *p7, STACK_OF(X509) *certs, int flags) { (void)p7; (void)certs; (void)flags; return ND_BOOL(ossl_signers_ok) ? (STACK_OF(X509) *)o_stack : NULL; }
int OPENSSL_sk_num(const OPENSSL_STACK *st) { (void)st; return ND(int, ossl_sk_num); }
void *OPENSSL_sk_delete(OPENSSL_STACK *st, int loc) { (void)st; (void)loc; return o_x509_signer; }
void OPENSSL_sk_free(OPENSSL_STACK *st) { (void)st; }
X509 *X509_dup(const X509 *a) {
	(void)a;
	if (!ND_BOOL(ossl_dup_ok) || o.dups >= 2) return NULL;
	copy_live[o.dups] = 1;
	return (X509 *)o_x509_copy[o.dups++];
}
void X509_free(X509 *a) {
	for (unsigned i = 0; i < 2; i++) if ((char *)a == o_x509_copy[i]) { if (!copy_live[i]) o.double_free = 1; copy_live[i] = 0; o.frees++; }
}
X509_STORE_CTX *X509_STORE_CTX_new(void) { return ND_BOOL(ossl_storectx_ok) ? (X509_STORE_CTX *)o_storectx : NULL; }
int X509_STORE_CTX_init(X509_STORE_CTX *c, X509_STORE *store, X509 *x, STACK_OF(X509) *chain) { (void)c; o.init_store = store; o.init_cert = x; o.init_chain = chain; return ND_BOOL(ossl_storectx_init_ok); }
int X509_verify_cert(X509_STORE_CTX *c) { (void)c; o.verify_calls++; o.verify_ret = ND(int, ossl_verify_cert); return o.verify_ret; }
int X509_STORE_CTX_get_error(const X509_STORE_CTX *c) { (void)c; return ND(int, ossl_x509_err); }
const char *X509_verify_cert_error_string(long n) { (void)n; return "e"; }
void X509_STORE_CTX_free(X509_STORE_CTX *c) { (void)c; }
X509_NAME *X509_get_subject_name(const X509 *a) { o.subj_calls++; o.subj_cert = (X509 *)a; return ND_BOOL(ossl_subject_ok) ? (X509_NAME *)o_name : NULL; }
ASN1_OBJECT *OBJ_txt2obj(const char *s, int no_name) {
	(void)no_name;
	for (unsigned i = 0; i < 2 * MAXC; i++) {
		const KSI_CertConstraint *set = (i < MAXC) ? set_file : set_ctx;
		if (set != NULL && set[i % MAXC].oid == s) { o.txt2obj[i]++; o.oid_ok[i] = ND_BOOL(ossl_oid_known); return o.oid_ok[i] ? (ASN1_OBJECT *)o_oid[i] : NULL; }
	}
	return NULL;
}
unsigned long ERR_peek_last_error(void) { return ND(unsigned, ossl_err); }
int X509_NAME_get_text_by_OBJ(const X509_NAME *name, const ASN1_OBJECT *obj, char *buf, int len) {
	(void)name;
	for (unsigned i = 0; i < 2 * MAXC; i++) if ((const char *)obj == o_oid[i]) {
		const unsigned tl = tlen[i % MAXC];
		o.gettext[i]++; o.text_ret[i] = ND_BOOL(ossl_attr_present) ? (int)tl : -1;
		if (o.text_ret[i] >= 0 && len > LMAX) {
			for (unsigned k = 0; k < LMAX; k++) if (k < tl) { o.text[i][k] = (char)ND(u8, ossl_attr_char); ASSUME(o.text[i][k] != 0); buf[k] = o.text[i][k]; }
			o.text[i][tl] = 0; buf[tl] = 0;
		}
		return o.text_ret[i];
	}
	return -1;
}
void ASN1_OBJECT_free(ASN1_OBJECT *a) { if (a != NULL) o.oid_free++; }

static KSI_CertConstraint *mk_set(int n, char (*vals)[LMAX + 1], const char *const *oids) {
	if (n < 0) return NULL;
	KSI_CertConstraint *a = malloc(sizeof(KSI_CertConstraint) * (MAXC + 1));
	for (int i = 0; i < MAXC + 1; i++) { a[i].oid = NULL; a[i].val = NULL; }
	for (int i = 0; i < n; i++) { a[i].oid = (char *)oids[i]; a[i].val = vals[i]; }
	return a;
}

void harness(void) {
	VERIF_ctx_init(); KSI_CTX *ctx = VERIF_ctx;
	static const char *const oids_f[MAXC] = {"1.2.840.113549.1.9.1", "2.5.4.10"}, *const oids_c[MAXC] = {"2.5.4.3", "2.5.4.6"};
	static char vf[MAXC][LMAX + 1], vc[MAXC][LMAX + 1];
	for (unsigned i = 0; i < MAXC; i++) {
		for (unsigned k = 0; k < LMAX; k++) if (k < vlen[i]) { vf[i][k] = (char)ND(u8, expected_value_char); vc[i][k] = (char)ND(u8, expected_value_char); ASSUME(vf[i][k] != 0 && vc[i][k] != 0); }
		vf[i][vlen[i]] = 0; vc[i][vlen[i]] = 0;
	}
	KSI_CertConstraint *fileC = mk_set(NFILE, vf, oids_f), *ctxC = mk_set(NCTX, vc, oids_c);
	ctx->certConstraints = ctxC;
	set_file = fileC; set_ctx = ctxC;
	const KSI_CertConstraint *active = (fileC != NULL) ? fileC : ctxC;   /* the file's own set wins when there is one */
	const int nact = (fileC != NULL) ? NFILE : NCTX;
	const unsigned base = (fileC != NULL) ? 0 : MAXC;                   /* stub index of the active set's first entry */

	static PKCS7 p7; static PKCS7_SIGNED sgn;
	p7.d.sign = &sgn; sgn.cert = (STACK_OF(X509) *)o_chain;
	struct KSI_PKISignature_st sig = {ctx, &p7};
	struct KSI_PKITruststore_st pki = {ctx, (X509_STORE *)o_store};
	static const unsigned char data[4] = {1, 2, 3, 4};
	size_t data_len = ND(size_t, data_len);

	int res = KSI_PKITruststore_verifyPKISignature(&pki, data, data_len, &sig, fileC);

	/* ---- oracle ---- */
	int all_match = 1;
	for (int i = 0; i < MAXC; i++) if (i < nact) {
		unsigned j = base + (unsigned)i;
		int m = o.txt2obj[j] == 1 && o.oid_ok[j] && o.gettext[j] == 1 && o.text_ret[j] >= 0;
		/* string equality: same length and the same characters */
		if (tlen[i] != vlen[i]) m = 0;
		for (unsigned k = 0; k < LMAX; k++) if (m && k < tlen[i] && o.text[j][k] != active[i].val[k]) m = 0;
		if (!m) all_match = 0;
	}
	unsigned other_lookups = 0;
	for (unsigned j = 0; j < 2 * MAXC; j++) if (j < base || j >= base + MAXC) other_lookups += o.txt2obj[j];
	if (res == KSI_OK) {
		CHECK(data_len <= 0x7fffffff && o.p7_calls == 1 && o.p7_ret == 1 && o.p7_arg == &p7 && o.p7_in == (BIO *)o_bio && o.bio_buf == data && o.bio_len == (int)data_len,
			"C18.H2b trusted only if PKCS7_verify succeeded on the signature over exactly the given bytes and length");
		/* (the 4th argument of X509_STORE_CTX_init, signature->pkcs7->d.sign->cert, is recorded but NOT checked: CBMC 6.11
		 * mis-evaluates a member chain through a union member behind a pointer - "pp->d.sign->cert" reads NULL while the same
		 * access split into two statements reads the right value; reproducer in MUTATIONS.md.  The native replay sees o_chain.) */
		CHECK(o.verify_calls == 1 && o.verify_ret == 1 && o.init_cert == (X509 *)o_x509_copy[0] && o.init_store == (X509_STORE *)o_store,
			"C18.H2b trusted only if the extracted signer certificate verified against the truststore's store");
		CHECK(nact >= 1, "C18.H2b trusted only if at least one certificate constraint is configured");
		CHECK(all_match && o.subj_calls == 1, "C18.H2b trusted only if every configured constraint matches the signer certificate's subject");
#ifdef W_TRUSTED
		WITNESS_POINT("trusted");
#endif
	} else {
		/* completeness: if everything OpenSSL reported is positive and all constraints match, the file is trusted */
		int everything_ok = data_len <= 0x7fffffff && o.p7_calls == 1 && o.p7_ret == 1 && o.verify_calls == 1 && o.verify_ret == 1 && nact >= 1 && o.subj_calls == 1 && all_match;
		CHECK(!everything_ok, "C18.H2b a signature that verifies, chains to the truststore and matches all constraints is trusted");
		if (o.p7_calls == 1 && o.p7_ret == 1 && o.verify_calls == 1 && o.verify_ret == 1) {
			if (nact < 1) CHECK(res == KSI_PUBFILE_VERIFICATION_NOT_CONFIGURED, "C18.H2b without any configured constraint verification is reported as not configured");
#if NFILE >= 1 || (NFILE < 0 && NCTX >= 1)
			if (o.subj_calls == 1 && o.gettext[base] == 1 && o.text_ret[base] >= 0) {
				int same = (tlen[0] == vlen[0]), common = 1;     /* common: equal on the shorter of the two lengths */
				for (unsigned k = 0; k < LMAX; k++) if (k < tlen[0] && k < vlen[0] && o.text[base][k] != active[0].val[k]) common = 0;
				if (!common) same = 0;
				if (!same) {
					CHECK(res == KSI_PKI_CERTIFICATE_NOT_TRUSTED, "C18.H2b a subject value that differs from the first constraint makes the certificate not trusted");
#ifndef W_NO_MISMATCH   /* instance in which text and first value are both empty: they cannot differ */
					WITNESS_POINT("constraint mismatch refused");
#endif
#ifdef W_PREFIX
					if (common) WITNESS_POINT("text and value agree on the shorter length only (prefix): refused");
#endif
				}
			}
			if (o.subj_calls == 1 && o.gettext[base] == 1 && o.text_ret[base] < 0) CHECK(res == KSI_PKI_CERTIFICATE_NOT_TRUSTED, "C18.H2b a subject without the constrained attribute is not trusted");
#endif
		}
		if (o.p7_calls == 1 && o.p7_ret == 0) { CHECK(res == KSI_INVALID_PKI_SIGNATURE, "C18.H2b a PKCS#7 signature that does not verify is an invalid PKI signature"); WITNESS_POINT("bad signature refused"); }
	}
	CHECK(other_lookups == 0, "C18.H2b only the applicable constraint set is consulted (the file's own set if it has one, else the context's)");
	CHECK(o.frees == o.dups && !o.double_free && o.bio_free == o.bio_ok, "C18.H2b every certificate copy and the memory BIO are released exactly once");
	CHECK(o.p7_flags == PKCS7_NOVERIFY || o.p7_calls == 0, "C18.H2b PKCS7_verify is asked for the signature only (chain validation is done separately against the truststore)");
	free(fileC); free(ctxC);
}
