/* C09 H-2: KSI_FTLV_memReadN tiles the buffer: the elements it reports are consecutive, start at
 * offset 0, each decodes as the reference says, and the call succeeds exactly when the first
 * min(arr_len, all) elements are complete (with arr_len elements requested it stops after them). */
#include "verif.h"
#include "internal.h"
#include "fast_tlv.c"
#ifndef N
#define N 8
#endif
#define ARR 3
static int ref_elem(const u8 *b, size_t l, size_t *hdr, size_t *dat, unsigned *tag) {
	if (l < 2) return 0;
	if (b[0] & 0x80) { if (l < 4) return 0; *hdr = 4; *tag = ((b[0] & 0x1f) << 8) | b[1]; *dat = ((size_t)b[2] << 8) | b[3]; }
	else { *hdr = 2; *tag = b[0] & 0x1f; *dat = b[1]; }
	return l >= *hdr + *dat;
}
void harness(void) {
	size_t l = ND(size_t, len); ASSUME(l >= 1 && l <= N);
	u8 *buf = verif_buf_alloc(l);
	for (size_t i = 0; i < N; i++) { u8 b = ND(u8, buf); if (i < l) buf[i] = b; }
	size_t arr_len = ND(size_t, arr_len); ASSUME(arr_len >= 1 && arr_len <= ARR);
	KSI_FTLV arr[ARR]; size_t rd = 77;
	int res = KSI_FTLV_memReadN(buf, l, arr, arr_len, &rd);
	/* reference tiling */
	size_t off = 0, cnt = 0; int ok = 1; size_t roff[ARR], rh[ARR], rdl[ARR]; unsigned rt[ARR];
	for (unsigned k = 0; k < ARR; k++) {
		if (ok && cnt < arr_len && off < l) {
			size_t h = 0, d = 0; unsigned t = 0;
			if (!ref_elem(buf + off, l - off, &h, &d, &t)) ok = 0;
			else { roff[cnt] = off; rh[cnt] = h; rdl[cnt] = d; rt[cnt] = t; off += h + d; cnt++; }
		}
	}
	CHECK((res == KSI_OK) == (ok != 0), "C09.H2 memReadN succeeds iff the requested leading elements are complete");
	if (res == KSI_OK) {
		CHECK(rd == cnt, "C09.H2 memReadN element count");
		for (unsigned k = 0; k < ARR; k++) if (k < cnt)
			CHECK(arr[k].off == roff[k] && arr[k].hdr_len == rh[k] && arr[k].dat_len == rdl[k] && arr[k].tag == rt[k], "C09.H2 memReadN elements tile the buffer with the encoded tags and lengths");
		if (cnt == 3) WITNESS_POINT("three elements");
		if (cnt == 1 && off == l) WITNESS_POINT("one element exactly filling the buffer");
	} else if (l >= 5) WITNESS_POINT("truncated second element rejected");
	verif_buf_free(buf, l);
}
