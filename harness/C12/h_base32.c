/* C12 H-base32: KSI_base32Decode and KSI_PublicationData_fromBase32 on every NUL-terminated string of LEN
 * characters (exact-size heap object, LEN concrete per instance, characters symbolic): termination, no access
 * outside the input or the decode buffer, everything handed out is freed again (leak check on).
 * What the decoder returns (digit mapping, padding) is C17's subject; here only:
 * decoded length <= LEN*5/8, and error codes from the documented set. */
#include "verif.h"
#include "internal.h"
#include "base32.h"
#include "publicationsfile.h"
#include "ctx.h"
#include "verif_post.h"

#ifndef LEN
#define LEN 4
#endif

void harness(void) {
	VERIF_ctx_init();
	KSI_CTX *ctx = VERIF_ctx;
	char *s = (char *)verif_buf_alloc(LEN + 1);
	for (unsigned i = 0; i < LEN; i++) { char c = (char)ND(u8, ch); ASSUME(c != 0); s[i] = c; }
	s[LEN] = 0;
#ifdef H_DECODE
	unsigned char *out = NULL; size_t outlen = 12345;
	int res = KSI_base32Decode(s, &out, &outlen);
	CHECK(res == KSI_OK || res == KSI_INVALID_FORMAT, "C12.base32 decode returns KSI_OK or KSI_INVALID_FORMAT");
	if (res == KSI_OK) {
		CHECK(out != NULL && outlen <= (LEN * 5) / 8, "C12.base32 decoded length is at most 5/8 of the input length");
#if LEN >= 8
		if (outlen == 5) WITNESS_POINT("eight symbols decoded to five octets");
#endif
#if LEN >= 2
		if (s[0] == '-' && outlen == 0) WITNESS_POINT("separator skipped");
		if (s[0] == '=') WITNESS_POINT("padding stops decoding");
#endif
		WITNESS_POINT("decoded");
	} else {
		CHECK(out == NULL && outlen == 12345, "C12.base32 nothing returned on rejection");
#if LEN >= 1
		WITNESS_POINT("invalid character rejected");
#endif
	}
	KSI_free(out);
#else
	KSI_PublicationData *pd = NULL;
	int res = KSI_PublicationData_fromBase32(ctx, s, &pd);
	CHECK((res == KSI_OK) == (pd != NULL), "C12.base32 fromBase32 returns an object exactly on KSI_OK");
	/* the shortest publication string (SHA-1 sized) has 53 symbols: shorter inputs must be refused */
	CHECK(res != KSI_OK, "C12.base32 fromBase32 refuses strings shorter than any publication");
	WITNESS_POINT("short publication string refused");
	KSI_PublicationData_free(pd);
#endif
	verif_buf_free((u8 *)s, LEN + 1);
}
