/* c06_pdu.h - shared parts of the C06 PDU harnesses (include AFTER `#include "types.c"`: the PDU structs are
 * private to types.c, which is why these harnesses include it instead of listing it in "tus").
 *
 *  - PDU_EXT=0: aggregation PDU family, PDU_EXT=1: extender PDU family (same harness text for both)
 *  - capture stub for KSI_HMAC_create: records (ctx, algorithm, key pointer, data pointer, length, the first
 *    C06_CAP data bytes at the time of the call); returns a symbolic status and, on KSI_OK, the object c06_mac_ret
 *  - capture stub for KSI_TlvTemplate_serializeObject: records (object, tag, template), lets the harness look at the
 *    object at serialization time (hook), returns a KSI_malloc'ed buffer of C06_SERLEN symbolic bytes
 *  - c06_hashlen(): digest lengths from the algorithm definitions (KSI hash algorithm registry), independent of hash.c */
#ifndef C06_PDU_H_
#define C06_PDU_H_

#ifndef PDU_EXT
#define PDU_EXT 0
#endif
#if PDU_EXT
typedef KSI_ExtendPdu PDU;
typedef KSI_ExtendReq REQ;
typedef KSI_ExtendResp RESP;
#define PDU_new KSI_ExtendPdu_new
#define PDU_free KSI_ExtendPdu_free
#define REQ_new KSI_ExtendReq_new
#define RESP_new KSI_ExtendResp_new
#define PDU_calculateHmac KSI_ExtendPdu_calculateHmac
#define PDU_verify KSI_ExtendPdu_verify
#define PDU_verifyHmac KSI_ExtendPdu_verifyHmac
#define PDU_updateHmac KSI_ExtendPdu_updateHmac
#define REQ_encloseWithHeader KSI_ExtendReq_encloseWithHeader
#define OPT_PDU_VER KSI_OPT_EXT_PDU_VER
#define OPT_HMAC_ALG KSI_OPT_EXT_HMAC_ALGORITHM
#define TAG_V1_REQ 0x301
#define TAG_V1_RESP 0x302
#define TAG_V2_REQPDU 0x320
#define TAG_V2_RESPPDU 0x321
#define TMPL_V1_REQ KSI_TLV_TEMPLATE(KSI_ExtendReq)
#define TMPL_V1_RESP KSI_TLV_TEMPLATE(KSI_ExtendResp)
#define TMPL_V2_REQPDU KSI_TLV_TEMPLATE(KSI_ExtendReqPdu)
#else
typedef KSI_AggregationPdu PDU;
typedef KSI_AggregationReq REQ;
typedef KSI_AggregationResp RESP;
#define PDU_new KSI_AggregationPdu_new
#define PDU_free KSI_AggregationPdu_free
#define REQ_new KSI_AggregationReq_new
#define RESP_new KSI_AggregationResp_new
#define PDU_calculateHmac KSI_AggregationPdu_calculateHmac
#define PDU_verify KSI_AggregationPdu_verify
#define PDU_verifyHmac KSI_AggregationPdu_verifyHmac
#define PDU_updateHmac KSI_AggregationPdu_updateHmac
#define REQ_encloseWithHeader KSI_AggregationReq_encloseWithHeader
#define OPT_PDU_VER KSI_OPT_AGGR_PDU_VER
#define OPT_HMAC_ALG KSI_OPT_AGGR_HMAC_ALGORITHM
#define TAG_V1_REQ 0x201
#define TAG_V1_RESP 0x202
#define TAG_V2_REQPDU 0x220
#define TAG_V2_RESPPDU 0x221
#define TMPL_V1_REQ KSI_TLV_TEMPLATE(KSI_AggregationReq)
#define TMPL_V1_RESP KSI_TLV_TEMPLATE(KSI_AggregationResp)
#define TMPL_V2_REQPDU KSI_TLV_TEMPLATE(KSI_AggregationReqPdu)
#endif

/* digest length by algorithm id (KSI hash algorithm registry); 0 = not a defined algorithm */
static unsigned c06_hashlen(long long alg) {
	switch (alg) {
	case 0x00: return 20;  /* SHA-1 */
	case 0x01: return 32;  /* SHA2-256 */
	case 0x02: return 20;  /* RIPEMD-160 */
	case 0x04: return 48;  /* SHA2-384 */
	case 0x05: return 64;  /* SHA2-512 */
	case 0x07: return 28;  /* SHA3-224 */
	case 0x08: return 32;  /* SHA3-256 */
	case 0x09: return 48;  /* SHA3-384 */
	case 0x0a: return 64;  /* SHA3-512 */
	case 0x0b: return 32;  /* SM3 */
	default: return 0;
	}
}
/* algorithms that may be used for new MACs: everything defined except SHA-1 (deprecated since 2016-07-01) */
static int c06_trusted(long long alg) { return c06_hashlen(alg) != 0 && alg != 0x00; }

#ifndef C06_CAP
#define C06_CAP 48
#endif
static struct {
	unsigned calls;
	KSI_CTX *ctx; long long alg; const char *key; const unsigned char *data; size_t len;
	u8 copy[C06_CAP];
} c06_mac;
static KSI_DataHash *c06_mac_ret;     /* what the stub hands out on success (built by the harness) */
static int c06_mac_status;            /* status the stub returned at the last call */

int KSI_HMAC_create(KSI_CTX *ctx, KSI_HashAlgorithm algo_id, const char *key, const unsigned char *data, size_t data_len, KSI_DataHash **hmac) {
	c06_mac.calls++;
	c06_mac.ctx = ctx; c06_mac.alg = (long long)algo_id; c06_mac.key = key; c06_mac.data = data; c06_mac.len = data_len;
	for (unsigned i = 0; i < C06_CAP; i++) c06_mac.copy[i] = (i < data_len) ? data[i] : 0;
	int r = ND(int, hmac_status);
	c06_mac_status = r;
	if (r != KSI_OK) return r;
	*hmac = KSI_DataHash_ref(c06_mac_ret);
	return KSI_OK;
}

/* destructors of response members that live in TUs not linked here (hashchain.c, signature.c, tlv.c): the harness
 * never creates such members, so the destructors may only ever see NULL - which is asserted */
#ifdef C06_NULL_DTORS
#define C06_DTOR(T) void T##_free(T *p) { __CPROVER_assert(p == NULL, "CHECK C06 unlinked destructor " #T "_free only called with NULL"); }
C06_DTOR(KSI_CalendarHashChain)
C06_DTOR(KSI_CalendarAuthRec)
C06_DTOR(KSI_AggregationAuthRec)
C06_DTOR(KSI_TLV)
void KSI_AggregationHashChainList_free(KSI_LIST(KSI_AggregationHashChain) *p) { __CPROVER_assert(p == NULL, "CHECK C06 unlinked destructor KSI_AggregationHashChainList_free only called with NULL"); }
#endif

#ifndef C06_SERLEN
#define C06_SERLEN 40
#endif
#define C06_MAXSER 3
static struct {
	unsigned calls;
	const void *obj[C06_MAXSER]; unsigned tag[C06_MAXSER]; const KSI_TlvTemplate *tmpl[C06_MAXSER];
	unsigned char *buf[C06_MAXSER];
	u8 bytes[C06_MAXSER][C06_SERLEN];
} c06_ser;
static void c06_ser_hook(const void *obj, unsigned tag);   /* defined by the harness: observes the object being serialized */

int KSI_TlvTemplate_serializeObject(KSI_CTX *ctx, const void *obj, unsigned tag, int isNc, int isFwd, const KSI_TlvTemplate *tmpl, unsigned char **raw, size_t *raw_len) {
	(void)ctx; (void)isNc; (void)isFwd;
	unsigned k = c06_ser.calls < C06_MAXSER ? c06_ser.calls : C06_MAXSER - 1;
	c06_ser.calls++;
	c06_ser.obj[k] = obj; c06_ser.tag[k] = tag; c06_ser.tmpl[k] = tmpl;
	c06_ser_hook(obj, tag);
	int r = ND(int, ser_status);
	if (r != KSI_OK) return r;
	unsigned char *b = KSI_malloc(C06_SERLEN);
	__CPROVER_assume(b != NULL);
	for (unsigned i = 0; i < C06_SERLEN; i++) { u8 v = ND(u8, ser_byte); b[i] = v; c06_ser.bytes[k][i] = v; }
	c06_ser.buf[k] = b;
	*raw = b; *raw_len = C06_SERLEN;
	return KSI_OK;
}
#endif
