/* C15 H-4: KSI_HighAvailabilityRequest_new on a RECYCLED wrapper (ctx->haRequestRecycle, filled by the library's own
 * release path KSI_HighAvailabilityRequest_free) must return an object indistinguishable from a freshly allocated one.
 * Inductive style: the wrapper is released with ARBITRARY field contents (any expected-reply count - e.g. 2 replies
 * still outstanding when the service was freed -, any flags, with or without a user handle), then the constructor is
 * called.  A stale expected-reply count would keep a later all-fail request from ever being completed (see the
 * recycled_* instances of h1_request for that scenario end to end). */
#define HN "C15.H4"
#include "verif.h"
#include "internal.h"
#include "net_ha.h"
#include "net_async.h"
#include "ctx.h"
#include "verif_post.h"
#include "c13_model.h"
#include "net_async.c"
#include "net_ha.c"

KSI_IMPLEMENT_LIST(KSI_AsyncHandle, KSI_AsyncHandle_free)                          /* types.c:201-203 */
KSI_IMPLEMENT_LIST(KSI_HighAvailabilityRequest, KSI_HighAvailabilityRequest_free)
KSI_IMPLEMENT_LIST(KSI_AsyncService, KSI_AsyncService_free)
int KSI_AbstractAsyncService_new(KSI_CTX *ctx, KSI_AsyncService **service) { (void)ctx; (void)service; return KSI_UNKNOWN_ERROR; }
int KSI_isHashAlgorithmTrusted(KSI_HashAlgorithm a) { (void)a; return 1; }
const char *KSI_getHashAlgorithmName(KSI_HashAlgorithm a) { (void)a; return "alg"; }
int KSI_TcpAsyncClient_new(KSI_CTX *ctx, KSI_AsyncClient **c) { (void)ctx; (void)c; return KSI_UNKNOWN_ERROR; }
int KSI_HttpAsyncClient_new(KSI_CTX *ctx, KSI_AsyncClient **c) { (void)ctx; (void)c; return KSI_UNKNOWN_ERROR; }

#ifndef OLD_HAS_HANDLE
#define OLD_HAS_HANDLE 1      /* shape: the released wrapper still referred to a user handle */
#endif

void harness(void) {
	VERIF_ctx_init();
	KSI_CTX *ctx = VERIF_ctx;
	int res;
	res = KSI_HighAvailabilityRequestList_new(&ctx->haRequestRecycle); ASSUME(res == KSI_OK);   /* as KSI_CTX_new does (base.c:331) */

	/* a wrapper at the end of its life, in an arbitrary state */
	KSI_HighAvailabilityRequest *old = NULL;
	KSI_AsyncHandle *oldUser = NULL;
#if OLD_HAS_HANDLE
	res = KSI_AbstractAsyncHandle_new(ctx, &oldUser); ASSUME(res == KSI_OK);
	KSI_AsyncHandle_ref(oldUser);                         /* observer */
#endif
	res = KSI_HighAvailabilityRequest_new(ctx, oldUser, &old); ASSUME(res == KSI_OK && old != NULL);
	old->expectedRespCount = ND(size_t, stale_count);
	old->hasReq = ND_BOOL(stale_has_req);
	old->hasCnf = ND_BOOL(stale_has_cnf);
	KSI_HighAvailabilityRequest_free(old);                /* the library's release path: last reference -> recycle list */
	CHECK(KSI_HighAvailabilityRequestList_length(ctx->haRequestRecycle) == 1, HN " released wrapper goes to the recycle list");
#if OLD_HAS_HANDLE
	CHECK(oldUser->ref == 1, HN " released wrapper lets go of its user handle");
#endif

	/* construction from the recycle list */
	KSI_AsyncHandle *user = NULL;
	res = KSI_AbstractAsyncHandle_new(ctx, &user); ASSUME(res == KSI_OK);
	KSI_HighAvailabilityRequest *o = NULL;
	res = KSI_HighAvailabilityRequest_new(ctx, user, &o);
	CHECK(res == KSI_OK && o != NULL, HN " construction from the recycle list succeeds");
	CHECK(o == old && KSI_HighAvailabilityRequestList_length(ctx->haRequestRecycle) == 0, HN " the recycled wrapper is the one handed out");
	CHECK(o->expectedRespCount == 0, HN " recycled wrapper: expected-reply counter starts at 0");
	CHECK(o->hasReq == false && o->hasCnf == false, HN " recycled wrapper: request-part flags cleared");
	CHECK(o->ctx == ctx && o->ref == 1 && o->asyncHandle == user, HN " recycled wrapper: context, single reference and the new user handle");
	if (old->expectedRespCount == 0) WITNESS_POINT("recycled wrapper handed out clean");

	/* and it is released like a fresh one */
	KSI_HighAvailabilityRequest_free(o);
	CHECK(KSI_HighAvailabilityRequestList_length(ctx->haRequestRecycle) == 1, HN " wrapper recycled again after use");
}
